(* Theory/Ops.v — operator-level theorems for kingdon's generated operators (Model/Codegen.v):
     C03  op / ip / lc / rc / sp are grade-selected parts of the geometric product,
          ip + sp = lc + rc, cp / acp are the (anti)commutator halves of gp,
     C04  the involutions are grade-wise signs, involutive, (anti)automorphisms of gp; grade selection,
     C05  hodge / unhodge are mutually inverse, blade ^ hodge blade = pss, the regressive product is
          unhodge (hodge x ^ hodge y), pss is its unit, polarity / unpolarity are mutually inverse
          (multiplication by the inverse pseudoscalar / the pseudoscalar), the decision rule of dual.
   Conventions of Theory/Sparse.v and Theory/Product.v: abstract commutative ring given by Section
   variables and a ring_theory, O := mkOps R radd rsub rmul ropp rO rI.  The algebra A is abstract;
   the facts on its sign table are SECTION HYPOTHESES (proved elsewhere for well-formed algebras);
   after [End] every theorem keeps only the hypotheses its proof uses. *)
From Coq Require Import List ZArith Bool Ring Lia Permutation.
From KV Require Import Model.Codegen Theory.Sign Theory.Bits Theory.Sparse Theory.Product.
Import ListNotations.

Declare Scope kvr_scope.
Delimit Scope kvr_scope with r.

(* ---------- ring-independent definitions ---------- *)

(* the grade selections  <a_r b_s>_t  that define the products *)
Definition sel_op (r s t : Z) : bool := Z.eqb t (r + s).
Definition sel_ip (r s t : Z) : bool := Z.eqb t (Z.abs (r - s)).
Definition sel_lc (r s t : Z) : bool := Z.eqb t (s - r).
Definition sel_rc (r s t : Z) : bool := Z.eqb t (r - s).
Definition sel_sp (r s t : Z) : bool := Z.eqb t 0.

Definition grade (k : Z) : Z := popcount k.

(* grade g requested *)
Definition grade_in (grades : list nat) (k : Z) : bool :=
  existsb (fun g => Z.eqb (Z.of_nat g) (grade k)) grades.

Lemma NoDup_map_filter {A B} (f : A -> B) (P : A -> bool) (l : list A) :
  NoDup (map f l) -> NoDup (map f (filter P l)).
Proof.
  induction l as [|a l IH]; cbn [map filter]; intros H.
  - constructor.
  - inversion H as [|? ? Ha Hl]; subst. destruct (P a); cbn [map].
    + constructor; [|apply IH; exact Hl].
      intros Hin. apply Ha. apply in_map_iff in Hin. destruct Hin as [b [E Hb]].
      apply filter_In in Hb. rewrite <- E. apply in_map. apply Hb.
    + apply IH. exact Hl.
Qed.

Lemma NoDup_flat_map_disjoint {A B} (f : A -> list B) (l : list A) :
  NoDup l -> (forall a, In a l -> NoDup (f a)) ->
  (forall a a' b, In a l -> In a' l -> In b (f a) -> In b (f a') -> a = a') ->
  NoDup (flat_map f l).
Proof.
  induction l as [|a l IH]; cbn [flat_map]; intros Hl Hf Hd.
  - constructor.
  - inversion Hl as [|? ? Ha Hl']; subst.
    assert (IH' : NoDup (flat_map f l)).
    { apply IH; [exact Hl' | intros; apply Hf; right; assumption |].
      intros a1 a2 b H1 H2. apply Hd; right; assumption. }
    assert (Hfa : NoDup (f a)) by (apply Hf; left; reflexivity).
    assert (Hdis : forall b, In b (f a) -> ~ In b (flat_map f l)).
    { intros b Hb Hin. apply in_flat_map in Hin. destruct Hin as [a' [Ha' Hb']].
      assert (E : a = a') by (apply (Hd a a' b); [left; reflexivity | right; exact Ha' | exact Hb | exact Hb']).
      subst a'. contradiction. }
    clear Hd Hf. induction (f a) as [|b r IHr]; cbn [app].
    + exact IH'.
    + inversion Hfa as [|? ? Hb Hr]; subst. constructor.
      * rewrite in_app_iff. intros [H|H]; [contradiction|].
        apply (Hdis b); [left; reflexivity | exact H].
      * apply IHr; [exact Hr|]. intros b' Hb'. apply Hdis. right. exact Hb'.
Qed.

Lemma strictly_inc_lt (a : nat) (l : list nat) :
  strictly_inc (a :: l) = true -> forall b, In b l -> (a < b)%nat.
Proof.
  revert a. induction l as [|c l IH]; intros a H b Hb.
  - destruct Hb.
  - cbn [strictly_inc] in H. apply andb_true_iff in H. destruct H as [H1 H2].
    apply Nat.ltb_lt in H1. destruct Hb as [E|Hb].
    + subst c. exact H1.
    + specialize (IH c H2 b Hb). lia.
Qed.

Lemma strictly_inc_tail (a : nat) (l : list nat) : strictly_inc (a :: l) = true -> strictly_inc l = true.
Proof.
  destruct l as [|c l]; [reflexivity|]. cbn [strictly_inc]. intros H.
  apply andb_true_iff in H. apply H.
Qed.

Lemma strictly_inc_NoDup (l : list nat) : strictly_inc l = true -> NoDup l.
Proof.
  induction l as [|a l IH]; intros H.
  - constructor.
  - constructor.
    + intros Hin. pose proof (strictly_inc_lt a l H a Hin). lia.
    + apply IH. apply (strictly_inc_tail a l H).
Qed.

Section Ops.
  Variable R : Type.
  Variables (rO rI : R) (radd rmul rsub : R -> R -> R) (ropp : R -> R).
  Hypothesis Rth : ring_theory rO rI radd rmul rsub ropp (@eq R).
  Add Ring Rring : Rth.
  Local Notation O := (mkOps R radd rsub rmul ropp rO rI).
  Local Notation "a + b" := (radd a b) : kvr_scope.
  Local Notation "a * b" := (rmul a b) : kvr_scope.
  Local Notation "a - b" := (rsub a b) : kvr_scope.
  Local Notation "- a" := (ropp a) : kvr_scope.
  Local Notation rsum := (Sparse.rsum rO radd).
  Local Notation equiv := (Sparse.equiv rO rI radd rmul rsub ropp).
  Local Infix "==" := equiv (at level 70, no associativity).
  Local Notation contrib := (Product.contrib rO rmul ropp).
  Local Notation RT l := (l R rO rI radd rmul rsub ropp Rth) (only parsing).
  Local Open Scope Z_scope.

  Variable A : alg.
  Local Notation nd := (Z.of_nat (a_d A)).
  Local Notation L := (alg_len A).
  Local Notation p := (pss_key A).
  Local Notation s := (sgn A).

  Hypothesis Hkeys  : forall k, In k (canon_keys A) <-> 0 <= k < L.
  Hypothesis Hnodup : NoDup (canon_keys A).
  Hypothesis Hval   : forall I J, 0 <= I < L -> 0 <= J < L -> s I J = 1 \/ s I J = -1 \/ s I J = 0.
  Hypothesis Hswap  : forall I J, 0 <= I < L -> 0 <= J < L ->
      s J I = par (Z.odd (popcount I * popcount J - popcount (Z.land I J))) * s I J.
  Hypothesis Hassoc : forall I J K, 0 <= I < L -> 0 <= J < L -> 0 <= K < L ->
      s I J * s (Z.lxor I J) K = s J K * s I (Z.lxor J K).
  Hypothesis Hdisj  : forall I J, 0 <= I < L -> 0 <= J < L -> Z.land I J = 0 -> s I J = 1 \/ s I J = -1.
  Hypothesis Hscal  : forall I, 0 <= I < L -> s 0 I = 1 /\ s I 0 = 1.
  Hypothesis Hgrade : forall n b, In (n, b) (a_c2b A) -> Z.of_nat (length n) = popcount b.

  (* a multivector with pairwise distinct keys, all of them keys of the algebra *)
  Definition wfmv (x : mv R) : Prop := NoDup (keys x) /\ forall k, In k (keys x) -> 0 <= k < L.

  Ltac ops := cbn [o_add o_sub o_mul o_neg o_zero o_one].

  (* ================= 0. keys in range ================= *)

  Lemma nd_nonneg : 0 <= nd.
  Proof. lia. Qed.

  Lemma L_pos : 0 < L.
  Proof. unfold alg_len. apply pow2_pos. lia. Qed.

  Lemma inr_ones K : 0 <= K < L -> 0 <= K <= 2 ^ nd - 1.
  Proof. unfold alg_len. lia. Qed.

  Lemma inr_0 : 0 <= 0 < L.
  Proof. pose proof L_pos. lia. Qed.

  Lemma inr_p : 0 <= p < L.
  Proof. pose proof L_pos. unfold pss_key. lia. Qed.

  Lemma inr_compl K : 0 <= K < L -> 0 <= p - K < L.
  Proof. unfold pss_key. lia. Qed.

  Lemma compl_compl K : p - (p - K) = K.
  Proof. lia. Qed.

  Lemma inr_lxor a b : 0 <= a < L -> 0 <= b < L -> 0 <= Z.lxor a b < L.
  Proof.
    intros Ha Hb.
    pose proof (lxor_le_ones nd a b nd_nonneg (inr_ones a Ha) (inr_ones b Hb)) as H.
    unfold alg_len. lia.
  Qed.

  Lemma land_compl a : 0 <= a < L -> Z.land a (p - a) = 0.
  Proof. intros Ha. apply (ones_sub_land nd a nd_nonneg (inr_ones a Ha)). Qed.

  Lemma land_compl' a : 0 <= a < L -> Z.land (p - a) a = 0.
  Proof. intros Ha. rewrite Z.land_comm. apply land_compl. exact Ha. Qed.

  Lemma lxor_pss_r a : 0 <= a < L -> Z.lxor a p = p - a.
  Proof.
    intros Ha. rewrite Z.lxor_comm. symmetry.
    apply (ones_sub_lxor nd a nd_nonneg (inr_ones a Ha)).
  Qed.

  Lemma lxor_pss_l a : 0 <= a < L -> Z.lxor p a = p - a.
  Proof. intros Ha. rewrite Z.lxor_comm. apply lxor_pss_r. exact Ha. Qed.

  Lemma lxor_compl a : 0 <= a < L -> Z.lxor a (p - a) = p.
  Proof.
    intros Ha. rewrite <- (Z.add_nocarry_lxor a (p - a) (land_compl a Ha)). lia.
  Qed.

  Lemma lxor_compl_compl a b : 0 <= a < L -> 0 <= b < L -> Z.lxor (p - a) (p - b) = Z.lxor a b.
  Proof.
    intros Ha Hb. apply compl_lxor_lxor.
    - apply (le_ones_subset nd a nd_nonneg (inr_ones a Ha)).
    - apply (le_ones_subset nd b nd_nonneg (inr_ones b Hb)).
  Qed.

  Lemma inr_canon K : 0 <= K < L -> In K (canon_keys A).
  Proof using Hkeys. intros H. apply Hkeys. exact H. Qed.

  Lemma wfmv_nodup x : wfmv x -> NoDup (keys x).
  Proof. intros H. apply H. Qed.

  Lemma wfmv_incl x : wfmv x -> incl (keys x) (canon_keys A).
  Proof using Hkeys. intros [_ H] k Hk. apply Hkeys. apply H. exact Hk. Qed.

  Lemma wfmv_in x k v : wfmv x -> In (k, v) x -> 0 <= k < L.
  Proof. intros [_ H] Hin. apply H. change k with (fst (k, v)). apply in_map. exact Hin. Qed.

  Lemma wfmv_canon_sort (z : mv R) : wfmv (canon_sort A z).
  Proof using Hkeys Hnodup.
    split.
    - apply NoDup_keys_canon_sort. exact Hnodup.
    - intros k Hk. apply Hkeys. apply (keys_canon_sort_incl R A z k Hk).
  Qed.

  Lemma wfmv_single k v : 0 <= k < L -> wfmv [(k, v)].
  Proof.
    intros Hk. split.
    - cbn [keys map fst]. constructor; [intros [] | constructor].
    - intros k' [E|[]]. cbn [fst] in E. subst k'. exact Hk.
  Qed.

  Lemma wfmv_pss : wfmv (pss_mv O A).
  Proof. apply wfmv_single. apply inr_p. Qed.

  Lemma coeff_out x K : wfmv x -> ~ (0 <= K < L) -> coeff O K x = rO.
  Proof. intros [_ H] HK. apply coeff_notin. intros Hin. apply HK. apply H. exact Hin. Qed.

  Lemma coeff_sorted_out (z : mv R) K : ~ (0 <= K < L) -> coeff O K (canon_sort A z) = rO.
  Proof using Hkeys. intros HK. apply coeff_canon_sort_notin. intros Hin. apply HK. apply Hkeys. exact Hin. Qed.

  (* two well-formed multivectors are equivalent when they agree on the keys of the algebra *)
  Lemma equiv_inrange x y :
    wfmv x -> wfmv y -> (forall K, 0 <= K < L -> coeff O K x = coeff O K y) -> x == y.
  Proof.
    intros Hx Hy H K.
    destruct (Z_le_dec 0 K) as [H0|H0]; [destruct (Z_lt_dec K L) as [H1|H1]|].
    - apply H. lia.
    - rewrite (coeff_out x K Hx), (coeff_out y K Hy) by lia. reflexivity.
    - rewrite (coeff_out x K Hx), (coeff_out y K Hy) by lia. reflexivity.
  Qed.

  (* ================= 0'. signs in the ring ================= *)

  (* the image of a sign in the ring *)
  Definition sg (z : Z) : R := if Z.eqb z 0 then rO else if Z.ltb 0 z then rI else (- rI)%r.
  Definition fl (b : bool) (v : R) : R := if b then (- v)%r else v.

  Lemma sg_0 : sg 0 = rO. Proof. reflexivity. Qed.
  Lemma sg_1 : sg 1 = rI. Proof. reflexivity. Qed.
  Lemma sg_m1 : sg (-1) = (- rI)%r. Proof. reflexivity. Qed.

  Lemma sg_mul a b : sg (a * b) = (sg a * sg b)%r.
  Proof.
    unfold sg. destruct a as [|a|a], b as [|b|b];
      cbn [Z.mul Z.eqb Z.ltb Z.compare]; ring.
  Qed.

  Lemma sg_par b : sg (par b) = if b then (- rI)%r else rI.
  Proof. destruct b; reflexivity. Qed.

  Lemma fl_sg b v : fl b v = (sg (par b) * v)%r.
  Proof. rewrite sg_par. unfold fl. destruct b; ring. Qed.

  (* the sign test of the Hodge maps, for a sign that is +-1 *)
  Lemma ltb_sg z v : z = 1 \/ z = -1 -> (if Z.ltb z 0 then (- v)%r else v) = (sg z * v)%r.
  Proof. intros [->| ->]; cbn [Z.ltb Z.compare]; rewrite ?sg_1, ?sg_m1; ring. Qed.

  Lemma contrib_sg sfun filt kout K kx vx ky vy :
    contrib sfun filt kout K ((kx, vx), (ky, vy))
    = if accepts filt kx ky (kout kx ky) && Z.eqb (kout kx ky) K
      then (sg (sfun kx ky) * (vx * vy))%r else rO.
  Proof.
    unfold Product.contrib, active, sg.
    destruct (Z.eqb (sfun kx ky) 0); cbn [negb andb].
    - destruct (accepts filt kx ky (kout kx ky) && Z.eqb (kout kx ky) K); [ring | reflexivity].
    - destruct (accepts filt kx ky (kout kx ky) && Z.eqb (kout kx ky) K); [|reflexivity].
      destruct (Z.ltb 0 (sfun kx ky)); ring.
  Qed.

  (* a filtered kernel is the geometric-product kernel restricted to the accepted pairs *)
  Lemma contrib_filter f K kx vx ky vy :
    contrib s (Some f) Z.lxor K ((kx, vx), (ky, vy))
    = if f kx ky (Z.lxor kx ky) then contrib s None Z.lxor K ((kx, vx), (ky, vy)) else rO.
  Proof.
    rewrite !contrib_sg. cbn [accepts]. destruct (f kx ky (Z.lxor kx ky)); cbn [andb]; reflexivity.
  Qed.

  (* sums over the stored pairs of two well-formed multivectors: only in-range keys matter *)
  Lemma rsum_pairs_ext (f g : (Z * R) * (Z * R) -> R) (x y : mv R) :
    wfmv x -> wfmv y ->
    (forall kx vx ky vy, 0 <= kx < L -> 0 <= ky < L -> f ((kx, vx), (ky, vy)) = g ((kx, vx), (ky, vy))) ->
    rsum (map f (list_prod x y)) = rsum (map g (list_prod x y)).
  Proof.
    intros Hx Hy H. apply rsum_map_ext. intros [[kx vx] [ky vy]] Hin.
    apply in_prod_iff in Hin. destruct Hin as [H1 H2].
    apply H; [apply (wfmv_in x kx vx Hx H1) | apply (wfmv_in y ky vy Hy H2)].
  Qed.

  (* the order of the two operands in a double sum over stored pairs *)
  Lemma rsum_pairs_swap (f : (Z * R) * (Z * R) -> R) (x y : mv R) :
    rsum (map f (list_prod y x)) = rsum (map (fun e => f (snd e, fst e)) (list_prod x y)).
  Proof.
    rewrite !(RT rsum_list_prod). cbn [fst snd].
    apply (RT rsum_swap) with (f := fun a b => f (a, b)).
  Qed.

  (* universe form of a sorted product: both sums range over the keys of the algebra *)
  Lemma sorted_coeff_U sfun filt kout (x y : mv R) K :
    wfmv x -> wfmv y -> 0 <= K < L ->
    coeff O K (canon_sort A (codegen_product O sfun filt kout x y))
    = rsum (map (fun a => rsum (map (fun b =>
          contrib sfun filt kout K ((a, coeff O a x), (b, coeff O b y))) (canon_keys A))) (canon_keys A)).
  Proof using Hkeys Hnodup Rth.
    intros Hx Hy HK. rewrite coeff_canon_sort_in by (apply inr_canon; exact HK).
    rewrite (RT product_coeff_universe sfun filt kout x y (canon_keys A) (canon_keys A) K
               (wfmv_nodup x Hx) (wfmv_nodup y Hy) Hnodup Hnodup (wfmv_incl x Hx) (wfmv_incl y Hy)).
    rewrite (RT rsum_list_prod). reflexivity.
  Qed.

  Lemma rsum_U_ext (f g : Z -> Z -> R) :
    (forall a b, 0 <= a < L -> 0 <= b < L -> f a b = g a b) ->
    rsum (map (fun a => rsum (map (fun b => f a b) (canon_keys A))) (canon_keys A))
    = rsum (map (fun a => rsum (map (fun b => g a b) (canon_keys A))) (canon_keys A)).
  Proof using Hkeys.
    intros H. apply rsum_map_ext. intros a Ha. apply rsum_map_ext. intros b Hb.
    apply H; apply Hkeys; assumption.
  Qed.

  (* the sum of a function that vanishes off one stored key *)
  Lemma rsum_pick (h : R -> R) k (x : mv R) :
    NoDup (keys x) -> h rO = rO ->
    rsum (map (fun kv => if Z.eqb (fst kv) k then h (snd kv) else rO) x) = h (coeff O k x).
  Proof using Rth.
    intros Hx Hh. induction x as [|[k' v] r IH].
    - cbn [map Sparse.rsum]. rewrite coeff_nil. symmetry. exact Hh.
    - cbn [keys map fst] in Hx. inversion Hx as [|? ? Hk Hr]; subst.
      cbn [map Sparse.rsum fst snd]. rewrite coeff_cons. destruct (Z.eqb k' k) eqn:E.
      + apply Z.eqb_eq in E. subst k'.
        rewrite (IH Hr), (coeff_notin R rO rI radd rmul rsub ropp k r Hk), Hh. ring.
      + rewrite (IH Hr). ring.
  Qed.

  (* ================= C03. products as grade-selected parts of the geometric product ========== *)

  (* the contribution of a pair of stored entries to <a_r b_s>_t, selected by [sel r s t] *)
  Definition gcontrib (sel : Z -> Z -> Z -> bool) (K : Z) (e : (Z * R) * (Z * R)) : R :=
    if sel (grade (fst (fst e))) (grade (fst (snd e))) (grade (Z.lxor (fst (fst e)) (fst (snd e))))
    then contrib s None Z.lxor K e else rO.

  Lemma gcontrib_pair sel K kx vx ky vy :
    gcontrib sel K ((kx, vx), (ky, vy))
    = if sel (grade kx) (grade ky) (grade (Z.lxor kx ky))
      then contrib s None Z.lxor K ((kx, vx), (ky, vy)) else rO.
  Proof. reflexivity. Qed.

  Lemma graded_product f sel (x y : mv R) K :
    (forall kx ky, 0 <= kx -> 0 <= ky ->
       f kx ky (Z.lxor kx ky) = sel (grade kx) (grade ky) (grade (Z.lxor kx ky))) ->
    wfmv x -> wfmv y -> 0 <= K < L ->
    coeff O K (canon_sort A (codegen_product O s (Some f) Z.lxor x y))
    = rsum (map (gcontrib sel K) (list_prod x y)).
  Proof using Hkeys Rth.
    intros Hf Hx Hy HK.
    rewrite (RT sorted_product_coeff) by (apply inr_canon; exact HK).
    apply rsum_pairs_ext; [exact Hx | exact Hy |].
    intros kx vx ky vy Hkx Hky. rewrite contrib_filter, gcontrib_pair, Hf by lia. reflexivity.
  Qed.

  Lemma filter_op_sel kx ky : 0 <= kx -> 0 <= ky ->
    filter_op kx ky (Z.lxor kx ky) = sel_op (grade kx) (grade ky) (grade (Z.lxor kx ky)).
  Proof.
    intros Hx Hy. apply bool_eq_of_iff. unfold sel_op, grade.
    rewrite (filter_op_grade kx ky Hx Hy), Z.eqb_eq. reflexivity.
  Qed.
  Lemma filter_ip_sel kx ky : 0 <= kx -> 0 <= ky ->
    filter_ip kx ky (Z.lxor kx ky) = sel_ip (grade kx) (grade ky) (grade (Z.lxor kx ky)).
  Proof.
    intros Hx Hy. apply bool_eq_of_iff. unfold sel_ip, grade.
    rewrite (filter_ip_grade kx ky Hx Hy), Z.eqb_eq. reflexivity.
  Qed.
  Lemma filter_lc_sel kx ky : 0 <= kx -> 0 <= ky ->
    filter_lc kx ky (Z.lxor kx ky) = sel_lc (grade kx) (grade ky) (grade (Z.lxor kx ky)).
  Proof.
    intros Hx Hy. apply bool_eq_of_iff. unfold sel_lc, grade.
    rewrite (filter_lc_grade kx ky Hx Hy), Z.eqb_eq. reflexivity.
  Qed.
  Lemma filter_rc_sel kx ky : 0 <= kx -> 0 <= ky ->
    filter_rc kx ky (Z.lxor kx ky) = sel_rc (grade kx) (grade ky) (grade (Z.lxor kx ky)).
  Proof.
    intros Hx Hy. apply bool_eq_of_iff. unfold sel_rc, grade.
    rewrite (filter_rc_grade kx ky Hx Hy), Z.eqb_eq. reflexivity.
  Qed.
  Lemma filter_sp_sel kx ky : 0 <= kx -> 0 <= ky ->
    filter_sp kx ky (Z.lxor kx ky) = sel_sp (grade kx) (grade ky) (grade (Z.lxor kx ky)).
  Proof.
    intros Hx Hy. apply bool_eq_of_iff. unfold sel_sp, grade.
    rewrite (filter_sp_grade kx ky Hx Hy), Z.eqb_eq. reflexivity.
  Qed.

  (* a ^ b = sum_{r,s} <a_r b_s>_{r+s}  etc., coefficient by coefficient *)
  Theorem op_graded (x y : mv R) K : wfmv x -> wfmv y -> 0 <= K < L ->
    coeff O K (op O A x y) = rsum (map (gcontrib sel_op K) (list_prod x y)).
  Proof using Hkeys Rth. apply graded_product. exact filter_op_sel. Qed.
  Theorem ip_graded (x y : mv R) K : wfmv x -> wfmv y -> 0 <= K < L ->
    coeff O K (ip O A x y) = rsum (map (gcontrib sel_ip K) (list_prod x y)).
  Proof using Hkeys Rth. apply graded_product. exact filter_ip_sel. Qed.
  Theorem lc_graded (x y : mv R) K : wfmv x -> wfmv y -> 0 <= K < L ->
    coeff O K (lc O A x y) = rsum (map (gcontrib sel_lc K) (list_prod x y)).
  Proof using Hkeys Rth. apply graded_product. exact filter_lc_sel. Qed.
  Theorem rc_graded (x y : mv R) K : wfmv x -> wfmv y -> 0 <= K < L ->
    coeff O K (rc O A x y) = rsum (map (gcontrib sel_rc K) (list_prod x y)).
  Proof using Hkeys Rth. apply graded_product. exact filter_rc_sel. Qed.
  Theorem sp_graded (x y : mv R) K : wfmv x -> wfmv y -> 0 <= K < L ->
    coeff O K (sp O A x y) = rsum (map (gcontrib sel_sp K) (list_prod x y)).
  Proof using Hkeys Rth. apply graded_product. exact filter_sp_sel. Qed.

  (* the geometric product itself in the same form (no selection) *)
  Theorem gp_graded (x y : mv R) K : 0 <= K < L ->
    coeff O K (gp O A x y) = rsum (map (gcontrib (fun _ _ _ => true) K) (list_prod x y)).
  Proof using Hkeys Rth.
    intros HK. rewrite (RT gp_coeff) by (apply inr_canon; exact HK).
    apply rsum_map_ext. intros [[kx vx] [ky vy]] _. reflexivity.
  Qed.

  (* x | y  +  x * y (scalar product)  =  x _| y  +  x |_ y *)
  Theorem ip_sp_lc_rc (x y : mv R) K : wfmv x -> wfmv y -> 0 <= K < L ->
    (coeff O K (ip O A x y) + coeff O K (sp O A x y))%r
    = (coeff O K (lc O A x y) + coeff O K (rc O A x y))%r.
  Proof using Hkeys Rth.
    intros Hx Hy HK. pose proof (inr_canon K HK) as HKc.
    rewrite (RT ip_coeff), (RT sp_coeff), (RT lc_coeff), (RT rc_coeff) by exact HKc.
    rewrite <- !(RT rsum_map_add).
    apply rsum_pairs_ext; [exact Hx | exact Hy |].
    intros kx vx ky vy Hkx Hky. rewrite !contrib_filter.
    rewrite (filter_ip_lc_rc kx ky), (filter_sp_lc_rc kx ky) by lia.
    destruct (filter_lc kx ky (Z.lxor kx ky)), (filter_rc kx ky (Z.lxor kx ky)); cbn [orb andb]; ring.
  Qed.

  (* ---------- commutator and anti-commutator products ---------- *)

  Lemma swap_cases a b : 0 <= a < L -> 0 <= b < L ->
    (s a b = 0 /\ s b a = 0) \/ (s a b = 1 /\ s b a = 1) \/ (s a b = 1 /\ s b a = -1)
    \/ (s a b = -1 /\ s b a = -1) \/ (s a b = -1 /\ s b a = 1).
  Proof using Hval Hswap.
    intros Ha Hb. pose proof (Hswap a b Ha Hb) as H.
    destruct (Z.odd (popcount a * popcount b - popcount (Z.land a b))); cbn [par] in H;
      destruct (Hval a b Ha Hb) as [E|[E|E]]; lia.
  Qed.

  (* x cp y + x acp y = x y, term by term *)
  Theorem cp_acp_gp (x y : mv R) K : wfmv x -> wfmv y -> 0 <= K < L ->
    (coeff O K (cp O A x y) + coeff O K (acp O A x y))%r = coeff O K (gp O A x y).
  Proof using Hkeys Hval Hswap Rth.
    intros Hx Hy HK. pose proof (inr_canon K HK) as HKc.
    rewrite (RT cp_coeff), (RT acp_coeff), (RT gp_coeff) by exact HKc.
    rewrite <- !(RT rsum_map_add).
    apply rsum_pairs_ext; [exact Hx | exact Hy |].
    intros kx vx ky vy Hkx Hky. rewrite !contrib_filter, !contrib_sg. cbn [accepts andb].
    unfold filter_cp, filter_acp.
    destruct (swap_cases kx ky Hkx Hky) as [[E1 E2]|[[E1 E2]|[[E1 E2]|[[E1 E2]|[E1 E2]]]]];
      rewrite E1, E2; cbn [Z.sub Z.add Z.opp Z.eqb Z.pos_sub negb Pos.add Pos.eqb];
      rewrite ?sg_0, ?sg_1, ?sg_m1; destruct (Z.eqb (Z.lxor kx ky) K); ring.
  Qed.

  (* 2 (x cp y) = x y - y x *)
  Theorem cp_spec (x y : mv R) K : wfmv x -> wfmv y -> 0 <= K < L ->
    (coeff O K (cp O A x y) + coeff O K (cp O A x y))%r
    = (coeff O K (gp O A x y) - coeff O K (gp O A y x))%r.
  Proof using Hkeys Hval Hswap Rth.
    intros Hx Hy HK. pose proof (inr_canon K HK) as HKc.
    rewrite (RT cp_coeff), !(RT gp_coeff) by exact HKc.
    rewrite (rsum_pairs_swap _ x y).
    rewrite <- (RT rsum_map_add), <- (RT rsum_map_sub).
    apply rsum_pairs_ext; [exact Hx | exact Hy |].
    intros kx vx ky vy Hkx Hky. cbn [fst snd]. rewrite !contrib_filter, !contrib_sg. cbn [accepts andb].
    rewrite (Z.lxor_comm ky kx). unfold filter_cp.
    destruct (swap_cases kx ky Hkx Hky) as [[E1 E2]|[[E1 E2]|[[E1 E2]|[[E1 E2]|[E1 E2]]]]];
      rewrite E1, E2; cbn [Z.sub Z.add Z.opp Z.eqb Z.pos_sub negb Pos.add Pos.eqb];
      rewrite ?sg_0, ?sg_1, ?sg_m1; destruct (Z.eqb (Z.lxor kx ky) K); ring.
  Qed.

  (* 2 (x acp y) = x y + y x *)
  Theorem acp_spec (x y : mv R) K : wfmv x -> wfmv y -> 0 <= K < L ->
    (coeff O K (acp O A x y) + coeff O K (acp O A x y))%r
    = (coeff O K (gp O A x y) + coeff O K (gp O A y x))%r.
  Proof using Hkeys Hval Hswap Rth.
    intros Hx Hy HK. pose proof (inr_canon K HK) as HKc.
    rewrite (RT acp_coeff), !(RT gp_coeff) by exact HKc.
    rewrite (rsum_pairs_swap _ x y).
    rewrite <- !(RT rsum_map_add).
    apply rsum_pairs_ext; [exact Hx | exact Hy |].
    intros kx vx ky vy Hkx Hky. cbn [fst snd]. rewrite !contrib_filter, !contrib_sg. cbn [accepts andb].
    rewrite (Z.lxor_comm ky kx). unfold filter_acp.
    destruct (swap_cases kx ky Hkx Hky) as [[E1 E2]|[[E1 E2]|[[E1 E2]|[[E1 E2]|[E1 E2]]]]];
      rewrite E1, E2; cbn [Z.sub Z.add Z.opp Z.eqb Z.pos_sub negb Pos.add Pos.eqb];
      rewrite ?sg_0, ?sg_1, ?sg_m1; destruct (Z.eqb (Z.lxor kx ky) K); ring.
  Qed.

  (* ================= C04. blade-wise operations ================= *)

  (* ---------- the involutions as grade-wise signs ---------- *)

  Theorem reverse_sign (x : mv R) K : NoDup (keys x) -> 0 <= K < L ->
    coeff O K (reverse O A x)
    = if Z.odd (grade K * (grade K - 1) / 2) then (- coeff O K x)%r else coeff O K x.
  Proof using Hkeys Rth.
    intros Hx HK. rewrite (RT reverse_coeff) by (try apply inr_canon; assumption).
    rewrite involution_flips_reverse. reflexivity.
  Qed.

  Theorem involute_sign (x : mv R) K : NoDup (keys x) -> 0 <= K < L ->
    coeff O K (involute O A x) = if Z.odd (grade K) then (- coeff O K x)%r else coeff O K x.
  Proof using Hkeys Rth.
    intros Hx HK. rewrite (RT involute_coeff) by (try apply inr_canon; assumption).
    rewrite involution_flips_involute. reflexivity.
  Qed.

  Theorem conjugate_sign (x : mv R) K : NoDup (keys x) -> 0 <= K < L ->
    coeff O K (conjugate O A x)
    = if Z.odd (grade K * (grade K + 1) / 2) then (- coeff O K x)%r else coeff O K x.
  Proof using Hkeys Rth.
    intros Hx HK. rewrite (RT conjugate_coeff) by (try apply inr_canon; assumption).
    rewrite involution_flips_conjugate. reflexivity.
  Qed.

  (* ---------- generic involution  canon_sort (raw_involution g _) ---------- *)

  Local Notation inv g x := (canon_sort A (raw_involution O g x)).

  Lemma inv_coeff g (x : mv R) K : NoDup (keys x) -> 0 <= K < L ->
    coeff O K (inv g x) = fl (involution_flips g K) (coeff O K x).
  Proof using Hkeys Rth.
    intros Hx HK. rewrite coeff_canon_sort_in by (apply inr_canon; exact HK).
    apply (RT coeff_raw_involution). exact Hx.
  Qed.

  Lemma inv_involutive g (x : mv R) : wfmv x -> inv g (inv g x) == x.
  Proof using Hkeys Hnodup Rth.
    intros Hx. apply equiv_inrange; [apply wfmv_canon_sort | exact Hx |].
    intros K HK. rewrite inv_coeff by (try apply wfmv_canon_sort; assumption).
    rewrite inv_coeff by (try apply wfmv_nodup; assumption).
    unfold fl. destruct (involution_flips g K); ring.
  Qed.

  (* coefficient form on the keys of the algebra: distinct stored keys suffice *)
  Lemma inv_involutive_coeff g (x : mv R) K : NoDup (keys x) -> 0 <= K < L ->
    coeff O K (inv g (inv g x)) = coeff O K x.
  Proof using Hkeys Hnodup Rth.
    intros Hx HK. rewrite inv_coeff by (try apply wfmv_canon_sort; assumption).
    rewrite inv_coeff by assumption.
    unfold fl. destruct (involution_flips g K); ring.
  Qed.

  Theorem reverse_involutive_coeff (x : mv R) K : NoDup (keys x) -> 0 <= K < L ->
    coeff O K (reverse O A (reverse O A x)) = coeff O K x.
  Proof using Hkeys Hnodup Rth. apply inv_involutive_coeff. Qed.
  Theorem involute_involutive_coeff (x : mv R) K : NoDup (keys x) -> 0 <= K < L ->
    coeff O K (involute O A (involute O A x)) = coeff O K x.
  Proof using Hkeys Hnodup Rth. apply inv_involutive_coeff. Qed.
  Theorem conjugate_involutive_coeff (x : mv R) K : NoDup (keys x) -> 0 <= K < L ->
    coeff O K (conjugate O A (conjugate O A x)) = coeff O K x.
  Proof using Hkeys Hnodup Rth. apply inv_involutive_coeff. Qed.

  (* stated as full [==]: both sides store only keys of the algebra (x is well-formed, the left
     side is canonically sorted) *)
  Theorem reverse_involutive (x : mv R) : wfmv x -> reverse O A (reverse O A x) == x.
  Proof using Hkeys Hnodup Rth. apply inv_involutive. Qed.
  Theorem involute_involutive (x : mv R) : wfmv x -> involute O A (involute O A x) == x.
  Proof using Hkeys Hnodup Rth. apply inv_involutive. Qed.
  Theorem conjugate_involutive (x : mv R) : wfmv x -> conjugate O A (conjugate O A x) == x.
  Proof using Hkeys Hnodup Rth. apply inv_involutive. Qed.

  (* ---------- (anti)automorphisms of the geometric product ---------- *)

  Lemma fl_zero b : fl b rO = rO.
  Proof using Rth. unfold fl. destruct b; ring. Qed.

  Lemma fl_rsum2 b (h : Z -> Z -> R) (U V : list Z) :
    fl b (rsum (map (fun a => rsum (map (fun c => h a c) V)) U))
    = rsum (map (fun a => rsum (map (fun c => fl b (h a c)) V)) U).
  Proof using Rth.
    destruct b; unfold fl; [|reflexivity].
    rewrite <- (RT rsum_map_opp). apply rsum_map_ext. intros a _.
    rewrite <- (RT rsum_map_opp). reflexivity.
  Qed.

  (* an involution whose signs satisfy  f(a) f(b) f(a xor b) = (-1)^(rs - c)  reverses products *)
  Lemma inv_anti g (x y : mv R) :
    (forall a b, 0 <= a -> 0 <= b ->
       xorb (xorb (involution_flips g a) (involution_flips g b)) (involution_flips g (Z.lxor a b))
       = Z.odd (popcount a * popcount b - popcount (Z.land a b))) ->
    wfmv x -> wfmv y ->
    inv g (gp O A x y) == gp O A (inv g y) (inv g x).
  Proof using Hkeys Hnodup Hswap Rth.
    intros Hg Hx Hy. apply equiv_inrange; [apply wfmv_canon_sort | apply wfmv_canon_sort |].
    intros K HK. rewrite inv_coeff by (try apply wfmv_canon_sort; assumption).
    unfold gp, raw_gp.
    rewrite !sorted_coeff_U by (try apply wfmv_canon_sort; assumption).
    rewrite fl_rsum2.
    rewrite (RT rsum_swap (fun b a => contrib s None Z.lxor K
               ((b, coeff O b (inv g y)), (a, coeff O a (inv g x))))).
    apply rsum_U_ext. intros a b Ha Hb.
    rewrite !inv_coeff by (try apply wfmv_nodup; assumption).
    rewrite !contrib_sg. cbn [accepts andb]. rewrite (Z.lxor_comm b a).
    destruct (Z.eqb (Z.lxor a b) K) eqn:E; [|apply fl_zero].
    apply Z.eqb_eq in E. subst K.
    rewrite (Hswap a b Ha Hb), sg_mul, sg_par, <- (Hg a b) by lia.
    unfold fl.
    destruct (involution_flips g a), (involution_flips g b), (involution_flips g (Z.lxor a b));
      cbn [xorb]; ring.
  Qed.

  (* an involution whose signs are multiplicative preserves products *)
  Lemma inv_auto g (x y : mv R) :
    (forall a b, 0 <= a -> 0 <= b ->
       involution_flips g (Z.lxor a b) = xorb (involution_flips g a) (involution_flips g b)) ->
    wfmv x -> wfmv y ->
    inv g (gp O A x y) == gp O A (inv g x) (inv g y).
  Proof using Hkeys Hnodup Rth.
    intros Hg Hx Hy. apply equiv_inrange; [apply wfmv_canon_sort | apply wfmv_canon_sort |].
    intros K HK. rewrite inv_coeff by (try apply wfmv_canon_sort; assumption).
    unfold gp, raw_gp.
    rewrite !sorted_coeff_U by (try apply wfmv_canon_sort; assumption).
    rewrite fl_rsum2.
    apply rsum_U_ext. intros a b Ha Hb.
    rewrite !inv_coeff by (try apply wfmv_nodup; assumption).
    rewrite !contrib_sg. cbn [accepts andb].
    destruct (Z.eqb (Z.lxor a b) K) eqn:E; [|apply fl_zero].
    apply Z.eqb_eq in E. subst K. rewrite (Hg a b) by lia.
    unfold fl. destruct (involution_flips g a), (involution_flips g b); cbn [xorb]; ring.
  Qed.

  Lemma conjugate_lxor a b : 0 <= a -> 0 <= b ->
    xorb (xorb (involution_flips grades_conjugate a) (involution_flips grades_conjugate b))
         (involution_flips grades_conjugate (Z.lxor a b))
    = Z.odd (popcount a * popcount b - popcount (Z.land a b)).
  Proof.
    intros Ha Hb. rewrite !involution_flips_conjugate_xorb, (involute_lxor a b Ha Hb).
    rewrite <- (reverse_lxor a b Ha Hb).
    destruct (involution_flips grades_reverse a), (involution_flips grades_reverse b),
      (involution_flips grades_reverse (Z.lxor a b)),
      (involution_flips grades_involute a), (involution_flips grades_involute b); reflexivity.
  Qed.

  (* full [==]: both sides are canonically sorted *)
  Theorem reverse_gp (x y : mv R) : wfmv x -> wfmv y ->
    reverse O A (gp O A x y) == gp O A (reverse O A y) (reverse O A x).
  Proof using Hkeys Hnodup Hswap Rth. apply inv_anti. exact reverse_lxor. Qed.

  Theorem involute_gp (x y : mv R) : wfmv x -> wfmv y ->
    involute O A (gp O A x y) == gp O A (involute O A x) (involute O A y).
  Proof using Hkeys Hnodup Rth. apply inv_auto. exact involute_lxor. Qed.

  Theorem conjugate_gp (x y : mv R) : wfmv x -> wfmv y ->
    conjugate O A (gp O A x y) == gp O A (conjugate O A y) (conjugate O A x).
  Proof using Hkeys Hnodup Hswap Rth. apply inv_anti. exact conjugate_lxor. Qed.

  (* ---------- grade selection ---------- *)

  Lemma in_indices_for_grade g k :
    In k (indices_for_grade A g) <-> (0 <= k < L /\ Z.of_nat g = grade k).
  Proof using Hkeys Hgrade.
    unfold indices_for_grade. rewrite in_map_iff. split.
    - intros [[n b] [E Hin]]. cbn [snd] in E. subst b. apply filter_In in Hin.
      destruct Hin as [Hin Hlen]. cbn [fst] in Hlen. apply Nat.eqb_eq in Hlen. split.
      + apply Hkeys. unfold canon_keys. change k with (snd (n, k)). apply in_map. exact Hin.
      + rewrite <- Hlen. apply (Hgrade n k Hin).
    - intros [Hk Hg]. apply Hkeys in Hk. unfold canon_keys in Hk. apply in_map_iff in Hk.
      destruct Hk as [[n b] [E Hin]]. cbn [snd] in E. subst b. exists (n, k). split; [reflexivity|].
      apply filter_In. split; [exact Hin|]. cbn [fst]. apply Nat.eqb_eq.
      pose proof (Hgrade n k Hin) as H. unfold grade in Hg. lia.
  Qed.

  Lemma in_indices_for_grades grades k :
    In k (flat_map (indices_for_grade A) grades) <-> (0 <= k < L /\ grade_in grades k = true).
  Proof using Hkeys Hgrade.
    rewrite in_flat_map. unfold grade_in. rewrite existsb_exists. split.
    - intros [g [Hg Hin]]. apply in_indices_for_grade in Hin. destruct Hin as [Hk E].
      split; [exact Hk|]. exists g. split; [exact Hg | apply Z.eqb_eq; exact E].
    - intros [Hk [g [Hg E]]]. apply Z.eqb_eq in E. exists g. split; [exact Hg|].
      apply in_indices_for_grade. split; assumption.
  Qed.

  Lemma NoDup_indices_for_grades grades :
    strictly_inc grades = true -> NoDup (flat_map (indices_for_grade A) grades).
  Proof using Hkeys Hnodup Hgrade.
    intros Hs. apply NoDup_flat_map_disjoint.
    - apply strictly_inc_NoDup. exact Hs.
    - intros g _. unfold indices_for_grade. apply NoDup_map_filter. exact Hnodup.
    - intros g g' b _ _ H1 H2. apply in_indices_for_grade in H1. apply in_indices_for_grade in H2.
      destruct H1 as [_ H1]. destruct H2 as [_ H2]. lia.
  Qed.

  (* the stored coefficients of x on the keys ks, in the order of ks *)
  Definition select (ks : list Z) (x : mv R) : mv R :=
    flat_map (fun k => if zin k (keys x) then [(k, coeff O k x)] else []) ks.

  Lemma coeff_select (x : mv R) ks K :
    coeff O K (select ks x) = if zin K ks && zin K (keys x) then coeff O K x else rO.
  Proof.
    unfold select. induction ks as [|k ks IH]; cbn [flat_map].
    - reflexivity.
    - rewrite zin_cons. destruct (zin k (keys x)) eqn:Ek; cbn [app].
      + rewrite coeff_cons, (Z.eqb_sym K k). destruct (Z.eqb k K) eqn:E; cbn [orb].
        * apply Z.eqb_eq in E. subst K. rewrite Ek. reflexivity.
        * exact IH.
      + rewrite IH. destruct (Z.eqb K k) eqn:E; cbn [orb]; [|reflexivity].
        apply Z.eqb_eq in E. subst K. rewrite Ek, !andb_false_r. reflexivity.
  Qed.

  Lemma keys_select (x : mv R) ks : keys (select ks x) = filter (fun k => zin k (keys x)) ks.
  Proof.
    unfold select. induction ks as [|k ks IH]; cbn [flat_map filter].
    - reflexivity.
    - unfold keys in *. rewrite map_app, IH. destruct (zin k (map fst x)); reflexivity.
  Qed.

  (* the only failure: the requested grades are not strictly increasing within 0..d *)
  Definition grades_ok (grades : list nat) : bool :=
    strictly_inc grades && forallb (fun g => Nat.leb g (a_d A)) grades.

  Theorem grade_sel_ok grades (x : mv R) :
    grades_ok grades = true ->
    grade_sel O A grades x = Ok (select (flat_map (indices_for_grade A) grades) x).
  Proof.
    unfold grades_ok, grade_sel, indices_for_grades. intros ->. reflexivity.
  Qed.

  Theorem grade_sel_err grades (x : mv R) :
    grade_sel O A grades x = Err EKey <-> grades_ok grades = false.
  Proof.
    unfold grades_ok, grade_sel, indices_for_grades.
    destruct (strictly_inc grades && forallb (fun g => Nat.leb g (a_d A)) grades); cbn [bind].
    - split; discriminate.
    - split; reflexivity.
  Qed.

  Lemma grade_sel_inv grades (x r : mv R) :
    grade_sel O A grades x = Ok r ->
    grades_ok grades = true /\ r = select (flat_map (indices_for_grade A) grades) x.
  Proof.
    unfold grades_ok, grade_sel, indices_for_grades.
    destruct (strictly_inc grades && forallb (fun g => Nat.leb g (a_d A)) grades); cbn [bind].
    - intros H. inversion H. split; reflexivity.
    - discriminate.
  Qed.

  Theorem grade_sel_coeff grades (x r : mv R) K :
    grade_sel O A grades x = Ok r -> 0 <= K < L ->
    coeff O K r = if grade_in grades K && zin K (keys x) then coeff O K x else rO.
  Proof using Hkeys Hgrade.
    intros H HK. apply grade_sel_inv in H. destruct H as [_ ->]. rewrite coeff_select.
    replace (zin K (flat_map (indices_for_grade A) grades)) with (grade_in grades K); [reflexivity|].
    apply bool_eq_of_iff. rewrite zin_true_iff, in_indices_for_grades. tauto.
  Qed.

  (* outside the keys of the algebra nothing is stored *)
  Theorem grade_sel_coeff_out grades (x r : mv R) K :
    grade_sel O A grades x = Ok r -> ~ (0 <= K < L) -> coeff O K r = rO.
  Proof using Hkeys Hgrade.
    intros H HK. apply grade_sel_inv in H. destruct H as [_ ->]. rewrite coeff_select.
    destruct (zin K (flat_map (indices_for_grade A) grades)) eqn:E; [|reflexivity].
    apply zin_true_iff, in_indices_for_grades in E. tauto.
  Qed.

  Theorem grade_sel_keys grades (x r : mv R) :
    grade_sel O A grades x = Ok r -> wfmv x ->
    NoDup (keys r) /\ forall K, In K (keys r) <-> (In K (keys x) /\ grade_in grades K = true).
  Proof using Hkeys Hnodup Hgrade.
    intros H Hx. apply grade_sel_inv in H. destruct H as [Hok ->]. rewrite keys_select. split.
    - apply NoDup_filter. apply NoDup_indices_for_grades.
      unfold grades_ok in Hok. apply andb_true_iff in Hok. apply Hok.
    - intros K. rewrite filter_In, zin_true_iff, in_indices_for_grades. split.
      + tauto.
      + intros [H1 H2]. split; [split|]; try assumption. apply Hx. exact H1.
  Qed.

  Theorem grade_sel_wf grades (x r : mv R) : grade_sel O A grades x = Ok r -> wfmv x -> wfmv r.
  Proof using Hkeys Hnodup Hgrade.
    intros H Hx. destruct (grade_sel_keys grades x r H Hx) as [H1 H2]. split; [exact H1|].
    intros k Hk. apply H2 in Hk. apply Hx. apply Hk.
  Qed.

  (* the three parts in one statement *)
  Theorem grade_sel_spec grades (x : mv R) :
    (grade_sel O A grades x = Err EKey <-> grades_ok grades = false)
    /\ (forall r, grade_sel O A grades x = Ok r ->
          (forall K, 0 <= K < L ->
             coeff O K r = if grade_in grades K && zin K (keys x) then coeff O K x else rO)
          /\ (wfmv x -> NoDup (keys r)
                        /\ forall K, In K (keys r) <-> (In K (keys x) /\ grade_in grades K = true))).
  Proof using Hkeys Hnodup Hgrade.
    split; [apply grade_sel_err|]. intros r H. split.
    - intros K HK. apply (grade_sel_coeff grades x r K H HK).
    - intros Hx. apply (grade_sel_keys grades x r H Hx).
  Qed.

  (* ================= C05. dualities ================= *)

  (* ---------- hodge / unhodge ---------- *)

  Lemma hodge_at (x : mv R) K : NoDup (keys x) -> 0 <= K < L ->
    coeff O K (hodge O A x)
    = if Z.ltb (s (p - K) K) 0 then (- coeff O (p - K) x)%r else coeff O (p - K) x.
  Proof using Hkeys Rth.
    intros Hx HK. unfold hodge. rewrite coeff_canon_sort_in by (apply inr_canon; exact HK).
    apply (RT coeff_raw_hodge_at). exact Hx.
  Qed.

  Lemma unhodge_at (x : mv R) K : NoDup (keys x) -> 0 <= K < L ->
    coeff O K (unhodge O A x)
    = if Z.ltb (s K (p - K)) 0 then (- coeff O (p - K) x)%r else coeff O (p - K) x.
  Proof using Hkeys Rth.
    intros Hx HK. unfold unhodge. rewrite coeff_canon_sort_in by (apply inr_canon; exact HK).
    apply (RT coeff_raw_unhodge_at). exact Hx.
  Qed.

  Theorem hodge_unhodge (x : mv R) : wfmv x -> unhodge O A (hodge O A x) == x.
  Proof using Hkeys Hnodup Rth.
    intros Hx. apply equiv_inrange; [apply wfmv_canon_sort | exact Hx |].
    intros K HK. rewrite unhodge_at by (try apply wfmv_canon_sort; assumption).
    rewrite hodge_at by (try apply inr_compl; try apply wfmv_nodup; assumption).
    rewrite !compl_compl. destruct (Z.ltb (s K (p - K)) 0); ring.
  Qed.

  Theorem unhodge_hodge (x : mv R) : wfmv x -> hodge O A (unhodge O A x) == x.
  Proof using Hkeys Hnodup Rth.
    intros Hx. apply equiv_inrange; [apply wfmv_canon_sort | exact Hx |].
    intros K HK. rewrite hodge_at by (try apply wfmv_canon_sort; assumption).
    rewrite unhodge_at by (try apply inr_compl; try apply wfmv_nodup; assumption).
    rewrite !compl_compl. destruct (Z.ltb (s (p - K) K) 0); ring.
  Qed.

  (* with the signs in the ring (the sign of a blade with its complement is never 0) *)
  Lemma hodge_at_sg (x : mv R) K : NoDup (keys x) -> 0 <= K < L ->
    coeff O K (hodge O A x) = (sg (s (p - K) K) * coeff O (p - K) x)%r.
  Proof using Hkeys Hdisj Rth.
    intros Hx HK. rewrite hodge_at by assumption. apply ltb_sg.
    apply Hdisj; [apply inr_compl; exact HK | exact HK | apply land_compl'; exact HK].
  Qed.

  Lemma unhodge_at_sg (x : mv R) K : NoDup (keys x) -> 0 <= K < L ->
    coeff O K (unhodge O A x) = (sg (s K (p - K)) * coeff O (p - K) x)%r.
  Proof using Hkeys Hdisj Rth.
    intros Hx HK. rewrite unhodge_at by assumption. apply ltb_sg.
    apply Hdisj; [exact HK | apply inr_compl; exact HK | apply land_compl; exact HK].
  Qed.

  (* ---------- a blade wedge its Hodge dual is the pseudoscalar ---------- *)

  Theorem blade_wedge_hodge k K : 0 <= k < L -> 0 <= K < L ->
    coeff O K (op O A [(k, rI)] (hodge O A [(k, rI)])) = if Z.eqb K p then rI else rO.
  Proof using Hkeys Hnodup Hdisj Rth.
    intros Hk HK.
    set (v := if Z.ltb (s k (p - k)) 0 then (- rI)%r else rI).
    assert (Hh : hodge O A [(k, rI)] == [(p - k, v)]).
    { unfold hodge. change (raw_hodge O A [(k, rI)]) with [(p - k, v)].
      apply canon_sort_equiv. intros k' [E|[]]. cbn [fst] in E. subst k'.
      apply inr_canon. apply inr_compl. exact Hk. }
    unfold op, raw_op.
    rewrite (RT sorted_product_congr A s (Some filter_op) Z.lxor
               [(k, rI)] [(k, rI)] (hodge O A [(k, rI)]) [(p - k, v)]
               (wfmv_nodup _ (wfmv_single k rI Hk)) (wfmv_nodup _ (wfmv_single k rI Hk))
               (wfmv_nodup _ (wfmv_canon_sort _))
               (wfmv_nodup _ (wfmv_single (p - k) v (inr_compl k Hk)))
               (fun _ => eq_refl) Hh K).
    rewrite (RT sorted_product_coeff) by (apply inr_canon; exact HK).
    cbn [list_prod map app Sparse.rsum]. rewrite contrib_sg. cbn [accepts].
    rewrite (lxor_compl k Hk). unfold filter_op.
    replace (k + (p - k)) with p by lia. rewrite Z.eqb_refl, (Z.eqb_sym p K). cbn [andb].
    destruct (Z.eqb K p); [|ring].
    subst v. destruct (Hdisj k (p - k) Hk (inr_compl k Hk) (land_compl k Hk)) as [E|E];
      rewrite E; cbn [Z.ltb Z.compare]; rewrite ?sg_1, ?sg_m1; ring.
  Qed.

  (* ---------- the regressive product ---------- *)

  (* universe form of a sorted product, summing over the COMPLEMENTS of the keys of the algebra *)
  Lemma sorted_coeff_Uc sfun filt kout (x y : mv R) K :
    wfmv x -> wfmv y -> 0 <= K < L ->
    coeff O K (canon_sort A (codegen_product O sfun filt kout x y))
    = rsum (map (fun a => rsum (map (fun b =>
          contrib sfun filt kout K ((p - a, coeff O (p - a) x), (p - b, coeff O (p - b) y)))
        (canon_keys A))) (canon_keys A)).
  Proof using Hkeys Hnodup Rth.
    intros Hx Hy HK. rewrite coeff_canon_sort_in by (apply inr_canon; exact HK).
    assert (HU : NoDup (map (Z.sub p) (canon_keys A))).
    { apply NoDup_map_inj; [apply Zsub_inj | exact Hnodup]. }
    assert (Hi : forall z : mv R, wfmv z -> incl (keys z) (map (Z.sub p) (canon_keys A))).
    { intros z Hz k Hk. apply in_map_iff. exists (p - k). split; [lia|].
      apply inr_canon. apply inr_compl. apply Hz. exact Hk. }
    rewrite (RT product_coeff_universe sfun filt kout x y _ _ K
               (wfmv_nodup x Hx) (wfmv_nodup y Hy) HU HU (Hi x Hx) (Hi y Hy)).
    rewrite (RT rsum_list_prod), map_map. apply rsum_map_ext. intros a _.
    rewrite map_map. reflexivity.
  Qed.

  Lemma scal_rsum2 c (h : Z -> Z -> R) (U V : list Z) :
    (c * rsum (map (fun a => rsum (map (fun b => h a b) V)) U))%r
    = rsum (map (fun a => rsum (map (fun b => (c * h a b)%r) V)) U).
  Proof using Rth.
    rewrite <- (RT rsum_map_scal_l). apply rsum_map_ext. intros a _.
    rewrite <- (RT rsum_map_scal_l). reflexivity.
  Qed.

  Lemma filter_rp_op a b : 0 <= a < L -> 0 <= b < L ->
    filter_rp L a b (keyout_rp L a b) = filter_op (p - a) (p - b) (Z.lxor (p - a) (p - b)).
  Proof.
    intros Ha Hb. exact (filter_rp_filter_op nd a b nd_nonneg (inr_ones a Ha) (inr_ones b Hb)).
  Qed.

  (* x v y = unhodge (hodge x ^ hodge y); full [==], both sides are canonically sorted *)
  Theorem rp_spec (x y : mv R) : wfmv x -> wfmv y ->
    rp O A x y == unhodge O A (op O A (hodge O A x) (hodge O A y)).
  Proof using Hkeys Hnodup Hdisj Rth.
    intros Hx Hy. apply equiv_inrange; [apply wfmv_canon_sort | apply wfmv_canon_sort |].
    intros K HK.
    rewrite unhodge_at_sg by (try apply wfmv_canon_sort; assumption).
    unfold rp, raw_rp, op, raw_op.
    rewrite sorted_coeff_U by assumption.
    rewrite sorted_coeff_Uc by (try apply wfmv_canon_sort; try apply inr_compl; assumption).
    rewrite scal_rsum2. apply rsum_U_ext. intros a b Ha Hb.
    rewrite !hodge_at_sg by (try apply inr_compl; try apply wfmv_nodup; assumption).
    rewrite !compl_compl, !contrib_sg. cbn [accepts].
    rewrite (filter_rp_op a b Ha Hb), (lxor_compl_compl a b Ha Hb).
    assert (EK : Z.eqb (keyout_rp L a b) K = Z.eqb (Z.lxor a b) (p - K)).
    { apply bool_eq_of_iff. rewrite !Z.eqb_eq. unfold keyout_rp, pss_key. lia. }
    rewrite EK. destruct (filter_op (p - a) (p - b) (Z.lxor a b)); cbn [andb]; [|ring].
    destruct (Z.eqb (Z.lxor a b) (p - K)) eqn:E; [|ring].
    apply Z.eqb_eq in E. unfold sign_rp. cbv zeta. change (L - 1) with p.
    rewrite E, compl_compl, !sg_mul. ring.
  Qed.

  Lemma list_prod_single_r {X Y} (l : list X) (e : Y) : list_prod l [e] = map (fun a => (a, e)) l.
  Proof.
    induction l as [|a l IH]; cbn [list_prod map app].
    - reflexivity.
    - rewrite IH. reflexivity.
  Qed.

  Lemma list_prod_single_l {X Y} (e : X) (l : list Y) : list_prod [e] l = map (fun b => (e, b)) l.
  Proof. cbn [list_prod]. apply app_nil_r. Qed.

  Lemma sign_rp_pss_r a : 0 <= a < L -> sign_rp s L a p = 1.
  Proof using Hdisj Hscal.
    intros Ha. unfold sign_rp. cbv zeta. change (L - 1) with p.
    rewrite (lxor_pss_r a Ha), Z.sub_diag, compl_compl.
    destruct (Hscal p inr_p) as [_ E1]. destruct (Hscal (p - a) (inr_compl a Ha)) as [_ E2].
    rewrite E1, E2.
    destruct (Hdisj a (p - a) Ha (inr_compl a Ha) (land_compl a Ha)) as [E|E]; rewrite E; reflexivity.
  Qed.

  Lemma sign_rp_pss_l b : 0 <= b < L -> sign_rp s L p b = 1.
  Proof using Hdisj Hscal.
    intros Hb. unfold sign_rp. cbv zeta. change (L - 1) with p.
    rewrite (lxor_pss_l b Hb), Z.sub_diag, compl_compl.
    destruct (Hscal p inr_p) as [_ E1]. destruct (Hscal (p - b) (inr_compl b Hb)) as [E2 _].
    rewrite E1, E2.
    destruct (Hdisj b (p - b) Hb (inr_compl b Hb) (land_compl b Hb)) as [E|E]; rewrite E; reflexivity.
  Qed.

  (* the pseudoscalar is the unit of the regressive product *)
  Theorem rp_pss_r (x : mv R) : wfmv x -> rp O A x (pss_mv O A) == x.
  Proof using Hkeys Hnodup Hdisj Hscal Rth.
    intros Hx. apply equiv_inrange; [apply wfmv_canon_sort | exact Hx |].
    intros K HK. rewrite (RT rp_coeff) by (apply inr_canon; exact HK).
    unfold pss_mv. ops. rewrite list_prod_single_r, map_map.
    rewrite (RT coeff_rsum K x (wfmv_nodup x Hx)).
    apply rsum_map_ext. intros [a v] Hin. pose proof (wfmv_in x a v Hx Hin) as Ha.
    rewrite contrib_sg. cbn [accepts fst snd].
    assert (Eko : keyout_rp L a p = a).
    { unfold keyout_rp. rewrite (lxor_pss_r a Ha). unfold pss_key. lia. }
    rewrite Eko, (sign_rp_pss_r a Ha), sg_1.
    assert (Ef : filter_rp L a p a = true).
    { unfold filter_rp. apply Z.eqb_eq. unfold pss_key. lia. }
    rewrite Ef. cbn [andb]. destruct (Z.eqb a K); ring.
  Qed.

  Theorem rp_pss_l (x : mv R) : wfmv x -> rp O A (pss_mv O A) x == x.
  Proof using Hkeys Hnodup Hdisj Hscal Rth.
    intros Hx. apply equiv_inrange; [apply wfmv_canon_sort | exact Hx |].
    intros K HK. rewrite (RT rp_coeff) by (apply inr_canon; exact HK).
    unfold pss_mv. ops. rewrite list_prod_single_l, map_map.
    rewrite (RT coeff_rsum K x (wfmv_nodup x Hx)).
    apply rsum_map_ext. intros [b v] Hin. pose proof (wfmv_in x b v Hx Hin) as Hb.
    rewrite contrib_sg. cbn [accepts fst snd].
    assert (Eko : keyout_rp L p b = b).
    { unfold keyout_rp. rewrite (lxor_pss_l b Hb). unfold pss_key. lia. }
    rewrite Eko, (sign_rp_pss_l b Hb), sg_1.
    assert (Ef : filter_rp L p b b = true).
    { unfold filter_rp. apply Z.eqb_eq. unfold pss_key. lia. }
    rewrite Ef. cbn [andb]. destruct (Z.eqb b K); ring.
  Qed.

  Theorem rp_pss (x : mv R) : wfmv x ->
    rp O A x (pss_mv O A) == x /\ rp O A (pss_mv O A) x == x.
  Proof using Hkeys Hnodup Hdisj Hscal Rth.
    intros Hx. split; [apply rp_pss_r | apply rp_pss_l]; exact Hx.
  Qed.

  (* ---------- polarity / unpolarity ---------- *)

  (* right multiplication by a multiple of the pseudoscalar *)
  Lemma gp_blade_pss (x : mv R) c K : wfmv x -> 0 <= K < L ->
    coeff O K (gp O A x [(p, c)]) = (sg (s (p - K) p) * (coeff O (p - K) x * c))%r.
  Proof using Hkeys Rth.
    intros Hx HK. rewrite (RT gp_coeff) by (apply inr_canon; exact HK).
    rewrite list_prod_single_r, map_map.
    rewrite <- (rsum_pick (fun v => (sg (s (p - K) p) * (v * c))%r) (p - K) x (wfmv_nodup x Hx))
      by ring.
    apply rsum_map_ext. intros [a v] Hin. pose proof (wfmv_in x a v Hx Hin) as Ha.
    rewrite contrib_sg. cbn [accepts fst snd andb]. rewrite (lxor_pss_r a Ha).
    assert (EK : Z.eqb (p - a) K = Z.eqb a (p - K)).
    { apply bool_eq_of_iff. rewrite !Z.eqb_eq. lia. }
    rewrite EK. destruct (Z.eqb a (p - K)) eqn:E; [|reflexivity].
    apply Z.eqb_eq in E. subst a. reflexivity.
  Qed.

  (* K I I = (I I) K  on signs *)
  Lemma pss_square K : 0 <= K < L -> s K p * s (p - K) p = s p p.
  Proof using Hassoc Hscal.
    intros HK. pose proof (Hassoc K p p HK inr_p inr_p) as H.
    rewrite Z.lxor_nilpotent, (lxor_pss_r K HK) in H.
    destruct (Hscal K HK) as [_ E]. rewrite E in H. lia.
  Qed.

  Lemma sg_pss_square K : 0 <= K < L -> (sg (s (p - K) p) * sg (s K p))%r = sg (s p p).
  Proof using Hassoc Hscal Rth.
    intros HK. rewrite <- sg_mul, Z.mul_comm, (pss_square K HK). reflexivity.
  Qed.

  Theorem polarity_zero_div (x : mv R) : polarity O A x = Err EZeroDiv <-> s p p = 0.
  Proof.
    unfold polarity. cbv zeta. split.
    - intros H. destruct (Z.eqb (s p p) (-1)); [discriminate|].
      destruct (Z.eqb (s p p) 1); [discriminate|].
      destruct (Z.eqb (s p p) 0) eqn:E; [apply Z.eqb_eq; exact E | discriminate].
    - intros E. rewrite E. reflexivity.
  Qed.

  Theorem polarity_pos (x : mv R) : s p p = 1 -> polarity O A x = Ok (gp O A x (pss_mv O A)).
  Proof. intros E. unfold polarity. cbv zeta. rewrite E. reflexivity. Qed.

  (* I^2 = -1: multiplication by the inverse pseudoscalar -I *)
  Theorem polarity_neg (x : mv R) : wfmv x -> s p p = -1 ->
    exists r, polarity O A x = Ok r /\ r == gp O A x [(p, (- rI)%r)].
  Proof using Hkeys Hnodup Rth.
    intros Hx E. exists (gp O A (neg O A x) (pss_mv O A)). split.
    - unfold polarity. cbv zeta. rewrite E. reflexivity.
    - apply equiv_inrange; [apply wfmv_canon_sort | apply wfmv_canon_sort |].
      intros K HK. unfold pss_mv. ops.
      rewrite !gp_blade_pss by (try apply wfmv_canon_sort; assumption).
      rewrite (RT neg_coeff) by (try apply inr_canon; try apply inr_compl; try apply wfmv_nodup; assumption).
      ring.
  Qed.

  (* polarity never returns anything else when the signs are 1, -1 or 0 *)
  Theorem polarity_cases (x : mv R) :
    (s p p = 1 \/ s p p = -1 \/ s p p = 0) ->
    polarity O A x = Err EZeroDiv \/ exists r, polarity O A x = Ok r.
  Proof.
    unfold polarity. cbv zeta. intros [E|[E|E]]; rewrite E; cbn [Z.eqb Pos.eqb].
    - right. eexists. reflexivity.
    - right. eexists. reflexivity.
    - left. reflexivity.
  Qed.

  Theorem polarity_spec (x : mv R) : wfmv x ->
    (polarity O A x = Err EZeroDiv <-> s p p = 0)
    /\ (s p p = 1 -> polarity O A x = Ok (gp O A x (pss_mv O A)))
    /\ (s p p = -1 -> exists r, polarity O A x = Ok r /\ r == gp O A x [(p, (- rI)%r)]).
  Proof using Hkeys Hnodup Rth.
    intros Hx. split; [apply polarity_zero_div|]. split; [apply polarity_pos|].
    apply polarity_neg. exact Hx.
  Qed.

  Lemma polarity_coeff (x r : mv R) K : wfmv x -> polarity O A x = Ok r -> 0 <= K < L ->
    (s p p = 1 \/ s p p = -1)
    /\ coeff O K r = (sg (s p p) * (sg (s (p - K) p) * coeff O (p - K) x))%r
    /\ wfmv r.
  Proof using Hkeys Hnodup Rth.
    intros Hx H HK. unfold polarity in H. cbv zeta in H.
    destruct (Z.eqb (s p p) (-1)) eqn:E1.
    - apply Z.eqb_eq in E1. inversion H; subst r. split; [right; exact E1|].
      split; [|apply wfmv_canon_sort]. unfold pss_mv. ops.
      rewrite gp_blade_pss by (try apply wfmv_canon_sort; assumption).
      rewrite (RT neg_coeff) by (try apply inr_canon; try apply inr_compl; try apply wfmv_nodup; assumption).
      rewrite E1, sg_m1. ring.
    - destruct (Z.eqb (s p p) 1) eqn:E2.
      + apply Z.eqb_eq in E2. inversion H; subst r. split; [left; exact E2|].
        split; [|apply wfmv_canon_sort]. unfold pss_mv. ops.
        rewrite gp_blade_pss by assumption. rewrite E2, sg_1. ring.
      + destruct (Z.eqb (s p p) 0); discriminate.
  Qed.

  Lemma sg_unit_square z : z = 1 \/ z = -1 -> (sg z * sg z)%r = rI.
  Proof using Rth. intros [->| ->]; rewrite ?sg_1, ?sg_m1; ring. Qed.

  (* unpolarity undoes polarity ... *)
  Theorem pol_unpol (x r : mv R) : wfmv x -> polarity O A x = Ok r -> unpolarity O A r == x.
  Proof using Hkeys Hnodup Hassoc Hscal Rth.
    intros Hx H. apply equiv_inrange; [apply wfmv_canon_sort | exact Hx |].
    intros K HK. unfold unpolarity, pss_mv. ops.
    destruct (polarity_coeff x r (p - K) Hx H (inr_compl K HK)) as [Hu [Hc Hr]].
    rewrite gp_blade_pss by assumption. rewrite Hc, compl_compl.
    transitivity ((sg (s p p) * (sg (s (p - K) p) * sg (s K p))) * coeff O K x)%r; [ring|].
    rewrite (sg_pss_square K HK), (sg_unit_square _ Hu). ring.
  Qed.

  (* ... and polarity undoes unpolarity *)
  Theorem unpol_pol (x r : mv R) : wfmv x -> polarity O A (unpolarity O A x) = Ok r -> r == x.
  Proof using Hkeys Hnodup Hassoc Hscal Rth.
    intros Hx H.
    assert (Hu : wfmv (unpolarity O A x)) by apply wfmv_canon_sort.
    assert (Hr : wfmv r).
    { destruct (polarity_coeff _ r 0 Hu H inr_0) as [_ [_ Hr]]. exact Hr. }
    apply equiv_inrange; [exact Hr | exact Hx |].
    intros K HK. destruct (polarity_coeff _ r K Hu H HK) as [Hs [Hc _]]. rewrite Hc.
    unfold unpolarity, pss_mv. ops.
    rewrite gp_blade_pss by (try apply inr_compl; assumption). rewrite compl_compl.
    transitivity ((sg (s p p) * (sg (s (p - K) p) * sg (s K p))) * coeff O K x)%r; [ring|].
    rewrite (sg_pss_square K HK), (sg_unit_square _ Hs). ring.
  Qed.

  (* ---------- the decision rule of dual / undual ---------- *)

  Theorem dual_auto_0 (x : mv R) : alg_r A = 0%nat -> dual O A KAuto x = polarity O A x.
  Proof. intros E. unfold dual. rewrite E. reflexivity. Qed.
  Theorem dual_auto_1 (x : mv R) : alg_r A = 1%nat -> dual O A KAuto x = Ok (hodge O A x).
  Proof. intros E. unfold dual. rewrite E. reflexivity. Qed.
  Theorem dual_auto_2 (x : mv R) : (2 <= alg_r A)%nat -> dual O A KAuto x = Err EOther.
  Proof. intros E. unfold dual. destruct (alg_r A) as [|[|m]]; [lia | lia | reflexivity]. Qed.
  Theorem dual_polarity (x : mv R) : dual O A KPolarity x = polarity O A x.
  Proof. reflexivity. Qed.
  Theorem dual_hodge (x : mv R) : dual O A KHodge x = Ok (hodge O A x).
  Proof. reflexivity. Qed.
  Theorem dual_unknown (x : mv R) : dual O A KUnknown x = Err EValue.
  Proof. reflexivity. Qed.

  Theorem undual_auto_0 (x : mv R) : alg_r A = 0%nat -> undual O A KAuto x = Ok (unpolarity O A x).
  Proof. intros E. unfold undual. rewrite E. reflexivity. Qed.
  Theorem undual_auto_1 (x : mv R) : alg_r A = 1%nat -> undual O A KAuto x = Ok (unhodge O A x).
  Proof. intros E. unfold undual. rewrite E. reflexivity. Qed.
  Theorem undual_auto_2 (x : mv R) : (2 <= alg_r A)%nat -> undual O A KAuto x = Err EOther.
  Proof. intros E. unfold undual. destruct (alg_r A) as [|[|m]]; [lia | lia | reflexivity]. Qed.
  Theorem undual_polarity (x : mv R) : undual O A KPolarity x = Ok (unpolarity O A x).
  Proof. reflexivity. Qed.
  Theorem undual_hodge (x : mv R) : undual O A KHodge x = Ok (unhodge O A x).
  Proof. reflexivity. Qed.
  Theorem undual_unknown (x : mv R) : undual O A KUnknown x = Err EValue.
  Proof. reflexivity. Qed.

  (* undual undoes dual whatever rule was taken (Hodge branch: hodge_unhodge; polarity: pol_unpol) *)
  Theorem dual_undual k (x r : mv R) : wfmv x -> dual O A k x = Ok r ->
    exists r', undual O A k r = Ok r' /\ r' == x.
  Proof using Hkeys Hnodup Hassoc Hscal Rth.
    intros Hx H. destruct k; cbn [dual undual] in *.
    - destruct (Nat.eqb (alg_r A) 0).
      + eexists. split; [reflexivity|]. apply (pol_unpol x r Hx H).
      + destruct (Nat.eqb (alg_r A) 1); [|discriminate].
        inversion H; subst r. eexists. split; [reflexivity|]. apply hodge_unhodge. exact Hx.
    - eexists. split; [reflexivity|]. apply (pol_unpol x r Hx H).
    - inversion H; subst r. eexists. split; [reflexivity|]. apply hodge_unhodge. exact Hx.
    - discriminate.
  Qed.

  (* the decision rule in one statement *)
  Theorem dual_kind (x : mv R) :
    (alg_r A = 0%nat -> dual O A KAuto x = polarity O A x)
    /\ (alg_r A = 1%nat -> dual O A KAuto x = Ok (hodge O A x))
    /\ ((2 <= alg_r A)%nat -> dual O A KAuto x = Err EOther)
    /\ dual O A KPolarity x = polarity O A x
    /\ dual O A KHodge x = Ok (hodge O A x)
    /\ dual O A KUnknown x = Err EValue.
  Proof.
    repeat split; [apply dual_auto_0 | apply dual_auto_1 | apply dual_auto_2].
  Qed.

  Theorem undual_kind (x : mv R) :
    (alg_r A = 0%nat -> undual O A KAuto x = Ok (unpolarity O A x))
    /\ (alg_r A = 1%nat -> undual O A KAuto x = Ok (unhodge O A x))
    /\ ((2 <= alg_r A)%nat -> undual O A KAuto x = Err EOther)
    /\ undual O A KPolarity x = Ok (unpolarity O A x)
    /\ undual O A KHodge x = Ok (unhodge O A x)
    /\ undual O A KUnknown x = Err EValue.
  Proof.
    repeat split; [apply undual_auto_0 | apply undual_auto_1 | apply undual_auto_2].
  Qed.

End Ops.

Arguments wfmv {R} A x.
Arguments sg {R} rO rI ropp z.
Arguments fl {R} ropp b v.
Arguments gcontrib {R} rO rmul ropp A sel K e.
Arguments select {R} rO rI radd rmul rsub ropp ks x.

(* ================= the section hypotheses, decidably, for a concrete algebra ================= *)

(* The hypotheses on the sign table used above, as one record ... *)
Record sign_hyps (A : alg) : Prop := mkSignHyps {
  sh_keys  : forall k, In k (canon_keys A) <-> (0 <= k < alg_len A)%Z;
  sh_nodup : NoDup (canon_keys A);
  sh_val   : forall I J, (0 <= I < alg_len A)%Z -> (0 <= J < alg_len A)%Z ->
               sgn A I J = 1%Z \/ sgn A I J = (-1)%Z \/ sgn A I J = 0%Z;
  sh_swap  : forall I J, (0 <= I < alg_len A)%Z -> (0 <= J < alg_len A)%Z ->
               sgn A J I
               = (par (Z.odd (popcount I * popcount J - popcount (Z.land I J))) * sgn A I J)%Z;
  sh_assoc : forall I J K, (0 <= I < alg_len A)%Z -> (0 <= J < alg_len A)%Z -> (0 <= K < alg_len A)%Z ->
               (sgn A I J * sgn A (Z.lxor I J) K = sgn A J K * sgn A I (Z.lxor J K))%Z;
  sh_disj  : forall I J, (0 <= I < alg_len A)%Z -> (0 <= J < alg_len A)%Z -> Z.land I J = 0%Z ->
               sgn A I J = 1%Z \/ sgn A I J = (-1)%Z;
  sh_scal  : forall I, (0 <= I < alg_len A)%Z -> sgn A 0 I = 1%Z /\ sgn A I 0 = 1%Z;
  sh_grade : forall n b, In (n, b) (a_c2b A) -> Z.of_nat (length n) = popcount b;
}.

(* ... and a boolean check of them by enumeration (for small concrete algebras: it evaluates the
   sign table len^3 times) *)
Definition zrange_all (L : Z) (P : Z -> bool) : bool :=
  forallb P (map Z.of_nat (seq 0 (Z.to_nat L))).

Lemma zrange_all_spec L P : zrange_all L P = true -> forall k, (0 <= k < L)%Z -> P k = true.
Proof.
  unfold zrange_all. intros H k Hk. rewrite forallb_forall in H. apply H.
  apply in_map_iff. exists (Z.to_nat k). split; [lia|]. apply in_seq. lia.
Qed.

Fixpoint znd (l : list Z) : bool :=
  match l with [] => true | x :: r => negb (zin x r) && znd r end.

Lemma znd_NoDup l : znd l = true -> NoDup l.
Proof.
  induction l as [|x r IH]; cbn [znd]; intros H.
  - constructor.
  - apply andb_true_iff in H. destruct H as [H1 H2]. constructor.
    + apply negb_true_iff in H1. apply zin_false_iff. exact H1.
    + apply IH. exact H2.
Qed.

Definition sign_hyps_b (A : alg) : bool :=
  let L := alg_len A in
  let s := sgn A in
  (forallb (fun k => Z.leb 0 k && Z.ltb k L) (canon_keys A)
  && zrange_all L (fun k => zin k (canon_keys A))
  && znd (canon_keys A)
  && zrange_all L (fun I => zrange_all L (fun J =>
       Z.eqb (s I J) 1 || Z.eqb (s I J) (-1) || Z.eqb (s I J) 0))
  && zrange_all L (fun I => zrange_all L (fun J =>
       Z.eqb (s J I) (par (Z.odd (popcount I * popcount J - popcount (Z.land I J))) * s I J)))
  && zrange_all L (fun I => zrange_all L (fun J => zrange_all L (fun K =>
       Z.eqb (s I J * s (Z.lxor I J) K) (s J K * s I (Z.lxor J K)))))
  && zrange_all L (fun I => zrange_all L (fun J =>
       negb (Z.eqb (Z.land I J) 0) || Z.eqb (s I J) 1 || Z.eqb (s I J) (-1)))
  && zrange_all L (fun I => Z.eqb (s 0 I) 1 && Z.eqb (s I 0) 1)
  && forallb (fun nb => Z.eqb (Z.of_nat (length (fst nb))) (popcount (snd nb))) (a_c2b A))%Z.

Theorem sign_hyps_b_sound A : sign_hyps_b A = true -> sign_hyps A.
Proof.
  unfold sign_hyps_b. cbv zeta. intros H.
  repeat (let H' := fresh "C" in apply andb_true_iff in H; destruct H as [H H']).
  rename H into C8. constructor.
  - intros k. split.
    + intros Hin. rewrite forallb_forall in C8. specialize (C8 k Hin).
      apply andb_true_iff in C8. destruct C8 as [H1 H2].
      apply Z.leb_le in H1. apply Z.ltb_lt in H2. lia.
    + intros Hk. apply zin_true_iff. apply (zrange_all_spec _ _ C6 k Hk).
  - apply znd_NoDup. exact C5.
  - intros I J HI HJ.
    pose proof (zrange_all_spec _ _ (zrange_all_spec _ _ C4 I HI) J HJ) as H.
    apply orb_true_iff in H. destruct H as [H|H]; [apply orb_true_iff in H; destruct H as [H|H]|];
      apply Z.eqb_eq in H; auto.
  - intros I J HI HJ.
    pose proof (zrange_all_spec _ _ (zrange_all_spec _ _ C3 I HI) J HJ) as H.
    apply Z.eqb_eq in H. exact H.
  - intros I J K HI HJ HK.
    pose proof (zrange_all_spec _ _ (zrange_all_spec _ _ (zrange_all_spec _ _ C2 I HI) J HJ) K HK) as H.
    apply Z.eqb_eq in H. exact H.
  - intros I J HI HJ E.
    pose proof (zrange_all_spec _ _ (zrange_all_spec _ _ C1 I HI) J HJ) as H.
    cbv beta in H. rewrite E in H. cbn [Z.eqb negb orb] in H.
    apply orb_true_iff in H. destruct H as [H|H]; apply Z.eqb_eq in H; auto.
  - intros I HI. pose proof (zrange_all_spec _ _ C0 I HI) as H.
    apply andb_true_iff in H. destruct H as [H1 H2]. apply Z.eqb_eq in H1. apply Z.eqb_eq in H2. auto.
  - intros n b Hin. rewrite forallb_forall in C. specialize (C (n, b) Hin).
    apply Z.eqb_eq in C. exact C.
Qed.

(* ================= closed examples over Z (non-vacuity) ================= *)

Section ExamplesZ.
  Local Open Scope Z_scope.
  Local Notation Zequiv := (equiv 0 1 Z.add Z.mul Z.sub Z.opp).

  (* Cl(2,0,1) without the degenerate vector first: signature (1, 1, -1), keys in canonical order
     0 = 1, 1 = e1, 2 = e2, 4 = e3, 3 = e12, 5 = e13, 6 = e23, 7 = e123 *)
  Definition A3 : alg := mk_default [1; 1; -1] 1 false.
  (* 2d PGA: signature (0, 1, 1), start index 0 *)
  Definition P2 : alg := mk_default [0; 1; 1] 0 false.

  Example A3_keys : canon_keys A3 = [0; 1; 2; 4; 3; 5; 6; 7].
  Proof. vm_compute. reflexivity. Qed.

  (* the hypotheses of this file hold for both algebras (checked by enumeration) *)
  Lemma A3_hyps : sign_hyps A3.
  Proof. apply sign_hyps_b_sound. vm_compute. reflexivity. Qed.
  Lemma P2_hyps : sign_hyps P2.
  Proof. apply sign_hyps_b_sound. vm_compute. reflexivity. Qed.

  Definition x3 : mv Z := [(1, 2); (6, -3); (7, 5); (0, 4)].
  Definition y3 : mv Z := [(3, 1); (5, -2); (2, 7)].

  Lemma x3_wf : wfmv A3 x3.
  Proof.
    split.
    - repeat constructor; cbn; intuition lia.
    - intros k Hk. change (alg_len A3) with 8. cbn in Hk. intuition lia.
  Qed.
  Lemma y3_wf : wfmv A3 y3.
  Proof.
    split.
    - repeat constructor; cbn; intuition lia.
    - intros k Hk. change (alg_len A3) with 8. cbn in Hk. intuition lia.
  Qed.

  (* --- fully closed instances of the theorems: every hypothesis discharged --- *)
  Example rp_spec_A3 (x y : mv Z) : wfmv A3 x -> wfmv A3 y ->
    Zequiv (rp Zops A3 x y) (unhodge Zops A3 (op Zops A3 (hodge Zops A3 x) (hodge Zops A3 y))).
  Proof.
    destruct A3_hyps as [Hk Hn Hv Hsw Has Hd Hsc Hg].
    exact (rp_spec Z 0 1 Z.add Z.mul Z.sub Z.opp Zth A3 Hk Hn Hd x y).
  Qed.

  Example hodge_unhodge_P2 (x : mv Z) : wfmv P2 x -> Zequiv (unhodge Zops P2 (hodge Zops P2 x)) x.
  Proof.
    destruct P2_hyps as [Hk Hn Hv Hsw Has Hd Hsc Hg].
    exact (hodge_unhodge Z 0 1 Z.add Z.mul Z.sub Z.opp Zth P2 Hk Hn x).
  Qed.

  Example reverse_gp_A3 (x y : mv Z) : wfmv A3 x -> wfmv A3 y ->
    Zequiv (reverse Zops A3 (gp Zops A3 x y)) (gp Zops A3 (reverse Zops A3 y) (reverse Zops A3 x)).
  Proof.
    destruct A3_hyps as [Hk Hn Hv Hsw Has Hd Hsc Hg].
    exact (reverse_gp Z 0 1 Z.add Z.mul Z.sub Z.opp Zth A3 Hk Hn Hsw x y).
  Qed.

  Example pol_unpol_A3 (x r : mv Z) : wfmv A3 x -> polarity Zops A3 x = Ok r ->
    Zequiv (unpolarity Zops A3 r) x.
  Proof.
    destruct A3_hyps as [Hk Hn Hv Hsw Has Hd Hsc Hg].
    exact (pol_unpol Z 0 1 Z.add Z.mul Z.sub Z.opp Zth A3 Hk Hn Has Hsc x r).
  Qed.

  (* --- the same facts on concrete sparse operands, by computation --- *)

  (* item 8 *)
  Example hodge_ex : hodge Zops A3 x3 = [(0, 5); (1, -3); (6, 2); (7, 4)].
  Proof. vm_compute. reflexivity. Qed.
  Example hodge_unhodge_ex : unhodge Zops A3 (hodge Zops A3 x3) = [(0, 4); (1, 2); (6, -3); (7, 5)].
  Proof. vm_compute. reflexivity. Qed.
  Example unhodge_hodge_ex : hodge Zops A3 (unhodge Zops A3 x3) = [(0, 4); (1, 2); (6, -3); (7, 5)].
  Proof. vm_compute. reflexivity. Qed.

  (* item 9: e13 ^ hodge e13 = e123 *)
  Example blade_wedge_hodge_ex : op Zops A3 [(5, 1)] (hodge Zops A3 [(5, 1)]) = [(7, 1)].
  Proof. vm_compute. reflexivity. Qed.

  (* item 10 *)
  Example rp_ex : rp Zops A3 x3 y3 = [(2, 38); (4, -6); (3, 5); (5, -10)].
  Proof. vm_compute. reflexivity. Qed.
  Example rp_spec_ex :
    unhodge Zops A3 (op Zops A3 (hodge Zops A3 x3) (hodge Zops A3 y3)) = rp Zops A3 x3 y3.
  Proof. vm_compute. reflexivity. Qed.
  Example rp_pss_ex :
    rp Zops A3 x3 (pss_mv Zops A3) = [(0, 4); (1, 2); (6, -3); (7, 5)]
    /\ rp Zops A3 (pss_mv Zops A3) x3 = [(0, 4); (1, 2); (6, -3); (7, 5)].
  Proof. vm_compute. split; reflexivity. Qed.

  (* item 1: the coefficient of e2 in x3 ^ y3 is the sum of the grade-raising contributions *)
  Example op_graded_ex :
    coeff Zops 2 (op Zops A3 x3 y3)
    = rsum 0 Z.add (map (gcontrib 0 Z.mul Z.opp A3 sel_op 2) (list_prod x3 y3)).
  Proof. vm_compute. reflexivity. Qed.

  (* item 2 *)
  Example ip_sp_lc_rc_ex :
    map (fun K => coeff Zops K (ip Zops A3 x3 x3) + coeff Zops K (sp Zops A3 x3 x3)) (canon_keys A3)
    = map (fun K => coeff Zops K (lc Zops A3 x3 x3) + coeff Zops K (rc Zops A3 x3 x3)) (canon_keys A3).
  Proof. vm_compute. reflexivity. Qed.

  (* item 3 *)
  Example cp_spec_ex :
    map (fun K => 2 * coeff Zops K (cp Zops A3 x3 y3)) (canon_keys A3)
    = map (fun K => coeff Zops K (gp Zops A3 x3 y3) - coeff Zops K (gp Zops A3 y3 x3)) (canon_keys A3).
  Proof. vm_compute. reflexivity. Qed.

  (* item 6 *)
  Example reverse_gp_ex :
    reverse Zops A3 (gp Zops A3 x3 y3) = gp Zops A3 (reverse Zops A3 y3) (reverse Zops A3 x3).
  Proof. vm_compute. reflexivity. Qed.

  (* item 7 *)
  Example grade_sel_ex :
    grade_sel Zops A3 [1; 3]%nat x3 = Ok [(1, 2); (7, 5)]
    /\ grade_sel Zops A3 [2; 1]%nat x3 = Err EKey
    /\ grade_sel Zops A3 [4]%nat x3 = Err EKey.
  Proof. vm_compute. repeat split; reflexivity. Qed.

  (* items 11, 12: I^2 = +1 in A3 (polarity = x I), I^2 = 0 in PGA (ZeroDivisionError, and the
     automatic dual is the Hodge dual), I^2 = -1 in Cl(0,2) (polarity = x (-I)) *)
  Example polarity_ex :
    sgn A3 7 7 = 1
    /\ polarity Zops A3 x3 = Ok [(0, 5); (1, -3); (6, 2); (7, 4)]
    /\ unpolarity Zops A3 [(0, 5); (1, -3); (6, 2); (7, 4)] = [(0, 4); (1, 2); (6, -3); (7, 5)].
  Proof. vm_compute. repeat split; reflexivity. Qed.
  Example polarity_pga_ex :
    polarity Zops P2 x3 = Err EZeroDiv
    /\ alg_r P2 = 1%nat
    /\ dual Zops P2 KAuto x3 = Ok (hodge Zops P2 x3)
    /\ dual Zops A3 KAuto x3 = polarity Zops A3 x3.
  Proof. vm_compute. repeat split; reflexivity. Qed.
  Example polarity_neg_ex :
    let Aq := mk_default [-1; -1] 1 false in
    sgn Aq 3 3 = -1
    /\ polarity Zops Aq [(1, 2); (3, 5); (0, 4)] = Ok [(0, 5); (2, 2); (3, -4)]
    /\ gp Zops Aq [(1, 2); (3, 5); (0, 4)] [(3, -1)] = [(0, 5); (2, 2); (3, -4)].
  Proof. vm_compute. repeat split; reflexivity. Qed.
End ExamplesZ.
