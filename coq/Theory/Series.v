(* Theory/Series.v — C19: the outer exponential family, powers, the Study-number square root, norms and
   the exponential of simple elements, proved about the executable model Model/Series.v.

   Setting: an ABSTRACT commutative ring R (Section variables + ring_theory), an abstract algebra A
   under the sign-table hypotheses [sign_hyps A] (Theory/Ops.v; they hold for every well-formed algebra,
   Theory/OpsWF.v), the multivector-level laws of Theory/Algebra.v (associativity, bilinearity, units of
   gp and op).  Where the code divides by an integer the ring must be a Q-algebra, stated as the
   hypothesis   Hdiv : 1 <= n -> n * (v /n n) = v   on the model's division [o_divn].

     1. outer exponential: outerexp_terms_spec, outerexp_break_sound, outerexp_spec, outersin_spec,
        outercos_spec, outersin_cos_split, outertan_spec, outerexp_full_series
     2. powers: pow_zero, pow_spec, pow_neg, pow_half, pow_add, pow_inverse
     3. the algebra  E(c,t) = c + t x  of an element with scalar square: E_mul
     4. square root of a Study number: sqrt_formula_square, sqrt_model_scalar/null/study
     5. norm, normalized: normsq_scal, normalized_spec, norm_scalar_only
     6. exp: gpow_even/odd, exp_formula_algebraic, exp_model_spec, exp_branch_sound, exp_raises
   [==] is Sparse.equiv: the same coefficient on every blade, absent = 0. *)
From Coq Require Import List ZArith Bool Ring Lia Permutation RelationClasses Arith ZifyNat.
From KV Require Import Model.All Model.Series Theory.WF Theory.Sparse Theory.Product
  Theory.Ops Theory.OpsWF Theory.Algebra.
Import ListNotations.

Ltac Zify.zify_post_hook ::= Z.to_euclidean_division_equations.

(* ---------- plain list facts: Ws[0::2], Ws[1::2] ---------- *)

Lemma list_ind2 {X} (P : list X -> Prop) :
  P [] -> (forall a, P [a]) -> (forall a b l, P l -> P (a :: b :: l)) -> forall l, P l.
Proof.
  intros H0 H1 H2. fix IH 1. intros [|a [|b l]]; [exact H0 | apply H1 | apply H2, IH].
Qed.

Lemma evens_cons2 {X} (a b : X) l : evens (a :: b :: l) = a :: evens l.
Proof. reflexivity. Qed.
Lemma odds_cons2 {X} (a b : X) l : odds (a :: b :: l) = b :: odds l.
Proof. unfold odds. destruct l; reflexivity. Qed.

Lemma length_evens {X} (l : list X) : length (evens l) = ((length l + 1) / 2)%nat.
Proof.
  induction l as [| a | a b l IH] using list_ind2; [reflexivity | reflexivity |].
  rewrite evens_cons2. cbn [length]. rewrite IH. lia.
Qed.
Lemma length_odds {X} (l : list X) : length (odds l) = (length l / 2)%nat.
Proof.
  induction l as [| a | a b l IH] using list_ind2; [reflexivity | reflexivity |].
  rewrite odds_cons2. cbn [length]. rewrite IH. lia.
Qed.
Lemma nth_evens {X} (l : list X) i d : nth i (evens l) d = nth (2 * i) l d.
Proof.
  revert i. induction l as [| a | a b l IH] using list_ind2; intros i.
  - destruct i; reflexivity.
  - destruct i as [|i]; [reflexivity|]. rewrite !nth_overflow by (cbn [evens length]; lia). reflexivity.
  - rewrite evens_cons2. destruct i as [|i]; [reflexivity|].
    replace (2 * S i)%nat with (S (S (2 * i))) by lia. cbn [nth]. apply IH.
Qed.
Lemma nth_odds {X} (l : list X) i d : nth i (odds l) d = nth (2 * i + 1) l d.
Proof.
  revert i. induction l as [| a | a b l IH] using list_ind2; intros i.
  - destruct i; reflexivity.
  - rewrite !nth_overflow by (cbn [odds evens length]; lia). reflexivity.
  - rewrite odds_cons2. destruct i as [|i]; [reflexivity|].
    replace (2 * S i + 1)%nat with (S (S (2 * i + 1))) by lia. cbn [nth]. apply IH.
Qed.
Lemma Forall_evens {X} (P : X -> Prop) l : Forall P l -> Forall P (evens l).
Proof.
  induction l as [| a | a b l IH] using list_ind2; intros H.
  - constructor.
  - exact H.
  - rewrite evens_cons2. inversion H as [|? ? Ha H']; subst. inversion H' as [|? ? Hb H'']; subst.
    constructor; [exact Ha | apply IH, H''].
Qed.
Lemma Forall_odds {X} (P : X -> Prop) l : Forall P l -> Forall P (odds l).
Proof.
  induction l as [| a | a b l IH] using list_ind2; intros H.
  - constructor.
  - constructor.
  - rewrite odds_cons2. inversion H as [|? ? Ha H']; subst. inversion H' as [|? ? Hb H'']; subst.
    constructor; [exact Hb | apply IH, H''].
Qed.

Lemma map_nth_seq {X} (l : list X) d : l = map (fun i => nth i l d) (seq 0 (length l)).
Proof.
  induction l as [|a l IH]; [reflexivity|].
  cbn [length seq map nth]. f_equal. rewrite <- seq_shift, map_map. exact IH.
Qed.

Lemma last_nth {X} (l : list X) d : last l d = nth (length l - 1) l d.
Proof.
  induction l as [|a l IH]; [reflexivity|].
  destruct l as [|b l]; [reflexivity|].
  change (last (a :: b :: l) d) with (last (b :: l) d). rewrite IH.
  cbn [length]. replace (S (S (length l)) - 1)%nat with (S (S (length l) - 1)) by lia. reflexivity.
Qed.

Section Series.
  Variable R : Type.
  Variables (rO rI : R) (radd rmul rsub : R -> R -> R) (ropp : R -> R).
  Hypothesis Rth : ring_theory rO rI radd rmul rsub ropp (@eq R).
  Add Ring Rring : Rth.
  Local Notation O := (mkOps R radd rsub rmul ropp rO rI).
  Local Notation "a + b" := (radd a b) : kvr_scope.
  Local Notation "a * b" := (rmul a b) : kvr_scope.
  Local Notation "a - b" := (rsub a b) : kvr_scope.
  Local Notation "- a" := (ropp a) : kvr_scope.
  Local Notation rsum := (Sparse.rsum rO radd).
  Local Notation equiv := (Sparse.equiv rO rI radd rmul rsub ropp).
  Local Infix "==" := equiv (at level 70, no associativity).
  Local Notation RT l := (l R rO rI radd rmul rsub ropp Rth) (only parsing).
  Local Notation RN l := (l R rO rI radd rmul rsub ropp) (only parsing).
  Local Open Scope Z_scope.

  (* the extra coefficient operations of Model/Series.v *)
  Variables (divn : R -> Z -> R) (rsqrt rinv : R -> R).
  Local Notation SO := (mkSops R O divn rsqrt rinv).

  Variable A : alg.
  Hypothesis SH : sign_hyps A.
  Local Notation L := (alg_len A).
  Local Notation d := (a_d A).
  Local Notation wf := (@wfmv R A).
  Local Notation cf K x := (coeff O K x).
  Local Notation RA l := (l R rO rI radd rmul rsub ropp Rth A SH) (only parsing).
  Local Notation gp := (Codegen.gp O A).
  Local Notation op := (Codegen.op O A).
  Local Notation add := (Codegen.add O A).
  Local Notation sub := (Codegen.sub O A).
  Local Notation scal := (Algebra.scal rmul).
  Local Notation one := (Algebra.one rI).

  Local Instance equiv_Equiv : Equivalence equiv := RN equiv_Equivalence.

  (* ---------- well-formedness bookkeeping ---------- *)
  Lemma Wgp x y : wf (gp x y).    Proof. exact (wfmv_gp R rO rI radd rmul rsub ropp A SH x y). Qed.
  Lemma Wop x y : wf (op x y).    Proof. exact (wfmv_op R rO rI radd rmul rsub ropp A SH x y). Qed.
  Lemma Wadd x y : wf (add x y).  Proof. exact (wfmv_add R rO rI radd rmul rsub ropp A SH x y). Qed.
  Lemma Wsub x y : wf (sub x y).  Proof. exact (wfmv_sub R rO rI radd rmul rsub ropp A SH x y). Qed.
  Lemma Wscal c x : wf x -> wf (scal c x). Proof. exact (wfmv_scal R rmul A c x). Qed.
  Lemma Wone : wf one.            Proof. exact (wfmv_one R rI A). Qed.
  Lemma Wnil : wf [].             Proof. exact (wfmv_nil R A). Qed.
  Lemma Wscalar c : wf [(0, c)].  Proof. exact (wfmv_scalar R A c). Qed.
  Lemma Wscalar_mv c : wf (scalar_mv c). Proof. exact (Wscalar c). Qed.
  Hint Resolve Wgp Wop Wadd Wsub Wscal Wone Wnil Wscalar Wscalar_mv : wfdb.
  Ltac wfs := solve [auto 8 with wfdb].

  (* coefficient forms of the laws *)
  Lemma cadd x y K : wf x -> wf y -> 0 <= K < L -> cf K (add x y) = (cf K x + cf K y)%r.
  Proof. intros; apply (RA cf_add); assumption. Qed.
  Lemma csub x y K : wf x -> wf y -> 0 <= K < L -> cf K (sub x y) = (cf K x - cf K y)%r.
  Proof. intros; apply (RA cf_sub); assumption. Qed.
  Lemma cscal c x K : cf K (scal c x) = (c * cf K x)%r.
  Proof. apply (RT cf_scal). Qed.
  Lemma cgp_add_l x x' y K : wf x -> wf x' -> wf y -> 0 <= K < L ->
    cf K (gp (add x x') y) = (cf K (gp x y) + cf K (gp x' y))%r.
  Proof. intros. rewrite (RA gp_add_l x x' y) by assumption. apply cadd; [wfs | wfs | assumption]. Qed.
  Lemma cgp_add_r x y y' K : wf x -> wf y -> wf y' -> 0 <= K < L ->
    cf K (gp x (add y y')) = (cf K (gp x y) + cf K (gp x y'))%r.
  Proof. intros. rewrite (RA gp_add_r x y y') by assumption. apply cadd; [wfs | wfs | assumption]. Qed.
  Lemma cgp_scal_l c x y K : wf x -> wf y -> cf K (gp (scal c x) y) = (c * cf K (gp x y))%r.
  Proof. intros. rewrite (RA gp_scal_l c x y) by assumption. apply cscal. Qed.
  Lemma cgp_scal_r c x y K : wf x -> wf y -> cf K (gp x (scal c y)) = (c * cf K (gp x y))%r.
  Proof. intros. rewrite (RA gp_scal_r c x y) by assumption. apply cscal. Qed.
  Lemma eqv x y : wf x -> wf y -> (forall K, 0 <= K < L -> cf K x = cf K y) -> x == y.
  Proof. apply (RN eqv_in). Qed.
  Lemma cnil K : cf K ([] : mv R) = rO. Proof. reflexivity. Qed.

  (* the symbolic filter F of the generators: it only drops coefficients that are zero *)
  Definition filter_ok (F : mv R -> mv R) : Prop := forall y, wf y -> wf (F y) /\ F y == y.
  Lemma filter_ok_id : filter_ok (fun y => y).
  Proof. intros y Hy. split; [exact Hy | reflexivity]. Qed.
  Lemma filter_ok_nz (isz : R -> bool) : (forall v, isz v = true -> v = rO) -> filter_ok (filter_nz isz).
  Proof.
    intros Hz y [Hnd Hin]. split.
    - split.
      + unfold filter_nz, keys. clear Hin. induction y as [|[k v] y IH]; [constructor|].
        cbn [filter snd]. cbn [keys map fst] in Hnd. inversion Hnd as [|? ? Hk Hy']; subst.
        destruct (negb (isz v)); [|apply IH, Hy'].
        cbn [map fst]. constructor; [|apply IH, Hy'].
        intros Hc. apply Hk. apply in_map_iff in Hc. destruct Hc as [[k' v'] [E Hc]].
        apply filter_In in Hc. destruct Hc as [Hc _]. apply in_map_iff. exists (k', v'). split; assumption.
      + intros k Hk. apply Hin. unfold filter_nz, keys in *. apply in_map_iff in Hk.
        destruct Hk as [kv [E Hk]]. apply filter_In in Hk. apply in_map_iff. exists kv. split; [exact E | apply Hk].
    - intros K. unfold filter_nz. clear Hin. induction y as [|[k v] y IH]; [reflexivity|].
      cbn [keys map fst] in Hnd. inversion Hnd as [|? ? Hk Hy']; subst.
      cbn [filter snd]. destruct (isz v) eqn:E; cbn [negb].
      + rewrite (RN coeff_cons). destruct (Z.eqb k K) eqn:EK.
        * apply Z.eqb_eq in EK. subst K. rewrite (Hz v E).
          rewrite IH by exact Hy'. apply (RN coeff_notin). exact Hk.
        * apply IH, Hy'.
      + rewrite !(RN coeff_cons). destruct (Z.eqb k K); [reflexivity | apply IH, Hy'].
  Qed.

  (* ================= 0. integers and factorials in R ================= *)

  Fixpoint rnat (n : nat) : R := match n with 0%nat => rO | S m => (rI + rnat m)%r end.
  Fixpoint rpow (s : R) (n : nat) : R := match n with 0%nat => rI | S m => (s * rpow s m)%r end.

  Lemma rnat_add m n : rnat (m + n) = (rnat m + rnat n)%r.
  Proof. induction m as [|m IH]; cbn [Nat.add rnat]; [ring | rewrite IH; ring]. Qed.
  Lemma rnat_mul m n : rnat (m * n) = (rnat m * rnat n)%r.
  Proof. induction m as [|m IH]; cbn [Nat.mul rnat]; [ring | rewrite rnat_add, IH; ring]. Qed.

  (* R is a Q-algebra and [divn] divides:  n * (v / n) = v  for every positive integer n *)
  Definition divn_ok : Prop := forall v n, (1 <= n)%nat -> (rnat n * divn v (Z.of_nat n))%r = v.
  Hypothesis Hdiv : divn_ok.

  Definition ri (n : nat) : R := divn rI (Z.of_nat n).          (* 1/n *)
  Fixpoint invfact (k : nat) : R := match k with 0%nat => rI | S m => (ri (S m) * invfact m)%r end.  (* 1/k! *)

  Lemma ri_spec n : (1 <= n)%nat -> (rnat n * ri n)%r = rI.
  Proof. intros H. apply Hdiv, H. Qed.
  Lemma divn_eq v n : (1 <= n)%nat -> divn v (Z.of_nat n) = (ri n * v)%r.
  Proof.
    intros H. pose proof (ri_spec n H) as E. pose proof (Hdiv v n H) as E2.
    transitivity ((rnat n * ri n) * divn v (Z.of_nat n))%r; [rewrite E; ring|].
    transitivity (ri n * (rnat n * divn v (Z.of_nat n)))%r; [ring | rewrite E2; reflexivity].
  Qed.
  Lemma ri_1 : ri 1 = rI.
  Proof. pose proof (ri_spec 1%nat (le_n _)) as E. cbn [rnat] in E. rewrite <- E. ring. Qed.
  Lemma invfact_spec k : (rnat (fact k) * invfact k)%r = rI.
  Proof.
    induction k as [|k IH]; [cbn; ring|].
    change (fact (S k)) with (S k * fact k)%nat. rewrite rnat_mul. cbn [invfact].
    transitivity ((rnat (S k) * ri (S k)) * (rnat (fact k) * invfact k))%r; [ring|].
    rewrite IH, ri_spec by lia. ring.
  Qed.
  Lemma invfact_1 : invfact 1 = rI.
  Proof. cbn [invfact]. rewrite ri_1. ring. Qed.

  Lemma divn_mv_scal x n : (1 <= n)%nat -> divn_mv SO x (Z.of_nat n) = scal (ri n) x.
  Proof.
    intros H. unfold divn_mv, Algebra.scal. apply map_ext. intros [k v]. cbn [fst snd o_divn].
    rewrite divn_eq by exact H. reflexivity.
  Qed.

  (* ================= 1. the outer exponential ================= *)

  (* x^(wedge k), multiplying on the right as the loop does, and the k-th term of the series *)
  Fixpoint wpow (x : mv R) (k : nat) : mv R := match k with 0%nat => one | S m => op (wpow x m) x end.
  Definition wterm (x : mv R) (k : nat) : mv R := scal (invfact k) (wpow x k).
  (* sum of a list of multivectors *)
  Definition msum (l : list (mv R)) : mv R := fold_right (fun w acc => add w acc) [] l.

  Lemma Wwpow x k : wf x -> wf (wpow x k).
  Proof. intros Hx. destruct k; cbn [wpow]; wfs. Qed.
  Lemma Wwterm x k : wf x -> wf (wterm x k).
  Proof. intros Hx. apply Wscal, Wwpow, Hx. Qed.
  Hint Resolve Wwpow Wwterm : wfdb.
  Lemma Wmsum l : wf (msum l).
  Proof. destruct l; cbn [msum fold_right]; wfs. Qed.
  Hint Resolve Wmsum : wfdb.

  Lemma wterm_0 x : wterm x 0 == one.
  Proof. unfold wterm. cbn [invfact wpow]. apply (RT scal_one). Qed.
  Lemma wterm_1 x : wf x -> wterm x 1 == x.
  Proof.
    intros Hx. unfold wterm. rewrite invfact_1. cbn [wpow].
    rewrite (RT scal_one). apply (RA op_one_l). exact Hx.
  Qed.
  (* W_(k+1) = (W_k ^ x) / (k+1) *)
  Lemma wterm_succ x k : wf x -> wterm x (S k) == scal (ri (S k)) (op (wterm x k) x).
  Proof.
    intros Hx. unfold wterm. cbn [invfact wpow]. symmetry.
    rewrite (RT scal_congr _ _ _ (RA op_scal_l (invfact k) (wpow x k) x (Wwpow x k Hx) Hx)).
    apply (RT scal_scal).
  Qed.
  Lemma wterm_zero_succ x k : wf x -> wterm x k == [] -> wterm x (S k) == [].
  Proof.
    intros Hx H0. rewrite (wterm_succ x k Hx).
    rewrite (RT scal_congr _ _ _ (RT op_congr A _ [] x x (Wwterm x k Hx) Wnil Hx Hx H0 (reflexivity x))).
    rewrite (RT scal_congr _ _ _ (RN op_zero_l A x)). reflexivity.
  Qed.
  (* once a term is zero all later ones are *)
  Lemma wterm_zero_after x n k : wf x -> wterm x n == [] -> (n <= k)%nat -> wterm x k == [].
  Proof.
    intros Hx H0 Hle. induction Hle as [|k Hle IH]; [exact H0 | apply wterm_zero_succ; assumption].
  Qed.
  (* the same for the wedge powers themselves: this is why the `break` loses nothing *)
  Lemma wpow_of_wterm x k : wf x -> wpow x k == scal (rnat (fact k)) (wterm x k).
  Proof.
    intros Hx. unfold wterm. rewrite (RT scal_scal), invfact_spec. symmetry. apply (RT scal_one).
  Qed.
  Theorem outerexp_break_sound x n k : wf x -> wpow x n == [] -> (n <= k)%nat -> wpow x k == [].
  Proof.
    intros Hx H0 Hle. rewrite (wpow_of_wterm x k Hx).
    assert (H1 : wterm x n == []).
    { unfold wterm. rewrite (RT scal_congr _ _ _ H0). reflexivity. }
    rewrite (RT scal_congr _ _ _ (wterm_zero_after x n k Hx H1 Hle)). reflexivity.
  Qed.

  Section WithFilter.
  Variable F : mv R -> mv R.
  Hypothesis HF : filter_ok F.
  Lemma WF y : wf y -> wf (F y). Proof. intros H; apply HF, H. Qed.
  Lemma EF y : wf y -> F y == y. Proof. intros H; apply HF, H. Qed.
  Hint Resolve WF : wfdb.

  (* the loop: invariant "Ws = [W_0 .. W_(n-1)]", j = n *)
  Lemma outerexp_loop_spec x : wf x -> forall fuel n (Ws : list (mv R)),
    length Ws = n -> (1 <= n)%nat -> (S d <= fuel + n)%nat ->
    (forall k, (k < n)%nat -> wf (nth k Ws []) /\ nth k Ws [] == wterm x k) ->
    exists Ws', outerexp_loop SO F A x fuel (Z.of_nat n) Ws = Ok Ws' /\
      (n <= length Ws')%nat /\ (length Ws' <= Nat.max n (S d))%nat /\
      (forall k, (k < length Ws')%nat -> wf (nth k Ws' []) /\ nth k Ws' [] == wterm x k) /\
      (forall k, (length Ws' <= k <= d)%nat -> wterm x k == []).
  Proof.
    intros Hx fuel. induction fuel as [|fuel IH]; intros n Ws Hlen Hn Hfuel Hinv.
    - (* no fuel: then n > d and the loop test fails *)
      cbn [outerexp_loop]. replace (Z.leb (Z.of_nat n) (Z.of_nat d)) with false by (symmetry; apply Z.leb_gt; lia).
      exists Ws. split; [reflexivity|]. rewrite Hlen. refine (conj _ (conj _ (conj Hinv _))); try lia.
    - cbn [outerexp_loop s_ops]. destruct (Z.leb (Z.of_nat n) (Z.of_nat d)) eqn:Ej.
      + apply Z.leb_le in Ej. assert (Hnd : (n <= d)%nat) by lia.
        set (Wj := divn_mv SO (F (op (last Ws []) x)) (Z.of_nat n)).
        assert (HWj : wf Wj /\ Wj == wterm x n).
        { unfold Wj. rewrite divn_mv_scal by exact Hn. rewrite last_nth, Hlen.
          destruct n as [|m]; [lia|]. replace (S m - 1)%nat with m by lia.
          destruct (Hinv m ltac:(lia)) as [Hw He].
          split; [wfs|].
          rewrite (wterm_succ x m Hx).
          apply (RT scal_congr). rewrite (EF _ (Wop _ _)).
          apply (RT op_congr); try assumption; [wfs | reflexivity]. }
        destruct HWj as [HWjw HWje].
        destruct (mv_truthy Wj) eqn:Et.
        * replace (Z.of_nat n + 1) with (Z.of_nat (S n)) by lia.
          destruct (IH (S n) (Ws ++ [Wj])) as [Ws' [E [H1 [H2 [H3 H4]]]]].
          -- rewrite app_length, Hlen. cbn. lia.
          -- lia.
          -- lia.
          -- intros k Hk. destruct (Nat.eq_dec k n) as [->|Hne].
             ++ rewrite app_nth2 by lia. rewrite Hlen, Nat.sub_diag. cbn [nth]. split; assumption.
             ++ rewrite app_nth1 by lia. apply Hinv. lia.
          -- exists Ws'. split; [exact E|]. refine (conj _ (conj _ (conj H3 H4))); lia.
        * exists Ws. split; [reflexivity|]. rewrite Hlen. refine (conj _ (conj _ (conj Hinv _))); try lia.
          intros k Hk. apply (wterm_zero_after x n k Hx); [|lia].
          destruct Wj; [symmetry; exact HWje | discriminate].
      + apply Z.leb_gt in Ej. exists Ws. split; [reflexivity|]. rewrite Hlen.
        refine (conj _ (conj _ (conj Hinv _))); try lia.
  Qed.

  (* the number of the last term the loop can reach: k = alg.d, but Ws starts as [1, x] *)
  Definition last_term : nat := Nat.max 1 d.

  (* codegen_outerexp(x, asterms=True): the k-th element of Ws is x^(wedge k)/k!, for every k up to where
     the loop stops; it stops before last_term only when that and all later terms vanish *)
  Theorem outerexp_terms_spec x : wf x ->
    exists Ws, outerexp_terms_with SO F A x = Ok Ws /\
      (2 <= length Ws <= S last_term)%nat /\
      (forall k, (k < length Ws)%nat -> wf (nth k Ws []) /\ nth k Ws [] == wterm x k) /\
      (forall k, (length Ws <= k <= last_term)%nat -> wterm x k == []).
  Proof.
    intros Hx. unfold outerexp_terms_with.
    destruct (outerexp_loop_spec x Hx d 2%nat [scalar_mv (o_one O); x]) as [Ws' [E [H1 [H2 [H3 H4]]]]].
    - reflexivity.
    - lia.
    - lia.
    - intros k Hk. destruct k as [|[|k]]; [| |lia]; cbn [nth].
      + split; [wfs | symmetry; apply wterm_0].
      + split; [exact Hx | symmetry; apply wterm_1, Hx].
    - exists Ws'. split; [exact E|]. unfold last_term. refine (conj _ (conj H3 _)); try lia.
      intros k Hk. apply H4. lia.
  Qed.

  (* reduce(operator.add, Ws) *)
  Lemma sum_mvs_spec w r : wf w -> Forall wf r ->
    let s := fold_left (fun acc w' => F (add acc w')) r w in
    wf s /\ forall K, 0 <= K < L -> cf K s = (cf K w + rsum (map (fun y => cf K y) r))%r.
  Proof.
    intros Hw Hr. revert w Hw. induction Hr as [|y r Hy Hr IH]; intros w Hw; cbn [fold_left map Sparse.rsum].
    - split; [exact Hw | intros; ring].
    - destruct (IH (F (add w y)) ltac:(wfs)) as [H1 H2]. split; [exact H1|].
      intros K HK. rewrite (H2 K HK). rewrite (EF _ (Wadd w y) K), cadd by assumption. ring.
  Qed.
  Lemma cf_msum l K : Forall wf l -> 0 <= K < L -> cf K (msum l) = rsum (map (fun y => cf K y) l).
  Proof.
    intros Hl HK. induction Hl as [|y r Hy Hr IH]; [reflexivity|].
    cbn [msum fold_right map Sparse.rsum]. rewrite cadd by (try assumption; apply Wmsum).
    fold (msum r). rewrite IH. reflexivity.
  Qed.
  Lemma sum_mvs_msum Ws : Ws <> [] -> Forall wf Ws ->
    exists s, sum_mvs SO F A Ws = Ok s /\ wf s /\ s == msum Ws.
  Proof.
    intros Hne Hw. destruct Ws as [|w r]; [congruence|]. inversion Hw as [|? ? Hw0 Hr]; subst.
    destruct (sum_mvs_spec w r Hw0 Hr) as [H1 H2].
    exists (fold_left (fun acc w' => F (add acc w')) r w). split; [reflexivity|]. split; [exact H1|].
    apply eqv; [exact H1 | wfs |]. intros K HK. rewrite (H2 K HK), cf_msum by assumption. reflexivity.
  Qed.

  (* finite sums over index ranges *)
  Lemma rsum_seq_ext (f g : nat -> R) a n :
    (forall k, (a <= k < a + n)%nat -> f k = g k) -> rsum (map f (seq a n)) = rsum (map g (seq a n)).
  Proof.
    revert a. induction n as [|n IH]; intros a H; [reflexivity|].
    cbn [seq map Sparse.rsum]. rewrite H by lia. rewrite (IH (S a)); [reflexivity|]. intros k Hk. apply H. lia.
  Qed.
  Lemma rsum_seq_zero (f : nat -> R) a n :
    (forall k, (a <= k < a + n)%nat -> f k = rO) -> rsum (map f (seq a n)) = rO.
  Proof.
    intros H. rewrite (rsum_seq_ext f (fun _ => rO) a n H). clear H. revert a.
    induction n as [|n IH]; intros a; [reflexivity|]. cbn [seq map Sparse.rsum]. rewrite IH. ring.
  Qed.
  Lemma rsum_seq_extend (f : nat -> R) n m : (n <= m)%nat ->
    (forall k, (n <= k < m)%nat -> f k = rO) -> rsum (map f (seq 0 n)) = rsum (map f (seq 0 m)).
  Proof.
    intros Hle Hz. replace m with (n + (m - n))%nat by lia. rewrite seq_app, map_app, (RT rsum_app).
    rewrite (rsum_seq_zero f (0 + n) (m - n)); [ring|]. intros k Hk. apply Hz. lia.
  Qed.

  (* a selection Ws[sel 0], Ws[sel 1], ... of the terms sums to the corresponding selection of the series *)
  Lemma selection_sum x (Ws sub_ : list (mv R)) (sel : nat -> nat) (cnt : nat) : wf x ->
    (forall k, (k < length Ws)%nat -> wf (nth k Ws []) /\ nth k Ws [] == wterm x k) ->
    (forall k, (length Ws <= k <= last_term)%nat -> wterm x k == []) ->
    sub_ <> [] -> (length sub_ <= cnt)%nat ->
    (forall i, (i < length sub_)%nat -> nth i sub_ [] = nth (sel i) Ws [] /\ (sel i < length Ws)%nat) ->
    (forall i, (length sub_ <= i < cnt)%nat -> (length Ws <= sel i <= last_term)%nat) ->
    exists s, sum_mvs SO F A sub_ = Ok s /\ wf s /\ s == msum (map (fun i => wterm x (sel i)) (seq 0 cnt)).
  Proof.
    intros Hx Hinv Hz Hne Hcnt Hsel Hrest.
    assert (Hw : Forall wf sub_).
    { apply Forall_forall. intros y Hy. destruct (In_nth _ _ ([] : mv R) Hy) as [i [Hi E]]. subst y.
      destruct (Hsel i Hi) as [E Hs]. rewrite E. apply Hinv, Hs. }
    destruct (sum_mvs_msum sub_ Hne Hw) as [s [E [Hs Hse]]].
    exists s. split; [exact E|]. split; [exact Hs|].
    rewrite Hse. apply eqv; [wfs | wfs |]. intros K HK.
    rewrite cf_msum by assumption.
    rewrite cf_msum; [| |assumption].
    2:{ apply Forall_forall. intros y Hy. apply in_map_iff in Hy. destruct Hy as [i [<- _]]. wfs. }
    rewrite map_map.
    rewrite (map_nth_seq sub_ []) at 1. rewrite map_map.
    rewrite (rsum_seq_ext _ (fun i => cf K (wterm x (sel i))) 0 (length sub_)).
    - apply rsum_seq_extend; [exact Hcnt|]. intros i Hi. rewrite (Hz (sel i) (Hrest i Hi) K). reflexivity.
    - intros i Hi. destruct (Hsel i ltac:(lia)) as [E1 Hs1]. rewrite E1. apply (proj2 (Hinv _ Hs1) K).
  Qed.

  (* outerexp(x) = sum_{k=0..last_term} x^(wedge k)/k! *)
  Theorem outerexp_spec x : wf x ->
    exists r, outerexp_with SO F A x = Ok r /\ wf r /\ r == msum (map (wterm x) (seq 0 (S last_term))).
  Proof.
    intros Hx. destruct (outerexp_terms_spec x Hx) as [Ws [E [Hlen [Hinv Hz]]]].
    unfold outerexp_with. rewrite E. cbn [bind].
    apply (selection_sum x Ws Ws (fun i => i) (S last_term) Hx Hinv Hz).
    - destruct Ws; [cbn in Hlen; lia | discriminate].
    - lia.
    - intros i Hi. split; [reflexivity | exact Hi].
    - intros i Hi. lia.
  Qed.
  (* outersin(x) = the odd terms, outercos(x) = the even terms *)
  Theorem outersin_spec x : wf x ->
    exists r, outersin_with SO F A x = Ok r /\ wf r /\
      r == msum (map (fun i => wterm x (2 * i + 1)) (seq 0 (S last_term / 2))).
  Proof.
    intros Hx. destruct (outerexp_terms_spec x Hx) as [Ws [E [Hlen [Hinv Hz]]]].
    unfold outersin_with. rewrite E. cbn [bind].
    apply (selection_sum x Ws (odds Ws) (fun i => (2 * i + 1)%nat) (S last_term / 2) Hx Hinv Hz).
    - intros Hc. apply (f_equal (@length _)) in Hc. rewrite length_odds in Hc. cbn [length] in Hc. lia.
    - rewrite length_odds. lia.
    - intros i Hi. rewrite length_odds in Hi. split; [apply nth_odds | lia].
    - intros i Hi. rewrite length_odds in Hi. lia.
  Qed.
  Theorem outercos_spec x : wf x ->
    exists r, outercos_with SO F A x = Ok r /\ wf r /\
      r == msum (map (fun i => wterm x (2 * i)) (seq 0 ((S last_term + 1) / 2))).
  Proof.
    intros Hx. destruct (outerexp_terms_spec x Hx) as [Ws [E [Hlen [Hinv Hz]]]].
    unfold outercos_with. rewrite E. cbn [bind].
    apply (selection_sum x Ws (evens Ws) (fun i => (2 * i)%nat) ((S last_term + 1) / 2) Hx Hinv Hz).
    - intros Hc. apply (f_equal (@length _)) in Hc. rewrite length_evens in Hc. cbn [length] in Hc. lia.
    - rewrite length_evens. lia.
    - intros i Hi. rewrite length_evens in Hi. split; [apply nth_evens | lia].
    - intros i Hi. rewrite length_evens in Hi. lia.
  Qed.

  Lemma rsum_evens_odds (f : mv R -> R) l :
    rsum (map f l) = (rsum (map f (odds l)) + rsum (map f (evens l)))%r.
  Proof.
    induction l as [| a | a b l IH] using list_ind2.
    - cbn. ring.
    - cbn. ring.
    - rewrite odds_cons2, evens_cons2. cbn [map Sparse.rsum]. rewrite IH. ring.
  Qed.
  (* outersin + outercos = outerexp *)
  Theorem outersin_cos_split x : wf x ->
    exists e s c, outerexp_with SO F A x = Ok e /\ outersin_with SO F A x = Ok s /\
      outercos_with SO F A x = Ok c /\ add s c == e.
  Proof.
    intros Hx. destruct (outerexp_terms_spec x Hx) as [Ws [E [Hlen [Hinv Hz]]]].
    assert (Hw : Forall wf Ws).
    { apply Forall_forall. intros y Hy. destruct (In_nth _ _ ([] : mv R) Hy) as [i [Hi Ey]]. subst y. apply Hinv, Hi. }
    unfold outerexp_with, outersin_with, outercos_with. rewrite E. cbn [bind].
    destruct (sum_mvs_msum Ws) as [e [Ee [He1 He2]]]; [destruct Ws; [cbn in Hlen; lia | discriminate] | exact Hw |].
    destruct (sum_mvs_msum (odds Ws)) as [s [Es [Hs1 Hs2]]].
    { intros Hc. apply (f_equal (@length _)) in Hc. rewrite length_odds in Hc. cbn [length] in Hc. lia. }
    { apply Forall_odds, Hw. }
    destruct (sum_mvs_msum (evens Ws)) as [c [Ec [Hc1 Hc2]]].
    { intros Hc. apply (f_equal (@length _)) in Hc. rewrite length_evens in Hc. cbn [length] in Hc. lia. }
    { apply Forall_evens, Hw. }
    exists e, s, c. repeat split; try assumption.
    apply eqv; [wfs | exact He1 |]. intros K HK.
    rewrite cadd by assumption. rewrite (Hs2 K), (Hc2 K), (He2 K).
    rewrite !cf_msum by (try assumption; try apply Forall_odds; try apply Forall_evens; assumption).
    symmetry. apply rsum_evens_odds.
  Qed.

  (* outertan = outersin * inverse(outercos); the inverse is taken as given (C07) *)
  Theorem outertan_spec (invf : mv R -> res (mv R)) x : wf x ->
    exists s c, outersin_with SO F A x = Ok s /\ outercos_with SO F A x = Ok c /\ wf s /\ wf c /\
      outertan_with SO F invf A x = (ci <- invf c ;; Ok (F (gp s ci))) /\
      forall ci, invf c = Ok ci -> wf ci -> gp ci c == one ->
        exists t, outertan_with SO F invf A x = Ok t /\ wf t /\ t == gp s ci /\ gp t c == s.
  Proof.
    intros Hx. destruct (outerexp_terms_spec x Hx) as [Ws [E [Hlen [Hinv Hz]]]].
    assert (Hw : Forall wf Ws).
    { apply Forall_forall. intros y Hy. destruct (In_nth _ _ ([] : mv R) Hy) as [i [Hi Ey]]. subst y. apply Hinv, Hi. }
    unfold outersin_with, outercos_with, outertan_with. rewrite E. cbn [bind].
    destruct (sum_mvs_msum (odds Ws)) as [s [Es [Hs1 Hs2]]].
    { intros Hc. apply (f_equal (@length _)) in Hc. rewrite length_odds in Hc. cbn [length] in Hc. lia. }
    { apply Forall_odds, Hw. }
    destruct (sum_mvs_msum (evens Ws)) as [c [Ec [Hc1 Hc2]]].
    { intros Hc. apply (f_equal (@length _)) in Hc. rewrite length_evens in Hc. cbn [length] in Hc. lia. }
    { apply Forall_evens, Hw. }
    exists s, c. rewrite Es, Ec. cbn [bind]. unfold div_with.
    split; [reflexivity|]. split; [reflexivity|]. split; [exact Hs1|]. split; [exact Hc1|]. split; [reflexivity|].
    intros ci Eci Hci Hinvl. rewrite Eci. cbn [bind]. eexists. split; [reflexivity|].
    split; [wfs|]. split; [apply EF; wfs|].
    transitivity (gp (gp s ci) c).
    { apply (RT gp_congr); try wfs; try assumption; [apply EF; wfs | reflexivity]. }
    transitivity (gp s (gp ci c)).
    { apply (RA gp_assoc); assumption. }
    transitivity (gp s one).
    { apply (RT gp_congr); try wfs; try assumption; reflexivity. }
    apply (RA gp_one_r). exact Hs1.
  Qed.
  End WithFilter.

  (* for an x without scalar part the terms beyond the dimension vanish: the finite sum IS the outer
     exponential series, whatever upper limit N >= d one takes *)
  Lemma op_wpow_comm x m : wf x -> op x (wpow x m) == op (wpow x m) x.
  Proof.
    intros Hx. induction m as [|m IH]; cbn [wpow].
    - rewrite (RA op_one_r x Hx). symmetry. apply (RA op_one_l x Hx).
    - transitivity (op (op x (wpow x m)) x).
      { symmetry. apply (RA op_assoc); auto with wfdb. }
      apply (RT op_congr); auto with wfdb. reflexivity.
  Qed.
  Lemma wpow_op_pow x k : wf x -> wpow x k == op_pow rO rI radd rmul rsub ropp A k x.
  Proof.
    intros Hx. induction k as [|k IH]; cbn [wpow op_pow]; [reflexivity|].
    transitivity (op x (wpow x k)); [symmetry; apply op_wpow_comm, Hx|].
    apply (RT op_congr); auto with wfdb.
    - destruct k; cbn [op_pow]; auto with wfdb.
    - reflexivity.
  Qed.
  Lemma wterm_beyond_dim x k : wf x -> min_grade rO rI radd rmul rsub ropp A 1 x -> (d < k)%nat -> wterm x k == [].
  Proof.
    intros Hx Hg Hk. unfold wterm.
    assert (H0 : wpow x k == []).
    { apply (outerexp_break_sound x (S d) k Hx); [|lia].
      rewrite (wpow_op_pow x (S d) Hx). apply (RA op_nilpotent_grade); assumption. }
    rewrite (RT scal_congr _ _ _ H0). reflexivity.
  Qed.
  Theorem outerexp_full_series F x N : filter_ok F -> wf x -> min_grade rO rI radd rmul rsub ropp A 1 x -> (d <= N)%nat ->
    exists r, outerexp_with SO F A x = Ok r /\ wf r /\ r == msum (map (wterm x) (seq 0 (S N))).
  Proof.
    intros HF Hx Hg HN. destruct (outerexp_spec F HF x Hx) as [r [E [Hr He]]].
    exists r. split; [exact E|]. split; [exact Hr|]. rewrite He.
    assert (HW : forall n, Forall wf (map (wterm x) (seq 0 n))).
    { intros n. apply Forall_forall. intros y Hy. apply in_map_iff in Hy. destruct Hy as [i [<- _]]. auto with wfdb. }
    apply eqv; auto with wfdb. intros K HK. rewrite !cf_msum by (try apply HW; assumption).
    rewrite !map_map.
    rewrite <- (rsum_seq_extend (fun k => cf K (wterm x k)) (S d) (S last_term)).
    - apply rsum_seq_extend; [lia|]. intros k Hk. rewrite (wterm_beyond_dim x k Hx Hg ltac:(lia) K). reflexivity.
    - unfold last_term. lia.
    - intros k Hk. rewrite (wterm_beyond_dim x k Hx Hg ltac:(lia) K). reflexivity.
  Qed.

  (* ================= 2. powers ================= *)

  (* the n-fold product x * x * ... * x (left-nested, as the loop builds it); gpow x 0 = 1 *)
  Fixpoint gpow (x : mv R) (n : nat) : mv R := match n with 0%nat => one | S m => gp (gpow x m) x end.
  Lemma Wgpow x n : wf (gpow x n).
  Proof. destruct n; cbn [gpow]; auto with wfdb. Qed.
  Hint Resolve Wgpow : wfdb.

  Lemma pow_loop_spec x : wf x -> forall m acc k, wf acc -> acc == gpow x k ->
    wf (pow_loop SO A x m acc) /\ pow_loop SO A x m acc == gpow x (k + m).
  Proof.
    intros Hx m. induction m as [|m IH]; intros acc k Ha He; cbn [pow_loop s_ops].
    - rewrite Nat.add_0_r. split; assumption.
    - replace (k + S m)%nat with (S k + m)%nat by lia. apply IH; [auto with wfdb|].
      cbn [gpow]. apply (RT gp_congr); auto with wfdb. reflexivity.
  Qed.

  Section Pow.
  Variables (invf sqrtf : mv R -> res (mv R)).
  (* x ** 0 = 1 *)
  Theorem pow_zero x : pow_model SO invf sqrtf A x (PInt 0) = Ok one.
  Proof. reflexivity. Qed.
  (* x ** n is the n-fold product *)
  Theorem pow_spec x n : wf x ->
    exists r, pow_model SO invf sqrtf A x (PInt (Z.of_nat n)) = Ok r /\ wf r /\ r == gpow x n.
  Proof.
    intros Hx. destruct n as [|n].
    - exists one. split; [reflexivity|]. split; [auto with wfdb | reflexivity].
    - unfold pow_model. replace (Z.eqb (Z.of_nat (S n)) 0) with false by (symmetry; apply Z.eqb_neq; lia).
      replace (Z.ltb (Z.of_nat (S n)) 0) with false by (symmetry; apply Z.ltb_ge; lia).
      replace (Z.to_nat (Z.of_nat (S n) - 1)) with n by lia.
      eexists. split; [reflexivity|].
      destruct (pow_loop_spec x Hx n x 1%nat Hx) as [H1 H2].
      + cbn [gpow]. symmetry. apply (RA gp_one_l x Hx).
      + split; [exact H1 | exact H2].
  Qed.
  (* x ** -n = (x.inv()) ** n, and the error of inv() is the error of the power *)
  Theorem pow_neg x xi n : (0 < n) -> invf x = Ok xi ->
    pow_model SO invf sqrtf A x (PInt (- n)) = pow_model SO invf sqrtf A xi (PInt n).
  Proof.
    intros Hn Hi. unfold pow_model. rewrite Hi. cbn [bind].
    replace (Z.eqb (- n) 0) with false by (symmetry; apply Z.eqb_neq; lia).
    replace (Z.eqb n 0) with false by (symmetry; apply Z.eqb_neq; lia).
    replace (Z.ltb (- n) 0) with true by (symmetry; apply Z.ltb_lt; lia).
    replace (Z.ltb n 0) with false by (symmetry; apply Z.ltb_ge; lia).
    replace (- - n - 1) with (n - 1) by lia. reflexivity.
  Qed.
  Theorem pow_neg_err x e n : (0 < n) -> invf x = Err e -> pow_model SO invf sqrtf A x (PInt (- n)) = Err e.
  Proof.
    intros Hn Hi. unfold pow_model. rewrite Hi.
    replace (Z.eqb (- n) 0) with false by (symmetry; apply Z.eqb_neq; lia).
    replace (Z.ltb (- n) 0) with true by (symmetry; apply Z.ltb_lt; lia). reflexivity.
  Qed.
  (* x ** 0.5 is sqrt(x) *)
  Theorem pow_half x : pow_model SO invf sqrtf A x PHalf = sqrtf x.
  Proof. reflexivity. Qed.
  (* a float exponent other than 0, 0.5, -0.5 raises TypeError (after the inverse for negative ones) *)
  Theorem pow_float x : pow_model SO invf sqrtf A x PFloatPos = Err EType.
  Proof. reflexivity. Qed.
  End Pow.

  (* x^(m+n) = x^m * x^n  (associativity of the geometric product) *)
  Theorem pow_add x m n : wf x -> gpow x (m + n) == gp (gpow x m) (gpow x n).
  Proof.
    intros Hx. induction n as [|n IH].
    - rewrite Nat.add_0_r. cbn [gpow]. symmetry. apply (RA gp_one_r). auto with wfdb.
    - replace (m + S n)%nat with (S (m + n)) by lia. cbn [gpow].
      transitivity (gp (gp (gpow x m) (gpow x n)) x).
      { apply (RT gp_congr); auto with wfdb. reflexivity. }
      apply (RA gp_assoc); auto with wfdb.
  Qed.
  Lemma gpow_comm x n : wf x -> gp x (gpow x n) == gp (gpow x n) x.
  Proof.
    intros Hx. pose proof (pow_add x 1 n Hx) as H1. pose proof (pow_add x n 1 Hx) as H2.
    replace (n + 1)%nat with (1 + n)%nat in H2 by lia.
    transitivity (gp (gpow x 1) (gpow x n)).
    { apply (RT gp_congr); auto with wfdb; [|reflexivity]. cbn [gpow]. symmetry. apply (RA gp_one_l x Hx). }
    rewrite <- H1, H2. apply (RT gp_congr); auto with wfdb; [reflexivity|]. cbn [gpow]. apply (RA gp_one_l x Hx).
  Qed.
  (* powers of the inverse are inverses of the powers: (x^n) * (xi^n) = 1 when x * xi = 1 *)
  Theorem pow_inverse x xi n : wf x -> wf xi -> gp x xi == one -> gp (gpow x n) (gpow xi n) == one.
  Proof.
    intros Hx Hxi Hinv. induction n as [|n IH]; cbn [gpow].
    - apply (RA gp_one_l). auto with wfdb.
    - (* (x^n x)(xi^n xi) = x^n (x xi^n) xi = x^n (xi^n x)... use xi^n xi = xi xi^n *)
      transitivity (gp (gp (gpow x n) x) (gp xi (gpow xi n))).
      { apply (RT gp_congr); auto with wfdb; [reflexivity|]. symmetry. apply gpow_comm, Hxi. }
      transitivity (gp (gpow x n) (gp x (gp xi (gpow xi n)))).
      { apply (RA gp_assoc); auto with wfdb. }
      transitivity (gp (gpow x n) (gpow xi n)); [|exact IH].
      apply (RT gp_congr); auto with wfdb; [reflexivity|].
      transitivity (gp (gp x xi) (gpow xi n)).
      { symmetry. apply (RA gp_assoc); auto with wfdb. }
      transitivity (gp one (gpow xi n)).
      { apply (RT gp_congr); auto with wfdb. reflexivity. }
      apply (RA gp_one_l). auto with wfdb.
  Qed.

  (* ================= 3. the algebra  E(c,t) = c + t x  of an element with scalar square ================= *)

  Definition E (x : mv R) (c t : R) : mv R := add (scal c one) (scal t x).
  Lemma WE x c t : wf (E x c t). Proof. unfold E. auto with wfdb. Qed.
  Hint Resolve WE : wfdb.
  Lemma cf_E x c t K : wf x -> 0 <= K < L -> cf K (E x c t) = (c * cf K one + t * cf K x)%r.
  Proof. intros Hx HK. unfold E. rewrite cadd by auto with wfdb. rewrite !cscal. reflexivity. Qed.
  Lemma E_congr x c t c' t' : c = c' -> t = t' -> E x c t == E x c' t'.
  Proof. intros -> ->. reflexivity. Qed.

  (* (c1 + t1 x)(c2 + t2 x) = (c1 c2 + s t1 t2) + (c1 t2 + t1 c2) x   when  x x = s *)
  Theorem E_mul x s c1 t1 c2 t2 : wf x -> gp x x == scal s one ->
    gp (E x c1 t1) (E x c2 t2) == E x (c1 * c2 + s * (t1 * t2))%r (c1 * t2 + t1 * c2)%r.
  Proof.
    intros Hx Hsq. apply eqv; auto with wfdb. intros K HK.
    unfold E at 1 2.
    rewrite cgp_add_l by auto with wfdb.
    rewrite !cgp_add_r by auto with wfdb.
    rewrite !cgp_scal_l by auto with wfdb.
    rewrite !cgp_scal_r by auto with wfdb.
    rewrite (RA gp_one_l one Wone K), (RA gp_one_l x Hx K), (RA gp_one_r x Hx K), (Hsq K).
    rewrite cf_E by assumption. rewrite cscal. ring.
  Qed.

  (* ================= 4. the square root of a Study number ================= *)

  Local Notation two := (rI + rI)%r.
  Local Notation half := (Series.half SO).

  Lemma half_spec v : (two * half v)%r = v.
  Proof.
    unfold Series.half. cbn [o_divn]. pose proof (Hdiv v 2%nat ltac:(lia)) as H. cbn [rnat] in H.
    rewrite <- H at 2. change (Z.of_nat 2) with 2. ring.
  Qed.

  Lemma E_add_scalar x a : wf x -> E x a rI == add (scalar_mv a) x.
  Proof.
    intros Hx. apply eqv; auto with wfdb. intros K HK. rewrite cf_E, cadd by auto with wfdb.
    unfold scalar_mv. rewrite (RN cf_scalar), (RN cf_one). destruct (Z.eqb K 0); ring.
  Qed.
  (* E(c,e) is a square root of a + bI as soon as  c^2 + s e^2 = a  and  2 c e = 1 *)
  Lemma E_square_root bI s a c e : wf bI -> gp bI bI == scal s one ->
    (c * c + s * (e * e))%r = a -> (c * e + e * c)%r = rI ->
    gp (E bI c e) (E bI c e) == add (scalar_mv a) bI.
  Proof.
    intros Hb Hsq H1 H2. rewrite (E_mul bI s c e c e Hb Hsq). rewrite H1, H2. apply E_add_scalar, Hb.
  Qed.
  (* the ring identity behind codegen_sqrt: with r^2 = a^2 - s, 2 c^2 = a + r and 2 c e = 1 *)
  Lemma study_ring_identity s a r c e :
    (r * r)%r = (a * a - s)%r -> (two * (c * c))%r = (a + r)%r -> (two * (c * e))%r = rI ->
    (c * c + s * (e * e))%r = a /\ (c * e + e * c)%r = rI.
  Proof.
    intros Hr Hc He. split; [|rewrite <- He; ring].
    assert (Hs : s = ((a - r) * (two * (c * c)))%r).
    { rewrite Hc. transitivity (a * a - r * r)%r; [rewrite Hr; ring | ring]. }
    assert (E2 : (two * (c * c + s * (e * e)))%r = (two * a)%r).
    { rewrite Hs at 1. transitivity (two * (c * c) + (a - r) * ((two * (c * e)) * (two * (c * e))))%r; [ring|].
      rewrite Hc, He. ring. }
    transitivity ((two * (c * e)) * (c * c + s * (e * e)))%r; [rewrite He; ring|].
    transitivity ((c * e) * (two * (c * c + s * (e * e))))%r; [ring|].
    rewrite E2. transitivity ((two * (c * e)) * a)%r; [ring | rewrite He; ring].
  Qed.

  Section SqrtModel.
  Variable F : mv R -> mv R.
  Hypothesis HF : filter_ok F.
  Lemma WF' y : wf y -> wf (F y). Proof. intros H; apply HF, H. Qed.
  Lemma EF' y : wf y -> F y == y. Proof. intros H; apply HF, H. Qed.
  Hint Resolve WF' : wfdb.

  (* res = c + bI * c2_inv  is  E(c, c2_inv) *)
  Lemma sqrt_formula_E bI c e : wf bI ->
    wf (sqrt_formula_with SO F A bI c e) /\ sqrt_formula_with SO F A bI c e == E bI c e.
  Proof.
    intros Hb. unfold sqrt_formula_with. cbn [s_ops]. split; [auto with wfdb|].
    rewrite (EF' _ (Wadd _ _)). unfold E. apply (RT add_congr); auto with wfdb.
    - unfold scalar_mv. apply (RT scalar_scal).
    - rewrite (EF' _ (Wgp _ _)). apply (RA gp_scalar_r). exact Hb.
  Qed.

  (* THE algebraic statement: for x = a + bI with (bI)^2 = s a scalar, the formula assembled by
     codegen_sqrt squares to x provided
        r^2 = a^2 - s   (r = normS ** 0.5 is a square root of the Study norm),
        2 c^2 = a + r   (c = (0.5 (a + r)) ** 0.5 is a square root),
        2 c e = 1       (e = 0.5 / c: c is invertible).
     None of the three is checked by the code (over the reals they hold exactly when a^2 - s >= 0 and
     a + r > 0: the Study numbers with positive scalar part, and e.g. all a > 0 when s <= 0). *)
  Theorem sqrt_formula_square bI s a r c e : wf bI -> gp bI bI == scal s one ->
    (r * r)%r = (a * a - s)%r -> (two * (c * c))%r = (a + r)%r -> (two * (c * e))%r = rI ->
    let y := sqrt_formula_with SO F A bI c e in gp y y == add (scalar_mv a) bI.
  Proof.
    intros Hb Hsq Hr Hc He y. destruct (sqrt_formula_E bI c e Hb) as [Hy Hye]. fold y in Hy, Hye.
    destruct (study_ring_identity s a r c e Hr Hc He) as [H1 H2].
    transitivity (gp (E bI c e) (E bI c e)).
    { apply (RT gp_congr); auto with wfdb. }
    apply (E_square_root bI s a c e Hb Hsq H1 H2).
  Qed.
  (* the branch `if not bI_sq`:  (bI)^2 = 0, c = a ** 0.5 *)
  Theorem sqrt_formula_square_null bI a c e : wf bI -> gp bI bI == [] ->
    (c * c)%r = a -> (two * (c * e))%r = rI ->
    let y := sqrt_formula_with SO F A bI c e in gp y y == add (scalar_mv a) bI.
  Proof.
    intros Hb Hsq Hc He y. destruct (sqrt_formula_E bI c e Hb) as [Hy Hye]. fold y in Hy, Hye.
    transitivity (gp (E bI c e) (E bI c e)).
    { apply (RT gp_congr); auto with wfdb. }
    apply (E_square_root bI rO a c e Hb).
    - rewrite Hsq. symmetry. apply (RT scal_zero).
    - rewrite <- Hc. ring.
    - rewrite <- He. ring.
  Qed.

  (* --- the model function --- *)
  Lemma grade0_wf x : wf (grade0 SO x).
  Proof. unfold grade0. destruct (zin 0 (keys x)); auto with wfdb. Qed.
  Hint Resolve grade0_wf : wfdb.
  Lemma grade0_cf x K : cf K (grade0 SO x) = if Z.eqb K 0 then cf 0 x else rO.
  Proof.
    unfold grade0. cbn [s_ops]. destruct (zin 0 (keys x)) eqn:E.
    - apply (RN cf_scalar).
    - rewrite cnil. destruct (Z.eqb K 0); [|reflexivity]. symmetry. apply (RN coeff_notin).
      apply zin_false_iff. exact E.
  Qed.
  Lemma grade0_scal x : grade0 SO x == scal (cf 0 x) one.
  Proof.
    intros K. rewrite grade0_cf, cscal, (RN cf_one). destruct (Z.eqb K 0); ring.
  Qed.
  (* x = a + bI *)
  Lemma study_split x : wf x -> wf (study_bI SO F A x) /\ x == add (scalar_mv (cf 0 x)) (study_bI SO F A x).
  Proof.
    intros Hx. unfold study_bI. cbn [s_ops]. split; [auto with wfdb|].
    apply eqv; auto with wfdb. intros K HK.
    rewrite cadd by auto with wfdb. rewrite (EF' _ (Wsub _ _) K), csub by auto with wfdb.
    rewrite grade0_cf. unfold scalar_mv. rewrite (RN cf_scalar). destruct (Z.eqb K 0) eqn:EK.
    - apply Z.eqb_eq in EK. subst K. ring.
    - ring.
  Qed.
  Lemma study_normS_spec x s : wf x -> gp (study_bI SO F A x) (study_bI SO F A x) == scal s one ->
    study_normS SO F A x = (cf 0 x * cf 0 x - s)%r.
  Proof.
    intros Hx Hsq. unfold study_normS. cbn [s_ops].
    assert (H0 : 0 <= 0 < L) by (pose proof (L_pos A); lia).
    rewrite (EF' _ (Wsub _ _) 0), csub by auto with wfdb.
    rewrite (EF' _ (Wgp _ _) 0), (EF' _ (Wgp _ _) 0). rewrite (Hsq 0).
    rewrite (RT gp_congr A _ (scal (cf 0 x) one) _ (scal (cf 0 x) one)
               (grade0_wf x) (Wscal _ _ Wone) (grade0_wf x) (Wscal _ _ Wone) (grade0_scal x) (grade0_scal x) 0).
    rewrite cgp_scal_l, cgp_scal_r by auto with wfdb. rewrite (RA gp_one_l one Wone 0).
    rewrite cscal, (RN cf_one). cbn [Z.eqb]. ring.
  Qed.

  (* 4a. a pure scalar: {0: x.e ** 0.5} *)
  Theorem sqrt_model_scalar x : wf x -> is_scalar_only x = true ->
    let v := cf 0 x in (rsqrt v * rsqrt v)%r = v ->
    let y := sqrt_model_with SO F A x in gp y y == x.
  Proof.
    intros Hx Hs v Hv y. unfold y, sqrt_model_with. rewrite Hs. cbn [o_sqrt s_ops]. fold v.
    assert (Ex : x = [(0, v)]).
    { unfold is_scalar_only in Hs. apply andb_true_iff in Hs. destruct Hs as [Hne Hall].
      destruct Hx as [Hnd _]. destruct x as [|[k w] rest]; [discriminate|].
      cbn [keys map fst forallb] in Hall, Hnd. apply andb_true_iff in Hall. destruct Hall as [Hk Hrest].
      apply Z.eqb_eq, Bits.popcount_eq_0 in Hk. subst k.
      destruct rest as [|[k' w'] rest'].
      - unfold v. rewrite (RN coeff_cons). reflexivity.
      - exfalso. cbn [map fst forallb] in Hrest, Hnd. apply andb_true_iff in Hrest. destruct Hrest as [Hk' _].
        apply Z.eqb_eq, Bits.popcount_eq_0 in Hk'. subst k'. inversion Hnd as [|? ? Hn _]. apply Hn. left. reflexivity. }
    transitivity [(0, v)]; [|rewrite <- Ex; reflexivity].
    rewrite (RA gp_scalar_l (rsqrt v) [(0, rsqrt v)] (Wscalar _)).
    unfold Algebra.scal. cbn [map fst snd]. rewrite Hv. reflexivity.
  Qed.

  (* 4b. the general branch *)
  Theorem sqrt_model_study x s : wf x -> is_scalar_only x = false ->
    let a := cf 0 x in let bI := study_bI SO F A x in
    gp bI bI == scal s one -> mv_truthy (F (gp bI bI)) = true ->
    let r := rsqrt (a * a - s)%r in (r * r)%r = (a * a - s)%r ->
    let c := rsqrt (half (a + r)%r) in (c * c)%r = half (a + r)%r -> (c * rinv c)%r = rI ->
    let y := sqrt_model_with SO F A x in gp y y == x.
  Proof.
    intros Hx Hs a bI Hsq Ht r Hr c Hc Hci y.
    destruct (study_split x Hx) as [Hb Hsplit]. fold bI in Hb, Hsplit. fold a in Hsplit.
    assert (Ey : y = sqrt_formula_with SO F A bI c (half (rinv c))).
    { unfold y, sqrt_model_with. rewrite Hs. unfold study_c. cbn [s_ops o_sqrt o_inv o_add].
      fold bI. rewrite Ht. rewrite (study_normS_spec x s Hx Hsq). rewrite grade0_cf. cbn [Z.eqb]. reflexivity. }
    rewrite Ey. transitivity (add (scalar_mv a) bI); [|symmetry; exact Hsplit].
    apply (sqrt_formula_square bI s a r c (half (rinv c)) Hb Hsq Hr).
    - rewrite Hc. apply half_spec.
    - transitivity (c * (two * half (rinv c)))%r; [ring|]. rewrite half_spec. exact Hci.
  Qed.

  (* 4c. the branch `if not bI_sq` *)
  Theorem sqrt_model_null x : wf x -> is_scalar_only x = false ->
    let a := cf 0 x in let bI := study_bI SO F A x in
    mv_truthy (F (gp bI bI)) = false ->
    let c := rsqrt a in (c * c)%r = a -> (c * rinv c)%r = rI ->
    let y := sqrt_model_with SO F A x in gp y y == x.
  Proof.
    intros Hx Hs a bI Ht c Hc Hci y.
    destruct (study_split x Hx) as [Hb Hsplit]. fold bI in Hb, Hsplit. fold a in Hsplit.
    assert (Ey : y = sqrt_formula_with SO F A bI c (half (rinv c))).
    { unfold y, sqrt_model_with. rewrite Hs. unfold study_c. cbn [s_ops o_sqrt o_inv o_add].
      fold bI. rewrite Ht. rewrite grade0_cf. cbn [Z.eqb]. reflexivity. }
    rewrite Ey. transitivity (add (scalar_mv a) bI); [|symmetry; exact Hsplit].
    apply (sqrt_formula_square_null bI a c (half (rinv c)) Hb); [|exact Hc|].
    - rewrite <- (EF' _ (Wgp bI bI)). destruct (F (gp bI bI)); [reflexivity | discriminate].
    - transitivity (c * (two * half (rinv c)))%r; [ring|]. rewrite half_spec. exact Hci.
  Qed.
  End SqrtModel.

  (* ================= 5. norm, normalized ================= *)

  Local Notation reverse := (Codegen.reverse O A).
  Local Notation normsq := (Composite.normsq O A).
  Lemma Wreverse x : wf (reverse x).
  Proof. unfold Codegen.reverse. apply (wfmv_cs R A SH). Qed.
  Hint Resolve Wreverse : wfdb.
  Lemma inr_In K : 0 <= K < L -> In K (canon_keys A).
  Proof. intros H. apply (sh_keys A SH). exact H. Qed.
  Lemma reverse_scal c x : wf x -> reverse (scal c x) == scal c (reverse x).
  Proof.
    intros Hx. apply eqv; auto with wfdb. intros K HK.
    rewrite cscal. rewrite (RT reverse_coeff A (scal c x) K (inr_In K HK) (proj1 (Wscal c x Hx))).
    rewrite (RT reverse_coeff A x K (inr_In K HK) (proj1 Hx)).
    rewrite cscal. destruct (involution_flips grades_reverse K); ring.
  Qed.
  Lemma normsq_eq x : normsq x = gp x (reverse x).
  Proof. reflexivity. Qed.
  Lemma Wnormsq x : wf (normsq x). Proof. rewrite normsq_eq. auto with wfdb. Qed.
  Hint Resolve Wnormsq : wfdb.
  Lemma normsq_congr x y : wf x -> wf y -> x == y -> normsq x == normsq y.
  Proof.
    intros Hx Hy He. rewrite !normsq_eq. apply (RT gp_congr); auto with wfdb.
    apply (RT reverse_congr); [apply Hx | apply Hy | exact He].
  Qed.
  (* normsq(c x) = c^2 normsq(x) *)
  Theorem normsq_scal c x : wf x -> normsq (scal c x) == scal (c * c)%r (normsq x).
  Proof.
    intros Hx. rewrite !normsq_eq.
    transitivity (gp (scal c x) (scal c (reverse x))).
    { apply (RT gp_congr); auto with wfdb; [reflexivity | apply reverse_scal, Hx]. }
    rewrite (RA gp_scal_l c x (scal c (reverse x))) by auto with wfdb.
    rewrite (RT scal_congr c _ _ (RA gp_scal_r c x (reverse x) Hx (Wreverse x))).
    apply (RT scal_scal).
  Qed.
  (* the algebraic core of `normalized`: if normsq x is the scalar n = r^2 and r is invertible,
     x / r has squared norm 1 *)
  Theorem normalized_alg x n r r' : wf x -> normsq x == scal n one -> (r * r)%r = n -> (r * r')%r = rI ->
    normsq (gp x (scalar_mv r')) == one.
  Proof.
    intros Hx Hn Hr Hi.
    transitivity (normsq (scal r' x)).
    { apply normsq_congr; auto with wfdb. apply (RA gp_scalar_r). exact Hx. }
    rewrite (normsq_scal r' x Hx). rewrite (RT scal_congr _ _ _ Hn). rewrite (RT scal_scal).
    replace ((r' * r') * n)%r with rI; [apply (RT scal_one)|].
    rewrite <- Hr. transitivity ((r * r') * (r * r'))%r; [rewrite Hi; ring | ring].
  Qed.

  Section NormModel.
  Variable invf : mv R -> res (mv R).
  Variable F : mv R -> mv R.
  Hypothesis HF : filter_ok F.
  (* when the generated normsq stores the scalar blade only, norm() takes the scalar branch of sqrt *)
  Theorem norm_scalar_only x n : normsq_with O F A x = [(0, n)] -> norm_with SO F A x = [(0, rsqrt n)].
  Proof. intros H. unfold norm_with. cbn [s_ops]. rewrite H. reflexivity. Qed.
  (* norm squared is normsq *)
  Theorem norm_square x n : normsq_with O F A x = [(0, n)] -> (rsqrt n * rsqrt n)%r = n ->
    gp (norm_with SO F A x) (norm_with SO F A x) == normsq_with O F A x.
  Proof.
    intros H Hr. rewrite (norm_scalar_only x n H), H.
    rewrite (RA gp_scalar_l (rsqrt n) [(0, rsqrt n)] (Wscalar _)).
    unfold Algebra.scal. cbn [map fst snd]. rewrite Hr. reflexivity.
  Qed.
  (* normalized(x) = x / norm(x) has squared norm 1: given that normsq x is the scalar n, that the
     norm computed is a scalar r with r^2 = n, and an inverse of it (division is C07's subject) *)
  Theorem normalized_spec x n r ni : wf x -> normsq x == scal n one ->
    norm_with SO F A x == scal r one -> wf (norm_with SO F A x) -> (r * r)%r = n ->
    invf (norm_with SO F A x) = Ok ni -> wf ni -> gp (norm_with SO F A x) ni == one ->
    exists t, normalized_with SO F invf A x = Ok t /\ wf t /\ normsq t == one.
  Proof.
    intros Hx Hn HN HNw Hr Hi Hniw Hinv.
    unfold normalized_with, div_with. rewrite Hi. cbn [bind s_ops].
    eexists. split; [reflexivity|]. destruct (HF (gp x ni) (Wgp x ni)) as [Htw Hte]. split; [exact Htw|].
    assert (H0 : 0 <= 0 < L) by (pose proof (L_pos A); lia).
    (* r * ni = 1 *)
    assert (H1 : scal r ni == one).
    { rewrite <- Hinv. symmetry.
      transitivity (gp (scal r one) ni); [apply (RT gp_congr); auto with wfdb; reflexivity|].
      rewrite (RA gp_scal_l r one ni Wone Hniw). apply (RT scal_congr). apply (RA gp_one_l). exact Hniw. }
    set (r' := cf 0 ni).
    assert (Hrr : (r * r')%r = rI).
    { pose proof (H1 0) as H. rewrite cscal, (RN cf_one) in H. exact H. }
    assert (H2 : ni == scalar_mv r').
    { apply eqv; auto with wfdb. intros K HK. unfold scalar_mv. rewrite (RN cf_scalar).
      destruct (Z.eqb K 0) eqn:EK; [apply Z.eqb_eq in EK; subst K; reflexivity|].
      pose proof (H1 K) as H. rewrite cscal, (RN cf_one), EK in H.
      transitivity ((r * r') * cf K ni)%r; [rewrite Hrr; ring|].
      transitivity (r' * (r * cf K ni))%r; [ring | rewrite H; ring]. }
    transitivity (normsq (gp x (scalar_mv r'))).
    { apply normsq_congr; auto with wfdb. rewrite Hte. apply (RT gp_congr); auto with wfdb. reflexivity. }
    apply (normalized_alg x n r r' Hx Hn Hr Hrr).
  Qed.
  End NormModel.

  (* ================= 6. exp of an element that squares to a scalar ================= *)

  Section Exp.
  Variable x : mv R.
  Hypothesis Hx : wf x.
  Variable s : R.
  Hypothesis Hsq : gp x x == scal s one.

  (* x^(2j) = s^j,  x^(2j+1) = s^j x *)
  Lemma gpow_even_odd j : gpow x (2 * j) == scal (rpow s j) one /\ gpow x (2 * j + 1) == scal (rpow s j) x.
  Proof.
    induction j as [|j [IH1 IH2]].
    - cbn [Nat.mul Nat.add gpow rpow]. split; [symmetry; apply (RT scal_one)|].
      rewrite (RA gp_one_l x Hx). symmetry. apply (RT scal_one).
    - assert (E1 : gpow x (2 * S j) == scal (rpow s (S j)) one).
      { replace (2 * S j)%nat with (S (2 * j + 1)) by lia. cbn [gpow rpow].
        transitivity (gp (scal (rpow s j) x) x); [apply (RT gp_congr); auto with wfdb; reflexivity|].
        rewrite (RA gp_scal_l (rpow s j) x x Hx Hx). rewrite (RT scal_congr _ _ _ Hsq). rewrite (RT scal_scal).
        apply eqv; auto with wfdb. intros K HK. rewrite !cscal. ring. }
      split; [exact E1|].
      replace (2 * S j + 1)%nat with (S (2 * S j)) by lia. cbn [gpow].
      transitivity (gp (scal (rpow s (S j)) one) x); [apply (RT gp_congr); auto with wfdb; reflexivity|].
      rewrite (RA gp_scal_l (rpow s (S j)) one x Wone Hx). apply (RT scal_congr). apply (RA gp_one_l x Hx).
  Qed.

  (* the k-th term x^k/k! of the power series, and the even / odd scalar series in s *)
  Definition pterm (k : nat) : mv R := scal (invfact k) (gpow x k).
  Definition ev (n : nat) : R := rsum (map (fun j => (rpow s j * invfact (2 * j))%r) (seq 0 (S n))).
  Definition od (n : nat) : R := rsum (map (fun j => (rpow s j * invfact (2 * j + 1))%r) (seq 0 (S n))).
  Lemma Wpterm k : wf (pterm k). Proof. unfold pterm. auto with wfdb. Qed.
  Hint Resolve Wpterm : wfdb.

  Lemma cf_pterm_even j K : cf K (pterm (2 * j)) = ((rpow s j * invfact (2 * j)) * cf K one)%r.
  Proof. unfold pterm. rewrite cscal, (proj1 (gpow_even_odd j) K), cscal. ring. Qed.
  Lemma cf_pterm_odd j K : cf K (pterm (2 * j + 1)) = ((rpow s j * invfact (2 * j + 1)) * cf K x)%r.
  Proof. unfold pterm. rewrite cscal, (proj2 (gpow_even_odd j) K), cscal. ring. Qed.

  (* the partial sums of the power series:
       sum_{k <= 2n+1} x^k/k!  =  ( sum_{j<=n} s^j/(2j)! )  +  ( sum_{j<=n} s^j/(2j+1)! ) x
     the two scalar sums are the partial sums of  cosh(sqrt s) and sinh(sqrt s)/sqrt s  (s > 0),
     cos(sqrt -s) and sin(sqrt -s)/sqrt -s  (s < 0),  1 and 1  (s = 0) *)
  Theorem exp_formula_algebraic n : msum (map pterm (seq 0 (2 * n + 2))) == E x (ev n) (od n).
  Proof.
    apply eqv; auto with wfdb. intros K HK.
    rewrite cf_msum; [| |exact HK].
    2:{ apply Forall_forall. intros y Hy. apply in_map_iff in Hy. destruct Hy as [i [<- _]]. auto with wfdb. }
    rewrite map_map, cf_E by assumption.
    induction n as [|n IH].
    - cbn [Nat.mul Nat.add seq map Sparse.rsum]. unfold ev, od. cbn [seq map Sparse.rsum].
      change (pterm 0) with (pterm (2 * 0)). rewrite cf_pterm_even.
      change (pterm 1) with (pterm (2 * 0 + 1)). rewrite cf_pterm_odd. ring.
    - replace (2 * S n + 2)%nat with ((2 * n + 2) + 2)%nat by lia.
      rewrite seq_app, map_app, (RT rsum_app), IH. cbn [seq map Sparse.rsum Nat.add].
      replace (2 * n + 2)%nat with (2 * S n)%nat by lia. rewrite cf_pterm_even.
      replace (S (2 * S n)) with (2 * S n + 1)%nat by lia. rewrite cf_pterm_odd.
      unfold ev, od. rewrite (seq_S (S n)), !map_app, !(RT rsum_app). cbn [map Sparse.rsum Nat.add]. ring.
  Qed.
  (* a square-zero element: exp(x) = 1 + x exactly, from the third term on *)
  Lemma rpow_zero j : rpow rO (S j) = rO. Proof. cbn [rpow]. ring. Qed.
  End Exp.

  Theorem exp_zero_square x n : wf x -> gp x x == [] -> msum (map (pterm x) (seq 0 (2 * n + 2))) == E x rI rI.
  Proof.
    intros Hx H0.
    assert (Hsq : gp x x == scal rO one) by (rewrite H0; symmetry; apply (RT scal_zero)).
    rewrite (exp_formula_algebraic x Hx rO Hsq n).
    assert (Hz : forall (g : nat -> R) m, rsum (map (fun j => (rpow rO j * g j)%r) (seq 0 (S m))) = g 0%nat).
    { intros g m. cbn [seq map Sparse.rsum rpow]. rewrite <- seq_shift, map_map.
      rewrite (rsum_seq_zero (fun j => (rpow rO (S j) * g (S j))%r) 0 m); [ring|].
      intros k _. rewrite rpow_zero. ring. }
    apply E_congr.
    - unfold ev. rewrite (Hz (fun j => invfact (2 * j)) n). reflexivity.
    - unfold od. rewrite (Hz (fun j => invfact (2 * j + 1)) n). apply invfact_1.
  Qed.

  (* --- the model function MultiVector.exp --- *)
  Section ExpModel.
  Variable truth : R -> res bool.
  Variable classify : R -> ll_class.
  Variable tf : exp_triple -> (R -> R) * (R -> R) * (R -> R).
  (* the truth value of a number: falsy only for zero *)
  Hypothesis Htruth : forall v, truth v = Ok false -> v = rO.

  Lemma filter_truth_ok y ll : wf y -> filter_truth truth y = Ok ll -> wf ll /\ ll == y /\ incl (keys ll) (keys y).
  Proof.
    intros [Hnd Hin]. revert ll. induction y as [|[k v] y IH]; intros ll E; cbn [filter_truth] in E.
    - inversion E; subst. split; [apply Wnil|]. split; [reflexivity | intros a Ha; exact Ha].
    - destruct (truth v) as [b|e] eqn:Et; [|discriminate]. cbn [bind] in E.
      destruct (filter_truth truth y) as [r'|e] eqn:Er; [|discriminate]. cbn [bind] in E.
      cbn [keys map fst] in Hnd, Hin. inversion Hnd as [|? ? Hk Hnd']; subst.
      destruct (IH Hnd' (fun a Ha => Hin a (or_intror Ha)) r' eq_refl) as [[Hr1 Hr2] [Hre Hincl]].
      inversion E; subst ll. destruct b.
      + split; [|split].
        * split; [cbn [keys map fst]; constructor; [intros Hc; apply Hk, Hincl, Hc | exact Hr1]|].
          intros a [<-|Ha]; [apply Hin; left; reflexivity | apply Hr2, Ha].
        * intros K. rewrite !(RN coeff_cons). destruct (Z.eqb k K); [reflexivity | apply Hre].
        * intros a [<-|Ha]; [left; reflexivity | right; apply Hincl, Ha].
      + split; [split; assumption|]. split.
        * intros K. rewrite (RN coeff_cons). destruct (Z.eqb k K) eqn:EK.
          -- apply Z.eqb_eq in EK. subst K. rewrite (Htruth v Et). rewrite (Hre k).
             apply (RN coeff_notin). exact Hk.
          -- apply Hre.
        * intros a Ha. right. apply Hincl, Ha.
  Qed.

  (* a scalar-only or empty multivector is its scalar coefficient *)
  Lemma not_impl_false_scalar ll : wf ll -> exp_not_implemented ll = false -> ll == scal (cf 0 ll) one.
  Proof.
    intros [Hnd Hin] H. unfold exp_not_implemented in H.
    destruct ll as [|[k v] rest]; [intros K; rewrite cscal; cbn; ring|].
    cbn [mv_truthy andb] in H. apply negb_false_iff in H. unfold is_scalar_only in H.
    cbn [mv_truthy andb keys map fst forallb] in H. apply andb_true_iff in H. destruct H as [Hk Hrest].
    apply Z.eqb_eq, Bits.popcount_eq_0 in Hk. subst k.
    destruct rest as [|[k' v'] rest'].
    - intros K. rewrite cscal, (RN cf_one), !(RN coeff_cons), (RN coeff_nil). rewrite (Z.eqb_sym 0 K).
      change (Z.eqb 0 0) with true. cbv iota. destruct (Z.eqb K 0); ring.
    - exfalso. cbn [map fst forallb] in Hrest. apply andb_true_iff in Hrest. destruct Hrest as [Hk' _].
      apply Z.eqb_eq, Bits.popcount_eq_0 in Hk'. subst k'. cbn [keys map fst] in Hnd.
      inversion Hnd as [|? ? Hn _]. apply Hn. left. reflexivity.
  Qed.

  (* what exp returns: with ll = (x*x).filter() scalar, s = ll.e and (sqrt, cosh, sinhc) the triple
     selected for the class of s, the result is  cosh(l) + sinhc(l) x,  l = sqrt(s), and x*x = s *)
  Theorem exp_model_spec x r : wf x -> exp_model SO truth classify tf A x = Ok r ->
    exists ll, filter_truth truth (gp x x) = Ok ll /\ exp_not_implemented ll = false /\
      let s := cf 0 ll in gp x x == scal s one /\
      let '(fsqrt, fcosh, fsinhc) := tf (exp_branch (classify s)) in
      wf r /\ r == E x (fcosh (fsqrt s)) (fsinhc (fsqrt s)).
  Proof.
    intros Hx He. unfold exp_model in He. cbn [s_ops] in He.
    destruct (filter_truth truth (gp x x)) as [ll|e] eqn:Ef; [|discriminate]. cbn [bind] in He.
    destruct (exp_not_implemented ll) eqn:En; [discriminate|].
    destruct (filter_truth_ok (gp x x) ll (Wgp x x) Ef) as [Hllw [Hlle _]].
    exists ll. split; [reflexivity|]. split; [exact En|]. cbn zeta. split.
    - rewrite <- Hlle. apply not_impl_false_scalar; assumption.
    - destruct (tf (exp_branch (classify (cf 0 ll)))) as [[fsqrt fcosh] fsinhc].
      inversion He; subst r. split; [auto with wfdb|].
      apply eqv; auto with wfdb. intros K HK. rewrite cf_E, cadd by auto with wfdb.
      unfold scalar_mv. rewrite (RA gp_scalar_r _ x Hx K), cscal. rewrite (RN cf_scalar), (RN cf_one).
      destruct (Z.eqb K 0); ring.
  Qed.
  (* NotImplementedError is raised exactly when the filtered square stores a non-scalar blade ... *)
  Theorem exp_raises x ll : filter_truth truth (gp x x) = Ok ll ->
    (exp_model SO truth classify tf A x = Err ENotImpl <-> exp_not_implemented ll = true).
  Proof.
    intros Ef. unfold exp_model. cbn [s_ops]. rewrite Ef. cbn [bind].
    destruct (exp_not_implemented ll); [split; reflexivity|].
    destruct (tf _) as [[? ?] ?]. split; discriminate.
  Qed.
  (* ... so never for an element whose square is a scalar, when the truth test is an exact zero test *)
  Theorem exp_defined x s ll : wf x -> gp x x == scal s one ->
    (forall v, truth v = Ok true -> v <> rO) ->
    filter_truth truth (gp x x) = Ok ll -> exp_not_implemented ll = false.
  Proof.
    intros Hx Hsq Hnz Ef.
    destruct (filter_truth_ok (gp x x) ll (Wgp x x) Ef) as [[Hnd Hin] [Hlle _]].
    assert (Hk : forall k v, In (k, v) ll -> k = 0).
    { assert (Hstored : forall y ll', filter_truth truth y = Ok ll' -> forall k v, In (k, v) ll' -> v <> rO).
      { induction y as [|[k0 v0] y IH]; intros ll' E k v Hkv; cbn [filter_truth] in E.
        - inversion E; subst. destruct Hkv.
        - destruct (truth v0) as [b|e] eqn:Et; [|discriminate]. cbn [bind] in E.
          destruct (filter_truth truth y) as [r'|e] eqn:Er; [|discriminate]. cbn [bind] in E.
          inversion E; subst ll'. destruct b.
          + destruct Hkv as [Hkv|Hkv]; [inversion Hkv; subst; apply Hnz, Et | apply (IH r' eq_refl k v Hkv)].
          + apply (IH r' eq_refl k v Hkv). }
      intros k v Hkv. destruct (Z.eq_dec k 0) as [|Hne]; [assumption|]. exfalso.
      apply (Hstored _ _ Ef k v Hkv).
      rewrite <- (RN coeff_in k v ll Hnd Hkv). rewrite (Hlle k), (Hsq k), cscal, (RN cf_one).
      replace (Z.eqb k 0) with false by (symmetry; apply Z.eqb_neq; exact Hne). ring. }
    unfold exp_not_implemented. destruct ll as [|[k v] rest]; [reflexivity|].
    cbn [mv_truthy andb]. apply negb_false_iff. unfold is_scalar_only. cbn [mv_truthy andb].
    apply forallb_forall. intros k' Hk'. unfold keys in Hk'. apply in_map_iff in Hk'.
    destruct Hk' as [[k'' v''] [<- Hin']]. cbn [fst]. rewrite (Hk k'' v'' Hin'). reflexivity.
  Qed.
  (* taking the truth value of a coefficient can itself raise (numpy arrays: ValueError); exp then raises
     that error instead of returning the exponential — finding F11 *)
  Theorem exp_truth_error x k v rest e : gp x x = (k, v) :: rest -> truth v = Err e ->
    exp_model SO truth classify tf A x = Err e.
  Proof. intros Eg Et. unfold exp_model. cbn [s_ops]. rewrite Eg. cbn [filter_truth]. rewrite Et. reflexivity. Qed.
  End ExpModel.

  (* the branch selection: each triple is installed for exactly one class of ll *)
  Theorem exp_branch_sound c :
    match exp_branch c with
    | THyp => c = LPos          (* cosh / sinh(l)/l, l = sqrt(s): only for a positive python number *)
    | TUnit => c = LZero        (* 1, 1: only for a python number equal to 0 *)
    | TTrigSym => c = LExpr     (* sympy cos / sinc of sqrt(-s) *)
    | TTrigNum => c = LOther    (* numpy cos / sinc of sqrt(-s): negative numbers and everything else *)
    end.
  Proof. destruct c; reflexivity. Qed.
End Series.

(* ---------- non-vacuity: the Q-algebra hypothesis [divn_ok] holds for the rationals (Qc: canonical
   fractions with Leibniz equality, ring structure Qcrt) with v / j computed as a quotient ---------- *)
From Coq Require Import QArith Qcanon.
Definition Qc_divn (v : Qc) (j : Z) : Qc := (v / Q2Qc (inject_Z j))%Qc.
Lemma Qc_rnat n : (this (rnat Qc (Q2Qc 0) 1%Qc Qcplus n) == inject_Z (Z.of_nat n))%Q.
Proof.
  induction n as [|n IH]; [reflexivity|].
  cbn [rnat]. unfold Qcplus, Q2Qc. cbn [this].
  transitivity (1 + inject_Z (Z.of_nat n))%Q.
  - etransitivity; [apply Qred_correct|]. rewrite IH. reflexivity.
  - rewrite Nat2Z.inj_succ. unfold Z.succ. rewrite inject_Z_plus. ring.
Qed.
Example divn_ok_Qc : divn_ok Qc (Q2Qc 0) 1%Qc Qcplus Qcmult Qc_divn.
Proof.
  intros v n Hn. unfold Qc_divn.
  assert (E : rnat Qc (Q2Qc 0) 1%Qc Qcplus n = Q2Qc (inject_Z (Z.of_nat n))).
  { apply Qc_is_canon. cbn [this Q2Qc]. rewrite Qred_correct. apply Qc_rnat. }
  rewrite <- E. apply Qcmult_div_r. intros H0.
  pose proof (Qc_rnat n) as H. rewrite H0 in H. cbn in H.
  unfold Qeq in H. cbn in H. lia.
Qed.
