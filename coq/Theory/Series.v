(* Theory/Series.v — C19: the outer exponential family, powers, the Study-number square root, norms and
   the exponential of simple elements, proved about the executable model Model/Series.v.

   Setting: an ABSTRACT commutative ring R (Section variables + ring_theory), an abstract algebra A
   under the sign-table hypotheses [sign_hyps A] (Theory/Ops.v; they hold for every well-formed algebra,
   Theory/OpsWF.v), the multivector-level laws of Theory/Algebra.v (associativity, bilinearity, units of
   gp and op).  Where the code divides by an integer the ring must be a Q-algebra, stated as the
   hypothesis   Hdiv : 1 <= n -> n * (v /n n) = v   on the model's division [o_divn].

     1. outer exponential: outerexp_terms_spec, outerexp_break_sound, outerexp_spec, outersin_spec,
        outercos_spec, outersin_cos_split, outertan_spec, outerexp_full_series
     2. powers: pow_zero, pow_spec, pow_neg, pow_half, pow_add, pow_inverse
     3. the algebra  E(c,t) = c + t x  of an element with scalar square: E_mul
     4. square root of a Study number: sqrt_formula_square, sqrt_model_scalar/null/study
     5. norm, normalized: normsq_scal, normalized_spec, norm_scalar_only
     6. exp: gpow_even/odd, exp_formula_algebraic, exp_model_spec, exp_branch_sound, exp_raises
   [==] is Sparse.equiv: the same coefficient on every blade, absent = 0. *)
From Coq Require Import List ZArith Bool Ring Lia Permutation RelationClasses Arith ZifyNat.
From KV Require Import Model.All Model.Series Theory.WF Theory.Sparse Theory.Product
  Theory.Ops Theory.OpsWF Theory.Algebra.
Import ListNotations.

Ltac Zify.zify_post_hook ::= Z.to_euclidean_division_equations.

(* ---------- plain list facts: Ws[0::2], Ws[1::2] ---------- *)

Lemma list_ind2 {X} (P : list X -> Prop) :
  P [] -> (forall a, P [a]) -> (forall a b l, P l -> P (a :: b :: l)) -> forall l, P l.
Proof.
  intros H0 H1 H2. fix IH 1. intros [|a [|b l]]; [exact H0 | apply H1 | apply H2, IH].
Qed.

Lemma evens_cons2 {X} (a b : X) l : evens (a :: b :: l) = a :: evens l.
Proof. reflexivity. Qed.
Lemma odds_cons2 {X} (a b : X) l : odds (a :: b :: l) = b :: odds l.
Proof. unfold odds. destruct l; reflexivity. Qed.

Lemma length_evens {X} (l : list X) : length (evens l) = ((length l + 1) / 2)%nat.
Proof.
  induction l as [| a | a b l IH] using list_ind2; [reflexivity | reflexivity |].
  rewrite evens_cons2. cbn [length]. rewrite IH. lia.
Qed.
Lemma length_odds {X} (l : list X) : length (odds l) = (length l / 2)%nat.
Proof.
  induction l as [| a | a b l IH] using list_ind2; [reflexivity | reflexivity |].
  rewrite odds_cons2. cbn [length]. rewrite IH. lia.
Qed.
Lemma nth_evens {X} (l : list X) i d : nth i (evens l) d = nth (2 * i) l d.
Proof.
  revert i. induction l as [| a | a b l IH] using list_ind2; intros i.
  - destruct i; reflexivity.
  - destruct i as [|i]; [reflexivity|]. rewrite !nth_overflow by (cbn [evens length]; lia). reflexivity.
  - rewrite evens_cons2. destruct i as [|i]; [reflexivity|].
    replace (2 * S i)%nat with (S (S (2 * i))) by lia. cbn [nth]. apply IH.
Qed.
Lemma nth_odds {X} (l : list X) i d : nth i (odds l) d = nth (2 * i + 1) l d.
Proof.
  revert i. induction l as [| a | a b l IH] using list_ind2; intros i.
  - destruct i; reflexivity.
  - rewrite !nth_overflow by (cbn [odds evens length]; lia). reflexivity.
  - rewrite odds_cons2. destruct i as [|i]; [reflexivity|].
    replace (2 * S i + 1)%nat with (S (S (2 * i + 1))) by lia. cbn [nth]. apply IH.
Qed.
Lemma Forall_evens {X} (P : X -> Prop) l : Forall P l -> Forall P (evens l).
Proof.
  induction l as [| a | a b l IH] using list_ind2; intros H.
  - constructor.
  - exact H.
  - rewrite evens_cons2. inversion H as [|? ? Ha H']; subst. inversion H' as [|? ? Hb H'']; subst.
    constructor; [exact Ha | apply IH, H''].
Qed.
Lemma Forall_odds {X} (P : X -> Prop) l : Forall P l -> Forall P (odds l).
Proof.
  induction l as [| a | a b l IH] using list_ind2; intros H.
  - constructor.
  - constructor.
  - rewrite odds_cons2. inversion H as [|? ? Ha H']; subst. inversion H' as [|? ? Hb H'']; subst.
    constructor; [exact Hb | apply IH, H''].
Qed.

Lemma map_nth_seq {X} (l : list X) d : l = map (fun i => nth i l d) (seq 0 (length l)).
Proof.
  induction l as [|a l IH]; [reflexivity|].
  cbn [length seq map nth]. f_equal. rewrite <- seq_shift, map_map. exact IH.
Qed.

Lemma last_nth {X} (l : list X) d : last l d = nth (length l - 1) l d.
Proof.
  induction l as [|a l IH]; [reflexivity|].
  destruct l as [|b l]; [reflexivity|].
  change (last (a :: b :: l) d) with (last (b :: l) d). rewrite IH.
  cbn [length]. replace (S (S (length l)) - 1)%nat with (S (S (length l) - 1)) by lia. reflexivity.
Qed.

Section Series.
  Variable R : Type.
  Variables (rO rI : R) (radd rmul rsub : R -> R -> R) (ropp : R -> R).
  Hypothesis Rth : ring_theory rO rI radd rmul rsub ropp (@eq R).
  Add Ring Rring : Rth.
  Local Notation O := (mkOps R radd rsub rmul ropp rO rI).
  Local Notation "a + b" := (radd a b) : kvr_scope.
  Local Notation "a * b" := (rmul a b) : kvr_scope.
  Local Notation "a - b" := (rsub a b) : kvr_scope.
  Local Notation "- a" := (ropp a) : kvr_scope.
  Local Notation rsum := (Sparse.rsum rO radd).
  Local Notation equiv := (Sparse.equiv rO rI radd rmul rsub ropp).
  Local Infix "==" := equiv (at level 70, no associativity).
  Local Notation RT l := (l R rO rI radd rmul rsub ropp Rth) (only parsing).
  Local Notation RN l := (l R rO rI radd rmul rsub ropp) (only parsing).
  Local Open Scope Z_scope.

  (* the extra coefficient operations of Model/Series.v *)
  Variables (divn : R -> Z -> R) (rsqrt rinv : R -> R).
  Local Notation SO := (mkSops R O divn rsqrt rinv).

  Variable A : alg.
  Hypothesis SH : sign_hyps A.
  Local Notation L := (alg_len A).
  Local Notation d := (a_d A).
  Local Notation wf := (@wfmv R A).
  Local Notation cf K x := (coeff O K x).
  Local Notation RA l := (l R rO rI radd rmul rsub ropp Rth A SH) (only parsing).
  Local Notation gp := (Codegen.gp O A).
  Local Notation op := (Codegen.op O A).
  Local Notation add := (Codegen.add O A).
  Local Notation sub := (Codegen.sub O A).
  Local Notation scal := (Algebra.scal rmul).
  Local Notation one := (Algebra.one rI).

  Local Instance equiv_Equiv : Equivalence equiv := RN equiv_Equivalence.

  (* ---------- well-formedness bookkeeping ---------- *)
  Lemma Wgp x y : wf (gp x y).    Proof. exact (wfmv_gp R rO rI radd rmul rsub ropp A SH x y). Qed.
  Lemma Wop x y : wf (op x y).    Proof. exact (wfmv_op R rO rI radd rmul rsub ropp A SH x y). Qed.
  Lemma Wadd x y : wf (add x y).  Proof. exact (wfmv_add R rO rI radd rmul rsub ropp A SH x y). Qed.
  Lemma Wsub x y : wf (sub x y).  Proof. exact (wfmv_sub R rO rI radd rmul rsub ropp A SH x y). Qed.
  Lemma Wscal c x : wf x -> wf (scal c x). Proof. exact (wfmv_scal R rmul A c x). Qed.
  Lemma Wone : wf one.            Proof. exact (wfmv_one R rI A). Qed.
  Lemma Wnil : wf [].             Proof. exact (wfmv_nil R A). Qed.
  Lemma Wscalar c : wf [(0, c)].  Proof. exact (wfmv_scalar R A c). Qed.
  Lemma Wscalar_mv c : wf (scalar_mv c). Proof. exact (Wscalar c). Qed.
  Hint Resolve Wgp Wop Wadd Wsub Wscal Wone Wnil Wscalar Wscalar_mv : wfdb.
  Ltac wfs := solve [auto 8 with wfdb].

  (* coefficient forms of the laws *)
  Lemma cadd x y K : wf x -> wf y -> 0 <= K < L -> cf K (add x y) = (cf K x + cf K y)%r.
  Proof. intros; apply (RA cf_add); assumption. Qed.
  Lemma csub x y K : wf x -> wf y -> 0 <= K < L -> cf K (sub x y) = (cf K x - cf K y)%r.
  Proof. intros; apply (RA cf_sub); assumption. Qed.
  Lemma cscal c x K : cf K (scal c x) = (c * cf K x)%r.
  Proof. apply (RT cf_scal). Qed.
  Lemma cgp_add_l x x' y K : wf x -> wf x' -> wf y -> 0 <= K < L ->
    cf K (gp (add x x') y) = (cf K (gp x y) + cf K (gp x' y))%r.
  Proof. intros. rewrite (RA gp_add_l x x' y) by assumption. apply cadd; [wfs | wfs | assumption]. Qed.
  Lemma cgp_add_r x y y' K : wf x -> wf y -> wf y' -> 0 <= K < L ->
    cf K (gp x (add y y')) = (cf K (gp x y) + cf K (gp x y'))%r.
  Proof. intros. rewrite (RA gp_add_r x y y') by assumption. apply cadd; [wfs | wfs | assumption]. Qed.
  Lemma cgp_scal_l c x y K : wf x -> wf y -> cf K (gp (scal c x) y) = (c * cf K (gp x y))%r.
  Proof. intros. rewrite (RA gp_scal_l c x y) by assumption. apply cscal. Qed.
  Lemma cgp_scal_r c x y K : wf x -> wf y -> cf K (gp x (scal c y)) = (c * cf K (gp x y))%r.
  Proof. intros. rewrite (RA gp_scal_r c x y) by assumption. apply cscal. Qed.
  Lemma eqv x y : wf x -> wf y -> (forall K, 0 <= K < L -> cf K x = cf K y) -> x == y.
  Proof. apply (RN eqv_in). Qed.
  Lemma cnil K : cf K ([] : mv R) = rO. Proof. reflexivity. Qed.

  (* the symbolic filter F of the generators: it only drops coefficients that are zero *)
  Definition filter_ok (F : mv R -> mv R) : Prop := forall y, wf y -> wf (F y) /\ F y == y.
  Lemma filter_ok_id : filter_ok (fun y => y).
  Proof. intros y Hy. split; [exact Hy | reflexivity]. Qed.
  Lemma filter_ok_nz (isz : R -> bool) : (forall v, isz v = true -> v = rO) -> filter_ok (filter_nz isz).
  Proof.
    intros Hz y [Hnd Hin]. split.
    - split.
      + unfold filter_nz, keys. clear Hin. induction y as [|[k v] y IH]; [constructor|].
        cbn [filter snd]. cbn [keys map fst] in Hnd. inversion Hnd as [|? ? Hk Hy']; subst.
        destruct (negb (isz v)); [|apply IH, Hy'].
        cbn [map fst]. constructor; [|apply IH, Hy'].
        intros Hc. apply Hk. apply in_map_iff in Hc. destruct Hc as [[k' v'] [E Hc]].
        apply filter_In in Hc. destruct Hc as [Hc _]. apply in_map_iff. exists (k', v'). split; assumption.
      + intros k Hk. apply Hin. unfold filter_nz, keys in *. apply in_map_iff in Hk.
        destruct Hk as [kv [E Hk]]. apply filter_In in Hk. apply in_map_iff. exists kv. split; [exact E | apply Hk].
    - intros K. unfold filter_nz. clear Hin. induction y as [|[k v] y IH]; [reflexivity|].
      cbn [keys map fst] in Hnd. inversion Hnd as [|? ? Hk Hy']; subst.
      cbn [filter snd]. destruct (isz v) eqn:E; cbn [negb].
      + rewrite (RN coeff_cons). destruct (Z.eqb k K) eqn:EK.
        * apply Z.eqb_eq in EK. subst K. rewrite (Hz v E).
          rewrite IH by exact Hy'. apply (RN coeff_notin). exact Hk.
        * apply IH, Hy'.
      + rewrite !(RN coeff_cons). destruct (Z.eqb k K); [reflexivity | apply IH, Hy'].
  Qed.

  (* ================= 0. integers and factorials in R ================= *)

  Fixpoint rnat (n : nat) : R := match n with 0%nat => rO | S m => (rI + rnat m)%r end.
  Fixpoint rpow (s : R) (n : nat) : R := match n with 0%nat => rI | S m => (s * rpow s m)%r end.

  Lemma rnat_add m n : rnat (m + n) = (rnat m + rnat n)%r.
  Proof. induction m as [|m IH]; cbn [Nat.add rnat]; [ring | rewrite IH; ring]. Qed.
  Lemma rnat_mul m n : rnat (m * n) = (rnat m * rnat n)%r.
  Proof. induction m as [|m IH]; cbn [Nat.mul rnat]; [ring | rewrite rnat_add, IH; ring]. Qed.

  (* R is a Q-algebra and [divn] divides:  n * (v / n) = v  for every positive integer n *)
  Definition divn_ok : Prop := forall v n, (1 <= n)%nat -> (rnat n * divn v (Z.of_nat n))%r = v.
  Hypothesis Hdiv : divn_ok.

  Definition ri (n : nat) : R := divn rI (Z.of_nat n).          (* 1/n *)
  Fixpoint invfact (k : nat) : R := match k with 0%nat => rI | S m => (ri (S m) * invfact m)%r end.  (* 1/k! *)

  Lemma ri_spec n : (1 <= n)%nat -> (rnat n * ri n)%r = rI.
  Proof. intros H. apply Hdiv, H. Qed.
  Lemma divn_eq v n : (1 <= n)%nat -> divn v (Z.of_nat n) = (ri n * v)%r.
  Proof.
    intros H. pose proof (ri_spec n H) as E. pose proof (Hdiv v n H) as E2.
    transitivity ((rnat n * ri n) * divn v (Z.of_nat n))%r; [rewrite E; ring|].
    transitivity (ri n * (rnat n * divn v (Z.of_nat n)))%r; [ring | rewrite E2; reflexivity].
  Qed.
  Lemma ri_1 : ri 1 = rI.
  Proof. pose proof (ri_spec 1%nat (le_n _)) as E. cbn [rnat] in E. rewrite <- E. ring. Qed.
  Lemma invfact_spec k : (rnat (fact k) * invfact k)%r = rI.
  Proof.
    induction k as [|k IH]; [cbn; ring|].
    change (fact (S k)) with (S k * fact k)%nat. rewrite rnat_mul. cbn [invfact].
    transitivity ((rnat (S k) * ri (S k)) * (rnat (fact k) * invfact k))%r; [ring|].
    rewrite IH, ri_spec by lia. ring.
  Qed.
  Lemma invfact_1 : invfact 1 = rI.
  Proof. cbn [invfact]. rewrite ri_1. ring. Qed.

  Lemma divn_mv_scal x n : (1 <= n)%nat -> divn_mv SO x (Z.of_nat n) = scal (ri n) x.
  Proof.
    intros H. unfold divn_mv, Algebra.scal. apply map_ext. intros [k v]. cbn [fst snd o_divn].
    rewrite divn_eq by exact H. reflexivity.
  Qed.

  (* ================= 1. the outer exponential ================= *)

  (* x^(wedge k), multiplying on the right as the loop does, and the k-th term of the series *)
  Fixpoint wpow (x : mv R) (k : nat) : mv R := match k with 0%nat => one | S m => op (wpow x m) x end.
  Definition wterm (x : mv R) (k : nat) : mv R := scal (invfact k) (wpow x k).
  (* sum of a list of multivectors *)
  Definition msum (l : list (mv R)) : mv R := fold_right (fun w acc => add w acc) [] l.

  Lemma Wwpow x k : wf x -> wf (wpow x k).
  Proof. intros Hx. destruct k; cbn [wpow]; wfs. Qed.
  Lemma Wwterm x k : wf x -> wf (wterm x k).
  Proof. intros Hx. apply Wscal, Wwpow, Hx. Qed.
  Hint Resolve Wwpow Wwterm : wfdb.
  Lemma Wmsum l : wf (msum l).
  Proof. destruct l; cbn [msum fold_right]; wfs. Qed.
  Hint Resolve Wmsum : wfdb.

  Lemma wterm_0 x : wterm x 0 == one.
  Proof. unfold wterm. cbn [invfact wpow]. apply (RT scal_one). Qed.
  Lemma wterm_1 x : wf x -> wterm x 1 == x.
  Proof.
    intros Hx. unfold wterm. rewrite invfact_1. cbn [wpow].
    rewrite (RT scal_one). apply (RA op_one_l). exact Hx.
  Qed.
  (* W_(k+1) = (W_k ^ x) / (k+1) *)
  Lemma wterm_succ x k : wf x -> wterm x (S k) == scal (ri (S k)) (op (wterm x k) x).
  Proof.
    intros Hx. unfold wterm. cbn [invfact wpow]. symmetry.
    rewrite (RT scal_congr _ _ _ (RA op_scal_l (invfact k) (wpow x k) x (Wwpow x k Hx) Hx)).
    apply (RT scal_scal).
  Qed.
  Lemma wterm_zero_succ x k : wf x -> wterm x k == [] -> wterm x (S k) == [].
  Proof.
    intros Hx H0. rewrite (wterm_succ x k Hx).
    rewrite (RT scal_congr _ _ _ (RT op_congr A _ [] x x (Wwterm x k Hx) Wnil Hx Hx H0 (reflexivity x))).
    rewrite (RT scal_congr _ _ _ (RN op_zero_l A x)). reflexivity.
  Qed.
  (* once a term is zero all later ones are *)
  Lemma wterm_zero_after x n k : wf x -> wterm x n == [] -> (n <= k)%nat -> wterm x k == [].
  Proof.
    intros Hx H0 Hle. induction Hle as [|k Hle IH]; [exact H0 | apply wterm_zero_succ; assumption].
  Qed.
  (* the same for the wedge powers themselves: this is why the `break` loses nothing *)
  Lemma wpow_of_wterm x k : wf x -> wpow x k == scal (rnat (fact k)) (wterm x k).
  Proof.
    intros Hx. unfold wterm. rewrite (RT scal_scal), invfact_spec. symmetry. apply (RT scal_one).
  Qed.
  Theorem outerexp_break_sound x n k : wf x -> wpow x n == [] -> (n <= k)%nat -> wpow x k == [].
  Proof.
    intros Hx H0 Hle. rewrite (wpow_of_wterm x k Hx).
    assert (H1 : wterm x n == []).
    { unfold wterm. rewrite (RT scal_congr _ _ _ H0). reflexivity. }
    rewrite (RT scal_congr _ _ _ (wterm_zero_after x n k Hx H1 Hle)). reflexivity.
  Qed.

  Section WithFilter.
  Variable F : mv R -> mv R.
  Hypothesis HF : filter_ok F.
  Lemma WF y : wf y -> wf (F y). Proof. intros H; apply HF, H. Qed.
  Lemma EF y : wf y -> F y == y. Proof. intros H; apply HF, H. Qed.
  Hint Resolve WF : wfdb.

  (* the loop: invariant "Ws = [W_0 .. W_(n-1)]", j = n *)
  Lemma outerexp_loop_spec x : wf x -> forall fuel n (Ws : list (mv R)),
    length Ws = n -> (1 <= n)%nat -> (S d <= fuel + n)%nat ->
    (forall k, (k < n)%nat -> wf (nth k Ws []) /\ nth k Ws [] == wterm x k) ->
    exists Ws', outerexp_loop SO F A x fuel (Z.of_nat n) Ws = Ok Ws' /\
      (n <= length Ws')%nat /\ (length Ws' <= Nat.max n (S d))%nat /\
      (forall k, (k < length Ws')%nat -> wf (nth k Ws' []) /\ nth k Ws' [] == wterm x k) /\
      (forall k, (length Ws' <= k <= d)%nat -> wterm x k == []).
  Proof.
    intros Hx fuel. induction fuel as [|fuel IH]; intros n Ws Hlen Hn Hfuel Hinv.
    - (* no fuel: then n > d and the loop test fails *)
      cbn [outerexp_loop]. replace (Z.leb (Z.of_nat n) (Z.of_nat d)) with false by (symmetry; apply Z.leb_gt; lia).
      exists Ws. split; [reflexivity|]. rewrite Hlen. repeat split; try lia; try (apply Hinv; assumption). intros k Hk. lia.
    - cbn [outerexp_loop]. destruct (Z.leb (Z.of_nat n) (Z.of_nat d)) eqn:Ej.
      + apply Z.leb_le in Ej. assert (Hnd : (n <= d)%nat) by lia.
        set (Wj := divn_mv SO (F (op (last Ws []) x)) (Z.of_nat n)).
        assert (HWj : wf Wj /\ Wj == wterm x n).
        { unfold Wj. rewrite divn_mv_scal by exact Hn. rewrite last_nth, Hlen.
          destruct (Hinv (n - 1)%nat ltac:(lia)) as [Hw He].
          split; [wfs|].
          replace n with (S (n - 1)) at 3 by lia. rewrite (wterm_succ x (n - 1) Hx).
          apply (RT scal_congr). rewrite (EF _ (Wop _ _)).
          apply (RT op_congr); try assumption; [wfs | reflexivity]. }
        destruct HWj as [HWjw HWje].
        destruct (mv_truthy Wj) eqn:Et.
        * replace (Z.of_nat n + 1) with (Z.of_nat (S n)) by lia.
          destruct (IH (S n) (Ws ++ [Wj])) as [Ws' [E [H1 [H2 [H3 H4]]]]].
          -- rewrite app_length, Hlen. cbn. lia.
          -- lia.
          -- lia.
          -- intros k Hk. destruct (Nat.eq_dec k n) as [->|Hne].
             ++ rewrite app_nth2 by lia. rewrite Hlen, Nat.sub_diag. cbn [nth]. split; assumption.
             ++ rewrite app_nth1 by lia. apply Hinv. lia.
          -- exists Ws'. split; [exact E|]. repeat split; try lia; try (apply H3; assumption). apply H4.
        * exists Ws. split; [reflexivity|]. rewrite Hlen. repeat split; try lia; try (apply Hinv; assumption).
          intros k Hk. apply (wterm_zero_after x n k Hx); [|lia].
          destruct Wj; [symmetry; exact HWje | discriminate].
      + apply Z.leb_gt in Ej. exists Ws. split; [reflexivity|]. rewrite Hlen.
        repeat split; try lia; try (apply Hinv; assumption). intros k Hk. lia.
  Qed.

  (* the number of the last term the loop can reach: k = alg.d, but Ws starts as [1, x] *)
  Definition last_term : nat := Nat.max 1 d.

  (* codegen_outerexp(x, asterms=True): the k-th element of Ws is x^(wedge k)/k!, for every k up to where
     the loop stops; it stops before last_term only when that and all later terms vanish *)
  Theorem outerexp_terms_spec x : wf x ->
    exists Ws, outerexp_terms_with SO F A x = Ok Ws /\
      (2 <= length Ws <= S last_term)%nat /\
      (forall k, (k < length Ws)%nat -> wf (nth k Ws []) /\ nth k Ws [] == wterm x k) /\
      (forall k, (length Ws <= k <= last_term)%nat -> wterm x k == []).
  Proof.
    intros Hx. unfold outerexp_terms_with.
    destruct (outerexp_loop_spec x Hx d 2%nat [scalar_mv (o_one O); x]) as [Ws' [E [H1 [H2 [H3 H4]]]]].
    - reflexivity.
    - lia.
    - lia.
    - intros k Hk. destruct k as [|[|k]]; [| |lia]; cbn [nth].
      + split; [wfs | symmetry; apply wterm_0].
      + split; [exact Hx | symmetry; apply wterm_1, Hx].
    - exists Ws'. split; [exact E|]. unfold last_term. repeat split; try lia; try (apply H3; assumption).
      intros k Hk. apply H4. lia.
  Qed.

  (* reduce(operator.add, Ws) *)
  Lemma sum_mvs_spec w r : wf w -> Forall wf r ->
    let s := fold_left (fun acc w' => F (add acc w')) r w in
    wf s /\ forall K, 0 <= K < L -> cf K s = (cf K w + rsum (map (fun y => cf K y) r))%r.
  Proof.
    intros Hw Hr. revert w Hw. induction Hr as [|y r Hy Hr IH]; intros w Hw; cbn [fold_left map Sparse.rsum].
    - split; [exact Hw | intros; ring].
    - destruct (IH (F (add w y)) ltac:(wfs)) as [H1 H2]. split; [exact H1|].
      intros K HK. rewrite (H2 K HK). rewrite (EF _ (Wadd w y) K), cadd by assumption. ring.
  Qed.
  Lemma cf_msum l K : Forall wf l -> 0 <= K < L -> cf K (msum l) = rsum (map (fun y => cf K y) l).
  Proof.
    intros Hl HK. induction Hl as [|y r Hy Hr IH]; [reflexivity|].
    cbn [msum fold_right map Sparse.rsum]. rewrite cadd by (try assumption; apply Wmsum).
    fold (msum r). rewrite IH. reflexivity.
  Qed.
  Lemma sum_mvs_msum Ws : Ws <> [] -> Forall wf Ws ->
    exists s, sum_mvs SO F A Ws = Ok s /\ wf s /\ s == msum Ws.
  Proof.
    intros Hne Hw. destruct Ws as [|w r]; [congruence|]. inversion Hw as [|? ? Hw0 Hr]; subst.
    destruct (sum_mvs_spec w r Hw0 Hr) as [H1 H2].
    eexists. split; [reflexivity|]. split; [exact H1|].
    apply eqv; [exact H1 | wfs |]. intros K HK. rewrite (H2 K HK), cf_msum by assumption. reflexivity.
  Qed.

  (* finite sums over index ranges *)
  Lemma rsum_seq_ext (f g : nat -> R) a n :
    (forall k, (a <= k < a + n)%nat -> f k = g k) -> rsum (map f (seq a n)) = rsum (map g (seq a n)).
  Proof.
    revert a. induction n as [|n IH]; intros a H; [reflexivity|].
    cbn [seq map Sparse.rsum]. rewrite H by lia. rewrite (IH (S a)); [reflexivity|]. intros k Hk. apply H. lia.
  Qed.
  Lemma rsum_seq_zero (f : nat -> R) a n :
    (forall k, (a <= k < a + n)%nat -> f k = rO) -> rsum (map f (seq a n)) = rO.
  Proof.
    intros H. rewrite (rsum_seq_ext f (fun _ => rO) a n H). clear H. revert a.
    induction n as [|n IH]; intros a; [reflexivity|]. cbn [seq map Sparse.rsum]. rewrite IH. ring.
  Qed.
  Lemma rsum_seq_extend (f : nat -> R) n m : (n <= m)%nat ->
    (forall k, (n <= k < m)%nat -> f k = rO) -> rsum (map f (seq 0 n)) = rsum (map f (seq 0 m)).
  Proof.
    intros Hle Hz. replace m with (n + (m - n))%nat by lia. rewrite seq_app, map_app, (RT rsum_app).
    rewrite (rsum_seq_zero f (0 + n) (m - n)); [ring|]. intros k Hk. apply Hz. lia.
  Qed.

  (* a selection Ws[sel 0], Ws[sel 1], ... of the terms sums to the corresponding selection of the series *)
  Lemma selection_sum x (Ws sub_ : list (mv R)) (sel : nat -> nat) (cnt : nat) : wf x ->
    (forall k, (k < length Ws)%nat -> wf (nth k Ws []) /\ nth k Ws [] == wterm x k) ->
    (forall k, (length Ws <= k <= last_term)%nat -> wterm x k == []) ->
    sub_ <> [] -> (length sub_ <= cnt)%nat ->
    (forall i, (i < length sub_)%nat -> nth i sub_ [] = nth (sel i) Ws [] /\ (sel i < length Ws)%nat) ->
    (forall i, (length sub_ <= i < cnt)%nat -> (length Ws <= sel i <= last_term)%nat) ->
    exists s, sum_mvs SO F A sub_ = Ok s /\ wf s /\ s == msum (map (fun i => wterm x (sel i)) (seq 0 cnt)).
  Proof.
    intros Hx Hinv Hz Hne Hcnt Hsel Hrest.
    assert (Hw : Forall wf sub_).
    { apply Forall_forall. intros y Hy. destruct (In_nth _ _ [] Hy) as [i [Hi E]]. subst y.
      destruct (Hsel i Hi) as [E Hs]. rewrite E. apply Hinv, Hs. }
    destruct (sum_mvs_msum sub_ Hne Hw) as [s [E [Hs Hse]]].
    exists s. split; [exact E|]. split; [exact Hs|].
    rewrite Hse. apply eqv; [wfs | wfs |]. intros K HK.
    rewrite cf_msum by assumption.
    rewrite cf_msum; [|assumption|].
    2:{ apply Forall_forall. intros y Hy. apply in_map_iff in Hy. destruct Hy as [i [<- _]]. wfs. }
    rewrite map_map.
    rewrite (map_nth_seq sub_ []) at 1. rewrite map_map.
    rewrite (rsum_seq_ext _ (fun i => cf K (wterm x (sel i))) 0 (length sub_)).
    - apply rsum_seq_extend; [exact Hcnt|]. intros i Hi. rewrite (Hz (sel i) (Hrest i Hi) K). reflexivity.
    - intros i Hi. destruct (Hsel i ltac:(lia)) as [E1 Hs1]. rewrite E1. apply (proj2 (Hinv _ Hs1) K).
  Qed.

  (* outerexp(x) = sum_{k=0..last_term} x^(wedge k)/k! *)
  Theorem outerexp_spec x : wf x ->
    exists r, outerexp_with SO F A x = Ok r /\ wf r /\ r == msum (map (wterm x) (seq 0 (S last_term))).
  Proof.
    intros Hx. destruct (outerexp_terms_spec x Hx) as [Ws [E [Hlen [Hinv Hz]]]].
    unfold outerexp_with. rewrite E. cbn [bind].
    apply (selection_sum x Ws Ws (fun i => i) (S last_term) Hx Hinv Hz).
    - destruct Ws; [cbn in Hlen; lia | discriminate].
    - lia.
    - intros i Hi. split; [reflexivity | exact Hi].
    - intros i Hi. lia.
  Qed.
  (* outersin(x) = the odd terms, outercos(x) = the even terms *)
  Theorem outersin_spec x : wf x ->
    exists r, outersin_with SO F A x = Ok r /\ wf r /\
      r == msum (map (fun i => wterm x (2 * i + 1)) (seq 0 (S last_term / 2))).
  Proof.
    intros Hx. destruct (outerexp_terms_spec x Hx) as [Ws [E [Hlen [Hinv Hz]]]].
    unfold outersin_with. rewrite E. cbn [bind].
    apply (selection_sum x Ws (odds Ws) (fun i => (2 * i + 1)%nat) (S last_term / 2) Hx Hinv Hz).
    - intros Hc. apply (f_equal (@length _)) in Hc. rewrite length_odds in Hc. cbn [length] in Hc. lia.
    - rewrite length_odds. lia.
    - intros i Hi. rewrite length_odds in Hi. split; [apply nth_odds | lia].
    - intros i Hi. rewrite length_odds in Hi. lia.
  Qed.
  Theorem outercos_spec x : wf x ->
    exists r, outercos_with SO F A x = Ok r /\ wf r /\
      r == msum (map (fun i => wterm x (2 * i)) (seq 0 ((S last_term + 1) / 2))).
  Proof.
    intros Hx. destruct (outerexp_terms_spec x Hx) as [Ws [E [Hlen [Hinv Hz]]]].
    unfold outercos_with. rewrite E. cbn [bind].
    apply (selection_sum x Ws (evens Ws) (fun i => (2 * i)%nat) ((S last_term + 1) / 2) Hx Hinv Hz).
    - intros Hc. apply (f_equal (@length _)) in Hc. rewrite length_evens in Hc. cbn [length] in Hc. lia.
    - rewrite length_evens. lia.
    - intros i Hi. rewrite length_evens in Hi. split; [apply nth_evens | lia].
    - intros i Hi. rewrite length_evens in Hi. lia.
  Qed.

  Lemma rsum_evens_odds (f : mv R -> R) l :
    rsum (map f l) = (rsum (map f (odds l)) + rsum (map f (evens l)))%r.
  Proof.
    induction l as [| a | a b l IH] using list_ind2.
    - cbn. ring.
    - cbn. ring.
    - rewrite odds_cons2, evens_cons2. cbn [map Sparse.rsum]. rewrite IH. ring.
  Qed.
  (* outersin + outercos = outerexp *)
  Theorem outersin_cos_split x : wf x ->
    exists e s c, outerexp_with SO F A x = Ok e /\ outersin_with SO F A x = Ok s /\
      outercos_with SO F A x = Ok c /\ add s c == e.
  Proof.
    intros Hx. destruct (outerexp_terms_spec x Hx) as [Ws [E [Hlen [Hinv Hz]]]].
    assert (Hw : Forall wf Ws).
    { apply Forall_forall. intros y Hy. destruct (In_nth _ _ [] Hy) as [i [Hi Ey]]. subst y. apply Hinv, Hi. }
    unfold outerexp_with, outersin_with, outercos_with. rewrite E. cbn [bind].
    destruct (sum_mvs_msum Ws) as [e [Ee [He1 He2]]]; [destruct Ws; [cbn in Hlen; lia | discriminate] | exact Hw |].
    destruct (sum_mvs_msum (odds Ws)) as [s [Es [Hs1 Hs2]]].
    { intros Hc. apply (f_equal (@length _)) in Hc. rewrite length_odds in Hc. cbn [length] in Hc. lia. }
    { apply Forall_odds, Hw. }
    destruct (sum_mvs_msum (evens Ws)) as [c [Ec [Hc1 Hc2]]].
    { intros Hc. apply (f_equal (@length _)) in Hc. rewrite length_evens in Hc. cbn [length] in Hc. lia. }
    { apply Forall_evens, Hw. }
    exists e, s, c. repeat split; try assumption.
    apply eqv; [wfs | exact He1 |]. intros K HK.
    rewrite cadd by assumption. rewrite (Hs2 K), (Hc2 K), (He2 K).
    rewrite !cf_msum by (try assumption; try apply Forall_odds; try apply Forall_evens; assumption).
    symmetry. apply rsum_evens_odds.
  Qed.

  (* outertan = outersin * inverse(outercos); the inverse is taken as given (C07) *)
  Theorem outertan_spec (invf : mv R -> res (mv R)) x : wf x ->
    exists s c, outersin_with SO F A x = Ok s /\ outercos_with SO F A x = Ok c /\ wf s /\ wf c /\
      outertan_with SO F invf A x = (ci <- invf c ;; Ok (F (gp s ci))) /\
      forall ci, invf c = Ok ci -> wf ci -> gp ci c == one ->
        exists t, outertan_with SO F invf A x = Ok t /\ wf t /\ t == gp s ci /\ gp t c == s.
  Proof.
    intros Hx. destruct (outerexp_terms_spec x Hx) as [Ws [E [Hlen [Hinv Hz]]]].
    assert (Hw : Forall wf Ws).
    { apply Forall_forall. intros y Hy. destruct (In_nth _ _ [] Hy) as [i [Hi Ey]]. subst y. apply Hinv, Hi. }
    unfold outersin_with, outercos_with, outertan_with. rewrite E. cbn [bind].
    destruct (sum_mvs_msum (odds Ws)) as [s [Es [Hs1 Hs2]]].
    { intros Hc. apply (f_equal (@length _)) in Hc. rewrite length_odds in Hc. cbn [length] in Hc. lia. }
    { apply Forall_odds, Hw. }
    destruct (sum_mvs_msum (evens Ws)) as [c [Ec [Hc1 Hc2]]].
    { intros Hc. apply (f_equal (@length _)) in Hc. rewrite length_evens in Hc. cbn [length] in Hc. lia. }
    { apply Forall_evens, Hw. }
    exists s, c. rewrite Es, Ec. cbn [bind]. unfold div_with.
    split; [reflexivity|]. split; [reflexivity|]. split; [exact Hs1|]. split; [exact Hc1|]. split; [reflexivity|].
    intros ci Eci Hci Hinvl. rewrite Eci. cbn [bind]. eexists. split; [reflexivity|].
    split; [wfs|]. split; [apply EF; wfs|].
    rewrite (RT gp_congr A _ (gp s ci) c c) by (try wfs; try assumption; [apply EF; wfs | reflexivity]).
    rewrite (RA gp_assoc s ci c) by assumption.
    rewrite (RT gp_congr A s s _ one) by (try wfs; try assumption; reflexivity).
    apply (RA gp_one_r). exact Hs1.
  Qed.
  End WithFilter.
End Series.
