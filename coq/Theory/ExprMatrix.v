(* Theory/ExprMatrix.v — kingdon.matrixreps.expr_as_matrix (Model/ExprMatrix.v): the matrix A of
   coefficients `collect(expand(y_i), x).coeff(x_j)` satisfies  A . x = y  for expressions linear in x.

   Polynomials are expanded sums of terms (c, symbols with multiplicity) with coefficients in an ARBITRARY
   commutative ring R; [eval rho p] is the value of p under a valuation rho of the symbols.

   (a) expr_matrix_linear      every y_i linear in xs, xs distinct  ->  A . rho(xs) = eval rho y, every rho, every R
       expr_row_general        for ANY p:  (row of p) . rho(xs) = sum over the terms t of p of  k(t) * eval t,
                               k(t) = number of x symbols whose exponent in t is exactly 1
   (b) row_identity_iff        over a ring without additive torsion (Z, Q):  row . x = p as polynomials (equal
                               coefficient at every monomial)  IFF  every monomial of p with a non-zero
                               coefficient has k = 1; linear_in is k = 1 together with (c); constant, x1*x1 and
                               x1*x2 terms (k = 0, 0, 2) refute the identity, x1*x2*x2 (k = 1) satisfies it with
                               an entry that contains x
   (c) expr_matrix_entries_free  for linear y the entries of A contain no x symbol, and their values do not
                               depend on the values given to the xs
   (d) res_like                the selected rows are the rows of the full matrix, a zero row for an absent key,
                               and (a) holds for the selected system
   (e) geval_homog / expr_as_matrix_of_expression
                               every expression built from x, x-free other inputs, the nine products, +, -, and
                               the unary sign operators that has degree 1 in x yields coefficients linear in xs;
                               evaluated at any ring values of the symbols, A . x is the NUMERIC result of the
                               same expression on the evaluated inputs (naturality, Theory/Natural.v). *)
From Coq Require Import List ZArith Bool Ring Lia Permutation Arith.
From KV Require Import Model.Codegen Model.Composite Model.ExprMatrix.
From KV Require Import Theory.Sparse Theory.Natural.
Import ListNotations.
Local Open Scope nat_scope.

(* ================= ring-independent facts on symbol lists ================= *)

Lemma count_sym_app v a b : count_sym v (a ++ b) = count_sym v a + count_sym v b.
Proof. induction a as [|w a IH]; cbn [app count_sym]; [reflexivity | rewrite IH; lia]. Qed.

Lemma count_sym_In v vs : count_sym v vs <> 0 -> In v vs.
Proof.
  induction vs as [|w r IH]; cbn [count_sym]; intros H.
  - lia.
  - destruct (Nat.eqb w v) eqn:E.
    + apply Nat.eqb_eq in E. left. exact E.
    + right. apply IH. exact H.
Qed.

Lemma count_sym_notin v vs : ~ In v vs -> count_sym v vs = 0.
Proof.
  intros H. destruct (count_sym v vs) eqn:E; [reflexivity|].
  exfalso. apply H. apply count_sym_In. lia.
Qed.

Lemma is_x_In xs v : is_x xs v = true <-> In v xs.
Proof.
  unfold is_x. rewrite existsb_exists. split.
  - intros [x [Hin E]]. apply Nat.eqb_eq in E. subst x. exact Hin.
  - intros Hin. exists v. split; [exact Hin | apply Nat.eqb_refl].
Qed.

Lemma xdeg_cons xs v vs : xdeg xs (v :: vs) = (if is_x xs v then 1 else 0) + xdeg xs vs.
Proof. unfold xdeg. cbn [filter]. destruct (is_x xs v); reflexivity. Qed.

Lemma xdeg_app xs a b : xdeg xs (a ++ b) = xdeg xs a + xdeg xs b.
Proof. unfold xdeg. rewrite filter_app, app_length. reflexivity. Qed.

Lemma xdeg_remove1 xs v vs :
  In v vs -> is_x xs v = true -> xdeg xs vs = S (xdeg xs (remove1 v vs)).
Proof.
  intros Hin Hx. induction vs as [|w r IH]; [destruct Hin|].
  cbn [remove1]. destruct (Nat.eqb w v) eqn:E.
  - apply Nat.eqb_eq in E. subst w. rewrite xdeg_cons, Hx. reflexivity.
  - destruct Hin as [Hw|Hin]; [subst w; rewrite Nat.eqb_refl in E; discriminate|].
    rewrite !xdeg_cons, (IH Hin). lia.
Qed.

Lemma list_sum_cons a l : list_sum (a :: l) = a + list_sum l.
Proof. reflexivity. Qed.

Lemma list_sum_map_add {A} (f g : A -> nat) l :
  list_sum (map (fun a => f a + g a) l) = list_sum (map f l) + list_sum (map g l).
Proof. induction l as [|a l IH]; cbn [map]; [reflexivity | rewrite !list_sum_cons, IH; lia]. Qed.

Lemma list_sum_indicator xs w :
  NoDup xs -> list_sum (map (fun xj => if Nat.eqb w xj then 1 else 0) xs) = if is_x xs w then 1 else 0.
Proof.
  induction xs as [|a xs IH]; intros Hnd; cbn [map]; rewrite ?list_sum_cons.
  - reflexivity.
  - inversion Hnd as [|? ? Ha Hnd']; subst. rewrite (IH Hnd').
    unfold is_x. cbn [existsb]. fold (is_x xs w).
    destruct (Nat.eqb w a) eqn:E; cbn [orb].
    + apply Nat.eqb_eq in E. subst a.
      destruct (is_x xs w) eqn:Ex; [|reflexivity].
      exfalso. apply Ha. apply is_x_In. exact Ex.
    + reflexivity.
Qed.

(* the degree in the xs is the sum of the exponents of the xs (xs distinct) *)
Lemma xdeg_count xs vs :
  NoDup xs -> xdeg xs vs = list_sum (map (fun xj => count_sym xj vs) xs).
Proof.
  intros Hnd. induction vs as [|w r IH].
  - cbn [count_sym]. unfold xdeg. cbn [filter length].
    induction xs as [|a xs IHx]; cbn [map]; rewrite ?list_sum_cons; [reflexivity|].
    inversion Hnd; subst. rewrite <- IHx; [reflexivity | assumption].
  - rewrite xdeg_cons, IH. cbn [count_sym].
    rewrite (list_sum_map_add (fun xj => if Nat.eqb w xj then 1 else 0) (fun xj => count_sym xj r)).
    rewrite (list_sum_indicator xs w Hnd). reflexivity.
Qed.

(* a boolean test for the hypothesis "the x symbols are distinct" *)
Fixpoint nodupb (l : list nat) : bool :=
  match l with [] => true | a :: r => negb (is_x r a) && nodupb r end.

Lemma nodupb_NoDup l : nodupb l = true -> NoDup l.
Proof.
  induction l as [|a r IH]; cbn [nodupb]; intros H; [constructor|].
  apply andb_prop in H. destruct H as [H1 H2]. constructor; [|apply IH; exact H2].
  intros Hin. apply is_x_In in Hin. rewrite Hin in H1. discriminate.
Qed.

(* k(t): the number of x symbols with exponent exactly 1 in the term *)
Definition kone (xs vs : list nat) : nat :=
  length (filter (fun xj => Nat.eqb (count_sym xj vs) 1) xs).

Lemma kone_cons a xs vs :
  kone (a :: xs) vs = (if Nat.eqb (count_sym a vs) 1 then 1 else 0) + kone xs vs.
Proof. unfold kone. cbn [filter]. destruct (Nat.eqb (count_sym a vs) 1); reflexivity. Qed.

Lemma sum_one_filter (f : nat -> nat) xs :
  list_sum (map f xs) = 1 -> length (filter (fun xj => Nat.eqb (f xj) 1) xs) = 1.
Proof.
  induction xs as [|a xs IH]; cbn [map filter]; rewrite ?list_sum_cons; intros H.
  - discriminate.
  - destruct (Nat.eqb (f a) 1) eqn:E.
    + apply Nat.eqb_eq in E. cbn [length]. f_equal.
      assert (H0 : list_sum (map f xs) = 0) by lia.
      clear -H0. induction xs as [|b xs IHx]; cbn [map filter] in *; rewrite ?list_sum_cons in *; [reflexivity|].
      assert (f b = 0) by lia. rewrite H. cbn [Nat.eqb]. apply IHx. lia.
    + apply Nat.eqb_neq in E. apply IH. lia.
Qed.

Lemma kone_linear xs vs : NoDup xs -> xdeg xs vs = 1 -> kone xs vs = 1.
Proof.
  intros Hnd H. rewrite (xdeg_count xs vs Hnd) in H. unfold kone.
  apply (sum_one_filter (fun xj => count_sym xj vs)). exact H.
Qed.

Lemma combine_map_self {A B} (f : A -> B) (l : list A) :
  combine (map f l) l = map (fun a => (f a, a)) l.
Proof. induction l as [|a l IH]; cbn [map combine]; [reflexivity | rewrite IH; reflexivity]. Qed.

(* ---------- structure of the model functions (any coefficient type) ---------- *)
Section Structure.
  Context {C : Type}.
  Implicit Types (p q : xpoly C) (t : xterm C).

  Lemma coeff_of_app xj p q : coeff_of xj (p ++ q) = coeff_of xj p ++ coeff_of xj q.
  Proof. unfold coeff_of. apply flat_map_app. Qed.

  Lemma coeff_of_cons xj t p : coeff_of xj (t :: p) = coeff_term xj t ++ coeff_of xj p.
  Proof. reflexivity. Qed.

  Lemma expr_row_length xs p : length (expr_row xs p) = length xs.
  Proof. unfold expr_row. apply map_length. Qed.

  Lemma expr_matrix_length xs (ys : list (xpoly C)) : length (expr_matrix xs ys) = length ys.
  Proof. unfold expr_matrix. apply map_length. Qed.

  Lemma homog_in_app xs d p q : homog_in xs d (p ++ q) = homog_in xs d p && homog_in xs d q.
  Proof. unfold homog_in. apply forallb_app. Qed.

  Lemma homog_in_forall xs d p :
    homog_in xs d p = true <-> (forall t, In t p -> xdeg xs (snd t) = d).
  Proof.
    unfold homog_in. rewrite forallb_forall. unfold homog_term.
    split; intros H t Hin; [apply Nat.eqb_eq | apply Nat.eqb_eq]; apply H; exact Hin.
  Qed.

  (* (c) the coefficient of an x symbol in a polynomial of degree S d in the xs has degree d *)
  Lemma coeff_of_homog xs d xj p :
    In xj xs -> homog_in xs (S d) p = true -> homog_in xs d (coeff_of xj p) = true.
  Proof.
    intros Hx Hp. rewrite homog_in_forall in *. intros u Hu.
    unfold coeff_of in Hu. apply in_flat_map in Hu. destruct Hu as [t [Ht Hu]].
    unfold coeff_term in Hu. destruct (Nat.eqb (count_sym xj (snd t)) 1) eqn:E; [|destruct Hu].
    destruct Hu as [Hu|[]]. subst u. cbn [snd].
    apply Nat.eqb_eq in E.
    assert (Hin : In xj (snd t)) by (apply count_sym_In; lia).
    pose proof (xdeg_remove1 xs xj (snd t) Hin (proj2 (is_x_In xs xj) Hx)) as Hd.
    rewrite (Hp t Ht) in Hd. lia.
  Qed.

  Theorem expr_matrix_entries_free xs (ys : list (xpoly C)) :
    forallb (linear_in xs) ys = true ->
    Forall (Forall (fun a => free_of xs a = true)) (expr_matrix xs ys).
  Proof.
    intros Hl. rewrite forallb_forall in Hl. unfold expr_matrix.
    apply Forall_forall. intros row Hrow. apply in_map_iff in Hrow. destruct Hrow as [y [E Hy]]. subst row.
    unfold expr_row. apply Forall_forall. intros a Ha. apply in_map_iff in Ha. destruct Ha as [xj [E Hxj]].
    subst a. unfold free_of. apply (coeff_of_homog xs 0 xj y Hxj). apply Hl. exact Hy.
  Qed.

  (* ---------- (d) res_like ---------- *)
  Lemma zassoc_zindex_nth (k : Z) (y : mv (xpoly C)) :
    match zindex k (keys y) with
    | Some i => exists p, zassoc k y = Some p /\ nth_error (map snd y) i = Some p
    | None => zassoc k y = None
    end.
  Proof.
    induction y as [|[k' p] r IH]; cbn [keys map fst zindex zassoc].
    - reflexivity.
    - destruct (Z.eqb k' k) eqn:E.
      + exists p. split; reflexivity.
      + unfold keys in IH. destruct (zindex k (map fst r)) as [i|]; cbn [option_map].
        * destruct IH as [q [H1 H2]]. exists q. split; [exact H1 | exact H2].
        * exact IH.
  Qed.

  (* row r of the matrix for res_like is the row of the full matrix at the (first) position where y stores the
     r-th key of res_like, and a row of zeros (empty sums) when y does not store it *)
  Theorem res_like_rows xs ks (y : mv (xpoly C)) r k :
    nth_error ks r = Some k ->
    let Asel := expr_matrix xs (map snd (res_like_sel ks y)) in
    let Afull := expr_matrix xs (map snd y) in
    match zindex k (keys y) with
    | Some i => nth_error Asel r = nth_error Afull i /\ nth_error Afull i <> None
    | None => nth_error Asel r = Some (map (fun _ => []) xs)
    end.
  Proof.
    intros Hk Asel Afull. subst Asel Afull. unfold expr_matrix, res_like_sel.
    rewrite !map_map. cbn [snd].
    rewrite (nth_error_map _ r ks), Hk. cbn [option_map].
    pose proof (zassoc_zindex_nth k y) as Hz. unfold getattr_key.
    destruct (zindex k (keys y)) as [i|].
    - destruct Hz as [p [H1 H2]]. rewrite H1.
      rewrite <- (map_map snd (expr_row xs)), (nth_error_map _ i (map snd y)), H2. cbn [option_map].
      split; [reflexivity | discriminate].
    - rewrite Hz. unfold expr_row, coeff_of. cbn [flat_map]. reflexivity.
  Qed.

  Lemma res_like_keys ks (y : mv (xpoly C)) : keys (res_like_sel ks y) = ks.
  Proof. unfold keys, res_like_sel. rewrite map_map. cbn [fst]. apply map_id. Qed.

  Lemma res_like_linear xs ks (y : mv (xpoly C)) :
    forallb (linear_in xs) (map snd y) = true ->
    forallb (linear_in xs) (map snd (res_like_sel ks y)) = true.
  Proof.
    intros Hy. rewrite forallb_forall in *. intros p Hp. unfold res_like_sel in Hp.
    rewrite map_map in Hp. cbn [snd] in Hp. apply in_map_iff in Hp. destruct Hp as [k [E _]]. subst p.
    unfold getattr_key. destruct (zassoc k y) as [p|] eqn:Ez; [|reflexivity].
    apply Hy. apply zassoc_some_in in Ez. change p with (snd (k, p)). apply in_map. exact Ez.
  Qed.
End Structure.

(* ================= evaluation in a commutative ring ================= *)
Section Eval.
  Variable R : Type.
  Variables (rO rI : R) (radd rmul rsub : R -> R -> R) (ropp : R -> R).
  Hypothesis Rth : ring_theory rO rI radd rmul rsub ropp (@eq R).
  Add Ring Rring : Rth.
  Local Notation O := (mkOps R radd rsub rmul ropp rO rI).
  Local Notation "a + b" := (radd a b).
  Local Notation "a * b" := (rmul a b).
  Local Notation "a - b" := (rsub a b).
  Local Notation "- a" := (ropp a).
  Implicit Types (p q : xpoly R) (t : xterm R) (rho : nat -> R).

  Fixpoint esum (l : list R) : R := match l with [] => rO | a :: r => a + esum r end.
  Fixpoint eval_syms rho (vs : list nat) : R := match vs with [] => rI | v :: r => rho v * eval_syms rho r end.
  Definition eval_term rho t : R := fst t * eval_syms rho (snd t).
  Definition eval rho p : R := esum (map (eval_term rho) p).
  (* n-fold sum *)
  Fixpoint nsmul (n : nat) (a : R) : R := match n with 0 => rO | S m => a + nsmul m a end.

  (* row . x  and  A . x  at the values rho of the symbols *)
  Definition dot rho (row : list (xpoly R)) (xs : list nat) : R :=
    esum (map (fun ax => eval rho (fst ax) * rho (snd ax)) (combine row xs)).
  Definition mat_vec rho (A : list (list (xpoly R))) (xs : list nat) : list R :=
    map (fun row => dot rho row xs) A.

  Lemma esum_app l1 l2 : esum (l1 ++ l2) = esum l1 + esum l2.
  Proof. induction l1 as [|a l1 IH]; cbn [app esum]; [ring | rewrite IH; ring]. Qed.

  Lemma esum_map_add {A} (f g : A -> R) l :
    esum (map (fun a => f a + g a) l) = esum (map f l) + esum (map g l).
  Proof. induction l as [|a l IH]; cbn [map esum]; [ring | rewrite IH; ring]. Qed.

  Lemma esum_map_ext {A} (f g : A -> R) l :
    (forall a, In a l -> f a = g a) -> esum (map f l) = esum (map g l).
  Proof.
    induction l as [|a l IH]; intros H; cbn [map esum]; [reflexivity|].
    rewrite (H a (or_introl eq_refl)), IH; [reflexivity|]. intros b Hb. apply H. right. exact Hb.
  Qed.

  Lemma eval_nil rho : eval rho [] = rO.
  Proof. reflexivity. Qed.

  Lemma eval_cons rho t p : eval rho (t :: p) = eval_term rho t + eval rho p.
  Proof. reflexivity. Qed.

  Lemma eval_app rho p q : eval rho (p ++ q) = eval rho p + eval rho q.
  Proof. unfold eval. rewrite map_app. apply esum_app. Qed.

  Lemma eval_syms_app rho a b : eval_syms rho (a ++ b) = eval_syms rho a * eval_syms rho b.
  Proof. induction a as [|v a IH]; cbn [app eval_syms]; [ring | rewrite IH; ring]. Qed.

  Lemma eval_syms_remove1 rho v vs : In v vs -> rho v * eval_syms rho (remove1 v vs) = eval_syms rho vs.
  Proof.
    induction vs as [|w r IH]; intros Hin; [destruct Hin|].
    cbn [remove1 eval_syms]. destruct (Nat.eqb w v) eqn:E.
    - apply Nat.eqb_eq in E. subst w. reflexivity.
    - destruct Hin as [Hw|Hin]; [subst w; rewrite Nat.eqb_refl in E; discriminate|].
      cbn [eval_syms]. rewrite <- (IH Hin). ring.
  Qed.

  Lemma nsmul_add n m a : nsmul (n + m) a = nsmul n a + nsmul m a.
  Proof. induction n as [|n IH]; cbn [Nat.add nsmul]; [ring | rewrite IH; ring]. Qed.

  Lemma nsmul_1 a : nsmul 1 a = a.
  Proof. cbn [nsmul]. ring. Qed.

  (* one term, one column: coeff(xj) * xj gives the term back when xj has exponent 1, nothing otherwise *)
  Lemma eval_coeff_term rho xj t :
    eval rho (coeff_term xj t) * rho xj = nsmul (if Nat.eqb (count_sym xj (snd t)) 1 then 1 else 0) (eval_term rho t).
  Proof.
    unfold coeff_term. destruct (Nat.eqb (count_sym xj (snd t)) 1) eqn:E.
    - apply Nat.eqb_eq in E. assert (Hin : In xj (snd t)) by (apply count_sym_In; lia).
      unfold eval. cbn [map esum nsmul]. unfold eval_term. cbn [fst snd].
      rewrite <- (eval_syms_remove1 rho xj (snd t) Hin). ring.
    - cbn [nsmul]. rewrite eval_nil. ring.
  Qed.

  Lemma dot_expr_row rho xs p :
    dot rho (expr_row xs p) xs = esum (map (fun xj => eval rho (coeff_of xj p) * rho xj) xs).
  Proof. unfold dot, expr_row. rewrite combine_map_self, map_map. reflexivity. Qed.

  Lemma dot_expr_row_term rho xs t :
    dot rho (expr_row xs [t]) xs = nsmul (kone xs (snd t)) (eval_term rho t).
  Proof.
    rewrite dot_expr_row. induction xs as [|a xs IH]; cbn [map esum].
    - reflexivity.
    - rewrite IH, kone_cons, nsmul_add.
      unfold coeff_of at 1. cbn [flat_map]. rewrite app_nil_r, eval_coeff_term. reflexivity.
  Qed.

  Lemma dot_expr_row_cons rho xs t p :
    dot rho (expr_row xs (t :: p)) xs = dot rho (expr_row xs [t]) xs + dot rho (expr_row xs p) xs.
  Proof.
    rewrite !dot_expr_row. rewrite <- esum_map_add. apply esum_map_ext. intros xj _.
    rewrite (coeff_of_cons xj t p). unfold coeff_of at 2. cbn [flat_map]. rewrite app_nil_r, eval_app. ring.
  Qed.

  (* the general formula: every term is counted k(t) times *)
  Theorem expr_row_general rho xs p :
    dot rho (expr_row xs p) xs = esum (map (fun t => nsmul (kone xs (snd t)) (eval_term rho t)) p).
  Proof.
    induction p as [|t p IH].
    - rewrite dot_expr_row. cbn [map esum]. induction xs as [|a xs IH]; cbn [map esum]; [reflexivity|].
      rewrite IH. unfold coeff_of. cbn [flat_map]. rewrite eval_nil. ring.
    - rewrite dot_expr_row_cons, IH, dot_expr_row_term. reflexivity.
  Qed.

  (* (a) one row *)
  Theorem expr_row_linear rho xs p :
    linear_in xs p = true -> NoDup xs -> dot rho (expr_row xs p) xs = eval rho p.
  Proof.
    intros Hl Hnd. rewrite expr_row_general. unfold eval. apply esum_map_ext. intros t Ht.
    unfold linear_in in Hl. rewrite homog_in_forall in Hl.
    rewrite (kone_linear xs (snd t) Hnd (Hl t Ht)). apply nsmul_1.
  Qed.

  (* (a) A . coefficients(x) = coefficients(y) *)
  Theorem expr_matrix_linear rho xs (ys : list (xpoly R)) :
    forallb (linear_in xs) ys = true -> NoDup xs ->
    mat_vec rho (expr_matrix xs ys) xs = map (eval rho) ys.
  Proof.
    intros Hl Hnd. unfold mat_vec, expr_matrix. rewrite map_map. apply map_ext_in. intros y Hy.
    apply expr_row_linear; [|exact Hnd]. rewrite forallb_forall in Hl. apply Hl. exact Hy.
  Qed.

  (* the same, row by row *)
  Corollary expr_matrix_linear_row rho xs (ys : list (xpoly R)) i row y :
    forallb (linear_in xs) ys = true -> NoDup xs ->
    nth_error (expr_matrix xs ys) i = Some row -> nth_error ys i = Some y ->
    length row = length xs /\ dot rho row xs = eval rho y.
  Proof.
    intros Hl Hnd Hrow Hy. unfold expr_matrix in Hrow. rewrite (nth_error_map _ i ys), Hy in Hrow.
    cbn [option_map] in Hrow. injection Hrow as <-. split; [apply expr_row_length|].
    apply expr_row_linear; [|exact Hnd]. rewrite forallb_forall in Hl. apply Hl.
    apply nth_error_In with i. exact Hy.
  Qed.

  (* (c) the value of an x-free polynomial does not depend on the values of the xs *)
  Lemma eval_syms_free rho rho' xs vs :
    (forall v, ~ In v xs -> rho v = rho' v) -> xdeg xs vs = 0 -> eval_syms rho vs = eval_syms rho' vs.
  Proof.
    intros Hr. induction vs as [|v r IH]; intros H0; [reflexivity|].
    rewrite xdeg_cons in H0. cbn [eval_syms]. destruct (is_x xs v) eqn:E; [discriminate|].
    rewrite IH by (cbn in H0; exact H0). rewrite (Hr v); [reflexivity|].
    intros Hin. apply is_x_In in Hin. rewrite Hin in E. discriminate.
  Qed.

  Theorem eval_free_indep rho rho' xs p :
    (forall v, ~ In v xs -> rho v = rho' v) -> free_of xs p = true -> eval rho p = eval rho' p.
  Proof.
    intros Hr Hf. unfold free_of in Hf. rewrite homog_in_forall in Hf. unfold eval.
    apply esum_map_ext. intros t Ht. unfold eval_term.
    rewrite (eval_syms_free rho rho' xs (snd t) Hr (Hf t Ht)). reflexivity.
  Qed.

  (* (d) the system selected by res_like satisfies (a) with the selected y: absent keys give 0 = 0 *)
  Theorem res_like_linear_system rho (x : mv nat) ks (y : mv (xpoly R)) :
    forallb (linear_in (map snd x)) (map snd y) = true -> NoDup (map snd x) ->
    let Ay := expr_as_matrix (Some ks) x y in
    keys (snd Ay) = ks /\
    mat_vec rho (fst Ay) (map snd x) = map (fun k => eval rho (getattr_key k y)) ks.
  Proof.
    intros Hl Hnd Ay. subst Ay. unfold expr_as_matrix. cbn [fst snd]. split; [apply res_like_keys|].
    rewrite expr_matrix_linear; [|apply res_like_linear; exact Hl | exact Hnd].
    unfold res_like_sel. rewrite !map_map. reflexivity.
  Qed.

  (* (a) + (d): what expr_as_matrix returns, with or without res_like:  A . x = y  for the returned pair *)
  Theorem expr_as_matrix_sound rho res_like (x : mv nat) (y : mv (xpoly R)) :
    forallb (linear_in (map snd x)) (map snd y) = true -> NoDup (map snd x) ->
    let Ay := expr_as_matrix res_like x y in
    mat_vec rho (fst Ay) (map snd x) = map (eval rho) (map snd (snd Ay)).
  Proof.
    intros Hl Hnd Ay. subst Ay. unfold expr_as_matrix. cbn [fst snd]. destruct res_like as [ks|].
    - apply expr_matrix_linear; [apply res_like_linear; exact Hl | exact Hnd].
    - apply expr_matrix_linear; assumption.
  Qed.
End Eval.

(* ================= (e) expressions of degree 1 in x give coefficients linear in the x symbols ================= *)

(* a product of operands whose coefficients satisfy Px and Py has coefficients satisfying Pr *)
Section AllCoeffs3.
  Context {T : Type} (O : ops T) (Px Py Pr : T -> Prop).
  Hypothesis P_mul : forall a b, Px a -> Py b -> Pr (o_mul O a b).
  Hypothesis P_negx : forall a, Px a -> Px (o_neg O a).
  Hypothesis P_add : forall a b, Pr a -> Pr b -> Pr (o_add O a b).

  Lemma all3_product_step sfun filt kout (res : mv T) pq :
    Px (snd (fst pq)) -> Py (snd (snd pq)) -> all_coeffs Pr res ->
    all_coeffs Pr (product_step O sfun filt kout res pq).
  Proof.
    destruct pq as [[kx vx] [ky vy]]. cbn [fst snd]. intros Hx Hy Hres. unfold product_step.
    destruct (Z.eqb (sfun kx ky) 0); [exact Hres|].
    destruct (match filt with Some f => negb (f kx ky (kout kx ky)) | None => false end); [exact Hres|].
    apply (all_coeffs_dacc O Pr P_add); [|exact Hres].
    destruct (Z.ltb 0 (sfun kx ky)); apply P_mul; try apply P_negx; assumption.
  Qed.

  Lemma all3_codegen_product sfun filt kout (x y : mv T) :
    all_coeffs Px x -> all_coeffs Py y -> all_coeffs Pr (codegen_product O sfun filt kout x y).
  Proof.
    intros Hx Hy. unfold codegen_product.
    assert (G : forall l (res : mv T),
               (forall pq, In pq l -> Px (snd (fst pq)) /\ Py (snd (snd pq))) -> all_coeffs Pr res ->
               all_coeffs Pr (fold_left (product_step O sfun filt kout) l res)).
    { induction l as [|pq l IH]; intros res Hl Hres; cbn [fold_left]; [exact Hres|].
      apply IH; [intros q Hq; apply Hl; right; exact Hq|].
      destruct (Hl pq (or_introl eq_refl)) as [H1 H2]. apply all3_product_step; assumption. }
    apply G; [|constructor].
    intros [a b] Hin. apply in_prod_iff in Hin. destruct Hin as [Ha Hb]. cbn [fst snd].
    unfold all_coeffs in Hx, Hy. rewrite Forall_forall in Hx, Hy. split; [apply Hx | apply Hy]; assumption.
  Qed.
End AllCoeffs3.

(* sums, differences and the sign-flipping unary operators keep a property closed under +, -, negation *)
Section AllCoeffs1.
  Context {T : Type} (O : ops T) (P : T -> Prop).
  Hypothesis P_add : forall a b, P a -> P b -> P (o_add O a b).
  Hypothesis P_sub : forall a b, P a -> P b -> P (o_sub O a b).
  Hypothesis P_neg : forall a, P a -> P (o_neg O a).

  Lemma all1_zassoc k (d : mv T) v : all_coeffs P d -> zassoc k d = Some v -> P v.
  Proof.
    intros Hd E. apply zassoc_some_in in E. unfold all_coeffs in Hd. rewrite Forall_forall in Hd.
    apply (Hd (k, v) E).
  Qed.

  Lemma all1_raw_add (x y : mv T) : all_coeffs P x -> all_coeffs P y -> all_coeffs P (raw_add O x y).
  Proof.
    intros Hx Hy. unfold raw_add. apply all_coeffs_todict in Hx. revert Hx. generalize (todict x).
    induction y as [|[k v] r IH]; intros d Hd; cbn [fold_left]; [exact Hd|].
    inversion Hy as [|? ? Hv Hr]; subst. cbn [snd] in Hv. apply IH; [exact Hr|].
    unfold add_step. destruct (zassoc k d) as [a|] eqn:E.
    - apply all_coeffs_zset; [apply P_add; [apply (all1_zassoc k d a Hd E) | exact Hv] | exact Hd].
    - apply all_coeffs_zset; assumption.
  Qed.

  Lemma all1_raw_sub (x y : mv T) : all_coeffs P x -> all_coeffs P y -> all_coeffs P (raw_sub O x y).
  Proof.
    intros Hx Hy. unfold raw_sub. apply all_coeffs_todict in Hx. revert Hx. generalize (todict x).
    induction y as [|[k v] r IH]; intros d Hd; cbn [fold_left]; [exact Hd|].
    inversion Hy as [|? ? Hv Hr]; subst. cbn [snd] in Hv. apply IH; [exact Hr|].
    unfold sub_step. destruct (zassoc k d) as [a|] eqn:E.
    - apply all_coeffs_zset; [apply P_sub; [apply (all1_zassoc k d a Hd E) | exact Hv] | exact Hd].
    - apply all_coeffs_zset; [apply P_neg; exact Hv | exact Hd].
  Qed.

  Lemma all1_map_sign (f : Z * T -> Z) (flip : Z * T -> bool) (x : mv T) :
    all_coeffs P x ->
    all_coeffs P (todict (map (fun kv => (f kv, if flip kv then o_neg O (snd kv) else snd kv)) x)).
  Proof.
    intros Hx. apply all_coeffs_todict. unfold all_coeffs in *. rewrite Forall_forall in *. intros kv Hin.
    apply in_map_iff in Hin. destruct Hin as [kv' [E Hin]]. subst kv. cbn [snd].
    destruct (flip kv'); [apply P_neg|]; apply Hx; exact Hin.
  Qed.

  Lemma all1_uop A u (x : mv T) : all_coeffs P x -> all_coeffs P (uop_fun O A u x).
  Proof.
    intros Hx. destruct u; cbn [uop_fun]; apply all_coeffs_canon_sort.
    - unfold neg, raw_neg. apply (all1_map_sign (fun kv => fst kv) (fun _ => true)). exact Hx.
    - apply (all_coeffs_raw_involution O P P_neg). exact Hx.
    - apply (all_coeffs_raw_involution O P P_neg). exact Hx.
    - apply (all_coeffs_raw_involution O P P_neg). exact Hx.
    - unfold raw_hodge.
      apply (all1_map_sign (fun kv => (pss_key A - fst kv)%Z)
                           (fun kv => Z.ltb (sgn A (fst kv) (pss_key A - fst kv)) 0)). exact Hx.
    - unfold raw_unhodge.
      apply (all1_map_sign (fun kv => (pss_key A - fst kv)%Z)
                           (fun kv => Z.ltb (sgn A (pss_key A - fst kv) (fst kv)) 0)). exact Hx.
  Qed.
End AllCoeffs1.

Section Homog.
  Context {C : Type} (O : ops C) (xs : list nat).
  Local Notation H d := (fun p : xpoly C => homog_in xs d p = true).

  Lemma homog_fadd d p q : H d p -> H d q -> H d (fadd p q).
  Proof. intros Hp Hq. cbn beta. unfold fadd. rewrite homog_in_app, Hp, Hq. reflexivity. Qed.

  Lemma homog_fneg d p : H d p -> H d (fneg O p).
  Proof.
    cbn beta. rewrite !homog_in_forall. intros Hp t Ht. unfold fneg in Ht. apply in_map_iff in Ht.
    destruct Ht as [u [E Hu]]. subst t. cbn [snd]. apply Hp. exact Hu.
  Qed.

  Lemma homog_fsub d p q : H d p -> H d q -> H d (fsub O p q).
  Proof. intros Hp Hq. unfold fsub. apply homog_fadd; [exact Hp | apply homog_fneg; exact Hq]. Qed.

  Lemma homog_fmul a b p q : H a p -> H b q -> H (a + b) (fmul O p q).
  Proof.
    cbn beta. rewrite !homog_in_forall. intros Hp Hq t Ht. unfold fmul in Ht. apply in_map_iff in Ht.
    destruct Ht as [[u v] [E Huv]]. subst t. cbn [fst snd]. apply in_prod_iff in Huv.
    rewrite xdeg_app, (Hp u (proj1 Huv)), (Hq v (proj2 Huv)). reflexivity.
  Qed.

  Lemma homog_fvar_x v : In v xs -> H 1 (fvar O v).
  Proof.
    intros Hv. cbn beta. unfold fvar, homog_in, homog_term. cbn [forallb snd].
    rewrite xdeg_cons, (proj2 (is_x_In xs v) Hv). reflexivity.
  Qed.

  Lemma homog_fvar_other v : ~ In v xs -> H 0 (fvar O v).
  Proof.
    intros Hv. cbn beta. unfold fvar, homog_in, homog_term. cbn [forallb snd].
    rewrite xdeg_cons. destruct (is_x xs v) eqn:E; [|reflexivity].
    exfalso. apply Hv. apply is_x_In. exact E.
  Qed.

  Lemma homog_sym_mv_x (x : mv nat) : incl (map snd x) xs -> all_coeffs (H 1) (sym_mv O x).
  Proof.
    intros Hi. unfold all_coeffs, sym_mv. apply Forall_forall. intros kv Hin. apply in_map_iff in Hin.
    destruct Hin as [ks [E Hks]]. subst kv. cbn [snd]. apply homog_fvar_x. apply Hi.
    apply in_map. exact Hks.
  Qed.

  Lemma homog_sym_mv_other (r : mv nat) :
    (forall s, In s (map snd r) -> ~ In s xs) -> all_coeffs (H 0) (sym_mv O r).
  Proof.
    intros Hi. unfold all_coeffs, sym_mv. apply Forall_forall. intros kv Hin. apply in_map_iff in Hin.
    destruct Hin as [ks [E Hks]]. subst kv. cbn [snd]. apply homog_fvar_other. apply Hi.
    apply in_map. exact Hks.
  Qed.

  Lemma homog_bop A b dx dy (x y : mv (xpoly C)) :
    all_coeffs (H dx) x -> all_coeffs (H dy) y -> all_coeffs (H (dx + dy)) (bop_fun (Fops O) A b x y).
  Proof.
    intros Hx Hy.
    assert (G : forall sfun filt kout,
               all_coeffs (H (dx + dy)) (codegen_product (Fops O) sfun filt kout x y)).
    { intros. apply (all3_codegen_product (Fops O) (H dx) (H dy) (H (dx + dy))); try assumption.
      - intros a c Ha Hc. apply (homog_fmul dx dy a c Ha Hc).
      - intros a Ha. apply (homog_fneg dx a Ha).
      - intros a c Ha Hc. apply (homog_fadd (dx + dy) a c Ha Hc). }
    destruct b; cbn [bop_fun]; apply all_coeffs_canon_sort; apply G.
  Qed.

  (* every expression that is homogeneous of degree d in x evaluates - on the expanded polynomials - to a
     multivector all of whose coefficients are homogeneous of degree d in the x symbols *)
  Theorem geval_homog A (env : nat -> mv (xpoly C)) (x : mv (xpoly C)) e d :
    (forall n, all_coeffs (H 0) (env n)) -> all_coeffs (H 1) x ->
    gdeg e = Some d -> all_coeffs (H d) (geval (Fops O) A env x e).
  Proof.
    intros Henv Hx. revert d. induction e as [|n|b e1 IH1 e2 IH2|e1 IH1 e2 IH2|e1 IH1 e2 IH2|u e1 IH1];
      intros d Hd; cbn [gdeg] in Hd; cbn [geval].
    - injection Hd as <-. exact Hx.
    - injection Hd as <-. apply Henv.
    - destruct (gdeg e1) as [a|]; [|discriminate]. destruct (gdeg e2) as [c|]; [|discriminate].
      injection Hd as <-. apply homog_bop; [apply IH1 | apply IH2]; reflexivity.
    - destruct (gdeg e1) as [a|]; [|discriminate]. destruct (gdeg e2) as [c|]; [|discriminate].
      destruct (Nat.eqb a c) eqn:E; [|discriminate]. apply Nat.eqb_eq in E. subst c. injection Hd as <-.
      unfold add. apply all_coeffs_canon_sort. apply (all1_raw_add (Fops O) (H a)).
      + intros p q Hp Hq. apply (homog_fadd a p q Hp Hq).
      + apply IH1. reflexivity.
      + apply IH2. reflexivity.
    - destruct (gdeg e1) as [a|]; [|discriminate]. destruct (gdeg e2) as [c|]; [|discriminate].
      destruct (Nat.eqb a c) eqn:E; [|discriminate]. apply Nat.eqb_eq in E. subst c. injection Hd as <-.
      unfold sub. apply all_coeffs_canon_sort. apply (all1_raw_sub (Fops O) (H a)).
      + intros p q Hp Hq. apply (homog_fsub a p q Hp Hq).
      + intros p Hp. apply (homog_fneg a p Hp).
      + apply IH1. reflexivity.
      + apply IH2. reflexivity.
    - apply (all1_uop (Fops O) (H d)).
      + intros p Hp. apply (homog_fneg d p Hp).
      + apply IH1. exact Hd.
  Qed.
End Homog.

(* the expressions are natural: one definition for every coefficient type, commuting with every map that
   preserves the six operations *)
Lemma geval_natural {T1 T2 : Type} (O1 : ops T1) (O2 : ops T2) (h : T1 -> T2) :
  ops_hom O1 O2 h ->
  forall A env x e,
    map_mv h (geval O1 A env x e) = geval O2 A (fun n => map_mv h (env n)) (map_mv h x) e.
Proof.
  intros Hh A env x e. induction e as [|n|b e1 IH1 e2 IH2|e1 IH1 e2 IH2|e1 IH1 e2 IH2|u e1 IH1]; cbn [geval].
  - reflexivity.
  - reflexivity.
  - rewrite <- IH1, <- IH2. destruct b; cbn [bop_fun].
    + apply (natural_gp T1 T2 O1 O2 h Hh).
    + apply (natural_op T1 T2 O1 O2 h Hh).
    + apply (natural_ip T1 T2 O1 O2 h Hh).
    + apply (natural_lc T1 T2 O1 O2 h Hh).
    + apply (natural_rc T1 T2 O1 O2 h Hh).
    + apply (natural_sp T1 T2 O1 O2 h Hh).
    + apply (natural_cp T1 T2 O1 O2 h Hh).
    + apply (natural_acp T1 T2 O1 O2 h Hh).
    + apply (natural_rp T1 T2 O1 O2 h Hh).
  - rewrite <- IH1, <- IH2. apply (natural_add T1 T2 O1 O2 h Hh).
  - rewrite <- IH1, <- IH2. apply (natural_sub T1 T2 O1 O2 h Hh).
  - rewrite <- IH1. destruct u; cbn [uop_fun].
    + apply (natural_neg T1 T2 O1 O2 h Hh).
    + apply (natural_reverse T1 T2 O1 O2 h Hh).
    + apply (natural_involute T1 T2 O1 O2 h Hh).
    + apply (natural_conjugate T1 T2 O1 O2 h Hh).
    + apply (natural_hodge T1 T2 O1 O2 h Hh).
    + apply (natural_unhodge T1 T2 O1 O2 h Hh).
Qed.

Lemma all_coeffs_forallb {T} (f : T -> bool) (y : mv T) :
  all_coeffs (fun p => f p = true) y <-> forallb f (map snd y) = true.
Proof.
  unfold all_coeffs. rewrite Forall_forall, forallb_forall. split.
  - intros H p Hp. apply in_map_iff in Hp. destruct Hp as [kv [E Hkv]]. subst p. apply H. exact Hkv.
  - intros H kv Hkv. apply H. apply in_map. exact Hkv.
Qed.

Section EvalHom.
  Variable R : Type.
  Variables (rO rI : R) (radd rmul rsub : R -> R -> R) (ropp : R -> R).
  Hypothesis Rth : ring_theory rO rI radd rmul rsub ropp (@eq R).
  Add Ring Rring2 : Rth.
  Local Notation O := (mkOps R radd rsub rmul ropp rO rI).
  Local Notation "a + b" := (radd a b).
  Local Notation "a * b" := (rmul a b).
  Local Notation "a - b" := (rsub a b).
  Local Notation "- a" := (ropp a).
  Local Notation eval := (eval R rO rI radd rmul).
  Local Notation eval_term := (eval_term R rI rmul).
  Local Notation eval_syms := (eval_syms R rI rmul).
  Local Notation esum := (esum R rO radd).
  Local Notation mat_vec := (mat_vec R rO rI radd rmul).
  Implicit Types (p q : xpoly R) (rho : nat -> R).

  Lemma eval_fneg rho p : eval rho (fneg O p) = - eval rho p.
  Proof.
    induction p as [|t p IH]; [cbn; ring|].
    cbn [fneg map]. fold (fneg O p). rewrite !(eval_cons R rO rI radd rmul), IH.
    unfold ExprMatrix.eval_term. cbn [fst snd o_neg]. ring.
  Qed.

  Lemma fmul_cons t p q : fmul O (t :: p) q = fmul O [t] q ++ fmul O p q.
  Proof. unfold fmul. cbn [list_prod]. rewrite app_nil_r, map_app. reflexivity. Qed.

  Lemma fmul_term_cons t u q :
    fmul O [t] (u :: q) = (fst t * fst u, snd t ++ snd u) :: fmul O [t] q.
  Proof. reflexivity. Qed.

  Lemma eval_fmul_term rho t q : eval rho (fmul O [t] q) = eval_term rho t * eval rho q.
  Proof.
    induction q as [|u q IH]; [cbn; ring|].
    rewrite fmul_term_cons, !(eval_cons R rO rI radd rmul), IH.
    unfold ExprMatrix.eval_term. cbn [fst snd]. rewrite (eval_syms_app R rO rI radd rmul rsub ropp Rth). ring.
  Qed.

  Lemma eval_fmul rho p q : eval rho (fmul O p q) = eval rho p * eval rho q.
  Proof.
    induction p as [|t p IH]; [cbn; ring|].
    rewrite fmul_cons, (eval_app R rO rI radd rmul rsub ropp Rth), IH, eval_fmul_term.
    rewrite (eval_cons R rO rI radd rmul). ring.
  Qed.

  Lemma eval_fvar rho v : eval rho (fvar O v) = rho v.
  Proof.
    unfold fvar. cbn [o_one]. rewrite (eval_cons R rO rI radd rmul), (eval_nil R rO rI radd rmul).
    unfold ExprMatrix.eval_term. cbn [fst snd ExprMatrix.eval_syms]. ring.
  Qed.

  (* evaluation of expanded polynomials is a homomorphism from the free operations to the ring *)
  Lemma eval_ops_hom rho : ops_hom (Fops O) O (eval rho).
  Proof.
    constructor; cbn [Fops o_zero o_one o_add o_sub o_mul o_neg].
    - reflexivity.
    - unfold fconst. rewrite (eval_cons R rO rI radd rmul), (eval_nil R rO rI radd rmul).
      unfold ExprMatrix.eval_term. cbn [fst snd ExprMatrix.eval_syms]. ring.
    - intros a b. apply (eval_app R rO rI radd rmul rsub ropp Rth).
    - intros a b. unfold fsub. rewrite (eval_app R rO rI radd rmul rsub ropp Rth), eval_fneg. ring.
    - intros a b. apply eval_fmul.
    - intros a. apply eval_fneg.
  Qed.

  Lemma eval_sym_mv rho (x : mv nat) : map_mv (eval rho) (sym_mv O x) = map_mv rho x.
  Proof.
    unfold sym_mv, map_mv. rewrite map_map. apply map_ext. intros kv. cbn [fst snd].
    rewrite eval_fvar. reflexivity.
  Qed.

  (* (e) the main use.  x: the symbolic last input (keys and distinct symbols); env n: the other inputs, any
     multivectors whose coefficients are x-free expanded polynomials (symbols, numbers, inverses treated as
     further symbols, ...); e: any expression of degree 1 in x.  Then y = e(env, x), computed on expanded
     polynomials, is linear in the x symbols; the returned pair satisfies A . x = y at every valuation in every
     commutative ring; and the values of y are the result of the SAME expression evaluated numerically on the
     values of the inputs - so  A(values of the other inputs) . (values of x) = e(values), as the docstring
     of expr_as_matrix promises for numeric and array-valued other inputs. *)
  Theorem expr_as_matrix_of_expression rho A e res_like (x : mv nat) (env : nat -> mv (xpoly R)) :
    gdeg e = Some 1 -> NoDup (map snd x) ->
    (forall n, all_coeffs (fun p => free_of (map snd x) p = true) (env n)) ->
    let xs := map snd x in
    let y := geval (Fops O) A env (sym_mv O x) e in
    let Ay := expr_as_matrix res_like x y in
    forallb (linear_in xs) (map snd y) = true /\
    mat_vec rho (fst Ay) xs = map (eval rho) (map snd (snd Ay)) /\
    map_mv (eval rho) y = geval O A (fun n => map_mv (eval rho) (env n)) (map_mv rho x) e.
  Proof.
    intros Hd Hnd Henv xs y Ay.
    assert (Hl : forallb (linear_in xs) (map snd y) = true).
    { apply all_coeffs_forallb. subst y. apply (geval_homog O xs A env (sym_mv O x) e 1).
      - exact Henv.
      - apply homog_sym_mv_x. apply incl_refl.
      - exact Hd. }
    split; [exact Hl|]. split.
    - subst Ay. apply (expr_as_matrix_sound R rO rI radd rmul rsub ropp Rth); assumption.
    - subst y. rewrite (geval_natural (Fops O) O (eval rho) (eval_ops_hom rho)), eval_sym_mv. reflexivity.
  Qed.

  (* without res_like:  A . x  IS the numeric result *)
  Corollary expr_as_matrix_numeric rho A e (x : mv nat) (env : nat -> mv (xpoly R)) :
    gdeg e = Some 1 -> NoDup (map snd x) ->
    (forall n, all_coeffs (fun p => free_of (map snd x) p = true) (env n)) ->
    let Ay := expr_as_matrix None x (geval (Fops O) A env (sym_mv O x) e) in
    mat_vec rho (fst Ay) (map snd x)
    = map snd (geval O A (fun n => map_mv (eval rho) (env n)) (map_mv rho x) e).
  Proof.
    intros Hd Hnd Henv Ay.
    destruct (expr_as_matrix_of_expression rho A e None x env Hd Hnd Henv) as [_ [H2 H3]].
    cbn zeta in H2, H3. subst Ay. rewrite H2. unfold expr_as_matrix. cbn [snd].
    rewrite <- H3. unfold map_mv. rewrite !map_map. reflexivity.
  Qed.
End EvalHom.

(* ================= (b) when is  row . x = p  as POLYNOMIALS ? ================= *)

(* two symbol lists are the same monomial: every symbol has the same exponent *)
Definition same_mono (a b : list nat) : bool :=
  forallb (fun v => Nat.eqb (count_sym v a) (count_sym v b)) (a ++ b).

Lemma same_mono_spec a b : same_mono a b = true <-> (forall v, count_sym v a = count_sym v b).
Proof.
  unfold same_mono. rewrite forallb_forall. split.
  - intros H v. destruct (in_dec Nat.eq_dec v (a ++ b)) as [Hin|Hnin].
    + apply Nat.eqb_eq. apply H. exact Hin.
    + rewrite !count_sym_notin; [reflexivity| |]; intros Hv; apply Hnin; apply in_or_app; [right|left]; exact Hv.
  - intros H v _. apply Nat.eqb_eq. apply H.
Qed.

Lemma same_mono_cong a a' m : (forall v, count_sym v a = count_sym v a') -> same_mono a m = same_mono a' m.
Proof.
  intros H. destruct (same_mono a m) eqn:E1, (same_mono a' m) eqn:E2; try reflexivity.
  - rewrite same_mono_spec in E1. assert (E3 : same_mono a' m = true).
    { apply same_mono_spec. intros v. rewrite <- H. apply E1. } congruence.
  - rewrite same_mono_spec in E2. assert (E3 : same_mono a m = true).
    { apply same_mono_spec. intros v. rewrite H. apply E2. } congruence.
Qed.

Lemma count_sym_remove1_snoc xj vs v :
  In xj vs -> count_sym v (remove1 xj vs ++ [xj]) = count_sym v vs.
Proof.
  intros Hin. rewrite count_sym_app. cbn [count_sym]. induction vs as [|w r IH]; [destruct Hin|].
  cbn [remove1 count_sym]. destruct (Nat.eqb w xj) eqn:E.
  - apply Nat.eqb_eq in E. subst w. lia.
  - destruct Hin as [Hw|Hin]; [subst w; rewrite Nat.eqb_refl in E; discriminate|].
    cbn [count_sym]. specialize (IH Hin). lia.
Qed.

Lemma kone_same_mono xs a b : same_mono a b = true -> kone xs a = kone xs b.
Proof.
  intros H. rewrite same_mono_spec in H. unfold kone. induction xs as [|x xs IH]; [reflexivity|].
  cbn [filter]. rewrite (H x). destruct (Nat.eqb (count_sym x b) 1); cbn [length]; rewrite IH; reflexivity.
Qed.

Section PolyIdentity.
  Variable R : Type.
  Variables (rO rI : R) (radd rmul rsub : R -> R -> R) (ropp : R -> R).
  Hypothesis Rth : ring_theory rO rI radd rmul rsub ropp (@eq R).
  Add Ring Rring3 : Rth.
  Local Notation O := (mkOps R radd rsub rmul ropp rO rI).
  Local Notation "a + b" := (radd a b).
  Local Notation "a * b" := (rmul a b).
  Local Notation "a - b" := (rsub a b).
  Local Notation esum := (esum R rO radd).
  Local Notation nsmul := (nsmul R rO radd).
  Implicit Types (p q : xpoly R) (t : xterm R) (m : list nat).

  (* the coefficient of the monomial m in p: the sum over the terms with that monomial *)
  Definition coef_at m p : R := esum (map (fun t => if same_mono (snd t) m then fst t else rO) p).
  (* equal as polynomials *)
  Definition peq p q : Prop := forall m, coef_at m p = coef_at m q.

  Lemma coef_at_app m p q : coef_at m (p ++ q) = coef_at m p + coef_at m q.
  Proof. unfold coef_at. rewrite map_app. apply (esum_app R rO rI radd rmul rsub ropp Rth). Qed.

  Lemma coef_at_cons m t p : coef_at m (t :: p) = (if same_mono (snd t) m then fst t else rO) + coef_at m p.
  Proof. reflexivity. Qed.

  Lemma nsmul_zero n : nsmul n rO = rO.
  Proof. induction n as [|n IH]; cbn [ExprMatrix.nsmul]; [reflexivity | rewrite IH; ring]. Qed.

  Lemma nsmul_plus n a b : nsmul n (a + b) = nsmul n a + nsmul n b.
  Proof. induction n as [|n IH]; cbn [ExprMatrix.nsmul]; [ring | rewrite IH; ring]. Qed.

  Lemma fmul_app_l p p' q : fmul O (p ++ p') q = fmul O p q ++ fmul O p' q.
  Proof.
    induction p as [|t p IH]; [reflexivity|].
    change ((t :: p) ++ p') with (t :: (p ++ p')).
    rewrite (fmul_cons R rO rI radd rmul rsub ropp t (p ++ p') q), (fmul_cons R rO rI radd rmul rsub ropp t p q).
    rewrite IH, app_assoc. reflexivity.
  Qed.

  (* one term, one column *)
  Lemma col_coef_term m xj t :
    coef_at m (fmul O (coeff_term xj t) (fvar O xj))
    = nsmul (if Nat.eqb (count_sym xj m) 1 then 1 else 0) (if same_mono (snd t) m then fst t else rO).
  Proof.
    unfold coeff_term. destruct (Nat.eqb (count_sym xj (snd t)) 1) eqn:E1.
    - apply Nat.eqb_eq in E1. assert (Hin : In xj (snd t)) by (apply count_sym_In; lia).
      change (fmul O [(fst t, remove1 xj (snd t))] (fvar O xj))
        with [(fst t * rI, remove1 xj (snd t) ++ [xj])].
      rewrite coef_at_cons. cbn [fst snd]. unfold coef_at at 1. cbn [map ExprMatrix.esum].
      rewrite (same_mono_cong (remove1 xj (snd t) ++ [xj]) (snd t) m
                              (fun v => count_sym_remove1_snoc xj (snd t) v Hin)).
      destruct (same_mono (snd t) m) eqn:E2.
      + pose proof (proj1 (same_mono_spec _ _) E2 xj) as Hc. rewrite <- Hc, E1. cbn [Nat.eqb ExprMatrix.nsmul]. ring.
      + rewrite nsmul_zero. ring.
    - change (fmul O [] (fvar O xj)) with (@nil (xterm R)). unfold coef_at. cbn [map ExprMatrix.esum].
      destruct (same_mono (snd t) m) eqn:E2.
      + pose proof (proj1 (same_mono_spec _ _) E2 xj) as Hc. rewrite <- Hc, E1. reflexivity.
      + rewrite nsmul_zero. reflexivity.
  Qed.

  Lemma col_coef m xj p :
    coef_at m (fmul O (coeff_of xj p) (fvar O xj))
    = nsmul (if Nat.eqb (count_sym xj m) 1 then 1 else 0) (coef_at m p).
  Proof.
    induction p as [|t p IH].
    - cbn. rewrite nsmul_zero. reflexivity.
    - rewrite coeff_of_cons, fmul_app_l, coef_at_app, IH, col_coef_term, coef_at_cons, nsmul_plus. reflexivity.
  Qed.

  (* the coefficient of every monomial m in  row . x  is k(m) times its coefficient in p *)
  Theorem row_poly_coef m xs p :
    coef_at m (row_poly O (expr_row xs p) xs) = nsmul (kone xs m) (coef_at m p).
  Proof.
    induction xs as [|a xs IH]; [reflexivity|].
    cbn [expr_row map row_poly]. fold (expr_row xs p). unfold fadd at 1.
    rewrite coef_at_app, IH, col_coef, kone_cons, (nsmul_add R rO rI radd rmul rsub ropp Rth). reflexivity.
  Qed.

  (* no additive torsion: Z, Q, R, every ring of characteristic 0 without torsion *)
  Definition torsion_free : Prop := forall n a, nsmul (S n) a = rO -> a = rO.

  (* (b) the exact characterisation, for ANY polynomial p *)
  Theorem row_identity_iff xs p :
    torsion_free ->
    (peq (row_poly O (expr_row xs p) xs) p <-> (forall m, kone xs m = 1 \/ coef_at m p = rO)).
  Proof.
    intros Htf. unfold peq. split.
    - intros H m. specialize (H m). rewrite row_poly_coef in H.
      destruct (kone xs m) as [|[|k]] eqn:Ek.
      + right. cbn [ExprMatrix.nsmul] in H. symmetry. exact H.
      + left. reflexivity.
      + right. apply (Htf k). cbn [ExprMatrix.nsmul] in H |- *.
        set (c := coef_at m p) in *. set (z := nsmul k c) in *.
        assert (E : c + z = (c + (c + z)) - c) by ring. rewrite E, H. ring.
    - intros H m. rewrite row_poly_coef. destruct (H m) as [Hk|H0].
      + rewrite Hk. apply (nsmul_1 R rO rI radd rmul rsub ropp Rth).
      + rewrite H0. apply nsmul_zero.
  Qed.

  Lemma coef_at_absent m p : existsb (fun t => same_mono (snd t) m) p = false -> coef_at m p = rO.
  Proof.
    induction p as [|t p IH]; cbn [existsb]; intros H; [reflexivity|].
    apply orb_false_iff in H. destruct H as [H1 H2]. rewrite coef_at_cons, H1, (IH H2). ring.
  Qed.

  (* (a) at the level of polynomials (no torsion hypothesis): linear  ->  row . x = p *)
  Theorem row_identity_linear xs p :
    linear_in xs p = true -> NoDup xs -> peq (row_poly O (expr_row xs p) xs) p.
  Proof.
    intros Hl Hnd m. rewrite row_poly_coef.
    destruct (existsb (fun t => same_mono (snd t) m) p) eqn:E.
    - apply existsb_exists in E. destruct E as [t [Ht Hm]].
      rewrite <- (kone_same_mono xs (snd t) m Hm).
      unfold linear_in in Hl. rewrite homog_in_forall in Hl.
      rewrite (kone_linear xs (snd t) Hnd (Hl t Ht)). apply (nsmul_1 R rO rI radd rmul rsub ropp Rth).
    - rewrite (coef_at_absent m p E). apply nsmul_zero.
  Qed.

  (* a single non-zero term violates the identity unless exactly one x has exponent 1 in it *)
  Corollary row_identity_term_refuted xs c vs :
    torsion_free -> c <> rO -> kone xs vs <> 1 -> ~ peq (row_poly O (expr_row xs [(c, vs)]) xs) [(c, vs)].
  Proof.
    intros Htf Hc Hk Hpeq. rewrite (row_identity_iff xs [(c, vs)] Htf) in Hpeq.
    destruct (Hpeq vs) as [H|H]; [exact (Hk H)|].
    apply Hc. rewrite coef_at_cons in H. cbn [fst snd] in H.
    assert (E : same_mono vs vs = true) by (apply same_mono_spec; reflexivity).
    rewrite E in H. rewrite <- H. unfold coef_at. cbn [map ExprMatrix.esum]. ring.
  Qed.
End PolyIdentity.

(* ================= the canonical form used by the correspondence is sound ================= *)
Lemma mono_cmp_eq a b : mono_cmp a b = Eq -> a = b.
Proof.
  revert b. induction a as [|x a IH]; intros [|y b] H; cbn [mono_cmp] in H; try discriminate; [reflexivity|].
  destruct (Nat.compare x y) eqn:E; try discriminate. apply Nat.compare_eq in E. subst y.
  rewrite (IH b H). reflexivity.
Qed.

Section NormSound.
  Variable R : Type.
  Variables (rO rI : R) (radd rmul rsub : R -> R -> R) (ropp : R -> R).
  Hypothesis Rth : ring_theory rO rI radd rmul rsub ropp (@eq R).
  Add Ring Rring4 : Rth.
  Local Notation O := (mkOps R radd rsub rmul ropp rO rI).
  Local Notation "a + b" := (radd a b).
  Local Notation "a * b" := (rmul a b).
  Local Notation eval := (eval R rO rI radd rmul).
  Local Notation eval_term := (eval_term R rI rmul).
  Local Notation eval_syms := (eval_syms R rI rmul).
  Variables (isz : R -> bool) (ceqb : R -> R -> bool).
  Hypothesis isz_sound : forall c, isz c = true -> c = rO.
  Hypothesis ceqb_sound : forall a b, ceqb a b = true -> a = b.
  Implicit Types (p q : xpoly R) (rho : nat -> R).

  Lemma eval_syms_ins rho v vs : eval_syms rho (ins_sym v vs) = rho v * eval_syms rho vs.
  Proof.
    induction vs as [|w r IH]; cbn [ins_sym]; [reflexivity|].
    destruct (Nat.leb v w); [reflexivity|]. cbn [ExprMatrix.eval_syms]. rewrite IH. ring.
  Qed.

  Lemma eval_syms_sort rho vs : eval_syms rho (sort_syms vs) = eval_syms rho vs.
  Proof.
    unfold sort_syms. induction vs as [|v r IH]; cbn [fold_right]; [reflexivity|].
    rewrite eval_syms_ins, IH. reflexivity.
  Qed.

  Lemma eval_ins_term rho t p : eval rho (ins_term O t p) = eval_term rho t + eval rho p.
  Proof.
    induction p as [|u r IH]; cbn [ins_term]; [reflexivity|].
    destruct (mono_cmp (snd t) (snd u)) eqn:E.
    - apply mono_cmp_eq in E. rewrite !(eval_cons R rO rI radd rmul).
      unfold ExprMatrix.eval_term. cbn [fst snd o_add]. rewrite E. ring.
    - reflexivity.
    - rewrite !(eval_cons R rO rI radd rmul), IH. ring.
  Qed.

  Lemma eval_filter_nz rho p : eval rho (filter (fun t => negb (isz (fst t))) p) = eval rho p.
  Proof.
    induction p as [|t p IH]; cbn [filter]; [reflexivity|].
    destruct (isz (fst t)) eqn:E; cbn [negb]; rewrite !(eval_cons R rO rI radd rmul), ?IH; [|reflexivity].
    unfold ExprMatrix.eval_term. rewrite (isz_sound _ E). ring.
  Qed.

  Theorem xnorm_sound rho p : eval rho (xnorm O isz p) = eval rho p.
  Proof.
    unfold xnorm. rewrite eval_filter_nz.
    assert (G : forall acc, eval rho (fold_left (fun acc t => ins_term O (fst t, sort_syms (snd t)) acc) p acc)
                            = eval rho acc + eval rho p).
    { induction p as [|t p IH]; intros acc; cbn [fold_left].
      - rewrite (eval_nil R rO rI radd rmul). ring.
      - rewrite IH, eval_ins_term, (eval_cons R rO rI radd rmul).
        unfold ExprMatrix.eval_term. cbn [fst snd]. rewrite eval_syms_sort. ring. }
    rewrite G, (eval_nil R rO rI radd rmul). ring.
  Qed.

  Lemma list_eqb_xterm rho p q : list_eqb (xterm_eqb ceqb) p q = true -> eval rho p = eval rho q.
  Proof.
    revert q. induction p as [|t p IH]; intros [|u q] H; cbn [list_eqb] in H; try discriminate; [reflexivity|].
    apply andb_prop in H. destruct H as [H1 H2]. unfold xterm_eqb in H1. apply andb_prop in H1.
    destruct H1 as [Hc Hs]. rewrite !(eval_cons R rO rI radd rmul), (IH q H2).
    unfold ExprMatrix.eval_term. rewrite (ceqb_sound _ _ Hc).
    assert (E : snd t = snd u).
    { clear -Hs. revert Hs. generalize (snd u). induction (snd t) as [|a l IHl]; intros [|b m] H; cbn [list_eqb] in H;
        try discriminate; [reflexivity|]. apply andb_prop in H. destruct H as [H1 H2]. apply Nat.eqb_eq in H1.
      subst b. rewrite (IHl m H2). reflexivity. }
    rewrite E. reflexivity.
  Qed.

  (* polynomials the correspondence accepts as equal have the same value at every valuation *)
  Theorem xpoly_equiv_sound rho p q : xpoly_equiv O isz ceqb p q = true -> eval rho p = eval rho q.
  Proof.
    unfold xpoly_equiv. intros H. rewrite <- (xnorm_sound rho p), <- (xnorm_sound rho q).
    apply list_eqb_xterm. exact H.
  Qed.
  Lemma eval_row_poly rho row xs :
    eval rho (row_poly O row xs) = dot R rO rI radd rmul rho row xs.
  Proof.
    revert xs. induction row as [|a row IH]; intros [|xj xs]; try reflexivity.
    cbn [row_poly]. unfold fadd, dot. cbn [combine map ExprMatrix.esum fst snd].
    rewrite (eval_app R rO rI radd rmul rsub ropp Rth), IH.
    rewrite (eval_fmul R rO rI radd rmul rsub ropp Rth), (eval_fvar R rO rI radd rmul rsub ropp Rth).
    reflexivity.
  Qed.

  Lemma list_eqb_equiv_eval rho (l1 l2 : list (xpoly R)) :
    list_eqb (xpoly_equiv O isz ceqb) l1 l2 = true -> map (eval rho) l1 = map (eval rho) l2.
  Proof.
    revert l2. induction l1 as [|a l1 IH]; intros [|b l2] H; cbn [list_eqb] in H; try discriminate; [reflexivity|].
    apply andb_prop in H. destruct H as [H1 H2]. cbn [map].
    rewrite (xpoly_equiv_sound rho a b H1), (IH l2 H2). reflexivity.
  Qed.

  (* what a passing correspondence case (Model.ExprMatrix.eam_check / eam_case) establishes about the matrix A_impl
     returned by the IMPLEMENTATION for a linear y:  A_impl . x = y  at every valuation of the symbols *)
  Theorem row_identity_ok_sound rho xs (ys : list (xpoly R)) (A_impl : list (list (xpoly R))) :
    row_identity_ok O isz ceqb xs ys A_impl = true -> forallb (linear_in xs) ys = true ->
    mat_vec R rO rI radd rmul rho A_impl xs = map (eval rho) ys.
  Proof.
    unfold row_identity_ok. intros H Hl. rewrite Hl in H.
    apply (list_eqb_equiv_eval rho) in H. rewrite <- H. unfold ExprMatrix.mat_vec. rewrite map_map.
    apply map_ext. intros row. symmetry. apply eval_row_poly.
  Qed.

  Theorem eam_check_sound rho xs (ys : list (xpoly R)) (A_impl : list (list (xpoly R))) :
    eam_check O isz ceqb xs ys A_impl = true -> forallb (linear_in xs) ys = true ->
    mat_vec R rO rI radd rmul rho A_impl xs = map (eval rho) ys.
  Proof.
    unfold eam_check. intros H Hl. apply andb_prop in H. destruct H as [_ H].
    apply row_identity_ok_sound; assumption.
  Qed.

  Theorem eam_case_sound rho res_like (x : mv nat) (yfull y_impl : mv (xpoly R)) (A_impl : list (list (xpoly R))) :
    eam_case O isz ceqb res_like x yfull A_impl y_impl = true ->
    forallb (linear_in (map snd x)) (map snd y_impl) = true ->
    keys y_impl = keys (snd (expr_as_matrix res_like x yfull)) /\
    map (eval rho) (map snd y_impl) = map (eval rho) (map snd (snd (expr_as_matrix res_like x yfull))) /\
    mat_vec R rO rI radd rmul rho A_impl (map snd x) = map (eval rho) (map snd y_impl).
  Proof.
    unfold eam_case. intros H Hl. apply andb_prop in H. destruct H as [H H4].
    apply andb_prop in H. destruct H as [H H3]. apply andb_prop in H. destruct H as [H1 H2].
    split; [|split].
    - symmetry. clear -H1. revert H1. generalize (keys (snd (expr_as_matrix res_like x yfull))), (keys y_impl).
      induction l as [|a l IH]; intros [|b m] H; cbn [list_eqb] in H; try discriminate; [reflexivity|].
      apply andb_prop in H. destruct H as [Ha Hm]. apply Z.eqb_eq in Ha. subst b. rewrite (IH m Hm). reflexivity.
    - symmetry. apply list_eqb_equiv_eval. exact H2.
    - apply row_identity_ok_sound; assumption.
  Qed.
End NormSound.

(* the instance the correspondence runs: exact rationals *)
From Coq Require Import QArith Qcanon.
Lemma Qc_eqb_sound a b : Qc_eqb a b = true -> a = b.
Proof. unfold Qc_eqb. intros H. apply Qc_is_canon. apply Qeq_bool_eq. exact H. Qed.
Lemma Qc_isz_sound c : Qc_isz c = true -> c = Q2Qc 0.
Proof. unfold Qc_isz. intros H. apply Qc_is_canon. apply Qeq_bool_eq in H. rewrite H. reflexivity. Qed.

Theorem eam_case_Qc_sound rho res_like (x : mv nat) (yfull y_impl : mv (xpoly Qc)) (A_impl : list (list (xpoly Qc))) :
  eam_case_Qc res_like x yfull A_impl y_impl = true ->
  forallb (linear_in (map snd x)) (map snd y_impl) = true ->
  keys y_impl = keys (snd (expr_as_matrix res_like x yfull)) /\
  map (eval Qc (Q2Qc 0) (Q2Qc 1) Qcplus Qcmult rho) (map snd y_impl)
  = map (eval Qc (Q2Qc 0) (Q2Qc 1) Qcplus Qcmult rho) (map snd (snd (expr_as_matrix res_like x yfull))) /\
  mat_vec Qc (Q2Qc 0) (Q2Qc 1) Qcplus Qcmult rho A_impl (map snd x)
  = map (eval Qc (Q2Qc 0) (Q2Qc 1) Qcplus Qcmult rho) (map snd y_impl).
Proof.
  apply (eam_case_sound Qc (Q2Qc 0) (Q2Qc 1) Qcplus Qcmult Qcminus Qcopp Qcrt Qc_isz Qc_eqb
                        Qc_isz_sound Qc_eqb_sound).
Qed.

(* ================= closed examples (non-vacuity), over Z ================= *)
Section ExamplesExprMatrix.
  Local Open Scope Z_scope.
  Local Notation Zth := InitialRing.Zth.
  Local Notation evalZ := (eval Z 0 1 Z.add Z.mul).
  Local Notation mat_vecZ := (mat_vec Z 0 1 Z.add Z.mul).
  Local Notation peqZ := (peq Z 0 Z.add).

  Lemma nsmul_Z n a : nsmul Z 0 Z.add n a = Z.of_nat n * a.
  Proof. induction n as [|n IH]; [reflexivity|]. cbn [nsmul]. rewrite IH. lia. Qed.

  Lemma torsion_free_Z : torsion_free Z 0 Z.add.
  Proof. intros n a H. rewrite nsmul_Z in H. nia. Qed.

  (* symbols: R1 R2 = 0 1, x1 x2 = 10 11.   y = (R1*x1 + R2*x2, R1*x2 - R2*x1)  =  (R | x, R ^ x) in 2-D *)
  Definition ex_xs : list nat := [10; 11]%nat.
  Definition ex_y : list (xpoly Z) :=
    [ [(1, [0; 10]%nat); (1, [1; 11]%nat)]; [(1, [0; 11]%nat); (-1, [1; 10]%nat)] ].

  Example ex_matrix :
    expr_matrix ex_xs ex_y = [ [ [(1, [0]%nat)]; [(1, [1]%nat)] ]; [ [(-1, [1]%nat)]; [(1, [0]%nat)] ] ].
  Proof. reflexivity. Qed.

  (* (a): the hypotheses hold and the conclusion is the non-trivial identity, at every valuation *)
  Example ex_linear_hyp : forallb (linear_in ex_xs) ex_y = true /\ NoDup ex_xs.
  Proof. split; [reflexivity|]. apply nodupb_NoDup. reflexivity. Qed.

  Example ex_linear rho :
    mat_vecZ rho (expr_matrix ex_xs ex_y) ex_xs
    = [rho 0%nat * rho 10%nat + rho 1%nat * rho 11%nat; rho 0%nat * rho 11%nat - rho 1%nat * rho 10%nat].
  Proof.
    rewrite (expr_matrix_linear Z 0 1 Z.add Z.mul Z.sub Z.opp Zth rho ex_xs ex_y
               (proj1 ex_linear_hyp) (proj2 ex_linear_hyp)).
    unfold ex_y, eval, eval_term. cbn [map esum eval_syms fst snd]. f_equal; [|f_equal]; ring.
  Qed.

  (* (b): a constant term, x1*x1 and x1*x2 have k = 0, 0, 2: the identity row . x = p FAILS for each ... *)
  Example ex_kone : kone ex_xs [0]%nat = 0%nat /\ kone ex_xs [10; 10]%nat = 0%nat /\ kone ex_xs [10; 11]%nat = 2%nat.
  Proof. repeat split. Qed.

  Example ex_constant_refuted :
    ~ peqZ (row_poly Zops (expr_row ex_xs [(3, [0]%nat)]) ex_xs) [(3, [0]%nat)].
  Proof. apply (row_identity_term_refuted Z 0 1 Z.add Z.mul Z.sub Z.opp Zth); [exact torsion_free_Z | lia | discriminate]. Qed.

  Example ex_quadratic_refuted :
    ~ peqZ (row_poly Zops (expr_row ex_xs [(1, [10; 10]%nat)]) ex_xs) [(1, [10; 10]%nat)].
  Proof. apply (row_identity_term_refuted Z 0 1 Z.add Z.mul Z.sub Z.opp Zth); [exact torsion_free_Z | lia | discriminate]. Qed.

  Example ex_bilinear_refuted :
    ~ peqZ (row_poly Zops (expr_row ex_xs [(1, [10; 11]%nat)]) ex_xs) [(1, [10; 11]%nat)].
  Proof. apply (row_identity_term_refuted Z 0 1 Z.add Z.mul Z.sub Z.opp Zth); [exact torsion_free_Z | lia | discriminate]. Qed.

  (* ... the bilinear term is counted twice: row . x = 2 x1 x2 at every valuation *)
  Example ex_bilinear_twice rho :
    dot Z 0 1 Z.add Z.mul rho (expr_row ex_xs [(1, [10; 11]%nat)]) ex_xs = 2 * (rho 10%nat * rho 11%nat).
  Proof.
    rewrite (dot_expr_row_term Z 0 1 Z.add Z.mul Z.sub Z.opp Zth). unfold eval_term. cbn [eval_syms fst snd].
    change (kone ex_xs [10; 11]%nat) with 2%nat. cbn [nsmul]. ring.
  Qed.

  (* ... while x1*x2*x2 (k = 1) satisfies the identity with an entry that contains x2: "linear" is the identity
     TOGETHER with x-free entries *)
  Example ex_cubic_identity :
    peqZ (row_poly Zops (expr_row ex_xs [(1, [10; 11; 11]%nat)]) ex_xs) [(1, [10; 11; 11]%nat)]
    /\ expr_row ex_xs [(1, [10; 11; 11]%nat)] = [ [(1, [11; 11]%nat)]; [] ]
    /\ linear_in ex_xs [(1, [10; 11; 11]%nat)] = false.
  Proof.
    split; [|split; reflexivity].
    apply (row_identity_iff Z 0 1 Z.add Z.mul Z.sub Z.opp Zth ex_xs _ torsion_free_Z).
    intros m. destruct (same_mono [10; 11; 11]%nat m) eqn:E.
    - left. rewrite <- (kone_same_mono ex_xs _ m E). reflexivity.
    - right. unfold coef_at. cbn [map snd fst esum]. rewrite E. reflexivity.
  Qed.

  (* (c) *)
  Example ex_entries_free :
    Forall (Forall (fun a => free_of ex_xs a = true)) (expr_matrix ex_xs ex_y).
  Proof. apply expr_matrix_entries_free. exact (proj1 ex_linear_hyp). Qed.

  (* (d): y stores the keys 0 and 3; res_like asks for 3, 5 (absent), 0 *)
  Definition ex_ymv : mv (xpoly Z) := combine [0; 3] ex_y.
  Example ex_res_like :
    expr_as_matrix (Some [3; 5; 0]) [(1, 10%nat); (2, 11%nat)] ex_ymv
    = ([ [ [(-1, [1]%nat)]; [(1, [0]%nat)] ]; [ []; [] ]; [ [(1, [0]%nat)]; [(1, [1]%nat)] ] ],
       [ (3, [(1, [0; 11]%nat); (-1, [1; 10]%nat)]); (5, []); (0, [(1, [0; 10]%nat); (1, [1; 11]%nat)]) ]).
  Proof. reflexivity. Qed.

  (* (e): the sandwich R * x * ~R of a symbolic vector x = x1 e1 + x2 e2 + x3 e3 (symbols 10 11 12) by a
     symbolic vector R (symbols 0 1 2) in Cl(3,0): degree 1 in x, 27 unmerged terms per coefficient *)
  Definition ex_A3 : alg := mk_default [1; 1; 1] 1 false.
  Definition ex_sandwich : gexpr := GBin BGp (GBin BGp (GIn 0) GX) (GUn URev (GIn 0)).
  Definition ex_x : mv nat := [(1, 10%nat); (2, 11%nat); (4, 12%nat)].
  Definition ex_env (n : nat) : mv (xpoly Z) := sym_mv Zops [(1, 0%nat); (2, 1%nat); (4, 2%nat)].

  Example ex_sandwich_hyp :
    gdeg ex_sandwich = Some 1%nat /\ NoDup (map snd ex_x) /\
    (forall n, all_coeffs (fun p => free_of (map snd ex_x) p = true) (ex_env n)).
  Proof.
    split; [reflexivity|]. split; [apply nodupb_NoDup; reflexivity|].
    intros n. apply all_coeffs_forallb. reflexivity.
  Qed.

  (* first row of A, merged: (R1^2 - R2^2 - R3^2, 2 R1 R2, 2 R1 R3), the e1 row of the reflection matrix *)
  Example ex_sandwich_row :
    let Ay := expr_as_matrix None ex_x (geval (Fops Zops) ex_A3 ex_env (sym_mv Zops ex_x) ex_sandwich) in
    keys (snd Ay) = [1; 2; 4; 7] /\
    map (xnorm Zops (Z.eqb 0)) (hd [] (fst Ay))
    = [ [(1, [0; 0]%nat); (-1, [1; 1]%nat); (-1, [2; 2]%nat)]; [(2, [0; 1]%nat)]; [(2, [0; 2]%nat)] ].
  Proof. vm_compute. split; reflexivity. Qed.

  (* A(values of R) . (values of x) = the numeric sandwich of the values, for all integer values *)
  Example ex_sandwich_numeric rho :
    let Ay := expr_as_matrix None ex_x (geval (Fops Zops) ex_A3 ex_env (sym_mv Zops ex_x) ex_sandwich) in
    mat_vecZ rho (fst Ay) (map snd ex_x)
    = map snd (geval Zops ex_A3 (fun n => map_mv (evalZ rho) (ex_env n)) (map_mv rho ex_x) ex_sandwich).
  Proof.
    destruct ex_sandwich_hyp as [H1 [H2 H3]].
    exact (expr_as_matrix_numeric Z 0 1 Z.add Z.mul Z.sub Z.opp Zth rho ex_A3 ex_sandwich ex_x ex_env H1 H2 H3).
  Qed.
End ExamplesExprMatrix.
