(* Theory/SlpDiv.v — translation validation of the code kingdon generates for the operators that DIVIDE
   (alg.inv, alg.div; Model/SlpDiv.v).

     (a) dslp_eval_hom, slpq_eval_hom, slpq_dens_hom
                          running a program (with division) commutes with every operation-preserving map of the values
                          that commutes with the division, exceptions included; in particular FRACTION evaluation
                          commutes with every operation-preserving map of the coefficients that preserves the test on
                          denominators (always, for the pure cross-multiplying evaluator: slpq_eval_hom_pure);
     (b) soundness of fraction evaluation w.r.t. python's evaluation in a field-like coefficient structure: a
         commutative ring with an ARBITRARY function dv that is only assumed to satisfy  b <> 0 -> dv a b * b = a,
         and a zero test isz that is true exactly on 0.  The fractions may live in another structure P, read in R through
         an operation-preserving map phi (P = R, phi = id: slpq_sound_id; P = kingdon's polynomials, phi = evaluation at a
         point: the validation theorems).
           slpq_related     python's evaluation (slpf_eval) raises ZeroDivisionError, or raises what the fraction
                            evaluation raises (NameError / ValueError / TypeError), or returns values v with
                            v * den = num  for the fractions (num, den), every den invertible;
           slpq_sound       ... hence, when it returns:  v = dv num den  componentwise;
           slpq_no_zde      if no denominator met on the way (slpq_dens) vanishes, python's evaluation does not raise
                            ZeroDivisionError: it returns exactly when the fraction evaluation does;
     (c) slp_validated_inv, slp_validated_div     (MAIN)  ONE boolean computation on indeterminates
                            (validate_inv / validate_div = true) implies, for EVERY well-formed algebra (d <= 5 is
                            implied by the validation: the closed forms), EVERY operand of the right length over EVERY
                            such coefficient structure: the generated function raises ZeroDivisionError or returns; and
                            whenever it returns and the model (inv_model / div_model of Model/Inverse.v, numeric path)
                            returns, the returned list has one value per output key and the same coefficient as the
                            model's result on EVERY blade; the output keys are pairwise distinct and are exactly the
                            blades whose symbolic numerator is not the zero polynomial, in canonical order.
         slp_validated_inv_returns / _div_returns   a sufficient condition for "returns": no denominator of the symbolic
                            fractions vanishes at the operand;
         slp_validated_inv_wrong_length / _div_wrong_length   operands of another length: ValueError.
     (d) closed examples: the real generated text of the inverse of a vector in Algebra(3), of a rotor in Algebra(2), of
         vector / rotor in Algebra(3) validate; a flipped sign, a denominator with a term missing, a wrong key list do not;
         the theorem applied over the rationals Qc. *)
From Coq Require Import String.
From Coq Require Import List ZArith Bool Arith Lia Ring_theory Ring QArith Qcanon.
From KV Require Import Model.All Model.Composite Model.Graded Model.Poly Model.Slp Model.Inverse Model.SlpDiv.
From KV Require Import Theory.WF Theory.Sparse Theory.Ops Theory.OpsWF Theory.Algebra Theory.Poly Theory.Natural Theory.Call
  Theory.Slp Theory.Inverse.
Import ListNotations.
Local Open Scope Z_scope.

(* ---------------------------------------------------------------- (a) naturality of running a program *)

Section DHom.
  Context {V W : Type} (OV : ops V) (OW : ops W) (h : V -> W) (injV : Z -> V) (injW : Z -> W).
  Context (dvdV : V -> V -> res V) (dvdW : W -> W -> res W).
  Hypothesis Hh : ops_hom OV OW h.
  Hypothesis Hinj : forall z, h (injV z) = injW z.
  Hypothesis Hdvd : forall x y, dvdW (h x) (h y) = map_res h (dvdV x y).
  Local Notation me := (map_env h).

  Lemma dexp_eval_hom rho e : dexp_eval OW injW dvdW (me rho) e = map_res h (dexp_eval OV injV dvdV rho e).
  Proof.
    induction e as [v|z|a IHa b IHb|a IHa b IHb|a IHa b IHb|a IHa|a IHa n|a IHa b IHb]; cbn [dexp_eval].
    - rewrite slookup_map_env. destruct (slookup v rho); reflexivity.
    - cbn [map_res]. rewrite Hinj. reflexivity.
    - rewrite IHa, IHb. destruct (dexp_eval OV injV dvdV rho a); cbn [bind map_res]; [|reflexivity].
      destruct (dexp_eval OV injV dvdV rho b); cbn [bind map_res]; [|reflexivity]. rewrite (hom_add _ _ _ Hh). reflexivity.
    - rewrite IHa, IHb. destruct (dexp_eval OV injV dvdV rho a); cbn [bind map_res]; [|reflexivity].
      destruct (dexp_eval OV injV dvdV rho b); cbn [bind map_res]; [|reflexivity]. rewrite (hom_sub _ _ _ Hh). reflexivity.
    - rewrite IHa, IHb. destruct (dexp_eval OV injV dvdV rho a); cbn [bind map_res]; [|reflexivity].
      destruct (dexp_eval OV injV dvdV rho b); cbn [bind map_res]; [|reflexivity]. rewrite (hom_mul _ _ _ Hh). reflexivity.
    - rewrite IHa. destruct (dexp_eval OV injV dvdV rho a); cbn [bind map_res]; [|reflexivity].
      rewrite (hom_neg _ _ _ Hh). reflexivity.
    - rewrite IHa. destruct (dexp_eval OV injV dvdV rho a); cbn [bind map_res]; [|reflexivity].
      rewrite (pow_nat_hom OV OW h Hh). reflexivity.
    - rewrite IHa, IHb. destruct (dexp_eval OV injV dvdV rho a); cbn [bind map_res]; [|reflexivity].
      destruct (dexp_eval OV injV dvdV rho b); cbn [bind map_res]; [|reflexivity]. apply Hdvd.
  Qed.

  Lemma drun_lets_hom lets : forall rho,
    drun_lets OW injW dvdW (me rho) lets = map_res me (drun_lets OV injV dvdV rho lets).
  Proof.
    induction lets as [|[v e] r IH]; intros rho; cbn [drun_lets map_res]; [reflexivity|].
    rewrite dexp_eval_hom. destruct (dexp_eval OV injV dvdV rho e) as [x|er]; cbn [map_res bind]; [|reflexivity].
    apply (IH ((v, x) :: rho)).
  Qed.

  Lemma dres_mapM_hom rho es :
    res_mapM (dexp_eval OW injW dvdW (me rho)) es = map_res (map h) (res_mapM (dexp_eval OV injV dvdV rho) es).
  Proof.
    induction es as [|e es IH]; cbn [res_mapM map_res map]; [reflexivity|].
    rewrite dexp_eval_hom, IH. destruct (dexp_eval OV injV dvdV rho e); cbn [map_res bind]; [|reflexivity].
    destruct (res_mapM (dexp_eval OV injV dvdV rho) es); reflexivity.
  Qed.

  Theorem dslp_eval_hom p args :
    dslp_eval OW injW dvdW p (map (map h) args) = map_res (map h) (dslp_eval OV injV dvdV p args).
  Proof.
    unfold dslp_eval. change (@nil (string * W)) with (me []). rewrite bind_args_hom.
    destruct (bind_args [] (d_unpack p) args) as [rho|e]; cbn [map_res bind]; [|reflexivity].
    rewrite drun_lets_hom. destruct (drun_lets OV injV dvdV rho (d_lets p)) as [rho'|e]; cbn [map_res bind]; [|reflexivity].
    apply dres_mapM_hom.
  Qed.

  (* ... and so does the trace of all intermediate values *)
  Lemma ok_list_hom (r : res V) : ok_list (map_res h r) = map h (ok_list r).
  Proof. destruct r; reflexivity. Qed.

  Lemma dexp_trace_hom rho e : dexp_trace OW injW dvdW (me rho) e = map h (dexp_trace OV injV dvdV rho e).
  Proof.
    induction e as [v|z|a IHa b IHb|a IHa b IHb|a IHa b IHb|a IHa|a IHa n|a IHa b IHb];
      cbn [dexp_trace]; rewrite !map_app, ?IHa, ?IHb, dexp_eval_hom, ok_list_hom; reflexivity.
  Qed.

  Lemma dlets_trace_hom lets : forall rho,
    dlets_trace OW injW dvdW (me rho) lets = map h (dlets_trace OV injV dvdV rho lets).
  Proof.
    induction lets as [|[v e] r IH]; intros rho; cbn [dlets_trace map]; [reflexivity|].
    rewrite map_app, dexp_trace_hom, dexp_eval_hom. f_equal.
    destruct (dexp_eval OV injV dvdV rho e) as [x|er]; cbn [map_res map]; [|reflexivity]. apply (IH ((v, x) :: rho)).
  Qed.

  Theorem dslp_trace_hom p args :
    dslp_trace OW injW dvdW p (map (map h) args) = map h (dslp_trace OV injV dvdV p args).
  Proof.
    unfold dslp_trace. change (@nil (string * W)) with (me []). rewrite bind_args_hom.
    destruct (bind_args [] (d_unpack p) args) as [rho|e]; cbn [map_res map]; [|reflexivity].
    rewrite map_app, dlets_trace_hom, drun_lets_hom. f_equal.
    destruct (drun_lets OV injV dvdV rho (d_lets p)) as [rho'|e]; cbn [map_res map]; [|reflexivity].
    induction (d_ret p) as [|e es IH]; cbn [flat_map map]; [reflexivity|].
    rewrite map_app, dexp_trace_hom, IH. reflexivity.
  Qed.
End DHom.

(* fractions: a map of the coefficients acts on numerator and denominator *)
Definition fmap {R S} (h : R -> S) (f : R * R) : S * S := (h (fst f), h (snd f)).

Section QHom.
  Context {R S : Type} (OR : ops R) (OS : ops S) (h : R -> S) (injR : Z -> R) (injS : Z -> S).
  Context (deqR : R -> R -> bool) (deqS : S -> S -> bool).
  Hypothesis Hh : ops_hom OR OS h.
  Hypothesis Hinj : forall z, h (injR z) = injS z.
  Hypothesis Hdeq : forall a b, deqS (h a) (h b) = deqR a b.

  Lemma fmap_hom : ops_hom (FracOps OR deqR) (FracOps OS deqS) (fmap h).
  Proof.
    constructor; cbn [FracOps o_zero o_one o_add o_sub o_mul o_neg]; unfold fmap, frac_of, fr_add, fr_sub, fr_mul, fr_neg;
      cbn [fst snd]; intros.
    - rewrite (hom_zero _ _ _ Hh), (hom_one _ _ _ Hh). reflexivity.
    - rewrite (hom_one _ _ _ Hh). reflexivity.
    - rewrite Hdeq. destruct (deqR (snd a) (snd b)); cbn [fst snd];
        rewrite ?(hom_add _ _ _ Hh), ?(hom_mul _ _ _ Hh); reflexivity.
    - rewrite Hdeq. destruct (deqR (snd a) (snd b)); cbn [fst snd];
        rewrite ?(hom_sub _ _ _ Hh), ?(hom_mul _ _ _ Hh); reflexivity.
    - rewrite !(hom_mul _ _ _ Hh). reflexivity.
    - rewrite (hom_neg _ _ _ Hh). reflexivity.
  Qed.

  Lemma fmap_frac_of x : fmap h (frac_of OR x) = frac_of OS (h x).
  Proof. unfold fmap, frac_of. cbn [fst snd]. rewrite (hom_one _ _ _ Hh). reflexivity. Qed.

  Lemma fmap_div x y : fr_div OS (fmap h x) (fmap h y) = map_res (fmap h) (fr_div OR x y).
  Proof.
    unfold fr_div, fr_mul, fr_swap, fmap. cbn [map_res fst snd]. rewrite !(hom_mul _ _ _ Hh). reflexivity.
  Qed.

  Lemma map_frac_args (args : list (list R)) :
    map (map (frac_of OS)) (map (map h) args) = map (map (fmap h)) (map (map (frac_of OR)) args).
  Proof.
    rewrite !map_map. apply map_ext. intros l. rewrite !map_map. apply map_ext. intros x. symmetry. apply fmap_frac_of.
  Qed.

  (* fraction evaluation commutes with every operation-preserving map (that preserves the test on denominators) *)
  Theorem slpq_eval_hom p args :
    slpq_eval OS deqS injS p (map (map h) args) = map_res (map (fmap h)) (slpq_eval OR deqR injR p args).
  Proof.
    unfold slpq_eval. rewrite map_frac_args.
    apply (dslp_eval_hom (FracOps OR deqR) (FracOps OS deqS) (fmap h) (fun z => frac_of OR (injR z)) (fun z => frac_of OS (injS z))
             (fr_div OR) (fr_div OS) fmap_hom).
    - intros z. rewrite fmap_frac_of, Hinj. reflexivity.
    - apply fmap_div.
  Qed.

  Theorem slpq_dens_hom p args :
    slpq_dens OS deqS injS p (map (map h) args) = map h (slpq_dens OR deqR injR p args).
  Proof.
    unfold slpq_dens. rewrite map_frac_args.
    rewrite (dslp_trace_hom (FracOps OR deqR) (FracOps OS deqS) (fmap h) (fun z => frac_of OR (injR z)) (fun z => frac_of OS (injS z))
               (fr_div OR) (fr_div OS) fmap_hom).
    - rewrite !map_map. reflexivity.
    - intros z. rewrite fmap_frac_of, Hinj. reflexivity.
    - apply fmap_div.
  Qed.
End QHom.

(* the pure cross-multiplying evaluator: every operation-preserving map *)
Theorem slpq_eval_hom_pure {R S} (OR : ops R) (OS : ops S) (h : R -> S) injR injS :
  ops_hom OR OS h -> (forall z, h (injR z) = injS z) -> forall p args,
  slpq_eval OS no_deq injS p (map (map h) args) = map_res (map (fmap h)) (slpq_eval OR no_deq injR p args) /\
  slpq_dens OS no_deq injS p (map (map h) args) = map h (slpq_dens OR no_deq injR p args).
Proof.
  intros Hh Hi p args. split.
  - apply (slpq_eval_hom OR OS h injR injS no_deq no_deq Hh Hi). reflexivity.
  - apply (slpq_dens_hom OR OS h injR injS no_deq no_deq Hh Hi). reflexivity.
Qed.

(* ---------------------------------------------------------------- (b) fractions describe python's evaluation *)

(* r raises ZeroDivisionError, or what s raises, or returns a value related to the value s returns *)
Definition rel_res {X Y} (Q : X -> Y -> Prop) (r : res X) (s : res Y) : Prop :=
  match r with
  | Ok v => exists f, s = Ok f /\ Q v f
  | Err e => e = EZeroDiv \/ s = Err e
  end.

Lemma rel_res_bind {X Y X' Y'} (Q : X -> Y -> Prop) (Q' : X' -> Y' -> Prop) r s (k : X -> res X') (k' : Y -> res Y') :
  rel_res Q r s -> (forall v f, Q v f -> rel_res Q' (k v) (k' f)) -> rel_res Q' (bind r k) (bind s k').
Proof.
  intros H Hk. destruct r as [v|e]; cbn [rel_res bind] in *.
  - destruct H as [f [-> Hq]]. cbn [bind]. apply Hk. exact Hq.
  - destruct H as [->| ->]; [left; reflexivity | right; reflexivity].
Qed.

Lemma Forall2_rev' {X Y} (Q : X -> Y -> Prop) l l' : Forall2 Q l l' -> Forall2 Q (rev l) (rev l').
Proof.
  induction 1 as [|x y l l' Hxy _ IH]; cbn [rev]; [constructor|]. apply Forall2_app; [exact IH | constructor; [exact Hxy | constructor]].
Qed.

Lemma bind_args_no_zde {V} unp : forall (rho : list (string * V)) args, bind_args rho unp args <> Err EZeroDiv.
Proof.
  induction unp as [|ns u IH]; intros rho [|a l]; cbn [bind_args]; try discriminate.
  unfold bind_unpack. destruct (Nat.eqb _ _); cbn [bind]; [apply IH | discriminate].
Qed.

Section Sound.
  Variable R : Type.
  Variables (rO rI : R) (radd rmul rsub : R -> R -> R) (ropp : R -> R).
  Hypothesis Rth : ring_theory rO rI radd rmul rsub ropp (@eq R).
  Add Ring RringSD : Rth.
  Local Notation O := (mkOps R radd rsub rmul ropp rO rI).
  Local Notation "a + b" := (radd a b) : kvr_scope.
  Local Notation "a * b" := (rmul a b) : kvr_scope.
  Local Notation "a - b" := (rsub a b) : kvr_scope.
  Local Notation "- a" := (ropp a) : kvr_scope.
  Delimit Scope kvr_scope with r.

  (* python's `/` on coefficients and their truth value: ARBITRARY functions, assumed only to be a division by non-zero
     elements and an exact zero test (hypotheses below, used only where stated) *)
  Variable dv : R -> R -> R.
  Variable isz : R -> bool.
  Definition dv_ok : Prop := forall a b, b <> rO -> (dv a b * b)%r = a.
  Definition isz_ok : Prop := forall r, isz r = true <-> r = rO.

  (* the fractions live in P and are read in R through phi *)
  Context {P : Type} (OP : ops P) (deq : P -> P -> bool) (injP : Z -> P) (injR : Z -> R) (phi : P -> R).
  Hypothesis Hphi : ops_hom OP O phi.
  Hypothesis Hinj : forall z, phi (injP z) = injR z.
  Hypothesis Hdeq : forall a b, deq a b = true -> phi a = phi b.

  Local Notation QO := (FracOps OP deq).
  Local Notation injQ := (fun z => frac_of OP (injP z)).
  Local Notation evF := (dexp_eval O injR (fdiv dv isz)).
  Local Notation evQ := (dexp_eval QO injQ (fr_div OP)).

  Definition unit (u : R) : Prop := exists w, (w * u)%r = rI.
  (* the value v is the fraction f: v * den = num, den invertible *)
  Definition frel (v : R) (f : P * P) : Prop := (v * phi (snd f))%r = phi (fst f) /\ unit (phi (snd f)).

  Lemma unit_one : unit rI.
  Proof. exists rI. ring. Qed.
  Lemma unit_mul a b : unit a -> unit b -> unit (a * b)%r.
  Proof. intros [u Hu] [w Hw]. exists (u * w)%r. transitivity ((u * a) * (w * b))%r; [ring|]. rewrite Hu, Hw. ring. Qed.
  Lemma unit_cancel d a b : unit d -> (a * d)%r = (b * d)%r -> a = b.
  Proof.
    intros [w Hw] H. transitivity (a * (w * d))%r; [rewrite Hw; ring|].
    transitivity (w * (a * d))%r; [ring|]. rewrite H. transitivity (b * (w * d))%r; [ring|]. rewrite Hw. ring.
  Qed.
  Lemma unit_pow a n : unit a -> unit (pow_nat O a n).
  Proof. intros Ha. induction n as [|n IH]; cbn [pow_nat o_one o_mul]; [apply unit_one | apply unit_mul; assumption]. Qed.

  Lemma frel_of x : frel (phi x) (frac_of OP x).
  Proof. unfold frel, frac_of. cbn [fst snd]. rewrite (hom_one _ _ _ Hphi). cbn [o_one]. split; [ring | apply unit_one]. Qed.

  Lemma frel_add v w f g : frel v f -> frel w g -> frel (v + w)%r (fr_add OP deq f g).
  Proof.
    intros [H1 U1] [H2 U2]. unfold frel, fr_add. destruct (deq (snd f) (snd g)) eqn:E; cbn [fst snd].
    - apply Hdeq in E. rewrite (hom_add _ _ _ Hphi). cbn [o_add]. split; [|exact U1].
      rewrite <- H1, <- H2, E. ring.
    - rewrite (hom_add _ _ _ Hphi), !(hom_mul _ _ _ Hphi). cbn [o_add o_mul]. split; [|apply unit_mul; assumption].
      rewrite <- H1, <- H2. ring.
  Qed.
  Lemma frel_sub v w f g : frel v f -> frel w g -> frel (v - w)%r (fr_sub OP deq f g).
  Proof.
    intros [H1 U1] [H2 U2]. unfold frel, fr_sub. destruct (deq (snd f) (snd g)) eqn:E; cbn [fst snd].
    - apply Hdeq in E. rewrite (hom_sub _ _ _ Hphi). cbn [o_sub]. split; [|exact U1].
      rewrite <- H1, <- H2, E. ring.
    - rewrite (hom_sub _ _ _ Hphi), !(hom_mul _ _ _ Hphi). cbn [o_sub o_mul]. split; [|apply unit_mul; assumption].
      rewrite <- H1, <- H2. ring.
  Qed.
  Lemma frel_mul v w f g : frel v f -> frel w g -> frel (v * w)%r (fr_mul OP f g).
  Proof.
    intros [H1 U1] [H2 U2]. unfold frel, fr_mul. cbn [fst snd]. rewrite !(hom_mul _ _ _ Hphi). cbn [o_mul].
    split; [|apply unit_mul; assumption]. rewrite <- H1, <- H2. ring.
  Qed.
  Lemma frel_neg v f : frel v f -> frel (- v)%r (fr_neg OP f).
  Proof.
    intros [H1 U1]. unfold frel, fr_neg. cbn [fst snd]. rewrite (hom_neg _ _ _ Hphi). cbn [o_neg].
    split; [|exact U1]. rewrite <- H1. ring.
  Qed.
  Lemma frel_pow v f n : frel v f -> frel (pow_nat O v n) (pow_nat QO f n).
  Proof.
    intros H. induction n as [|n IH]; cbn [pow_nat].
    - cbn [FracOps o_one]. pose proof (frel_of (o_one OP)) as H1. rewrite (hom_one _ _ _ Hphi) in H1. exact H1.
    - apply (frel_mul _ _ _ _ H IH).
  Qed.

  Hypothesis Hdv : dv_ok.
  Hypothesis Hisz : isz_ok.

  Lemma nonzero_unit b : b <> rO -> unit b.
  Proof. intros Hb. exists (dv rI b). apply Hdv. exact Hb. Qed.

  Lemma frel_div v w f g : frel v f -> frel w g -> w <> rO -> frel (dv v w) (fr_mul OP f (fr_swap g)).
  Proof.
    intros [H1 U1] [H2 U2] Hw. unfold frel, fr_mul, fr_swap. cbn [fst snd]. rewrite !(hom_mul _ _ _ Hphi). cbn [o_mul].
    assert (Hn : unit (phi (fst g))).
    { rewrite <- H2. apply unit_mul; [apply nonzero_unit; exact Hw | exact U2]. }
    split; [|apply unit_mul; assumption].
    rewrite <- H1, <- H2. pose proof (Hdv v w Hw) as E. rewrite <- E at 2. ring.
  Qed.

  (* a value that satisfies v * den = num with an invertible den IS dv num den *)
  Lemma frel_value v f : frel v f -> v = dv (phi (fst f)) (phi (snd f)).
  Proof.
    intros [H U]. destruct (isz (phi (snd f))) eqn:E.
    - apply Hisz in E. destruct U as [w Hw]. rewrite E in Hw.
      assert (H01 : rI = rO) by (rewrite <- Hw; ring).
      transitivity (v * rI)%r; [ring|]. rewrite H01. transitivity rO; [ring|].
      transitivity (dv (phi (fst f)) (phi (snd f)) * rO)%r; [ring|]. rewrite <- H01. ring.
    - assert (Hne : phi (snd f) <> rO) by (intros Hz; apply Hisz in Hz; congruence).
      apply (unit_cancel (phi (snd f))); [exact U|]. rewrite H. symmetry. apply Hdv. exact Hne.
  Qed.

  Definition env_rel (rhoF : list (string * R)) (rhoQ : list (string * (P * P))) : Prop :=
    Forall2 (fun a b => fst a = fst b /\ frel (snd a) (snd b)) rhoF rhoQ.

  Lemma slookup_rel v rhoF rhoQ : env_rel rhoF rhoQ ->
    rel_res frel (of_opt EOther (slookup v rhoF)) (of_opt EOther (slookup v rhoQ)).
  Proof.
    induction 1 as [|[a x] [b f] rF rQ [Hn Hf] _ IH]; cbn [slookup of_opt rel_res]; [right; reflexivity|].
    cbn [fst snd] in *. subst b. destruct (String.eqb a v); [|exact IH].
    cbn [of_opt rel_res]. exists f. split; [reflexivity | exact Hf].
  Qed.

  Lemma dexp_rel rhoF rhoQ e : env_rel rhoF rhoQ -> rel_res frel (evF rhoF e) (evQ rhoQ e).
  Proof.
    intros He. induction e as [v|z|a IHa b IHb|a IHa b IHb|a IHa b IHb|a IHa|a IHa n|a IHa b IHb]; cbn [dexp_eval].
    - apply slookup_rel. exact He.
    - cbn [rel_res]. eexists. split; [reflexivity|]. rewrite <- Hinj. apply frel_of.
    - apply (rel_res_bind frel frel _ _ _ _ IHa). intros x f Hx.
      apply (rel_res_bind frel frel _ _ _ _ IHb). intros y g Hy.
      cbn [rel_res]. eexists. split; [reflexivity|]. apply frel_add; assumption.
    - apply (rel_res_bind frel frel _ _ _ _ IHa). intros x f Hx.
      apply (rel_res_bind frel frel _ _ _ _ IHb). intros y g Hy.
      cbn [rel_res]. eexists. split; [reflexivity|]. apply frel_sub; assumption.
    - apply (rel_res_bind frel frel _ _ _ _ IHa). intros x f Hx.
      apply (rel_res_bind frel frel _ _ _ _ IHb). intros y g Hy.
      cbn [rel_res]. eexists. split; [reflexivity|]. apply frel_mul; assumption.
    - apply (rel_res_bind frel frel _ _ _ _ IHa). intros x f Hx.
      cbn [rel_res]. eexists. split; [reflexivity|]. apply frel_neg; assumption.
    - apply (rel_res_bind frel frel _ _ _ _ IHa). intros x f Hx.
      cbn [rel_res]. eexists. split; [reflexivity|]. apply frel_pow; assumption.
    - apply (rel_res_bind frel frel _ _ _ _ IHa). intros x f Hx.
      apply (rel_res_bind frel frel _ _ _ _ IHb). intros y g Hy.
      unfold fdiv, fr_div. destruct (isz y) eqn:E; cbn [rel_res]; [left; reflexivity|].
      eexists. split; [reflexivity|]. apply frel_div; try assumption.
      intros Hz. apply Hisz in Hz. congruence.
  Qed.

  Lemma drun_lets_rel lets : forall rhoF rhoQ, env_rel rhoF rhoQ ->
    rel_res env_rel (drun_lets O injR (fdiv dv isz) rhoF lets) (drun_lets QO injQ (fr_div OP) rhoQ lets).
  Proof.
    induction lets as [|[v e] r IH]; intros rhoF rhoQ He; cbn [drun_lets].
    - cbn [rel_res]. exists rhoQ. split; [reflexivity | exact He].
    - apply (rel_res_bind frel env_rel _ _ _ _ (dexp_rel rhoF rhoQ e He)). intros x f Hx.
      apply IH. constructor; [split; [reflexivity | exact Hx] | exact He].
  Qed.

  Lemma dres_mapM_rel rhoF rhoQ es : env_rel rhoF rhoQ ->
    rel_res (Forall2 frel) (res_mapM (evF rhoF) es) (res_mapM (evQ rhoQ) es).
  Proof.
    intros He. induction es as [|e es IH]; cbn [res_mapM].
    - cbn [rel_res]. exists []. split; [reflexivity | constructor].
    - apply (rel_res_bind frel (Forall2 frel) _ _ _ _ (dexp_rel rhoF rhoQ e He)). intros x f Hx.
      apply (rel_res_bind (Forall2 frel) (Forall2 frel) _ _ _ _ IH). intros xs fs Hxs.
      cbn [rel_res]. eexists. split; [reflexivity|]. constructor; assumption.
  Qed.

  Lemma bind_unpack_rel rhoF rhoQ ns (vals : list P) : env_rel rhoF rhoQ ->
    rel_res env_rel (bind_unpack rhoF ns (map phi vals)) (bind_unpack rhoQ ns (map (frac_of OP) vals)).
  Proof.
    intros He. unfold bind_unpack. rewrite !map_length.
    destruct (Nat.eqb (List.length ns) (List.length vals)); cbn [rel_res]; [|right; reflexivity].
    eexists. split; [reflexivity|]. apply Forall2_app; [|exact He]. apply Forall2_rev'.
    revert vals. induction ns as [|n ns IH]; intros [|x vals]; cbn [combine map]; try constructor.
    - cbn [fst snd]. split; [reflexivity | apply frel_of].
    - apply IH.
  Qed.

  Lemma bind_args_rel unp : forall rhoF rhoQ (args : list (list P)), env_rel rhoF rhoQ ->
    rel_res env_rel (bind_args rhoF unp (map (map phi) args)) (bind_args rhoQ unp (map (map (frac_of OP)) args)).
  Proof.
    induction unp as [|ns unp IH]; intros rhoF rhoQ [|a args] He; cbn [bind_args map rel_res];
      try (right; reflexivity).
    - exists rhoQ. split; [reflexivity | exact He].
    - apply (rel_res_bind env_rel env_rel _ _ _ _ (bind_unpack_rel rhoF rhoQ ns a He)). intros r1 r2 Hr.
      apply IH. exact Hr.
  Qed.

  (* python's evaluation raises ZeroDivisionError, or what the fraction evaluation raises, or returns the fractions *)
  Theorem slpq_related p (args : list (list P)) :
    rel_res (Forall2 frel) (slpf_eval O injR dv isz p (map (map phi) args)) (slpq_eval OP deq injP p args).
  Proof.
    unfold slpf_eval, slpq_eval, dslp_eval.
    apply (rel_res_bind env_rel (Forall2 frel) _ _ _ _ (bind_args_rel (d_unpack p) [] [] args (Forall2_nil _))). intros r1 r2 Hr.
    apply (rel_res_bind env_rel (Forall2 frel) _ _ _ _ (drun_lets_rel (d_lets p) r1 r2 Hr)). intros r1' r2' Hr'.
    apply dres_mapM_rel. exact Hr'.
  Qed.

  (* when it returns: the values are dv num den *)
  Theorem slpq_sound p (args : list (list P)) vs : slpf_eval O injR dv isz p (map (map phi) args) = Ok vs ->
    exists fr, slpq_eval OP deq injP p args = Ok fr /\
      Forall2 (fun v f => (v * phi (snd f))%r = phi (fst f) /\ v = dv (phi (fst f)) (phi (snd f))) vs fr.
  Proof.
    intros E. pose proof (slpq_related p args) as H. rewrite E in H. cbn [rel_res] in H. destruct H as [fr [Hq Hf]].
    exists fr. split; [exact Hq|]. clear E Hq. induction Hf as [|v f vs' fr' Hvf _ IH]; constructor; [|exact IH].
    split; [apply Hvf | apply frel_value; exact Hvf].
  Qed.

  (* ---- no vanishing denominator on the way: no ZeroDivisionError ---- *)
  Local Notation nzd := (fun g : P * P => phi (snd g) <> rO).

  Lemma dexp_no_zde rhoF rhoQ e : env_rel rhoF rhoQ -> Forall nzd (dexp_trace QO injQ (fr_div OP) rhoQ e) ->
    evF rhoF e <> Err EZeroDiv.
  Proof.
    intros He. induction e as [v|z|a IHa b IHb|a IHa b IHb|a IHa b IHb|a IHa|a IHa n|a IHa b IHb];
      cbn [dexp_trace dexp_eval]; intros Ht; rewrite ?Forall_app in Ht.
    - destruct (slookup v rhoF); cbn [of_opt]; discriminate.
    - discriminate.
    - destruct Ht as [[Ha Hb] _]. specialize (IHa Ha). specialize (IHb Hb).
      destruct (evF rhoF a) as [x|ea]; cbn [bind]; [|congruence]. destruct (evF rhoF b) as [y|eb]; cbn [bind]; [discriminate | congruence].
    - destruct Ht as [[Ha Hb] _]. specialize (IHa Ha). specialize (IHb Hb).
      destruct (evF rhoF a) as [x|ea]; cbn [bind]; [|congruence]. destruct (evF rhoF b) as [y|eb]; cbn [bind]; [discriminate | congruence].
    - destruct Ht as [[Ha Hb] _]. specialize (IHa Ha). specialize (IHb Hb).
      destruct (evF rhoF a) as [x|ea]; cbn [bind]; [|congruence]. destruct (evF rhoF b) as [y|eb]; cbn [bind]; [discriminate | congruence].
    - destruct Ht as [Ha _]. specialize (IHa Ha). destruct (evF rhoF a) as [x|ea]; cbn [bind]; [discriminate | congruence].
    - destruct Ht as [Ha _]. specialize (IHa Ha). destruct (evF rhoF a) as [x|ea]; cbn [bind]; [discriminate | congruence].
    - destruct Ht as [[Ha Hb] Hr]. specialize (IHa Ha). specialize (IHb Hb).
      pose proof (dexp_rel rhoF rhoQ a He) as Ra. pose proof (dexp_rel rhoF rhoQ b He) as Rb.
      destruct (evF rhoF a) as [x|ea]; cbn [bind]; [|congruence]. destruct (evF rhoF b) as [y|eb]; cbn [bind]; [|congruence].
      cbn [rel_res] in Ra, Rb. destruct Ra as [f [Ef Hf]]. destruct Rb as [g [Eg Hg]].
      rewrite Ef, Eg in Hr. cbn [bind fr_div ok_list] in Hr. inversion Hr as [|? ? Hnz _]; subst.
      unfold fdiv. destruct (isz y) eqn:E; [|discriminate]. exfalso. apply Hisz in E. subst y.
      apply Hnz. unfold fr_mul, fr_swap. cbn [fst snd]. rewrite (hom_mul _ _ _ Hphi). cbn [o_mul].
      destruct Hg as [Hg _]. rewrite <- Hg. ring.
  Qed.

  Lemma drun_lets_no_zde lets : forall rhoF rhoQ, env_rel rhoF rhoQ ->
    Forall nzd (dlets_trace QO injQ (fr_div OP) rhoQ lets) -> drun_lets O injR (fdiv dv isz) rhoF lets <> Err EZeroDiv.
  Proof.
    induction lets as [|[v e] r IH]; intros rhoF rhoQ He; cbn [dlets_trace drun_lets]; [discriminate|].
    rewrite Forall_app. intros [Ht Hr]. pose proof (dexp_no_zde rhoF rhoQ e He Ht) as Hn.
    pose proof (dexp_rel rhoF rhoQ e He) as Re.
    destruct (evF rhoF e) as [x|ee]; cbn [bind]; [|congruence]. cbn [rel_res] in Re. destruct Re as [f [Ef Hf]].
    rewrite Ef in Hr. apply (IH _ ((v, f) :: rhoQ)); [|exact Hr]. constructor; [split; [reflexivity | exact Hf] | exact He].
  Qed.

  Lemma dres_mapM_no_zde rhoF rhoQ es : env_rel rhoF rhoQ ->
    Forall nzd (flat_map (dexp_trace QO injQ (fr_div OP) rhoQ) es) -> res_mapM (evF rhoF) es <> Err EZeroDiv.
  Proof.
    intros He. induction es as [|e es IH]; cbn [flat_map res_mapM]; [discriminate|].
    rewrite Forall_app. intros [Ht Hr]. pose proof (dexp_no_zde rhoF rhoQ e He Ht) as Hn. specialize (IH Hr).
    destruct (evF rhoF e) as [x|ee]; cbn [bind]; [|congruence].
    destruct (res_mapM (evF rhoF) es) as [xs|ee]; cbn [bind]; [discriminate | congruence].
  Qed.

  Theorem slpq_no_zde p (args : list (list P)) :
    Forall (fun d => phi d <> rO) (slpq_dens OP deq injP p args) ->
    slpf_eval O injR dv isz p (map (map phi) args) <> Err EZeroDiv.
  Proof.
    unfold slpq_dens, slpf_eval, dslp_trace, dslp_eval. rewrite Forall_map. intros Ht.
    pose proof (bind_args_rel (d_unpack p) [] [] args (Forall2_nil _)) as Rb.
    destruct (bind_args [] (d_unpack p) (map (map phi) args)) as [r1|e1] eqn:E1; cbn [bind].
    2:{ intros H. inversion H. subst e1. exact (bind_args_no_zde _ _ _ E1). }
    cbn [rel_res] in Rb. destruct Rb as [r2 [E2 Hr]]. rewrite E2 in Ht. rewrite Forall_app in Ht. destruct Ht as [Hl Hrs].
    pose proof (drun_lets_no_zde (d_lets p) r1 r2 Hr Hl) as Hn. pose proof (drun_lets_rel (d_lets p) r1 r2 Hr) as Rl.
    destruct (drun_lets O injR (fdiv dv isz) r1 (d_lets p)) as [r1'|e]; cbn [bind]; [|congruence].
    cbn [rel_res] in Rl. destruct Rl as [r2' [E2' Hr']]. rewrite E2' in Hrs.
    apply (dres_mapM_no_zde r1' r2' _ Hr' Hrs).
  Qed.
End Sound.

(* ---------------------------------------------------------------- (c) validation on indeterminates *)

(* the closed-form generator (numeric path: nothing filtered) is natural *)
Section HitzerNat.
  Context {R S : Type} (OR : ops R) (OS : ops S) (h : R -> S).
  Hypothesis Hh : ops_hom OR OS h.
  Local Notation mh := (map_mv h).

  Lemma cst_hom n : h (cst OR n) = cst OS n.
  Proof.
    induction n as [|n IH]; cbn [cst]; [apply (hom_zero _ _ _ Hh)|].
    destruct n as [|m]; [apply (hom_one _ _ _ Hh)|]. rewrite (hom_add _ _ _ Hh), IH, (hom_one _ _ _ Hh). reflexivity.
  Qed.

  Lemma scalar_mv_hom c : scalar_mv (h c) = mh (scalar_mv c).
  Proof. reflexivity. Qed.

  Definition nd_map (nd : mv R * R) : mv S * S := (mh (fst nd), h (snd nd)).

  Ltac natrw := repeat first
    [ rewrite <- (nat_conjugate OR OS h Hh) | rewrite <- (nat_involute OR OS h Hh) | rewrite <- (nat_reverse OR OS h Hh)
    | rewrite <- (nat_gp OR OS h Hh) | rewrite <- (nat_sub OR OS h Hh) | rewrite <- (nat_sp OR OS h Hh) ].

  Theorem hitzer_nat A x : hitzer OS idF A (mh x) = map_res nd_map (hitzer OR idF A x).
  Proof.
    unfold hitzer, hitzer_num, hitzer_den, e_of, i_mul, i_sub, i_rev, i_conj, i_invo, i_sp, idF, nd_map.
    destruct (a_d A) as [|[|[|[|[|[|n]]]]]]; cbn [bind map_res fst snd]; try reflexivity.
    - assert (Hb : blade_e OS = mh (blade_e OR)).
      { unfold blade_e, map_mv. cbn [map fst snd]. rewrite (hom_one _ _ _ Hh). reflexivity. }
      rewrite Hb. natrw. rewrite (coeff_map_mv OR OS h Hh). reflexivity.
    - natrw. rewrite (coeff_map_mv OR OS h Hh). reflexivity.
    - natrw. rewrite (coeff_map_mv OR OS h Hh). reflexivity.
    - natrw. rewrite (coeff_map_mv OR OS h Hh). reflexivity.
    - natrw. rewrite <- (nat_grade_sel OR OS h Hh).
      destruct (grade_sel OR A [3%nat; 4%nat] _) as [g|e]; cbn [map_res bind fst snd]; [|reflexivity].
      rewrite <- (cst_hom 2), scalar_mv_hom. natrw. rewrite (coeff_map_mv OR OS h Hh). reflexivity.
    - natrw. rewrite <- (nat_grade_sel OR OS h Hh).
      destruct (grade_sel OR A [1%nat; 4%nat] _) as [g|e]; cbn [map_res bind fst snd]; [|reflexivity].
      rewrite <- (cst_hom 2), scalar_mv_hom. natrw. rewrite (coeff_map_mv OR OS h Hh). reflexivity.
  Qed.
End HitzerNat.

(* the closed forms exist for d <= 5 only: a successful validation bounds the dimension *)
Lemma hitzer_ok_dim {R} (O : ops R) F A x nd : hitzer O F A x = Ok nd -> Nat.ltb (a_d A) 6 = true.
Proof.
  unfold hitzer, hitzer_num. destruct (a_d A) as [|[|[|[|[|[|n]]]]]]; try reflexivity. cbn [bind]. discriminate.
Qed.

Lemma Forall2_length' {X Y} (Q : X -> Y -> Prop) l l' : Forall2 Q l l' -> List.length l = List.length l'.
Proof. induction 1; cbn [List.length]; congruence. Qed.

Section ValidatedDiv.
  Variable R : Type.
  Variables (R0 R1 : R) (Radd Rmul Rsub : R -> R -> R) (Ropp : R -> R).
  Hypothesis Rth : ring_theory R0 R1 Radd Rmul Rsub Ropp (@eq R).
  Add Ring RringVD : Rth.
  Local Notation O := (mkOps R Radd Rsub Rmul Ropp R0 R1).
  Local Notation zi := (zinj R R0 R1 Radd Rmul Ropp).       (* the image of the python integers *)
  Local Notation pev rho := (peval R R0 R1 Radd Rmul Ropp rho).

  (* python's `/` and truth value on coefficients: arbitrary functions, a division by non-zero elements, an exact zero test *)
  Variable dv : R -> R -> R.
  Variable isz : R -> bool.
  Hypothesis Hdv : forall a b, b <> R0 -> Rmul (dv a b) b = a.
  Hypothesis Hisz : forall r, isz r = true <-> r = R0.

  Local Notation pvh rho := (peval_hom R R0 R1 Radd Rmul Rsub Ropp Rth rho).
  Local Notation pvZ rho := (peval_P_of_Z R R0 R1 Radd Rmul Rsub Ropp Rth rho).
  Local Notation fr rho := (frel R R1 Rmul (pev rho)).
  Local Notation un := (unit R R1 Rmul).

  Lemma poly_eqb_pev rho (a b : poly) : poly_eqb a b = true -> pev rho a = pev rho b.
  Proof. intros H. apply poly_eqb_eq in H. subst b. reflexivity. Qed.

  Lemma coeff_scal c K (x : mv R) : coeff O K (scal Rmul c x) = Rmul c (coeff O K x).
  Proof.
    induction x as [|[k v] r IH]; cbn [scal map coeff fst snd o_zero]; [ring|].
    destruct (Z.eqb k K); [reflexivity | exact IH].
  Qed.

  Lemma zassoc_coeff_rel {Y} (Q : R -> Y -> Prop) kout : forall vs (out : list Y), Forall2 Q vs out ->
    List.length out = List.length kout -> forall K,
    match zassoc K (combine kout out) with
    | Some f => Q (coeff O K (combine kout vs)) f /\ In K kout
    | None => coeff O K (combine kout vs) = R0
    end.
  Proof.
    induction kout as [|k kout IH]; intros vs out Hf Hl K.
    - cbn [combine zassoc coeff o_zero]. reflexivity.
    - destruct Hf as [|v f vs out Hvf Hf]; cbn [List.length] in Hl; [discriminate|]. injection Hl as Hl.
      cbn [combine zassoc coeff]. destruct (Z.eqb k K) eqn:E.
      + apply Z.eqb_eq in E. split; [exact Hvf | left; exact E].
      + specialize (IH vs out Hf Hl K). destruct (zassoc K (combine kout out)); [|exact IH].
        destruct IH as [H1 H2]. split; [exact H1 | right; exact H2].
  Qed.

  (* the cross-multiplied comparison, read at a point: the values that ARE the program's fractions are the model's
     numerator coefficients times the inverse w of the model's denominator, blade by blade *)
  Lemma agree_frac_sound rho kout out num den vs w (r : mv R) :
    agree_frac kout out num den = true ->
    Forall2 (fr rho) vs out ->
    Rmul w (pev rho den) = R1 ->
    (forall K, coeff O K r = Rmul w (coeff O K (map_mv (pev rho) num))) ->
    List.length vs = List.length kout /\ forall K, coeff O K (combine kout vs) = coeff O K r.
  Proof.
    unfold agree_frac. intros Hv Hf Hw Hr.
    apply andb_prop in Hv. destruct Hv as [Hv Hc]. apply andb_prop in Hv. destruct Hv as [Hl _]. apply Nat.eqb_eq in Hl.
    split; [rewrite (Forall2_length' _ _ _ Hf); exact Hl|]. intros K. rewrite Hr, (coeff_map_mv PolyOps O _ (pvh rho)).
    rewrite forallb_forall in Hc. pose proof (zassoc_coeff_rel (fr rho) kout vs out Hf Hl K) as Hz.
    destruct (zassoc K (combine kout out)) as [f|] eqn:Ez.
    - destruct Hz as [[Hvf Hu] Hin]. specialize (Hc K (in_or_app _ _ _ (or_introl Hin))). unfold frac_at in Hc. rewrite Ez in Hc.
      cbv zeta in Hc. apply (peq_sound R R0 R1 Radd Rmul Rsub Ropp Rth rho) in Hc.
      rewrite !(peval_pmul R R0 R1 Radd Rmul Rsub Ropp Rth) in Hc.
      apply (unit_cancel R R0 R1 Radd Rmul Rsub Ropp Rth (pev rho (snd f))); [exact Hu|]. rewrite Hvf.
      set (C := pev rho (coeff PolyOps K num)) in *. set (D := pev rho (snd f)) in *. set (N := pev rho (fst f)) in *.
      transitivity (Rmul w (Rmul C D)); [|ring]. rewrite <- Hc. transitivity (Rmul N (Rmul w (pev rho den))); [|ring].
      rewrite Hw. ring.
    - rewrite Hz. assert (Hz0 : pev rho (coeff PolyOps K num) = R0); [|rewrite Hz0; ring].
      destruct (in_dec Z.eq_dec K (kout ++ keys num)) as [Hin|Hout].
      + specialize (Hc K Hin). unfold frac_at in Hc. rewrite Ez in Hc. cbv zeta in Hc. cbn [fst snd] in Hc.
        apply (peq_sound R R0 R1 Radd Rmul Rsub Ropp Rth rho) in Hc.
        rewrite !(peval_pmul R R0 R1 Radd Rmul Rsub Ropp Rth), !(pvZ rho) in Hc.
        rewrite (zinj_0 R R0 R1 Radd Rmul Rsub Ropp Rth), (zinj_1 R R0 R1 Radd Rmul Rsub Ropp Rth) in Hc.
        transitivity (Rmul (pev rho (coeff PolyOps K num)) R1); [ring|]. rewrite <- Hc. ring.
      + rewrite coeff_absent; [|intros Hk; apply Hout; apply in_or_app; right; exact Hk].
        cbn [PolyOps o_zero]. rewrite (pvZ rho). apply (zinj_0 R R0 R1 Radd Rmul Rsub Ropp Rth).
  Qed.

  Lemma agree_frac_keys kout out num den : agree_frac kout out num den = true -> kout = keys (filter_nz pisz num).
  Proof.
    unfold agree_frac. intros Hv. apply andb_prop in Hv. destruct Hv as [Hv _]. apply andb_prop in Hv. destruct Hv as [_ Hk].
    apply zlist_eqb_eq. exact Hk.
  Qed.

  (* the point at which the indeterminates are read *)
  Local Notation pt xs := (fun i => nth i xs R0).

  (* python's evaluation of a program whose fraction evaluation succeeds raises ZeroDivisionError or returns *)
  Lemma returns_or_zde rho p (args : list (list poly)) out :
    slpq_eval PolyOps poly_eqb P_of_Z p args = Ok out ->
    slpf_eval O zi dv isz p (map (map (pev rho)) args) = Err EZeroDiv \/
    exists vs, slpf_eval O zi dv isz p (map (map (pev rho)) args) = Ok vs /\ Forall2 (fr rho) vs out.
  Proof.
    intros Eq.
    pose proof (slpq_related R R0 R1 Radd Rmul Rsub Ropp Rth dv isz PolyOps poly_eqb P_of_Z zi (pev rho) (pvh rho) (pvZ rho)
                  (poly_eqb_pev rho) Hdv Hisz p args) as H.
    rewrite Eq in H. destruct (slpf_eval O zi dv isz p (map (map (pev rho)) args)) as [vs|e]; cbn [rel_res] in H.
    - right. destruct H as [f [E Hf]]. inversion E; subst f. exists vs. split; [reflexivity | exact Hf].
    - left. destruct H as [->|H]; [reflexivity | discriminate].
  Qed.

  Variable A : alg.
  Hypothesis HA : wf_alg A = true.
  Local Notation SH := (wf_sign_hyps A HA).

  (* what the numeric path of the model returns, in terms of the closed-form numerator / denominator *)
  Lemma inv_model_coeffs y num den r :
    hitzer O idF A y = Ok (num, den) -> inv_model O dv isz idF A y = Ok r ->
    Rmul (dv R1 den) den = R1 /\ forall K, coeff O K r = Rmul (dv R1 den) (coeff O K num).
  Proof.
    intros Eh Er. apply inv_model_ok in Er. destruct Er as (num' & den' & En & Hz & ->).
    pose proof (inv_numden_wf R R0 R1 Radd Rmul Rsub Ropp A SH dv isz idF (filter_ok_id R R0 R1 Radd Rmul Rsub Ropp A) _ _ _ En) as Hwf.
    unfold inv_numden in En. rewrite (hitzer_ok_dim _ _ _ _ _ Eh), Eh in En. inversion En; subst num' den'.
    assert (Hne : den <> R0) by (intros H0; apply Hisz in H0; congruence).
    split; [apply Hdv; exact Hne|]. intros K. unfold i_mul, idF, scalar_mv.
    rewrite (gp_scalar_r_wf R R0 R1 Radd Rmul Rsub Ropp Rth A HA (dv R1 den) num Hwf K). apply coeff_scal.
  Qed.

  Lemma div_model_coeffs x y num den r :
    hitzer O idF A y = Ok (num, den) -> div_model O dv isz idF A x y = Ok r ->
    Rmul (dv R1 den) den = R1 /\ forall K, coeff O K r = Rmul (dv R1 den) (coeff O K (gp O A x num)).
  Proof.
    intros Eh Er. unfold div_model, inv_numden in Er. rewrite (hitzer_ok_dim _ _ _ _ _ Eh), Eh in Er. cbn [bind] in Er.
    cbv beta iota zeta in Er. destruct (isz den) eqn:Hz; [discriminate|]. inversion Er; subst r.
    assert (Hne : den <> R0) by (intros H0; apply Hisz in H0; congruence).
    split; [apply Hdv; exact Hne|]. intros K. unfold i_mul, idF, scalar_mv.
    rewrite (gp_scalar_r_wf R R0 R1 Radd Rmul Rsub Ropp Rth A HA (dv R1 den) (gp O A x num)
               (wfmv_gp R R0 R1 Radd Rmul Rsub Ropp A SH x num) K). apply coeff_scal.
  Qed.

  (* the symbolic numerators store pairwise distinct blades *)
  Lemma inv_symbolic_nodup ky off num den : inv_symbolic A ky off = Ok (num, den) -> NoDup (keys num).
  Proof.
    unfold inv_symbolic. intros Eh.
    assert (En : inv_numden PolyOps (fun a _ => a) pisz idF A (combine ky (indets off (List.length ky))) = Ok (num, den)).
    { unfold inv_numden. rewrite (hitzer_ok_dim _ _ _ _ _ Eh). exact Eh. }
    apply (inv_numden_wf poly (P_of_Z 0) (P_of_Z 1) padd pmul psub pneg A SH _ _ idF
             (filter_ok_id poly (P_of_Z 0) (P_of_Z 1) padd pmul psub pneg A) _ _ _ En).
  Qed.

  (* ================= MAIN THEOREM, alg.inv ================= *)
  Theorem slp_validated_inv ky kout p : validate_inv A ky kout p = true ->
    forall xs, List.length xs = List.length ky ->
    (* the generated function raises ZeroDivisionError or returns *)
    (slpf_eval O zi dv isz p [xs] = Err EZeroDiv \/ exists vs, slpf_eval O zi dv isz p [xs] = Ok vs) /\
    (* whenever it and the model return: one value per output key, the model's coefficient on every blade *)
    (forall vs r, slpf_eval O zi dv isz p [xs] = Ok vs -> inv_model O dv isz idF A (combine ky xs) = Ok r ->
       List.length vs = List.length kout /\ forall K, coeff O K (combine kout vs) = coeff O K r) /\
    (* the output keys: the blades of the symbolic numerator that are not the zero polynomial *)
    NoDup kout /\ exists num den, inv_symbolic A ky 0 = Ok (num, den) /\ kout = keys (filter_nz pisz num).
  Proof.
    intros Hv xs Hx. unfold validate_inv in Hv.
    destruct (inv_symbolic A ky 0) as [[num den]|e] eqn:Es; [|discriminate].
    destruct (slpq_eval PolyOps poly_eqb P_of_Z p [indets 0 (List.length ky)]) as [out|e] eqn:Eq; [|discriminate].
    pose proof (agree_frac_keys _ _ _ _ Hv) as Hk.
    set (rho := pt (xs ++ [])).
    assert (EX : map (pev rho) (indets 0 (List.length ky)) = xs).
    { rewrite <- Hx. unfold rho. rewrite (pev_indets R R0 R1 Radd Rmul Rsub Ropp Rth). apply map_nth_seq0. }
    pose proof (returns_or_zde rho p _ out Eq) as Hr. cbn [map] in Hr. rewrite EX in Hr.
    split; [|split; [|split]].
    - destruct Hr as [Hr|[vs [Hr _]]]; [left; exact Hr | right; exists vs; exact Hr].
    - intros vs r Ev Er. destruct Hr as [Hr|[vs' [Hr Hf]]]; [congruence|]. rewrite Ev in Hr. inversion Hr; subst vs'.
      unfold inv_symbolic in Es.
      pose proof (hitzer_nat PolyOps O (pev rho) (pvh rho) A (combine ky (indets 0 (List.length ky)))) as Hn.
      rewrite Es, combine_map_mv, EX in Hn. cbn [map_res nd_map fst snd] in Hn.
      destruct (inv_model_coeffs _ _ _ _ Hn Er) as [Hw Hc].
      apply (agree_frac_sound rho kout out num den vs (dv R1 (pev rho den)) r Hv Hf Hw Hc).
    - rewrite Hk. apply NoDup_keys_filter_nz. apply (inv_symbolic_nodup _ _ _ _ Es).
    - exists num, den. split; [reflexivity | exact Hk].
  Qed.

  (* ================= MAIN THEOREM, alg.div ================= *)
  Theorem slp_validated_div kx ky kout p : validate_div A kx ky kout p = true ->
    forall xs ys, List.length xs = List.length kx -> List.length ys = List.length ky ->
    (slpf_eval O zi dv isz p [xs; ys] = Err EZeroDiv \/ exists vs, slpf_eval O zi dv isz p [xs; ys] = Ok vs) /\
    (forall vs r, slpf_eval O zi dv isz p [xs; ys] = Ok vs ->
       div_model O dv isz idF A (combine kx xs) (combine ky ys) = Ok r ->
       List.length vs = List.length kout /\ forall K, coeff O K (combine kout vs) = coeff O K r) /\
    NoDup kout /\ exists num den, div_symbolic A kx ky = Ok (num, den) /\ kout = keys (filter_nz pisz num).
  Proof.
    intros Hv xs ys Hx Hy. unfold validate_div in Hv.
    destruct (div_symbolic A kx ky) as [[num' den]|e] eqn:Es; [|discriminate].
    destruct (slpq_eval PolyOps poly_eqb P_of_Z p [indets 0 (List.length kx); indets (List.length kx) (List.length ky)])
      as [out|e] eqn:Eq; [|discriminate].
    pose proof (agree_frac_keys _ _ _ _ Hv) as Hk.
    unfold div_symbolic in Es. destruct (inv_symbolic A ky (List.length kx)) as [[num den']|e] eqn:Ei; [|discriminate].
    cbn [bind] in Es. cbv beta iota zeta in Es. inversion Es; subst num' den'. clear Es.
    set (rho := pt (xs ++ ys)).
    assert (EX : map (pev rho) (indets 0 (List.length kx)) = xs).
    { rewrite <- Hx. unfold rho. rewrite (pev_indets R R0 R1 Radd Rmul Rsub Ropp Rth). apply map_nth_seq0. }
    assert (EY : map (pev rho) (indets (List.length kx) (List.length ky)) = ys).
    { rewrite <- Hx, <- Hy. unfold rho. rewrite (pev_indets R R0 R1 Radd Rmul Rsub Ropp Rth). apply map_nth_seq. }
    pose proof (returns_or_zde rho p _ out Eq) as Hr. cbn [map] in Hr. rewrite EX, EY in Hr.
    split; [|split; [|split]].
    - destruct Hr as [Hr|[vs [Hr _]]]; [left; exact Hr | right; exists vs; exact Hr].
    - intros vs r Ev Er. destruct Hr as [Hr|[vs' [Hr Hf]]]; [congruence|]. rewrite Ev in Hr. inversion Hr; subst vs'.
      unfold inv_symbolic in Ei.
      pose proof (hitzer_nat PolyOps O (pev rho) (pvh rho) A (combine ky (indets (List.length kx) (List.length ky)))) as Hn.
      rewrite Ei, combine_map_mv, EY in Hn. cbn [map_res nd_map fst snd] in Hn.
      destruct (div_model_coeffs (combine kx xs) _ _ _ _ Hn Er) as [Hw Hc].
      apply (agree_frac_sound rho kout out _ den vs (dv R1 (pev rho den)) r Hv Hf Hw).
      intros K. rewrite Hc. rewrite (nat_gp PolyOps O (pev rho) (pvh rho)), combine_map_mv, EX. reflexivity.
    - rewrite Hk. apply NoDup_keys_filter_nz.
      apply (wfmv_gp poly (P_of_Z 0) (P_of_Z 1) padd pmul psub pneg A SH).
    - exists (gp PolyOps A (combine kx (indets 0 (List.length kx))) num), den. split; [reflexivity | exact Hk].
  Qed.
  (* a sufficient condition for "returns": no denominator of the symbolic fractions vanishes at the operand *)
  Theorem slp_validated_inv_returns ky kout p : validate_inv A ky kout p = true ->
    forall xs, List.length xs = List.length ky ->
    Forall (fun q => pev (pt (xs ++ [])) q <> R0) (slpq_dens PolyOps poly_eqb P_of_Z p [indets 0 (List.length ky)]) ->
    exists vs, slpf_eval O zi dv isz p [xs] = Ok vs.
  Proof.
    intros Hv xs Hx Hd. destruct (slp_validated_inv ky kout p Hv xs Hx) as [[Hz|Hr] _]; [|exact Hr]. exfalso.
    set (rho := pt (xs ++ [])) in *.
    assert (EX : map (pev rho) (indets 0 (List.length ky)) = xs).
    { rewrite <- Hx. unfold rho. rewrite (pev_indets R R0 R1 Radd Rmul Rsub Ropp Rth). apply map_nth_seq0. }
    pose proof (slpq_no_zde R R0 R1 Radd Rmul Rsub Ropp Rth dv isz PolyOps poly_eqb P_of_Z zi (pev rho) (pvh rho) (pvZ rho)
                  (poly_eqb_pev rho) Hdv Hisz p _ Hd) as Hn.
    cbn [map] in Hn. rewrite EX in Hn. exact (Hn Hz).
  Qed.

  Theorem slp_validated_div_returns kx ky kout p : validate_div A kx ky kout p = true ->
    forall xs ys, List.length xs = List.length kx -> List.length ys = List.length ky ->
    Forall (fun q => pev (pt (xs ++ ys)) q <> R0)
           (slpq_dens PolyOps poly_eqb P_of_Z p [indets 0 (List.length kx); indets (List.length kx) (List.length ky)]) ->
    exists vs, slpf_eval O zi dv isz p [xs; ys] = Ok vs.
  Proof.
    intros Hv xs ys Hx Hy Hd. destruct (slp_validated_div kx ky kout p Hv xs ys Hx Hy) as [[Hz|Hr] _]; [|exact Hr]. exfalso.
    set (rho := pt (xs ++ ys)) in *.
    assert (EX : map (pev rho) (indets 0 (List.length kx)) = xs).
    { rewrite <- Hx. unfold rho. rewrite (pev_indets R R0 R1 Radd Rmul Rsub Ropp Rth). apply map_nth_seq0. }
    assert (EY : map (pev rho) (indets (List.length kx) (List.length ky)) = ys).
    { rewrite <- Hx, <- Hy. unfold rho. rewrite (pev_indets R R0 R1 Radd Rmul Rsub Ropp Rth). apply map_nth_seq. }
    pose proof (slpq_no_zde R R0 R1 Radd Rmul Rsub Ropp Rth dv isz PolyOps poly_eqb P_of_Z zi (pev rho) (pvh rho) (pvZ rho)
                  (poly_eqb_pev rho) Hdv Hisz p _ Hd) as Hn.
    cbn [map] in Hn. rewrite EX, EY in Hn. exact (Hn Hz).
  Qed.

  (* operands of any other length: the unpacking raises ValueError *)
  Theorem slp_validated_inv_wrong_length ky kout p : validate_inv A ky kout p = true ->
    forall xs, List.length xs <> List.length ky -> slpf_eval O zi dv isz p [xs] = Err EValue.
  Proof.
    intros Hv xs Hl. unfold validate_inv in Hv. destruct (inv_symbolic A ky 0) as [[num den]|e]; [|discriminate].
    destruct (slpq_eval PolyOps poly_eqb P_of_Z p [indets 0 (List.length ky)]) as [out|e] eqn:Eq; [|discriminate].
    unfold slpq_eval, dslp_eval in Eq. unfold slpf_eval, dslp_eval. cbn [map] in Eq.
    destruct (d_unpack p) as [|nx [|ny u]]; cbn [bind_args bind] in *; try discriminate.
    - unfold bind_unpack in *. rewrite map_length, length_indets in Eq.
      destruct (Nat.eqb (List.length nx) (List.length ky)) eqn:E1; cbn [bind] in Eq; [|discriminate].
      apply Nat.eqb_eq in E1. rewrite E1. destruct (Nat.eqb (List.length ky) (List.length xs)) eqn:E2; cbn [bind]; [|reflexivity].
      apply Nat.eqb_eq in E2. congruence.
    - unfold bind_unpack in Eq. destruct (Nat.eqb _ _) in Eq; cbn [bind] in Eq; discriminate.
  Qed.

  Theorem slp_validated_div_wrong_length kx ky kout p : validate_div A kx ky kout p = true ->
    forall xs ys, List.length xs <> List.length kx \/ List.length ys <> List.length ky ->
    slpf_eval O zi dv isz p [xs; ys] = Err EValue.
  Proof.
    intros Hv xs ys Hl. unfold validate_div in Hv. destruct (div_symbolic A kx ky) as [[num den]|e]; [|discriminate].
    destruct (slpq_eval PolyOps poly_eqb P_of_Z p [indets 0 (List.length kx); indets (List.length kx) (List.length ky)])
      as [out|e] eqn:Eq; [|discriminate].
    unfold slpq_eval, dslp_eval in Eq. unfold slpf_eval, dslp_eval. cbn [map] in Eq.
    destruct (d_unpack p) as [|nx [|ny [|nz u]]]; cbn [bind_args bind] in *; try discriminate.
    - unfold bind_unpack in Eq. destruct (Nat.eqb _ _) in Eq; cbn [bind] in Eq; discriminate.
    - unfold bind_unpack at 1 in Eq. rewrite map_length, length_indets in Eq.
      destruct (Nat.eqb (List.length nx) (List.length kx)) eqn:E1; cbn [bind] in Eq; [|discriminate].
      unfold bind_unpack at 1 in Eq. rewrite map_length, length_indets in Eq.
      destruct (Nat.eqb (List.length ny) (List.length ky)) eqn:E2; cbn [bind] in Eq; [|discriminate].
      apply Nat.eqb_eq in E1, E2. unfold bind_unpack at 1. rewrite E1.
      destruct (Nat.eqb (List.length kx) (List.length xs)) eqn:E3; cbn [bind]; [|reflexivity].
      unfold bind_unpack at 1. rewrite E2. destruct (Nat.eqb (List.length ky) (List.length ys)) eqn:E4; cbn [bind]; [|reflexivity].
      apply Nat.eqb_eq in E3, E4. destruct Hl as [Hl|Hl]; exfalso; apply Hl; congruence.
    - unfold bind_unpack at 1 in Eq. destruct (Nat.eqb _ _) in Eq; cbn [bind] in Eq; [|discriminate].
      unfold bind_unpack at 1 in Eq. destruct (Nat.eqb _ _) in Eq; cbn [bind] in Eq; discriminate.
  Qed.
End ValidatedDiv.

(* ---------------------------------------------------------------- (b) as an instance: fractions over R itself *)
Section SoundId.
  Variable R : Type.
  Variables (rO rI : R) (radd rmul rsub : R -> R -> R) (ropp : R -> R).
  Hypothesis Rth : ring_theory rO rI radd rmul rsub ropp (@eq R).
  Local Notation O := (mkOps R radd rsub rmul ropp rO rI).
  Variable dv : R -> R -> R.
  Variable isz : R -> bool.
  Hypothesis Hdv : forall a b, b <> rO -> rmul (dv a b) b = a.
  Hypothesis Hisz : forall r, isz r = true <-> r = rO.
  Variable deq : R -> R -> bool.
  Hypothesis Hdeq : forall a b, deq a b = true -> a = b.
  Variable inj : Z -> R.

  Lemma map_map_id (args : list (list R)) : map (map (fun r : R => r)) args = args.
  Proof. rewrite <- (map_id args) at 2. apply map_ext. intros l. apply map_id. Qed.

  (* if the fraction evaluation returns and no denominator met on the way is zero, python's evaluation returns, and
     returns dv num den componentwise *)
  Theorem slpq_sound_id p args frs : slpq_eval O deq inj p args = Ok frs ->
    Forall (fun d => d <> rO) (slpq_dens O deq inj p args) ->
    exists vs, slpf_eval O inj dv isz p args = Ok vs /\ Forall2 (fun v f => v = dv (fst f) (snd f)) vs frs.
  Proof.
    intros Eq Hd.
    pose proof (slpq_related R rO rI radd rmul rsub ropp Rth dv isz O deq inj inj (fun r => r) (ops_hom_id O) (fun z => eq_refl)
                  Hdeq Hdv Hisz p args) as Hr.
    pose proof (slpq_no_zde R rO rI radd rmul rsub ropp Rth dv isz O deq inj inj (fun r => r) (ops_hom_id O) (fun z => eq_refl)
                  Hdeq Hdv Hisz p args Hd) as Hn.
    rewrite map_map_id in Hr, Hn. rewrite Eq in Hr.
    destruct (slpf_eval O inj dv isz p args) as [vs|e] eqn:Ev; cbn [rel_res] in Hr.
    - destruct (slpq_sound R rO rI radd rmul rsub ropp Rth dv isz O deq inj inj (fun r => r) (ops_hom_id O) (fun z => eq_refl)
                  Hdeq Hdv Hisz p args vs) as [fr' [Eq' Hf]]; [rewrite map_map_id; exact Ev|].
      rewrite Eq in Eq'. inversion Eq'; subst fr'. exists vs. split; [reflexivity|].
      clear -Hf. induction Hf as [|v f vs frs [_ Hvf] _ IH]; constructor; assumption.
    - exfalso. destruct Hr as [->|Hr]; [apply Hn; reflexivity | discriminate].
  Qed.

  (* conversely, whenever python's evaluation returns, it returns the fractions *)
  Theorem slpq_sound_id_returns p args vs : slpf_eval O inj dv isz p args = Ok vs ->
    exists frs, slpq_eval O deq inj p args = Ok frs /\ Forall2 (fun v f => v = dv (fst f) (snd f)) vs frs.
  Proof.
    intros Ev.
    destruct (slpq_sound R rO rI radd rmul rsub ropp Rth dv isz O deq inj inj (fun r => r) (ops_hom_id O) (fun z => eq_refl)
                Hdeq Hdv Hisz p args vs) as [fr' [Eq' Hf]]; [rewrite map_map_id; exact Ev|].
    exists fr'. split; [exact Eq'|]. clear -Hf. induction Hf as [|v f vs frs [_ Hvf] _ IH]; constructor; assumption.
  Qed.
End SoundId.

(* ---------------------------------------------------------------- (d) closed examples (non-vacuity) *)
Local Open Scope string_scope.

Definition ex_A3 : alg := mk_default [1; 1; 1] 1 false.

(* Algebra(3).inv[(1, 2, 4)] as generated today (cse on):
     x0 = a2**2; x1 = a3**2; x2 = a1**2; x3 = 2*x2; d = 1/(a1**4 + a2**4 + a3**4 + 2*x0*x1 + x0*x3 + x1*x3)
     return [a1**3*d + a1*d*x0 + a1*d*x1, a2**3*d + a2*d*x1 + a2*d*x2, a3**3*d + a3*d*x0 + a3*d*x2] *)
Definition ex_inv3_lets (den : dexp) : list (string * dexp) :=
  [("x0", DPow (DVar "a2") 2); ("x1", DPow (DVar "a3") 2); ("x2", DPow (DVar "a1") 2); ("x3", DMul (DInt 2) (DVar "x2"));
   ("d", DDiv (DInt 1) den)].
Definition ex_inv3_den : dexp :=
  DAdd (DAdd (DAdd (DAdd (DAdd (DPow (DVar "a1") 4) (DPow (DVar "a2") 4)) (DPow (DVar "a3") 4))
                         (DMul (DMul (DInt 2) (DVar "x0")) (DVar "x1"))) (DMul (DVar "x0") (DVar "x3"))) (DMul (DVar "x1") (DVar "x3")).
Definition ex_inv3_c1 : dexp :=
  DAdd (DAdd (DMul (DPow (DVar "a1") 3) (DVar "d")) (DMul (DMul (DVar "a1") (DVar "d")) (DVar "x0"))) (DMul (DMul (DVar "a1") (DVar "d")) (DVar "x1")).
Definition ex_inv3_c2 : dexp :=
  DAdd (DAdd (DMul (DPow (DVar "a2") 3) (DVar "d")) (DMul (DMul (DVar "a2") (DVar "d")) (DVar "x1"))) (DMul (DMul (DVar "a2") (DVar "d")) (DVar "x2")).
Definition ex_inv3_c3 : dexp :=
  DAdd (DAdd (DMul (DPow (DVar "a3") 3) (DVar "d")) (DMul (DMul (DVar "a3") (DVar "d")) (DVar "x0"))) (DMul (DMul (DVar "a3") (DVar "d")) (DVar "x2")).
Definition ex_inv3 : dprog := mkDProg [["a1"; "a2"; "a3"]] (ex_inv3_lets ex_inv3_den) [ex_inv3_c1; ex_inv3_c2; ex_inv3_c3].
(* the same inverse as a person would write it:  x0 = a1**2 + a2**2 + a3**2;  return [a1/x0, a2/x0, a3/x0] *)
Definition ex_inv3_short : dprog :=
  mkDProg [["a1"; "a2"; "a3"]] [("x0", DAdd (DAdd (DPow (DVar "a1") 2) (DPow (DVar "a2") 2)) (DPow (DVar "a3") 2))]
          [DDiv (DVar "a1") (DVar "x0"); DDiv (DVar "a2") (DVar "x0"); DDiv (DVar "a3") (DVar "x0")].
(* wrong texts: the sign of the second coefficient flipped; the denominator without its last term x1*x3 *)
Definition ex_inv3_sign : dprog := mkDProg [["a1"; "a2"; "a3"]] (ex_inv3_lets ex_inv3_den) [ex_inv3_c1; DNeg ex_inv3_c2; ex_inv3_c3].
Definition ex_inv3_den_short : dexp :=
  DAdd (DAdd (DAdd (DAdd (DPow (DVar "a1") 4) (DPow (DVar "a2") 4)) (DPow (DVar "a3") 4))
             (DMul (DMul (DInt 2) (DVar "x0")) (DVar "x1"))) (DMul (DVar "x0") (DVar "x3")).
Definition ex_inv3_den_wrong : dprog := mkDProg [["a1"; "a2"; "a3"]] (ex_inv3_lets ex_inv3_den_short) [ex_inv3_c1; ex_inv3_c2; ex_inv3_c3].

(* Algebra(2).inv[(0, 3)] (a rotor: scalar + bivector):   d = 1/(a**2 + a12**2);  return [a*d, -a12*d] *)
Definition ex_rotor : dprog :=
  mkDProg [["a"; "a12"]] [("d", DDiv (DInt 1) (DAdd (DPow (DVar "a") 2) (DPow (DVar "a12") 2)))]
          [DMul (DVar "a") (DVar "d"); DMul (DNeg (DVar "a12")) (DVar "d")].
Definition ex_rotor_sign : dprog :=
  mkDProg [["a"; "a12"]] [("d", DDiv (DInt 1) (DAdd (DPow (DVar "a") 2) (DPow (DVar "a12") 2)))]
          [DMul (DVar "a") (DVar "d"); DMul (DVar "a12") (DVar "d")].
Definition ex_rotor_den : dprog :=
  mkDProg [["a"; "a12"]] [("d", DDiv (DInt 1) (DPow (DVar "a") 2))]
          [DMul (DVar "a") (DVar "d"); DMul (DNeg (DVar "a12")) (DVar "d")].

(* Algebra(3).div[(1, 2, 4), (0, 3)] (vector / rotor) as generated today (cse on) *)
Definition ex_div3 : dprog :=
  mkDProg [["a1"; "a2"; "a3"]; ["b"; "b12"]]
    [("x0", DPow (DVar "b") 3); ("x1", DPow (DVar "b12") 3); ("x2", DPow (DVar "b12") 2); ("x3", DMul (DVar "b") (DVar "x2"));
     ("x4", DPow (DVar "b") 2); ("x5", DMul (DVar "b12") (DVar "x4"));
     ("d", DDiv (DInt 1) (DAdd (DAdd (DPow (DVar "b") 4) (DPow (DVar "b12") 4)) (DMul (DMul (DInt 2) (DVar "x2")) (DVar "x4"))))]
    [DAdd (DAdd (DAdd (DMul (DMul (DVar "a1") (DVar "d")) (DVar "x0")) (DMul (DMul (DVar "a1") (DVar "d")) (DVar "x3")))
                (DMul (DMul (DVar "a2") (DVar "d")) (DVar "x1"))) (DMul (DMul (DVar "a2") (DVar "d")) (DVar "x5"));
     DAdd (DAdd (DSub (DMul (DMul (DNeg (DVar "a1")) (DVar "d")) (DVar "x1")) (DMul (DMul (DVar "a1") (DVar "d")) (DVar "x5")))
                (DMul (DMul (DMul (DVar "a2") (DVar "b")) (DVar "d")) (DVar "x2"))) (DMul (DMul (DVar "a2") (DVar "d")) (DVar "x0"));
     DAdd (DMul (DMul (DVar "a3") (DVar "d")) (DVar "x0")) (DMul (DMul (DVar "a3") (DVar "d")) (DVar "x3"));
     DSub (DMul (DMul (DNeg (DVar "a3")) (DVar "d")) (DVar "x1")) (DMul (DMul (DVar "a3") (DVar "d")) (DVar "x5"))].

Example exd_validates :
  validate_inv ex_A3 [1; 2; 4] [1; 2; 4] ex_inv3 = true /\
  validate_inv ex_A3 [1; 2; 4] [1; 2; 4] ex_inv3_short = true /\       (* cross-multiplied: a simplified fraction is the same function *)
  validate_inv ex_A2 [0; 3] [0; 3] ex_rotor = true /\
  validate_div ex_A3 [1; 2; 4] [0; 3] [1; 2; 4; 7] ex_div3 = true.
Proof. vm_compute. repeat split. Qed.

Example exd_rejected :
  validate_inv ex_A3 [1; 2; 4] [1; 2; 4] ex_inv3_sign = false /\       (* one coefficient's sign flipped *)
  validate_inv ex_A3 [1; 2; 4] [1; 2; 4] ex_inv3_den_wrong = false /\  (* the denominator lost a term *)
  validate_inv ex_A2 [0; 3] [0; 3] ex_rotor_sign = false /\
  validate_inv ex_A2 [0; 3] [0; 3] ex_rotor_den = false /\
  validate_inv ex_A3 [1; 2; 4] [2; 1; 4] ex_inv3 = false /\            (* the keys are part of the comparison *)
  validate_inv ex_A3 [2; 1; 4] [1; 2; 4] ex_inv3 = false /\            (* ... and so is the storage order of the operand *)
  validate_inv (mk_default [1; -1; 1] 1 false) [1; 2; 4] [1; 2; 4] ex_inv3 = false /\   (* ... and the signature *)
  validate_inv (mk_default [1; 1; 1; 1; 1; 1] 1 false) [1; 2; 4] [1; 2; 4] ex_inv3 = false /\   (* d = 6: no closed form *)
  validate_div ex_A3 [1; 2; 4] [0; 3] [1; 2; 4; 7] (mkDProg (d_unpack ex_div3) (d_lets ex_div3) (rev (d_ret ex_div3))) = false.
Proof. vm_compute. repeat split. Qed.

(* the fractions of the real text: every returned fraction has the denominator of `d` (the shortcut for equal denominators) *)
Example exd_fractions :
  match slpq_eval PolyOps poly_eqb P_of_Z ex_rotor [indets 0 2] with
  | Ok [(n1, d1); (n2, d2)] => poly_eqb d1 d2 && peq n1 (P_of_var 0) && peq n2 (pneg (P_of_var 1))
  | _ => false
  end = true.
Proof. vm_compute. reflexivity. Qed.

(* the theorem applied over the rationals (canonical fractions Qc, their own division): the validated text computes the
   inverse the model computes for EVERY vector where both return, and it raises ZeroDivisionError at the null vector *)
Definition Qzi : Z -> Qc := zinj Qc (Q2Qc 0) (Q2Qc 1) Qcplus Qcmult Qcopp.
Lemma Qcdv_ok : forall a b : Qc, b <> Q2Qc 0 -> Qcmult (Qcdv a b) b = a.
Proof. intros a b Hb. unfold Qcdv. rewrite Qcmult_comm. apply Qcmult_div_r. exact Hb. Qed.
Lemma Qcisz_ok : forall r : Qc, Qcisz r = true <-> r = Q2Qc 0.
Proof.
  intros r. unfold Qcisz, Qc_eq_bool. destruct (Qc_eq_dec r (Q2Qc 0)) as [E|E]; split; intros H; try assumption; try reflexivity;
    [discriminate | contradiction].
Qed.

Example exd_applied : forall a1 a2 a3 : Qc, forall vs r,
  slpf_eval Qcops Qzi Qcdv Qcisz ex_inv3 [[a1; a2; a3]] = Ok vs ->
  inv_model Qcops Qcdv Qcisz idF ex_A3 [(1, a1); (2, a2); (4, a3)] = Ok r ->
  List.length vs = 3%nat /\ forall K, coeff Qcops K (combine [1; 2; 4] vs) = coeff Qcops K r.
Proof.
  intros a1 a2 a3 vs r Ev Er.
  destruct (slp_validated_inv Qc (Q2Qc 0) (Q2Qc 1) Qcplus Qcmult Qcminus Qcopp Qcrt Qcdv Qcisz Qcdv_ok Qcisz_ok ex_A3 eq_refl
              [1; 2; 4] [1; 2; 4] ex_inv3 eq_refl [a1; a2; a3] eq_refl) as [_ [H _]].
  exact (H vs r Ev Er).
Qed.

Example exd_computed :
  map_res (map this) (slpf_eval Qcops Qzi Qcdv Qcisz ex_inv3 [[Q2Qc 1; Q2Qc 2; Q2Qc 2]]) = Ok [1 # 9; 2 # 9; 2 # 9]%Q /\
  map_res (map (fun kv => (fst kv, this (snd kv)))) (inv_model Qcops Qcdv Qcisz idF ex_A3 [(1, Q2Qc 1); (2, Q2Qc 2); (4, Q2Qc 2)])
    = Ok [(1, (1 # 9)%Q); (2, (2 # 9)%Q); (4, (2 # 9)%Q); (7, 0%Q)] /\   (* the numeric path stores e123 = 0: coefficient level *)
  slpf_eval Qcops Qzi Qcdv Qcisz ex_inv3 [[Q2Qc 0; Q2Qc 0; Q2Qc 0]] = Err EZeroDiv /\
  slpf_eval Qcops Qzi Qcdv Qcisz ex_inv3 [[Q2Qc 1; Q2Qc 2]] = Err EValue.
Proof. vm_compute. repeat split. Qed.
