(* Theory/WFDefault.v — the decidable well-formedness predicate [wf_alg] (Theory/WF.v), which every
   sign-table / operator theorem of the development carries as its hypothesis, PROVED for the algebras
   kingdon constructs:

   1. [wf_default]: every default-basis algebra [mk_default sig start graded] (Algebra(p,q,r) /
      Algebra(signature=...), any start_index >= 0, any number of generators) is well-formed.
      No bound on the number of generators is needed in the model (blade names are lists of digit
      VALUES, so 'digits' above 15 still compare numerically); [wf_default_hex] is the instance with
      kingdon's single-hex-digit restriction, [wf_default_pqr] the Algebra(p,q,r) instance.
      For start < 0 and d >= 1 the statement is false (generator range check fails): [wf_default_neg_start].
   2. [wf_custom_sound] / [wf_custom_char] / [wf_custom_iff]: for a custom basis, whenever
      [mk_custom sig basis graded = Ok A], [wf_alg A = basis_ok sig basis]; and [mk_custom]
      succeeds with a well-formed algebra IFF the decidable condition [basis_ok sig basis] holds
      (one duplicate-free spelling per subset of the generators, 2^d of them, ordered by grade, the
      generator digits being start .. start+d-1 with start = the least digit, signature of length d
      over {1,-1,0}). *)
From Coq Require Import List ZArith Bool Lia Permutation Arith Sorting.Sorted.
From KV Require Import Model.All Theory.WF Theory.Bits Theory.SignBits.
Import ListNotations.
Local Open Scope Z_scope.

(* ====================================================================================== *)
(** * 0. Reflection (the converse directions of SignBits.nodupb_NoDup / znodupb_NoDup) *)

Lemma NoDup_nodupb l : NoDup l -> nodupb l = true.
Proof.
  induction 1 as [|x r Hx Hr IH]; cbn [nodupb]; [reflexivity|].
  rewrite IH, andb_true_r. apply negb_true_iff.
  destruct (existsb (Nat.eqb x) r) eqn:E; [|reflexivity].
  apply existsb_exists in E. destruct E as (y & Hy & Exy). apply Nat.eqb_eq in Exy. subst y. contradiction.
Qed.

Lemma NoDup_znodupb l : NoDup l -> znodupb l = true.
Proof.
  induction 1 as [|x r Hx Hr IH]; cbn [znodupb]; [reflexivity|].
  rewrite IH, andb_true_r. apply negb_true_iff.
  destruct (existsb (Z.eqb x) r) eqn:E; [|reflexivity].
  apply existsb_exists in E. destruct E as (y & Hy & Exy). apply Z.eqb_eq in Exy. subst y. contradiction.
Qed.

Lemma testbit_above k d j : 0 <= k < 2 ^ d -> d <= j -> Z.testbit k j = false.
Proof.
  intros Hk Hj. destruct (Z.eq_dec k 0) as [->|Hne]; [apply Z.bits_0|].
  apply Z.bits_above_log2; [lia|].
  assert (Hd : 0 <= d). { destruct (Z_lt_le_dec d 0) as [Hn|]; [|assumption]. rewrite Z.pow_neg_r in Hk; lia. }
  assert (Z.log2 k < d) by (apply Z.log2_lt_pow2; lia). lia.
Qed.

(* ====================================================================================== *)
(** * 1. The sort: permutation, and sorted for the preorder (length, then digit for length 1) *)

(* what the (len, lexicographic) sort key guarantees and wf_alg needs: grades ascend and the
   generators (names of length 1) ascend by digit *)
Definition nle (a b : name) : Prop :=
  (length a <= length b)%nat /\ forall g h, a = [g] -> b = [h] -> (g <= h)%nat.
Definition ple (x y : name * Z) : Prop := nle (fst x) (fst y).

Lemma nle_trans a b c : nle a b -> nle b c -> nle a c.
Proof.
  intros [L1 S1] [L2 S2]. split; [lia|]. intros g h -> ->. cbn [length] in L1, L2.
  destruct b as [|x [|y r]]; cbn [length] in L1, L2; try lia.
  specialize (S1 g x eq_refl eq_refl). specialize (S2 x h eq_refl eq_refl). lia.
Qed.

Lemma key_ltb_nle a b : key_ltb a b = true -> nle a b.
Proof.
  unfold key_ltb. destruct (Nat.ltb_spec (length a) (length b)) as [Hl|Hl].
  - intros _. split; [lia|]. intros g h -> ->. cbn [length] in Hl. lia.
  - destruct (Nat.ltb_spec (length b) (length a)) as [Hl'|Hl']; [discriminate|].
    intros Hx. split; [lia|]. intros g h -> ->. cbn [lex_ltb] in Hx.
    destruct (Nat.ltb_spec g h) as [Hgh|Hgh]; [lia|].
    destruct (Nat.ltb_spec h g); discriminate.
Qed.

Lemma key_nltb_nle a b : key_ltb b a = false -> nle a b.
Proof.
  unfold key_ltb. destruct (Nat.ltb_spec (length b) (length a)) as [Hl|Hl]; [discriminate|].
  destruct (Nat.ltb_spec (length a) (length b)) as [Hl'|Hl'].
  - intros _. split; [lia|]. intros g h -> ->. cbn [length] in Hl'. lia.
  - intros Hx. split; [lia|]. intros g h -> ->. cbn [lex_ltb] in Hx.
    destruct (Nat.ltb_spec h g) as [Hhg|Hhg]; [discriminate|]. lia.
Qed.

Lemma insert_sorted_perm x l : Permutation (insert_sorted x l) (x :: l).
Proof.
  induction l as [|y r IH]; cbn [insert_sorted]; [reflexivity|].
  destruct (key_ltb (fst x) (fst y)); [reflexivity|].
  transitivity (y :: x :: r); [apply perm_skip; exact IH | apply perm_swap].
Qed.

Lemma fold_insert_perm l : forall acc,
  Permutation (fold_left (fun acc x => insert_sorted x acc) l acc) (l ++ acc).
Proof.
  induction l as [|x l IH]; intros acc; cbn [fold_left app]; [reflexivity|].
  rewrite IH. transitivity (l ++ x :: acc).
  - apply Permutation_app_head. apply insert_sorted_perm.
  - symmetry. apply Permutation_middle.
Qed.

Lemma sort_c2b_perm l : Permutation (sort_c2b l) l.
Proof. unfold sort_c2b. rewrite fold_insert_perm, app_nil_r. reflexivity. Qed.

Lemma insert_sorted_sorted x l : StronglySorted ple l -> StronglySorted ple (insert_sorted x l).
Proof.
  induction l as [|y r IH]; intros Hs; cbn [insert_sorted].
  - constructor; constructor.
  - inversion Hs as [|y' r' Hr Hy]; subst.
    destruct (key_ltb (fst x) (fst y)) eqn:E.
    + constructor; [exact Hs|]. constructor; [apply key_ltb_nle; exact E|].
      eapply Forall_impl; [|exact Hy]. intros z Hz. unfold ple in *.
      eapply nle_trans; [apply key_ltb_nle; exact E | exact Hz].
    + constructor; [apply IH; exact Hr|].
      apply Forall_forall. intros z Hz. apply (Permutation_in _ (insert_sorted_perm x r)) in Hz.
      destruct Hz as [<-|Hz]; [apply key_nltb_nle; exact E|].
      rewrite Forall_forall in Hy. apply Hy. exact Hz.
Qed.

Lemma sort_c2b_sorted l : StronglySorted ple (sort_c2b l).
Proof.
  unfold sort_c2b. assert (H : StronglySorted ple []) by constructor. revert H. generalize (@nil (name * Z)).
  induction l as [|x l IH]; intros acc Hacc; cbn [fold_left]; [exact Hacc|].
  apply IH. apply insert_sorted_sorted. exact Hacc.
Qed.

Lemma lens_sorted_of l : StronglySorted ple l -> lens_sorted l = true.
Proof.
  induction l as [|a r IH]; intros Hs; [reflexivity|].
  inversion Hs as [|a' r' Hr Ha]; subst. destruct r as [|b r']; [reflexivity|].
  change (lens_sorted (a :: b :: r')) with (Nat.leb (length (fst a)) (length (fst b)) && lens_sorted (b :: r')).
  rewrite (IH Hr), andb_true_r. apply Nat.leb_le.
  inversion Ha as [|b' r'' Hab _]; subst. exact (proj1 Hab).
Qed.

(* ====================================================================================== *)
(** * 2. The generators of a sorted duplicate-free basis ascend strictly *)

Lemma vecs_of_cons n r : vecs_of (n :: r) = match n with [g] => [g] | _ => [] end ++ vecs_of r.
Proof. reflexivity. Qed.

Lemma vecs_sorted l : StronglySorted ple l -> NoDup (map fst l) ->
  StronglySorted Nat.lt (vecs_of (map fst l)).
Proof.
  induction l as [|[n b] r IH]; intros Hs Hnd; cbn [map fst]; [constructor|].
  inversion Hs as [|x r' Hr Hx]; subst. inversion Hnd as [|x r' Hn Hndr]; subst.
  specialize (IH Hr Hndr). rewrite vecs_of_cons.
  destruct n as [|g [|h t]]; cbn [app]; try exact IH.
  constructor; [exact IH|]. apply Forall_forall. intros h Hh.
  apply In_vecs_of in Hh. assert (Hne : g <> h) by (intros ->; apply Hn; exact Hh).
  apply in_map_iff in Hh. destruct Hh as ([n' b'] & E & Hin). cbn [fst] in E. subst n'.
  rewrite Forall_forall in Hx. specialize (Hx _ Hin). destruct Hx as [_ Hx]. cbn [fst] in Hx.
  specialize (Hx g h eq_refl eq_refl). unfold Nat.lt. lia.
Qed.

Lemma sorted_lt_unique l1 : forall l2, StronglySorted Nat.lt l1 -> StronglySorted Nat.lt l2 ->
  (forall x, In x l1 <-> In x l2) -> l1 = l2.
Proof.
  induction l1 as [|a r1 IH]; intros [|b r2] H1 H2 Hin.
  - reflexivity.
  - destruct (proj2 (Hin b) (or_introl eq_refl)).
  - destruct (proj1 (Hin a) (or_introl eq_refl)).
  - inversion H1 as [|a' r1' Hr1 Ha]; inversion H2 as [|b' r2' Hr2 Hb]; subst.
    rewrite Forall_forall in Ha, Hb. unfold Nat.lt in Ha, Hb.
    assert (E : a = b).
    { destruct (proj1 (Hin a) (or_introl eq_refl)) as [E|Hi]; [auto|].
      destruct (proj2 (Hin b) (or_introl eq_refl)) as [E|Hi']; [auto|].
      specialize (Hb a Hi). specialize (Ha b Hi'). lia. }
    subst b. f_equal. apply IH; [exact Hr1 | exact Hr2 |]. intros x. split; intros Hx.
    + destruct (proj1 (Hin x) (or_intror Hx)) as [E|Hi]; [|exact Hi]. subst x. specialize (Ha a Hx). lia.
    + destruct (proj2 (Hin x) (or_intror Hx)) as [E|Hi]; [|exact Hi]. subst x. specialize (Hb a Hx). lia.
Qed.

(* ====================================================================================== *)
(** * 3. The default basis *)

Section Default.
Variable d : nat.
Variable start : Z.
Hypothesis Hstart : 0 <= start.

(* the digit of generator number i *)
Definition gen (i : nat) : nat := Z.to_nat (Z.of_nat i + start).
Definition dvecs : list nat := map gen (seq 0 d).
Definition dlist : list (name * Z) := map (fun k => (default_name d start k, k)) (zrange (2 ^ d)).

Lemma gen_inj i j : gen i = gen j -> i = j.
Proof. unfold gen. lia. Qed.

Lemma default_name_filter k :
  default_name d start k = map gen (filter (fun ei => Z.testbit k (Z.of_nat ei)) (seq 0 d)).
Proof.
  unfold default_name. induction (seq 0 d) as [|i r IH]; [reflexivity|]. cbn [flat_map filter].
  destruct (Z.testbit k (Z.of_nat i)); cbn [map app]; rewrite IH; reflexivity.
Qed.

Lemma In_default_name g k :
  In g (default_name d start k) <->
  exists i, (i < d)%nat /\ Z.testbit k (Z.of_nat i) = true /\ g = gen i.
Proof.
  rewrite default_name_filter, in_map_iff. split.
  - intros (i & <- & Hi). apply filter_In in Hi. destruct Hi as [Hi Ht]. apply in_seq in Hi.
    exists i. split; [lia|]. split; [exact Ht | reflexivity].
  - intros (i & Hi & Ht & ->). exists i. split; [reflexivity|]. apply filter_In.
    split; [apply in_seq; lia | exact Ht].
Qed.

Lemma NoDup_default_name k : NoDup (default_name d start k).
Proof.
  rewrite default_name_filter. apply NoDup_map_inj_in.
  - intros x y _ _. apply gen_inj.
  - apply NoDup_filter. apply seq_NoDup.
Qed.

Lemma default_name_inj k k' : 0 <= k < 2 ^ Z.of_nat d -> 0 <= k' < 2 ^ Z.of_nat d ->
  default_name d start k = default_name d start k' -> k = k'.
Proof.
  assert (Hhalf : forall a b, default_name d start a = default_name d start b ->
            forall i, (i < d)%nat -> Z.testbit a (Z.of_nat i) = true -> Z.testbit b (Z.of_nat i) = true).
  { intros a b E i Hi Ht. assert (Hin : In (gen i) (default_name d start a)).
    { apply In_default_name. exists i. auto. }
    rewrite E in Hin. apply In_default_name in Hin. destruct Hin as (i' & _ & Ht' & Eg).
    apply gen_inj in Eg. subst i'. exact Ht'. }
  intros Hk Hk' E. apply Z.bits_inj'. intros j Hj.
  destruct (Z_lt_le_dec j (Z.of_nat d)) as [Hjd|Hjd].
  - replace j with (Z.of_nat (Z.to_nat j)) by lia. apply bool_eq_of_iff.
    split; apply Hhalf; auto; lia.
  - rewrite (testbit_above k _ j Hk Hjd), (testbit_above k' _ j Hk' Hjd). reflexivity.
Qed.

Lemma filter_pow2_seq i : forall n a,
  filter (fun e => Z.testbit (2 ^ Z.of_nat i) (Z.of_nat e)) (seq a n) =
  if ((a <=? i) && (i <? a + n))%nat then [i] else [].
Proof.
  induction n as [|n IH]; intros a.
  - cbn [seq filter]. destruct (Nat.leb_spec a i), (Nat.ltb_spec i (a + 0)); cbn [andb]; try reflexivity. lia.
  - cbn [seq filter]. rewrite IH, pow2_bit by lia.
    destruct (Z.eqb_spec (Z.of_nat i) (Z.of_nat a)) as [E|E];
      destruct (Nat.leb_spec (S a) i), (Nat.ltb_spec i (S a + n)), (Nat.leb_spec a i),
        (Nat.ltb_spec i (a + S n)); cbn [andb]; try reflexivity; try lia.
    apply Nat2Z.inj in E. subst i. reflexivity.
Qed.

Lemma default_name_pow2 i : (i < d)%nat -> default_name d start (2 ^ Z.of_nat i) = [gen i].
Proof.
  intros Hi. rewrite default_name_filter, filter_pow2_seq.
  destruct (Nat.leb_spec 0 i), (Nat.ltb_spec i (0 + d)); cbn [andb map]; try reflexivity; lia.
Qed.

Lemma pow2_nat : Z.of_nat (2 ^ d) = 2 ^ Z.of_nat d.
Proof. rewrite Nat2Z.inj_pow. reflexivity. Qed.

(* ---- the sorted table ---- *)

Lemma c2b_perm : Permutation (default_c2b d start) dlist.
Proof. apply sort_c2b_perm. Qed.

Lemma In_dlist n b : In (n, b) dlist <-> 0 <= b < 2 ^ Z.of_nat d /\ n = default_name d start b.
Proof.
  unfold dlist. rewrite in_map_iff. split.
  - intros (k & E & Hk). injection E as <- <-. apply In_zrange in Hk. rewrite pow2_nat in Hk. auto.
  - intros (Hb & ->). exists b. split; [reflexivity|]. apply In_zrange. rewrite pow2_nat. exact Hb.
Qed.

Lemma c2b_entry n b :
  In (n, b) (default_c2b d start) <-> 0 <= b < 2 ^ Z.of_nat d /\ n = default_name d start b.
Proof.
  rewrite <- In_dlist. split; apply Permutation_in; [|symmetry]; apply c2b_perm.
Qed.

Lemma dlist_names_nodup : NoDup (map fst dlist).
Proof.
  unfold dlist. rewrite map_map. cbn [fst]. apply NoDup_map_inj_in; [|apply NoDup_zrange].
  intros x y Hx Hy. apply In_zrange in Hx, Hy. rewrite pow2_nat in Hx, Hy. apply default_name_inj; assumption.
Qed.

Lemma c2b_names_nodup : NoDup (map fst (default_c2b d start)).
Proof.
  apply (Permutation_NoDup (l := map fst dlist)); [|apply dlist_names_nodup].
  apply Permutation_map. symmetry. apply c2b_perm.
Qed.

Lemma dlist_keys : map snd dlist = zrange (2 ^ d).
Proof. unfold dlist. rewrite map_map. cbn [snd]. apply map_id. Qed.

Lemma c2b_keys_perm : Permutation (map snd (default_c2b d start)) (zrange (2 ^ d)).
Proof. rewrite <- dlist_keys. apply Permutation_map. apply c2b_perm. Qed.

Lemma c2b_length : length (default_c2b d start) = (2 ^ d)%nat.
Proof.
  rewrite (Permutation_length c2b_perm). unfold dlist, zrange. rewrite !map_length, seq_length. reflexivity.
Qed.

Lemma dvecs_sorted : StronglySorted Nat.lt dvecs.
Proof.
  unfold dvecs. generalize 0%nat. induction d as [|n IH]; intros a; cbn [seq map]; constructor.
  - apply IH.
  - apply Forall_forall. intros x Hx. apply in_map_iff in Hx. destruct Hx as (i & <- & Hi).
    apply in_seq in Hi. unfold gen, Nat.lt. lia.
Qed.

Lemma In_dvecs g : In g dvecs <-> exists i, (i < d)%nat /\ g = gen i.
Proof.
  unfold dvecs. rewrite in_map_iff. split.
  - intros (i & <- & Hi). apply in_seq in Hi. exists i. split; [lia | reflexivity].
  - intros (i & Hi & ->). exists i. split; [reflexivity | apply in_seq; lia].
Qed.

(* the generators of the sorted default basis, in basis order: start, start+1, ..., start+d-1 *)
Theorem c2b_vecs : vecs_of (map fst (default_c2b d start)) = dvecs.
Proof.
  apply sorted_lt_unique.
  - apply vecs_sorted; [apply sort_c2b_sorted | apply c2b_names_nodup].
  - apply dvecs_sorted.
  - intros g. rewrite In_vecs_of, In_dvecs, in_map_iff. split.
    + intros ([n b] & E & Hin). cbn [fst] in E. subst n. apply c2b_entry in Hin. destruct Hin as [Hb E].
      assert (Hg : In g (default_name d start b)) by (rewrite <- E; left; reflexivity).
      apply In_default_name in Hg. destruct Hg as (i & Hi & _ & ->). exists i. auto.
    + intros (i & Hi & ->). exists ([gen i], 2 ^ Z.of_nat i). split; [reflexivity|].
      apply c2b_entry. split; [|symmetry; apply default_name_pow2; exact Hi].
      split; [apply Z.lt_le_incl, pow2_pos; lia | apply Z.pow_lt_mono_r; lia].
Qed.

Lemma dvecs_nodup : NoDup dvecs.
Proof.
  unfold dvecs. apply NoDup_map_inj_in; [|apply seq_NoDup]. intros x y _ _. apply gen_inj.
Qed.

Lemma dvecs_length : length dvecs = d.
Proof. unfold dvecs. rewrite map_length, seq_length. reflexivity. Qed.

Lemma vpos_gen i : (i < d)%nat -> vpos dvecs (gen i) = Z.of_nat i.
Proof.
  intros Hi. apply (vpos_nth dvecs dvecs_nodup). unfold dvecs. apply map_nth_error.
  rewrite (nth_error_nth' (seq 0 d) 0%nat) by (rewrite seq_length; exact Hi).
  rewrite seq_nth by exact Hi. reflexivity.
Qed.

(* canon2bin of a default name is its bitmask *)
Theorem default_name_bin k : 0 <= k < 2 ^ Z.of_nat d ->
  name_bin dvecs (default_name d start k) = Some k.
Proof.
  intros Hk.
  destruct (name_bin_total dvecs dvecs_nodup (default_name d start k)) as (b & Hb).
  { intros g Hg. apply In_default_name in Hg. destruct Hg as (i & Hi & _ & ->).
    apply In_dvecs. exists i. auto. }
  rewrite Hb. f_equal. apply Z.bits_inj'. intros j Hj. apply bool_eq_of_iff.
  rewrite (name_bin_bits dvecs dvecs_nodup _ b (NoDup_default_name k) Hb j). split.
  - intros (g & Hg & ->). apply In_default_name in Hg. destruct Hg as (i & Hi & Ht & ->).
    rewrite (vpos_gen i Hi). exact Ht.
  - intros Ht. destruct (Z_lt_le_dec j (Z.of_nat d)) as [Hjd|Hjd].
    + exists (gen (Z.to_nat j)). split.
      * apply In_default_name. exists (Z.to_nat j). split; [lia|]. split; [|reflexivity].
        rewrite Z2Nat.id by exact Hj. exact Ht.
      * rewrite vpos_gen by lia. lia.
    + rewrite (testbit_above k _ j Hk Hjd) in Ht. discriminate.
Qed.

End Default.

(* ====================================================================================== *)
(** * 4. Theorem 1: every default-basis algebra is well-formed *)

Lemma sig_vals_forallb (sig : list Z) : (forall s, In s sig -> s = 1 \/ s = -1 \/ s = 0) ->
  forallb (fun s => Z.eqb s 1 || Z.eqb s (-1) || Z.eqb s 0) sig = true.
Proof.
  intros H. apply forallb_forall. intros s Hs. destruct (H s Hs) as [-> | [-> | ->]]; reflexivity.
Qed.

Theorem wf_default : forall (sig : list Z) (start : Z) (graded : bool),
  (forall s, In s sig -> s = 1 \/ s = -1 \/ s = 0) ->
  0 <= start ->
  wf_alg (mk_default sig start graded) = true.
Proof.
  intros sig start graded Hsig Hstart. unfold wf_alg, mk_default. cbn [a_c2b a_d a_sig a_start].
  set (d := length sig). rewrite (c2b_vecs d start Hstart).
  repeat (apply andb_true_intro; split).
  - apply NoDup_nodupb. apply dvecs_nodup. exact Hstart.
  - apply Nat.eqb_eq. apply dvecs_length.
  - apply Nat.eqb_refl.
  - apply sig_vals_forallb. exact Hsig.
  - apply forallb_forall. intros g Hg. apply In_dvecs in Hg. destruct Hg as (i & Hi & ->).
    apply andb_true_intro. unfold gen. split; [apply Z.leb_le | apply Z.ltb_lt]; lia.
  - apply forallb_forall. intros [n b] Hin. cbn [fst snd]. apply c2b_entry in Hin. destruct Hin as [Hb ->].
    apply andb_true_intro. split.
    + apply NoDup_nodupb. apply NoDup_default_name. exact Hstart.
    + rewrite (default_name_bin d start Hstart b Hb). cbn [opt_eqb]. apply Z.eqb_refl.
  - apply NoDup_znodupb. apply (Permutation_NoDup (l := zrange (2 ^ d))); [|apply NoDup_zrange].
    symmetry. apply c2b_keys_perm.
  - apply Nat.eqb_eq. apply c2b_length.
  - apply lens_sorted_of. apply sort_c2b_sorted.
Qed.

(* kingdon's own restriction (generator digits are single hex digits) is an instance *)
Corollary wf_default_hex : forall (sig : list Z) (start : Z) (graded : bool),
  (forall s, In s sig -> s = 1 \/ s = -1 \/ s = 0) ->
  0 <= start -> start + Z.of_nat (length sig) <= 16 ->
  wf_alg (mk_default sig start graded) = true.
Proof. intros sig start graded Hsig Hstart _. apply wf_default; assumption. Qed.

(* the hypothesis 0 <= start cannot be dropped *)
Example wf_default_neg_start : wf_alg (mk_default [1] (-1) false) = false.
Proof. vm_compute. reflexivity. Qed.

(* Algebra(p, q, r) *)
Lemma sig_of_pqr_vals p q r s : In s (sig_of_pqr p q r) -> s = 1 \/ s = -1 \/ s = 0.
Proof.
  unfold sig_of_pqr. destruct (Nat.eqb r 1); rewrite !in_app_iff; intros [H|[H|H]];
    apply repeat_spec in H; auto.
Qed.

Lemma default_start_nonneg sig : 0 <= default_start sig.
Proof. unfold default_start. destruct (Nat.eqb (count_sig 0 sig) 1); lia. Qed.

Corollary wf_default_pqr : forall (p q r : nat) (graded : bool),
  wf_alg (mk_default (sig_of_pqr p q r) (default_start (sig_of_pqr p q r)) graded) = true.
Proof.
  intros p q r graded. apply wf_default; [apply sig_of_pqr_vals | apply default_start_nonneg].
Qed.

(* ====================================================================================== *)
(** * 5. Theorem 2: custom bases — [mk_custom] yields a well-formed algebra exactly for the
      admissible bases *)

Definition memb (g : nat) (l : list nat) : bool := existsb (Nat.eqb g) l.
(* two spellings name the same subset of generators *)
Definition same_set (a b : name) : bool := forallb (fun g => memb g b) a && forallb (fun g => memb g a) b.
(* no subset is spelled twice *)
Fixpoint sets_nodupb (l : list name) : bool :=
  match l with [] => true | n :: r => negb (existsb (same_set n) r) && sets_nodupb r end.
Fixpoint grades_sorted (l : list name) : bool :=
  match l with
  | a :: ((b :: _) as r) => Nat.leb (length a) (length b) && grades_sorted r
  | _ => true
  end.

(* the admissible custom bases of Algebra(signature=sig, basis=basis): with d = len(sig) and vecs = the
   spellings of length 1 in basis order,
   - vecs is duplicate-free, has d entries, and the digits lie in [min vecs, min vecs + d)
     (i.e. they are start_index .. start_index + d - 1 in some order, the signature being indexed by
     digit - start_index);
   - the signature has entries 1, -1, 0;
   - every spelling is duplicate-free and uses generator digits only;
   - no two spellings name the same subset, and there are 2^d of them (so: exactly one per subset);
   - the spellings are ordered by grade (so the scalar '' comes first). *)
Definition basis_ok (sig : list Z) (basis : list name) : bool :=
  let vecs := vecs_of basis in
  let d := length sig in
  nodupb vecs
  && Nat.eqb (length vecs) d
  && forallb (fun s => Z.eqb s 1 || Z.eqb s (-1) || Z.eqb s 0) sig
  && forallb (fun g => Nat.ltb g (min_nat vecs + d)) vecs
  && forallb (fun n => nodupb n && forallb (fun g => memb g vecs) n) basis
  && sets_nodupb basis
  && Nat.eqb (length basis) (2 ^ d)
  && grades_sorted basis.

Lemma memb_In g l : memb g l = true <-> In g l.
Proof.
  unfold memb. rewrite existsb_exists. split.
  - intros (x & Hx & E). apply Nat.eqb_eq in E. subst x. exact Hx.
  - intros H. exists g. split; [exact H | apply Nat.eqb_refl].
Qed.

Lemma same_set_spec a b : same_set a b = true <-> (forall g, In g a <-> In g b).
Proof.
  unfold same_set. rewrite andb_true_iff, !forallb_forall. split.
  - intros [H1 H2] g. split; intros Hg; apply memb_In; auto.
  - intros H. split; intros g Hg; apply memb_In; apply H; exact Hg.
Qed.

Lemma fold_min_le l : forall a, (fold_left Nat.min l a <= a)%nat /\
  forall g, In g l -> (fold_left Nat.min l a <= g)%nat.
Proof.
  induction l as [|x l IH]; intros a; cbn [fold_left]; [split; [lia | intros g []]|].
  destruct (IH (Nat.min a x)) as [H1 H2]. split; [lia|].
  intros g [<-|Hg]; [lia | apply H2; exact Hg].
Qed.

Lemma min_nat_le l g : In g l -> (min_nat l <= g)%nat.
Proof. unfold min_nat. apply fold_min_le. Qed.

Lemma lens_sorted_grades l : lens_sorted l = grades_sorted (map fst l).
Proof.
  induction l as [|a r IH]; [reflexivity|]. destruct r as [|b r']; [reflexivity|].
  change (lens_sorted (a :: b :: r'))
    with (Nat.leb (length (fst a)) (length (fst b)) && lens_sorted (b :: r')).
  rewrite IH. reflexivity.
Qed.

(* custom_c2b_aux: the table it builds *)
Lemma custom_c2b_aux_spec vecs basis : forall l, custom_c2b_aux vecs basis = Some l ->
  map fst l = basis /\ forall n b, In (n, b) l -> name_bin vecs n = Some b.
Proof.
  induction basis as [|n r IH]; intros l H; cbn [custom_c2b_aux] in H.
  - injection H as <-. split; [reflexivity | intros n b []].
  - destruct (name_bin vecs n) as [b|] eqn:Eb; [|discriminate].
    destruct (custom_c2b_aux vecs r) as [acc|]; [|discriminate]. injection H as <-.
    destruct (IH acc eq_refl) as [Hm Hin]. cbn [map fst]. split; [rewrite Hm; reflexivity|].
    intros n' b' [E|Hi]; [injection E as <- <-; exact Eb | apply Hin; exact Hi].
Qed.

Lemma custom_c2b_aux_total vecs basis : NoDup vecs ->
  (forall n, In n basis -> forall g, In g n -> In g vecs) -> exists l, custom_c2b_aux vecs basis = Some l.
Proof.
  intros Hnd. induction basis as [|n r IH]; intros H; cbn [custom_c2b_aux]; [eexists; reflexivity|].
  destruct (name_bin_total vecs Hnd n) as (b & ->); [apply H; left; reflexivity|].
  destruct IH as (acc & ->); [intros m Hm; apply H; right; exact Hm|]. eexists; reflexivity.
Qed.

(* equal keys <-> same subset *)
Lemma name_bin_eq_iff vecs n m b b' : NoDup vecs -> NoDup n -> NoDup m ->
  name_bin vecs n = Some b -> name_bin vecs m = Some b' ->
  (b = b' <-> forall g, In g n <-> In g m).
Proof.
  intros Hv Hn Hm Hb Hb'.
  pose proof (name_bin_bits vecs Hv n b Hn Hb) as Bn. pose proof (name_bin_bits vecs Hv m b' Hm Hb') as Bm.
  assert (Hhalf : forall x y c c', name_bin vecs x = Some c -> name_bin vecs y = Some c' ->
            (forall k, Z.testbit c k = true <-> exists g, In g x /\ k = vpos vecs g) ->
            (forall k, Z.testbit c' k = true <-> exists g, In g y /\ k = vpos vecs g) ->
            c = c' -> forall g, In g x -> In g y).
  { intros x y c c' Hc Hc' Bx By E g Hg. subst c'.
    assert (Ht : Z.testbit c (vpos vecs g) = true) by (apply Bx; exists g; auto).
    apply By in Ht. destruct Ht as (g' & Hg' & Eg).
    rewrite (vpos_inj vecs Hv g g' (name_bin_in vecs Hv x c Hc g Hg) (name_bin_in vecs Hv y c Hc' g' Hg') Eg).
    exact Hg'. }
  split.
  - intros E g. split; [apply (Hhalf n m b b'); auto | apply (Hhalf m n b' b); auto].
  - intros Hs. apply Z.bits_inj'. intros k _. apply bool_eq_of_iff. rewrite Bn, Bm.
    split; intros (g & Hg & Ek); exists g; (split; [apply Hs; exact Hg | exact Ek]).
Qed.

Lemma keys_nodup_iff vecs (l : list (name * Z)) : NoDup vecs ->
  (forall n b, In (n, b) l -> NoDup n /\ name_bin vecs n = Some b) ->
  (NoDup (map snd l) <-> sets_nodupb (map fst l) = true).
Proof.
  intros Hv. induction l as [|[n b] r IH]; intros H; cbn [map fst snd sets_nodupb].
  - split; [reflexivity | constructor].
  - assert (Hr : forall n b, In (n, b) r -> NoDup n /\ name_bin vecs n = Some b)
      by (intros n' b' Hi; apply H; right; exact Hi).
    destruct (H n b (or_introl eq_refl)) as [Hn Hb]. specialize (IH Hr).
    rewrite andb_true_iff, negb_true_iff. split.
    + intros Hnd. inversion Hnd as [|b0 r0 Hnotin Hnd']; subst. split; [|apply IH; exact Hnd'].
      destruct (existsb (same_set n) (map fst r)) eqn:E; [|reflexivity]. exfalso. apply Hnotin.
      apply existsb_exists in E. destruct E as (m & Hm & Hs). apply in_map_iff in Hm.
      destruct Hm as ([m' b'] & Em & Hin). cbn [fst] in Em. subst m'.
      destruct (Hr m b' Hin) as [Hmn Hmb]. pose proof (proj1 (same_set_spec n m) Hs) as Hs'.
      pose proof (proj2 (name_bin_eq_iff vecs n m b b' Hv Hn Hmn Hb Hmb) Hs') as Ebb. subst b'.
      apply in_map_iff. exists (m, b). split; [reflexivity | exact Hin].
    + intros [Hex Hs]. constructor; [|apply IH; exact Hs]. intros Hin.
      apply in_map_iff in Hin. destruct Hin as ([m b'] & Eb & Hin). cbn [snd] in Eb. subst b'.
      destruct (Hr m b Hin) as [Hmn Hmb].
      assert (E : existsb (same_set n) (map fst r) = true).
      { apply existsb_exists. exists m. split; [apply in_map_iff; exists (m, b); auto|].
        apply same_set_spec. apply (name_bin_eq_iff vecs n m b b Hv Hn Hmn Hb Hmb). reflexivity. }
      congruence.
Qed.

(* wf_alg of the record mk_custom builds, in terms of the basis *)
Lemma wf_custom_record sig basis graded l : custom_c2b basis = Some l ->
  wf_alg (mkAlg sig (Z.of_nat (min_nat (vecs_of basis))) (length sig) l graded) = basis_ok sig basis.
Proof.
  intros Hl. unfold custom_c2b in Hl. destruct (custom_c2b_aux_spec _ _ l Hl) as [Hm Hin].
  apply bool_eq_of_iff. unfold wf_alg, basis_ok. cbn [a_c2b a_d a_sig a_start]. rewrite Hm.
  set (vecs := vecs_of basis) in *. set (d := length sig).
  rewrite !andb_true_iff. rewrite (lens_sorted_grades l), Hm, <- Hm, map_length, Hm, Nat.eqb_refl.
  assert (Hrange : NoDup vecs ->
    (forallb (fun g => (Z.of_nat (min_nat vecs) <=? Z.of_nat g) &&
                       (Z.of_nat g - Z.of_nat (min_nat vecs) <? Z.of_nat d)) vecs = true <->
     forallb (fun g => Nat.ltb g (min_nat vecs + d)) vecs = true)).
  { intros _. rewrite !forallb_forall. split; intros H g Hg; specialize (H g Hg); pose proof (min_nat_le vecs g Hg).
    - apply andb_prop in H. destruct H as [_ H]. apply Z.ltb_lt in H. apply Nat.ltb_lt. lia.
    - apply Nat.ltb_lt in H. apply andb_true_intro. split; [apply Z.leb_le | apply Z.ltb_lt]; lia. }
  assert (Hentries : NoDup vecs ->
    (forallb (fun nb : name * Z => nodupb (fst nb) && opt_eqb Z.eqb (name_bin vecs (fst nb)) (Some (snd nb))) l = true <->
     forallb (fun n => nodupb n && forallb (fun g => memb g vecs) n) basis = true)).
  { intros Hv. rewrite !forallb_forall. split.
    - intros H n Hn. rewrite <- Hm in Hn. apply in_map_iff in Hn. destruct Hn as ([n' b] & E & Hi).
      cbn [fst] in E. subst n'. specialize (H _ Hi). cbn [fst snd] in H. apply andb_prop in H.
      destruct H as [H1 _]. rewrite H1. cbn [andb]. apply forallb_forall. intros g Hg. apply memb_In.
      apply (name_bin_in vecs Hv n b (Hin n b Hi) g Hg).
    - intros H [n b] Hi. cbn [fst snd]. assert (Hn : In n basis).
      { rewrite <- Hm. apply in_map_iff. exists (n, b). auto. }
      specialize (H n Hn). apply andb_prop in H. destruct H as [H1 _]. rewrite H1, (Hin n b Hi).
      cbn [andb opt_eqb]. apply Z.eqb_refl. }
  assert (Hkeys : NoDup vecs ->
    forallb (fun n => nodupb n && forallb (fun g => memb g vecs) n) basis = true ->
    (znodupb (map snd l) = true <-> sets_nodupb basis = true)).
  { intros Hv Hb. rewrite <- Hm at 1. rewrite <- (keys_nodup_iff vecs l Hv).
    - split; [apply znodupb_NoDup | apply NoDup_znodupb].
    - intros n b Hi. split; [|apply Hin; exact Hi]. rewrite forallb_forall in Hb.
      assert (Hn : In n basis) by (rewrite <- Hm; apply in_map_iff; exists (n, b); auto).
      specialize (Hb n Hn). apply andb_prop in Hb. apply nodupb_NoDup. exact (proj1 Hb). }
  split.
  - intros [[[[[[[[H1 H2] _] H4] H5] H6] H7] H8] H9]. pose proof (nodupb_NoDup _ H1) as Hv.
    pose proof (proj1 (Hentries Hv) H6) as H6'.
    repeat split; try assumption; [apply Hrange; assumption | apply (Hkeys Hv H6'); assumption].
  - intros [[[[[[[H1 H2] H4] H5] H6] H7] H8] H9]. pose proof (nodupb_NoDup _ H1) as Hv.
    repeat split; try assumption; try reflexivity;
      [apply Hrange; assumption | apply Hentries; assumption | apply (Hkeys Hv H6); assumption].
Qed.

Theorem wf_custom_sound : forall (sig : list Z) (basis : list name) (graded : bool),
  basis_ok sig basis = true ->
  exists A, mk_custom sig basis graded = Ok A /\ wf_alg A = true.
Proof.
  intros sig basis graded Hok. assert (Hok' := Hok). unfold basis_ok in Hok'.
  rewrite !andb_true_iff in Hok'. destruct Hok' as [[[[[[[H1 _] _] _] H5] _] _] _].
  destruct (custom_c2b_aux_total (vecs_of basis) basis (nodupb_NoDup _ H1)) as (l & Hl).
  { intros n Hn g Hg. rewrite forallb_forall in H5. specialize (H5 n Hn). apply andb_prop in H5.
    destruct H5 as [_ H5]. rewrite forallb_forall in H5. apply memb_In. apply H5. exact Hg. }
  unfold mk_custom, custom_c2b. rewrite Hl. cbn [of_opt bind]. eexists. split; [reflexivity|].
  rewrite (wf_custom_record sig basis graded l Hl). exact Hok.
Qed.

Theorem wf_custom_char : forall (sig : list Z) (basis : list name) (graded : bool) (A : alg),
  mk_custom sig basis graded = Ok A -> wf_alg A = basis_ok sig basis.
Proof.
  intros sig basis graded A H. unfold mk_custom in H.
  destruct (custom_c2b basis) as [l|] eqn:Hl; cbn [of_opt bind] in H; [|discriminate].
  injection H as <-. apply wf_custom_record. exact Hl.
Qed.

(* together: mk_custom succeeds with a well-formed algebra iff the basis is admissible *)
Corollary wf_custom_iff : forall (sig : list Z) (basis : list name) (graded : bool),
  (exists A, mk_custom sig basis graded = Ok A /\ wf_alg A = true) <-> basis_ok sig basis = true.
Proof.
  intros sig basis graded. split; [|apply wf_custom_sound].
  intros (A & HA & Hwf). rewrite <- (wf_custom_char sig basis graded A HA). exact Hwf.
Qed.

Theorem wf_custom_spec : forall (sig : list Z) (basis : list name) (graded : bool),
  (forall A, mk_custom sig basis graded = Ok A -> wf_alg A = basis_ok sig basis) /\
  ((exists A, mk_custom sig basis graded = Ok A /\ wf_alg A = true) <-> basis_ok sig basis = true).
Proof. intros sig basis graded. split; [apply wf_custom_char | apply wf_custom_iff]. Qed.

(* non-vacuity: the bases of Algebra.fromname (2DPGA, 3DPGA, STAP) are admissible; a basis spelling
   one subset twice, or ordered against the grade, is not *)
Example basis_ok_2dpga :
  basis_ok (sig_of_pqr 2 0 1) [[];[1];[2];[0];[2;0];[0;1];[1;2];[0;1;2]]%nat = true.
Proof. vm_compute. reflexivity. Qed.
Example basis_ok_3dpga :
  basis_ok (sig_of_pqr 3 0 1)
    [[];[1];[2];[3];[0];[0;1];[0;2];[0;3];[1;2];[3;1];[2;3];[0;3;2];[0;1;3];[0;2;1];[1;2;3];[0;1;2;3]]%nat = true.
Proof. vm_compute. reflexivity. Qed.
Example basis_ok_stap :
  basis_ok (sig_of_pqr 3 1 1)
    [[];[0];[1];[2];[3];[4];[0;1];[0;2];[0;3];[4;0];[1;2];[3;1];[2;3];[4;1];[4;2];[4;3];
     [2;3;4];[3;1;4];[1;2;4];[1;2;3];[0;1;4];[0;2;4];[0;3;4];[0;3;2];[0;1;3];[0;2;1];
     [0;3;2;4];[0;1;3;4];[0;2;1;4];[0;1;2;3];[1;2;3;4];[0;1;2;3;4]]%nat = true.
Proof. vm_compute. reflexivity. Qed.
Example basis_ok_rejects_double_spelling :
  basis_ok [1; 1] [[];[1];[2];[2;1]; [1;2]]%nat = false /\ basis_ok [1; 1] [[];[1];[1;2];[2;1]]%nat = false.
Proof. vm_compute. split; reflexivity. Qed.
Example basis_ok_rejects_grade_order : basis_ok [1; 1] [[];[1];[1;2];[2]]%nat = false.
Proof. vm_compute. reflexivity. Qed.

Corollary wf_named_algebras :
  (exists A, mk_custom (sig_of_pqr 2 0 1) [[];[1];[2];[0];[2;0];[0;1];[1;2];[0;1;2]]%nat false = Ok A /\ wf_alg A = true) /\
  (exists A, mk_custom (sig_of_pqr 3 0 1)
     [[];[1];[2];[3];[0];[0;1];[0;2];[0;3];[1;2];[3;1];[2;3];[0;3;2];[0;1;3];[0;2;1];[1;2;3];[0;1;2;3]]%nat false = Ok A /\
     wf_alg A = true) /\
  (exists A, mk_custom (sig_of_pqr 3 1 1)
     [[];[0];[1];[2];[3];[4];[0;1];[0;2];[0;3];[4;0];[1;2];[3;1];[2;3];[4;1];[4;2];[4;3];
      [2;3;4];[3;1;4];[1;2;4];[1;2;3];[0;1;4];[0;2;4];[0;3;4];[0;3;2];[0;1;3];[0;2;1];
      [0;3;2;4];[0;1;3;4];[0;2;1;4];[0;1;2;3];[1;2;3;4];[0;1;2;3;4]]%nat false = Ok A /\ wf_alg A = true).
Proof.
  split; [|split]; apply wf_custom_sound; [apply basis_ok_2dpga | apply basis_ok_3dpga | apply basis_ok_stap].
Qed.

