(* Theory/MatrixBranch.v — the two branches of kingdon's [matrix_rep] agree on EVERY default-basis algebra.

   Python: for a default basis the blade matrices are the products over [itertools.combinations] of the generator
   matrices (model: [matrix_rep], exposed as [matrix_basis_default_branch]); for a custom basis they are the
   products along the blade names (model: [matrix_rep_blades]; the model's [matrix_basis] uses this branch for
   every algebra).  Theory/Matrix.v compares the two by exhaustive computation for d <= 4.  Here, with no bound:

   1. [blade_indices_default]: the canonical names of a default algebra ([default_c2b]: the names of all bitmasks,
      insertion-sorted by (length, lexicographic)), turned into 0-based generator indices, are grade by grade the
      r-combinations of [seq 0 d] in the order of itertools.combinations.  Proof: both lists are strictly sorted for
      the strict total order [key_ltb] and have the same elements.
   2. [branch_Rs_eq]: hence the unordered lists [Rs] of the two branches are equal ([mat_prod] of a combination =
      the left fold along its index list, [Iden @ E = E]).
   3. [matrix_basis_default_branch_all]: the two branches return the same list of matrices, for every signature
      over {1,-1,0} of ANY length (0 included) and every start index >= 0.  (Both hypotheses are needed:
      [branch_needs_sig], [branch_needs_start].) *)
From Coq Require Import List ZArith Bool Lia Permutation Arith Sorting.Sorted.
From KV Require Import Model.All Model.Matrix Theory.WF Theory.Bits Theory.SignBits Theory.WFDefault
  Theory.Matrix Theory.MatrixAll.
Import ListNotations.
Local Open Scope Z_scope.

(* ====================================================================================== *)
(** * 0. Generic list facts *)

Lemma SS_app {X} (R : X -> X -> Prop) l1 : forall l2, StronglySorted R l1 -> StronglySorted R l2 ->
  (forall x y, In x l1 -> In y l2 -> R x y) -> StronglySorted R (l1 ++ l2).
Proof.
  induction l1 as [|a l1 IH]; intros l2 H1 H2 Hc; cbn [app]; [exact H2|].
  inversion H1 as [|a' l1' Hl1 Ha]; subst. constructor.
  - apply IH; [exact Hl1 | exact H2 |]. intros x y Hx Hy. apply Hc; [right; exact Hx | exact Hy].
  - apply Forall_app. split; [exact Ha|]. apply Forall_forall. intros y Hy. apply Hc; [left; reflexivity | exact Hy].
Qed.

Lemma SS_map_in {X Y} (f : X -> Y) (R : X -> X -> Prop) (R' : Y -> Y -> Prop) l :
  StronglySorted R l -> (forall x y, In x l -> In y l -> R x y -> R' (f x) (f y)) ->
  StronglySorted R' (map f l).
Proof.
  induction l as [|a l IH]; intros Hs Himp; cbn [map]; [constructor|].
  inversion Hs as [|a' l' Hl Ha]; subst. constructor.
  - apply IH; [exact Hl|]. intros x y Hx Hy. apply Himp; right; assumption.
  - apply Forall_forall. intros y Hy. apply in_map_iff in Hy. destruct Hy as (x & <- & Hx).
    rewrite Forall_forall in Ha. apply Himp; [left; reflexivity | right; exact Hx | apply Ha; exact Hx].
Qed.

Lemma SS_impl_in {X} (R R' : X -> X -> Prop) l :
  StronglySorted R l -> (forall x y, In x l -> In y l -> R x y -> R' x y) -> StronglySorted R' l.
Proof. intros Hs Himp. rewrite <- (map_id l). apply (SS_map_in (fun x => x) R R'); assumption. Qed.

Lemma SS_unmap {X Y} (f : X -> Y) (R : Y -> Y -> Prop) (R' : X -> X -> Prop) l :
  StronglySorted R (map f l) -> (forall x y, R (f x) (f y) -> R' x y) -> StronglySorted R' l.
Proof.
  intros Hs Himp. induction l as [|a l IH]; [constructor|]. cbn [map] in Hs.
  inversion Hs as [|a' l' Hl Ha]; subst. constructor; [apply IH; exact Hl|].
  apply Forall_forall. intros x Hx. apply Himp. rewrite Forall_forall in Ha. apply Ha. apply in_map. exact Hx.
Qed.

Lemma map_flat_map {X Y W} (f : Y -> W) (g : X -> list Y) l :
  map f (flat_map g l) = flat_map (fun x => map f (g x)) l.
Proof. induction l as [|a l IH]; cbn [flat_map map]; [reflexivity|]. rewrite map_app, IH. reflexivity. Qed.

Lemma flat_map_ext_in' {X Y} (f g : X -> list Y) l : (forall x, In x l -> f x = g x) -> flat_map f l = flat_map g l.
Proof.
  induction l as [|a l IH]; intros H; cbn [flat_map]; [reflexivity|].
  rewrite (H a (or_introl eq_refl)), IH; [reflexivity|]. intros x Hx. apply H. right. exact Hx.
Qed.

Lemma map_nth_seq {X} (dflt : X) l : map (fun i => nth i l dflt) (seq 0 (length l)) = l.
Proof.
  induction l as [|a l IH]; [reflexivity|]. cbn [length seq map nth]. f_equal.
  rewrite <- seq_shift, map_map. exact IH.
Qed.

Lemma fold_left_map {X Y W} (h : W -> Y -> W) (f : X -> Y) l : forall x,
  fold_left (fun acc i => h acc (f i)) l x = fold_left h (map f l) x.
Proof. induction l as [|a l IH]; intros x; cbn [fold_left map]; [reflexivity | apply IH]. Qed.

Lemma filter_len_le {X} (p : X -> bool) l : (length (filter p l) <= length l)%nat.
Proof. induction l as [|a l IH]; cbn [filter length]; [lia|]. destruct (p a); cbn [length]; lia. Qed.

(* ====================================================================================== *)
(** * 1. [key_ltb] (length, then lexicographic) is a strict total order on names *)

Definition klt (a b : name) : Prop := key_ltb a b = true.
Definition kle (a b : name) : Prop := key_ltb b a = false.

Lemma lex_asym a : forall b, lex_ltb a b = true -> lex_ltb b a = true -> False.
Proof.
  induction a as [|x r IH]; intros [|y s]; cbn [lex_ltb]; try discriminate.
  destruct (Nat.ltb_spec x y), (Nat.ltb_spec y x); intros A1 A2; try discriminate; try lia.
  exact (IH s A1 A2).
Qed.

Lemma lex_tri a : forall b, lex_ltb a b = false -> lex_ltb b a = false -> a = b.
Proof.
  induction a as [|x r IH]; intros [|y s]; cbn [lex_ltb]; try discriminate; [reflexivity|].
  destruct (Nat.ltb_spec x y), (Nat.ltb_spec y x); intros A1 A2; try discriminate; try lia.
  assert (x = y) by lia. subst y. f_equal. exact (IH s A1 A2).
Qed.

Lemma lex_nlt_trans a : forall b c, lex_ltb b a = false -> lex_ltb c b = false -> lex_ltb c a = false.
Proof.
  induction a as [|x r IH]; intros [|y s] [|z t]; cbn [lex_ltb]; try discriminate; try reflexivity.
  destruct (Nat.ltb_spec y x), (Nat.ltb_spec x y), (Nat.ltb_spec z y), (Nat.ltb_spec y z),
    (Nat.ltb_spec z x), (Nat.ltb_spec x z); intros A1 A2; try discriminate; try lia; try reflexivity.
  exact (IH s t A1 A2).
Qed.

Lemma key_eq_len a b : length a = length b -> key_ltb a b = lex_ltb a b.
Proof. intros E. unfold key_ltb. rewrite E, Nat.ltb_irrefl. reflexivity. Qed.

Lemma key_lt_len a b : (length a < length b)%nat -> key_ltb a b = true.
Proof. intros H. unfold key_ltb. destruct (Nat.ltb_spec (length a) (length b)); [reflexivity | lia]. Qed.

Lemma key_asym a b : klt a b -> klt b a -> False.
Proof.
  unfold klt, key_ltb.
  destruct (Nat.ltb_spec (length a) (length b)), (Nat.ltb_spec (length b) (length a));
    intros A1 A2; try discriminate; try lia.
  exact (lex_asym a b A1 A2).
Qed.

Lemma key_tri a b : key_ltb a b = false -> key_ltb b a = false -> a = b.
Proof.
  unfold key_ltb.
  destruct (Nat.ltb_spec (length a) (length b)), (Nat.ltb_spec (length b) (length a));
    intros A1 A2; try discriminate; try lia.
  exact (lex_tri a b A1 A2).
Qed.

Lemma kle_trans a b c : kle a b -> kle b c -> kle a c.
Proof.
  unfold kle, key_ltb.
  destruct (Nat.ltb_spec (length b) (length a)), (Nat.ltb_spec (length a) (length b)),
    (Nat.ltb_spec (length c) (length b)), (Nat.ltb_spec (length b) (length c)),
    (Nat.ltb_spec (length c) (length a)), (Nat.ltb_spec (length a) (length c));
    intros A1 A2; try discriminate; try lia; try reflexivity.
  exact (lex_nlt_trans a b c A1 A2).
Qed.

Lemma klt_kle a b : klt a b -> kle a b.
Proof.
  unfold kle. intros H. destruct (key_ltb b a) eqn:E; [|reflexivity]. destruct (key_asym a b H E).
Qed.

(* a strictly sorted list is determined by its elements *)
Lemma sorted_klt_unique l1 : forall l2, StronglySorted klt l1 -> StronglySorted klt l2 ->
  (forall x, In x l1 <-> In x l2) -> l1 = l2.
Proof.
  induction l1 as [|a r1 IH]; intros [|b r2] H1 H2 Hin.
  - reflexivity.
  - destruct (proj2 (Hin b) (or_introl eq_refl)).
  - destruct (proj1 (Hin a) (or_introl eq_refl)).
  - inversion H1 as [|a' r1' Hr1 Ha]; inversion H2 as [|b' r2' Hr2 Hb]; subst.
    rewrite Forall_forall in Ha, Hb.
    assert (E : a = b).
    { destruct (proj1 (Hin a) (or_introl eq_refl)) as [E|Hi]; [auto|].
      destruct (proj2 (Hin b) (or_introl eq_refl)) as [E|Hi']; [auto|].
      destruct (key_asym a b (Ha b Hi') (Hb a Hi)). }
    subst b. f_equal. apply IH; [exact Hr1 | exact Hr2 |]. intros x. split; intros Hx.
    + destruct (proj1 (Hin x) (or_intror Hx)) as [E|Hi]; [|exact Hi]. subst x.
      destruct (key_asym a a (Ha a Hx) (Ha a Hx)).
    + destruct (proj2 (Hin x) (or_intror Hx)) as [E|Hi]; [|exact Hi]. subst x.
      destruct (key_asym a a (Hb a Hx) (Hb a Hx)).
Qed.

(* ====================================================================================== *)
(** * 2. The insertion sort of [default_c2b] sorts (weakly) by [key_ltb]; without duplicates, strictly *)

Definition pkle (x y : name * Z) : Prop := kle (fst x) (fst y).

Lemma insert_sorted_kle x l : StronglySorted pkle l -> StronglySorted pkle (insert_sorted x l).
Proof.
  induction l as [|y r IH]; intros Hs; cbn [insert_sorted].
  - constructor; constructor.
  - inversion Hs as [|y' r' Hr Hy]; subst.
    destruct (key_ltb (fst x) (fst y)) eqn:E.
    + constructor; [exact Hs|]. constructor; [apply klt_kle; exact E|].
      eapply Forall_impl; [|exact Hy]. intros z Hz. unfold pkle in *.
      eapply kle_trans; [apply klt_kle; exact E | exact Hz].
    + constructor; [apply IH; exact Hr|].
      apply Forall_forall. intros z Hz. apply (Permutation_in _ (insert_sorted_perm x r)) in Hz.
      destruct Hz as [<-|Hz]; [exact E|].
      rewrite Forall_forall in Hy. apply Hy. exact Hz.
Qed.

Lemma sort_c2b_kle l : StronglySorted pkle (sort_c2b l).
Proof.
  unfold sort_c2b. assert (H : StronglySorted pkle []) by constructor. revert H. generalize (@nil (name * Z)).
  induction l as [|x l IH]; intros acc Hacc; cbn [fold_left]; [exact Hacc|].
  apply IH. apply insert_sorted_kle. exact Hacc.
Qed.

Lemma kle_klt_sorted l : StronglySorted kle l -> NoDup l -> StronglySorted klt l.
Proof.
  induction l as [|a l IH]; intros Hs Hnd; [constructor|].
  inversion Hs as [|a' l' Hl Ha]; subst. inversion Hnd as [|a' l' Hn Hndl]; subst.
  constructor; [apply IH; assumption|]. apply Forall_forall. intros x Hx.
  rewrite Forall_forall in Ha. specialize (Ha x Hx). unfold kle in Ha. unfold klt.
  destruct (key_ltb a x) eqn:E; [reflexivity|]. exfalso. apply Hn.
  rewrite (key_tri a x E Ha). exact Hx.
Qed.

(* the canonical names of a default algebra ascend strictly for (length, lexicographic) *)
Lemma c2b_names_klt d start : 0 <= start -> StronglySorted klt (map fst (default_c2b d start)).
Proof.
  intros Hs. apply kle_klt_sorted; [|apply c2b_names_nodup; exact Hs].
  apply (SS_map_in fst pkle kle); [apply sort_c2b_kle|]. intros x y _ _ H. exact H.
Qed.

(* ====================================================================================== *)
(** * 3. itertools.combinations *)

Lemma comb_cons_r {X} (a : X) l r x : In x (combinations l r) -> In x (combinations (a :: l) r).
Proof. destruct r as [|r]; cbn [combinations]; [destruct l; auto|]. intros H. apply in_or_app. right. exact H. Qed.

Lemma In_comb {X} (l : list X) : forall r x, In x (combinations l r) -> incl x l /\ length x = r.
Proof.
  induction l as [|a l IH]; intros [|r] x Hx; cbn [combinations] in Hx.
  - destruct Hx as [<-|[]]. split; [intros y []|reflexivity].
  - destruct Hx.
  - destruct Hx as [<-|[]]. split; [intros y []|reflexivity].
  - apply in_app_or in Hx. destruct Hx as [Hx|Hx].
    + apply in_map_iff in Hx. destruct Hx as (x' & <- & Hx'). destruct (IH r x' Hx') as [Hi Hl].
      split; [|cbn [length]; lia]. intros y [<-|Hy]; [left; reflexivity | right; apply Hi; exact Hy].
    + destruct (IH (S r) x Hx) as [Hi Hl]. split; [|exact Hl]. intros y Hy. right. apply Hi. exact Hy.
Qed.

Lemma comb_1 {X} (l : list X) : combinations l 1 = map (fun i => [i]) l.
Proof.
  induction l as [|a l IH]; [reflexivity|]. cbn [combinations map app]. rewrite IH.
  destruct l; reflexivity.
Qed.

Lemma comb_map {X Y} (f : X -> Y) l : forall r, combinations (map f l) r = map (map f) (combinations l r).
Proof.
  induction l as [|a l IH]; intros [|r]; cbn [map combinations]; try reflexivity.
  rewrite map_app, !IH, !map_map. reflexivity.
Qed.

Lemma filter_in_comb {X} (p : X -> bool) l : In (filter p l) (combinations l (length (filter p l))).
Proof.
  induction l as [|a l IH]; cbn [filter]; [left; reflexivity|].
  destruct (p a).
  - cbn [length combinations]. apply in_or_app. left. apply in_map. exact IH.
  - apply comb_cons_r. exact IH.
Qed.

(* a combination of a duplicate-free list is recovered by filtering with its membership test *)
Lemma filter_memb_comb s : forall r l, NoDup s -> In l (combinations s r) -> filter (fun j => memb j l) s = l.
Proof.
  induction s as [|a s IH]; intros [|r] l Hnd Hl; cbn [combinations] in Hl.
  - destruct Hl as [<-|[]]. reflexivity.
  - destruct Hl.
  - destruct Hl as [<-|[]]. cbn [filter memb existsb]. apply (IH 0%nat []); [inversion Hnd; assumption|].
    destruct s; left; reflexivity.
  - inversion Hnd as [|a' s' Hna Hnds]; subst. apply in_app_or in Hl. destruct Hl as [Hl|Hl].
    + apply in_map_iff in Hl. destruct Hl as (l' & <- & Hl'). cbn [filter].
      replace (memb a (a :: l')) with true by (unfold memb; cbn [existsb]; rewrite Nat.eqb_refl; reflexivity).
      f_equal. transitivity (filter (fun j => memb j l') s); [|exact (IH r l' Hnds Hl')].
      apply filter_ext_in. intros j Hj.
      unfold memb. cbn [existsb]. destruct (Nat.eqb_spec j a) as [->|]; [contradiction | reflexivity].
    + cbn [filter]. destruct (memb a l) eqn:E; [|apply (IH (S r)); assumption].
      apply memb_In in E. destruct (In_comb s (S r) l Hl) as [Hi _]. destruct (Hna (Hi a E)).
Qed.

(* lexicographic order of the combinations of an ascending list *)
Lemma comb_lex_sorted s : forall r, StronglySorted Nat.lt s ->
  StronglySorted (fun a b => lex_ltb a b = true) (combinations s r).
Proof.
  induction s as [|a s IH]; intros [|r] Hs; cbn [combinations]; try (repeat constructor).
  inversion Hs as [|a' s' Hss Ha]; subst. apply SS_app.
  - apply (SS_map_in (cons a) (fun a b => lex_ltb a b = true)); [apply IH; exact Hss|].
    intros x y _ _ H. cbn [lex_ltb]. rewrite Nat.ltb_irrefl. exact H.
  - apply IH. exact Hss.
  - intros x y Hx Hy. apply in_map_iff in Hx. destruct Hx as (x' & <- & _).
    destruct (In_comb s (S r) y Hy) as [Hi Hl]. destruct y as [|b y']; [discriminate|].
    rewrite Forall_forall in Ha. specialize (Ha b (Hi b (or_introl eq_refl))). unfold Nat.lt in Ha.
    cbn [lex_ltb]. destruct (Nat.ltb_spec a b); [reflexivity | lia].
Qed.

Lemma comb_klt_sorted s r : StronglySorted Nat.lt s -> StronglySorted klt (combinations s r).
Proof.
  intros Hs. apply (SS_impl_in (fun a b => lex_ltb a b = true)); [apply comb_lex_sorted; exact Hs|].
  intros x y Hx Hy H. unfold klt. rewrite key_eq_len; [exact H|].
  rewrite (proj2 (In_comb s r x Hx)), (proj2 (In_comb s r y Hy)). reflexivity.
Qed.

(* all grades in turn: ascending for (length, lexicographic) *)
Lemma grades_klt_sorted s : StronglySorted Nat.lt s -> forall n a,
  StronglySorted klt (flat_map (combinations s) (seq a n)).
Proof.
  intros Hs. induction n as [|n IH]; intros a; cbn [seq flat_map]; [constructor|].
  apply SS_app; [apply comb_klt_sorted; exact Hs | apply IH |].
  intros x y Hx Hy. apply in_flat_map in Hy. destruct Hy as (r & Hr & Hy). apply in_seq in Hr.
  unfold klt. apply key_lt_len. rewrite (proj2 (In_comb s a x Hx)), (proj2 (In_comb s r y Hy)). lia.
Qed.

(* ====================================================================================== *)
(** * 4. The bitmask of an index list *)

Definition kof (l : list nat) : Z := fold_right (fun i acc => Z.lor (2 ^ Z.of_nat i) acc) 0 l.

Lemma kof_bit l j : Z.testbit (kof l) (Z.of_nat j) = memb j l.
Proof.
  induction l as [|i l IH]; cbn [kof fold_right]; [apply Z.bits_0|].
  fold (kof l). rewrite Z.lor_spec, IH, pow2_bit by lia. unfold memb. cbn [existsb]. f_equal.
  destruct (Z.eqb_spec (Z.of_nat i) (Z.of_nat j)), (Nat.eqb_spec j i); try reflexivity; lia.
Qed.

Lemma kof_range l d : (forall i, In i l -> (i < d)%nat) -> 0 <= kof l <= 2 ^ Z.of_nat d - 1.
Proof.
  induction l as [|i l IH]; intros H; cbn [kof fold_right].
  - assert (0 < 2 ^ Z.of_nat d) by (apply pow2_pos; lia). lia.
  - fold (kof l). apply lor_le_ones; [lia | | apply IH; intros j Hj; apply H; right; exact Hj].
    assert (Hi : (i < d)%nat) by (apply H; left; reflexivity).
    assert (0 < 2 ^ Z.of_nat i) by (apply pow2_pos; lia).
    assert (2 ^ Z.of_nat i < 2 ^ Z.of_nat d) by (apply Z.pow_lt_mono_r; lia). lia.
Qed.

(* ====================================================================================== *)
(** * 5. The canonical blades of a default algebra, as index tuples *)

(* what the combinations branch enumerates: (), the d singletons, then grades 2 .. d *)
Definition default_index_blades (d : nat) : list (list nat) :=
  [] :: map (fun i => [i]) (seq 0 d) ++ flat_map (fun r => combinations (seq 0 d) r) (seq 2 (d - 1)).

Definition subsets (d : nat) : list (list nat) := flat_map (combinations (seq 0 d)) (seq 0 (S d)).

Lemma subsets_eq d : subsets d = default_index_blades d.
Proof.
  unfold subsets, default_index_blades. destruct d as [|d]; [reflexivity|].
  replace (S d - 1)%nat with d by lia.
  change (seq 0 (S (S d))) with (0 :: 1 :: seq 2 d)%nat. cbn [flat_map].
  rewrite comb_1. destruct (seq 0 (S d)); reflexivity.
Qed.

Lemma seq_lt_sorted n : forall a, StronglySorted Nat.lt (seq a n).
Proof.
  induction n as [|n IH]; intros a; cbn [seq]; constructor; [apply IH|].
  apply Forall_forall. intros x Hx. apply in_seq in Hx. unfold Nat.lt. lia.
Qed.

Lemma subsets_sorted d : StronglySorted klt (subsets d).
Proof. apply grades_klt_sorted. apply seq_lt_sorted. Qed.

Section DefaultBlades.
Variable d : nat.
Variable start : Z.
Hypothesis Hstart : 0 <= start.

Let ungen (g : nat) : nat := Z.to_nat (Z.of_nat g - start).
Let bits (b : Z) : list nat := filter (fun ei => Z.testbit b (Z.of_nat ei)) (seq 0 d).
Definition index_blades : list (list nat) := map (fun nb => map ungen (fst nb)) (default_c2b d start).

Lemma ungen_gen l : map ungen (map (gen start) l) = l.
Proof.
  rewrite map_map. rewrite <- (map_id l) at 2. apply map_ext. intros i. unfold ungen, gen. lia.
Qed.

Lemma In_index_blades l : In l index_blades <-> exists b, 0 <= b < 2 ^ Z.of_nat d /\ l = bits b.
Proof.
  unfold index_blades. rewrite in_map_iff. split.
  - intros ([n b] & <- & Hin). apply c2b_entry in Hin. destruct Hin as [Hb ->]. exists b. split; [exact Hb|].
    cbn [fst]. rewrite default_name_filter. apply ungen_gen.
  - intros (b & Hb & ->). exists (default_name d start b, b). split.
    + cbn [fst]. rewrite default_name_filter. apply ungen_gen.
    + apply c2b_entry. split; [exact Hb | reflexivity].
Qed.

Lemma names_of_index_blades : map fst (default_c2b d start) = map (map (gen start)) index_blades.
Proof.
  unfold index_blades. rewrite map_map. apply map_ext_in. intros [n b] Hin. cbn [fst].
  apply c2b_entry in Hin. destruct Hin as [_ ->]. rewrite default_name_filter, ungen_gen. reflexivity.
Qed.

Lemma lex_gen a : forall b, lex_ltb (map (gen start) a) (map (gen start) b) = lex_ltb a b.
Proof.
  induction a as [|x r IH]; intros [|y s]; cbn [map lex_ltb]; try reflexivity.
  rewrite IH. unfold gen.
  destruct (Nat.ltb_spec x y), (Nat.ltb_spec y x),
    (Nat.ltb_spec (Z.to_nat (Z.of_nat x + start)) (Z.to_nat (Z.of_nat y + start))),
    (Nat.ltb_spec (Z.to_nat (Z.of_nat y + start)) (Z.to_nat (Z.of_nat x + start))); try reflexivity; lia.
Qed.

Lemma key_gen a b : key_ltb (map (gen start) a) (map (gen start) b) = key_ltb a b.
Proof. unfold key_ltb. rewrite !map_length, lex_gen. reflexivity. Qed.

Lemma index_blades_sorted : StronglySorted klt index_blades.
Proof.
  apply (SS_unmap (map (gen start)) klt klt).
  - rewrite <- names_of_index_blades. apply c2b_names_klt. exact Hstart.
  - intros x y. unfold klt. rewrite key_gen. auto.
Qed.

Lemma index_blades_subsets l : In l index_blades <-> In l (subsets d).
Proof.
  rewrite In_index_blades. unfold subsets. rewrite in_flat_map. split.
  - intros (b & _ & ->). exists (length (bits b)). split; [|apply filter_in_comb].
    apply in_seq. pose proof (filter_len_le (fun ei => Z.testbit b (Z.of_nat ei)) (seq 0 d)) as H.
    rewrite seq_length in H. unfold bits. lia.
  - intros (r & _ & Hl). exists (kof l). destruct (In_comb _ _ _ Hl) as [Hi _]. split.
    + assert (H : 0 <= kof l <= 2 ^ Z.of_nat d - 1); [|lia].
      apply kof_range. intros i Hin. apply Hi, in_seq in Hin. lia.
    + unfold bits. rewrite (filter_ext _ (fun j => memb j l)) by (intros j; apply kof_bit).
      symmetry. apply (filter_memb_comb _ r); [apply seq_NoDup | exact Hl].
Qed.

Theorem index_blades_eq : index_blades = default_index_blades d.
Proof.
  rewrite <- subsets_eq. apply sorted_klt_unique;
    [apply index_blades_sorted | apply subsets_sorted | apply index_blades_subsets].
Qed.
End DefaultBlades.

(* the tuples [blade_indices] hands to [matrix_rep] for a default basis: grade by grade the r-combinations of
   0 .. d-1 in the order of itertools.combinations *)
Theorem blade_indices_default sig start graded : 0 <= start ->
  blade_indices (mk_default sig start graded) = default_index_blades (length sig).
Proof. intros Hs. rewrite <- (index_blades_eq (length sig) start Hs). reflexivity. Qed.

(* ====================================================================================== *)
(** * 6. The two branches of matrix_rep *)

(* reduce(matmul, comb) over the r-combinations of the generator matrices = the left fold from the identity
   along the r-combinations of the indices, for r >= 1 *)
Lemma comb_prod (Es : list mat) (Id : mat) r : (1 <= r)%nat ->
  (forall i, (i < length Es)%nat -> mat_mul Id (nth i Es []) = nth i Es []) ->
  map (fun bl => fold_left (fun acc i => mat_mul acc (nth i Es [])) bl Id) (combinations (seq 0 (length Es)) r)
  = map mat_prod (combinations Es r).
Proof.
  intros Hr HId.
  assert (E : combinations Es r = map (map (fun i => nth i Es [])) (combinations (seq 0 (length Es)) r)).
  { rewrite <- comb_map, map_nth_seq. reflexivity. }
  rewrite E, map_map. apply map_ext_in. intros l Hl. destruct (In_comb _ _ _ Hl) as [Hi Hlen].
  destruct l as [|i l]; [cbn [length] in Hlen; lia|]. cbn [map mat_prod fold_left].
  rewrite HId by (apply in_seq0, Hi; left; reflexivity). apply fold_left_map.
Qed.

Lemma branch_Rs_eq (Es : list mat) (Id : mat) :
  (forall i, (i < length Es)%nat -> mat_mul Id (nth i Es []) = nth i Es []) ->
  map (fun bl => fold_left (fun acc i => mat_mul acc (nth i Es [])) bl Id) (default_index_blades (length Es))
  = Id :: Es ++ flat_map (fun i => map mat_prod (combinations Es i)) (seq 2 (length Es - 1)).
Proof.
  intros HId. unfold default_index_blades. cbn [map fold_left]. f_equal. rewrite map_app. f_equal.
  - rewrite map_map. transitivity (map (fun i => nth i Es []) (seq 0 (length Es))); [|apply map_nth_seq].
    apply map_ext_in. intros i Hi.
    cbn [fold_left]. apply HId. apply in_seq0. exact Hi.
  - rewrite map_flat_map. apply flat_map_ext_in'. intros r Hr. apply in_seq in Hr.
    apply comb_prod; [lia | exact HId].
Qed.

Lemma In_gen_mats_wfm d sig E : (forall s, In s sig -> sig_val s) -> length sig = d ->
  In E (gen_mats_from 0 d (map smat sig)) -> wfm (2 ^ d) E.
Proof.
  intros Hsig Hd HE. destruct (In_nth _ _ [] HE) as (j & Hj & <-).
  rewrite gen_mats_length, map_length in Hj. rewrite nth_gen_mats by (rewrite map_length; exact Hj).
  cbn [Nat.add]. assert (Hin : In (nth j (map smat sig) []) (map smat sig)) by (apply nth_In; rewrite map_length; exact Hj).
  apply in_map_iff in Hin. destruct Hin as (s & <- & _). apply wfm_Egen. lia.
Qed.

(* MAIN THEOREM: for every default-basis algebra the blades branch (the model's [matrix_basis]) and the
   combinations branch (what the Python runs for a default basis) return the same list of matrices *)
Theorem matrix_basis_default_branch_all : forall sig start,
  Forall (fun s => s = 1 \/ s = -1 \/ s = 0) sig -> 0 <= start ->
  matrix_basis (mk_default sig start false) = matrix_basis_default_branch (mk_default sig start false).
Proof.
  intros sig start Hsig Hstart. rewrite Forall_forall in Hsig.
  unfold matrix_basis, matrix_basis_default_branch, matrix_rep_blades, matrix_rep. cbv zeta.
  rewrite blade_indices_default by exact Hstart. cbn [a_sig mk_default].
  rewrite (sig_mats_map sig Hsig), map_length.
  set (d := length sig). set (Es := gen_mats_from 0 d (map smat sig)).
  assert (HlenEs : length Es = d) by (unfold Es; rewrite gen_mats_length, map_length; reflexivity).
  assert (HRs : map (fun bl => fold_left (fun acc i => mat_mul acc (nth i Es [])) bl (kron_all (repeat I2 d)))
                  (default_index_blades d)
                = kron_all (repeat I2 d) :: Es ++ flat_map (fun i => map mat_prod (combinations Es i)) (seq 2 (d - 1))).
  { rewrite <- HlenEs. apply branch_Rs_eq. intros i Hi. rewrite HlenEs. apply (mat_mul_Iden_l d).
    apply (In_gen_mats_wfm d sig); [exact Hsig | reflexivity |]. apply nth_In. exact Hi. }
  rewrite HRs. reflexivity.
Qed.

(* the statement for the algebras of at least one generator (Algebra(0) does not reach matrix_rep in Python) *)
Corollary matrix_basis_default_branch_all_dim : forall sig start,
  Forall (fun s => s = 1 \/ s = -1 \/ s = 0) sig -> 0 <= start -> (1 <= length sig)%nat ->
  matrix_basis (mk_default sig start false) = matrix_basis_default_branch (mk_default sig start false).
Proof. intros sig start Hsig Hstart _. apply matrix_basis_default_branch_all; assumption. Qed.

(* the combinatorial lemma in the other encoding: the NAMES of a default algebra are the combinations of its digits *)
Corollary default_names_combinations d start : 0 <= start ->
  map fst (default_c2b d start) = map (map (gen start)) (default_index_blades d).
Proof. intros Hs. rewrite <- (index_blades_eq d start Hs). apply names_of_index_blades. exact Hs. Qed.

(* ---- non-vacuity and necessity of the hypotheses ---- *)
Example branch_d5_start3 :
  matrix_basis (mk_default [1; 1; -1; 0; 1] 3 false) = matrix_basis_default_branch (mk_default [1; 1; -1; 0; 1] 3 false).
Proof. apply matrix_basis_default_branch_all; [repeat (apply Forall_cons; [lia|]); apply Forall_nil | lia]. Qed.

Example blade_indices_d3 : blade_indices (mk_default [1; 1; 1] 1 false)
  = [[]; [0]; [1]; [2]; [0; 1]; [0; 2]; [1; 2]; [0; 1; 2]]%nat.
Proof. vm_compute. reflexivity. Qed.

(* a signature entry outside {1,-1,0} (refused by Algebra) is skipped by matrix_rep: the branches then differ *)
Example branch_needs_sig :
  matrix_basis (mk_default [1; 2; 1] 1 false) <> matrix_basis_default_branch (mk_default [1; 2; 1] 1 false).
Proof. vm_compute. discriminate. Qed.

(* a negative start index: the digits of the names collapse *)
Example branch_needs_start :
  matrix_basis (mk_default [1; 1] (-1) false) <> matrix_basis_default_branch (mk_default [1; 1] (-1) false).
Proof. vm_compute. discriminate. Qed.
