(* Theory/WF.v — decidable well-formedness of a model algebra (evaluated by vm_compute for every
   algebra the correspondence explores; hypothesis of the sign theorems). *)
From KV Require Import Model.All.
Local Open Scope Z_scope.

Fixpoint nodupb (l : list nat) : bool :=
  match l with [] => true | x :: r => negb (existsb (Nat.eqb x) r) && nodupb r end.
Fixpoint znodupb (l : list Z) : bool :=
  match l with [] => true | x :: r => negb (existsb (Z.eqb x) r) && znodupb r end.
Fixpoint lens_sorted (l : list (name * Z)) : bool :=
  match l with
  | a :: ((b :: _) as r) => Nat.leb (length (fst a)) (length (fst b)) && lens_sorted r
  | _ => true
  end.

Definition wf_alg (A : alg) : bool :=
  let vecs := vecs_of (map fst (a_c2b A)) in
  nodupb vecs
  && Nat.eqb (length vecs) (a_d A)
  && Nat.eqb (length (a_sig A)) (a_d A)
  && forallb (fun s => Z.eqb s 1 || Z.eqb s (-1) || Z.eqb s 0) (a_sig A)
  && forallb (fun g => (a_start A <=? Z.of_nat g) && (Z.of_nat g - a_start A <? Z.of_nat (a_d A))) vecs
  && forallb (fun nb => nodupb (fst nb) && opt_eqb Z.eqb (name_bin vecs (fst nb)) (Some (snd nb))) (a_c2b A)
  && znodupb (map snd (a_c2b A))
  && Nat.eqb (length (a_c2b A)) (2 ^ a_d A)
  && lens_sorted (a_c2b A).
