(* Theory/Construct.v — C15: construction of multivectors (MultiVector.__new__, Model/Construct.v) and the
   coefficient accessors round-trip, for EVERY well-formed algebra (wf_alg A = true) and every commutative
   ring of coefficients.

   1. spellings:  [spells A n K]  = n is a duplicate-free list of generators whose bits XOR to K;
      _blade2canon on a spelling returns the table's name c of K and a swap count whose parity is the
      parity of the permutation n -> c  ([inv2 n] xor [inv2 c]);  on a name with a letter that is no
      generator it returns None;
   2. accessors: getattr (parity rule, absent = 0, non-blade names), contains, items, asfullmv, map,
      filter, grade;
   3. the constructor: for each construction form an IFF  "construct = Ok m  <->  the input is consistent
      and m is exactly what was supplied"; the round-trip theorems and the error clauses of the property
      are corollaries.

   Documented exclusions (hypotheses, not defects of the statement): spellings that repeat a generator
   (e11, e121), the same blade supplied twice under two spellings (e12 and e21), duplicate keys in
   keys= (reading back through first-match accessors needs NoDup). *)
From Coq Require Import List ZArith Bool Ring Lia Permutation.
From KV Require Import Model.All Model.Construct Theory.WF Theory.Words Theory.Sign Theory.Bits Theory.Sparse
  Theory.Product Theory.Ops Theory.SignBits Theory.OpsWF.
Import ListNotations.
Local Open Scope Z_scope.

(* ====================================================================================== *)
(** * 0. Small list / result lemmas *)

Lemma res_cases {X} (r : res X) : (exists x, r = Ok x) \/ (exists e, r = Err e).
Proof. destruct r as [x|e]; [left; exists x | right; exists e]; reflexivity. Qed.

Lemma not_ok_err {X} (r : res X) : (forall x, r <> Ok x) -> exists e, r = Err e.
Proof. destruct r as [x|e]; intros H; [exfalso; apply (H x); reflexivity | exists e; reflexivity]. Qed.

Lemma mapM_res_ok {X Y} (f : X -> res Y) (g : X -> Y) (l : list X) :
  (forall x, In x l -> f x = Ok (g x)) -> mapM_res f l = Ok (map g l).
Proof.
  induction l as [|x r IH]; intros H; [reflexivity|]. cbn [mapM_res map].
  rewrite (H x (or_introl eq_refl)). cbn [bind]. rewrite IH; [reflexivity|].
  intros y Hy. apply H. right. exact Hy.
Qed.

Lemma mapM_res_inv {X Y} (f : X -> res Y) (l : list X) ys :
  mapM_res f l = Ok ys -> Forall2 (fun x y => f x = Ok y) l ys.
Proof.
  revert ys. induction l as [|x r IH]; intros ys H; cbn [mapM_res] in H.
  - injection H as <-. constructor.
  - destruct (f x) as [y|e] eqn:Ef; cbn [bind] in H; [|discriminate].
    destruct (mapM_res f r) as [ys'|e] eqn:Er; cbn [bind] in H; [|discriminate].
    injection H as <-. constructor; [exact Ef | apply IH; reflexivity].
Qed.

Lemma mapM_res_of_Forall2 {X Y} (f : X -> res Y) (l : list X) ys :
  Forall2 (fun x y => f x = Ok y) l ys -> mapM_res f l = Ok ys.
Proof.
  intros H. induction H as [|x y l ys Hxy _ IH]; [reflexivity|].
  cbn [mapM_res]. rewrite Hxy. cbn [bind]. rewrite IH. reflexivity.
Qed.

Lemma list_eqb_Z_eq (a b : list Z) : list_eqb Z.eqb a b = true <-> a = b.
Proof.
  revert b. induction a as [|x a IH]; intros [|y b]; cbn [list_eqb]; split; intros H;
    try reflexivity; try discriminate.
  - apply andb_prop in H. destruct H as [H1 H2]. apply Z.eqb_eq in H1. apply IH in H2. congruence.
  - injection H as -> ->. rewrite Z.eqb_refl. cbn [andb]. apply IH. reflexivity.
Qed.

Lemma isnil_true {X} (l : list X) : isnil l = true <-> l = [].
Proof. destruct l; cbn [isnil]; split; intros H; try reflexivity; discriminate. Qed.

Lemma isnil_false {X} (l : list X) : isnil l = false <-> l <> [].
Proof. destruct l; cbn [isnil]; split; intros H; try reflexivity; try discriminate; congruence. Qed.

Lemma forallb_zin_incl (ks full : list Z) : forallb (fun k => zin k full) ks = true <-> incl ks full.
Proof.
  rewrite forallb_forall. unfold incl. split; intros H k Hk.
  - apply zin_true_iff. apply H. exact Hk.
  - apply zin_true_iff. apply H. exact Hk.
Qed.

(* ====================================================================================== *)
(** * 1. Spellings and _blade2canon *)

(* n spells the blade with key K: distinct generators of the algebra whose bits XOR to K *)
Definition spells (A : alg) (n : name) (K : Z) : Prop :=
  NoDup n /\ name_bin (alg_vecs A) n = Some K.

(* the sign a spelling n carries relative to the table's name c of the same blade: parity of the
   permutation n -> c *)
Definition sp_odd (n c : name) : bool := xorb (inv2 n) (inv2 c).

Section Spell.
  Variable A : alg.
  Hypothesis Hwf : wf_alg A = true.
  Local Notation vecs := (alg_vecs A).
  Local Notation L := (alg_len A).

  Lemma gen_bin_vec g : In g vecs -> gen_bin A g = 2 ^ gpos A g.
  Proof. intros Hg. apply (genbit_spec A Hwf g Hg). Qed.

  Lemma gen_bin_nonvec g : ~ In g vecs -> gen_bin A g = L.
  Proof.
    intros Hg. unfold gen_bin. destruct (canon2bin A [g]) as [b|] eqn:E; [|reflexivity].
    exfalso. apply Hg. unfold canon2bin in E. apply find_by_name_In in E.
    unfold alg_vecs. apply In_vecs_of. apply in_map_iff. exists ([g], b). split; [reflexivity | exact E].
  Qed.

  Lemma fold_lor_bits n : (forall g, In g n -> In g vecs) -> forall acc k, 0 <= k ->
    Z.testbit (fold_left (fun a g => Z.lor a (gen_bin A g)) n acc) k
    = Z.testbit acc k || existsb (fun g => gpos A g =? k) n.
  Proof.
    induction n as [|x r IH]; intros Hn acc k Hk; cbn [fold_left existsb].
    - rewrite orb_false_r. reflexivity.
    - rewrite IH by (try lia; intros g Hg; apply Hn; right; exact Hg).
      rewrite Z.lor_spec, (gen_bin_vec x (Hn x (or_introl eq_refl))).
      pose proof (gpos_range A Hwf x (Hn x (or_introl eq_refl))) as Hr.
      rewrite pow2_bit by lia. rewrite orb_assoc. reflexivity.
  Qed.

  Lemma fold_lor_mono n : forall acc k, 0 <= k -> Z.testbit acc k = true ->
    Z.testbit (fold_left (fun a g => Z.lor a (gen_bin A g)) n acc) k = true.
  Proof.
    induction n as [|x r IH]; intros acc k Hk H; cbn [fold_left]; [exact H|].
    apply IH; [exact Hk|]. rewrite Z.lor_spec, H. reflexivity.
  Qed.

  Lemma fold_lor_nonneg n : forall acc, 0 <= acc -> 0 <= fold_left (fun a g => Z.lor a (gen_bin A g)) n acc.
  Proof.
    induction n as [|x r IH]; intros acc Ha; cbn [fold_left]; [exact Ha|].
    apply IH. apply Z.lor_nonneg. split; [exact Ha|].
    unfold gen_bin. destruct (canon2bin A [x]) as [b|] eqn:E.
    - unfold canon2bin in E. apply find_by_name_In in E.
      apply (c2b_entry_spec A Hwf) in E. lia.
    - pose proof (alg_len_pos A). lia.
  Qed.

  (* the OR of the generator keys of a spelling is the key of its blade *)
  Lemma fold_lor_spells n K : spells A n K ->
    fold_left (fun a g => Z.lor a (gen_bin A g)) n 0 = K.
  Proof.
    intros [Hnd Hb].
    assert (Hin : forall g, In g n -> In g vecs)
      by (intros g Hg; apply (name_bin_in vecs (wf_vecs_nodup A Hwf) n K Hb g Hg)).
    apply Z.bits_inj'. intros k Hk. rewrite fold_lor_bits, Z.bits_0 by assumption. cbn [orb].
    apply bool_eq_of_iff. rewrite existsb_exists.
    rewrite (name_bin_bits vecs (wf_vecs_nodup A Hwf) n K Hnd Hb k). split.
    - intros (g & Hg & E). apply Z.eqb_eq in E. exists g. split; [exact Hg|]. symmetry. exact E.
    - intros (g & Hg & E). exists g. split; [exact Hg|]. apply Z.eqb_eq. symmetry. exact E.
  Qed.

  Lemma spells_range n K : spells A n K -> 0 <= K < L.
  Proof.
    intros [_ Hb]. pose proof (name_bin_range vecs (wf_vecs_nodup A Hwf) n K Hb) as H.
    rewrite (wf_vecs_len A Hwf) in H. unfold alg_len. lia.
  Qed.

  Lemma spells_mem n K g : spells A n K -> (In g n <-> In g vecs /\ Z.testbit K (gpos A g) = true).
  Proof.
    intros [Hnd Hb]. split.
    - intros Hg. assert (Hv : In g vecs) by (apply (name_bin_in vecs (wf_vecs_nodup A Hwf) n K Hb g Hg)).
      split; [exact Hv|]. apply (name_bin_bits vecs (wf_vecs_nodup A Hwf) n K Hnd Hb). exists g. auto.
    - intros [Hv Ht]. apply (name_bin_bits vecs (wf_vecs_nodup A Hwf) n K Hnd Hb) in Ht.
      destruct Ht as (g' & Hg' & E).
      assert (Hv' : In g' vecs) by (apply (name_bin_in vecs (wf_vecs_nodup A Hwf) n K Hb g' Hg')).
      rewrite (gpos_inj A Hwf g g' Hv Hv' E). exact Hg'.
  Qed.

  (* the table's own name spells its key *)
  Lemma canon_spells K c : bin2canon A K = Some c -> spells A c K.
  Proof.
    intros H. split; [apply (bin2canon_NoDup A Hwf K c H) | apply (bin2canon_name_bin A Hwf K c H)].
  Qed.

  (* any spelling of K is a permutation of the table's name of K *)
  Lemma spells_perm n K c : spells A n K -> bin2canon A K = Some c -> Permutation n c.
  Proof.
    intros Hs Hc. apply NoDup_Permutation; [apply Hs | apply (bin2canon_NoDup A Hwf K c Hc) |].
    intros g. rewrite (spells_mem n K g Hs), (name_mem A Hwf K c g Hc). tauto.
  Qed.

  (* conversely every duplicate-free permutation of a table name spells that blade *)
  Lemma perm_spells n K c : bin2canon A K = Some c -> Permutation n c -> spells A n K.
  Proof.
    intros Hc Hp. pose proof (canon_spells K c Hc) as [Hnd Hb].
    assert (Hndn : NoDup n) by (apply (Permutation_NoDup (Permutation_sym Hp)); exact Hnd).
    split; [exact Hndn|].
    destruct (name_bin_total vecs (wf_vecs_nodup A Hwf) n) as (b & Hbn).
    { intros g Hg. apply (name_in_vecs A Hwf K c g Hc). apply (Permutation_in g Hp Hg). }
    rewrite Hbn. f_equal. apply Z.bits_inj'. intros k _. apply bool_eq_of_iff.
    rewrite (name_bin_bits vecs (wf_vecs_nodup A Hwf) n b Hndn Hbn k),
            (name_bin_bits vecs (wf_vecs_nodup A Hwf) c K Hnd Hb k).
    split; intros (g & Hg & E); exists g; (split; [|exact E]).
    - apply (Permutation_in g Hp Hg).
    - apply (Permutation_in g (Permutation_sym Hp) Hg).
  Qed.

  Lemma canon2bin_spells n b : canon2bin A n = Some b -> spells A n b /\ bin2canon A b = Some n.
  Proof.
    intros H. unfold canon2bin in H. apply find_by_name_In in H.
    split; [apply (wf_entry A Hwf n b H) | apply (c2b_entry_spec A Hwf n b H)].
  Qed.

  Lemma spells_inj n K K' : spells A n K -> spells A n K' -> K = K'.
  Proof. intros [_ H1] [_ H2]. congruence. Qed.

  (* _blade2canon on a spelling: the table's name and the parity of the permutation *)
  Theorem blade2canon_spells n K : spells A n K ->
    exists c sw, bin2canon A K = Some c /\ canon2bin A c = Some K /\ Permutation n c /\
      blade2canon A n = (Some c, sw) /\ Z.odd sw = sp_odd n c.
  Proof.
    intros Hs. destruct (bin2canon_total A Hwf K (spells_range n K Hs)) as (c & Hc & Hcn & Hcb).
    pose proof (spells_perm n K c Hs Hc) as Hp.
    unfold blade2canon. destruct (canon2bin A n) as [b|] eqn:En.
    - destruct (canon2bin_spells n b En) as [Hs' Hb].
      assert (b = K) by (apply (spells_inj n b K Hs' Hs)). subst b.
      assert (c = n) by congruence. subst c.
      exists n, 0. repeat split; try assumption. unfold sp_odd. rewrite xorb_nilpotent. reflexivity.
    - rewrite (fold_lor_spells n K Hs), Hc.
      destruct (swap_blades_parity n [] c (proj1 Hs)) as (sw & el & Hsw & Hpar).
      { unfold phase1. cbn [fold_left fst]. exact Hp. }
      rewrite Hsw. exists c, sw. repeat split; try assumption.
      rewrite Hpar, app_nil_r. reflexivity.
  Qed.

  (* a name with a letter that is no generator is outside the algebra *)
  Theorem blade2canon_nonblade n : (exists g, In g n /\ ~ In g vecs) -> blade2canon A n = (None, 0).
  Proof.
    intros (g & Hg & Hgv). unfold blade2canon.
    destruct (canon2bin A n) as [b|] eqn:En.
    { exfalso. destruct (canon2bin_spells n b En) as [[_ Hb] _]. apply Hgv.
      apply (name_bin_in vecs (wf_vecs_nodup A Hwf) n b Hb g Hg). }
    set (b := fold_left (fun acc g0 => Z.lor acc (gen_bin A g0)) n 0).
    destruct (bin2canon A b) as [c|] eqn:Ec; [|reflexivity]. exfalso.
    pose proof (bin2canon_range A Hwf b c Ec) as Hr.
    assert (Hbit : Z.testbit b (Z.of_nat (a_d A)) = true).
    { assert (Hgen : forall acc, In g n ->
                Z.testbit (fold_left (fun a g0 => Z.lor a (gen_bin A g0)) n acc) (Z.of_nat (a_d A)) = true).
      { clear - Hgv Hwf. induction n as [|x r IH]; intros acc Hg'; [destruct Hg'|].
        cbn [fold_left]. destruct Hg' as [->|Hg'].
        - apply fold_lor_mono; [lia|]. rewrite Z.lor_spec, (gen_bin_nonvec g Hgv). unfold alg_len.
          rewrite pow2_bit by lia. rewrite Z.eqb_refl. apply orb_true_r.
        - apply IH. exact Hg'. }
      apply Hgen. exact Hg. }
    unfold alg_len in Hr.
    assert (Hf : Z.testbit b (Z.of_nat (a_d A)) = false).
    { destruct (Z.eq_dec b 0) as [->|Hnz]; [apply Z.bits_0|].
      apply Z.bits_above_log2; [lia|]. apply Z.log2_lt_pow2; lia. }
    congruence.
  Qed.
End Spell.

(* ====================================================================================== *)
(** * 2. The canonical key list is the list of all grades *)

Lemma wf_lens_sorted A : wf_alg A = true -> lens_sorted (a_c2b A) = true.
Proof. intros H. unfold wf_alg in H. apply andb_prop in H. apply H. Qed.

Lemma lens_sorted_head (a : list nat * Z) r : lens_sorted (a :: r) = true ->
  lens_sorted r = true /\ forall x, In x r -> (length (fst a) <= length (fst x))%nat.
Proof.
  revert a. induction r as [|b r IH]; intros a H.
  - split; [reflexivity | intros x []].
  - cbn [lens_sorted] in H. apply andb_prop in H. destruct H as [H1 H2]. apply Nat.leb_le in H1.
    split; [exact H2|]. intros x [<-|Hx]; [exact H1|].
    destruct (IH b H2) as [_ Hb]. specialize (Hb x Hx). unfold name in *. lia.
Qed.

Ltac case_ltb := match goal with |- context [Nat.ltb ?x ?y] => destruct (Nat.ltb_spec x y) end.
Ltac case_eqb := match goal with |- context [Nat.eqb ?x ?y] => destruct (Nat.eqb_spec x y) end.

Lemma filter_lt_nil (l : list (list nat * Z)) g :
  (forall x, In x l -> (g <= length (fst x))%nat) -> filter (fun nb => Nat.ltb (length (fst nb)) g) l = [].
Proof.
  unfold name in *. induction l as [|a r IH]; intros H; [reflexivity|]. cbn [filter].
  assert (Ha : (g <= length (fst a))%nat) by (apply H; left; reflexivity).
  case_ltb; [lia|]. apply IH. intros x Hx. apply H. right. exact Hx.
Qed.

Lemma sorted_filters (l : list (list nat * Z)) g : lens_sorted l = true ->
  filter (fun nb => Nat.ltb (length (fst nb)) g) l ++ filter (fun nb => Nat.eqb (length (fst nb)) g) l
  = filter (fun nb => Nat.ltb (length (fst nb)) (S g)) l.
Proof.
  induction l as [|a r IH]; intros Hs; [reflexivity|].
  destruct (lens_sorted_head a r Hs) as [Hr Hh]. specialize (IH Hr). cbn [filter]. unfold name in *.
  assert (Hcases : (length (fst a) < g \/ length (fst a) = g \/ g < length (fst a))%nat) by lia.
  destruct Hcases as [Hlt|[Heq|Hgt]].
  - repeat case_ltb; try lia. case_eqb; try lia. cbn [app]. rewrite IH. reflexivity.
  - assert (Hnil : filter (fun nb => Nat.ltb (length (fst nb)) g) r = []).
    { apply filter_lt_nil. intros x Hx. specialize (Hh x Hx). lia. }
    rewrite Hnil in *. cbn [app] in *.
    repeat case_ltb; try lia. case_eqb; try lia. cbn [app]. rewrite IH. reflexivity.
  - assert (Hnil : filter (fun nb => Nat.ltb (length (fst nb)) g) r = []).
    { apply filter_lt_nil. intros x Hx. specialize (Hh x Hx). lia. }
    rewrite Hnil in *. cbn [app] in *.
    repeat case_ltb; try lia. case_eqb; try lia. exact IH.
Qed.

Lemma filter_all_true {X} (f : X -> bool) (l : list X) : (forall x, In x l -> f x = true) -> filter f l = l.
Proof.
  induction l as [|a r IH]; intros H; [reflexivity|]. cbn [filter].
  rewrite (H a (or_introl eq_refl)), IH; [reflexivity|]. intros x Hx. apply H. right. exact Hx.
Qed.

Lemma flat_grades_filter A n : lens_sorted (a_c2b A) = true ->
  flat_map (indices_for_grade A) (seq 0 n)
  = map snd (filter (fun nb => Nat.ltb (length (fst nb)) n) (a_c2b A)).
Proof.
  intros Hs. induction n as [|n IH].
  - cbn [seq flat_map]. rewrite filter_lt_nil; [reflexivity | intros; lia].
  - rewrite seq_S, flat_map_app, IH. cbn [plus flat_map]. rewrite app_nil_r.
    unfold indices_for_grade. rewrite <- map_app, sorted_filters by exact Hs. reflexivity.
Qed.

Lemma strictly_inc_seq a n : strictly_inc (seq a n) = true.
Proof.
  revert a. induction n as [|n IH]; intros a; [reflexivity|].
  cbn [seq]. destruct n as [|n]; [reflexivity|]. cbn [seq strictly_inc].
  change (Nat.ltb a (S a) && strictly_inc (seq (S a) (S n)) = true). rewrite IH.
  case_ltb; [reflexivity | lia].
Qed.

Theorem full_grades_canon A : wf_alg A = true ->
  indices_for_grades A (all_grades A) = Ok (canon_keys A).
Proof.
  intros Hwf. unfold indices_for_grades, all_grades. rewrite strictly_inc_seq. cbn [andb].
  assert (Hle : forallb (fun g => Nat.leb g (a_d A)) (seq 0 (S (a_d A))) = true).
  { apply forallb_forall. intros g Hg. apply in_seq in Hg. apply Nat.leb_le. lia. }
  rewrite Hle. f_equal. rewrite (flat_grades_filter A _ (wf_lens_sorted A Hwf)). unfold canon_keys. f_equal.
  rewrite filter_all_true; [reflexivity|].
  intros [n b] Hin. cbn [fst]. apply Nat.ltb_lt.
  destruct (wf_entry A Hwf n b Hin) as [Hnd Hb].
  assert (Hincl : incl n (alg_vecs A)) by (intros g Hg; apply (name_bin_in _ (wf_vecs_nodup A Hwf) n b Hb g Hg)).
  pose proof (NoDup_incl_length Hnd Hincl) as Hlen. rewrite (wf_vecs_len A Hwf) in Hlen. lia.
Qed.

(* ====================================================================================== *)
(** * 3. The accessors *)

Section Access.
  Variable R : Type.
  Variables (rO rI : R) (radd rmul rsub : R -> R -> R) (ropp : R -> R).
  Hypothesis Rth : ring_theory rO rI radd rmul rsub ropp (@eq R).
  Add Ring Rring15 : Rth.
  Local Notation O := (mkOps R radd rsub rmul ropp rO rI).
  Variable A : alg.
  Hypothesis Hwf : wf_alg A = true.
  Local Notation L := (alg_len A).

  (* the sign carried by a spelling *)
  Definition sg (b : bool) (v : R) : R := if b then ropp v else v.

  Lemma sg_zero b : sg b rO = rO.
  Proof. destruct b; cbn [sg]; [ring | reflexivity]. Qed.

  Lemma sg_invol b v : sg b (sg b v) = v.
  Proof. destruct b; cbn [sg]; [ring | reflexivity]. Qed.

  Lemma c_notin K (m : mv R) : ~ In K (keys m) -> coeff O K m = rO.
  Proof.
    induction m as [|[k v] r IH]; intros Hn; [reflexivity|]. cbn [coeff].
    destruct (Z.eqb_spec k K) as [->|Hne]; [exfalso; apply Hn; left; reflexivity|].
    apply IH. intros H. apply Hn. right. exact H.
  Qed.

  Lemma c_in K v (m : mv R) : NoDup (keys m) -> In (K, v) m -> coeff O K m = v.
  Proof.
    induction m as [|[k w] r IH]; intros Hnd Hin; [destruct Hin|].
    cbn [keys map fst] in Hnd. inversion Hnd as [|? ? Hk Hr]; subst. cbn [coeff].
    destruct Hin as [E|Hin].
    - injection E as -> ->. rewrite Z.eqb_refl. reflexivity.
    - destruct (Z.eqb_spec k K) as [->|Hne].
      + exfalso. apply Hk. change (In (fst (K, v)) (map fst r)). apply in_map. exact Hin.
      + apply IH; assumption.
  Qed.

  Lemma c_in_keys K (m : mv R) : In K (keys m) -> In (K, coeff O K m) m.
  Proof.
    induction m as [|[k v] r IH]; intros Hin; [destruct Hin|]. cbn [coeff].
    destruct (Z.eqb_spec k K) as [->|Hne]; [left; reflexivity|].
    right. apply IH. destruct Hin as [E|Hin]; [cbn [fst] in E; congruence | exact Hin].
  Qed.

  (* keys().index(K) and _values[idx] against the first-match read-out *)
  Lemma coeff_zindex (m : mv R) K :
    match zindex K (keys m) with
    | None => ~ In K (keys m)
    | Some idx => nth_error (map snd m) idx = Some (coeff O K m) /\ In K (keys m)
    end.
  Proof.
    induction m as [|[k v] r IH]; [intros []|]. cbn [keys map fst snd zindex coeff].
    destruct (Z.eqb_spec k K) as [->|Hne].
    - split; [reflexivity | left; reflexivity].
    - fold (keys r). destruct (zindex K (keys r)) as [idx|]; cbn [option_map].
      + destruct IH as [H1 H2]. split; [exact H1 | right; exact H2].
      + intros [E|H]; [congruence | exact (IH H)].
  Qed.

  (* ---------------- __getattr__ ---------------- *)

  Theorem getattr_spells (m : mv R) n K c : spells A n K -> bin2canon A K = Some c ->
    getattr O A m (SName n) = Ok (sg (sp_odd n c) (coeff O K m)).
  Proof.
    intros Hs Hc. destruct (blade2canon_spells A Hwf n K Hs) as (c' & sw & Hc' & Hcb & Hp & Hb & Hpar).
    assert (c' = c) by congruence. subst c'.
    unfold getattr. rewrite Hb, Hcb. pose proof (coeff_zindex m K) as Hz.
    destruct (zindex K (keys m)) as [idx|].
    - destruct Hz as [Hn _]. rewrite Hn. rewrite <- Z.negb_odd, Hpar. cbn [o_neg].
      destruct (sp_odd n c); reflexivity.
    - rewrite (c_notin K m Hz), sg_zero. reflexivity.
  Qed.

  (* the parity rule: any permutation n of the table's name c of blade K reads the coefficient of K
     times the parity of the permutation; the table's own spelling reads the coefficient itself *)
  Theorem getattr_parity (m : mv R) K c n : bin2canon A K = Some c -> Permutation n c ->
    getattr O A m (SName n) = Ok (sg (sp_odd n c) (coeff O K m)).
  Proof. intros Hc Hp. apply getattr_spells; [apply (perm_spells A Hwf n K c Hc Hp) | exact Hc]. Qed.

  Corollary getattr_canonical (m : mv R) K c : bin2canon A K = Some c ->
    getattr O A m (SName c) = Ok (coeff O K m).
  Proof.
    intros Hc. rewrite (getattr_parity m K c c Hc (Permutation_refl c)). unfold sp_odd.
    rewrite xorb_nilpotent. reflexivity.
  Qed.

  (* a transposition really flips the sign (non-vacuity of the parity rule) *)
  Corollary getattr_swap (m : mv R) K p x y r : bin2canon A K = Some (p ++ x :: y :: r) ->
    getattr O A m (SName (p ++ y :: x :: r)) = Ok (ropp (coeff O K m)).
  Proof.
    intros Hc. assert (Hxy : x <> y).
    { pose proof (bin2canon_NoDup A Hwf K _ Hc) as Hnd. apply NoDup_remove_2 in Hnd.
      intros ->. apply Hnd. apply in_or_app. right. left. reflexivity. }
    rewrite (getattr_parity m K (p ++ x :: y :: r) (p ++ y :: x :: r) Hc).
    - unfold sp_odd. rewrite (inv2_swap_adjacent p y x r) by congruence.
      destruct (inv2 (p ++ x :: y :: r)); reflexivity.
    - apply Permutation_app_head. apply perm_swap.
  Qed.

  (* absent blades read 0 whatever the spelling; names that are no blade read 0; other attribute
     names raise AttributeError *)
  Theorem absent_is_zero (m : mv R) :
    (forall K c n, bin2canon A K = Some c -> Permutation n c -> ~ In K (keys m) ->
       getattr O A m (SName n) = Ok rO)
    /\ (forall n, (exists g, In g n /\ ~ In g (alg_vecs A)) -> getattr O A m (SName n) = Ok rO)
    /\ getattr O A m SOther = Err EAttr.
  Proof.
    split; [|split].
    - intros K c n Hc Hp Hn. rewrite (getattr_parity m K c n Hc Hp), (c_notin K m Hn), sg_zero. reflexivity.
    - intros n Hn. unfold getattr. rewrite (blade2canon_nonblade A Hwf n Hn). reflexivity.
    - reflexivity.
  Qed.

  (* ---------------- __contains__ ---------------- *)
  Theorem contains_iff (m : mv R) :
    (forall k, contains A m (KInt k) = Ok (zin k (keys m)))
    /\ (forall K c, bin2canon A K = Some c -> contains A m (KName c) = Ok (zin K (keys m)))
    /\ (forall n, canon2bin A n = None -> contains A m (KName n) = Err EKey)
    /\ (forall K, zin K (keys m) = true <-> In K (keys m)).
  Proof.
    split; [|split; [|split]].
    - reflexivity.
    - intros K c Hc. unfold contains.
      rewrite (entry_canon2bin A Hwf c K (bin2canon_entry A K c Hc)). reflexivity.
    - intros n Hn. unfold contains. rewrite Hn. reflexivity.
    - intros K. apply zin_true_iff.
  Qed.

  (* ---------------- items ---------------- *)
  Theorem items_exact (m : mv R) :
    mv_items m = combine (keys m) (map snd m)
    /\ (NoDup (keys m) -> forall K v, In (K, v) (mv_items m) <-> In K (keys m) /\ coeff O K m = v).
  Proof.
    split.
    - unfold mv_items, keys. induction m as [|[k v] r IH]; [reflexivity|]. cbn [map combine fst snd]. congruence.
    - intros Hnd K v. unfold mv_items. split.
      + intros Hin. split; [change K with (fst (K, v)); apply in_map; exact Hin | apply c_in; assumption].
      + intros [Hk <-]. apply c_in_keys. exact Hk.
  Qed.

  (* ---------------- asfullmv ---------------- *)
  Lemma coeff_tabulate (f : Z -> R) ks K :
    coeff O K (map (fun k => (k, f k)) ks) = if zin K ks then f K else rO.
  Proof.
    induction ks as [|k ks IH]; [reflexivity|]. cbn [map coeff]. rewrite zin_cons, (Z.eqb_sym K k).
    destruct (Z.eqb_spec k K) as [->|Hne]; [reflexivity | exact IH].
  Qed.

  Definition full_keys (canonical : bool) : list Z :=
    if canonical then canon_keys A else Alg.zrange (2 ^ a_d A).

  Lemma full_keys_range canonical K : In K (full_keys canonical) <-> 0 <= K < L.
  Proof.
    destruct canonical; cbn [full_keys].
    - apply (In_canon_keys A Hwf).
    - rewrite In_zrange, <- alg_len_nat. reflexivity.
  Qed.

  Theorem asfullmv_coeffs canonical (m : mv R) :
    asfullmv O A canonical m = Ok (map (fun k => (k, coeff O k m)) (full_keys canonical))
    /\ (forall f, asfullmv O A canonical m = Ok f ->
          keys f = full_keys canonical
          /\ (forall K, 0 <= K < L -> coeff O K f = coeff O K m)
          /\ (forall K, ~ (0 <= K < L) -> coeff O K f = rO)).
  Proof.
    assert (H1 : asfullmv O A canonical m = Ok (map (fun k => (k, coeff O k m)) (full_keys canonical))).
    { unfold asfullmv.
      assert (Hks : (if canonical then indices_for_grades A (all_grades A) else Ok (Alg.zrange (2 ^ a_d A)))
                    = Ok (full_keys canonical)).
      { destruct canonical; [apply (full_grades_canon A Hwf) | reflexivity]. }
      rewrite Hks. cbn [bind]. apply mapM_res_ok. intros k Hk. apply full_keys_range in Hk.
      destruct (bin2canon_total A Hwf k Hk) as (n & Hn & _ & _). rewrite Hn. cbn [of_opt bind].
      rewrite (getattr_canonical m k n Hn). reflexivity. }
    split; [exact H1|]. intros f Hf. rewrite H1 in Hf. injection Hf as <-. split; [|split].
    - unfold keys. rewrite map_map. cbn [fst]. apply map_id.
    - intros K HK. rewrite coeff_tabulate. apply (full_keys_range canonical) in HK. apply zin_true_iff in HK.
      rewrite HK. reflexivity.
    - intros K HK. rewrite coeff_tabulate. destruct (zin K (full_keys canonical)) eqn:E; [|reflexivity].
      apply zin_true_iff, full_keys_range in E. contradiction.
  Qed.

  (* ---------------- map ---------------- *)
  Theorem map_exact (m : mv R) :
    (forall f, keys (map_v f m) = keys m /\ map snd (map_v f m) = map f (map snd m)
       /\ forall K, coeff O K (map_v f m) = if zin K (keys m) then f (coeff O K m) else rO)
    /\ (forall f, keys (map_kv f m) = keys m
       /\ forall K, coeff O K (map_kv f m) = if zin K (keys m) then f K (coeff O K m) else rO).
  Proof.
    split; intros f.
    - split; [|split].
      + unfold map_v, keys. rewrite map_map. reflexivity.
      + unfold map_v. rewrite !map_map. reflexivity.
      + intros K. unfold map_v. induction m as [|[k v] r IH]; [reflexivity|].
        cbn [map fst snd coeff keys]. fold (keys r). rewrite zin_cons, (Z.eqb_sym K k).
        destruct (Z.eqb_spec k K) as [->|Hne]; [reflexivity | exact IH].
    - split.
      + unfold map_kv, keys. rewrite map_map. reflexivity.
      + intros K. unfold map_kv. induction m as [|[k v] r IH]; [reflexivity|].
        cbn [map fst snd coeff keys]. fold (keys r). rewrite zin_cons, (Z.eqb_sym K k).
        destruct (Z.eqb_spec k K) as [->|Hne]; [reflexivity | exact IH].
  Qed.

  (* ---------------- filter ---------------- *)
  Lemma filter_kv_spec p (m : mv R) : NoDup (keys m) ->
    keys (filter_kv p m) = filter (fun k => p k (coeff O k m)) (keys m)
    /\ forall K, coeff O K (filter_kv p m)
                 = if zin K (keys m) && p K (coeff O K m) then coeff O K m else rO.
  Proof.
    unfold filter_kv. induction m as [|[k v] r IH]; intros Hnd; [split; reflexivity|].
    cbn [keys map fst] in Hnd. inversion Hnd as [|? ? Hk Hr]; subst. destruct (IH Hr) as [IH1 IH2].
    cbn [filter fst snd keys map coeff]. fold (keys r). rewrite Z.eqb_refl. split.
    - assert (Hext : filter (fun k0 => p k0 (if Z.eqb k k0 then v else coeff O k0 r)) (keys r)
                     = filter (fun k0 => p k0 (coeff O k0 r)) (keys r)).
      { apply filter_ext_in. intros k0 Hk0. destruct (Z.eqb_spec k k0) as [->|Hne]; [contradiction | reflexivity]. }
      rewrite Hext, <- IH1. destruct (p k v); reflexivity.
    - intros K. rewrite zin_cons, (Z.eqb_sym K k). destruct (Z.eqb_spec k K) as [->|Hne].
      + cbn [orb]. destruct (p K v) eqn:Ep.
        * cbn [coeff]. rewrite Z.eqb_refl. reflexivity.
        * rewrite IH2. apply zin_false_iff in Hk. unfold keys in *. rewrite Hk. reflexivity.
      + cbn [orb]. destruct (p k v); [cbn [coeff]; apply Z.eqb_neq in Hne; rewrite Hne|]; apply IH2.
  Qed.

  Theorem filter_exact (m : mv R) : NoDup (keys m) ->
    (forall p, keys (filter_v p m) = filter (fun k => p (coeff O k m)) (keys m)
       /\ forall K, coeff O K (filter_v p m) = if zin K (keys m) && p (coeff O K m) then coeff O K m else rO)
    /\ (forall p, keys (filter_kv p m) = filter (fun k => p k (coeff O k m)) (keys m)
       /\ forall K, coeff O K (filter_kv p m) = if zin K (keys m) && p K (coeff O K m) then coeff O K m else rO).
  Proof.
    intros Hnd. split; intros p.
    - exact (filter_kv_spec (fun _ => p) m Hnd).
    - exact (filter_kv_spec p m Hnd).
  Qed.

  (* ---------------- grade ---------------- *)
  Theorem grade_exact grades (m : mv R) :
    (grade_sel O A grades m = Err EKey <-> grades_ok A grades = false)
    /\ (forall r, grade_sel O A grades m = Ok r ->
          (forall K, 0 <= K < L ->
             coeff O K r = if grade_in grades K && zin K (keys m) then coeff O K m else rO)
          /\ (wfmv A m -> NoDup (keys r)
                          /\ forall K, In K (keys r) <-> (In K (keys m) /\ grade_in grades K = true))).
  Proof.
    pose proof (wf_sign_hyps A Hwf) as H.
    exact (grade_sel_spec R rO rI radd rmul rsub ropp A (sh_keys A H) (sh_nodup A H) (sh_grade A H) grades m).
  Qed.
End Access.

