(* Theory/Construct.v — C15: construction of multivectors (MultiVector.__new__, Model/Construct.v) and the
   coefficient accessors round-trip, for EVERY well-formed algebra (wf_alg A = true) and every commutative
   ring of coefficients.

   1. spellings:  [spells A n K]  = n is a duplicate-free list of generators whose bits XOR to K;
      _blade2canon on a spelling returns the table's name c of K and a swap count whose parity is the
      parity of the permutation n -> c  ([inv2 n] xor [inv2 c]);  on a name with a letter that is no
      generator it returns None;
   2. accessors: getattr (parity rule, absent = 0, non-blade names), contains, items, asfullmv, map,
      filter, grade;
   3. the constructor: for each construction form an IFF  "construct = Ok m  <->  the input is consistent
      and m is exactly what was supplied"; the round-trip theorems and the error clauses of the property
      are corollaries.

   Documented exclusions (hypotheses, not defects of the statement): spellings that repeat a generator
   (e11, e121), the same blade supplied twice under two spellings (e12 and e21), duplicate keys in
   keys= (reading back through first-match accessors needs NoDup). *)
From Coq Require Import List ZArith Bool Ring Lia Permutation.
From KV Require Import Model.All Model.Construct Theory.WF Theory.Words Theory.Sign Theory.Bits Theory.Sparse
  Theory.Product Theory.Ops Theory.SignBits Theory.OpsWF.
Import ListNotations.
Local Open Scope Z_scope.

(* ====================================================================================== *)
(** * 0. Small list / result lemmas *)

Lemma res_cases {X} (r : res X) : (exists x, r = Ok x) \/ (exists e, r = Err e).
Proof. destruct r as [x|e]; [left; exists x | right; exists e]; reflexivity. Qed.

Lemma not_ok_err {X} (r : res X) : (forall x, r <> Ok x) -> exists e, r = Err e.
Proof. destruct r as [x|e]; intros H; [exfalso; apply (H x); reflexivity | exists e; reflexivity]. Qed.

Lemma mapM_res_ok {X Y} (f : X -> res Y) (g : X -> Y) (l : list X) :
  (forall x, In x l -> f x = Ok (g x)) -> mapM_res f l = Ok (map g l).
Proof.
  induction l as [|x r IH]; intros H; [reflexivity|]. cbn [mapM_res map].
  rewrite (H x (or_introl eq_refl)). cbn [bind]. rewrite IH; [reflexivity|].
  intros y Hy. apply H. right. exact Hy.
Qed.

Lemma mapM_res_inv {X Y} (f : X -> res Y) (l : list X) ys :
  mapM_res f l = Ok ys -> Forall2 (fun x y => f x = Ok y) l ys.
Proof.
  revert ys. induction l as [|x r IH]; intros ys H; cbn [mapM_res] in H.
  - injection H as <-. constructor.
  - destruct (f x) as [y|e] eqn:Ef; cbn [bind] in H; [|discriminate].
    destruct (mapM_res f r) as [ys'|e] eqn:Er; cbn [bind] in H; [|discriminate].
    injection H as <-. constructor; [exact Ef | apply IH; reflexivity].
Qed.

Lemma mapM_res_of_Forall2 {X Y} (f : X -> res Y) (l : list X) ys :
  Forall2 (fun x y => f x = Ok y) l ys -> mapM_res f l = Ok ys.
Proof.
  intros H. induction H as [|x y l ys Hxy _ IH]; [reflexivity|].
  cbn [mapM_res]. rewrite Hxy. cbn [bind]. rewrite IH. reflexivity.
Qed.

Lemma list_eqb_Z_eq (a b : list Z) : list_eqb Z.eqb a b = true <-> a = b.
Proof.
  revert b. induction a as [|x a IH]; intros [|y b]; cbn [list_eqb]; split; intros H;
    try reflexivity; try discriminate.
  - apply andb_prop in H. destruct H as [H1 H2]. apply Z.eqb_eq in H1. apply IH in H2. congruence.
  - injection H as -> ->. rewrite Z.eqb_refl. cbn [andb]. apply IH. reflexivity.
Qed.

Lemma isnil_true {X} (l : list X) : isnil l = true <-> l = [].
Proof. destruct l; cbn [isnil]; split; intros H; try reflexivity; discriminate. Qed.

Lemma isnil_false {X} (l : list X) : isnil l = false <-> l <> [].
Proof. destruct l; cbn [isnil]; split; intros H; try reflexivity; try discriminate; congruence. Qed.

Lemma forallb_zin_incl (ks full : list Z) : forallb (fun k => zin k full) ks = true <-> incl ks full.
Proof.
  rewrite forallb_forall. unfold incl. split; intros H k Hk.
  - apply zin_true_iff. apply H. exact Hk.
  - apply zin_true_iff. apply H. exact Hk.
Qed.

(* ====================================================================================== *)
(** * 1. Spellings and _blade2canon *)

(* n spells the blade with key K: distinct generators of the algebra whose bits XOR to K *)
Definition spells (A : alg) (n : name) (K : Z) : Prop :=
  NoDup n /\ name_bin (alg_vecs A) n = Some K.

(* the sign a spelling n carries relative to the table's name c of the same blade: parity of the
   permutation n -> c *)
Definition sp_odd (n c : name) : bool := xorb (inv2 n) (inv2 c).

Section Spell.
  Variable A : alg.
  Hypothesis Hwf : wf_alg A = true.
  Local Notation vecs := (alg_vecs A).
  Local Notation L := (alg_len A).

  Lemma gen_bin_vec g : In g vecs -> gen_bin A g = 2 ^ gpos A g.
  Proof. intros Hg. apply (genbit_spec A Hwf g Hg). Qed.

  Lemma gen_bin_nonvec g : ~ In g vecs -> gen_bin A g = L.
  Proof.
    intros Hg. unfold gen_bin. destruct (canon2bin A [g]) as [b|] eqn:E; [|reflexivity].
    exfalso. apply Hg. unfold canon2bin in E. apply find_by_name_In in E.
    unfold alg_vecs. apply In_vecs_of. apply in_map_iff. exists ([g], b). split; [reflexivity | exact E].
  Qed.

  Lemma fold_lor_bits n : (forall g, In g n -> In g vecs) -> forall acc k, 0 <= k ->
    Z.testbit (fold_left (fun a g => Z.lor a (gen_bin A g)) n acc) k
    = Z.testbit acc k || existsb (fun g => gpos A g =? k) n.
  Proof.
    induction n as [|x r IH]; intros Hn acc k Hk; cbn [fold_left existsb].
    - rewrite orb_false_r. reflexivity.
    - rewrite IH by (try lia; intros g Hg; apply Hn; right; exact Hg).
      rewrite Z.lor_spec, (gen_bin_vec x (Hn x (or_introl eq_refl))).
      pose proof (gpos_range A Hwf x (Hn x (or_introl eq_refl))) as Hr.
      rewrite pow2_bit by lia. rewrite orb_assoc. reflexivity.
  Qed.

  Lemma fold_lor_mono n : forall acc k, 0 <= k -> Z.testbit acc k = true ->
    Z.testbit (fold_left (fun a g => Z.lor a (gen_bin A g)) n acc) k = true.
  Proof.
    induction n as [|x r IH]; intros acc k Hk H; cbn [fold_left]; [exact H|].
    apply IH; [exact Hk|]. rewrite Z.lor_spec, H. reflexivity.
  Qed.

  Lemma fold_lor_nonneg n : forall acc, 0 <= acc -> 0 <= fold_left (fun a g => Z.lor a (gen_bin A g)) n acc.
  Proof.
    induction n as [|x r IH]; intros acc Ha; cbn [fold_left]; [exact Ha|].
    apply IH. apply Z.lor_nonneg. split; [exact Ha|].
    unfold gen_bin. destruct (canon2bin A [x]) as [b|] eqn:E.
    - unfold canon2bin in E. apply find_by_name_In in E.
      apply (c2b_entry_spec A Hwf) in E. lia.
    - pose proof (alg_len_pos A). lia.
  Qed.

  (* the OR of the generator keys of a spelling is the key of its blade *)
  Lemma fold_lor_spells n K : spells A n K ->
    fold_left (fun a g => Z.lor a (gen_bin A g)) n 0 = K.
  Proof.
    intros [Hnd Hb].
    assert (Hin : forall g, In g n -> In g vecs)
      by (intros g Hg; apply (name_bin_in vecs (wf_vecs_nodup A Hwf) n K Hb g Hg)).
    apply Z.bits_inj'. intros k Hk. rewrite fold_lor_bits, Z.bits_0 by assumption. cbn [orb].
    apply bool_eq_of_iff. rewrite existsb_exists.
    rewrite (name_bin_bits vecs (wf_vecs_nodup A Hwf) n K Hnd Hb k). split.
    - intros (g & Hg & E). apply Z.eqb_eq in E. exists g. split; [exact Hg|]. symmetry. exact E.
    - intros (g & Hg & E). exists g. split; [exact Hg|]. apply Z.eqb_eq. symmetry. exact E.
  Qed.

  Lemma spells_range n K : spells A n K -> 0 <= K < L.
  Proof.
    intros [_ Hb]. pose proof (name_bin_range vecs (wf_vecs_nodup A Hwf) n K Hb) as H.
    rewrite (wf_vecs_len A Hwf) in H. unfold alg_len. lia.
  Qed.

  Lemma spells_mem n K g : spells A n K -> (In g n <-> In g vecs /\ Z.testbit K (gpos A g) = true).
  Proof.
    intros [Hnd Hb]. split.
    - intros Hg. assert (Hv : In g vecs) by (apply (name_bin_in vecs (wf_vecs_nodup A Hwf) n K Hb g Hg)).
      split; [exact Hv|]. apply (name_bin_bits vecs (wf_vecs_nodup A Hwf) n K Hnd Hb). exists g. auto.
    - intros [Hv Ht]. apply (name_bin_bits vecs (wf_vecs_nodup A Hwf) n K Hnd Hb) in Ht.
      destruct Ht as (g' & Hg' & E).
      assert (Hv' : In g' vecs) by (apply (name_bin_in vecs (wf_vecs_nodup A Hwf) n K Hb g' Hg')).
      rewrite (gpos_inj A Hwf g g' Hv Hv' E). exact Hg'.
  Qed.

  (* the table's own name spells its key *)
  Lemma canon_spells K c : bin2canon A K = Some c -> spells A c K.
  Proof.
    intros H. split; [apply (bin2canon_NoDup A Hwf K c H) | apply (bin2canon_name_bin A Hwf K c H)].
  Qed.

  (* any spelling of K is a permutation of the table's name of K *)
  Lemma spells_perm n K c : spells A n K -> bin2canon A K = Some c -> Permutation n c.
  Proof.
    intros Hs Hc. apply NoDup_Permutation; [apply Hs | apply (bin2canon_NoDup A Hwf K c Hc) |].
    intros g. rewrite (spells_mem n K g Hs), (name_mem A Hwf K c g Hc). tauto.
  Qed.

  (* conversely every duplicate-free permutation of a table name spells that blade *)
  Lemma perm_spells n K c : bin2canon A K = Some c -> Permutation n c -> spells A n K.
  Proof.
    intros Hc Hp. pose proof (canon_spells K c Hc) as [Hnd Hb].
    assert (Hndn : NoDup n) by (apply (Permutation_NoDup (Permutation_sym Hp)); exact Hnd).
    split; [exact Hndn|].
    destruct (name_bin_total vecs (wf_vecs_nodup A Hwf) n) as (b & Hbn).
    { intros g Hg. apply (name_in_vecs A Hwf K c g Hc). apply (Permutation_in g Hp Hg). }
    rewrite Hbn. f_equal. apply Z.bits_inj'. intros k _. apply bool_eq_of_iff.
    rewrite (name_bin_bits vecs (wf_vecs_nodup A Hwf) n b Hndn Hbn k),
            (name_bin_bits vecs (wf_vecs_nodup A Hwf) c K Hnd Hb k).
    split; intros (g & Hg & E); exists g; (split; [|exact E]).
    - apply (Permutation_in g Hp Hg).
    - apply (Permutation_in g (Permutation_sym Hp) Hg).
  Qed.

  Lemma canon2bin_spells n b : canon2bin A n = Some b -> spells A n b /\ bin2canon A b = Some n.
  Proof.
    intros H. unfold canon2bin in H. apply find_by_name_In in H.
    split; [apply (wf_entry A Hwf n b H) | apply (c2b_entry_spec A Hwf n b H)].
  Qed.

  Lemma spells_inj n K K' : spells A n K -> spells A n K' -> K = K'.
  Proof. intros [_ H1] [_ H2]. congruence. Qed.

  (* _blade2canon on a spelling: the table's name and the parity of the permutation *)
  Theorem blade2canon_spells n K : spells A n K ->
    exists c sw, bin2canon A K = Some c /\ canon2bin A c = Some K /\ Permutation n c /\
      blade2canon A n = (Some c, sw) /\ Z.odd sw = sp_odd n c.
  Proof.
    intros Hs. destruct (bin2canon_total A Hwf K (spells_range n K Hs)) as (c & Hc & Hcn & Hcb).
    pose proof (spells_perm n K c Hs Hc) as Hp.
    unfold blade2canon. destruct (canon2bin A n) as [b|] eqn:En.
    - destruct (canon2bin_spells n b En) as [Hs' Hb].
      assert (b = K) by (apply (spells_inj n b K Hs' Hs)). subst b.
      assert (c = n) by congruence. subst c.
      exists n, 0. repeat split; try assumption. unfold sp_odd. rewrite xorb_nilpotent. reflexivity.
    - rewrite (fold_lor_spells n K Hs), Hc.
      destruct (swap_blades_parity n [] c (proj1 Hs)) as (sw & el & Hsw & Hpar).
      { unfold phase1. cbn [fold_left fst]. exact Hp. }
      rewrite Hsw. exists c, sw. repeat split; try assumption.
      rewrite Hpar, app_nil_r. reflexivity.
  Qed.

  (* a name with a letter that is no generator is outside the algebra *)
  Theorem blade2canon_nonblade n : (exists g, In g n /\ ~ In g vecs) -> blade2canon A n = (None, 0).
  Proof.
    intros (g & Hg & Hgv). unfold blade2canon.
    destruct (canon2bin A n) as [b|] eqn:En.
    { exfalso. destruct (canon2bin_spells n b En) as [[_ Hb] _]. apply Hgv.
      apply (name_bin_in vecs (wf_vecs_nodup A Hwf) n b Hb g Hg). }
    set (b := fold_left (fun acc g0 => Z.lor acc (gen_bin A g0)) n 0).
    destruct (bin2canon A b) as [c|] eqn:Ec; [|reflexivity]. exfalso.
    pose proof (bin2canon_range A Hwf b c Ec) as Hr.
    assert (Hbit : Z.testbit b (Z.of_nat (a_d A)) = true).
    { assert (Hgen : forall acc, In g n ->
                Z.testbit (fold_left (fun a g0 => Z.lor a (gen_bin A g0)) n acc) (Z.of_nat (a_d A)) = true).
      { clear - Hgv Hwf. induction n as [|x r IH]; intros acc Hg'; [destruct Hg'|].
        cbn [fold_left]. destruct Hg' as [->|Hg'].
        - apply fold_lor_mono; [lia|]. rewrite Z.lor_spec, (gen_bin_nonvec g Hgv). unfold alg_len.
          rewrite pow2_bit by lia. rewrite Z.eqb_refl. apply orb_true_r.
        - apply IH. exact Hg'. }
      apply Hgen. exact Hg. }
    unfold alg_len in Hr.
    assert (Hf : Z.testbit b (Z.of_nat (a_d A)) = false).
    { destruct (Z.eq_dec b 0) as [->|Hnz]; [apply Z.bits_0|].
      apply Z.bits_above_log2; [lia|]. apply Z.log2_lt_pow2; lia. }
    congruence.
  Qed.
End Spell.

(* ====================================================================================== *)
(** * 2. The canonical key list is the list of all grades *)

Lemma wf_lens_sorted A : wf_alg A = true -> lens_sorted (a_c2b A) = true.
Proof. intros H. unfold wf_alg in H. apply andb_prop in H. apply H. Qed.

Lemma lens_sorted_head (a : list nat * Z) r : lens_sorted (a :: r) = true ->
  lens_sorted r = true /\ forall x, In x r -> (length (fst a) <= length (fst x))%nat.
Proof.
  revert a. induction r as [|b r IH]; intros a H.
  - split; [reflexivity | intros x []].
  - cbn [lens_sorted] in H. apply andb_prop in H. destruct H as [H1 H2]. apply Nat.leb_le in H1.
    split; [exact H2|]. intros x [<-|Hx]; [exact H1|].
    destruct (IH b H2) as [_ Hb]. specialize (Hb x Hx). unfold name in *. lia.
Qed.

Ltac case_ltb := match goal with |- context [Nat.ltb ?x ?y] => destruct (Nat.ltb_spec x y) end.
Ltac case_eqb := match goal with |- context [Nat.eqb ?x ?y] => destruct (Nat.eqb_spec x y) end.

Lemma filter_lt_nil (l : list (list nat * Z)) g :
  (forall x, In x l -> (g <= length (fst x))%nat) -> filter (fun nb => Nat.ltb (length (fst nb)) g) l = [].
Proof.
  unfold name in *. induction l as [|a r IH]; intros H; [reflexivity|]. cbn [filter].
  assert (Ha : (g <= length (fst a))%nat) by (apply H; left; reflexivity).
  case_ltb; [lia|]. apply IH. intros x Hx. apply H. right. exact Hx.
Qed.

Lemma sorted_filters (l : list (list nat * Z)) g : lens_sorted l = true ->
  filter (fun nb => Nat.ltb (length (fst nb)) g) l ++ filter (fun nb => Nat.eqb (length (fst nb)) g) l
  = filter (fun nb => Nat.ltb (length (fst nb)) (S g)) l.
Proof.
  induction l as [|a r IH]; intros Hs; [reflexivity|].
  destruct (lens_sorted_head a r Hs) as [Hr Hh]. specialize (IH Hr). cbn [filter]. unfold name in *.
  assert (Hcases : (length (fst a) < g \/ length (fst a) = g \/ g < length (fst a))%nat) by lia.
  destruct Hcases as [Hlt|[Heq|Hgt]].
  - repeat case_ltb; try lia. case_eqb; try lia. cbn [app]. rewrite IH. reflexivity.
  - assert (Hnil : filter (fun nb => Nat.ltb (length (fst nb)) g) r = []).
    { apply filter_lt_nil. intros x Hx. specialize (Hh x Hx). lia. }
    rewrite Hnil in *. cbn [app] in *.
    repeat case_ltb; try lia. case_eqb; try lia. cbn [app]. rewrite IH. reflexivity.
  - assert (Hnil : filter (fun nb => Nat.ltb (length (fst nb)) g) r = []).
    { apply filter_lt_nil. intros x Hx. specialize (Hh x Hx). lia. }
    rewrite Hnil in *. cbn [app] in *.
    repeat case_ltb; try lia. case_eqb; try lia. exact IH.
Qed.

Lemma filter_all_true {X} (f : X -> bool) (l : list X) : (forall x, In x l -> f x = true) -> filter f l = l.
Proof.
  induction l as [|a r IH]; intros H; [reflexivity|]. cbn [filter].
  rewrite (H a (or_introl eq_refl)), IH; [reflexivity|]. intros x Hx. apply H. right. exact Hx.
Qed.

Lemma flat_grades_filter A n : lens_sorted (a_c2b A) = true ->
  flat_map (indices_for_grade A) (seq 0 n)
  = map snd (filter (fun nb => Nat.ltb (length (fst nb)) n) (a_c2b A)).
Proof.
  intros Hs. induction n as [|n IH].
  - cbn [seq flat_map]. rewrite filter_lt_nil; [reflexivity | intros; lia].
  - rewrite seq_S, flat_map_app, IH. cbn [plus flat_map]. rewrite app_nil_r.
    unfold indices_for_grade. rewrite <- map_app, sorted_filters by exact Hs. reflexivity.
Qed.

Lemma strictly_inc_seq a n : strictly_inc (seq a n) = true.
Proof.
  revert a. induction n as [|n IH]; intros a; [reflexivity|].
  cbn [seq]. destruct n as [|n]; [reflexivity|]. cbn [seq strictly_inc].
  change (Nat.ltb a (S a) && strictly_inc (seq (S a) (S n)) = true). rewrite IH.
  case_ltb; [reflexivity | lia].
Qed.

Theorem full_grades_canon A : wf_alg A = true ->
  indices_for_grades A (all_grades A) = Ok (canon_keys A).
Proof.
  intros Hwf. unfold indices_for_grades, all_grades. rewrite strictly_inc_seq. cbn [andb].
  assert (Hle : forallb (fun g => Nat.leb g (a_d A)) (seq 0 (S (a_d A))) = true).
  { apply forallb_forall. intros g Hg. apply in_seq in Hg. apply Nat.leb_le. lia. }
  rewrite Hle. f_equal. rewrite (flat_grades_filter A _ (wf_lens_sorted A Hwf)). unfold canon_keys. f_equal.
  rewrite filter_all_true; [reflexivity|].
  intros [n b] Hin. cbn [fst]. apply Nat.ltb_lt.
  destruct (wf_entry A Hwf n b Hin) as [Hnd Hb].
  assert (Hincl : incl n (alg_vecs A)) by (intros g Hg; apply (name_bin_in _ (wf_vecs_nodup A Hwf) n b Hb g Hg)).
  pose proof (NoDup_incl_length Hnd Hincl) as Hlen. rewrite (wf_vecs_len A Hwf) in Hlen. lia.
Qed.

(* ====================================================================================== *)
(** * 3. The accessors *)

Section Access.
  Variable R : Type.
  Variables (rO rI : R) (radd rmul rsub : R -> R -> R) (ropp : R -> R).
  Hypothesis Rth : ring_theory rO rI radd rmul rsub ropp (@eq R).
  Add Ring Rring15 : Rth.
  Local Notation O := (mkOps R radd rsub rmul ropp rO rI).
  Variable A : alg.
  Hypothesis Hwf : wf_alg A = true.
  Local Notation L := (alg_len A).

  (* the sign carried by a spelling *)
  Definition sg (b : bool) (v : R) : R := if b then ropp v else v.

  Lemma sg_zero b : sg b rO = rO.
  Proof. destruct b; cbn [sg]; [ring | reflexivity]. Qed.

  Lemma sg_invol b v : sg b (sg b v) = v.
  Proof. destruct b; cbn [sg]; [ring | reflexivity]. Qed.

  Lemma c_notin K (m : mv R) : ~ In K (keys m) -> coeff O K m = rO.
  Proof.
    induction m as [|[k v] r IH]; intros Hn; [reflexivity|]. cbn [coeff].
    destruct (Z.eqb_spec k K) as [->|Hne]; [exfalso; apply Hn; left; reflexivity|].
    apply IH. intros H. apply Hn. right. exact H.
  Qed.

  Lemma c_in K v (m : mv R) : NoDup (keys m) -> In (K, v) m -> coeff O K m = v.
  Proof.
    induction m as [|[k w] r IH]; intros Hnd Hin; [destruct Hin|].
    cbn [keys map fst] in Hnd. inversion Hnd as [|? ? Hk Hr]; subst. cbn [coeff].
    destruct Hin as [E|Hin].
    - injection E as -> ->. rewrite Z.eqb_refl. reflexivity.
    - destruct (Z.eqb_spec k K) as [->|Hne].
      + exfalso. apply Hk. change (In (fst (K, v)) (map fst r)). apply in_map. exact Hin.
      + apply IH; assumption.
  Qed.

  Lemma c_in_keys K (m : mv R) : In K (keys m) -> In (K, coeff O K m) m.
  Proof.
    induction m as [|[k v] r IH]; intros Hin; [destruct Hin|]. cbn [coeff].
    destruct (Z.eqb_spec k K) as [->|Hne]; [left; reflexivity|].
    right. apply IH. destruct Hin as [E|Hin]; [cbn [fst] in E; congruence | exact Hin].
  Qed.

  (* keys().index(K) and _values[idx] against the first-match read-out *)
  Lemma coeff_zindex (m : mv R) K :
    match zindex K (keys m) with
    | None => ~ In K (keys m)
    | Some idx => nth_error (map snd m) idx = Some (coeff O K m) /\ In K (keys m)
    end.
  Proof.
    induction m as [|[k v] r IH]; [intros []|]. cbn [keys map fst snd zindex coeff].
    destruct (Z.eqb_spec k K) as [->|Hne].
    - split; [reflexivity | left; reflexivity].
    - fold (keys r). destruct (zindex K (keys r)) as [idx|]; cbn [option_map].
      + destruct IH as [H1 H2]. split; [exact H1 | right; exact H2].
      + intros [E|H]; [congruence | exact (IH H)].
  Qed.

  (* ---------------- __getattr__ ---------------- *)

  Theorem getattr_spells (m : mv R) n K c : spells A n K -> bin2canon A K = Some c ->
    getattr O A m (SName n) = Ok (sg (sp_odd n c) (coeff O K m)).
  Proof.
    intros Hs Hc. destruct (blade2canon_spells A Hwf n K Hs) as (c' & sw & Hc' & Hcb & Hp & Hb & Hpar).
    assert (c' = c) by congruence. subst c'.
    unfold getattr. rewrite Hb, Hcb. pose proof (coeff_zindex m K) as Hz.
    destruct (zindex K (keys m)) as [idx|].
    - destruct Hz as [Hn _]. rewrite Hn. rewrite <- Z.negb_odd, Hpar. cbn [o_neg].
      destruct (sp_odd n c); reflexivity.
    - rewrite (c_notin K m Hz), sg_zero. reflexivity.
  Qed.

  (* the parity rule: any permutation n of the table's name c of blade K reads the coefficient of K
     times the parity of the permutation; the table's own spelling reads the coefficient itself *)
  Theorem getattr_parity (m : mv R) K c n : bin2canon A K = Some c -> Permutation n c ->
    getattr O A m (SName n) = Ok (sg (sp_odd n c) (coeff O K m)).
  Proof. intros Hc Hp. apply getattr_spells; [apply (perm_spells A Hwf n K c Hc Hp) | exact Hc]. Qed.

  Corollary getattr_canonical (m : mv R) K c : bin2canon A K = Some c ->
    getattr O A m (SName c) = Ok (coeff O K m).
  Proof.
    intros Hc. rewrite (getattr_parity m K c c Hc (Permutation_refl c)). unfold sp_odd.
    rewrite xorb_nilpotent. reflexivity.
  Qed.

  (* a transposition really flips the sign (non-vacuity of the parity rule) *)
  Corollary getattr_swap (m : mv R) K p x y r : bin2canon A K = Some (p ++ x :: y :: r) ->
    getattr O A m (SName (p ++ y :: x :: r)) = Ok (ropp (coeff O K m)).
  Proof.
    intros Hc. assert (Hxy : x <> y).
    { pose proof (bin2canon_NoDup A Hwf K _ Hc) as Hnd. apply NoDup_remove_2 in Hnd.
      intros ->. apply Hnd. apply in_or_app. right. left. reflexivity. }
    rewrite (getattr_parity m K (p ++ x :: y :: r) (p ++ y :: x :: r) Hc).
    - unfold sp_odd. rewrite (inv2_swap_adjacent p y x r) by congruence.
      destruct (inv2 (p ++ x :: y :: r)); reflexivity.
    - apply Permutation_app_head. apply perm_swap.
  Qed.

  (* absent blades read 0 whatever the spelling; names that are no blade read 0; other attribute
     names raise AttributeError *)
  Theorem absent_is_zero (m : mv R) :
    (forall K c n, bin2canon A K = Some c -> Permutation n c -> ~ In K (keys m) ->
       getattr O A m (SName n) = Ok rO)
    /\ (forall n, (exists g, In g n /\ ~ In g (alg_vecs A)) -> getattr O A m (SName n) = Ok rO)
    /\ getattr O A m SOther = Err EAttr.
  Proof.
    split; [|split].
    - intros K c n Hc Hp Hn. rewrite (getattr_parity m K c n Hc Hp), (c_notin K m Hn), sg_zero. reflexivity.
    - intros n Hn. unfold getattr. rewrite (blade2canon_nonblade A Hwf n Hn). reflexivity.
    - reflexivity.
  Qed.

  (* ---------------- __contains__ ---------------- *)
  Theorem contains_iff (m : mv R) :
    (forall k, contains A m (KInt k) = Ok (zin k (keys m)))
    /\ (forall K c, bin2canon A K = Some c -> contains A m (KName c) = Ok (zin K (keys m)))
    /\ (forall n, canon2bin A n = None -> contains A m (KName n) = Err EKey)
    /\ (forall K, zin K (keys m) = true <-> In K (keys m)).
  Proof.
    split; [|split; [|split]].
    - reflexivity.
    - intros K c Hc. unfold contains.
      rewrite (entry_canon2bin A Hwf c K (bin2canon_entry A K c Hc)). reflexivity.
    - intros n Hn. unfold contains. rewrite Hn. reflexivity.
    - intros K. apply zin_true_iff.
  Qed.

  (* ---------------- items ---------------- *)
  Theorem items_exact (m : mv R) :
    mv_items m = combine (keys m) (map snd m)
    /\ (NoDup (keys m) -> forall K v, In (K, v) (mv_items m) <-> In K (keys m) /\ coeff O K m = v).
  Proof.
    split.
    - unfold mv_items, keys. induction m as [|[k v] r IH]; [reflexivity|]. cbn [map combine fst snd]. congruence.
    - intros Hnd K v. unfold mv_items. split.
      + intros Hin. split; [change K with (fst (K, v)); apply in_map; exact Hin | apply c_in; assumption].
      + intros [Hk <-]. apply c_in_keys. exact Hk.
  Qed.

  (* ---------------- asfullmv ---------------- *)
  Lemma coeff_tabulate (f : Z -> R) ks K :
    coeff O K (map (fun k => (k, f k)) ks) = if zin K ks then f K else rO.
  Proof.
    induction ks as [|k ks IH]; [reflexivity|]. cbn [map coeff]. rewrite zin_cons, (Z.eqb_sym K k).
    destruct (Z.eqb_spec k K) as [->|Hne]; [reflexivity | exact IH].
  Qed.

  Definition full_keys (canonical : bool) : list Z :=
    if canonical then canon_keys A else Alg.zrange (2 ^ a_d A).

  Lemma full_keys_range canonical K : In K (full_keys canonical) <-> 0 <= K < L.
  Proof.
    destruct canonical; cbn [full_keys].
    - apply (In_canon_keys A Hwf).
    - rewrite In_zrange, <- alg_len_nat. reflexivity.
  Qed.

  Theorem asfullmv_coeffs canonical (m : mv R) :
    asfullmv O A canonical m = Ok (map (fun k => (k, coeff O k m)) (full_keys canonical))
    /\ (forall f, asfullmv O A canonical m = Ok f ->
          keys f = full_keys canonical
          /\ (forall K, 0 <= K < L -> coeff O K f = coeff O K m)
          /\ (forall K, ~ (0 <= K < L) -> coeff O K f = rO)).
  Proof.
    assert (H1 : asfullmv O A canonical m = Ok (map (fun k => (k, coeff O k m)) (full_keys canonical))).
    { unfold asfullmv.
      assert (Hks : (if canonical then indices_for_grades A (all_grades A) else Ok (Alg.zrange (2 ^ a_d A)))
                    = Ok (full_keys canonical)).
      { destruct canonical; [apply (full_grades_canon A Hwf) | reflexivity]. }
      rewrite Hks. cbn [bind]. apply mapM_res_ok. intros k Hk. apply full_keys_range in Hk.
      destruct (bin2canon_total A Hwf k Hk) as (n & Hn & _ & _). rewrite Hn. cbn [of_opt bind].
      rewrite (getattr_canonical m k n Hn). reflexivity. }
    split; [exact H1|]. intros f Hf. rewrite H1 in Hf. injection Hf as <-. split; [|split].
    - unfold keys. rewrite map_map. cbn [fst]. apply map_id.
    - intros K HK. rewrite coeff_tabulate. apply (full_keys_range canonical) in HK. apply zin_true_iff in HK.
      rewrite HK. reflexivity.
    - intros K HK. rewrite coeff_tabulate. destruct (zin K (full_keys canonical)) eqn:E; [|reflexivity].
      apply zin_true_iff, full_keys_range in E. contradiction.
  Qed.

  (* ---------------- map ---------------- *)
  Theorem map_exact (m : mv R) :
    (forall f, keys (map_v f m) = keys m /\ map snd (map_v f m) = map f (map snd m)
       /\ forall K, coeff O K (map_v f m) = if zin K (keys m) then f (coeff O K m) else rO)
    /\ (forall f, keys (map_kv f m) = keys m
       /\ forall K, coeff O K (map_kv f m) = if zin K (keys m) then f K (coeff O K m) else rO).
  Proof.
    split; intros f.
    - split; [|split].
      + unfold map_v, keys. rewrite map_map. reflexivity.
      + unfold map_v. rewrite !map_map. reflexivity.
      + intros K. unfold map_v. induction m as [|[k v] r IH]; [reflexivity|].
        cbn [map fst snd coeff keys]. fold (keys r). rewrite zin_cons, (Z.eqb_sym K k).
        destruct (Z.eqb_spec k K) as [->|Hne]; [reflexivity | exact IH].
    - split.
      + unfold map_kv, keys. rewrite map_map. reflexivity.
      + intros K. unfold map_kv. induction m as [|[k v] r IH]; [reflexivity|].
        cbn [map fst snd coeff keys]. fold (keys r). rewrite zin_cons, (Z.eqb_sym K k).
        destruct (Z.eqb_spec k K) as [->|Hne]; [reflexivity | exact IH].
  Qed.

  (* ---------------- filter ---------------- *)
  Lemma filter_kv_spec p (m : mv R) : NoDup (keys m) ->
    keys (filter_kv p m) = filter (fun k => p k (coeff O k m)) (keys m)
    /\ forall K, coeff O K (filter_kv p m)
                 = if zin K (keys m) && p K (coeff O K m) then coeff O K m else rO.
  Proof.
    unfold filter_kv. induction m as [|[k v] r IH]; intros Hnd; [split; reflexivity|].
    cbn [keys map fst] in Hnd. inversion Hnd as [|? ? Hk Hr]; subst. destruct (IH Hr) as [IH1 IH2].
    cbn [filter fst snd keys map coeff]. fold (keys r). rewrite Z.eqb_refl. split.
    - assert (Hext : filter (fun k0 => p k0 (if Z.eqb k k0 then v else coeff O k0 r)) (keys r)
                     = filter (fun k0 => p k0 (coeff O k0 r)) (keys r)).
      { apply filter_ext_in. intros k0 Hk0. destruct (Z.eqb_spec k k0) as [->|Hne]; [contradiction | reflexivity]. }
      rewrite Hext, <- IH1. destruct (p k v); reflexivity.
    - intros K. rewrite zin_cons, (Z.eqb_sym K k). destruct (Z.eqb_spec k K) as [->|Hne].
      + cbn [orb]. destruct (p K v) eqn:Ep.
        * cbn [coeff]. rewrite Z.eqb_refl. reflexivity.
        * rewrite IH2. apply zin_false_iff in Hk. unfold keys in *. rewrite Hk. reflexivity.
      + cbn [orb]. destruct (p k v); [cbn [coeff]; apply Z.eqb_neq in Hne; rewrite Hne|]; apply IH2.
  Qed.

  Theorem filter_exact (m : mv R) : NoDup (keys m) ->
    (forall p, keys (filter_v p m) = filter (fun k => p (coeff O k m)) (keys m)
       /\ forall K, coeff O K (filter_v p m) = if zin K (keys m) && p (coeff O K m) then coeff O K m else rO)
    /\ (forall p, keys (filter_kv p m) = filter (fun k => p k (coeff O k m)) (keys m)
       /\ forall K, coeff O K (filter_kv p m) = if zin K (keys m) && p K (coeff O K m) then coeff O K m else rO).
  Proof.
    intros Hnd. split; intros p.
    - exact (filter_kv_spec (fun _ => p) m Hnd).
    - exact (filter_kv_spec p m Hnd).
  Qed.

  (* ---------------- grade ---------------- *)
  Theorem grade_exact grades (m : mv R) :
    (grade_sel O A grades m = Err EKey <-> grades_ok A grades = false)
    /\ (forall r, grade_sel O A grades m = Ok r ->
          (forall K, 0 <= K < L ->
             coeff O K r = if grade_in grades K && zin K (keys m) then coeff O K m else rO)
          /\ (wfmv A m -> NoDup (keys r)
                          /\ forall K, In K (keys r) <-> (In K (keys m) /\ grade_in grades K = true))).
  Proof.
    pose proof (wf_sign_hyps A Hwf) as H.
    exact (grade_sel_spec R rO rI radd rmul rsub ropp A (sh_keys A H) (sh_nodup A H) (sh_grade A H) grades m).
  Qed.
End Access.


(* ====================================================================================== *)
(** * 4. Pieces of the constructor *)

Lemma bind_ok {X Y} (x : res X) (f : X -> res Y) y :
  bind x f = Ok y <-> exists a, x = Ok a /\ f a = Ok y.
Proof.
  destruct x as [a|e]; cbn [bind]; split.
  - intros H. exists a. auto.
  - intros (a' & E & H). injection E as <-. exact H.
  - discriminate.
  - intros (a' & E & _). discriminate.
Qed.

(* what a caller's key denotes: an int is itself, a string is looked up in canon2bin *)
Definition key_denotes (A : alg) (k : key) (z : Z) : Prop :=
  match k with KInt z' => z = z' | KName n => canon2bin A n = Some z end.

Section Pieces.
  Variable A : alg.
  Hypothesis Hwf : wf_alg A = true.
  Local Notation L := (alg_len A).

  Lemma conv_key_denotes k z : conv_key A k = Ok z -> key_denotes A k z /\ 0 <= z < L.
  Proof.
    destruct k as [z'|n]; cbn [conv_key key_denotes].
    - destruct (bin2canon A z') as [c|] eqn:E; [|discriminate]. intros H. injection H as <-.
      split; [reflexivity | apply (bin2canon_range A Hwf z' c E)].
    - destruct (canon2bin A n) as [b|] eqn:E; cbn [of_opt]; [|discriminate]. intros H. injection H as <-.
      split; [reflexivity|]. unfold canon2bin in E. apply find_by_name_In in E.
      apply (c2b_entry_spec A Hwf n b E).
  Qed.

  Lemma denotes_conv_key k z : key_denotes A k z -> 0 <= z < L -> conv_key A k = Ok z.
  Proof.
    destruct k as [z'|n]; cbn [conv_key key_denotes].
    - intros -> Hr. destruct (bin2canon_total A Hwf z' Hr) as (c & Hc & _). rewrite Hc. reflexivity.
    - intros -> _. reflexivity.
  Qed.

  Lemma all_int_denotes ks : forallb is_int ks = true -> Forall2 (key_denotes A) ks (map raw_int ks).
  Proof.
    induction ks as [|[z|n] r IH]; cbn [forallb is_int map raw_int andb]; intros H.
    - constructor.
    - constructor; [reflexivity | apply IH; exact H].
    - discriminate.
  Qed.

  (* the sanitation never invents a key *)
  Theorem sanitize_denotes ks zs : sanitize A ks = Ok zs -> Forall2 (key_denotes A) ks zs.
  Proof.
    unfold sanitize. destruct (forallb is_int ks) eqn:E.
    - intros H. injection H as <-. apply all_int_denotes. exact E.
    - intros H. apply mapM_res_inv in H. clear E. induction H as [|k z ks zs Hk _ IH]; [constructor|].
      constructor; [apply (conv_key_denotes k z Hk) | exact IH].
  Qed.

  Lemma denotes_functional ks zs zs' :
    Forall2 (key_denotes A) ks zs -> Forall2 (key_denotes A) ks zs' -> zs = zs'.
  Proof.
    intros H. revert zs'. induction H as [|k z ks zs Hk _ IH]; intros zs' H'; inversion H'; subst; [reflexivity|].
    f_equal; [|apply IH; assumption].
    destruct k; cbn [key_denotes] in *; congruence.
  Qed.

  Lemma sanitize_ints zs : sanitize A (map KInt zs) = Ok zs.
  Proof.
    unfold sanitize. assert (H : forallb is_int (map KInt zs) = true) by (induction zs; [reflexivity | exact IHzs]).
    rewrite H. f_equal. rewrite map_map. cbn [raw_int]. apply map_id.
  Qed.

  (* the unconditional conversion of the graded Mapping branch agrees with the sanitation on keys of
     the algebra *)
  Lemma mapM_conv_sanitize ks zs : mapM_res (conv_key A) ks = Ok zs ->
    sanitize A ks = Ok zs /\ forall z, In z zs -> 0 <= z < L.
  Proof.
    intros H. pose proof (mapM_res_inv _ _ _ H) as HF. split.
    - unfold sanitize. destruct (forallb is_int ks) eqn:E; [|exact H]. f_equal.
      apply (denotes_functional ks); [apply all_int_denotes; exact E|].
      clear H E. induction HF as [|k z ks zs Hk _ IH]; [constructor|].
      constructor; [apply (conv_key_denotes k z Hk) | exact IH].
    - clear H. induction HF as [|k z ks zs Hk _ IH]; intros z' Hz'; [destruct Hz'|].
      destruct Hz' as [<-|Hz']; [apply (conv_key_denotes k z Hk) | apply IH; assumption].
  Qed.

  Lemma sanitize_mapM_conv ks zs : sanitize A ks = Ok zs -> (forall z, In z zs -> 0 <= z < L) ->
    mapM_res (conv_key A) ks = Ok zs.
  Proof.
    intros H Hr. apply sanitize_denotes in H. apply mapM_res_of_Forall2.
    induction H as [|k z ks zs Hk _ IH]; [constructor|]. constructor.
    - apply denotes_conv_key; [exact Hk | apply Hr; left; reflexivity].
    - apply IH. intros z' Hz'. apply Hr. right. exact Hz'.
  Qed.

  Lemma sanitize_length ks zs : sanitize A ks = Ok zs -> length zs = length ks.
  Proof.
    intros H. apply sanitize_denotes in H. induction H as [|k z ks' zs' _ _ IH]; [reflexivity|].
    cbn [length]. rewrite IH. reflexivity.
  Qed.

  (* the sanitation fails only with KeyError, and only on a string that is no table name or (in a
     list that contains a string) an int that is no key *)
  Theorem sanitize_err ks e : sanitize A ks = Err e ->
    e = EKey /\ exists k, In k ks /\ forall z, ~ (key_denotes A k z /\ 0 <= z < L).
  Proof.
    unfold sanitize. destruct (forallb is_int ks); [discriminate|].
    induction ks as [|k r IH]; cbn [mapM_res]; [discriminate|].
    destruct (conv_key A k) as [z|e'] eqn:Ek; cbn [bind].
    - destruct (mapM_res (conv_key A) r) as [zs|e'] eqn:Er; cbn [bind]; [discriminate|].
      intros H. injection H as <-. destruct (IH eq_refl) as [-> (k' & Hk' & Hb)].
      split; [reflexivity|]. exists k'. split; [right; exact Hk' | exact Hb].
    - intros H. injection H as <-. split.
      + destruct k as [z|n]; cbn [conv_key] in Ek.
        * destruct (bin2canon A z); [discriminate | congruence].
        * destruct (canon2bin A n); cbn [of_opt] in Ek; [discriminate | congruence].
      + exists k. split; [left; reflexivity|]. intros z [Hd Hr].
        rewrite (denotes_conv_key k z Hd Hr) in Ek. discriminate.
  Qed.
End Pieces.

(* ---------------- grades ---------------- *)
Lemma zinsert_in x l y : In y (zinsert x l) <-> y = x \/ In y l.
Proof.
  induction l as [|z r IH]; cbn [zinsert].
  - cbn [In]. intuition.
  - destruct (x <? z); [cbn [In]; intuition|]. destruct (Z.eqb_spec x z) as [->|Hne]; cbn [In].
    + intuition.
    + rewrite IH. intuition.
Qed.

Lemma grades_of_keys_in ks x : In x (grades_of_keys ks) <-> exists k, In k ks /\ x = popcount k.
Proof.
  unfold grades_of_keys.
  assert (H : forall acc, In x (fold_left (fun acc k => zinsert (popcount k) acc) ks acc)
                          <-> In x acc \/ exists k, In k ks /\ x = popcount k).
  { induction ks as [|k r IH]; intros acc; cbn [fold_left].
    - split; [auto | intros [H|(k & [] & _)]; exact H].
    - rewrite IH, zinsert_in. split.
      + intros [[->|H]|(k' & Hk' & E)]; [right; exists k; split; [left|]; reflexivity | left; exact H
                                         | right; exists k'; split; [right; exact Hk' | exact E]].
      + intros [H|(k' & [<-|Hk'] & E)]; [left; right; exact H | left; left; exact E | right; exists k'; auto]. }
  rewrite H. cbn [In]. intuition.
Qed.

Section Grades.
  Variable A : alg.
  Hypothesis Hwf : wf_alg A = true.
  Local Notation L := (alg_len A).

  Lemma ifg_inv g full : ifg A g = Ok full ->
    grades_ok A (map Z.to_nat g) = true /\ full = flat_map (indices_for_grade A) (map Z.to_nat g).
  Proof.
    unfold ifg, indices_for_grades, grades_ok.
    destruct (strictly_inc (map Z.to_nat g) && forallb (fun g0 => Nat.leb g0 (a_d A)) (map Z.to_nat g));
      [|discriminate]. intros H. injection H as <-. split; reflexivity.
  Qed.

  Lemma ifg_ok g : grades_ok A (map Z.to_nat g) = true ->
    ifg A g = Ok (flat_map (indices_for_grade A) (map Z.to_nat g)).
  Proof. unfold ifg, indices_for_grades, grades_ok. intros ->. reflexivity. Qed.

  Lemma ifg_in g full k : ifg A g = Ok full ->
    (In k full <-> 0 <= k < L /\ grade_in (map Z.to_nat g) k = true).
  Proof.
    intros H. apply ifg_inv in H. destruct H as [_ ->]. pose proof (wf_sign_hyps A Hwf) as Hs.
    apply (in_indices_for_grades A (sh_keys A Hs) (sh_grade A Hs)).
  Qed.

  Lemma ifg_nodup g full : ifg A g = Ok full -> NoDup full.
  Proof.
    intros H. apply ifg_inv in H. destruct H as [Hok ->]. pose proof (wf_sign_hyps A Hwf) as Hs.
    apply (NoDup_indices_for_grades A (sh_keys A Hs) (sh_nodup A Hs) (sh_grade A Hs)).
    unfold grades_ok in Hok. apply andb_prop in Hok. apply Hok.
  Qed.

  Lemma ifg_range_computed zs full : ifg A (grades_of_keys zs) = Ok full ->
    grade_range_ok A (grades_of_keys zs) = true.
  Proof.
    intros H. apply ifg_inv in H. destruct H as [Hok _]. unfold grades_ok in Hok.
    apply andb_prop in Hok. destruct Hok as [_ Hle]. rewrite forallb_forall in Hle.
    unfold grade_range_ok. apply forallb_forall. intros x Hx.
    assert (Hnn : 0 <= x).
    { apply grades_of_keys_in in Hx. destruct Hx as (k & _ & ->). apply popcount_nonneg. }
    specialize (Hle (Z.to_nat x) (in_map Z.to_nat _ x Hx)). apply Nat.leb_le in Hle.
    apply andb_true_intro. split; [apply Z.leb_le; exact Hnn | apply Z.leb_le; lia].
  Qed.

  (* an in-range key belongs to the complete grades computed from any key list that contains it *)
  Lemma key_in_own_grades zs full k : ifg A (grades_of_keys zs) = Ok full -> In k zs -> 0 <= k < L -> In k full.
  Proof.
    intros H Hk Hr. apply (ifg_in _ _ k H). split; [exact Hr|]. unfold grade_in. apply existsb_exists.
    exists (Z.to_nat (popcount k)). split.
    - apply in_map. apply grades_of_keys_in. exists k. auto.
    - unfold grade. rewrite Z2Nat.id by apply popcount_nonneg. apply Z.eqb_refl.
  Qed.

  Lemma all_grades_ifg : ifg A (map Z.of_nat (all_grades A)) = Ok (canon_keys A).
  Proof.
    unfold ifg. rewrite map_map. rewrite (map_ext _ (fun x => x)) by (intros; apply Nat2Z.id).
    rewrite map_id. apply (full_grades_canon A Hwf).
  Qed.

  Lemma all_grades_range : grade_range_ok A (map Z.of_nat (all_grades A)) = true.
  Proof.
    unfold grade_range_ok, all_grades. apply forallb_forall. intros x Hx. apply in_map_iff in Hx.
    destruct Hx as (g & <- & Hg). apply in_seq in Hg. apply andb_true_intro.
    split; apply Z.leb_le; lia.
  Qed.
End Grades.

(* ====================================================================================== *)
(** * 5. The constructor, form by form *)

Section Build.
  Variable R : Type.
  Variables (rO rI : R) (radd rmul rsub : R -> R -> R) (ropp : R -> R).
  Hypothesis Rth : ring_theory rO rI radd rmul rsub ropp (@eq R).
  Add Ring Rring15b : Rth.
  Local Notation O := (mkOps R radd rsub rmul ropp rO rI).
  Variable A : alg.
  Hypothesis Hwf : wf_alg A = true.
  Variable sym : Z -> R.
  Local Notation L := (alg_len A).

  (* the grades the constructor works with: the declared ones, else [dflt] *)
  Definition declared (g0 : option (list Z)) (dflt : list Z) : list Z :=
    match g0 with Some g => g | None => dflt end.

  (* [core] = the computation of the grades, then the rest *)
  Definition grades_step (keys1 : option (list Z)) (nm : bool) (g0 : option (list Z)) : res (list Z) :=
    match (match g0, nm, keys1 with
           | None, true, Some zs => Some (grades_of_keys zs)
           | g, _, _ => g
           end) with
    | Some g => if grade_range_ok A g then Ok g else Err EValue
    | None => Ok (match (match keys1 with Some zs => zs | None => [] end) with
                  | [] => map Z.of_nat (all_grades A)
                  | _ => grades_of_keys (match keys1 with Some zs => zs | None => [] end)
                  end)
    end.

  Definition core_tail (keys : list Z) (values0 : vals R) (nm : bool) (grades : list Z) : res (mv R) :=
    chk <- (if a_graded A && negb (isnil keys)
            then full <- ifg A grades ;; if list_eqb Z.eqb keys full then Ok tt else Err EValue
            else Ok tt) ;;
    '(keysk, values) <-
       (match values0 with
        | VMap mp =>
            if a_graded A && negb (isnil mp) then
              zs <- mapM_res (conv_key A) (map fst mp) ;;
              full <- ifg A (grades_of_keys zs) ;;
              if list_eqb Z.eqb zs full then Ok (map KInt zs, map snd mp) else Err EValue
            else Ok (map fst mp, map snd mp)
        | _ =>
            let vs := match values0 with VList l => l | _ => [] end in
            full <- ifg A grades ;;
            if Nat.eqb (length vs) (length full) && isnil keys then Ok (map KInt full, vs)
            else if nm && isnil vs then
              let ks := if isnil keys then full else keys in
              vs' <- mapM_res (fun k => match bin2canon A k with Some _ => Ok (sym k) | None => Err EKey end) ks ;;
              Ok (map KInt ks, vs')
            else if Nat.eqb (length keys) (length vs) then Ok (map KInt keys, vs)
            else Err EType
        end) ;;
    keys8 <- sanitize A keysk ;;
    full <- ifg A grades ;;
    if forallb (fun k => zin k full) keys8 then Ok (combine keys8 values) else Err EValue.

  Lemma core_split keys1 values0 nm g0 :
    core A sym keys1 values0 nm g0
    = bind (grades_step keys1 nm g0)
           (core_tail (match keys1 with Some zs => zs | None => [] end) values0 nm).
  Proof. reflexivity. Qed.

  (* ---------------- keys given (keys= or keyword blades), values given ---------------- *)

  Lemma core_tail_keyed zs vs nm G m : zs <> [] -> (nm = false \/ vs <> []) ->
    (core_tail zs (VList vs) nm G = Ok m <->
     exists full, ifg A G = Ok full /\ length zs = length vs /\ incl zs full
                  /\ (a_graded A = true -> zs = full) /\ m = combine zs vs).
  Proof.
    intros Hzs Hnv. unfold core_tail.
    assert (Hn1 : isnil zs = false) by (apply isnil_false; exact Hzs).
    assert (Hn2 : nm && isnil vs = false).
    { destruct Hnv as [->|Hv]; [reflexivity|]. apply isnil_false in Hv. rewrite Hv. apply andb_false_r. }
    rewrite Hn1. cbn [negb]. rewrite andb_true_r.
    destruct (ifg A G) as [full|e] eqn:Ef.
    2:{ split; [|intros (full & H & _); discriminate].
        destruct (a_graded A); cbn [bind]; discriminate. }
    cbn [bind]. rewrite andb_false_r, Hn2.
    assert (Hrest : forall keysk values,
              (keysk, values) = (map KInt zs, vs) ->
              ((keys8 <- sanitize A keysk ;; full0 <- Ok full ;;
                (if forallb (fun k => zin k full0) keys8 then Ok (combine keys8 values) else Err EValue)) = Ok m
               <-> incl zs full /\ m = combine zs vs)).
    { intros keysk values E. injection E as -> ->. rewrite sanitize_ints. cbn [bind].
      destruct (forallb (fun k => zin k full) zs) eqn:Ei.
      - apply forallb_zin_incl in Ei. split; [intros H; injection H as <-; auto | intros [_ ->]; reflexivity].
      - split; [discriminate|]. intros [Hi _]. apply forallb_zin_incl in Hi. congruence. }
    destruct (a_graded A) eqn:Eg.
    - destruct (list_eqb Z.eqb zs full) eqn:Ee; cbn [bind].
      + apply list_eqb_Z_eq in Ee.
        destruct (Nat.eqb_spec (length zs) (length vs)) as [El|El]; cbn [bind].
        * rewrite (Hrest _ _ eq_refl). split.
          -- intros [Hi ->]. exists full. repeat split; auto.
          -- intros (full' & E & _ & Hi & _ & ->). injection E as <-. auto.
        * split; [discriminate|]. intros (full' & _ & Hl & _). contradiction.
      + split; [discriminate|]. intros (full' & E & _ & _ & Hg & _). injection E as <-.
        rewrite (Hg eq_refl) in Ee. rewrite (proj2 (list_eqb_Z_eq full full) eq_refl) in Ee. discriminate.
    - cbn [bind]. destruct (Nat.eqb_spec (length zs) (length vs)) as [El|El]; cbn [bind].
      + rewrite (Hrest _ _ eq_refl). split.
        * intros [Hi ->]. exists full. repeat split; auto. discriminate.
        * intros (full' & E & _ & Hi & _ & ->). injection E as <-. auto.
      + split; [discriminate|]. intros (full' & _ & Hl & _). contradiction.
  Qed.

  Lemma grades_step_keyed zs nm g0 : zs <> [] ->
    grades_step (Some zs) nm g0
    = if (match g0 with
          | Some g => grade_range_ok A g
          | None => if nm then grade_range_ok A (grades_of_keys zs) else true
          end)
      then Ok (declared g0 (grades_of_keys zs)) else Err EValue.
  Proof.
    intros Hzs. unfold grades_step, declared. destruct g0 as [g|]; [destruct nm; reflexivity|].
    destruct nm; [reflexivity|]. destruct zs; [contradiction | reflexivity].
  Qed.

  Lemma grades_step_unkeyed nm g0 :
    grades_step None nm g0
    = match g0 with
      | Some g => if grade_range_ok A g then Ok g else Err EValue
      | None => Ok (map Z.of_nat (all_grades A))
      end.
  Proof. unfold grades_step. destruct g0 as [g|]; destruct nm; reflexivity. Qed.

  Theorem core_keyed zs vs nm g0 m : zs <> [] -> (nm = false \/ vs <> []) ->
    (core A sym (Some zs) (VList vs) nm g0 = Ok m <->
     exists full, (forall g, g0 = Some g -> grade_range_ok A g = true)
       /\ ifg A (declared g0 (grades_of_keys zs)) = Ok full
       /\ length zs = length vs /\ incl zs full /\ (a_graded A = true -> zs = full)
       /\ m = combine zs vs).
  Proof.
    intros Hzs Hnv. rewrite core_split, (grades_step_keyed zs nm g0 Hzs). split.
    - intros H. apply bind_ok in H. destruct H as (G & HG & Ht).
      assert (G = declared g0 (grades_of_keys zs) /\ forall g, g0 = Some g -> grade_range_ok A g = true) as [-> Hr].
      { destruct g0 as [g|].
        - destruct (grade_range_ok A g) eqn:E; [|discriminate]. injection HG as <-. split; [reflexivity|].
          intros g' Eg. injection Eg as <-. exact E.
        - split; [|discriminate]. destruct nm; [destruct (grade_range_ok A (grades_of_keys zs))|];
            try discriminate; injection HG as <-; reflexivity. }
      apply (core_tail_keyed zs vs nm _ m Hzs Hnv) in Ht. destruct Ht as (full & H1 & H2 & H3 & H4 & H5).
      exists full. repeat (split; [assumption|]). assumption.
    - intros (full & Hr & H1 & H2 & H3 & H4 & H5).
      assert (Hc : (match g0 with
                    | Some g => grade_range_ok A g
                    | None => if nm then grade_range_ok A (grades_of_keys zs) else true
                    end) = true).
      { destruct g0 as [g|]; [apply Hr; reflexivity|]. destruct nm; [|reflexivity].
        apply (ifg_range_computed A zs full H1). }
      rewrite Hc. cbn [bind]. apply (core_tail_keyed zs vs nm _ m Hzs Hnv). exists full.
      repeat (split; [assumption|]). assumption.
  Qed.

  (* ---------------- keys given, name= ---------------- *)
  Lemma mapM_sym ks : (forall k, In k ks -> 0 <= k < L) ->
    mapM_res (fun k => match bin2canon A k with Some _ => Ok (sym k) | None => Err EKey end) ks = Ok (map sym ks).
  Proof.
    intros H. apply mapM_res_ok. intros k Hk. destruct (bin2canon_total A Hwf k (H k Hk)) as (c & -> & _).
    reflexivity.
  Qed.

  Lemma mapM_sym_inv ks vs' :
    mapM_res (fun k => match bin2canon A k with Some _ => Ok (sym k) | None => Err EKey end) ks = Ok vs' ->
    vs' = map sym ks.
  Proof.
    intros H. apply mapM_res_inv in H. induction H as [|k v ks vs' Hk _ IH]; [reflexivity|].
    cbn [map]. f_equal; [|exact IH]. destruct (bin2canon A k); [|discriminate]. injection Hk as <-. reflexivity.
  Qed.

  Lemma combine_map_self {X} (f : Z -> X) ks : combine ks (map f ks) = map (fun k => (k, f k)) ks.
  Proof. induction ks as [|k r IH]; [reflexivity|]. cbn [map combine]. rewrite IH. reflexivity. Qed.

  Definition novalues (v : vals R) : Prop := v = VNone \/ v = VList [].

  Lemma core_tail_novalues keys v nm G : novalues v -> core_tail keys v nm G = core_tail keys (VList []) nm G.
  Proof. intros [-> | ->]; reflexivity. Qed.

  Lemma core_tail_named_keyed zs v G m : zs <> [] -> novalues v ->
    (core_tail zs v true G = Ok m <->
     exists full, ifg A G = Ok full /\ incl zs full /\ (a_graded A = true -> zs = full)
                  /\ m = map (fun k => (k, sym k)) zs).
  Proof.
    intros Hzs Hv. rewrite (core_tail_novalues zs v true G Hv). unfold core_tail.
    assert (Hn1 : isnil zs = false) by (apply isnil_false; exact Hzs).
    rewrite Hn1. cbn [negb]. rewrite andb_true_r.
    destruct (ifg A G) as [full|e] eqn:Ef.
    2:{ split; [|intros (full & H & _); discriminate].
        destruct (a_graded A); cbn [bind]; discriminate. }
    cbn [bind]. rewrite andb_false_r. cbn [andb isnil].
    assert (Hfin : (( '(keysk, values) <-
                       (vs' <- mapM_res (fun k => match bin2canon A k with Some _ => Ok (sym k) | None => Err EKey end) zs ;;
                        Ok (map KInt zs, vs')) ;;
                      keys8 <- sanitize A keysk ;; full0 <- Ok full ;;
                      (if forallb (fun k => zin k full0) keys8 then Ok (combine keys8 values) else Err EValue)) = Ok m)
                   <-> incl zs full /\ m = map (fun k => (k, sym k)) zs).
    { split.
      - intros H. apply bind_ok in H. destruct H as ([keysk values] & H1 & H2).
        apply bind_ok in H1. destruct H1 as (vs' & Hm & E). injection E as <- <-.
        apply mapM_sym_inv in Hm. subst vs'. rewrite sanitize_ints in H2. cbn [bind] in H2.
        destruct (forallb (fun k => zin k full) zs) eqn:Ei; [|discriminate]. injection H2 as <-.
        split; [apply forallb_zin_incl; exact Ei | apply combine_map_self].
      - intros [Hi ->]. rewrite mapM_sym.
        + cbn [bind]. rewrite sanitize_ints. cbn [bind]. rewrite (proj2 (forallb_zin_incl zs full) Hi).
          rewrite combine_map_self. reflexivity.
        + intros k Hk. apply (ifg_in A Hwf G full k Ef). apply Hi. exact Hk. }
    destruct (a_graded A) eqn:Eg.
    - destruct (list_eqb Z.eqb zs full) eqn:Ee; cbn [bind].
      + apply list_eqb_Z_eq in Ee. rewrite Hfin. split.
        * intros [Hi ->]. exists full. repeat split; auto.
        * intros (full' & E & Hi & _ & ->). injection E as <-. auto.
      + split; [discriminate|]. intros (full' & E & _ & Hg & _). injection E as <-.
        rewrite (Hg eq_refl) in Ee. rewrite (proj2 (list_eqb_Z_eq full full) eq_refl) in Ee. discriminate.
    - cbn [bind]. rewrite Hfin. split.
      + intros [Hi ->]. exists full. repeat split; auto. discriminate.
      + intros (full' & E & Hi & _ & ->). injection E as <-. auto.
  Qed.

  Theorem core_named_keyed zs v g0 m : zs <> [] -> novalues v ->
    (core A sym (Some zs) v true g0 = Ok m <->
     exists full, (forall g, g0 = Some g -> grade_range_ok A g = true)
       /\ ifg A (declared g0 (grades_of_keys zs)) = Ok full
       /\ incl zs full /\ (a_graded A = true -> zs = full)
       /\ m = map (fun k => (k, sym k)) zs).
  Proof.
    intros Hzs Hv. rewrite core_split, (grades_step_keyed zs true g0 Hzs). split.
    - intros H. apply bind_ok in H. destruct H as (G & HG & Ht).
      assert (G = declared g0 (grades_of_keys zs) /\ forall g, g0 = Some g -> grade_range_ok A g = true) as [-> Hr].
      { destruct g0 as [g|].
        - destruct (grade_range_ok A g) eqn:E; [|discriminate]. injection HG as <-. split; [reflexivity|].
          intros g' Eg. injection Eg as <-. exact E.
        - split; [|discriminate]. destruct (grade_range_ok A (grades_of_keys zs));
            try discriminate; injection HG as <-; reflexivity. }
      apply (core_tail_named_keyed zs v _ m Hzs Hv) in Ht. destruct Ht as (full & H1 & H2 & H3 & H4).
      exists full. repeat (split; [assumption|]). assumption.
    - intros (full & Hr & H1 & H2 & H3 & H4).
      assert (Hc : (match g0 with
                    | Some g => grade_range_ok A g
                    | None => grade_range_ok A (grades_of_keys zs)
                    end) = true).
      { destruct g0 as [g|]; [apply Hr; reflexivity|]. apply (ifg_range_computed A zs full H1). }
      rewrite Hc. cbn [bind]. apply (core_tail_named_keyed zs v _ m Hzs Hv). exists full.
      repeat (split; [assumption|]). assumption.
  Qed.

  (* ---------------- no keys ---------------- *)
  Lemma core_unkeyed v nm g0 m :
    core A sym None v nm g0 = Ok m <->
    (forall g, g0 = Some g -> grade_range_ok A g = true)
    /\ core_tail [] v nm (declared g0 (map Z.of_nat (all_grades A))) = Ok m.
  Proof.
    rewrite core_split, grades_step_unkeyed. destruct g0 as [g|]; cbn [declared].
    - destruct (grade_range_ok A g) eqn:E; cbn [bind].
      + split; [intros H; split; [intros g' Eg; injection Eg as <-; exact E | exact H] | intros [_ H]; exact H].
      + split; [discriminate|]. intros [H _]. specialize (H g eq_refl). congruence.
    - cbn [bind]. split; [intros H; split; [discriminate | exact H] | intros [_ H]; exact H].
  Qed.

  Lemma core_tail_unkeyed_values vs nm G m : (nm = false \/ vs <> []) ->
    (core_tail [] (VList vs) nm G = Ok m <->
     exists full, ifg A G = Ok full
       /\ ((length vs = length full /\ m = combine full vs)
           \/ (length vs <> length full /\ vs = [] /\ m = []))).
  Proof.
    intros Hnv. unfold core_tail. cbn [isnil negb]. rewrite andb_false_r. cbn [bind].
    assert (Hn2 : nm && isnil vs = false).
    { destruct Hnv as [->|Hv]; [reflexivity|]. apply isnil_false in Hv. rewrite Hv. apply andb_false_r. }
    destruct (ifg A G) as [full|e] eqn:Ef; cbn [bind].
    2:{ split; [discriminate | intros (full & H & _); discriminate]. }
    rewrite andb_true_r, Hn2.
    destruct (Nat.eqb_spec (length vs) (length full)) as [El|El]; cbn [bind].
    - rewrite sanitize_ints. cbn [bind].
      rewrite (proj2 (forallb_zin_incl full full) (incl_refl full)). split.
      + intros H. injection H as <-. exists full. split; [reflexivity|]. left. auto.
      + intros (full' & E & [[_ ->]|[Hne _]]); injection E as <-; [reflexivity | contradiction].
    - cbn [length]. destruct vs as [|v0 vr]; cbn [length Nat.eqb bind].
      + cbn [map sanitize forallb combine]. unfold sanitize. cbn [forallb map bind combine]. split.
        * intros H. injection H as <-. exists full. split; [reflexivity|]. right. auto.
        * intros (full' & E & [[Hl _]|[_ [_ ->]]]); injection E as <-; [contradiction | reflexivity].
      + split; [discriminate|]. intros (full' & E & [[Hl _]|[_ [Hv _]]]); injection E as <-; [contradiction | discriminate].
  Qed.

  Lemma core_tail_unkeyed_name v G m : novalues v ->
    (core_tail [] v true G = Ok m <-> exists full, ifg A G = Ok full /\ m = map (fun k => (k, sym k)) full).
  Proof.
    intros Hv. rewrite (core_tail_novalues [] v true G Hv). unfold core_tail.
    cbn [isnil negb]. rewrite andb_false_r. cbn [bind length].
    destruct (ifg A G) as [full|e] eqn:Ef; cbn [bind].
    2:{ split; [discriminate | intros (full & H & _); discriminate]. }
    rewrite andb_true_r. cbn [andb].
    assert (Hin : forall k, In k full -> 0 <= k < L) by (intros k Hk; apply (ifg_in A Hwf G full k Ef); exact Hk).
    destruct full as [|k0 fr]; cbn [length Nat.eqb bind].
    - unfold sanitize. cbn [map forallb bind combine]. split.
      + intros H. injection H as <-. exists []. split; reflexivity.
      + intros (full' & E & ->). injection E as <-. reflexivity.
    - rewrite (mapM_sym (k0 :: fr) Hin). cbn [bind]. rewrite sanitize_ints. cbn [bind].
      rewrite (proj2 (forallb_zin_incl (k0 :: fr) (k0 :: fr)) (incl_refl _)), combine_map_self. split.
      + intros H. injection H as <-. exists (k0 :: fr). split; reflexivity.
      + intros (full' & E & ->). injection E as <-. reflexivity.
  Qed.

  Lemma core_tail_map mp nm G m :
    core_tail [] (VMap mp) nm G = Ok m <->
    exists zs full, sanitize A (map fst mp) = Ok zs /\ ifg A G = Ok full /\ incl zs full
      /\ (a_graded A = true -> mp <> [] -> ifg A (grades_of_keys zs) = Ok zs)
      /\ m = combine zs (map snd mp).
  Proof.
    unfold core_tail. cbn [isnil negb]. rewrite andb_false_r. cbn [bind].
    assert (Hfin : forall zs,
      ((full <- ifg A G ;; (if forallb (fun k => zin k full) zs then Ok (combine zs (map snd mp)) else Err EValue)) = Ok m)
      <-> exists full, ifg A G = Ok full /\ incl zs full /\ m = combine zs (map snd mp)).
    { intros zs. destruct (ifg A G) as [full|e]; cbn [bind].
      - destruct (forallb (fun k => zin k full) zs) eqn:Ei.
        + apply forallb_zin_incl in Ei. split; [intros H; injection H as <-; exists full; auto|].
          intros (full' & E & _ & ->). reflexivity.
        + split; [discriminate|]. intros (full' & E & Hi & _). injection E as <-.
          apply forallb_zin_incl in Hi. congruence.
      - split; [discriminate | intros (full' & E & _); discriminate]. }
    destruct (a_graded A && negb (isnil mp)) eqn:Eg.
    - apply andb_prop in Eg. destruct Eg as [Eg Hmp]. apply negb_true_iff, isnil_false in Hmp. split.
      + intros H. apply bind_ok in H. destruct H as ([keysk values] & H1 & H2).
        apply bind_ok in H1. destruct H1 as (zs & Hzs & H1). apply bind_ok in H1. destruct H1 as (full' & Hf' & H1).
        destruct (list_eqb Z.eqb zs full') eqn:Ee; [|discriminate]. apply list_eqb_Z_eq in Ee. subst full'.
        injection H1 as <- <-. rewrite sanitize_ints in H2. cbn [bind] in H2.
        apply Hfin in H2. destruct H2 as (full & Hf & Hi & ->).
        exists zs, full. split; [apply (mapM_conv_sanitize A Hwf _ _ Hzs)|].
        split; [exact Hf|]. split; [exact Hi|]. split; [intros _ _; exact Hf' | reflexivity].
      + intros (zs & full & Hs & Hf & Hi & Hg & ->).
        assert (Hr : forall z, In z zs -> 0 <= z < L) by (intros z Hz; apply (ifg_in A Hwf G full z Hf); apply Hi; exact Hz).
        rewrite (sanitize_mapM_conv A Hwf _ _ Hs Hr). cbn [bind]. rewrite (Hg Eg Hmp). cbn [bind].
        rewrite (proj2 (list_eqb_Z_eq zs zs) eq_refl). cbn [bind]. rewrite sanitize_ints. cbn [bind].
        apply Hfin. exists full. auto.
    - cbn [bind]. split.
      + intros H. apply bind_ok in H. destruct H as (zs & Hs & H). apply Hfin in H.
        destruct H as (full & Hf & Hi & ->). exists zs, full.
        split; [exact Hs|]. split; [exact Hf|]. split; [exact Hi|]. split; [|reflexivity].
        intros Hg Hmp. apply isnil_false in Hmp. rewrite Hg, Hmp in Eg. discriminate.
      + intros (zs & full & Hs & Hf & Hi & _ & ->). rewrite Hs. cbn [bind]. apply Hfin. exists full. auto.
  Qed.
End Build.

(* ====================================================================================== *)
(** * 6. Keyword blades *)

Section Dict.
  Context {V : Type}.
  Implicit Types d : list (name * V).

  Lemma nassoc_app n d1 d2 :
    nassoc n (d1 ++ d2) = match nassoc n d1 with Some v => Some v | None => nassoc n d2 end.
  Proof.
    induction d1 as [|[m v] r IH]; [reflexivity|]. cbn [app nassoc]. destruct (name_eqb m n); [reflexivity | exact IH].
  Qed.

  Lemma nassoc_notin n d : ~ In n (map fst d) -> nassoc n d = None.
  Proof.
    induction d as [|[m v] r IH]; intros H; [reflexivity|]. cbn [nassoc].
    destruct (name_eqb m n) eqn:E.
    - apply name_eqb_eq in E. subst m. exfalso. apply H. left. reflexivity.
    - apply IH. intros Hin. apply H. right. exact Hin.
  Qed.

  Lemma nassoc_some_in n d v : nassoc n d = Some v -> In (n, v) d.
  Proof.
    induction d as [|[m w] r IH]; cbn [nassoc]; [discriminate|]. destruct (name_eqb m n) eqn:E.
    - apply name_eqb_eq in E. subst m. intros H. injection H as <-. left. reflexivity.
    - intros H. right. apply IH. exact H.
  Qed.

  Lemma nassoc_in n v d : NoDup (map fst d) -> In (n, v) d -> nassoc n d = Some v.
  Proof.
    induction d as [|[m w] r IH]; intros Hnd Hin; [destruct Hin|]. cbn [map fst] in Hnd.
    inversion Hnd as [|? ? Hm Hr]; subst. cbn [nassoc]. destruct Hin as [E|Hin].
    - injection E as -> ->. rewrite (proj2 (name_eqb_eq n n) eq_refl). reflexivity.
    - destruct (name_eqb m n) eqn:E.
      + apply name_eqb_eq in E. subst m. exfalso. apply Hm. change n with (fst (n, v)). apply in_map. exact Hin.
      + apply IH; assumption.
  Qed.

  Lemma nassoc_nset x n v d : nassoc x (nset n v d) = if name_eqb n x then Some v else nassoc x d.
  Proof.
    induction d as [|[m w] r IH]; cbn [nset nassoc].
    - reflexivity.
    - destruct (name_eqb m n) eqn:E; cbn [nassoc].
      + apply name_eqb_eq in E. subst m. destruct (name_eqb n x); reflexivity.
      + rewrite IH. destruct (name_eqb m x) eqn:E2; [|reflexivity].
        apply name_eqb_eq in E2. subst m. destruct (name_eqb n x) eqn:E3; [|reflexivity].
        apply name_eqb_eq in E3. subst n. rewrite (proj2 (name_eqb_eq x x) eq_refl) in E. discriminate.
  Qed.

  Lemma nassoc_nremove x n d : NoDup (map fst d) ->
    nassoc x (nremove n d) = if name_eqb n x then None else nassoc x d.
  Proof.
    induction d as [|[m w] r IH]; intros Hnd; cbn [nremove nassoc].
    - destruct (name_eqb n x); reflexivity.
    - cbn [map fst] in Hnd. inversion Hnd as [|? ? Hm Hr]; subst. destruct (name_eqb m n) eqn:E.
      + apply name_eqb_eq in E. subst m. destruct (name_eqb n x) eqn:E2; [|reflexivity].
        apply name_eqb_eq in E2. subst x. apply nassoc_notin. exact Hm.
      + cbn [nassoc]. rewrite (IH Hr). destruct (name_eqb m x) eqn:E2; [|reflexivity].
        apply name_eqb_eq in E2. subst m. destruct (name_eqb n x) eqn:E3; [|reflexivity].
        apply name_eqb_eq in E3. subst n. rewrite (proj2 (name_eqb_eq x x) eq_refl) in E. discriminate.
  Qed.

  Lemma nremove_names n d : forall x, In x (map fst (nremove n d)) -> In x (map fst d).
  Proof.
    induction d as [|[m w] r IH]; intros x; cbn [nremove map fst]; [auto|].
    destruct (name_eqb m n); [intros H; right; exact H|]. cbn [map fst In]. intros [H|H]; [left; exact H | right; apply IH; exact H].
  Qed.

  Lemma nremove_nodup n d : NoDup (map fst d) -> NoDup (map fst (nremove n d)).
  Proof.
    induction d as [|[m w] r IH]; intros Hnd; cbn [nremove]; [constructor|].
    cbn [map fst] in Hnd. inversion Hnd as [|? ? Hm Hr]; subst. destruct (name_eqb m n); [exact Hr|].
    cbn [map fst]. constructor; [|apply IH; exact Hr]. intros H. apply Hm. apply (nremove_names n r m H).
  Qed.

  Lemma nset_names n v d : forall x, In x (map fst (nset n v d)) <-> x = n \/ In x (map fst d).
  Proof.
    induction d as [|[m w] r IH]; intros x; cbn [nset map fst In].
    - intuition.
    - destruct (name_eqb m n) eqn:E; cbn [map fst In].
      + apply name_eqb_eq in E. subst m. intuition.
      + rewrite IH. intuition.
  Qed.

  Lemma nset_nodup n v d : NoDup (map fst d) -> NoDup (map fst (nset n v d)).
  Proof.
    induction d as [|[m w] r IH]; intros Hnd; cbn [nset map fst].
    - constructor; [intros [] | constructor].
    - cbn [map fst] in Hnd. inversion Hnd as [|? ? Hm Hr]; subst. destruct (name_eqb m n) eqn:E; cbn [map fst].
      + constructor; assumption.
      + constructor; [|apply IH; exact Hr]. intros H. apply nset_names in H. destruct H as [->|H]; [|contradiction].
        rewrite (proj2 (name_eqb_eq n n) eq_refl) in E. discriminate.
  Qed.
End Dict.

Section Keywords.
  Variable R : Type.
  Variables (rO rI : R) (radd rmul rsub : R -> R -> R) (ropp : R -> R).
  Hypothesis Rth : ring_theory rO rI radd rmul rsub ropp (@eq R).
  Add Ring Rring15c : Rth.
  Local Notation O := (mkOps R radd rsub rmul ropp rO rI).
  Local Notation sg := (sg R ropp).
  Variable A : alg.
  Hypothesis Hwf : wf_alg A = true.
  Local Notation L := (alg_len A).

  Definition keyof (n : name) : option Z := name_bin (alg_vecs A) n.

  (* every keyword spells a blade of the algebra (no repeated generator), no blade is given twice *)
  Definition valid_items (its : list (name * R)) : Prop :=
    (forall n v, In (n, v) its -> exists K, spells A n K)
    /\ NoDup (map (fun nv => keyof (fst nv)) its).

  (* what the loop over the keywords turns one item into *)
  Definition kw_conv (nv : name * R) : name * R :=
    match blade2canon A (fst nv) with
    | (Some c, sw) => (c, if Z.odd sw then ropp (snd nv) else snd nv)
    | (None, _) => nv
    end.

  Lemma kw_conv_spells n v K : spells A n K ->
    exists c, bin2canon A K = Some c /\ canon2bin A c = Some K /\ spells A c K
              /\ kw_conv (n, v) = (c, sg (sp_odd n c) v).
  Proof.
    intros Hs. destruct (blade2canon_spells A Hwf n K Hs) as (c & sw & Hc & Hcb & Hp & Hb & Hpar).
    exists c. split; [exact Hc|]. split; [exact Hcb|]. split; [apply (canon_spells A Hwf K c Hc)|].
    unfold kw_conv. cbn [fst snd]. rewrite Hb, Hpar. reflexivity.
  Qed.

  Lemma keyof_spells n K : spells A n K -> keyof n = Some K.
  Proof. intros [_ H]. exact H. Qed.

  Lemma keyof_conv n v : (exists K, spells A n K) -> keyof (fst (kw_conv (n, v))) = keyof n.
  Proof.
    intros (K & Hs). destruct (kw_conv_spells n v K Hs) as (c & _ & _ & Hcs & ->). cbn [fst].
    rewrite (keyof_spells n K Hs), (keyof_spells c K Hcs). reflexivity.
  Qed.

  Lemma keys_conv l : (forall n v, In (n, v) l -> exists K, spells A n K) ->
    map (fun nv => keyof (fst nv)) (map kw_conv l) = map (fun nv => keyof (fst nv)) l.
  Proof.
    intros H. rewrite map_map. apply map_ext_in. intros [n v] Hin. apply keyof_conv. apply (H n v Hin).
  Qed.

  Lemma names_nodup (l : list (name * R)) : NoDup (map (fun nv => keyof (fst nv)) l) -> NoDup (map fst l).
  Proof. intros H. apply (NoDup_map_inv keyof). rewrite map_map. exact H. Qed.

  Lemma not_in_names y (l : list (name * R)) :
    (forall e, In e l -> keyof (fst e) <> keyof y) -> ~ In y (map fst l).
  Proof. intros H Hin. apply in_map_iff in Hin. destruct Hin as (e & <- & He). apply (H e He). reflexivity. Qed.

  Lemma fold_err_stays (ks : list name) e :
    fold_left (fun acc k => d <- acc ;; kw_step O A d k) ks (Err e) = Err e.
  Proof. induction ks as [|k r IH]; [reflexivity | exact IH]. Qed.

  Lemma kw_fold todo : forall done d,
    valid_items (done ++ todo) -> NoDup (map fst d) ->
    (forall x, nassoc x d = nassoc x (map kw_conv done ++ todo)) ->
    exists d', fold_left (fun acc k => d <- acc ;; kw_step O A d k) (map fst todo) (Ok d) = Ok d'
               /\ NoDup (map fst d')
               /\ forall x, nassoc x d' = nassoc x (map kw_conv (done ++ todo)).
  Proof.
    induction todo as [|[n v] t IH]; intros done d Hval Hnd Hd.
    - exists d. split; [reflexivity|]. split; [exact Hnd|]. intros x. rewrite Hd, !app_nil_r. reflexivity.
    - destruct Hval as [Hsp Hkeys].
      assert (Hval' : valid_items ((done ++ [(n, v)]) ++ t)) by (rewrite <- app_assoc; split; assumption).
      destruct (Hsp n v) as (K & Hs); [apply in_or_app; right; left; reflexivity|].
      (* distinctness of the blade of n from all the others *)
      assert (Hother : forall e, In e (done ++ t) -> keyof (fst e) <> keyof n).
      { intros e He Heq. rewrite map_app in Hkeys. cbn [map fst] in Hkeys. apply NoDup_remove_2 in Hkeys.
        apply Hkeys. rewrite <- map_app. rewrite <- Heq.
        apply (in_map (fun nv => keyof (fst nv)) _ e He). }
      assert (Hdone : forall e, In e (map kw_conv done) -> keyof (fst e) <> keyof n).
      { intros e He. apply in_map_iff in He. destruct He as ([n0 v0] & <- & Hin0).
        rewrite keyof_conv by (apply (Hsp n0 v0); apply in_or_app; left; exact Hin0).
        apply (Hother (n0, v0)). apply in_or_app. left. exact Hin0. }
      assert (Ht : forall e, In e t -> keyof (fst e) <> keyof n).
      { intros e He. apply Hother. apply in_or_app. right. exact He. }
      assert (Hn_d : nassoc n d = Some v).
      { rewrite Hd, nassoc_app, (nassoc_notin n (map kw_conv done) (not_in_names n _ Hdone)).
        cbn [nassoc]. rewrite (proj2 (name_eqb_eq n n) eq_refl). reflexivity. }
      cbn [map fst fold_left bind]. unfold kw_step at 2.
      destruct (canon2bin A n) as [b|] eqn:Ecn.
      + (* a table name: untouched *)
        assert (Hconv : kw_conv (n, v) = (n, v)).
        { unfold kw_conv, blade2canon. cbn [fst snd]. rewrite Ecn. reflexivity. }
        destruct (IH (done ++ [(n, v)]) d Hval' Hnd) as (d' & Hf & Hnd' & Hd').
        { intros x. rewrite Hd, map_app. cbn [map]. rewrite Hconv, <- app_assoc. reflexivity. }
        exists d'. split; [exact Hf|]. split; [exact Hnd'|]. intros x. rewrite Hd', <- app_assoc. reflexivity.
      + destruct (kw_conv_spells n v K Hs) as (c & Hc & Hcb & Hcs & Hconv).
        destruct (blade2canon_spells A Hwf n K Hs) as (c' & sw & Hc' & _ & _ & Hb & Hpar).
        assert (c' = c) by congruence. subst c'.
        rewrite Hb, Hn_d. cbn [of_opt bind].
        assert (Hval_eq : (if Z.odd sw then o_neg O v else v) = sg (sp_odd n c) v).
        { rewrite Hpar. reflexivity. }
        rewrite Hval_eq.
        assert (Hck : keyof c = keyof n) by (rewrite (keyof_spells n K Hs), (keyof_spells c K Hcs); reflexivity).
        assert (Hcn : name_eqb c n = false).
        { destruct (name_eqb c n) eqn:E; [|reflexivity]. apply name_eqb_eq in E. subst c. congruence. }
        destruct (IH (done ++ [(n, v)]) (nset c (sg (sp_odd n c) v) (nremove n d)) Hval') as (d' & Hf & Hnd' & Hd').
        { apply nset_nodup, nremove_nodup. exact Hnd. }
        { intros x. rewrite nassoc_nset, (nassoc_nremove x n d Hnd), Hd, map_app. cbn [map].
          rewrite Hconv, <- app_assoc. cbn [app]. rewrite !nassoc_app. cbn [nassoc].
          destruct (name_eqb c x) eqn:Ecx.
          - apply name_eqb_eq in Ecx. subst x.
            rewrite (nassoc_notin c (map kw_conv done)); [reflexivity|].
            apply not_in_names. intros e He. rewrite Hck. apply (Hdone e He).
          - destruct (name_eqb n x) eqn:Enx; [|reflexivity].
            apply name_eqb_eq in Enx. subst x.
            rewrite (nassoc_notin n (map kw_conv done) (not_in_names n _ Hdone)).
            rewrite (nassoc_notin n t (not_in_names n _ Ht)). reflexivity. }
        exists d'. split; [exact Hf|]. split; [exact Hnd'|]. intros x. rewrite Hd', <- app_assoc. reflexivity.
  Qed.

  (* the multivector the keyword form must build: for every table entry (c, K) in canonical order whose
     name is the target of a keyword, the key K with the parity-adjusted value *)
  Definition kw_expected (its : list (name * R)) : mv R :=
    flat_map (fun cb => match nassoc (fst cb) (map kw_conv its) with Some v => [(snd cb, v)] | None => [] end)
             (a_c2b A).

  Lemma valid_conv its : valid_items its -> NoDup (map fst (map kw_conv its)).
  Proof. intros [Hsp Hk]. apply names_nodup. rewrite (keys_conv its Hsp). exact Hk. Qed.

  Lemma kw_normalise_spec its : valid_items its ->
    kw_normalise O A its
    = match kw_collect A (map kw_conv its) with
      | [] => Err EValue
      | kv => Ok (map (fun x => KName (fst x)) kv, map snd kv)
      end.
  Proof.
    intros Hv. unfold kw_normalise.
    destruct (kw_fold its [] its) as (d' & Hf & _ & Hd').
    - exact Hv.
    - apply names_nodup. apply Hv.
    - reflexivity.
    - rewrite Hf. cbn [bind].
      assert (E : kw_collect A d' = kw_collect A (map kw_conv its)).
      { unfold kw_collect. apply flat_map_ext. intros cb. rewrite Hd'. reflexivity. }
      rewrite E. reflexivity.
  Qed.

  Lemma sanitize_names ns bs : Forall2 (fun n b => canon2bin A n = Some b) ns bs ->
    sanitize A (map KName ns) = Ok bs.
  Proof.
    intros H. destruct H as [|n b ns bs Hn Hr]; [reflexivity|].
    unfold sanitize. cbn [map forallb is_int andb]. apply mapM_res_of_Forall2.
    constructor; [cbn [conv_key]; rewrite Hn; reflexivity|].
    induction Hr as [|n' b' ns bs Hn' _ IH]; [constructor|].
    cbn [map]. constructor; [cbn [conv_key]; rewrite Hn'; reflexivity | exact IH].
  Qed.

  (* the (name, value) pairs collected from the dictionary, turned into int keys, are [kw_expected] *)
  Lemma collect_sanitize (d : list (name * R)) (l : list (name * Z)) : incl l (a_c2b A) ->
    let kv := flat_map (fun cb => match nassoc (fst cb) d with Some v => [(fst cb, v)] | None => [] end) l in
    let E := flat_map (fun cb => match nassoc (fst cb) d with Some v => [(snd cb, v)] | None => [] end) l in
    Forall2 (fun n b => canon2bin A n = Some b) (map fst kv) (keys E)
    /\ map snd kv = map snd E /\ length (keys E) = length (map snd kv).
  Proof.
    induction l as [|[c b] r IH]; intros Hl; cbn zeta.
    - cbn [flat_map map keys]. split; [constructor | split; reflexivity].
    - assert (Hr : incl r (a_c2b A)) by (intros x Hx; apply Hl; right; exact Hx).
      destruct (IH Hr) as (H1 & H2 & H3). cbn [flat_map fst snd].
      destruct (nassoc c d) as [v|]; cbn [app].
      + unfold keys in *. cbn [map fst snd]. split; [|split].
        * constructor; [|exact H1]. apply (entry_canon2bin A Hwf c b). apply Hl. left. reflexivity.
        * f_equal. exact H2.
        * cbn [length]. f_equal. exact H3.
      + split; [exact H1 | split; [exact H2 | exact H3]].
  Qed.

  Lemma combine_keys_vals (E : mv R) : combine (keys E) (map snd E) = E.
  Proof. unfold keys. induction E as [|[k v] r IH]; [reflexivity|]. cbn [map combine fst snd]. rewrite IH. reflexivity. Qed.

  Lemma kw_collect_names its :
    let kv := kw_collect A (map kw_conv its) in
    sanitize A (map (fun x => KName (fst x)) kv) = Ok (keys (kw_expected its))
    /\ combine (keys (kw_expected its)) (map snd kv) = kw_expected its
    /\ (kv = [] <-> kw_expected its = [])
    /\ length (keys (kw_expected its)) = length (map snd kv).
  Proof.
    cbn zeta. destruct (collect_sanitize (map kw_conv its) (a_c2b A) (incl_refl _)) as (H1 & H2 & H3).
    fold (kw_collect A (map kw_conv its)) in H1, H2, H3. fold (kw_expected its) in H1, H2, H3.
    split; [|split; [|split]]; [| | |exact H3].
    - rewrite <- (map_map fst KName). apply sanitize_names. exact H1.
    - rewrite H2. apply combine_keys_vals.
    - unfold keys in H3. rewrite !map_length in H3.
      destruct (kw_collect A (map kw_conv its)), (kw_expected its); cbn [length] in H3; split; intros; try reflexivity; try discriminate.
  Qed.

  (* exactly the supplied blades are stored, each with its parity-adjusted value *)
  Theorem kw_expected_in its K val : valid_items its ->
    (In (K, val) (kw_expected its) <->
     exists n v c, In (n, v) its /\ spells A n K /\ bin2canon A K = Some c /\ val = sg (sp_odd n c) v).
  Proof.
    intros Hv. pose proof (valid_conv its Hv) as Hnd. destruct Hv as [Hsp Hk]. unfold kw_expected. rewrite in_flat_map. split.
    - intros ([c b] & Hcb & Hin). cbn [fst snd] in Hin.
      destruct (nassoc c (map kw_conv its)) as [v'|] eqn:Ea; [|destruct Hin].
      destruct Hin as [E|[]]. injection E as -> ->.
      apply nassoc_some_in in Ea. apply in_map_iff in Ea. destruct Ea as ([n v] & Econv & Hin).
      destruct (Hsp n v Hin) as (K0 & Hs). destruct (kw_conv_spells n v K0 Hs) as (c0 & Hc0 & Hcb0 & _ & Hconv).
      rewrite Hconv in Econv. injection Econv as E1 E2. subst c0. subst val.
      pose proof (entry_canon2bin A Hwf c K Hcb) as HcK. assert (K0 = K) by congruence. subst K0.
      exists n, v, c. auto.
    - intros (n & v & c & Hin & Hs & Hc & ->). exists (c, K). split; [apply (bin2canon_entry A K c Hc)|].
      cbn [fst snd]. destruct (kw_conv_spells n v K Hs) as (c0 & Hc0 & _ & _ & Hconv).
      assert (c0 = c) by congruence. subst c0.
      rewrite (nassoc_in c (sg (sp_odd n c) v) _ Hnd); [left; reflexivity|].
      rewrite <- Hconv. apply in_map. exact Hin.
  Qed.

  Lemma kw_expected_nodup its : NoDup (keys (kw_expected its)).
  Proof.
    unfold kw_expected. pose proof (wf_bins_nodup A Hwf) as Hnd. unfold canon_keys in Hnd.
    induction (a_c2b A) as [|[c b] r IH]; cbn [flat_map]; [constructor|].
    cbn [map snd] in Hnd. inversion Hnd as [|? ? Hb Hr]; subst. specialize (IH Hr). cbn [fst snd].
    destruct (nassoc c (map kw_conv its)); cbn [app]; [|exact IH].
    unfold keys in *. cbn [map fst]. constructor; [|exact IH].
    intros Hin. apply Hb. apply in_map_iff in Hin. destruct Hin as ([k v] & <- & Hin). cbn [fst].
    apply in_flat_map in Hin. destruct Hin as ([c' b'] & Hcb & Hin). cbn [fst snd] in Hin.
    destruct (nassoc c' (map kw_conv its)); [|destruct Hin]. destruct Hin as [E|[]]. injection E as -> _.
    change k with (snd (c', k)). apply in_map. exact Hcb.
  Qed.

  Lemma kw_expected_nonempty its : valid_items its -> its <> [] -> kw_expected its <> [].
  Proof.
    intros Hv Hne. destruct its as [|[n v] r]; [contradiction|]. destruct (proj1 Hv n v (or_introl eq_refl)) as (K & Hs).
    destruct (kw_conv_spells n v K Hs) as (c & Hc & _ & _ & _).
    assert (Hin : In (K, sg (sp_odd n c) v) (kw_expected ((n, v) :: r))).
    { apply (kw_expected_in _ K _ Hv). exists n, v, c. split; [left; reflexivity | auto]. }
    intros E. rewrite E in Hin. destruct Hin.
  Qed.

  (* a keyword with a letter that is no generator: KeyError *)
  Lemma kw_fold_unknown n (ks : list name) : In n ks -> (exists g, In g n /\ ~ In g (alg_vecs A)) ->
    forall acc, exists e, fold_left (fun acc k => d <- acc ;; kw_step O A d k) ks acc = Err e.
  Proof.
    intros Hin Hbad. induction ks as [|k r IH]; intros acc; [destruct Hin|]. cbn [fold_left].
    destruct Hin as [->|Hin]; [|apply IH; exact Hin].
    destruct acc as [d|e]; cbn [bind].
    - unfold kw_step. assert (Hc : canon2bin A n = None).
      { destruct (canon2bin A n) as [b|] eqn:E; [|reflexivity]. exfalso.
        destruct Hbad as (g & Hg & Hgv). apply Hgv.
        destruct (canon2bin_spells A Hwf n b E) as [[_ Hb] _].
        apply (name_bin_in _ (wf_vecs_nodup A Hwf) n b Hb g Hg). }
      rewrite Hc, (blade2canon_nonblade A Hwf n Hbad). exists EKey. apply fold_err_stays.
    - exists e. apply fold_err_stays.
  Qed.
End Keywords.

(* ====================================================================================== *)
(** * 7. The construction forms: IFF characterisations *)

Section Forms.
  Variable R : Type.
  Variables (rO rI : R) (radd rmul rsub : R -> R -> R) (ropp : R -> R).
  Hypothesis Rth : ring_theory rO rI radd rmul rsub ropp (@eq R).
  Add Ring Rring15d : Rth.
  Local Notation O := (mkOps R radd rsub rmul ropp rO rI).
  Local Notation sg := (sg R ropp).
  Variable A : alg.
  Hypothesis Hwf : wf_alg A = true.
  Variable sym : Z -> R.
  Local Notation L := (alg_len A).
  Local Notation allg := (map Z.of_nat (all_grades A)).

  Lemma bind_assoc {X Y W} (x : res X) (f : X -> res Y) (g : Y -> res W) :
    bind (bind x f) g = bind x (fun a => bind (f a) g).
  Proof. destruct x; reflexivity. Qed.

  Lemma construct_with_keys v ks nm g0 its :
    construct O A sym (mkInput v (Some ks) nm g0 its) = (zs <- sanitize A ks ;; core A sym (Some zs) v nm g0).
  Proof.
    unfold construct. cbn [i_items i_keys i_values i_name i_grades].
    destruct its; cbn [bind]; rewrite bind_assoc; reflexivity.
  Qed.

  Lemma construct_no_keys v nm g0 its : (v <> VNone \/ its = []) ->
    construct O A sym (mkInput v None nm g0 its) = core A sym None v nm g0.
  Proof.
    intros H. unfold construct. cbn [i_items i_keys i_values i_name i_grades].
    destruct its as [|i r]; [reflexivity|]. destruct v; [destruct H as [H|H]; [contradiction | discriminate] | reflexivity | reflexivity].
  Qed.

  Lemma construct_keywords nm g0 its : its <> [] ->
    construct O A sym (mkInput VNone None nm g0 its)
    = (kv <- kw_normalise O A its ;; zs <- sanitize A (fst kv) ;; core A sym (Some zs) (VList (snd kv)) nm g0).
  Proof.
    intros H. unfold construct. cbn [i_items i_keys i_values i_name i_grades].
    destruct its as [|i r]; [contradiction|]. rewrite !bind_assoc.
    destruct (kw_normalise O A (i :: r)) as [[ks vs]|e]; cbn [bind fst snd]; [|reflexivity].
    rewrite bind_assoc. reflexivity.
  Qed.

  Lemma sanitize_nonempty ks zs : ks <> [] -> sanitize A ks = Ok zs -> zs <> [].
  Proof.
    intros Hk Hs Hz. apply (sanitize_length A Hwf) in Hs. subst zs. destruct ks; [contradiction | discriminate].
  Qed.

  (* ---- key / value sequences ---- *)
  Theorem construct_kv_iff ks vs nm g0 its m : ks <> [] -> (nm = false \/ vs <> []) ->
    (construct O A sym (mkInput (VList vs) (Some ks) nm g0 its) = Ok m <->
     exists zs full, sanitize A ks = Ok zs
       /\ (forall g, g0 = Some g -> grade_range_ok A g = true)
       /\ ifg A (declared g0 (grades_of_keys zs)) = Ok full
       /\ length zs = length vs /\ incl zs full /\ (a_graded A = true -> zs = full)
       /\ m = combine zs vs).
  Proof.
    intros Hk Hnv. rewrite construct_with_keys, bind_ok. split.
    - intros (zs & Hs & Hc). apply (core_keyed R A sym zs vs nm g0 m (sanitize_nonempty ks zs Hk Hs) Hnv) in Hc.
      destruct Hc as (full & H). exists zs, full. split; [exact Hs | exact H].
    - intros (zs & full & Hs & H). exists zs. split; [exact Hs|].
      apply (core_keyed R A sym zs vs nm g0 m (sanitize_nonempty ks zs Hk Hs) Hnv). exists full. exact H.
  Qed.

  (* ---- name= with keys ---- *)
  Theorem construct_name_keys_iff ks v g0 its m : ks <> [] -> novalues R v ->
    (construct O A sym (mkInput v (Some ks) true g0 its) = Ok m <->
     exists zs full, sanitize A ks = Ok zs
       /\ (forall g, g0 = Some g -> grade_range_ok A g = true)
       /\ ifg A (declared g0 (grades_of_keys zs)) = Ok full
       /\ incl zs full /\ (a_graded A = true -> zs = full)
       /\ m = map (fun k => (k, sym k)) zs).
  Proof.
    intros Hk Hv. rewrite construct_with_keys, bind_ok. split.
    - intros (zs & Hs & Hc). apply (core_named_keyed R A Hwf sym zs v g0 m (sanitize_nonempty ks zs Hk Hs) Hv) in Hc.
      destruct Hc as (full & H). exists zs, full. split; [exact Hs | exact H].
    - intros (zs & full & Hs & H). exists zs. split; [exact Hs|].
      apply (core_named_keyed R A Hwf sym zs v g0 m (sanitize_nonempty ks zs Hk Hs) Hv). exists full. exact H.
  Qed.

  (* ---- a mapping ---- *)
  Theorem construct_map_iff mp nm g0 its m :
    (construct O A sym (mkInput (VMap mp) None nm g0 its) = Ok m <->
     exists zs full, sanitize A (map fst mp) = Ok zs
       /\ (forall g, g0 = Some g -> grade_range_ok A g = true)
       /\ ifg A (declared g0 allg) = Ok full /\ incl zs full
       /\ (a_graded A = true -> mp <> [] -> ifg A (grades_of_keys zs) = Ok zs)
       /\ m = combine zs (map snd mp)).
  Proof.
    rewrite construct_no_keys by (left; discriminate). rewrite (core_unkeyed R A sym), (core_tail_map R A Hwf sym).
    split.
    - intros (Hr & zs & full & H1 & H2 & H3 & H4 & H5). exists zs, full. repeat (split; [assumption|]). assumption.
    - intros (zs & full & H1 & Hr & H2 & H3 & H4 & H5). split; [exact Hr|]. exists zs, full.
      repeat (split; [assumption|]). assumption.
  Qed.

  (* ---- a value list for declared (or all) grades ---- *)
  Theorem construct_grades_iff vs nm g0 its m : (nm = false \/ vs <> []) ->
    (construct O A sym (mkInput (VList vs) None nm g0 its) = Ok m <->
     exists full, (forall g, g0 = Some g -> grade_range_ok A g = true)
       /\ ifg A (declared g0 allg) = Ok full
       /\ ((length vs = length full /\ m = combine full vs)
           \/ (length vs <> length full /\ vs = [] /\ m = []))).
  Proof.
    intros Hnv. rewrite construct_no_keys by (left; discriminate).
    rewrite (core_unkeyed R A sym), (core_tail_unkeyed_values R A sym vs nm _ m Hnv). split.
    - intros (Hr & full & H1 & H2). exists full. auto.
    - intros (full & Hr & H1 & H2). split; [exact Hr|]. exists full. auto.
  Qed.

  (* ---- name= alone ---- *)
  Theorem construct_name_iff v g0 m : novalues R v ->
    (construct O A sym (mkInput v None true g0 []) = Ok m <->
     exists full, (forall g, g0 = Some g -> grade_range_ok A g = true)
       /\ ifg A (declared g0 allg) = Ok full
       /\ m = map (fun k => (k, sym k)) full).
  Proof.
    intros Hv. rewrite construct_no_keys by (right; reflexivity).
    rewrite (core_unkeyed R A sym), (core_tail_unkeyed_name R A Hwf sym v _ m Hv). split.
    - intros (Hr & full & H1 & H2). exists full. auto.
    - intros (full & Hr & H1 & H2). split; [exact Hr|]. exists full. auto.
  Qed.

  (* ---- keyword blades ---- *)
  Local Notation kwE := (kw_expected R ropp A).
  Theorem construct_kw_iff its nm g0 m : its <> [] -> valid_items R A its ->
    (construct O A sym (mkInput VNone None nm g0 its) = Ok m <->
     exists full, (forall g, g0 = Some g -> grade_range_ok A g = true)
       /\ ifg A (declared g0 (grades_of_keys (keys (kwE its)))) = Ok full
       /\ incl (keys (kwE its)) full /\ (a_graded A = true -> keys (kwE its) = full)
       /\ m = kwE its).
  Proof.
    intros Hne Hv. rewrite (construct_keywords nm g0 its Hne), (kw_normalise_spec R rO rI radd rmul rsub ropp A Hwf its Hv).
    destruct (kw_collect_names R ropp A Hwf its) as (Hs & Hcomb & Hnil & Hlen). cbn zeta in Hs, Hcomb, Hnil, Hlen.
    pose proof (kw_expected_nonempty R ropp A Hwf its Hv Hne) as HE.
    destruct (kw_collect A (map (kw_conv R ropp A) its)) as [|x kv] eqn:Ekv.
    { exfalso. apply HE. apply Hnil. reflexivity. }
    cbn [bind fst snd]. rewrite Hs. cbn [bind].
    assert (Hkne : keys (kwE its) <> []).
    { intros E. apply HE. destruct (kwE its); [reflexivity | discriminate]. }
    rewrite (core_keyed R A sym (keys (kwE its)) (map snd (x :: kv)) nm g0 m Hkne) by (right; discriminate).
    rewrite Hcomb. split.
    - intros (full & Hr & H1 & _ & H3 & H4 & H5). exists full. repeat (split; [assumption|]). assumption.
    - intros (full & Hr & H1 & H3 & H4 & H5). exists full. split; [exact Hr|]. split; [exact H1|].
      split; [exact Hlen|]. repeat (split; [assumption|]). assumption.
  Qed.
End Forms.

(* ====================================================================================== *)
(** * 8. Round trips and the error clauses of the property *)

Section Roundtrip.
  Variable R : Type.
  Variables (rO rI : R) (radd rmul rsub : R -> R -> R) (ropp : R -> R).
  Hypothesis Rth : ring_theory rO rI radd rmul rsub ropp (@eq R).
  Add Ring Rring15e : Rth.
  Local Notation O := (mkOps R radd rsub rmul ropp rO rI).
  Local Notation sg := (sg R ropp).
  Variable A : alg.
  Hypothesis Hwf : wf_alg A = true.
  Variable sym : Z -> R.
  Local Notation L := (alg_len A).
  Local Notation allg := (map Z.of_nat (all_grades A)).
  Local Notation kwE := (kw_expected R ropp A).

  (* ---------- reading back a zip of keys and values ---------- *)
  Lemma keys_combine (zs : list Z) (vs : list R) : length zs = length vs ->
    keys (combine zs vs) = zs /\ map snd (combine zs vs) = vs.
  Proof.
    revert vs. induction zs as [|z r IH]; intros [|v vr] H; cbn [length] in H; try discriminate.
    - split; reflexivity.
    - injection H as H. destruct (IH vr H) as [H1 H2]. unfold keys in *. cbn [combine map fst snd].
      rewrite H1, H2. split; reflexivity.
  Qed.

  Lemma keys_combine_incl (zs : list Z) (vs : list R) : incl (keys (combine zs vs)) zs.
  Proof.
    revert vs. induction zs as [|z r IH]; intros vs k Hk; [destruct Hk|].
    destruct vs as [|v vr]; [destruct Hk|]. unfold keys in Hk. cbn [combine map fst] in Hk.
    destruct Hk as [<-|Hk]; [left; reflexivity | right; apply (IH vr); exact Hk].
  Qed.

  Lemma nth_combine_in (zs : list Z) (vs : list R) i k v :
    nth_error zs i = Some k -> nth_error vs i = Some v -> In (k, v) (combine zs vs).
  Proof.
    revert zs vs. induction i as [|i IH]; intros [|z r] [|w vr] Hz Hv; cbn [nth_error] in *; try discriminate.
    - injection Hz as <-. injection Hv as <-. left. reflexivity.
    - right. apply IH; assumption.
  Qed.

  (* the read-back of  m = zip(zs, vs)  through the first-match accessors *)
  Definition reads_back (m : mv R) (zs : list Z) (vs : list R) : Prop :=
    keys m = zs /\ map snd m = vs /\ mv_items m = combine zs vs
    /\ (NoDup zs ->
        (forall i K v, nth_error zs i = Some K -> nth_error vs i = Some v ->
           coeff O K m = v /\ contains A m (KInt K) = Ok true
           /\ forall c, bin2canon A K = Some c -> getattr O A m (SName c) = Ok v)
        /\ (forall K, ~ In K zs -> coeff O K m = rO /\ contains A m (KInt K) = Ok false)).

  Lemma combine_reads_back zs vs : length zs = length vs -> reads_back (combine zs vs) zs vs.
  Proof.
    intros Hl. destruct (keys_combine zs vs Hl) as [Hk Hv]. unfold reads_back.
    split; [exact Hk|]. split; [exact Hv|]. split; [reflexivity|]. intros Hnd. split.
    - intros i K v Hz Hvv. pose proof (nth_combine_in zs vs i K v Hz Hvv) as Hin.
      assert (Hc : coeff O K (combine zs vs) = v) by (apply (c_in R rO rI radd rmul rsub ropp); [rewrite Hk; exact Hnd | exact Hin]).
      split; [exact Hc|]. split.
      + cbn [contains]. rewrite Hk. f_equal. apply zin_true_iff. apply (nth_error_In zs i Hz).
      + intros c Hcn. rewrite (getattr_canonical R rO rI radd rmul rsub ropp Rth A Hwf _ K c Hcn), Hc. reflexivity.
    - intros K HK. split.
      + apply (c_notin R rO rI radd rmul rsub ropp). rewrite Hk. exact HK.
      + cbn [contains]. rewrite Hk. f_equal. apply zin_false_iff. exact HK.
  Qed.

  (* ---------- key / value sequences ---------- *)
  Theorem roundtrip_keysvalues ks vs nm g0 its m : ks <> [] -> (nm = false \/ vs <> []) ->
    construct O A sym (mkInput (VList vs) (Some ks) nm g0 its) = Ok m ->
    exists zs, Forall2 (key_denotes A) ks zs /\ length zs = length vs /\ m = combine zs vs
      /\ (forall K, In K zs -> 0 <= K < L) /\ reads_back m zs vs.
  Proof.
    intros Hk Hnv H. apply (construct_kv_iff R rO rI radd rmul rsub ropp A Hwf sym ks vs nm g0 its m Hk Hnv) in H.
    destruct H as (zs & full & Hs & _ & Hf & Hl & Hi & _ & ->). exists zs.
    split; [apply (sanitize_denotes A Hwf ks zs Hs)|]. split; [exact Hl|]. split; [reflexivity|].
    split; [intros K HK; apply (ifg_in A Hwf _ full K Hf); apply Hi; exact HK|].
    apply combine_reads_back. exact Hl.
  Qed.

  (* ---------- a mapping ---------- *)
  Theorem roundtrip_mapping mp nm g0 its m :
    construct O A sym (mkInput (VMap mp) None nm g0 its) = Ok m ->
    exists zs, Forall2 (key_denotes A) (map fst mp) zs /\ m = combine zs (map snd mp)
      /\ (forall K, In K zs -> 0 <= K < L) /\ reads_back m zs (map snd mp).
  Proof.
    intros H. apply (construct_map_iff R rO rI radd rmul rsub ropp A Hwf sym mp nm g0 its m) in H.
    destruct H as (zs & full & Hs & _ & Hf & Hi & _ & ->). exists zs.
    split; [apply (sanitize_denotes A Hwf _ zs Hs)|]. split; [reflexivity|].
    split; [intros K HK; apply (ifg_in A Hwf _ full K Hf); apply Hi; exact HK|].
    apply combine_reads_back. rewrite (sanitize_length A Hwf _ _ Hs), !map_length. reflexivity.
  Qed.

  (* ---------- a value list for the declared (or all) grades ---------- *)
  Theorem roundtrip_grades vs nm g0 its m : vs <> [] ->
    construct O A sym (mkInput (VList vs) None nm g0 its) = Ok m ->
    exists full, ifg A (declared g0 allg) = Ok full /\ length full = length vs /\ NoDup full
      /\ m = combine full vs /\ reads_back m full vs.
  Proof.
    intros Hv H. apply (construct_grades_iff R rO rI radd rmul rsub ropp A sym vs nm g0 its m (or_intror Hv)) in H.
    destruct H as (full & _ & Hf & [[Hl ->]|[_ [E _]]]); [|contradiction].
    exists full. split; [exact Hf|]. split; [symmetry; exact Hl|]. split; [apply (ifg_nodup A Hwf _ full Hf)|].
    split; [reflexivity|]. apply combine_reads_back. symmetry. exact Hl.
  Qed.

  (* ---------- by name ---------- *)
  Theorem roundtrip_name v g0 m : novalues R v ->
    construct O A sym (mkInput v None true g0 []) = Ok m ->
    exists full, ifg A (declared g0 allg) = Ok full /\ NoDup full
      /\ m = combine full (map sym full) /\ reads_back m full (map sym full).
  Proof.
    intros Hv H. apply (construct_name_iff R rO rI radd rmul rsub ropp A Hwf sym v g0 m Hv) in H.
    destruct H as (full & _ & Hf & ->). exists full. split; [exact Hf|]. split; [apply (ifg_nodup A Hwf _ full Hf)|].
    rewrite <- combine_map_self. split; [reflexivity|]. apply combine_reads_back. rewrite map_length. reflexivity.
  Qed.

  Theorem roundtrip_name_keys ks v g0 its m : ks <> [] -> novalues R v ->
    construct O A sym (mkInput v (Some ks) true g0 its) = Ok m ->
    exists zs, Forall2 (key_denotes A) ks zs
      /\ m = combine zs (map sym zs) /\ reads_back m zs (map sym zs).
  Proof.
    intros Hk Hv H. apply (construct_name_keys_iff R rO rI radd rmul rsub ropp A Hwf sym ks v g0 its m Hk Hv) in H.
    destruct H as (zs & full & Hs & _ & Hf & Hi & _ & ->). exists zs.
    split; [apply (sanitize_denotes A Hwf ks zs Hs)|].
    rewrite <- combine_map_self. split; [reflexivity|]. apply combine_reads_back. rewrite map_length. reflexivity.
  Qed.

  (* ---------- keyword blades ---------- *)
  Theorem roundtrip_keywords its nm g0 m : its <> [] -> valid_items R A its ->
    construct O A sym (mkInput VNone None nm g0 its) = Ok m ->
    NoDup (keys m)
    /\ (forall n v K c, In (n, v) its -> spells A n K -> bin2canon A K = Some c ->
          In K (keys m) /\ coeff O K m = sg (sp_odd n c) v /\ getattr O A m (SName n) = Ok v
          /\ getattr O A m (SName c) = Ok (sg (sp_odd n c) v))
    /\ (forall K, In K (keys m) -> exists n v, In (n, v) its /\ spells A n K)
    /\ (forall K, (forall n v, In (n, v) its -> ~ spells A n K) -> coeff O K m = rO).
  Proof.
    intros Hne Hv H. apply (construct_kw_iff R rO rI radd rmul rsub ropp A Hwf sym its nm g0 m Hne Hv) in H.
    destruct H as (full & _ & _ & _ & _ & ->).
    pose proof (kw_expected_nodup R ropp A Hwf its) as Hnd. split; [exact Hnd|]. split; [|split].
    - intros n v K c Hin Hs Hc.
      assert (HinE : In (K, sg (sp_odd n c) v) (kwE its)).
      { apply (kw_expected_in R ropp A Hwf its K _ Hv). exists n, v, c. auto. }
      assert (Hco : coeff O K (kwE its) = sg (sp_odd n c) v) by (apply (c_in R rO rI radd rmul rsub ropp); assumption).
      split; [change K with (fst (K, sg (sp_odd n c) v)); apply in_map; exact HinE|]. split; [exact Hco|]. split.
      + rewrite (getattr_spells R rO rI radd rmul rsub ropp Rth A Hwf _ n K c Hs Hc), Hco.
        rewrite (sg_invol R rO rI radd rmul rsub ropp Rth). reflexivity.
      + rewrite (getattr_canonical R rO rI radd rmul rsub ropp Rth A Hwf _ K c Hc), Hco. reflexivity.
    - intros K HK. unfold keys in HK. apply in_map_iff in HK. destruct HK as ([K' val] & E & Hin). cbn [fst] in E. subst K'.
      apply (kw_expected_in R ropp A Hwf its K val Hv) in Hin. destruct Hin as (n & v & c & Hin & Hs & _). exists n, v. auto.
    - intros K HK. apply (c_notin R rO rI radd rmul rsub ropp). intros Hin.
      unfold keys in Hin. apply in_map_iff in Hin. destruct Hin as ([K' val] & E & Hin). cbn [fst] in E. subst K'.
      apply (kw_expected_in R ropp A Hwf its K val Hv) in Hin. destruct Hin as (n & v & c & Hin & Hs & _).
      apply (HK n v Hin Hs).
  Qed.
End Roundtrip.

Section Errors.
  Variable R : Type.
  Variables (rO rI : R) (radd rmul rsub : R -> R -> R) (ropp : R -> R).
  Hypothesis Rth : ring_theory rO rI radd rmul rsub ropp (@eq R).
  Add Ring Rring15f : Rth.
  Local Notation O := (mkOps R radd rsub rmul ropp rO rI).
  Local Notation sg := (sg R ropp).
  Variable A : alg.
  Hypothesis Hwf : wf_alg A = true.
  Variable sym : Z -> R.
  Local Notation L := (alg_len A).
  Local Notation allg := (map Z.of_nat (all_grades A)).
  Local Notation build := (construct O A sym).

  (* ---------- what holds of EVERY successful construction, whatever the mixture of arguments ---------- *)
  Lemma core_tail_sound kk v nm G m : core_tail R A sym kk v nm G = Ok m ->
    exists full, ifg A G = Ok full /\ incl (keys m) full.
  Proof.
    unfold core_tail. intros H. apply bind_ok in H. destruct H as (chk & _ & H).
    apply bind_ok in H. destruct H as ([keysk values] & _ & H).
    apply bind_ok in H. destruct H as (keys8 & _ & H).
    apply bind_ok in H. destruct H as (full & Hf & H).
    destruct (forallb (fun k => zin k full) keys8) eqn:Ei; [|discriminate]. injection H as <-.
    exists full. split; [exact Hf|]. apply forallb_zin_incl in Ei.
    intros k Hk. apply Ei. apply (keys_combine_incl R keys8 values k Hk).
  Qed.

  Lemma construct_core inp m : build inp = Ok m ->
    exists keys1 v, core A sym keys1 v (i_name inp) (i_grades inp) = Ok m.
  Proof.
    unfold construct. intros H. apply bind_ok in H. destruct H as ([keys0 values0] & _ & H).
    apply bind_ok in H. destruct H as (keys1 & _ & H). exists keys1, values0. exact H.
  Qed.

  Theorem stored_keys_sound inp m : build inp = Ok m ->
    (forall K, In K (keys m) -> 0 <= K < L)
    /\ (forall g, i_grades inp = Some g ->
          grade_range_ok A g = true /\ grades_ok A (map Z.to_nat g) = true
          /\ forall K, In K (keys m) -> grade_in (map Z.to_nat g) K = true).
  Proof.
    intros H. apply construct_core in H. destruct H as (keys1 & v & H).
    rewrite (core_split R A sym) in H. apply bind_ok in H. destruct H as (G & HG & Ht).
    apply core_tail_sound in Ht. destruct Ht as (full & Hf & Hi). split.
    - intros K HK. apply (ifg_in A Hwf G full K Hf). apply Hi. exact HK.
    - intros g Eg. rewrite Eg in HG. unfold grades_step in HG.
      assert (HG' : (if grade_range_ok A g then Ok g else Err EValue) = Ok G).
      { destruct (i_name inp); destruct keys1; exact HG. }
      destruct (grade_range_ok A g) eqn:Er; [|discriminate]. injection HG' as <-.
      split; [reflexivity|]. split; [apply (ifg_inv A g full Hf)|].
      intros K HK. apply (ifg_in A Hwf g full K Hf). apply Hi. exact HK.
  Qed.

  (* invalid grades (out of 0..d, or not strictly increasing) raise, in every construction form *)
  Theorem err_invalid_grades inp g : i_grades inp = Some g ->
    grade_range_ok A g = false \/ grades_ok A (map Z.to_nat g) = false ->
    exists e, build inp = Err e.
  Proof.
    intros Eg Hbad. apply not_ok_err. intros m H.
    destruct (proj2 (stored_keys_sound inp m H) g Eg) as (H1 & H2 & _). destruct Hbad; congruence.
  Qed.

  (* ---------- length mismatch ---------- *)
  Theorem err_length_keysvalues ks vs nm g0 its : ks <> [] -> (nm = false \/ vs <> []) ->
    length ks <> length vs -> exists e, build (mkInput (VList vs) (Some ks) nm g0 its) = Err e.
  Proof.
    intros Hk Hnv Hl. apply not_ok_err. intros m H.
    destruct (roundtrip_keysvalues R rO rI radd rmul rsub ropp Rth A Hwf sym ks vs nm g0 its m Hk Hnv H)
      as (zs & HF & Hlen & _). apply Hl. rewrite <- Hlen.
    clear - HF. induction HF; [reflexivity | cbn [length]; congruence].
  Qed.

  Theorem err_length_grades vs nm g0 its full : vs <> [] ->
    ifg A (declared g0 allg) = Ok full -> length vs <> length full ->
    exists e, build (mkInput (VList vs) None nm g0 its) = Err e.
  Proof.
    intros Hv Hf Hl. apply not_ok_err. intros m H.
    destruct (roundtrip_grades R rO rI radd rmul rsub ropp Rth A Hwf sym vs nm g0 its m Hv H) as (full' & Hf' & Hlen & _).
    assert (full' = full) by congruence. subst full'. congruence.
  Qed.

  (* ---------- a key outside the declared grades ---------- *)
  Theorem err_outside_keysvalues ks vs nm g its zs K : ks <> [] -> (nm = false \/ vs <> []) ->
    Forall2 (key_denotes A) ks zs -> In K zs -> grade_in (map Z.to_nat g) K = false ->
    exists e, build (mkInput (VList vs) (Some ks) nm (Some g) its) = Err e.
  Proof.
    intros Hk Hnv HF HK Hg. apply not_ok_err. intros m H.
    destruct (roundtrip_keysvalues R rO rI radd rmul rsub ropp Rth A Hwf sym ks vs nm (Some g) its m Hk Hnv H)
      as (zs' & HF' & _ & _ & _ & Hrb). destruct Hrb as (Hkeys & _).
    assert (Hz : zs' = zs) by (apply (denotes_functional A ks); assumption). rewrite Hz in Hkeys.
    destruct (proj2 (stored_keys_sound _ m H) g eq_refl) as (_ & _ & Hin).
    rewrite (Hin K) in Hg; [discriminate | rewrite Hkeys; exact HK].
  Qed.

  Theorem err_outside_mapping mp nm g its zs K :
    Forall2 (key_denotes A) (map fst mp) zs -> In K zs -> grade_in (map Z.to_nat g) K = false ->
    exists e, build (mkInput (VMap mp) None nm (Some g) its) = Err e.
  Proof.
    intros HF HK Hg. apply not_ok_err. intros m H.
    destruct (roundtrip_mapping R rO rI radd rmul rsub ropp Rth A Hwf sym mp nm (Some g) its m H)
      as (zs' & HF' & _ & _ & Hrb). destruct Hrb as (Hkeys & _).
    assert (Hz : zs' = zs) by (apply (denotes_functional A (map fst mp)); assumption). rewrite Hz in Hkeys.
    destruct (proj2 (stored_keys_sound _ m H) g eq_refl) as (_ & _ & Hin).
    rewrite (Hin K) in Hg; [discriminate | rewrite Hkeys; exact HK].
  Qed.

  Theorem err_outside_keywords (its : list (name * R)) nm g (n : name) v K : valid_items R A its ->
    In (n, v) its -> spells A n K -> grade_in (map Z.to_nat g) K = false ->
    exists e, build (mkInput VNone None nm (Some g) its) = Err e.
  Proof.
    intros Hv Hin Hs Hg. apply not_ok_err. intros m H.
    assert (Hne : its <> []) by (intros E; rewrite E in Hin; destruct Hin).
    destruct (roundtrip_keywords R rO rI radd rmul rsub ropp Rth A Hwf sym its nm (Some g) m Hne Hv H) as (_ & Hall & _).
    destruct (bin2canon_total A Hwf K (spells_range A Hwf n K Hs)) as (c & Hc & _).
    destruct (Hall n v K c Hin Hs Hc) as (HK & _).
    destruct (proj2 (stored_keys_sound _ m H) g eq_refl) as (_ & _ & Hin').
    rewrite (Hin' K HK) in Hg. discriminate.
  Qed.

  (* ---------- graded mode: only complete grades, in canonical order ---------- *)
  Theorem graded_complete : a_graded A = true ->
    (forall ks vs nm g0 its m, ks <> [] -> (nm = false \/ vs <> []) ->
       build (mkInput (VList vs) (Some ks) nm g0 its) = Ok m ->
       ifg A (declared g0 (grades_of_keys (keys m))) = Ok (keys m))
    /\ (forall mp nm g0 its m, mp <> [] -> build (mkInput (VMap mp) None nm g0 its) = Ok m ->
       ifg A (grades_of_keys (keys m)) = Ok (keys m))
    /\ (forall its nm g0 m, its <> [] -> valid_items R A its -> build (mkInput VNone None nm g0 its) = Ok m ->
       ifg A (declared g0 (grades_of_keys (keys m))) = Ok (keys m))
    /\ (forall ks v g0 its m, ks <> [] -> novalues R v -> build (mkInput v (Some ks) true g0 its) = Ok m ->
       ifg A (declared g0 (grades_of_keys (keys m))) = Ok (keys m)).
  Proof.
    intros Hg. split; [|split; [|split]].
    - intros ks vs nm g0 its m Hk Hnv H.
      apply (construct_kv_iff R rO rI radd rmul rsub ropp A Hwf sym ks vs nm g0 its m Hk Hnv) in H.
      destruct H as (zs & full & _ & _ & Hf & Hl & _ & Hgr & ->).
      rewrite (proj1 (keys_combine R zs vs Hl)). rewrite Hf. f_equal. symmetry. apply Hgr. exact Hg.
    - intros mp nm g0 its m Hmp H.
      apply (construct_map_iff R rO rI radd rmul rsub ropp A Hwf sym mp nm g0 its m) in H.
      destruct H as (zs & full & Hs & _ & _ & _ & Hgr & ->).
      assert (Hl : length zs = length (map snd mp)) by (rewrite (sanitize_length A Hwf _ _ Hs), !map_length; reflexivity).
      rewrite (proj1 (keys_combine R zs _ Hl)). apply Hgr; assumption.
    - intros its nm g0 m Hne Hv H.
      apply (construct_kw_iff R rO rI radd rmul rsub ropp A Hwf sym its nm g0 m Hne Hv) in H.
      destruct H as (full & _ & Hf & _ & Hgr & ->). rewrite Hf. f_equal. symmetry. apply Hgr. exact Hg.
    - intros ks v g0 its m Hk Hv H.
      apply (construct_name_keys_iff R rO rI radd rmul rsub ropp A Hwf sym ks v g0 its m Hk Hv) in H.
      destruct H as (zs & full & _ & _ & Hf & _ & Hgr & ->).
      assert (Hkeys : keys (map (fun k => (k, sym k)) zs) = zs).
      { unfold keys. rewrite map_map. cbn [fst]. apply map_id. }
      rewrite Hkeys, Hf. f_equal. symmetry. apply Hgr. exact Hg.
  Qed.

  Theorem err_graded_incomplete ks vs nm g0 its zs : a_graded A = true -> ks <> [] -> (nm = false \/ vs <> []) ->
    Forall2 (key_denotes A) ks zs -> ifg A (declared g0 (grades_of_keys zs)) <> Ok zs ->
    exists e, build (mkInput (VList vs) (Some ks) nm g0 its) = Err e.
  Proof.
    intros Hg Hk Hnv HF Hbad. apply not_ok_err. intros m H.
    pose proof (proj1 (graded_complete Hg) ks vs nm g0 its m Hk Hnv H) as Hc.
    destruct (roundtrip_keysvalues R rO rI radd rmul rsub ropp Rth A Hwf sym ks vs nm g0 its m Hk Hnv H)
      as (zs' & HF' & _ & _ & _ & Hrb). destruct Hrb as (Hkeys & _).
    assert (Hz : zs' = zs) by (apply (denotes_functional A ks); assumption). rewrite Hz in Hkeys.
    rewrite Hkeys in Hc. contradiction.
  Qed.

  (* ---------- unknown blade names ---------- *)
  Theorem err_unknown_keyword (its : list (name * R)) nm g0 (n : name) v : In (n, v) its -> (exists g, In g n /\ ~ In g (alg_vecs A)) ->
    exists e, build (mkInput VNone None nm g0 its) = Err e.
  Proof.
    intros Hin Hbad. assert (Hne : its <> []) by (intros E; rewrite E in Hin; destruct Hin).
    rewrite (construct_keywords R rO rI radd rmul rsub ropp A sym nm g0 its Hne). unfold kw_normalise.
    destruct (kw_fold_unknown R rO rI radd rmul rsub ropp A Hwf n (map fst its)
                (in_map fst its (n, v) Hin) Hbad (Ok its)) as (e & He).
    rewrite He. exists e. reflexivity.
  Qed.

  Lemma sanitize_unknown ks n : In (KName n) ks -> canon2bin A n = None -> exists e, sanitize A ks = Err e.
  Proof.
    intros Hin Hn. apply not_ok_err. intros zs H. apply (sanitize_denotes A Hwf) in H.
    induction H as [|k z ks zs Hk _ IH]; [destruct Hin|]. destruct Hin as [->|Hin]; [|apply IH; exact Hin].
    cbn [key_denotes] in Hk. congruence.
  Qed.

  Theorem err_unknown_key v ks nm g0 its n : In (KName n) ks -> canon2bin A n = None ->
    exists e, build (mkInput v (Some ks) nm g0 its) = Err e.
  Proof.
    intros Hin Hn. rewrite (construct_with_keys R rO rI radd rmul rsub ropp A sym).
    destruct (sanitize_unknown ks n Hin Hn) as (e & ->). exists e. reflexivity.
  Qed.

  Theorem err_unknown_mapkey mp nm g0 its n : In (KName n) (map fst mp) -> canon2bin A n = None ->
    exists e, build (mkInput (VMap mp) None nm g0 its) = Err e.
  Proof.
    intros Hin Hn. apply not_ok_err. intros m H.
    apply (construct_map_iff R rO rI radd rmul rsub ropp A Hwf sym mp nm g0 its m) in H.
    destruct H as (zs & full & Hs & _). destruct (sanitize_unknown _ n Hin Hn) as (e & He). congruence.
  Qed.
End Errors.

(* ---------- the constructor raises EXACTLY on inconsistent input, form by form ---------- *)
Lemma err_iff_gen {X} (r : res X) (P : X -> Prop) :
  (forall m, r = Ok m <-> P m) -> ((exists e, r = Err e) <-> ~ exists m, P m).
Proof.
  intros H. split.
  - intros (e & He) (m & Hm). apply H in Hm. congruence.
  - intros Hn. apply not_ok_err. intros m Hm. apply Hn. exists m. apply H. exact Hm.
Qed.

Section ErrorsIff.
  Variable R : Type.
  Variables (rO rI : R) (radd rmul rsub : R -> R -> R) (ropp : R -> R).
  Local Notation O := (mkOps R radd rsub rmul ropp rO rI).
  Variable A : alg.
  Hypothesis Hwf : wf_alg A = true.
  Variable sym : Z -> R.
  Local Notation allg := (map Z.of_nat (all_grades A)).
  Local Notation build := (construct O A sym).
  Local Notation kwE := (kw_expected R ropp A).

  (* consistency of the input, per construction form (what the iff theorems of section 7 say) *)
  Definition ok_keyed (ks : list key) (g0 : option (list Z)) (nvals : option nat) : Prop :=
    exists zs full, sanitize A ks = Ok zs
      /\ (forall g, g0 = Some g -> grade_range_ok A g = true)
      /\ ifg A (declared g0 (grades_of_keys zs)) = Ok full
      /\ (forall n, nvals = Some n -> length zs = n)
      /\ incl zs full /\ (a_graded A = true -> zs = full).

  Definition ok_mapping (mp : list (key * R)) (g0 : option (list Z)) : Prop :=
    exists zs full, sanitize A (map fst mp) = Ok zs
      /\ (forall g, g0 = Some g -> grade_range_ok A g = true)
      /\ ifg A (declared g0 allg) = Ok full /\ incl zs full
      /\ (a_graded A = true -> mp <> [] -> ifg A (grades_of_keys zs) = Ok zs).

  Definition ok_grades (g0 : option (list Z)) (nvals : option nat) : Prop :=
    exists full, (forall g, g0 = Some g -> grade_range_ok A g = true)
      /\ ifg A (declared g0 allg) = Ok full
      /\ (forall n, nvals = Some n -> n = length full \/ n = 0%nat).

  Definition ok_keywords (its : list (name * R)) (g0 : option (list Z)) : Prop :=
    exists full, (forall g, g0 = Some g -> grade_range_ok A g = true)
      /\ ifg A (declared g0 (grades_of_keys (keys (kwE its)))) = Ok full
      /\ incl (keys (kwE its)) full /\ (a_graded A = true -> keys (kwE its) = full).

  Theorem errors_iff :
    (forall ks vs nm g0 its, ks <> [] -> (nm = false \/ vs <> []) ->
       ((exists e, build (mkInput (VList vs) (Some ks) nm g0 its) = Err e) <-> ~ ok_keyed ks g0 (Some (length vs))))
    /\ (forall ks v g0 its, ks <> [] -> novalues R v ->
       ((exists e, build (mkInput v (Some ks) true g0 its) = Err e) <-> ~ ok_keyed ks g0 None))
    /\ (forall mp nm g0 its,
       ((exists e, build (mkInput (VMap mp) None nm g0 its) = Err e) <-> ~ ok_mapping mp g0))
    /\ (forall vs nm g0 its, (nm = false \/ vs <> []) ->
       ((exists e, build (mkInput (VList vs) None nm g0 its) = Err e) <-> ~ ok_grades g0 (Some (length vs))))
    /\ (forall v g0, novalues R v ->
       ((exists e, build (mkInput v None true g0 []) = Err e) <-> ~ ok_grades g0 None))
    /\ (forall its nm g0, its <> [] -> valid_items R A its ->
       ((exists e, build (mkInput VNone None nm g0 its) = Err e) <-> ~ ok_keywords its g0)).
  Proof.
    split; [|split; [|split; [|split; [|split]]]].
    - intros ks vs nm g0 its Hk Hnv.
      rewrite (err_iff_gen _ _ (fun m => construct_kv_iff R rO rI radd rmul rsub ropp A Hwf sym ks vs nm g0 its m Hk Hnv)).
      apply not_iff_compat. unfold ok_keyed. split.
      + intros (m & zs & full & H1 & H2 & H3 & H4 & H5 & H6 & _). exists zs, full.
        repeat (split; [assumption|]). split; [intros n E; injection E as <-; exact H4|]. split; assumption.
      + intros (zs & full & H1 & H2 & H3 & H4 & H5 & H6). exists (combine zs vs), zs, full.
        repeat (split; [assumption|]). split; [apply H4; reflexivity|]. repeat (split; [assumption|]). reflexivity.
    - intros ks v g0 its Hk Hv.
      rewrite (err_iff_gen _ _ (fun m => construct_name_keys_iff R rO rI radd rmul rsub ropp A Hwf sym ks v g0 its m Hk Hv)).
      apply not_iff_compat. unfold ok_keyed. split.
      + intros (m & zs & full & H1 & H2 & H3 & H5 & H6 & _). exists zs, full.
        repeat (split; [assumption|]). split; [intros n E; discriminate|]. split; assumption.
      + intros (zs & full & H1 & H2 & H3 & _ & H5 & H6). exists (map (fun k => (k, sym k)) zs), zs, full.
        repeat (split; [assumption|]). reflexivity.
    - intros mp nm g0 its.
      rewrite (err_iff_gen _ _ (fun m => construct_map_iff R rO rI radd rmul rsub ropp A Hwf sym mp nm g0 its m)).
      apply not_iff_compat. unfold ok_mapping. split.
      + intros (m & zs & full & H1 & H2 & H3 & H4 & H5 & _). exists zs, full. repeat (split; [assumption|]). assumption.
      + intros (zs & full & H1 & H2 & H3 & H4 & H5). exists (combine zs (map snd mp)), zs, full.
        repeat (split; [assumption|]). reflexivity.
    - intros vs nm g0 its Hnv.
      rewrite (err_iff_gen _ _ (fun m => construct_grades_iff R rO rI radd rmul rsub ropp A sym vs nm g0 its m Hnv)).
      apply not_iff_compat. unfold ok_grades. split.
      + intros (m & full & H1 & H2 & H3). exists full. split; [exact H1|]. split; [exact H2|].
        intros n E. injection E as <-. destruct H3 as [[Hl _]|[_ [-> _]]]; [left; exact Hl | right; reflexivity].
      + intros (full & H1 & H2 & H3). destruct (H3 _ eq_refl) as [Hl|Hl].
        * exists (combine full vs), full. split; [exact H1|]. split; [exact H2|]. left. split; [exact Hl | reflexivity].
        * destruct (Nat.eq_dec (length vs) (length full)) as [E|E].
          -- exists (combine full vs), full. split; [exact H1|]. split; [exact H2|]. left. split; [exact E | reflexivity].
          -- exists [], full. split; [exact H1|]. split; [exact H2|]. right. split; [exact E|].
             split; [destruct vs; [reflexivity | discriminate] | reflexivity].
    - intros v g0 Hv.
      rewrite (err_iff_gen _ _ (fun m => construct_name_iff R rO rI radd rmul rsub ropp A Hwf sym v g0 m Hv)).
      apply not_iff_compat. unfold ok_grades. split.
      + intros (m & full & H1 & H2 & _). exists full. split; [exact H1|]. split; [exact H2|]. intros n E. discriminate.
      + intros (full & H1 & H2 & _). exists (map (fun k => (k, sym k)) full), full. auto.
    - intros its nm g0 Hne Hv.
      rewrite (err_iff_gen _ _ (fun m => construct_kw_iff R rO rI radd rmul rsub ropp A Hwf sym its nm g0 m Hne Hv)).
      apply not_iff_compat. unfold ok_keywords. split.
      + intros (m & full & H1 & H2 & H3 & H4 & _). exists full. repeat (split; [assumption|]). assumption.
      + intros (full & H1 & H2 & H3 & H4). exists (kwE its), full. repeat (split; [assumption|]). reflexivity.
  Qed.

  (* ---------- the convenience constructors are the general constructor with grades= ---------- *)
  Theorem convenience_constructors inp :
    multivector O A sym inp = build inp
    /\ evenmv O A sym inp = build (with_grades (filter Z.even allg) inp)
    /\ oddmv O A sym inp = build (with_grades (filter Z.odd allg) inp)
    /\ (forall g, purevector O A sym g inp = build (with_grades [g] inp))
    /\ scalar O A sym inp = purevector O A sym 0 inp /\ vector O A sym inp = purevector O A sym 1 inp
    /\ bivector O A sym inp = purevector O A sym 2 inp /\ trivector O A sym inp = purevector O A sym 3 inp
    /\ quadvector O A sym inp = purevector O A sym 4 inp
    /\ pseudoscalar O A sym inp = purevector O A sym (Z.of_nat (a_d A)) inp
    /\ pseudovector O A sym inp = purevector O A sym (Z.of_nat (a_d A) - 1) inp
    /\ pseudobivector O A sym inp = purevector O A sym (Z.of_nat (a_d A) - 2) inp
    /\ pseudotrivector O A sym inp = purevector O A sym (Z.of_nat (a_d A) - 3) inp
    /\ pseudoquadvector O A sym inp = purevector O A sym (Z.of_nat (a_d A) - 4) inp
    /\ (forall g, g < 0 \/ Z.of_nat (a_d A) < g -> exists e, purevector O A sym g inp = Err e).
  Proof.
    repeat (split; [reflexivity|]). split.
    - unfold pseudoscalar, d_Z. rewrite Z.sub_0_r. reflexivity.
    - repeat (split; [reflexivity|]).
      intros g Hg. unfold purevector.
      apply (err_invalid_grades R rO rI radd rmul rsub ropp A Hwf sym (with_grades [g] inp) [g] eq_refl).
      left. unfold grade_range_ok. cbn [forallb]. rewrite andb_true_r.
      destruct Hg as [Hg|Hg].
      + destruct (Z.leb_spec 0 g); [lia | reflexivity].
      + destruct (Z.leb_spec g (Z.of_nat (a_d A))); [lia | apply andb_false_r].
  Qed.
End ErrorsIff.

(* ====================================================================================== *)
(** * 9. Examples: non-vacuity, the repaired defects as regressions, the documented exclusions *)

Section Examples.
  Let A3 : alg := mk_default [1; 1; 1] 1 false.
  Let G3 : alg := mk_default [1; 1; 1] 1 true.
  Let symz : Z -> Z := fun k => 1000 + k.
  Let kw (its : list (name * Z)) : input Z := mkInput VNone None false None its.

  Example ex_wf : wf_alg A3 = true /\ wf_alg G3 = true.
  Proof. split; vm_compute; reflexivity. Qed.

  (* the hypotheses of the keyword round trip are satisfiable: e231 = 5, e1 = 1 *)
  Example ex_valid_items : valid_items Z A3 [([2; 3; 1]%nat, 5); ([1]%nat, 1)].
  Proof.
    split.
    - intros n v [E|[E|[]]]; injection E as <- <-.
      + exists 7. split; [|vm_compute; reflexivity].
        repeat constructor; cbn [In]; intuition discriminate.
      + exists 1. split; [|vm_compute; reflexivity]. repeat constructor; cbn [In]; intuition.
    - vm_compute. repeat constructor; cbn [In]; intuition discriminate.
  Qed.

  (* an even permutation is re-keyed (was silently dropped), an odd one is negated *)
  Example ex_keywords :
    construct Zops A3 symz (kw [([2; 3; 1]%nat, 5); ([1]%nat, 1)]) = Ok [(1, 1); (7, 5)]
    /\ construct Zops A3 symz (kw [([2; 1]%nat, 2)]) = Ok [(3, -2)]
    /\ getattr Zops A3 [(3, -2)] (SName [2; 1]%nat) = Ok 2
    /\ getattr Zops A3 [(3, -2)] (SName [1; 2]%nat) = Ok (-2)
    /\ getattr Zops A3 [(3, -2)] (SName [1; 3]%nat) = Ok 0.
  Proof. repeat split; vm_compute; reflexivity. Qed.

  (* the other construction forms *)
  Example ex_forms :
    construct Zops A3 symz (mkInput (VList [5; 6]) (Some [KName [1; 2]%nat; KInt 1]) false None []) = Ok [(3, 5); (1, 6)]
    /\ construct Zops A3 symz (mkInput (VMap [(KInt 3, 1); (KName [1]%nat, 2)]) None false None []) = Ok [(3, 1); (1, 2)]
    /\ vector Zops A3 symz (mkInput (VList [1; 2; 3]) None false None []) = Ok [(1, 1); (2, 2); (4, 3)]
    /\ evenmv Zops A3 symz (mkInput VNone None true None []) = Ok [(0, 1000); (3, 1003); (5, 1005); (6, 1006)]
    /\ asfullmv Zops A3 true [(3, 5); (1, 6)] = Ok [(0, 0); (1, 6); (2, 0); (4, 0); (3, 5); (5, 0); (6, 0); (7, 0)]
    /\ asfullmv Zops A3 false [(3, 5); (1, 6)] = Ok [(0, 0); (1, 6); (2, 0); (3, 5); (4, 0); (5, 0); (6, 0); (7, 0)].
  Proof. repeat split; vm_compute; reflexivity. Qed.

  (* the error classes of the inconsistent inputs the property lists *)
  Example ex_errors :
    construct Zops A3 symz (mkInput (VList [5]) (Some [KInt 1; KInt 2]) false None []) = Err EType
    /\ construct Zops A3 symz (mkInput (VList [5]) (Some [KInt 3]) false (Some [1]) []) = Err EValue
    /\ construct Zops A3 symz (mkInput (VList [5]) None false (Some [4]) []) = Err EValue
    /\ construct Zops A3 symz (mkInput (VList [1; 2; 3; 4; 5; 6]) None false (Some [2; 1]) []) = Err EKey
    /\ construct Zops G3 symz (kw [([1; 2]%nat, 2)]) = Err EValue
    /\ construct Zops G3 symz (mkInput (VList [1; 2; 3]) (Some [KInt 2; KInt 1; KInt 4]) false None []) = Err EValue
    /\ construct Zops G3 symz (mkInput (VMap [(KInt 3, 1)]) None false None []) = Err EValue
    /\ construct Zops A3 symz (kw [([4]%nat, 2); ([1]%nat, 1)]) = Err EKey
    /\ construct Zops A3 symz (kw [([4]%nat, 2)]) = Err EKey
    /\ construct Zops A3 symz (mkInput (VList [5]) (Some [KName [2; 1]%nat]) false None []) = Err EKey
    /\ quadvector Zops A3 symz (mkInput (VList [5]) None false None []) = Err EValue.
  Proof. repeat split; vm_compute; reflexivity. Qed.

  (* regressions of the two repaired _blade2canon defects: a generator spelled with the hex digit e
     (Algebra(3, start_index=13): edfe is an odd permutation of edef), and a name outside the algebra
     whose former fallback 'e8' is a real blade (Algebra(3, start_index=6): e5) *)
  Example ex_blade2canon_regressions :
    getattr Zops (mk_default [1; 1; 1] 13 false) [(7, 1)] (SName [13; 15; 14]%nat) = Ok (-1)
    /\ getattr Zops (mk_default [1; 1; 1] 6 false) [(4, 1)] (SName [5]%nat) = Ok 0.
  Proof. split; vm_compute; reflexivity. Qed.

  (* the documented exclusions are real: without the hypotheses of [roundtrip_keywords] /
     [reads_back] a supplied coefficient can be lost or attached to another blade *)
  Example ex_excluded_same_blade_twice :
    construct Zops A3 symz (kw [([1; 2]%nat, 2); ([2; 1]%nat, 3)]) = Ok [(3, -3)].
  Proof. vm_compute. reflexivity. Qed.

  Example ex_excluded_repeated_generator :
    construct Zops A3 symz (kw [([1; 1]%nat, 2)]) = Ok [(1, 2)]
    /\ construct Zops A3 symz (kw [([1; 2; 1]%nat, 2)]) = Ok [(3, 2)].
  Proof. split; vm_compute; reflexivity. Qed.

  Example ex_excluded_duplicate_keys :
    construct Zops A3 symz (mkInput (VList [5; 6]) (Some [KInt 1; KInt 1]) false None []) = Ok [(1, 5); (1, 6)]
    /\ coeff Zops 1 [(1, 5); (1, 6)] = 5.
  Proof. split; vm_compute; reflexivity. Qed.

  Example ex_excluded_values_and_keywords :
    construct Zops A3 symz (mkInput (VList [0; 1; 2; 3; 4; 5; 6; 7]) None false None [([1]%nat, 9)])
    = Ok [(0, 0); (1, 1); (2, 2); (4, 3); (3, 4); (5, 5); (6, 6); (7, 7)].
  Proof. vm_compute. reflexivity. Qed.
End Examples.
