(* Theory/TapeSymbolic.v — C11, the route alg.register(symbolic=True)(f).

   alg.register(symbolic=True)(f) is OperatorDict(name, codegen=f, algebra): OperatorDict.__getitem__ makes one
   symbolic MultiVector per argument (one RationalPolynomial variable per stored key), do_codegen runs the plain
   Python function f ONCE on them - every operator of MultiVector goes through OperatorDict.__call__ /
   _call_binary / UnaryOperatorDict.__call__, which evaluate the generated function of the operand keys on the
   symbolic value lists and then apply OperatorDict.filter (drop the coefficients that test zero) - and the
   resulting coefficient expressions are lambdified; a call evaluates them at the numeric values.

   1. [directG]: the interpreter [direct] of Model/Tape.v with the two places where it touches the table of
      generated functions made parameters: [call] (an operator call) and [reg] (a call of a registered function).
      [directG_direct]: with call = call_op opd and reg = registered .. opd .. it IS [direct] (so nothing about
      MultiVector's members is modelled a second time).
   2. [symbolic_run]: directG over the symbol structure with call = (call_op opd, then the filter) and
      reg = registered over the symbol structure (Registry.__call__ on symbolic MultiVectors runs the compiled
      tape on the symbolic value lists, no filter).
   3. the simulation: for every symbol structure S with a representation invariant Q closed under the
      operations, every map h : S -> R that is a homomorphism on Q (evaluation at a valuation), every filter that
      only drops stored pairs whose coefficient evaluates to zero, every body: whenever the numeric run returns v,
      the symbolic run returns a value of the same shape whose evaluation has the coefficients of v.
   4. the instance RationalPolynomial / evaluation, any valuation, integer literals: [symbolic_agree]. *)
From Coq Require Import String List ZArith Bool Lia Permutation Ring_theory Ring Morphisms.
From KV Require Import Model.All Model.Composite Model.Poly Model.Tape Gen.Dunder.
From KV Require Import Theory.WF Theory.Sparse Theory.Product Theory.Ops Theory.OpsWF Theory.Poly Theory.Natural Theory.Tape.
Import ListNotations.
Local Open Scope Z_scope.

(* ================= 1. [direct] with the table abstracted ================= *)
Section G.
  Context {R : Type} (O : ops R).
  Variable A : alg.
  Variable call : string -> list (mv R) -> res (mv R).        (* OperatorDict.__call__ on multivectors *)
  Variable reg : nat -> nat -> list (mv R) -> res (mv R).     (* fuel, k, args: Registry.__call__ of g_k *)
  Variable mvtab : mtable.
  Local Notation val := (@val R).

  Definition g_meth1 (m : string) (v : val) : res val :=
    match v with
    | VNum _ => Err EAttr
    | VMv x =>
        match mlookup m mvtab with
        | Some (op, _, 1%nat) => r <- call op [x] ;; Ok (VMv r)
        | Some _ => Err EType
        | None => Err EAttr
        end
    end.
  Definition g_meth2 (m : string) (v1 v2 : val) : res val :=
    match v1 with
    | VNum _ => Err EAttr
    | VMv x =>
        match mlookup m mvtab with
        | Some (op, sw, 2%nat) =>
            r <- (if sw then call op [as_mv v2; x] else call op [x; as_mv v2]) ;; Ok (VMv r)
        | Some _ => Err EType
        | None => Err EAttr
        end
    end.
  Definition g_prefix (u : prefix) (v : val) : res val :=
    match v with
    | VNum c => match u with PNeg => Ok (VNum (o_neg O c)) | PInvert => Err ENotImpl end
    | VMv _ => g_meth1 (pdunder u) v
    end.
  Definition g_infix (o : infix) (v1 v2 : val) : res val :=
    match v1, v2 with
    | VMv _, _ => g_meth2 (dunder o) v1 v2
    | VNum _, VMv _ => g_meth2 (rdunder o) v2 v1
    | VNum a, VNum b =>
        match o with
        | IAdd => Ok (VNum (o_add O a b)) | ISub => Ok (VNum (o_sub O a b)) | IMul => Ok (VNum (o_mul O a b))
        | _ => Err ENotImpl
        end
    end.
  Definition g_pow (v : val) (n : Z) : res val :=
    match v with
    | VNum _ => Err ENotImpl
    | VMv _ =>
        if n =? 0 then Ok (VMv [(0, o_one O)])
        else
          x <- (if n <? 0 then g_meth1 "inv" v else Ok v) ;;
          pow_loop (Z.to_nat (Z.abs n - 1)) (fun r => g_meth2 "gp" r x) x
    end.
  Definition g_dual (un : bool) (v : val) (k : Model.Codegen.dual_kind) : res val :=
    match v with
    | VNum _ => Err EAttr
    | VMv _ => m <- dual_member A un k ;; g_meth1 m v
    end.
  Definition g_norm (v : val) : res val := n <- g_meth1 "normsq" v ;; g_meth1 "sqrt" n.
  Definition g_normalized (v : val) : res val :=
    match v with
    | VNum _ => Err EAttr
    | VMv _ => n <- g_norm v ;; g_infix IDiv v n
    end.

  Fixpoint directG (fuel : nat) (env : list (mv R)) (e : expr R) {struct fuel} : res val :=
    match fuel with
    | 0%nat => Err EFuel
    | S fu =>
        let dr := directG fu env in
        match e with
        | EArg i => x <- of_opt EIndex (nth_error env i) ;; Ok (VMv x)
        | ENum c => Ok (VNum c)
        | EMeth1 m e1 => v <- dr e1 ;; g_meth1 m v
        | EMeth2 m e1 e2 => v1 <- dr e1 ;; v2 <- dr e2 ;; g_meth2 m v1 v2
        | EPrefix u e1 => v <- dr e1 ;; g_prefix u v
        | EInfix o e1 e2 => v1 <- dr e1 ;; v2 <- dr e2 ;; g_infix o v1 v2
        | EPow e1 n => v <- dr e1 ;; g_pow v n
        | EGrade e1 gs => v <- dr e1 ;; mv_grade O A v gs
        | ECoeff e1 nm => v <- dr e1 ;; mv_getattr O A v nm
        | EDual e1 k => v <- dr e1 ;; g_dual false v k
        | EUndual e1 k => v <- dr e1 ;; g_dual true v k
        | ENorm e1 => v <- dr e1 ;; g_norm v
        | ENormalized e1 => v <- dr e1 ;; g_normalized v
        | ECall k args =>
            vs <- mapM dr args ;;
            m <- reg fu k (map as_mv vs) ;;
            Ok (VMv m)
        end
    end.
End G.

Lemma mapM_ext {X Y} (f g : X -> res Y) l : (forall x, f x = g x) -> mapM f l = mapM g l.
Proof. intros H. induction l as [|x r IH]; cbn [mapM]; [reflexivity|]. rewrite H, IH. reflexivity. Qed.

(* [direct] is [directG] at the table *)
Theorem directG_direct {R} (O : ops R) A (opd : optable R) mvtab tapetab bodies fuel env e :
  direct O A opd mvtab tapetab bodies fuel env e
  = directG O A (call_op opd) (registered O A opd tapetab bodies) mvtab fuel env e.
Proof.
  revert env e. induction fuel as [|fu IH]; intros env e; [reflexivity|].
  destruct e; cbn [direct directG]; rewrite ?IH; try reflexivity.
Qed.

(* the literals of a body; a body with its literals mapped *)
Fixpoint lits {T} (P : T -> Prop) (e : expr T) : Prop :=
  match e with
  | EArg _ => True
  | ENum c => P c
  | EMeth1 _ e1 | EPrefix _ e1 | EPow e1 _ | EGrade e1 _ | ECoeff e1 _ | EDual e1 _ | EUndual e1 _
  | ENorm e1 | ENormalized e1 => lits P e1
  | EMeth2 _ e1 e2 | EInfix _ e1 e2 => lits P e1 /\ lits P e2
  | ECall _ args => (fix go (l : list (expr T)) : Prop := match l with [] => True | a :: r => lits P a /\ go r end) args
  end.
Fixpoint emap {T U} (g : T -> U) (e : expr T) : expr U :=
  match e with
  | EArg i => EArg i
  | ENum c => ENum (g c)
  | EMeth1 m e1 => EMeth1 m (emap g e1)
  | EMeth2 m e1 e2 => EMeth2 m (emap g e1) (emap g e2)
  | EPrefix u e1 => EPrefix u (emap g e1)
  | EInfix o e1 e2 => EInfix o (emap g e1) (emap g e2)
  | EPow e1 n => EPow (emap g e1) n
  | EGrade e1 gs => EGrade (emap g e1) gs
  | ECoeff e1 nm => ECoeff (emap g e1) nm
  | EDual e1 k => EDual (emap g e1) k
  | EUndual e1 k => EUndual (emap g e1) k
  | ENorm e1 => ENorm (emap g e1)
  | ENormalized e1 => ENormalized (emap g e1)
  | ECall k args => ECall k (map (emap g) args)
  end.
Lemma lits_call {T} (P : T -> Prop) k args : lits P (ECall k args) <-> Forall (lits P) args.
Proof.
  cbn [lits]. induction args as [|a r IH]; [split; [constructor | exact (fun _ => I)]|].
  split; [intros [H1 H2]; constructor; [exact H1 | apply IH; exact H2] | intros H; inversion H; subst; split; [assumption | apply IH; assumption]].
Qed.

(* induction over bodies (the arguments of a call are a nested list) *)
Section ExprInd.
  Context {T : Type} (P : expr T -> Prop).
  Hypothesis HArg : forall i, P (EArg i).
  Hypothesis HNum : forall c, P (ENum c).
  Hypothesis HMeth1 : forall m e, P e -> P (EMeth1 m e).
  Hypothesis HMeth2 : forall m e1 e2, P e1 -> P e2 -> P (EMeth2 m e1 e2).
  Hypothesis HPrefix : forall u e, P e -> P (EPrefix u e).
  Hypothesis HInfix : forall o e1 e2, P e1 -> P e2 -> P (EInfix o e1 e2).
  Hypothesis HPow : forall e n, P e -> P (EPow e n).
  Hypothesis HGrade : forall e gs, P e -> P (EGrade e gs).
  Hypothesis HCoeff : forall e nm, P e -> P (ECoeff e nm).
  Hypothesis HDual : forall e k, P e -> P (EDual e k).
  Hypothesis HUndual : forall e k, P e -> P (EUndual e k).
  Hypothesis HNorm : forall e, P e -> P (ENorm e).
  Hypothesis HNormalized : forall e, P e -> P (ENormalized e).
  Hypothesis HCall : forall k args, Forall P args -> P (ECall k args).
  Fixpoint expr_nested_ind (e : expr T) : P e :=
    match e with
    | EArg i => HArg i
    | ENum c => HNum c
    | EMeth1 m e1 => HMeth1 m e1 (expr_nested_ind e1)
    | EMeth2 m e1 e2 => HMeth2 m e1 e2 (expr_nested_ind e1) (expr_nested_ind e2)
    | EPrefix u e1 => HPrefix u e1 (expr_nested_ind e1)
    | EInfix o e1 e2 => HInfix o e1 e2 (expr_nested_ind e1) (expr_nested_ind e2)
    | EPow e1 n => HPow e1 n (expr_nested_ind e1)
    | EGrade e1 gs => HGrade e1 gs (expr_nested_ind e1)
    | ECoeff e1 nm => HCoeff e1 nm (expr_nested_ind e1)
    | EDual e1 k => HDual e1 k (expr_nested_ind e1)
    | EUndual e1 k => HUndual e1 k (expr_nested_ind e1)
    | ENorm e1 => HNorm e1 (expr_nested_ind e1)
    | ENormalized e1 => HNormalized e1 (expr_nested_ind e1)
    | ECall k args =>
        HCall k args ((fix go (l : list (expr T)) : Forall P l :=
                         match l with [] => Forall_nil P | a :: r => Forall_cons a (expr_nested_ind a) (go r) end) args)
    end.
End ExprInd.

Lemma emap_emap {T U V} (g : T -> U) (g' : U -> V) (e : expr T) : emap g' (emap g e) = emap (fun c => g' (g c)) e.
Proof.
  induction e using expr_nested_ind; cbn [emap]; try congruence.
  f_equal. rewrite map_map. apply map_ext_Forall. exact H.
Qed.
Lemma emap_ext {T U} (g g' : T -> U) (e : expr T) : (forall c, g c = g' c) -> emap g e = emap g' e.
Proof.
  intros Hg. induction e using expr_nested_ind; cbn [emap]; try congruence.
  f_equal. apply map_ext_Forall. exact H.
Qed.
Lemma lits_emap {T U} (g : T -> U) (P : U -> Prop) (e : expr T) : (forall c, P (g c)) -> lits P (emap g e).
Proof.
  intros Hg. induction e using expr_nested_ind; cbn [emap lits]; auto.
  apply (proj2 (lits_call P k (map (emap g) args))). apply Forall_map. exact H.
Qed.

(* a call of a polynomial operator of the table returns the model operator, for every coefficient structure *)
Lemma unit_hom_any {T} (OT : ops T) : ops_hom OT Uops (fun _ : T => tt).
Proof. constructor; reflexivity. Qed.
Lemma map_tt_any {T} (x : mv T) : map_mv (fun _ : T => tt) x = ksym (keys x).
Proof. unfold map_mv, ksym, keys. rewrite map_map. reflexivity. Qed.
Lemma std_call2_any {T} (OT : ops T) A ext op f x y : natural2 f -> sassoc op poly2_table = Some f ->
  call_op (std_opd OT A ext) op [x; y] = Ok (f T OT A x y).
Proof.
  intros Hn Hs. unfold call_op, std_opd. cbn [map]. rewrite Hs. cbn [bind gen2 fst snd].
  rewrite !length_vals, !length_keys, !Nat.eqb_refl. cbn [andb bind]. rewrite !combine_keys_vals.
  rewrite <- (map_tt_any x), <- (map_tt_any y), <- (Hn T unit OT Uops _ (unit_hom_any OT) A x y), keys_map_mv.
  rewrite combine_keys_vals. reflexivity.
Qed.
Lemma std_call1_any {T} (OT : ops T) A ext op f x : natural1 f -> sassoc op poly1_table = Some f ->
  call_op (std_opd OT A ext) op [x] = Ok (f T OT A x).
Proof.
  intros Hn Hs. unfold call_op, std_opd. cbn [map].
  assert (Hp : String.eqb op "polarity" = false).
  { destruct (String.eqb_spec op "polarity") as [E|E]; [|reflexivity]. subst op. vm_compute in Hs. discriminate. }
  rewrite Hp, Hs. cbn [bind gen1 fst snd].
  rewrite !length_vals, !length_keys, !Nat.eqb_refl. cbn [bind]. rewrite !combine_keys_vals.
  rewrite <- (map_tt_any x), <- (Hn T unit OT Uops _ (unit_hom_any OT) A x), keys_map_mv.
  rewrite combine_keys_vals. reflexivity.
Qed.
Lemma std_call2_ext {T} (OT : ops T) A ext op x y : sassoc op poly2_table = None ->
  call_op (std_opd OT A ext) op [x; y] = call_op ext op [x; y].
Proof. intros Hs. unfold call_op, std_opd. cbn [map]. rewrite Hs. reflexivity. Qed.
Lemma std_call1_ext {T} (OT : ops T) A ext op x : String.eqb op "polarity" = false -> sassoc op poly1_table = None ->
  call_op (std_opd OT A ext) op [x] = call_op ext op [x].
Proof. intros Hp Hs. unfold call_op, std_opd. cbn [map]. rewrite Hp, Hs. reflexivity. Qed.

(* ================= 2. the simulation ================= *)
Section Sim.
  (* the symbol structure: coefficients S, representation invariant Q closed under the operations *)
  Variable S : Type.
  Variables (sO sI : S) (sadd smul ssub : S -> S -> S) (sopp : S -> S).
  Local Notation OS := (mkOps S sadd ssub smul sopp sO sI).
  Variable Q : S -> Prop.
  Hypothesis Hc : ops_closed OS Q.
  (* the numbers: a commutative ring *)
  Variable R : Type.
  Variables (rO rI : R) (radd rmul rsub : R -> R -> R) (ropp : R -> R).
  Hypothesis Rth : ring_theory rO rI radd rmul rsub ropp (@eq R).
  Add Ring SimRing : Rth.
  Local Notation O := (mkOps R radd rsub rmul ropp rO rI).
  Local Notation "x == y" := (Sparse.equiv rO rI radd rmul rsub ropp x y) (at level 70, no associativity).
  (* evaluation: a homomorphism on Q *)
  Variable h : S -> R.
  Hypothesis Hh : ops_hom_on OS O h Q.
  Local Notation mh := (map_mv h).
  Variable A : alg.
  Hypothesis Hwf : wf_alg A = true.
  Let Hnd : NoDup (canon_keys A) := sh_nodup A (wf_sign_hyps A Hwf).

  Definition simc (s : S) (r : R) : Prop := Q s /\ h s = r.
  (* operands: coefficients in Q, pairwise distinct stored keys, the evaluated coefficients are the numeric ones *)
  Definition simw (x : mv S) (y : mv R) : Prop :=
    all_coeffs Q x /\ NoDup (keys x) /\ NoDup (keys y) /\ mh x == y.
  Definition simm (x : mv S) (y : mv R) : Prop :=
    simw x y /\ incl (keys x) (canon_keys A) /\ incl (keys y) (canon_keys A).
  Definition simv (v : @val S) (w : @val R) : Prop :=
    match v, w with
    | VNum s, VNum r => simc s r
    | VMv x, VMv y => simm x y
    | _, _ => False
    end.

  Lemma simm_wfm x y : simm x y -> wfm S A x /\ wfm R A y.
  Proof. intros [[_ [H1 [H2 _]]] [H3 H4]]. split; split; assumption. Qed.

  Lemma simc_zero : simc sO rO. Proof. split; [apply (cl_zero _ _ Hc) | apply (homon_zero _ _ _ _ Hh)]. Qed.
  Lemma simc_one : simc sI rI. Proof. split; [apply (cl_one _ _ Hc) | apply (homon_one _ _ _ _ Hh)]. Qed.
  Lemma simc_add a b a' b' : simc a a' -> simc b b' -> simc (sadd a b) (radd a' b').
  Proof. intros [Qa <-] [Qb <-]. split; [apply (cl_add _ _ Hc) | apply (homon_add _ _ _ _ Hh)]; assumption. Qed.
  Lemma simc_sub a b a' b' : simc a a' -> simc b b' -> simc (ssub a b) (rsub a' b').
  Proof. intros [Qa <-] [Qb <-]. split; [apply (cl_sub _ _ Hc) | apply (homon_sub _ _ _ _ Hh)]; assumption. Qed.
  Lemma simc_mul a b a' b' : simc a a' -> simc b b' -> simc (smul a b) (rmul a' b').
  Proof. intros [Qa <-] [Qb <-]. split; [apply (cl_mul _ _ Hc) | apply (homon_mul _ _ _ _ Hh)]; assumption. Qed.
  Lemma simc_neg a a' : simc a a' -> simc (sopp a) (ropp a').
  Proof. intros [Qa <-]. split; [apply (cl_neg _ _ Hc) | apply (homon_neg _ _ _ _ Hh)]; assumption. Qed.

  Lemma simm_scalar s r : simc s r -> simm [(0, s)] [(0, r)].
  Proof.
    intros [Qs <-]. pose proof (zero_canon A Hwf) as H0.
    assert (Hn : NoDup [0]) by (constructor; [intros [] | constructor]).
    assert (Hi : incl [0] (canon_keys A)) by (intros k [<-|[]]; exact H0).
    split; [|split; exact Hi]. split; [constructor; [exact Qs | constructor]|]. split; [exact Hn|]. split; [exact Hn|].
    intros K. reflexivity.
  Qed.
  Lemma simv_as_mv v w : simv v w -> simm (as_mv v) (as_mv w).
  Proof. destruct v as [s|x], w as [r|y]; cbn [simv as_mv]; try contradiction; [apply simm_scalar | trivial]. Qed.

  Lemma coeff_Q K (x : mv S) : all_coeffs Q x -> Q (coeff OS K x).
  Proof.
    induction x as [|[k v] r IH]; intros H; [apply (cl_zero _ _ Hc)|].
    inversion H as [|? ? Hv Hr]; subst. rewrite (coeff_cons S sO sI sadd smul ssub sopp).
    destruct (Z.eqb k K); [exact Hv | apply IH; exact Hr].
  Qed.
  Lemma simw_coeff K x y : simw x y -> simc (coeff OS K x) (coeff O K y).
  Proof.
    intros [Hq [_ [_ He]]]. split; [apply coeff_Q; exact Hq|].
    rewrite <- (He K). symmetry. apply (rel_coeff OS O h Q Hc Hh K x Hq).
  Qed.

  (* the operators of the table *)
  Lemma simw_op2 op f x1 y1 x2 y2 : sassoc op poly2_table = Some f -> simw x1 y1 -> simw x2 y2 ->
    simm (f S OS A x1 x2) (f R O A y1 y2).
  Proof.
    intros Hs [Hq1 [Hn1 [Hm1 He1]]] [Hq2 [Hn2 [Hm2 He2]]].
    pose proof (poly2_good R rO rI radd rmul rsub ropp Rth A Hwf op f Hs) as G.
    pose proof (g2_nat _ _ _ _ _ _ _ _ f G) as Gn.
    split; [|split; apply (g2_wf _ _ _ _ _ _ _ _ f G)].
    split; [apply (rel_closed2 OS Q Hc f Gn); assumption|].
    split; [apply (g2_wf _ _ _ _ _ _ _ _ f G)|]. split; [apply (g2_wf _ _ _ _ _ _ _ _ f G)|].
    rewrite (rel_nat2 OS O h Q Hc Hh f Gn A x1 x2 Hq1 Hq2).
    apply (g2_congr _ _ _ _ _ _ _ _ f G); try assumption; rewrite keys_map_mv; assumption.
  Qed.
  Lemma simw_op1 op f x y : sassoc op poly1_table = Some f -> simw x y -> simm (f S OS A x) (f R O A y).
  Proof.
    intros Hs [Hq1 [Hn1 [Hm1 He1]]].
    pose proof (poly1_good R rO rI radd rmul rsub ropp Rth A Hwf op f Hs) as G.
    pose proof (g1_nat _ _ _ _ _ _ _ _ f G) as Gn.
    split; [|split; apply (g1_wf _ _ _ _ _ _ _ _ f G)].
    split; [apply (rel_closed1 OS Q Hc f Gn); assumption|].
    split; [apply (g1_wf _ _ _ _ _ _ _ _ f G)|]. split; [apply (g1_wf _ _ _ _ _ _ _ _ f G)|].
    rewrite (rel_nat1 OS O h Q Hc Hh f Gn A x Hq1).
    apply (g1_congr _ _ _ _ _ _ _ _ f G); try assumption; rewrite keys_map_mv; assumption.
  Qed.
  Lemma simw_pss : simw (pss_mv OS A) (pss_mv O A).
  Proof.
    unfold pss_mv. cbn [o_one]. assert (Hn : NoDup [pss_key A]) by (constructor; [intros [] | constructor]).
    split; [constructor; [apply (cl_one _ _ Hc) | constructor]|]. split; [exact Hn|]. split; [exact Hn|].
    intros K. unfold map_mv. cbn [map fst snd]. pose proof (homon_one _ _ _ _ Hh) as E. cbn [o_one] in E. rewrite E. reflexivity.
  Qed.
  Lemma simm_simw x y : simm x y -> simw x y. Proof. intros [H _]. exact H. Qed.

  Lemma simw_polarity x y m : simw x y -> polarity O A y = Ok m ->
    exists m', polarity OS A x = Ok m' /\ simm m' m.
  Proof.
    intros Hxy. unfold polarity.
    destruct (Z.eqb (sgn A (pss_key A) (pss_key A)) (-1)).
    - intros H. inversion H; subst m. eexists. split; [reflexivity|].
      apply (simw_op2 "gp" (@gp)); [reflexivity | | exact simw_pss].
      apply simm_simw. apply (simw_op1 "neg" (@neg)); [reflexivity | exact Hxy].
    - destruct (Z.eqb (sgn A (pss_key A) (pss_key A)) 1).
      + intros H. inversion H; subst m. eexists. split; [reflexivity|].
        apply (simw_op2 "gp" (@gp)); [reflexivity | exact Hxy | exact simw_pss].
      + destruct (Z.eqb (sgn A (pss_key A) (pss_key A)) 0); discriminate.
  Qed.

  (* the operators outside the table: any pair of tables that simulate each other *)
  Variables (extS : optable S) (extN : optable R).
  Definition ext_sim : Prop := forall op xs ys m, Forall2 simm xs ys -> call_op extN op ys = Ok m ->
    exists m', call_op extS op xs = Ok m' /\ simm m' m.
  Hypothesis Hext : ext_sim.

  Lemma call_op_other {T} (OT : ops T) ext op (xs : list (mv T)) :
    match xs with [_] | [_; _] => False | _ => True end ->
    call_op (std_opd OT A ext) op xs = call_op ext op xs.
  Proof. intros H. destruct xs as [|x [|y [|z r]]]; try contradiction; reflexivity. Qed.

  Lemma call_std_sim op xs ys m : Forall2 simm xs ys -> call_op (std_opd O A extN) op ys = Ok m ->
    exists m', call_op (std_opd OS A extS) op xs = Ok m' /\ simm m' m.
  Proof.
    intros HF. revert m.
    destruct HF as [|x1 y1 xs ys H1 HF]; intros m H.
    { rewrite call_op_other in H by exact I. rewrite call_op_other by exact I. apply (Hext op [] [] m); [constructor | exact H]. }
    revert m H. destruct HF as [|x2 y2 xs ys H2 HF]; intros m H.
    { (* unary *)
      destruct (String.eqb op "polarity") eqn:Hp.
      - apply String.eqb_eq in Hp. subst op.
        rewrite (std_call_polarity R rO rI radd rmul rsub ropp A extN y1) in H.
        rewrite (std_call_polarity S sO sI sadd smul ssub sopp A extS x1).
        apply (simw_polarity x1 y1 m (simm_simw _ _ H1) H).
      - destruct (sassoc op poly1_table) as [f|] eqn:Hs.
        + pose proof (g1_nat _ _ _ _ _ _ _ _ f (poly1_good R rO rI radd rmul rsub ropp Rth A Hwf op f Hs)) as Gn.
          rewrite (std_call1_any O A extN op f y1 Gn Hs) in H. inversion H; subst m.
          rewrite (std_call1_any OS A extS op f x1 Gn Hs). eexists. split; [reflexivity|].
          apply (simw_op1 op f); [exact Hs | apply simm_simw; exact H1].
        + rewrite (std_call1_ext O A extN op y1 Hp Hs) in H. rewrite (std_call1_ext OS A extS op x1 Hp Hs).
          apply (Hext op [x1] [y1] m); [constructor; [exact H1 | constructor] | exact H]. }
    revert m H. destruct HF as [|x3 y3 xs ys H3 HF]; intros m H.
    { (* binary *)
      destruct (sassoc op poly2_table) as [f|] eqn:Hs.
      - pose proof (g2_nat _ _ _ _ _ _ _ _ f (poly2_good R rO rI radd rmul rsub ropp Rth A Hwf op f Hs)) as Gn.
        rewrite (std_call2_any O A extN op f y1 y2 Gn Hs) in H. inversion H; subst m.
        rewrite (std_call2_any OS A extS op f x1 x2 Gn Hs). eexists. split; [reflexivity|].
        apply (simw_op2 op f); [exact Hs | apply simm_simw; exact H1 | apply simm_simw; exact H2].
      - rewrite (std_call2_ext O A extN op y1 y2 Hs) in H. rewrite (std_call2_ext OS A extS op x1 x2 Hs).
        apply (Hext op [x1; x2] [y1; y2] m); [constructor; [exact H1 | constructor; [exact H2 | constructor]] | exact H]. }
    rewrite call_op_other in H by exact I. rewrite call_op_other by exact I.
    apply (Hext op (x1 :: x2 :: x3 :: xs) (y1 :: y2 :: y3 :: ys) m); [constructor; [exact H1 | constructor; [exact H2 | constructor; [exact H3 | exact HF]]] | exact H].
  Qed.

  (* ---------- OperatorDict.filter: only stored pairs whose coefficient evaluates to zero are dropped ---------- *)
  Lemma simm_filter (p : Z * S -> bool) x y :
    (forall kv, In kv x -> p kv = false -> h (snd kv) = rO) -> simm x y -> simm (filter p x) y.
  Proof.
    intros Hp [[Hq [Hn [Hm He]]] [Hi Hj]].
    assert (Hk : forall K, In K (keys (filter p x)) -> In K (keys x)).
    { intros K HK. unfold keys in *. apply in_map_iff in HK. destruct HK as [kv [E HK]]. apply filter_In in HK.
      apply in_map_iff. exists kv. split; [exact E | apply HK]. }
    split; [|split; [intros K HK; apply Hi, Hk, HK | exact Hj]].
    split; [unfold all_coeffs in *; rewrite Forall_forall in *; intros kv Hkv; apply filter_In in Hkv; apply Hq, Hkv|].
    split; [|split; [exact Hm|]].
    - clear -Hn Hk. induction x as [|[k v] r IH]; [constructor|]. cbn [filter].
      cbn [keys map fst] in Hn. inversion Hn as [|? ? Hk1 Hr]; subst.
      assert (Hr' : NoDup (keys (filter p r))).
      { apply IH; [exact Hr|]. intros K HK. unfold keys in *. apply in_map_iff in HK. destruct HK as [kv [E HK]].
        apply filter_In in HK. apply in_map_iff. exists kv. split; [exact E | apply HK]. }
      destruct (p (k, v)); [|exact Hr']. cbn [keys map fst]. constructor; [|exact Hr'].
      intros Hin. apply Hk1. unfold keys in *. apply in_map_iff in Hin. destruct Hin as [kv [E HK]].
      apply filter_In in HK. apply in_map_iff. exists kv. split; [exact E | apply HK].
    - intros K. rewrite <- (He K). clear -Hp Hn. induction x as [|[k v] r IH]; [reflexivity|].
      cbn [keys map fst] in Hn. inversion Hn as [|? ? Hk1 Hr]; subst. cbn [filter].
      assert (IH' : coeff O K (mh (filter p r)) = coeff O K (mh r)).
      { apply IH; [|exact Hr]. intros kv Hkv. apply Hp. right. exact Hkv. }
      destruct (p (k, v)) eqn:Ep.
      + unfold map_mv in *. cbn [map fst snd]. rewrite !(coeff_cons R rO rI radd rmul rsub ropp). rewrite IH'. reflexivity.
      + rewrite IH'. unfold map_mv at 2. cbn [map fst snd]. rewrite (coeff_cons R rO rI radd rmul rsub ropp).
        destruct (Z.eqb k K) eqn:E; [|reflexivity]. apply Z.eqb_eq in E. subst K.
        pose proof (Hp (k, v) (or_introl eq_refl) Ep) as Hz. cbn [snd] in Hz. rewrite Hz.
        apply (coeff_notin R rO rI radd rmul rsub ropp). fold (map_mv h r). rewrite keys_map_mv. exact Hk1.
  Qed.

  (* ---------- grade selection ---------- *)
  Lemma sim_grade gs v w w' : simv v w -> mv_grade O A w gs = Ok w' ->
    exists v', mv_grade OS A v gs = Ok v' /\ simv v' w'.
  Proof.
    destruct v as [s|x], w as [r|y]; cbn [simv]; try contradiction; intros Hxy H; [discriminate|].
    cbn [mv_grade] in *. unfold grade_sel in *. destruct (indices_for_grades A gs) as [ks|e] eqn:Hks; [|discriminate].
    cbn [bind] in *. inversion H; subst w'. clear H. eexists. split; [reflexivity|]. cbn [simv].
    fold (select sO sI sadd smul ssub sopp ks x). fold (select rO rI radd rmul rsub ropp ks y).
    destruct Hxy as [[Hq [Hn [Hm He]]] [Hi Hj]].
    pose proof (grades_nodup A Hwf gs ks Hks) as Hnk.
    assert (HqS : all_coeffs Q (select sO sI sadd smul ssub sopp ks x)).
    { unfold select, all_coeffs. clear Hnk Hks. induction ks as [|k ks IH]; [constructor|]. cbn [flat_map].
      apply Forall_app. split; [|exact IH]. destruct (zin k (keys x)); [|constructor].
      constructor; [apply coeff_Q; exact Hq | constructor]. }
    split; [|split].
    - split; [exact HqS|]. rewrite !keys_select. split; [apply NoDup_filter; exact Hnk|]. split; [apply NoDup_filter; exact Hnk|].
      intros K. rewrite (rel_coeff OS O h Q Hc Hh K _ HqS). rewrite !coeff_select.
      pose proof (simw_coeff K x y (conj Hq (conj Hn (conj Hm He)))) as [_ Ec].
      destruct (zin K ks); cbn [andb]; [|apply (homon_zero _ _ _ _ Hh)].
      destruct (zin K (keys x)) eqn:Ex, (zin K (keys y)) eqn:Ey; try exact Ec.
      + rewrite Ec. apply (coeff_notin R rO rI radd rmul rsub ropp). apply zin_false_iff. exact Ey.
      + rewrite <- Ec. rewrite (coeff_notin S sO sI sadd smul ssub sopp K x); [reflexivity | apply zin_false_iff; exact Ex].
      + apply (homon_zero _ _ _ _ Hh).
    - rewrite keys_select. intros K HK. apply filter_In in HK. apply Hi. apply zin_true_iff. apply HK.
    - rewrite keys_select. intros K HK. apply filter_In in HK. apply Hj. apply zin_true_iff. apply HK.
  Qed.

  (* ---------- coefficient access ---------- *)
  Lemma getattr_val {T} (tO tI : T) (tadd tmul tsub : T -> T -> T) (topp : T -> T) (x : mv T) nm :
    NoDup (keys x) ->
    mv_getattr (mkOps T tadd tsub tmul topp tO tI) A (VMv x) nm =
    Ok (VNum (let '(c, swaps) := blade2canon A nm in
              match c with
              | None => tO
              | Some cn => match canon2bin A cn with
                           | None => tO
                           | Some b => if zin b (keys x)
                                       then (if Z.even swaps then coeff (mkOps T tadd tsub tmul topp tO tI) b x
                                             else topp (coeff (mkOps T tadd tsub tmul topp tO tI) b x))
                                       else tO
                           end
              end)).
  Proof.
    intros Hn. cbn [mv_getattr]. destruct (blade2canon A nm) as [[cn|] swaps]; [|reflexivity].
    destruct (canon2bin A cn) as [b|]; [|reflexivity].
    destruct (zindex b (keys x)) as [idx|] eqn:Hz.
    - destruct (idx_value T b (keys x) idx (vals x) Hz) as [v0 [Hv0 Hin0]]; [rewrite length_vals, length_keys; reflexivity|].
      rewrite combine_keys_vals in Hin0. rewrite Hv0.
      assert (Hin : zin b (keys x) = true).
      { apply zin_true_iff. unfold keys. apply in_map_iff. exists (b, v0). split; [reflexivity | exact Hin0]. }
      rewrite Hin. rewrite (coeff_in T tO tI tadd tmul tsub topp b v0 x Hn Hin0). cbn [o_neg]. reflexivity.
    - apply zindex_none in Hz. assert (Hin : zin b (keys x) = false) by (apply zin_false_iff; exact Hz).
      rewrite Hin. reflexivity.
  Qed.
  Lemma ropp_zero : ropp rO = rO. Proof. ring. Qed.
  Lemma sim_getattr nm v w w' : simv v w -> mv_getattr O A w nm = Ok w' ->
    exists v', mv_getattr OS A v nm = Ok v' /\ simv v' w'.
  Proof.
    destruct v as [s|x], w as [r|y]; cbn [simv]; try contradiction; intros Hxy H; [discriminate|].
    pose proof (simm_simw _ _ Hxy) as Hw. destruct Hw as [Hq [Hn [Hm He]]].
    rewrite (getattr_val rO rI radd rmul rsub ropp y nm Hm) in H. inversion H; subst w'. clear H.
    rewrite (getattr_val sO sI sadd smul ssub sopp x nm Hn). eexists. split; [reflexivity|]. cbn [simv].
    destruct (blade2canon A nm) as [[cn|] swaps]; [|exact simc_zero].
    destruct (canon2bin A cn) as [b|]; [|exact simc_zero].
    pose proof (simw_coeff b x y (simm_simw _ _ Hxy)) as Hcb.
    assert (Hcase : forall s r, simc s r -> simc (if Z.even swaps then s else sopp s) (if Z.even swaps then r else ropp r)).
    { intros s r Hsr. destruct (Z.even swaps); [exact Hsr | apply simc_neg; exact Hsr]. }
    destruct (zin b (keys x)) eqn:Ex, (zin b (keys y)) eqn:Ey.
    - apply Hcase. exact Hcb.
    - rewrite (coeff_notin R rO rI radd rmul rsub ropp b y) in Hcb by (apply zin_false_iff; exact Ey).
      apply Hcase in Hcb. destruct (Z.even swaps); [exact Hcb | rewrite ropp_zero in Hcb; exact Hcb].
    - rewrite (coeff_notin S sO sI sadd smul ssub sopp b x) in Hcb by (apply zin_false_iff; exact Ex).
      destruct Hcb as [_ Hcb]. pose proof (homon_zero _ _ _ _ Hh) as Hz0. cbn [o_zero] in Hz0. rewrite Hz0 in Hcb.
      split; [apply (cl_zero _ _ Hc)|]. rewrite Hz0, <- Hcb.
      destruct (Z.even swaps); [reflexivity | symmetry; apply ropp_zero].
    - exact simc_zero.
  Qed.

  (* ---------- the members that only call operators: any pair of call functions that simulate each other ---------- *)
  Variable mvtab : mtable.
  Variable callS : string -> list (mv S) -> res (mv S).
  Variable callN : string -> list (mv R) -> res (mv R).
  Hypothesis Hcall : forall op xs ys m, Forall2 simm xs ys -> callN op ys = Ok m ->
    exists m', callS op xs = Ok m' /\ simm m' m.

  Definition step1 (FS : @val S -> res (@val S)) (FN : @val R -> res (@val R)) : Prop :=
    forall v w w', simv v w -> FN w = Ok w' -> exists v', FS v = Ok v' /\ simv v' w'.
  Definition step2 (FS : @val S -> @val S -> res (@val S)) (FN : @val R -> @val R -> res (@val R)) : Prop :=
    forall v1 v2 w1 w2 w', simv v1 w1 -> simv v2 w2 -> FN w1 w2 = Ok w' -> exists v', FS v1 v2 = Ok v' /\ simv v' w'.

  Lemma sim_meth1 m : step1 (g_meth1 callS mvtab m) (g_meth1 callN mvtab m).
  Proof.
    intros v w w' Hvw H. destruct v as [s|x], w as [r|y]; cbn [simv] in Hvw; try contradiction; [discriminate|].
    cbn [g_meth1] in *. destruct (mlookup m mvtab) as [[[op sw] [|[|ar]]]|]; try discriminate.
    inv_bindn H as r Hr. inversion H; subst w'.
    destruct (Hcall op [x] [y] r) as [r' [Hr' Hs]]; [constructor; [exact Hvw | constructor] | exact Hr|].
    rewrite Hr'. cbn [bind]. eexists. split; [reflexivity | exact Hs].
  Qed.
  Lemma sim_meth2 m : step2 (g_meth2 callS mvtab m) (g_meth2 callN mvtab m).
  Proof.
    intros v1 v2 w1 w2 w' H1 H2 H. destruct v1 as [s|x], w1 as [r|y]; cbn [simv] in H1; try contradiction; [discriminate|].
    cbn [g_meth2] in *. destruct (mlookup m mvtab) as [[[op sw] [|[|[|ar]]]]|]; try discriminate.
    inv_bindn H as r Hr. inversion H; subst w'. pose proof (simv_as_mv _ _ H2) as H2'.
    destruct sw.
    - destruct (Hcall op [as_mv v2; x] [as_mv w2; y] r) as [r' [Hr' Hs]];
        [constructor; [exact H2' | constructor; [exact H1 | constructor]] | exact Hr|].
      rewrite Hr'. cbn [bind]. eexists. split; [reflexivity | exact Hs].
    - destruct (Hcall op [x; as_mv v2] [y; as_mv w2] r) as [r' [Hr' Hs]];
        [constructor; [exact H1 | constructor; [exact H2' | constructor]] | exact Hr|].
      rewrite Hr'. cbn [bind]. eexists. split; [reflexivity | exact Hs].
  Qed.
  Lemma sim_prefix u : step1 (g_prefix OS callS mvtab u) (g_prefix O callN mvtab u).
  Proof.
    intros v w w' Hvw H. destruct v as [s|x], w as [r|y]; cbn [simv] in Hvw; try contradiction.
    - cbn [g_prefix] in *. destruct u; [|discriminate]. inversion H; subst w'. eexists. split; [reflexivity|].
      cbn [simv o_neg]. apply simc_neg. exact Hvw.
    - cbn [g_prefix] in *. apply (sim_meth1 (pdunder u) (VMv x) (VMv y) w' Hvw H).
  Qed.
  Lemma sim_infix o : step2 (g_infix OS callS mvtab o) (g_infix O callN mvtab o).
  Proof.
    intros v1 v2 w1 w2 w' H1 H2 H. destruct v1 as [a|x1], w1 as [a'|y1]; cbn [simv] in H1; try contradiction.
    - destruct v2 as [b|x2], w2 as [b'|y2]; cbn [simv] in H2; try contradiction.
      + cbn [g_infix] in *. destruct o; try discriminate; inversion H; subst w'; eexists; (split; [reflexivity|]);
          cbn [simv o_add o_sub o_mul]; [apply simc_add | apply simc_sub | apply simc_mul]; assumption.
      + cbn [g_infix] in *. apply (sim_meth2 (rdunder o) (VMv x2) (VNum a) (VMv y2) (VNum a') w' H2 H1 H).
    - cbn [g_infix] in *. apply (sim_meth2 (dunder o) (VMv x1) v2 (VMv y1) w2 w' H1 H2 H).
  Qed.
  Lemma sim_pow_loop n x x' : simv x x' -> forall acc acc' w', simv acc acc' ->
    pow_loop n (fun r => g_meth2 callN mvtab "gp" r x') acc' = Ok w' ->
    exists v', pow_loop n (fun r => g_meth2 callS mvtab "gp" r x) acc = Ok v' /\ simv v' w'.
  Proof.
    intros Hx. induction n as [|n IH]; intros acc acc' w' Ha H; cbn [pow_loop] in *.
    - inversion H; subst w'. eexists. split; [reflexivity | exact Ha].
    - inv_bindn H as r Hr. destruct (sim_meth2 "gp" acc x acc' x' r Ha Hx Hr) as [r' [Hr' Hs]].
      rewrite Hr'. cbn [bind]. apply (IH r' r w' Hs H).
  Qed.
  Lemma sim_pow n : step1 (fun v => g_pow OS callS mvtab v n) (fun w => g_pow O callN mvtab w n).
  Proof.
    intros v w w' Hvw H. destruct v as [s|x], w as [r|y]; cbn [simv] in Hvw; try contradiction; [discriminate|].
    cbn [g_pow] in *. destruct (n =? 0).
    - inversion H; subst w'. eexists. split; [reflexivity|]. cbn [simv o_one]. apply simm_scalar. exact simc_one.
    - inv_bindn H as b Hb. destruct (n <? 0).
      + destruct (sim_meth1 "inv" (VMv x) (VMv y) b Hvw Hb) as [b' [Hb' Hs]]. rewrite Hb'. cbn [bind].
        apply (sim_pow_loop _ b' b Hs b' b w' Hs H).
      + inversion Hb; subst b. cbn [bind]. apply (sim_pow_loop _ (VMv x) (VMv y) Hvw (VMv x) (VMv y) w' Hvw H).
  Qed.
  Lemma sim_dual un k : step1 (fun v => g_dual A callS mvtab un v k) (fun w => g_dual A callN mvtab un w k).
  Proof.
    intros v w w' Hvw H. destruct v as [s|x], w as [r|y]; cbn [simv] in Hvw; try contradiction; [discriminate|].
    cbn [g_dual] in *. inv_bindn H as m Hm. rewrite Hm. cbn [bind]. apply (sim_meth1 m (VMv x) (VMv y) w' Hvw H).
  Qed.
  Lemma sim_norm : step1 (g_norm callS mvtab) (g_norm callN mvtab).
  Proof.
    intros v w w' Hvw H. unfold g_norm in *. inv_bindn H as n Hn.
    destruct (sim_meth1 "normsq" v w n Hvw Hn) as [n' [Hn' Hs]]. rewrite Hn'. cbn [bind].
    apply (sim_meth1 "sqrt" n' n w' Hs H).
  Qed.
  Lemma sim_normalized : step1 (g_normalized OS callS mvtab) (g_normalized O callN mvtab).
  Proof.
    intros v w w' Hvw H. destruct v as [s|x], w as [r|y]; cbn [simv] in Hvw; try contradiction; [discriminate|].
    cbn [g_normalized] in *. inv_bindn H as n Hn.
    destruct (sim_norm (VMv x) (VMv y) n Hvw Hn) as [n' [Hn' Hs]]. rewrite Hn'. cbn [bind].
    apply (sim_infix IDiv (VMv x) n' (VMv y) n w' Hvw Hs H).
  Qed.

  (* ---------- calls of registered functions: any pair that simulate each other ---------- *)
  Variable regS : nat -> nat -> list (mv S) -> res (mv S).
  Variable regN : nat -> nat -> list (mv R) -> res (mv R).
  Definition reg_sim : Prop := forall fu k xs ys m, Forall2 simm xs ys -> regN fu k ys = Ok m ->
    exists m', regS fu k xs = Ok m' /\ simm m' m.
  Hypothesis Hreg : reg_sim.

  (* the run on symbols simulates the run on numbers: whenever the latter returns, so does the former, with a
     value of the same kind (number / multivector) that evaluates to it *)
  Theorem sim_directG : forall fuel (e : expr S) envS envN w,
    lits Q e -> Forall2 simm envS envN ->
    directG O A callN regN mvtab fuel envN (emap h e) = Ok w ->
    exists v, directG OS A callS regS mvtab fuel envS e = Ok v /\ simv v w.
  Proof.
    induction fuel as [|fu IH]; intros e envS envN w Hl Henv H; [discriminate|].
    assert (IH1 : forall e1 w1, lits Q e1 -> directG O A callN regN mvtab fu envN (emap h e1) = Ok w1 ->
                    exists v1, directG OS A callS regS mvtab fu envS e1 = Ok v1 /\ simv v1 w1).
    { intros e1 w1 Hl1 H1. apply (IH e1 envS envN w1 Hl1 Henv H1). }
    destruct e; cbn [emap directG lits] in *.
    - (* EArg *)
      inv_bindn H as y Hy. inversion H; subst w. clear H.
      destruct (nth_error envN i) as [y0|] eqn:Ey; [|discriminate]. inversion Hy; subst y0.
      assert (Hx : exists x, nth_error envS i = Some x /\ simm x y).
      { clear -Henv Ey. revert i Ey. induction Henv as [|x0 y0 xs ys H0 HF IHF]; intros [|i] Ey; cbn [nth_error] in *; try discriminate.
        - inversion Ey; subst. exists x0. split; [reflexivity | exact H0].
        - apply (IHF i Ey). }
      destruct Hx as [x [Ex Hs]]. rewrite Ex. cbn [of_opt bind]. eexists. split; [reflexivity | exact Hs].
    - (* ENum *) inversion H; subst w. eexists. split; [reflexivity|]. cbn [simv]. split; [exact Hl | reflexivity].
    - inv_bindn H as w1 H1. destruct (IH1 e w1 Hl H1) as [v1 [E1 S1]]. rewrite E1. cbn [bind]. apply (sim_meth1 m v1 w1 w S1 H).
    - destruct Hl as [Hl1 Hl2]. inv_bindn H as w1 H1. inv_bindn H as w2 H2.
      destruct (IH1 e1 w1 Hl1 H1) as [v1 [E1 S1]]. destruct (IH1 e2 w2 Hl2 H2) as [v2 [E2 S2]].
      rewrite E1, E2. cbn [bind]. apply (sim_meth2 m v1 v2 w1 w2 w S1 S2 H).
    - inv_bindn H as w1 H1. destruct (IH1 e w1 Hl H1) as [v1 [E1 S1]]. rewrite E1. cbn [bind]. apply (sim_prefix u v1 w1 w S1 H).
    - destruct Hl as [Hl1 Hl2]. inv_bindn H as w1 H1. inv_bindn H as w2 H2.
      destruct (IH1 e1 w1 Hl1 H1) as [v1 [E1 S1]]. destruct (IH1 e2 w2 Hl2 H2) as [v2 [E2 S2]].
      rewrite E1, E2. cbn [bind]. apply (sim_infix o v1 v2 w1 w2 w S1 S2 H).
    - inv_bindn H as w1 H1. destruct (IH1 e w1 Hl H1) as [v1 [E1 S1]]. rewrite E1. cbn [bind]. apply (sim_pow n v1 w1 w S1 H).
    - inv_bindn H as w1 H1. destruct (IH1 e w1 Hl H1) as [v1 [E1 S1]]. rewrite E1. cbn [bind]. apply (sim_grade gs v1 w1 w S1 H).
    - inv_bindn H as w1 H1. destruct (IH1 e w1 Hl H1) as [v1 [E1 S1]]. rewrite E1. cbn [bind]. apply (sim_getattr nm v1 w1 w S1 H).
    - inv_bindn H as w1 H1. destruct (IH1 e w1 Hl H1) as [v1 [E1 S1]]. rewrite E1. cbn [bind]. apply (sim_dual false k v1 w1 w S1 H).
    - inv_bindn H as w1 H1. destruct (IH1 e w1 Hl H1) as [v1 [E1 S1]]. rewrite E1. cbn [bind]. apply (sim_dual true k v1 w1 w S1 H).
    - inv_bindn H as w1 H1. destruct (IH1 e w1 Hl H1) as [v1 [E1 S1]]. rewrite E1. cbn [bind]. apply (sim_norm v1 w1 w S1 H).
    - inv_bindn H as w1 H1. destruct (IH1 e w1 Hl H1) as [v1 [E1 S1]]. rewrite E1. cbn [bind]. apply (sim_normalized v1 w1 w S1 H).
    - (* ECall *)
      apply (proj1 (lits_call Q k args)) in Hl.
      inv_bindn H as ws Hws. inv_bindn H as m Hm. inversion H; subst w. clear H.
      assert (Hargs : exists vs, mapM (directG OS A callS regS mvtab fu envS) args = Ok vs /\ Forall2 simv vs ws).
      { clear Hm. revert ws Hws. induction args as [|a r IHa]; intros ws Hws; cbn [map mapM] in *.
        - inversion Hws; subst ws. exists []. split; [reflexivity | constructor].
        - inversion Hl as [|? ? Hla Hlr]; subst. inv_bindn Hws as wa Hwa. inv_bindn Hws as wr Hwr. inversion Hws; subst ws.
          destruct (IH1 a wa Hla Hwa) as [va [Ea Sa]]. destruct (IHa Hlr wr Hwr) as [vr [Er Sr]].
          rewrite Ea, Er. cbn [bind]. eexists. split; [reflexivity | constructor; assumption]. }
      destruct Hargs as [vs [Evs Svs]]. rewrite Evs. cbn [bind].
      assert (Hmv : Forall2 simm (map as_mv vs) (map as_mv ws)).
      { clear Evs Hm Hws. induction Svs as [|v0 w0 vs0 ws0 H0 HF IHF]; cbn [map]; [constructor|].
        constructor; [apply simv_as_mv; exact H0 | exact IHF]. }
      destruct (Hreg fu k _ _ m Hmv Hm) as [m' [Em Sm]]. rewrite Em. cbn [bind]. eexists. split; [reflexivity | exact Sm].
  Qed.
End Sim.

(* ================= 3. the symbolic run ================= *)
(* do_codegen(f, *symbolic multivectors): MultiVector's members as in [direct]; an operator call is
   OperatorDict.__call__ on symbolic operands = the generated function on the symbolic value lists followed by
   the filter [F operands result] (OperatorDict.filter; it is applied when an operand is symbolic, hence the
   operands as a parameter); a call of a registered function is Registry.__call__ on symbolic multivectors = the
   compiled tape on the symbolic value lists, no filter *)
Definition symbolic_run {T} (OT : ops T) (A : alg) (F : list (mv T) -> mv T -> mv T) (opd : optable T)
    (mvtab tapetab : mtable) (bodies : list (expr T)) : nat -> list (mv T) -> expr T -> res (@val T) :=
  directG OT A (fun op xs => r <- call_op opd op xs ;; Ok (F xs r)) (registered OT A opd tapetab bodies) mvtab.

Lemma directG_ext {T} (OT : ops T) A call call' reg reg' mvtab :
  (forall op xs, call op xs = call' op xs) -> (forall fu k xs, reg fu k xs = reg' fu k xs) ->
  forall fuel env e, directG OT A call reg mvtab fuel env e = directG OT A call' reg' mvtab fuel env e.
Proof.
  intros Hcl Hrg.
  assert (M1 : forall m v, g_meth1 call mvtab m v = g_meth1 call' mvtab m v).
  { intros m [c|x]; cbn [g_meth1]; [reflexivity|]. destruct (mlookup m mvtab) as [[[op sw] [|[|ar]]]|]; try reflexivity.
    rewrite Hcl. reflexivity. }
  assert (M2 : forall m v1 v2, g_meth2 call mvtab m v1 v2 = g_meth2 call' mvtab m v1 v2).
  { intros m [c|x] v2; cbn [g_meth2]; [reflexivity|]. destruct (mlookup m mvtab) as [[[op sw] [|[|[|ar]]]]|]; try reflexivity.
    destruct sw; rewrite Hcl; reflexivity. }
  assert (MI : forall o v1 v2, g_infix OT call mvtab o v1 v2 = g_infix OT call' mvtab o v1 v2).
  { intros o [a|x] [b|y]; cbn [g_infix]; try reflexivity; apply M2. }
  assert (MN : forall v, g_norm call mvtab v = g_norm call' mvtab v).
  { intros v. unfold g_norm. rewrite M1. destruct (g_meth1 call' mvtab "normsq" v); cbn [bind]; [apply M1 | reflexivity]. }
  assert (ML : forall n x acc, pow_loop n (fun r => g_meth2 call mvtab "gp" r x) acc = pow_loop n (fun r => g_meth2 call' mvtab "gp" r x) acc).
  { induction n as [|n IHn]; intros x acc; cbn [pow_loop]; [reflexivity|]. rewrite M2.
    destruct (g_meth2 call' mvtab "gp" acc x); cbn [bind]; [apply IHn | reflexivity]. }
  induction fuel as [|fu IH]; intros env e; [reflexivity|].
  destruct e; cbn [directG]; rewrite ?IH; try reflexivity.
  - destruct (directG OT A call' reg' mvtab fu env e); cbn [bind]; [apply M1 | reflexivity].
  - destruct (directG OT A call' reg' mvtab fu env e1); cbn [bind]; [|reflexivity].
    destruct (directG OT A call' reg' mvtab fu env e2); cbn [bind]; [apply M2 | reflexivity].
  - destruct (directG OT A call' reg' mvtab fu env e) as [[c|x]|]; cbn [bind g_prefix]; try reflexivity. apply M1.
  - destruct (directG OT A call' reg' mvtab fu env e1); cbn [bind]; [|reflexivity].
    destruct (directG OT A call' reg' mvtab fu env e2); cbn [bind]; [apply MI | reflexivity].
  - destruct (directG OT A call' reg' mvtab fu env e) as [[c|x]|]; cbn [bind g_pow]; try reflexivity.
    destruct (n =? 0); [reflexivity|]. destruct (n <? 0); cbn [bind]; [|apply ML].
    rewrite M1. destruct (g_meth1 call' mvtab "inv" (VMv x)); cbn [bind]; [apply ML | reflexivity].
  - destruct (directG OT A call' reg' mvtab fu env e) as [[c|x]|]; cbn [bind g_dual]; try reflexivity.
    destruct (dual_member A false k); cbn [bind]; [apply M1 | reflexivity].
  - destruct (directG OT A call' reg' mvtab fu env e) as [[c|x]|]; cbn [bind g_dual]; try reflexivity.
    destruct (dual_member A true k); cbn [bind]; [apply M1 | reflexivity].
  - destruct (directG OT A call' reg' mvtab fu env e); cbn [bind]; [apply MN | reflexivity].
  - destruct (directG OT A call' reg' mvtab fu env e) as [[c|x]|]; cbn [bind g_normalized]; try reflexivity.
    rewrite MN. destruct (g_norm call' mvtab (VMv x)); cbn [bind]; [apply MI | reflexivity].
  - rewrite (mapM_ext _ _ args (IH env)).
    destruct (mapM (directG OT A call' reg' mvtab fu env) args); cbn [bind]; [|reflexivity]. rewrite Hrg. reflexivity.
Qed.

(* sanity: with the filter that keeps everything the symbolic run is [direct] over the symbol structure *)
Theorem symbolic_run_nofilter {T} (OT : ops T) A opd mvtab tapetab bodies fuel env e :
  symbolic_run OT A (fun _ r => r) opd mvtab tapetab bodies fuel env e
  = direct OT A opd mvtab tapetab bodies fuel env e.
Proof.
  rewrite directG_direct. unfold symbolic_run. apply directG_ext; [|reflexivity].
  intros op xs. destruct (call_op opd op xs); reflexivity.
Qed.
