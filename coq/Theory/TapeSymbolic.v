(* Theory/TapeSymbolic.v — C11, the route alg.register(symbolic=True)(f).

   alg.register(symbolic=True)(f) is OperatorDict(name, codegen=f, algebra): OperatorDict.__getitem__ makes one
   symbolic MultiVector per argument (one RationalPolynomial variable per stored key), do_codegen runs the plain
   Python function f ONCE on them - every operator of MultiVector goes through OperatorDict.__call__ /
   _call_binary / UnaryOperatorDict.__call__, which evaluate the generated function of the operand keys on the
   symbolic value lists and then apply OperatorDict.filter (drop the coefficients that test zero) - and the
   resulting coefficient expressions are lambdified in canonical key order; a call evaluates them at the values.

   1.  [directG]: the interpreter [direct] of Model/Tape.v with the two places where it touches the table of
       generated functions made parameters: [call] (an operator call) and [reg] (a call of a registered function).
       [directG_direct]: with call = call_op opd and reg = registered .. opd .. it IS [direct] (so nothing about
       MultiVector's members is modelled a second time).
   1b. [symbolic_run]: directG over the symbol structure with call = (call_op opd, then the filter) and
       reg = registered over the symbol structure (Registry.__call__ on symbolic MultiVectors compiles the tape for
       the keys of the symbolic arguments and runs it on the symbolic value lists, no filter).
       [symbolic_run_nofilter]: with the filter that keeps everything it is [direct] over the symbols.
   2.  the simulation, by induction over the run ([sim_directG]), for every symbol structure S with a representation
       invariant Q closed under the operations, every map h : S -> R that is a homomorphism on Q (evaluation at a
       valuation), every filter that only drops stored pairs whose coefficient is mapped to zero, every body:
       whenever the numeric run returns w, the symbolic run returns a value of the same kind whose image under h
       has the coefficients of w ([symbolic_sim]).  Ingredients: naturality of every operator of the table on Q
       (Theory/Natural.v rel_nat1, rel_nat2), their congruence w.r.t. coefficient equality and well-formedness of their
       results (Theory/Tape.v good1/good2), soundness of the filter ([simm_filter]); for calls of registered
       functions a second simulation of recorder run + tape evaluation with DIFFERENT key tuples on the two sides
       ([record_sim], [registered_sim]: the filter thins out the symbolic keys).
   3.  the instance RationalPolynomial / evaluation at any valuation ([symbolic_agree_literals], [symbolic_agree]).
   4.  the call with fresh variables for the stored keys of numeric arguments ([symbolic_call_agrees]).
   5.  a closed instance.   6. a run under no_ext is a run under every ext ([direct_noext_le]).

   NOT covered (no theorem can: poles / F18, or outside the models): inv, div, sqrt, norm, normalized, negative
   powers, `/ number` (float coefficients are outside Model/Poly.v), a nested call of a function that is itself
   registered with symbolic=True, the complete-grade padding of do_codegen in graded mode (the grade-wise filter of
   graded mode IS an instance of the filter hypothesis), simp_func other than the default. *)
From Coq Require Import String List ZArith Bool Lia Permutation Ring_theory Ring Morphisms.
From KV Require Import Model.All Model.Composite Model.Poly Model.Tape Gen.Dunder.
From KV Require Import Theory.WF Theory.Sparse Theory.Product Theory.Ops Theory.OpsWF Theory.Poly Theory.Natural Theory.Tape.
Import ListNotations.
Local Open Scope Z_scope.

(* ================= 1. [direct] with the table abstracted ================= *)
Section G.
  Context {R : Type} (O : ops R).
  Variable A : alg.
  Variable call : string -> list (mv R) -> res (mv R).        (* OperatorDict.__call__ on multivectors *)
  Variable reg : nat -> nat -> list (mv R) -> res (mv R).     (* fuel, k, args: Registry.__call__ of g_k *)
  Variable mvtab : mtable.
  Local Notation val := (@val R).

  Definition g_meth1 (m : string) (v : val) : res val :=
    match v with
    | VNum _ => Err EAttr
    | VMv x =>
        match mlookup m mvtab with
        | Some (op, _, 1%nat) => r <- call op [x] ;; Ok (VMv r)
        | Some _ => Err EType
        | None => Err EAttr
        end
    end.
  Definition g_meth2 (m : string) (v1 v2 : val) : res val :=
    match v1 with
    | VNum _ => Err EAttr
    | VMv x =>
        match mlookup m mvtab with
        | Some (op, sw, 2%nat) =>
            r <- (if sw then call op [as_mv v2; x] else call op [x; as_mv v2]) ;; Ok (VMv r)
        | Some _ => Err EType
        | None => Err EAttr
        end
    end.
  Definition g_prefix (u : prefix) (v : val) : res val :=
    match v with
    | VNum c => match u with PNeg => Ok (VNum (o_neg O c)) | PInvert => Err ENotImpl end
    | VMv _ => g_meth1 (pdunder u) v
    end.
  Definition g_infix (o : infix) (v1 v2 : val) : res val :=
    match v1, v2 with
    | VMv _, _ => g_meth2 (dunder o) v1 v2
    | VNum _, VMv _ => g_meth2 (rdunder o) v2 v1
    | VNum a, VNum b =>
        match o with
        | IAdd => Ok (VNum (o_add O a b)) | ISub => Ok (VNum (o_sub O a b)) | IMul => Ok (VNum (o_mul O a b))
        | _ => Err ENotImpl
        end
    end.
  Definition g_pow (v : val) (n : Z) : res val :=
    match v with
    | VNum _ => Err ENotImpl
    | VMv _ =>
        if n =? 0 then Ok (VMv [(0, o_one O)])
        else
          x <- (if n <? 0 then g_meth1 "inv" v else Ok v) ;;
          pow_loop (Z.to_nat (Z.abs n - 1)) (fun r => g_meth2 "gp" r x) x
    end.
  Definition g_dual (un : bool) (v : val) (k : Model.Codegen.dual_kind) : res val :=
    match v with
    | VNum _ => Err EAttr
    | VMv _ => m <- dual_member A un k ;; g_meth1 m v
    end.
  Definition g_norm (v : val) : res val := n <- g_meth1 "normsq" v ;; g_meth1 "sqrt" n.
  Definition g_normalized (v : val) : res val :=
    match v with
    | VNum _ => Err EAttr
    | VMv _ => n <- g_norm v ;; g_infix IDiv v n
    end.

  Fixpoint directG (fuel : nat) (env : list (mv R)) (e : expr R) {struct fuel} : res val :=
    match fuel with
    | 0%nat => Err EFuel
    | S fu =>
        let dr := directG fu env in
        match e with
        | EArg i => x <- of_opt EIndex (nth_error env i) ;; Ok (VMv x)
        | ENum c => Ok (VNum c)
        | EMeth1 m e1 => v <- dr e1 ;; g_meth1 m v
        | EMeth2 m e1 e2 => v1 <- dr e1 ;; v2 <- dr e2 ;; g_meth2 m v1 v2
        | EPrefix u e1 => v <- dr e1 ;; g_prefix u v
        | EInfix o e1 e2 => v1 <- dr e1 ;; v2 <- dr e2 ;; g_infix o v1 v2
        | EPow e1 n => v <- dr e1 ;; g_pow v n
        | EGrade e1 gs => v <- dr e1 ;; mv_grade O A v gs
        | ECoeff e1 nm => v <- dr e1 ;; mv_getattr O A v nm
        | EDual e1 k => v <- dr e1 ;; g_dual false v k
        | EUndual e1 k => v <- dr e1 ;; g_dual true v k
        | ENorm e1 => v <- dr e1 ;; g_norm v
        | ENormalized e1 => v <- dr e1 ;; g_normalized v
        | ECall k args =>
            vs <- mapM dr args ;;
            m <- reg fu k (map as_mv vs) ;;
            Ok (VMv m)
        end
    end.
End G.

Lemma mapM_ext {X Y} (f g : X -> res Y) l : (forall x, f x = g x) -> mapM f l = mapM g l.
Proof. intros H. induction l as [|x r IH]; cbn [mapM]; [reflexivity|]. rewrite H, IH. reflexivity. Qed.

(* [direct] is [directG] at the table *)
Theorem directG_direct {R} (O : ops R) A (opd : optable R) mvtab tapetab bodies fuel env e :
  direct O A opd mvtab tapetab bodies fuel env e
  = directG O A (call_op opd) (registered O A opd tapetab bodies) mvtab fuel env e.
Proof.
  revert env e. induction fuel as [|fu IH]; intros env e; [reflexivity|].
  destruct e; cbn [direct directG]; rewrite ?IH; try reflexivity.
Qed.

(* the literals of a body; a body with its literals mapped *)
Fixpoint lits {T} (P : T -> Prop) (e : expr T) : Prop :=
  match e with
  | EArg _ => True
  | ENum c => P c
  | EMeth1 _ e1 | EPrefix _ e1 | EPow e1 _ | EGrade e1 _ | ECoeff e1 _ | EDual e1 _ | EUndual e1 _
  | ENorm e1 | ENormalized e1 => lits P e1
  | EMeth2 _ e1 e2 | EInfix _ e1 e2 => lits P e1 /\ lits P e2
  | ECall _ args => (fix go (l : list (expr T)) : Prop := match l with [] => True | a :: r => lits P a /\ go r end) args
  end.
Fixpoint emap {T U} (g : T -> U) (e : expr T) : expr U :=
  match e with
  | EArg i => EArg i
  | ENum c => ENum (g c)
  | EMeth1 m e1 => EMeth1 m (emap g e1)
  | EMeth2 m e1 e2 => EMeth2 m (emap g e1) (emap g e2)
  | EPrefix u e1 => EPrefix u (emap g e1)
  | EInfix o e1 e2 => EInfix o (emap g e1) (emap g e2)
  | EPow e1 n => EPow (emap g e1) n
  | EGrade e1 gs => EGrade (emap g e1) gs
  | ECoeff e1 nm => ECoeff (emap g e1) nm
  | EDual e1 k => EDual (emap g e1) k
  | EUndual e1 k => EUndual (emap g e1) k
  | ENorm e1 => ENorm (emap g e1)
  | ENormalized e1 => ENormalized (emap g e1)
  | ECall k args => ECall k (map (emap g) args)
  end.
Lemma lits_call {T} (P : T -> Prop) k args : lits P (ECall k args) <-> Forall (lits P) args.
Proof.
  cbn [lits]. induction args as [|a r IH]; [split; [constructor | exact (fun _ => I)]|].
  split; [intros [H1 H2]; constructor; [exact H1 | apply IH; exact H2] | intros H; inversion H; subst; split; [assumption | apply IH; assumption]].
Qed.

(* induction over bodies (the arguments of a call are a nested list) *)
Section ExprInd.
  Context {T : Type} (P : expr T -> Prop).
  Hypothesis HArg : forall i, P (EArg i).
  Hypothesis HNum : forall c, P (ENum c).
  Hypothesis HMeth1 : forall m e, P e -> P (EMeth1 m e).
  Hypothesis HMeth2 : forall m e1 e2, P e1 -> P e2 -> P (EMeth2 m e1 e2).
  Hypothesis HPrefix : forall u e, P e -> P (EPrefix u e).
  Hypothesis HInfix : forall o e1 e2, P e1 -> P e2 -> P (EInfix o e1 e2).
  Hypothesis HPow : forall e n, P e -> P (EPow e n).
  Hypothesis HGrade : forall e gs, P e -> P (EGrade e gs).
  Hypothesis HCoeff : forall e nm, P e -> P (ECoeff e nm).
  Hypothesis HDual : forall e k, P e -> P (EDual e k).
  Hypothesis HUndual : forall e k, P e -> P (EUndual e k).
  Hypothesis HNorm : forall e, P e -> P (ENorm e).
  Hypothesis HNormalized : forall e, P e -> P (ENormalized e).
  Hypothesis HCall : forall k args, Forall P args -> P (ECall k args).
  Fixpoint expr_nested_ind (e : expr T) : P e :=
    match e with
    | EArg i => HArg i
    | ENum c => HNum c
    | EMeth1 m e1 => HMeth1 m e1 (expr_nested_ind e1)
    | EMeth2 m e1 e2 => HMeth2 m e1 e2 (expr_nested_ind e1) (expr_nested_ind e2)
    | EPrefix u e1 => HPrefix u e1 (expr_nested_ind e1)
    | EInfix o e1 e2 => HInfix o e1 e2 (expr_nested_ind e1) (expr_nested_ind e2)
    | EPow e1 n => HPow e1 n (expr_nested_ind e1)
    | EGrade e1 gs => HGrade e1 gs (expr_nested_ind e1)
    | ECoeff e1 nm => HCoeff e1 nm (expr_nested_ind e1)
    | EDual e1 k => HDual e1 k (expr_nested_ind e1)
    | EUndual e1 k => HUndual e1 k (expr_nested_ind e1)
    | ENorm e1 => HNorm e1 (expr_nested_ind e1)
    | ENormalized e1 => HNormalized e1 (expr_nested_ind e1)
    | ECall k args =>
        HCall k args ((fix go (l : list (expr T)) : Forall P l :=
                         match l with [] => Forall_nil P | a :: r => Forall_cons a (expr_nested_ind a) (go r) end) args)
    end.
End ExprInd.

Lemma emap_emap {T U V} (g : T -> U) (g' : U -> V) (e : expr T) : emap g' (emap g e) = emap (fun c => g' (g c)) e.
Proof.
  induction e using expr_nested_ind; cbn [emap]; try congruence.
  f_equal. rewrite map_map. apply map_ext_Forall. exact H.
Qed.
Lemma emap_ext {T U} (g g' : T -> U) (e : expr T) : (forall c, g c = g' c) -> emap g e = emap g' e.
Proof.
  intros Hg. induction e using expr_nested_ind; cbn [emap]; try congruence.
  f_equal. apply map_ext_Forall. exact H.
Qed.
Lemma lits_emap {T U} (g : T -> U) (P : U -> Prop) (e : expr T) : (forall c, P (g c)) -> lits P (emap g e).
Proof.
  intros Hg. induction e using expr_nested_ind; cbn [emap lits]; auto.
  apply (proj2 (lits_call P k (map (emap g) args))). apply Forall_map. exact H.
Qed.

(* ================= 1b. the symbolic run ================= *)
(* do_codegen(f, *symbolic multivectors): MultiVector's members as in [direct]; an operator call is
   OperatorDict.__call__ on symbolic operands = the generated function on the symbolic value lists followed by
   the filter [F operands result] (OperatorDict.filter; it is applied when an operand is symbolic, hence the
   operands as a parameter); a call of a registered function is Registry.__call__ on symbolic multivectors = the
   compiled tape on the symbolic value lists, no filter *)
Definition symbolic_run {T} (OT : ops T) (A : alg) (F : list (mv T) -> mv T -> mv T) (opd : optable T)
    (mvtab tapetab : mtable) (bodies : list (expr T)) : nat -> list (mv T) -> expr T -> res (@val T) :=
  directG OT A (fun op xs => r <- call_op opd op xs ;; Ok (F xs r)) (registered OT A opd tapetab bodies) mvtab.

Lemma directG_ext {T} (OT : ops T) A call call' reg reg' mvtab :
  (forall op xs, call op xs = call' op xs) -> (forall fu k xs, reg fu k xs = reg' fu k xs) ->
  forall fuel env e, directG OT A call reg mvtab fuel env e = directG OT A call' reg' mvtab fuel env e.
Proof.
  intros Hcl Hrg.
  assert (M1 : forall m v, g_meth1 call mvtab m v = g_meth1 call' mvtab m v).
  { intros m [c|x]; cbn [g_meth1]; [reflexivity|]. destruct (mlookup m mvtab) as [[[op sw] [|[|ar]]]|]; try reflexivity.
    rewrite Hcl. reflexivity. }
  assert (M2 : forall m v1 v2, g_meth2 call mvtab m v1 v2 = g_meth2 call' mvtab m v1 v2).
  { intros m [c|x] v2; cbn [g_meth2]; [reflexivity|]. destruct (mlookup m mvtab) as [[[op sw] [|[|[|ar]]]]|]; try reflexivity.
    destruct sw; rewrite Hcl; reflexivity. }
  assert (MI : forall o v1 v2, g_infix OT call mvtab o v1 v2 = g_infix OT call' mvtab o v1 v2).
  { intros o [a|x] [b|y]; cbn [g_infix]; try reflexivity; apply M2. }
  assert (MN : forall v, g_norm call mvtab v = g_norm call' mvtab v).
  { intros v. unfold g_norm. rewrite M1. destruct (g_meth1 call' mvtab "normsq" v); cbn [bind]; [apply M1 | reflexivity]. }
  assert (ML : forall n x acc, pow_loop n (fun r => g_meth2 call mvtab "gp" r x) acc = pow_loop n (fun r => g_meth2 call' mvtab "gp" r x) acc).
  { induction n as [|n IHn]; intros x acc; cbn [pow_loop]; [reflexivity|]. rewrite M2.
    destruct (g_meth2 call' mvtab "gp" acc x); cbn [bind]; [apply IHn | reflexivity]. }
  induction fuel as [|fu IH]; intros env e; [reflexivity|].
  destruct e; cbn [directG]; rewrite ?IH; try reflexivity.
  - destruct (directG OT A call' reg' mvtab fu env e); cbn [bind]; [apply M1 | reflexivity].
  - destruct (directG OT A call' reg' mvtab fu env e1); cbn [bind]; [|reflexivity].
    destruct (directG OT A call' reg' mvtab fu env e2); cbn [bind]; [apply M2 | reflexivity].
  - destruct (directG OT A call' reg' mvtab fu env e) as [[c|x]|]; cbn [bind g_prefix]; try reflexivity. apply M1.
  - destruct (directG OT A call' reg' mvtab fu env e1); cbn [bind]; [|reflexivity].
    destruct (directG OT A call' reg' mvtab fu env e2); cbn [bind]; [apply MI | reflexivity].
  - destruct (directG OT A call' reg' mvtab fu env e) as [[c|x]|]; cbn [bind g_pow]; try reflexivity.
    destruct (n =? 0); [reflexivity|]. destruct (n <? 0); cbn [bind]; [|apply ML].
    rewrite M1. destruct (g_meth1 call' mvtab "inv" (VMv x)); cbn [bind]; [apply ML | reflexivity].
  - destruct (directG OT A call' reg' mvtab fu env e) as [[c|x]|]; cbn [bind g_dual]; try reflexivity.
    destruct (dual_member A false k); cbn [bind]; [apply M1 | reflexivity].
  - destruct (directG OT A call' reg' mvtab fu env e) as [[c|x]|]; cbn [bind g_dual]; try reflexivity.
    destruct (dual_member A true k); cbn [bind]; [apply M1 | reflexivity].
  - destruct (directG OT A call' reg' mvtab fu env e); cbn [bind]; [apply MN | reflexivity].
  - destruct (directG OT A call' reg' mvtab fu env e) as [[c|x]|]; cbn [bind g_normalized]; try reflexivity.
    rewrite MN. destruct (g_norm call' mvtab (VMv x)); cbn [bind]; [apply MI | reflexivity].
  - rewrite (mapM_ext _ _ args (IH env)).
    destruct (mapM (directG OT A call' reg' mvtab fu env) args); cbn [bind]; [|reflexivity]. rewrite Hrg. reflexivity.
Qed.

(* sanity: with the filter that keeps everything the symbolic run is [direct] over the symbol structure *)
Theorem symbolic_run_nofilter {T} (OT : ops T) A opd mvtab tapetab bodies fuel env e :
  symbolic_run OT A (fun _ r => r) opd mvtab tapetab bodies fuel env e
  = direct OT A opd mvtab tapetab bodies fuel env e.
Proof.
  rewrite directG_direct. unfold symbolic_run. apply directG_ext; [|reflexivity].
  intros op xs. destruct (call_op opd op xs); reflexivity.
Qed.

(* a call of a polynomial operator of the table returns the model operator, for every coefficient structure *)
Lemma unit_hom_any {T} (OT : ops T) : ops_hom OT Uops (fun _ : T => tt).
Proof. constructor; reflexivity. Qed.
Lemma map_tt_any {T} (x : mv T) : map_mv (fun _ : T => tt) x = ksym (keys x).
Proof. unfold map_mv, ksym, keys. rewrite map_map. reflexivity. Qed.
Lemma std_call2_any {T} (OT : ops T) A ext op f x y : natural2 f -> sassoc op poly2_table = Some f ->
  call_op (std_opd OT A ext) op [x; y] = Ok (f T OT A x y).
Proof.
  intros Hn Hs. unfold call_op, std_opd. cbn [map]. rewrite Hs. cbn [bind gen2 fst snd].
  rewrite !length_vals, !length_keys, !Nat.eqb_refl. cbn [andb bind]. rewrite !combine_keys_vals.
  rewrite <- (map_tt_any x), <- (map_tt_any y), <- (Hn T unit OT Uops _ (unit_hom_any OT) A x y), keys_map_mv.
  rewrite combine_keys_vals. reflexivity.
Qed.
Lemma std_call1_any {T} (OT : ops T) A ext op f x : natural1 f -> sassoc op poly1_table = Some f ->
  call_op (std_opd OT A ext) op [x] = Ok (f T OT A x).
Proof.
  intros Hn Hs. unfold call_op, std_opd. cbn [map].
  assert (Hp : String.eqb op "polarity" = false).
  { destruct (String.eqb_spec op "polarity") as [E|E]; [|reflexivity]. subst op. vm_compute in Hs. discriminate. }
  rewrite Hp, Hs. cbn [bind gen1 fst snd].
  rewrite !length_vals, !length_keys, !Nat.eqb_refl. cbn [bind]. rewrite !combine_keys_vals.
  rewrite <- (map_tt_any x), <- (Hn T unit OT Uops _ (unit_hom_any OT) A x), keys_map_mv.
  rewrite combine_keys_vals. reflexivity.
Qed.
Lemma std_call2_ext {T} (OT : ops T) A ext op x y : sassoc op poly2_table = None ->
  call_op (std_opd OT A ext) op [x; y] = call_op ext op [x; y].
Proof. intros Hs. unfold call_op, std_opd. cbn [map]. rewrite Hs. reflexivity. Qed.
Lemma std_call1_ext {T} (OT : ops T) A ext op x : String.eqb op "polarity" = false -> sassoc op poly1_table = None ->
  call_op (std_opd OT A ext) op [x] = call_op ext op [x].
Proof. intros Hp Hs. unfold call_op, std_opd. cbn [map]. rewrite Hp, Hs. reflexivity. Qed.

(* ================= 2. the simulation ================= *)
Ltac spl := repeat (match goal with |- _ /\ _ => split end).
Section Sim.
  (* the symbol structure: coefficients S, representation invariant Q closed under the operations *)
  Variable S : Type.
  Variables (sO sI : S) (sadd smul ssub : S -> S -> S) (sopp : S -> S).
  Local Notation OS := (mkOps S sadd ssub smul sopp sO sI).
  Variable Q : S -> Prop.
  Hypothesis Hc : ops_closed OS Q.
  (* the numbers: a commutative ring *)
  Variable R : Type.
  Variables (rO rI : R) (radd rmul rsub : R -> R -> R) (ropp : R -> R).
  Hypothesis Rth : ring_theory rO rI radd rmul rsub ropp (@eq R).
  Add Ring SimRing : Rth.
  Local Notation O := (mkOps R radd rsub rmul ropp rO rI).
  Local Notation "x == y" := (Sparse.equiv rO rI radd rmul rsub ropp x y) (at level 70, no associativity).
  (* evaluation: a homomorphism on Q *)
  Variable h : S -> R.
  Hypothesis Hh : ops_hom_on OS O h Q.
  Local Notation mh := (map_mv h).
  Variable A : alg.
  Hypothesis Hwf : wf_alg A = true.
  Let Hnd : NoDup (canon_keys A) := sh_nodup A (wf_sign_hyps A Hwf).

  Definition simc (s : S) (r : R) : Prop := Q s /\ h s = r.
  (* operands: coefficients in Q, pairwise distinct stored keys, the evaluated coefficients are the numeric ones *)
  Definition simw (x : mv S) (y : mv R) : Prop :=
    all_coeffs Q x /\ NoDup (keys x) /\ NoDup (keys y) /\ mh x == y.
  Definition simm (x : mv S) (y : mv R) : Prop :=
    simw x y /\ incl (keys x) (canon_keys A) /\ incl (keys y) (canon_keys A).
  Definition simv (v : @val S) (w : @val R) : Prop :=
    match v, w with
    | VNum s, VNum r => simc s r
    | VMv x, VMv y => simm x y
    | _, _ => False
    end.

  Lemma simm_wfm x y : simm x y -> wfm S A x /\ wfm R A y.
  Proof. intros [[_ [H1 [H2 _]]] [H3 H4]]. split; split; assumption. Qed.

  Lemma simc_zero : simc sO rO. Proof. split; [apply (cl_zero _ _ Hc) | apply (homon_zero _ _ _ _ Hh)]. Qed.
  Lemma simc_one : simc sI rI. Proof. split; [apply (cl_one _ _ Hc) | apply (homon_one _ _ _ _ Hh)]. Qed.
  Lemma simc_add a b a' b' : simc a a' -> simc b b' -> simc (sadd a b) (radd a' b').
  Proof. intros [Qa <-] [Qb <-]. split; [apply (cl_add _ _ Hc) | apply (homon_add _ _ _ _ Hh)]; assumption. Qed.
  Lemma simc_sub a b a' b' : simc a a' -> simc b b' -> simc (ssub a b) (rsub a' b').
  Proof. intros [Qa <-] [Qb <-]. split; [apply (cl_sub _ _ Hc) | apply (homon_sub _ _ _ _ Hh)]; assumption. Qed.
  Lemma simc_mul a b a' b' : simc a a' -> simc b b' -> simc (smul a b) (rmul a' b').
  Proof. intros [Qa <-] [Qb <-]. split; [apply (cl_mul _ _ Hc) | apply (homon_mul _ _ _ _ Hh)]; assumption. Qed.
  Lemma simc_neg a a' : simc a a' -> simc (sopp a) (ropp a').
  Proof. intros [Qa <-]. split; [apply (cl_neg _ _ Hc) | apply (homon_neg _ _ _ _ Hh)]; assumption. Qed.

  Lemma simm_scalar s r : simc s r -> simm [(0, s)] [(0, r)].
  Proof.
    intros [Qs <-]. pose proof (zero_canon A Hwf) as H0.
    assert (Hn : NoDup [0]) by (constructor; [intros [] | constructor]).
    assert (Hi : incl [0] (canon_keys A)) by (intros k [<-|[]]; exact H0).
    split; [|split; exact Hi]. split; [constructor; [exact Qs | constructor]|]. split; [exact Hn|]. split; [exact Hn|].
    intros K. reflexivity.
  Qed.
  Lemma simv_as_mv v w : simv v w -> simm (as_mv v) (as_mv w).
  Proof. destruct v as [s|x], w as [r|y]; cbn [simv as_mv]; try contradiction; [apply simm_scalar | trivial]. Qed.

  Lemma coeff_Q K (x : mv S) : all_coeffs Q x -> Q (coeff OS K x).
  Proof.
    induction x as [|[k v] r IH]; intros H; [apply (cl_zero _ _ Hc)|].
    inversion H as [|? ? Hv Hr]; subst. rewrite (coeff_cons S sO sI sadd smul ssub sopp).
    destruct (Z.eqb k K); [exact Hv | apply IH; exact Hr].
  Qed.
  Lemma simw_coeff K x y : simw x y -> simc (coeff OS K x) (coeff O K y).
  Proof.
    intros [Hq [_ [_ He]]]. split; [apply coeff_Q; exact Hq|].
    rewrite <- (He K). symmetry. apply (rel_coeff OS O h Q Hc Hh K x Hq).
  Qed.

  (* the operators of the table *)
  Lemma simw_op2 op f x1 y1 x2 y2 : sassoc op poly2_table = Some f -> simw x1 y1 -> simw x2 y2 ->
    simm (f S OS A x1 x2) (f R O A y1 y2).
  Proof.
    intros Hs [Hq1 [Hn1 [Hm1 He1]]] [Hq2 [Hn2 [Hm2 He2]]].
    pose proof (poly2_good R rO rI radd rmul rsub ropp Rth A Hwf op f Hs) as G.
    pose proof (g2_nat _ _ _ _ _ _ _ _ f G) as Gn.
    split; [|split; apply (g2_wf _ _ _ _ _ _ _ _ f G)].
    split; [apply (rel_closed2 OS Q Hc f Gn); assumption|].
    split; [apply (g2_wf _ _ _ _ _ _ _ _ f G)|]. split; [apply (g2_wf _ _ _ _ _ _ _ _ f G)|].
    rewrite (rel_nat2 OS O h Q Hc Hh f Gn A x1 x2 Hq1 Hq2).
    apply (g2_congr _ _ _ _ _ _ _ _ f G); try assumption; rewrite keys_map_mv; assumption.
  Qed.
  Lemma simw_op1 op f x y : sassoc op poly1_table = Some f -> simw x y -> simm (f S OS A x) (f R O A y).
  Proof.
    intros Hs [Hq1 [Hn1 [Hm1 He1]]].
    pose proof (poly1_good R rO rI radd rmul rsub ropp Rth A Hwf op f Hs) as G.
    pose proof (g1_nat _ _ _ _ _ _ _ _ f G) as Gn.
    split; [|split; apply (g1_wf _ _ _ _ _ _ _ _ f G)].
    split; [apply (rel_closed1 OS Q Hc f Gn); assumption|].
    split; [apply (g1_wf _ _ _ _ _ _ _ _ f G)|]. split; [apply (g1_wf _ _ _ _ _ _ _ _ f G)|].
    rewrite (rel_nat1 OS O h Q Hc Hh f Gn A x Hq1).
    apply (g1_congr _ _ _ _ _ _ _ _ f G); try assumption; rewrite keys_map_mv; assumption.
  Qed.
  Lemma simw_pss : simw (pss_mv OS A) (pss_mv O A).
  Proof.
    unfold pss_mv. cbn [o_one]. assert (Hn : NoDup [pss_key A]) by (constructor; [intros [] | constructor]).
    split; [constructor; [apply (cl_one _ _ Hc) | constructor]|]. split; [exact Hn|]. split; [exact Hn|].
    intros K. unfold map_mv. cbn [map fst snd]. pose proof (homon_one _ _ _ _ Hh) as E. cbn [o_one] in E. rewrite E. reflexivity.
  Qed.
  Lemma simm_simw x y : simm x y -> simw x y. Proof. intros [H _]. exact H. Qed.

  Lemma simw_polarity x y m : simw x y -> polarity O A y = Ok m ->
    exists m', polarity OS A x = Ok m' /\ simm m' m.
  Proof.
    intros Hxy. unfold polarity.
    destruct (Z.eqb (sgn A (pss_key A) (pss_key A)) (-1)).
    - intros H. inversion H; subst m. eexists. split; [reflexivity|].
      apply (simw_op2 "gp" (@gp)); [reflexivity | | exact simw_pss].
      apply simm_simw. apply (simw_op1 "neg" (@neg)); [reflexivity | exact Hxy].
    - destruct (Z.eqb (sgn A (pss_key A) (pss_key A)) 1).
      + intros H. inversion H; subst m. eexists. split; [reflexivity|].
        apply (simw_op2 "gp" (@gp)); [reflexivity | exact Hxy | exact simw_pss].
      + destruct (Z.eqb (sgn A (pss_key A) (pss_key A)) 0); discriminate.
  Qed.

  Section Ext.
  (* the operators outside the table: any pair of tables that simulate each other *)
  Variables (extS : optable S) (extN : optable R).
  Definition ext_sim : Prop := forall op xs ys m, Forall2 simm xs ys -> call_op extN op ys = Ok m ->
    exists m', call_op extS op xs = Ok m' /\ simm m' m.
  Hypothesis Hext : ext_sim.

  Lemma call_op_other {T} (OT : ops T) ext op (xs : list (mv T)) :
    match xs with [_] | [_; _] => False | _ => True end ->
    call_op (std_opd OT A ext) op xs = call_op ext op xs.
  Proof. intros H. destruct xs as [|x [|y [|z r]]]; try contradiction; reflexivity. Qed.

  Lemma call_std_sim op xs ys m : Forall2 simm xs ys -> call_op (std_opd O A extN) op ys = Ok m ->
    exists m', call_op (std_opd OS A extS) op xs = Ok m' /\ simm m' m.
  Proof.
    intros HF. revert m.
    destruct HF as [|x1 y1 xs ys H1 HF]; intros m H.
    { rewrite call_op_other in H by exact I. rewrite call_op_other by exact I. apply (Hext op [] [] m); [constructor | exact H]. }
    revert m H. destruct HF as [|x2 y2 xs ys H2 HF]; intros m H.
    { (* unary *)
      destruct (String.eqb op "polarity") eqn:Hp.
      - apply String.eqb_eq in Hp. subst op.
        rewrite (std_call_polarity R rO rI radd rmul rsub ropp A extN y1) in H.
        rewrite (std_call_polarity S sO sI sadd smul ssub sopp A extS x1).
        apply (simw_polarity x1 y1 m (simm_simw _ _ H1) H).
      - destruct (sassoc op poly1_table) as [f|] eqn:Hs.
        + pose proof (g1_nat _ _ _ _ _ _ _ _ f (poly1_good R rO rI radd rmul rsub ropp Rth A Hwf op f Hs)) as Gn.
          rewrite (std_call1_any O A extN op f y1 Gn Hs) in H. inversion H; subst m.
          rewrite (std_call1_any OS A extS op f x1 Gn Hs). eexists. split; [reflexivity|].
          apply (simw_op1 op f); [exact Hs | apply simm_simw; exact H1].
        + rewrite (std_call1_ext O A extN op y1 Hp Hs) in H. rewrite (std_call1_ext OS A extS op x1 Hp Hs).
          apply (Hext op [x1] [y1] m); [constructor; [exact H1 | constructor] | exact H]. }
    revert m H. destruct HF as [|x3 y3 xs ys H3 HF]; intros m H.
    { (* binary *)
      destruct (sassoc op poly2_table) as [f|] eqn:Hs.
      - pose proof (g2_nat _ _ _ _ _ _ _ _ f (poly2_good R rO rI radd rmul rsub ropp Rth A Hwf op f Hs)) as Gn.
        rewrite (std_call2_any O A extN op f y1 y2 Gn Hs) in H. inversion H; subst m.
        rewrite (std_call2_any OS A extS op f x1 x2 Gn Hs). eexists. split; [reflexivity|].
        apply (simw_op2 op f); [exact Hs | apply simm_simw; exact H1 | apply simm_simw; exact H2].
      - rewrite (std_call2_ext O A extN op y1 y2 Hs) in H. rewrite (std_call2_ext OS A extS op x1 x2 Hs).
        apply (Hext op [x1; x2] [y1; y2] m); [constructor; [exact H1 | constructor; [exact H2 | constructor]] | exact H]. }
    rewrite call_op_other in H by exact I. rewrite call_op_other by exact I.
    apply (Hext op (x1 :: x2 :: x3 :: xs) (y1 :: y2 :: y3 :: ys) m); [constructor; [exact H1 | constructor; [exact H2 | constructor; [exact H3 | exact HF]]] | exact H].
  Qed.
  End Ext.

  (* ---------- OperatorDict.filter: only stored pairs whose coefficient evaluates to zero are dropped ---------- *)
  Lemma simm_filter (p : Z * S -> bool) x y :
    (forall kv, In kv x -> p kv = false -> h (snd kv) = rO) -> simm x y -> simm (filter p x) y.
  Proof.
    intros Hp [[Hq [Hn [Hm He]]] [Hi Hj]].
    assert (Hk : forall K, In K (keys (filter p x)) -> In K (keys x)).
    { intros K HK. unfold keys in *. apply in_map_iff in HK. destruct HK as [kv [E HK]]. apply filter_In in HK.
      apply in_map_iff. exists kv. split; [exact E | apply HK]. }
    split; [|split; [intros K HK; apply Hi, Hk, HK | exact Hj]].
    split; [unfold all_coeffs in *; rewrite Forall_forall in *; intros kv Hkv; apply filter_In in Hkv; apply Hq, Hkv|].
    split; [|split; [exact Hm|]].
    - clear -Hn Hk. induction x as [|[k v] r IH]; [constructor|]. cbn [filter].
      cbn [keys map fst] in Hn. inversion Hn as [|? ? Hk1 Hr]; subst.
      assert (Hr' : NoDup (keys (filter p r))).
      { apply IH; [exact Hr|]. intros K HK. unfold keys in *. apply in_map_iff in HK. destruct HK as [kv [E HK]].
        apply filter_In in HK. apply in_map_iff. exists kv. split; [exact E | apply HK]. }
      destruct (p (k, v)); [|exact Hr']. cbn [keys map fst]. constructor; [|exact Hr'].
      intros Hin. apply Hk1. unfold keys in *. apply in_map_iff in Hin. destruct Hin as [kv [E HK]].
      apply filter_In in HK. apply in_map_iff. exists kv. split; [exact E | apply HK].
    - intros K. rewrite <- (He K). clear -Hp Hn. induction x as [|[k v] r IH]; [reflexivity|].
      cbn [keys map fst] in Hn. inversion Hn as [|? ? Hk1 Hr]; subst. cbn [filter].
      assert (IH' : coeff O K (mh (filter p r)) = coeff O K (mh r)).
      { apply IH; [|exact Hr]. intros kv Hkv. apply Hp. right. exact Hkv. }
      destruct (p (k, v)) eqn:Ep.
      + unfold map_mv in *. cbn [map fst snd]. rewrite !(coeff_cons R rO rI radd rmul rsub ropp). rewrite IH'. reflexivity.
      + rewrite IH'. unfold map_mv at 2. cbn [map fst snd]. rewrite (coeff_cons R rO rI radd rmul rsub ropp).
        destruct (Z.eqb k K) eqn:E; [|reflexivity]. apply Z.eqb_eq in E. subst K.
        pose proof (Hp (k, v) (or_introl eq_refl) Ep) as Hz. cbn [snd] in Hz. rewrite Hz.
        apply (coeff_notin R rO rI radd rmul rsub ropp). fold (map_mv h r). rewrite keys_map_mv. exact Hk1.
  Qed.

  (* ---------- grade selection ---------- *)
  Lemma sim_grade gs v w w' : simv v w -> mv_grade O A w gs = Ok w' ->
    exists v', mv_grade OS A v gs = Ok v' /\ simv v' w'.
  Proof.
    destruct v as [s|x], w as [r|y]; cbn [simv]; try contradiction; intros Hxy H; [discriminate|].
    cbn [mv_grade] in *. unfold grade_sel in *. destruct (indices_for_grades A gs) as [ks|e] eqn:Hks; [|discriminate].
    cbn [bind] in *. inversion H; subst w'. clear H. eexists. split; [reflexivity|]. cbn [simv].
    fold (select sO sI sadd smul ssub sopp ks x). fold (select rO rI radd rmul rsub ropp ks y).
    destruct Hxy as [[Hq [Hn [Hm He]]] [Hi Hj]].
    pose proof (grades_nodup A Hwf gs ks Hks) as Hnk.
    assert (HqS : all_coeffs Q (select sO sI sadd smul ssub sopp ks x)).
    { unfold select, all_coeffs. clear Hnk Hks. induction ks as [|k ks IH]; [constructor|]. cbn [flat_map].
      apply Forall_app. split; [|exact IH]. destruct (zin k (keys x)); [|constructor].
      constructor; [apply coeff_Q; exact Hq | constructor]. }
    split; [|split].
    - split; [exact HqS|]. rewrite !keys_select. split; [apply NoDup_filter; exact Hnk|]. split; [apply NoDup_filter; exact Hnk|].
      intros K. rewrite (rel_coeff OS O h Q Hc Hh K _ HqS). rewrite !coeff_select.
      pose proof (simw_coeff K x y (conj Hq (conj Hn (conj Hm He)))) as [_ Ec].
      destruct (zin K ks); cbn [andb]; [|apply (homon_zero _ _ _ _ Hh)].
      destruct (zin K (keys x)) eqn:Ex, (zin K (keys y)) eqn:Ey; try exact Ec.
      + rewrite Ec. apply (coeff_notin R rO rI radd rmul rsub ropp). apply zin_false_iff. exact Ey.
      + rewrite <- Ec. rewrite (coeff_notin S sO sI sadd smul ssub sopp K x); [reflexivity | apply zin_false_iff; exact Ex].
      + apply (homon_zero _ _ _ _ Hh).
    - rewrite keys_select. intros K HK. apply filter_In in HK. apply Hi. apply zin_true_iff. apply HK.
    - rewrite keys_select. intros K HK. apply filter_In in HK. apply Hj. apply zin_true_iff. apply HK.
  Qed.

  (* ---------- coefficient access ---------- *)
  Lemma getattr_val {T} (tO tI : T) (tadd tmul tsub : T -> T -> T) (topp : T -> T) (x : mv T) nm :
    NoDup (keys x) ->
    mv_getattr (mkOps T tadd tsub tmul topp tO tI) A (VMv x) nm =
    Ok (VNum (let '(c, swaps) := blade2canon A nm in
              match c with
              | None => tO
              | Some cn => match canon2bin A cn with
                           | None => tO
                           | Some b => if zin b (keys x)
                                       then (if Z.even swaps then coeff (mkOps T tadd tsub tmul topp tO tI) b x
                                             else topp (coeff (mkOps T tadd tsub tmul topp tO tI) b x))
                                       else tO
                           end
              end)).
  Proof.
    intros Hn. cbn [mv_getattr]. destruct (blade2canon A nm) as [[cn|] swaps]; [|reflexivity].
    destruct (canon2bin A cn) as [b|]; [|reflexivity].
    destruct (zindex b (keys x)) as [idx|] eqn:Hz.
    - destruct (idx_value T b (keys x) idx (vals x) Hz) as [v0 [Hv0 Hin0]]; [rewrite length_vals, length_keys; reflexivity|].
      rewrite combine_keys_vals in Hin0. rewrite Hv0.
      assert (Hin : zin b (keys x) = true).
      { apply zin_true_iff. unfold keys. apply in_map_iff. exists (b, v0). split; [reflexivity | exact Hin0]. }
      rewrite Hin. rewrite (coeff_in T tO tI tadd tmul tsub topp b v0 x Hn Hin0). cbn [o_neg]. reflexivity.
    - apply zindex_none in Hz. assert (Hin : zin b (keys x) = false) by (apply zin_false_iff; exact Hz).
      rewrite Hin. reflexivity.
  Qed.
  Lemma ropp_zero : ropp rO = rO. Proof. ring. Qed.
  Lemma sim_getattr nm v w w' : simv v w -> mv_getattr O A w nm = Ok w' ->
    exists v', mv_getattr OS A v nm = Ok v' /\ simv v' w'.
  Proof.
    destruct v as [s|x], w as [r|y]; cbn [simv]; try contradiction; intros Hxy H; [discriminate|].
    pose proof (simm_simw _ _ Hxy) as Hw. destruct Hw as [Hq [Hn [Hm He]]].
    rewrite (getattr_val rO rI radd rmul rsub ropp y nm Hm) in H. inversion H; subst w'. clear H.
    rewrite (getattr_val sO sI sadd smul ssub sopp x nm Hn). eexists. split; [reflexivity|]. cbn [simv].
    destruct (blade2canon A nm) as [[cn|] swaps]; [|exact simc_zero].
    destruct (canon2bin A cn) as [b|]; [|exact simc_zero].
    pose proof (simw_coeff b x y (simm_simw _ _ Hxy)) as Hcb.
    assert (Hcase : forall s r, simc s r -> simc (if Z.even swaps then s else sopp s) (if Z.even swaps then r else ropp r)).
    { intros s r Hsr. destruct (Z.even swaps); [exact Hsr | apply simc_neg; exact Hsr]. }
    destruct (zin b (keys x)) eqn:Ex, (zin b (keys y)) eqn:Ey.
    - apply Hcase. exact Hcb.
    - rewrite (coeff_notin R rO rI radd rmul rsub ropp b y) in Hcb by (apply zin_false_iff; exact Ey).
      apply Hcase in Hcb. destruct (Z.even swaps); [exact Hcb | rewrite ropp_zero in Hcb; exact Hcb].
    - rewrite (coeff_notin S sO sI sadd smul ssub sopp b x) in Hcb by (apply zin_false_iff; exact Ex).
      destruct Hcb as [_ Hcb]. pose proof (homon_zero _ _ _ _ Hh) as Hz0. cbn [o_zero] in Hz0. rewrite Hz0 in Hcb.
      split; [apply (cl_zero _ _ Hc)|]. rewrite Hz0, <- Hcb.
      destruct (Z.even swaps); [reflexivity | symmetry; apply ropp_zero].
    - exact simc_zero.
  Qed.

  Section Gen.
  (* ---------- the members that only call operators: any pair of call functions that simulate each other ---------- *)
  Variable mvtab : mtable.
  Variable callS : string -> list (mv S) -> res (mv S).
  Variable callN : string -> list (mv R) -> res (mv R).
  Hypothesis Hcall : forall op xs ys m, Forall2 simm xs ys -> callN op ys = Ok m ->
    exists m', callS op xs = Ok m' /\ simm m' m.

  Definition step1 (FS : @val S -> res (@val S)) (FN : @val R -> res (@val R)) : Prop :=
    forall v w w', simv v w -> FN w = Ok w' -> exists v', FS v = Ok v' /\ simv v' w'.
  Definition step2 (FS : @val S -> @val S -> res (@val S)) (FN : @val R -> @val R -> res (@val R)) : Prop :=
    forall v1 v2 w1 w2 w', simv v1 w1 -> simv v2 w2 -> FN w1 w2 = Ok w' -> exists v', FS v1 v2 = Ok v' /\ simv v' w'.

  Lemma sim_meth1 m : step1 (g_meth1 callS mvtab m) (g_meth1 callN mvtab m).
  Proof.
    intros v w w' Hvw H. destruct v as [s|x], w as [r|y]; cbn [simv] in Hvw; try contradiction; [discriminate|].
    cbn [g_meth1] in *. destruct (mlookup m mvtab) as [[[op sw] [|[|ar]]]|]; try discriminate.
    inv_bindn H as r Hr. inversion H; subst w'.
    destruct (Hcall op [x] [y] r) as [r' [Hr' Hs]]; [constructor; [exact Hvw | constructor] | exact Hr|].
    rewrite Hr'. cbn [bind]. eexists. split; [reflexivity | exact Hs].
  Qed.
  Lemma sim_meth2 m : step2 (g_meth2 callS mvtab m) (g_meth2 callN mvtab m).
  Proof.
    intros v1 v2 w1 w2 w' H1 H2 H. destruct v1 as [s|x], w1 as [r|y]; cbn [simv] in H1; try contradiction; [discriminate|].
    cbn [g_meth2] in *. destruct (mlookup m mvtab) as [[[op sw] [|[|[|ar]]]]|]; try discriminate.
    inv_bindn H as r Hr. inversion H; subst w'. pose proof (simv_as_mv _ _ H2) as H2'.
    destruct sw.
    - destruct (Hcall op [as_mv v2; x] [as_mv w2; y] r) as [r' [Hr' Hs]];
        [constructor; [exact H2' | constructor; [exact H1 | constructor]] | exact Hr|].
      rewrite Hr'. cbn [bind]. eexists. split; [reflexivity | exact Hs].
    - destruct (Hcall op [x; as_mv v2] [y; as_mv w2] r) as [r' [Hr' Hs]];
        [constructor; [exact H1 | constructor; [exact H2' | constructor]] | exact Hr|].
      rewrite Hr'. cbn [bind]. eexists. split; [reflexivity | exact Hs].
  Qed.
  Lemma sim_prefix u : step1 (g_prefix OS callS mvtab u) (g_prefix O callN mvtab u).
  Proof.
    intros v w w' Hvw H. destruct v as [s|x], w as [r|y]; cbn [simv] in Hvw; try contradiction.
    - cbn [g_prefix] in *. destruct u; [|discriminate]. inversion H; subst w'. eexists. split; [reflexivity|].
      cbn [simv o_neg]. apply simc_neg. exact Hvw.
    - cbn [g_prefix] in *. apply (sim_meth1 (pdunder u) (VMv x) (VMv y) w' Hvw H).
  Qed.
  Lemma sim_infix o : step2 (g_infix OS callS mvtab o) (g_infix O callN mvtab o).
  Proof.
    intros v1 v2 w1 w2 w' H1 H2 H. destruct v1 as [a|x1], w1 as [a'|y1]; cbn [simv] in H1; try contradiction.
    - destruct v2 as [b|x2], w2 as [b'|y2]; cbn [simv] in H2; try contradiction.
      + cbn [g_infix] in *. destruct o; try discriminate; inversion H; subst w'; eexists; (split; [reflexivity|]);
          cbn [simv o_add o_sub o_mul]; [apply simc_add | apply simc_sub | apply simc_mul]; assumption.
      + cbn [g_infix] in *. apply (sim_meth2 (rdunder o) (VMv x2) (VNum a) (VMv y2) (VNum a') w' H2 H1 H).
    - cbn [g_infix] in *. apply (sim_meth2 (dunder o) (VMv x1) v2 (VMv y1) w2 w' H1 H2 H).
  Qed.
  Lemma sim_pow_loop n x x' : simv x x' -> forall acc acc' w', simv acc acc' ->
    pow_loop n (fun r => g_meth2 callN mvtab "gp" r x') acc' = Ok w' ->
    exists v', pow_loop n (fun r => g_meth2 callS mvtab "gp" r x) acc = Ok v' /\ simv v' w'.
  Proof.
    intros Hx. induction n as [|n IH]; intros acc acc' w' Ha H; cbn [pow_loop] in *.
    - inversion H; subst w'. eexists. split; [reflexivity | exact Ha].
    - inv_bindn H as r Hr. destruct (sim_meth2 "gp" acc x acc' x' r Ha Hx Hr) as [r' [Hr' Hs]].
      rewrite Hr'. cbn [bind]. apply (IH r' r w' Hs H).
  Qed.
  Lemma sim_pow n : step1 (fun v => g_pow OS callS mvtab v n) (fun w => g_pow O callN mvtab w n).
  Proof.
    intros v w w' Hvw H. destruct v as [s|x], w as [r|y]; cbn [simv] in Hvw; try contradiction; [discriminate|].
    cbn [g_pow] in *. destruct (n =? 0).
    - inversion H; subst w'. eexists. split; [reflexivity|]. cbn [simv o_one]. apply simm_scalar. exact simc_one.
    - inv_bindn H as b Hb. destruct (n <? 0).
      + destruct (sim_meth1 "inv" (VMv x) (VMv y) b Hvw Hb) as [b' [Hb' Hs]]. rewrite Hb'. cbn [bind].
        apply (sim_pow_loop _ b' b Hs b' b w' Hs H).
      + inversion Hb; subst b. cbn [bind]. apply (sim_pow_loop _ (VMv x) (VMv y) Hvw (VMv x) (VMv y) w' Hvw H).
  Qed.
  Lemma sim_dual un k : step1 (fun v => g_dual A callS mvtab un v k) (fun w => g_dual A callN mvtab un w k).
  Proof.
    intros v w w' Hvw H. destruct v as [s|x], w as [r|y]; cbn [simv] in Hvw; try contradiction; [discriminate|].
    cbn [g_dual] in *. inv_bindn H as m Hm. rewrite Hm. cbn [bind]. apply (sim_meth1 m (VMv x) (VMv y) w' Hvw H).
  Qed.
  Lemma sim_norm : step1 (g_norm callS mvtab) (g_norm callN mvtab).
  Proof.
    intros v w w' Hvw H. unfold g_norm in *. inv_bindn H as n Hn.
    destruct (sim_meth1 "normsq" v w n Hvw Hn) as [n' [Hn' Hs]]. rewrite Hn'. cbn [bind].
    apply (sim_meth1 "sqrt" n' n w' Hs H).
  Qed.
  Lemma sim_normalized : step1 (g_normalized OS callS mvtab) (g_normalized O callN mvtab).
  Proof.
    intros v w w' Hvw H. destruct v as [s|x], w as [r|y]; cbn [simv] in Hvw; try contradiction; [discriminate|].
    cbn [g_normalized] in *. inv_bindn H as n Hn.
    destruct (sim_norm (VMv x) (VMv y) n Hvw Hn) as [n' [Hn' Hs]]. rewrite Hn'. cbn [bind].
    apply (sim_infix IDiv (VMv x) n' (VMv y) n w' Hvw Hs H).
  Qed.

  (* ---------- calls of registered functions: any pair that simulate each other ---------- *)
  Variable regS : nat -> nat -> list (mv S) -> res (mv S).
  Variable regN : nat -> nat -> list (mv R) -> res (mv R).
  Definition reg_sim : Prop := forall fu k xs ys m, Forall2 simm xs ys -> regN fu k ys = Ok m ->
    exists m', regS fu k xs = Ok m' /\ simm m' m.
  Hypothesis Hreg : reg_sim.

  (* the run on symbols simulates the run on numbers: whenever the latter returns, so does the former, with a
     value of the same kind (number / multivector) that evaluates to it *)
  Theorem sim_directG : forall fuel (e : expr S) envS envN w,
    lits Q e -> Forall2 simm envS envN ->
    directG O A callN regN mvtab fuel envN (emap h e) = Ok w ->
    exists v, directG OS A callS regS mvtab fuel envS e = Ok v /\ simv v w.
  Proof.
    induction fuel as [|fu IH]; intros e envS envN w Hl Henv H; [discriminate|].
    assert (IH1 : forall e1 w1, lits Q e1 -> directG O A callN regN mvtab fu envN (emap h e1) = Ok w1 ->
                    exists v1, directG OS A callS regS mvtab fu envS e1 = Ok v1 /\ simv v1 w1).
    { intros e1 w1 Hl1 H1. apply (IH e1 envS envN w1 Hl1 Henv H1). }
    destruct e; cbn [emap directG lits] in *.
    - (* EArg *)
      inv_bindn H as y Hy. inversion H; subst w. clear H.
      destruct (nth_error envN i) as [y0|] eqn:Ey; [|discriminate]. inversion Hy; subst y0.
      assert (Hx : exists x, nth_error envS i = Some x /\ simm x y).
      { clear -Henv Ey. revert i Ey. induction Henv as [|x0 y0 xs ys H0 HF IHF]; intros [|i] Ey; cbn [nth_error] in *; try discriminate.
        - inversion Ey; subst. exists x0. split; [reflexivity | exact H0].
        - apply (IHF i Ey). }
      destruct Hx as [x [Ex Hs]]. rewrite Ex. cbn [of_opt bind]. eexists. split; [reflexivity | exact Hs].
    - (* ENum *) inversion H; subst w. eexists. split; [reflexivity|]. cbn [simv]. split; [exact Hl | reflexivity].
    - inv_bindn H as w1 H1. destruct (IH1 e w1 Hl H1) as [v1 [E1 S1]]. rewrite E1. cbn [bind]. apply (sim_meth1 m v1 w1 w S1 H).
    - destruct Hl as [Hl1 Hl2]. inv_bindn H as w1 H1. inv_bindn H as w2 H2.
      destruct (IH1 e1 w1 Hl1 H1) as [v1 [E1 S1]]. destruct (IH1 e2 w2 Hl2 H2) as [v2 [E2 S2]].
      rewrite E1, E2. cbn [bind]. apply (sim_meth2 m v1 v2 w1 w2 w S1 S2 H).
    - inv_bindn H as w1 H1. destruct (IH1 e w1 Hl H1) as [v1 [E1 S1]]. rewrite E1. cbn [bind]. apply (sim_prefix u v1 w1 w S1 H).
    - destruct Hl as [Hl1 Hl2]. inv_bindn H as w1 H1. inv_bindn H as w2 H2.
      destruct (IH1 e1 w1 Hl1 H1) as [v1 [E1 S1]]. destruct (IH1 e2 w2 Hl2 H2) as [v2 [E2 S2]].
      rewrite E1, E2. cbn [bind]. apply (sim_infix o v1 v2 w1 w2 w S1 S2 H).
    - inv_bindn H as w1 H1. destruct (IH1 e w1 Hl H1) as [v1 [E1 S1]]. rewrite E1. cbn [bind]. apply (sim_pow n v1 w1 w S1 H).
    - inv_bindn H as w1 H1. destruct (IH1 e w1 Hl H1) as [v1 [E1 S1]]. rewrite E1. cbn [bind]. apply (sim_grade gs v1 w1 w S1 H).
    - inv_bindn H as w1 H1. destruct (IH1 e w1 Hl H1) as [v1 [E1 S1]]. rewrite E1. cbn [bind]. apply (sim_getattr nm v1 w1 w S1 H).
    - inv_bindn H as w1 H1. destruct (IH1 e w1 Hl H1) as [v1 [E1 S1]]. rewrite E1. cbn [bind]. apply (sim_dual false k v1 w1 w S1 H).
    - inv_bindn H as w1 H1. destruct (IH1 e w1 Hl H1) as [v1 [E1 S1]]. rewrite E1. cbn [bind]. apply (sim_dual true k v1 w1 w S1 H).
    - inv_bindn H as w1 H1. destruct (IH1 e w1 Hl H1) as [v1 [E1 S1]]. rewrite E1. cbn [bind]. apply (sim_norm v1 w1 w S1 H).
    - inv_bindn H as w1 H1. destruct (IH1 e w1 Hl H1) as [v1 [E1 S1]]. rewrite E1. cbn [bind]. apply (sim_normalized v1 w1 w S1 H).
    - (* ECall *)
      apply (proj1 (lits_call Q k args)) in Hl.
      inv_bindn H as ws Hws. inv_bindn H as m Hm. inversion H; subst w. clear H.
      assert (Hargs : exists vs, mapM (directG OS A callS regS mvtab fu envS) args = Ok vs /\ Forall2 simv vs ws).
      { clear Hm. revert ws Hws. induction args as [|a r IHa]; intros ws Hws; cbn [map mapM] in *.
        - inversion Hws; subst ws. exists []. split; [reflexivity | constructor].
        - inversion Hl as [|? ? Hla Hlr]; subst. inv_bindn Hws as wa Hwa. inv_bindn Hws as wr Hwr. inversion Hws; subst ws.
          destruct (IH1 a wa Hla Hwa) as [va [Ea Sa]]. destruct (IHa Hlr wr Hwr) as [vr [Er Sr]].
          rewrite Ea, Er. cbn [bind]. eexists. split; [reflexivity | constructor; assumption]. }
      destruct Hargs as [vs [Evs Svs]]. rewrite Evs. cbn [bind].
      assert (Hmv : Forall2 simm (map as_mv vs) (map as_mv ws)).
      { clear Evs Hm Hws. induction Svs as [|v0 w0 vs0 ws0 H0 HF IHF]; cbn [map]; [constructor|].
        constructor; [apply simv_as_mv; exact H0 | exact IHF]. }
      destruct (Hreg fu k _ _ m Hmv Hm) as [m' [Em Sm]]. rewrite Em. cbn [bind]. eexists. split; [reflexivity | exact Sm].
  Qed.
  End Gen.
  (* ---------- calls of registered functions inside the symbolic run ----------
     Registry.__call__ on symbolic multivectors compiles g_k for the KEYS of the symbolic arguments (which the
     filter may have thinned out: not the keys of the numeric arguments) and runs the tape on the symbolic value
     lists.  Simulation of the recorder run + tape evaluation over the symbols by the one over the numbers, for
     the table of the polynomial operators (every generated function is total there). *)
  Section Rec.
  Variable tapetab : mtable.
  Variable bodies : list (expr S).
  Hypothesis Hbodies : Forall (lits Q) bodies.
  Local Notation opdS := (std_opd OS A no_ext).
  Local Notation opdN := (std_opd O A no_ext).
  Local Notation recS := (record OS A opdS tapetab bodies).
  Local Notation recN := (record O A opdN tapetab (map (emap h) bodies)).
  Local Notation runS := (run_tape OS opdS).
  Local Notation runN := (run_tape O opdN).
  Local Notation wfk' := (wfk A).

  Lemma noext_sim : ext_sim no_ext no_ext.
  Proof. intros op xs ys m _ H. unfold call_op, no_ext in H. cbn in H. discriminate. Qed.
  Lemma wfk0 : wfk' [0].
  Proof. split; [constructor; [intros [] | constructor] | intros k [<-|[]]; exact (zero_canon A Hwf)]. Qed.

  (* the table, for every coefficient structure *)
  Lemma std_inv2 {T} (OT : ops T) op kx ky ko f : std_opd OT A no_ext op [kx; ky] = Ok (ko, f) ->
    exists g, sassoc op poly2_table = Some g /\ gen2 OT A g kx ky = (ko, f).
  Proof. unfold std_opd. destruct (sassoc op poly2_table) as [g|]; [intros H; inversion H; eauto | discriminate]. Qed.
  Lemma std_inv1 {T} (OT : ops T) op kx ko f : std_opd OT A no_ext op [kx] = Ok (ko, f) ->
    (String.eqb op "polarity" = true /\ gen_polarity OT A kx = Ok (ko, f)) \/
    (String.eqb op "polarity" = false /\ exists g, sassoc op poly1_table = Some g /\ gen1 OT A g kx = (ko, f)).
  Proof.
    unfold std_opd. destruct (String.eqb op "polarity"); [intros H; left; auto|].
    destruct (sassoc op poly1_table) as [g|]; [intros H; inversion H; right; eauto | discriminate].
  Qed.
  Lemma polarity_indep {T U} (OT : ops T) (OU : ops U) x x' r : polarity OT A x = Ok r -> exists r', polarity OU A x' = Ok r'.
  Proof.
    unfold polarity. destruct (Z.eqb (sgn A (pss_key A) (pss_key A)) (-1)); [eauto|].
    destruct (Z.eqb (sgn A (pss_key A) (pss_key A)) 1); [eauto|].
    destruct (Z.eqb (sgn A (pss_key A) (pss_key A)) 0); discriminate.
  Qed.
  Lemma nat2_of op g : sassoc op poly2_table = Some g -> natural2 g.
  Proof. intros Hs. exact (g2_nat _ _ _ _ _ _ _ _ g (poly2_good R rO rI radd rmul rsub ropp Rth A Hwf op g Hs)). Qed.
  Lemma nat1_of op g : sassoc op poly1_table = Some g -> natural1 g.
  Proof. intros Hs. exact (g1_nat _ _ _ _ _ _ _ _ g (poly1_good R rO rI radd rmul rsub ropp Rth A Hwf op g Hs)). Qed.
  Lemma wf2_of op g : sassoc op poly2_table = Some g -> forall T (OT : ops T) x y, wfk' (keys (g T OT A x y)).
  Proof. intros Hs T OT x y. exact (g2_wf _ _ _ _ _ _ _ _ g (poly2_good R rO rI radd rmul rsub ropp Rth A Hwf op g Hs) T OT x y). Qed.
  Lemma wf1_of op g : sassoc op poly1_table = Some g -> forall T (OT : ops T) x, wfk' (keys (g T OT A x)).
  Proof. intros Hs T OT x. exact (g1_wf _ _ _ _ _ _ _ _ g (poly1_good R rO rI radd rmul rsub ropp Rth A Hwf op g Hs) T OT x). Qed.

  Lemma std_static2 op k1 k2 k1' k2' koN fN : opdN op [k1; k2] = Ok (koN, fN) ->
    exists koS fS, opdS op [k1'; k2'] = Ok (koS, fS) /\ wfk' koS /\ wfk' koN.
  Proof.
    intros H. destruct (std_inv2 O op k1 k2 koN fN H) as [g [Hs Hg]]. unfold gen2 in Hg. injection Hg as Eko Ef. subst koN fN.
    unfold std_opd. rewrite Hs. unfold gen2. eexists. eexists. split; [reflexivity|]. split; apply (wf2_of op g Hs).
  Qed.
  Lemma std_static1 op k k' koN fN : opdN op [k] = Ok (koN, fN) ->
    exists koS fS, opdS op [k'] = Ok (koS, fS) /\ wfk' koS /\ wfk' koN.
  Proof.
    intros H. destruct (std_inv1 O op k koN fN H) as [[Hp Hg]|[Hp [g [Hs Hg]]]].
    - unfold gen_polarity in Hg. inv_bindn Hg as ku Hku. injection Hg as Eko Ef. subst koN fN.
      destruct (polarity_indep Uops Uops (ksym k) (ksym k') ku Hku) as [ku' Hku'].
      unfold std_opd. rewrite Hp. unfold gen_polarity. rewrite Hku'. cbn [bind]. eexists. eexists. split; [reflexivity|].
      split; [exact (polarity_wf A Hwf Uops _ _ Hku') | exact (polarity_wf A Hwf Uops _ _ Hku)].
    - unfold gen1 in Hg. injection Hg as Eko Ef. subst koN fN.
      unfold std_opd. rewrite Hp, Hs. unfold gen1. eexists. eexists. split; [reflexivity|]. split; apply (wf1_of op g Hs).
  Qed.

  (* every generated function of the table returns, with one value per key *)
  Lemma std_apply2 {T} (OT : ops T) op kx ky ko f vx vy : std_opd OT A no_ext op [kx; ky] = Ok (ko, f) ->
    length vx = length kx -> length vy = length ky -> exists r, f [vx; vy] = Ok r /\ length r = length ko.
  Proof.
    intros H Lx Ly. destruct (std_inv2 OT op kx ky ko f H) as [g [Hs Hg]]. unfold gen2 in Hg. inversion Hg; subst ko f. clear Hg.
    cbn beta iota. rewrite Lx, Ly, !Nat.eqb_refl. cbn [andb]. eexists. split; [reflexivity|].
    rewrite length_vals, <- length_keys. f_equal.
    rewrite <- (keys_map_mv (fun _ : T => tt)). rewrite (nat2_of op g Hs T unit OT Uops _ (unit_hom_any OT) A).
    rewrite !map_tt_any, !keys_combine by assumption. reflexivity.
  Qed.
  Lemma std_apply1 {T} (OT : ops T) op kx ko f vx : std_opd OT A no_ext op [kx] = Ok (ko, f) ->
    length vx = length kx -> exists r, f [vx] = Ok r /\ length r = length ko.
  Proof.
    intros H Lx. destruct (std_inv1 OT op kx ko f H) as [[Hp Hg]|[Hp [g [Hs Hg]]]].
    - unfold gen_polarity in Hg. inv_bindn Hg as ku Hku. inversion Hg; subst ko f. clear Hg.
      cbn beta iota. rewrite Lx, Nat.eqb_refl.
      pose proof (nat_polarity OT Uops (fun _ : T => tt) (unit_hom_any OT) A (combine kx vx)) as Hn.
      rewrite map_tt_any, keys_combine, Hku in Hn by exact Lx.
      destruct (polarity OT A (combine kx vx)) as [r|e]; cbn [map_res] in Hn; [|discriminate].
      cbn [bind]. eexists. split; [reflexivity|]. inversion Hn; subst ku.
      rewrite length_vals, <- length_keys, keys_map_mv. reflexivity.
    - unfold gen1 in Hg. inversion Hg; subst ko f. clear Hg.
      cbn beta iota. rewrite Lx, Nat.eqb_refl. eexists. split; [reflexivity|].
      rewrite length_vals, <- length_keys. f_equal.
      rewrite <- (keys_map_mv (fun _ : T => tt)). rewrite (nat1_of op g Hs T unit OT Uops _ (unit_hom_any OT) A).
      rewrite !map_tt_any, !keys_combine by assumption. reflexivity.
  Qed.

  (* an operator node of the tape on related operands *)
  Lemma node1 op ksS ksN koS fS koN fN aS aN : opdS op [ksS] = Ok (koS, fS) -> opdN op [ksN] = Ok (koN, fN) ->
    length aS = length ksS -> length aN = length ksN -> simm (combine ksS aS) (combine ksN aN) ->
    exists rS rN, fS [aS] = Ok rS /\ fN [aN] = Ok rN /\ length rS = length koS /\ length rN = length koN
                  /\ simm (combine koS rS) (combine koN rN).
  Proof.
    intros HS HN LS LN Hsim.
    destruct (std_apply1 OS op ksS koS fS aS HS LS) as [rS [FS LrS]].
    destruct (std_apply1 O op ksN koN fN aN HN LN) as [rN [FN LrN]].
    exists rS, rN. spl; try assumption.
    assert (CN : call_op opdN op [combine ksN aN] = Ok (combine koN rN)).
    { unfold call_op. cbn [map]. rewrite keys_combine, vals_combine by exact LN. rewrite HN. cbn [bind]. rewrite FN. reflexivity. }
    assert (CS : call_op opdS op [combine ksS aS] = Ok (combine koS rS)).
    { unfold call_op. cbn [map]. rewrite keys_combine, vals_combine by exact LS. rewrite HS. cbn [bind]. rewrite FS. reflexivity. }
    destruct (call_std_sim no_ext no_ext noext_sim op [combine ksS aS] [combine ksN aN] _ (Forall2_cons _ _ Hsim (Forall2_nil _)) CN)
      as [m' [Em Sm]].
    rewrite CS in Em. inversion Em; subst m'. exact Sm.
  Qed.
  Lemma node2 op k1S k2S k1N k2N koS fS koN fN a1S a2S a1N a2N :
    opdS op [k1S; k2S] = Ok (koS, fS) -> opdN op [k1N; k2N] = Ok (koN, fN) ->
    length a1S = length k1S -> length a2S = length k2S -> length a1N = length k1N -> length a2N = length k2N ->
    simm (combine k1S a1S) (combine k1N a1N) -> simm (combine k2S a2S) (combine k2N a2N) ->
    exists rS rN, fS [a1S; a2S] = Ok rS /\ fN [a1N; a2N] = Ok rN /\ length rS = length koS /\ length rN = length koN
                  /\ simm (combine koS rS) (combine koN rN).
  Proof.
    intros HS HN L1S L2S L1N L2N Hs1 Hs2.
    destruct (std_apply2 OS op k1S k2S koS fS a1S a2S HS L1S L2S) as [rS [FS LrS]].
    destruct (std_apply2 O op k1N k2N koN fN a1N a2N HN L1N L2N) as [rN [FN LrN]].
    exists rS, rN. spl; try assumption.
    assert (CN : call_op opdN op [combine k1N a1N; combine k2N a2N] = Ok (combine koN rN)).
    { unfold call_op. cbn [map]. rewrite !keys_combine, !vals_combine by assumption. rewrite HN. cbn [bind]. rewrite FN. reflexivity. }
    assert (CS : call_op opdS op [combine k1S a1S; combine k2S a2S] = Ok (combine koS rS)).
    { unfold call_op. cbn [map]. rewrite !keys_combine, !vals_combine by assumption. rewrite HS. cbn [bind]. rewrite FS. reflexivity. }
    destruct (call_std_sim no_ext no_ext noext_sim op [combine k1S a1S; combine k2S a2S] [combine k1N a1N; combine k2N a2N] _
                (Forall2_cons _ _ Hs1 (Forall2_cons _ _ Hs2 (Forall2_nil _))) CN) as [m' [Em Sm]].
    rewrite CS in Em. inversion Em; subst m'. exact Sm.
  Qed.

  (* recorder values: statically (keys) and at run time (the tapes return related value lists) *)
  Definition srs (rS : @rval S) (rN : @rval R) : Prop :=
    match rS, rN with
    | RNum s, RNum r => simc s r
    | RRec ksS _, RRec ksN _ => wfk' ksS /\ wfk' ksN
    | _, _ => False
    end.
  Definition srd (venvS : list (list S)) (venvN : list (list R)) (rS : @rval S) (rN : @rval R) : Prop :=
    match rS, rN with
    | RRec ksS tS, RRec ksN tN =>
        exists aS aN, runS venvS tS = Ok aS /\ runN venvN tN = Ok aN /\ length aS = length ksS /\ length aN = length ksN
                      /\ simm (combine ksS aS) (combine ksN aN)
    | _, _ => True
    end.
  Local Notation rvS := (@rval S).
  Local Notation rvN := (@rval R).
  Definition SR1 (FS : rvS -> res rvS) (FN : rvN -> res rvN) : Prop :=
    forall rS rN qN, srs rS rN -> FN rN = Ok qN ->
      exists qS, FS rS = Ok qS /\ srs qS qN /\ forall venvS venvN, srd venvS venvN rS rN -> srd venvS venvN qS qN.
  Definition SR2 (FS : rvS -> rvS -> res rvS) (FN : rvN -> rvN -> res rvN) : Prop :=
    forall r1S r1N r2S r2N qN, srs r1S r1N -> srs r2S r2N -> FN r1N r2N = Ok qN ->
      exists qS, FS r1S r2S = Ok qS /\ srs qS qN /\
        forall venvS venvN, srd venvS venvN r1S r1N -> srd venvS venvN r2S r2N -> srd venvS venvN qS qN.

  Lemma sr_unary op ksS tS ksN tN qN : rec_unary opdN op ksN tN = Ok qN ->
    exists qS, rec_unary opdS op ksS tS = Ok qS /\ srs qS qN /\
      forall venvS venvN, srd venvS venvN (RRec ksS tS) (RRec ksN tN) -> srd venvS venvN qS qN.
  Proof.
    intros H. unfold rec_unary in H. inv_bindn H as kf Hkf. destruct kf as [koN fN]. inversion H; subst qN. clear H.
    destruct (std_static1 op ksN ksS koN fN Hkf) as [koS [fS [HS [WS WN]]]].
    exists (RRec koS (TOp op [ksS] [tS])). split; [unfold rec_unary; rewrite HS; reflexivity|]. split; [split; assumption|].
    intros venvS venvN [aS [aN [RS [RN [LS [LN Hsim]]]]]].
    destruct (node1 op ksS ksN koS fS koN fN aS aN HS Hkf LS LN Hsim) as [rS [rN [FS [FN [LrS [LrN Hr]]]]]].
    exists rS, rN.
    rewrite (run_TOp1 S sO sI sadd smul ssub sopp), HS, (run_TOp1 R rO rI radd rmul rsub ropp), Hkf. cbn [bind].
    rewrite RS, RN. cbn [bind]. spl; assumption.
  Qed.
  Lemma srd_num venvS venvN s r : simc s r -> srd venvS venvN (RRec [0] (TNum s)) (RRec [0] (TNum r)).
  Proof. intros H. exists [s], [r]. spl; try reflexivity. cbn [combine]. apply simm_scalar. exact H. Qed.
  Lemma sr_binary op ksS tS ksN tN r2S r2N qN : srs r2S r2N -> rec_binary opdN op ksN tN r2N = Ok qN ->
    exists qS, rec_binary opdS op ksS tS r2S = Ok qS /\ srs qS qN /\
      forall venvS venvN, srd venvS venvN (RRec ksS tS) (RRec ksN tN) -> srd venvS venvN r2S r2N -> srd venvS venvN qS qN.
  Proof.
    intros Hr H.
    assert (Hgen : forall k2S t2S k2N t2N koN fN, opdN op [ksN; k2N] = Ok (koN, fN) ->
              exists koS fS, opdS op [ksS; k2S] = Ok (koS, fS) /\ wfk' koS /\ wfk' koN /\
                forall venvS venvN, srd venvS venvN (RRec ksS tS) (RRec ksN tN) ->
                  srd venvS venvN (RRec k2S t2S) (RRec k2N t2N) ->
                  srd venvS venvN (RRec koS (TOp op [ksS; k2S] [tS; t2S])) (RRec koN (TOp op [ksN; k2N] [tN; t2N]))).
    { intros k2S t2S k2N t2N koN fN HN.
      destruct (std_static2 op ksN k2N ksS k2S koN fN HN) as [koS [fS [HS [WS WN]]]].
      exists koS, fS. split; [exact HS|]. split; [exact WS|]. split; [exact WN|].
      intros venvS venvN [a1S [a1N [R1S [R1N [L1S [L1N Hs1]]]]]] [a2S [a2N [R2S [R2N [L2S [L2N Hs2]]]]]].
      destruct (node2 op ksS k2S ksN k2N koS fS koN fN a1S a2S a1N a2N HS HN L1S L2S L1N L2N Hs1 Hs2)
        as [rS [rN [FS [FN [LrS [LrN Hrr]]]]]].
      exists rS, rN.
      rewrite (run_TOp2 S sO sI sadd smul ssub sopp), HS, (run_TOp2 R rO rI radd rmul rsub ropp), HN. cbn [bind].
      rewrite R1S, R2S, R1N, R2N. cbn [bind]. spl; assumption. }
    destruct r2S as [c|k2S t2S], r2N as [c'|k2N t2N]; cbn [srs] in Hr; try contradiction; cbn [rec_binary] in H |- *.
    - inv_bindn H as kf Hkf. destruct kf as [koN fN]. inversion H; subst qN. clear H.
      destruct (Hgen [0] (TNum c) [0] (TNum c') koN fN Hkf) as [koS [fS [HS [WS [WN D]]]]].
      rewrite HS. cbn [bind]. eexists. split; [reflexivity|]. split; [split; assumption|].
      intros venvS venvN D1 _. apply D; [exact D1 | apply srd_num; exact Hr].
    - inv_bindn H as kf Hkf. destruct kf as [koN fN]. inversion H; subst qN. clear H.
      destruct (Hgen k2S t2S k2N t2N koN fN Hkf) as [koS [fS [HS [WS [WN D]]]]].
      rewrite HS. cbn [bind]. eexists. split; [reflexivity|]. split; [split; assumption|]. exact D.
  Qed.

  Lemma sr_meth1 m : SR1 (rec_meth1 opdS tapetab m) (rec_meth1 opdN tapetab m).
  Proof.
    intros rS rN qN Hr H. destruct rS as [c|ksS tS], rN as [c'|ksN tN]; cbn [srs] in Hr; try contradiction; cbn [rec_meth1] in H |- *; try discriminate.
    destruct (mlookup m tapetab) as [[[op sw] [|[|ar]]]|]; try discriminate.
    exact (sr_unary op ksS tS ksN tN qN H).
  Qed.
  Lemma sr_meth2tab m : SR2 (rec_meth2tab opdS tapetab m) (rec_meth2tab opdN tapetab m).
  Proof.
    intros r1S r1N r2S r2N qN Hr1 Hr2 H.
    destruct r1S as [c|ksS tS], r1N as [c'|ksN tN]; cbn [srs] in Hr1; try contradiction; cbn [rec_meth2tab] in H |- *; try discriminate.
    destruct (mlookup m tapetab) as [[[op sw] [|[|[|ar]]]]|]; try discriminate.
    exact (sr_binary op ksS tS ksN tN r2S r2N qN Hr2 H).
  Qed.
  Lemma sr_special m : SR2 (rec_special opdS tapetab m) (rec_special opdN tapetab m).
  Proof.
    intros r1S r1N r2S r2N qN Hr1 Hr2 H. unfold rec_special in *.
    destruct (String.eqb m "__rsub__").
    - inv_bindn H as n Hn. destruct (sr_meth1 "__neg__" r1S r1N n Hr1 Hn) as [n' [E1 [S1 D1]]]. rewrite E1. cbn [bind].
      destruct r2S as [c|k2 t2], r2N as [c'|k2' t2']; cbn [srs] in Hr2; try contradiction.
      + destruct (sr_meth2tab "__radd__" n' n (RNum c) (RNum c') qN S1 Hr2 H) as [q' [E [S0 D]]].
        exists q'. split; [exact E|]. split; [exact S0|]. intros. apply D; [apply D1; assumption | exact I].
      + destruct (sr_meth2tab "__add__" (RRec k2 t2) (RRec k2' t2') n' n qN Hr2 S1 H) as [q' [E [S0 D]]].
        exists q'. split; [exact E|]. split; [exact S0|]. intros. apply D; [|apply D1]; assumption.
    - destruct (String.eqb m "__rmul__").
      + destruct r2S as [c|k2 t2], r2N as [c'|k2' t2']; cbn [srs] in Hr2; try contradiction.
        * destruct (sr_meth2tab "gp" r1S r1N (RNum c) (RNum c') qN Hr1 Hr2 H) as [q' [E [S0 D]]]. exists q'. auto.
        * destruct (sr_meth2tab "gp" (RRec k2 t2) (RRec k2' t2') r1S r1N qN Hr2 Hr1 H) as [q' [E [S0 D]]]. exists q'. auto.
      + destruct (String.eqb m "__rxor__"); [|discriminate].
        destruct r2S as [c|k2 t2], r2N as [c'|k2' t2']; cbn [srs] in Hr2; try contradiction.
        * destruct (sr_meth2tab "op" r1S r1N (RNum c) (RNum c') qN Hr1 Hr2 H) as [q' [E [S0 D]]]. exists q'. auto.
        * destruct (sr_meth2tab "op" (RRec k2 t2) (RRec k2' t2') r1S r1N qN Hr2 Hr1 H) as [q' [E [S0 D]]]. exists q'. auto.
  Qed.
  Lemma sr_meth2 m : SR2 (rec_meth2 opdS tapetab m) (rec_meth2 opdN tapetab m).
  Proof.
    intros r1S r1N r2S r2N qN Hr1 Hr2 H.
    destruct r1S as [c|ksS tS], r1N as [c'|ksN tN]; cbn [srs] in Hr1; try contradiction; cbn [rec_meth2] in H |- *; try discriminate.
    destruct (mlookup m tapetab).
    - exact (sr_meth2tab m (RRec ksS tS) (RRec ksN tN) r2S r2N qN Hr1 Hr2 H).
    - exact (sr_special m (RRec ksS tS) (RRec ksN tN) r2S r2N qN Hr1 Hr2 H).
  Qed.
  Lemma sr_prefix u : SR1 (rec_prefix OS opdS tapetab u) (rec_prefix O opdN tapetab u).
  Proof.
    intros rS rN qN Hr H. destruct rS as [c|ksS tS], rN as [c'|ksN tN]; cbn [srs] in Hr; try contradiction.
    - cbn [rec_prefix] in *. destruct u; [|discriminate]. inversion H; subst qN. eexists. split; [reflexivity|].
      split; [cbn [srs o_neg]; apply simc_neg; exact Hr | intros; exact I].
    - exact (sr_meth1 (pdunder u) (RRec ksS tS) (RRec ksN tN) qN Hr H).
  Qed.
  Lemma sr_infix o : SR2 (rec_infix OS opdS tapetab o) (rec_infix O opdN tapetab o).
  Proof.
    intros r1S r1N r2S r2N qN Hr1 Hr2 H.
    destruct r1S as [a|k1 t1], r1N as [a'|k1' t1']; cbn [srs] in Hr1; try contradiction.
    - destruct r2S as [b|k2 t2], r2N as [b'|k2' t2']; cbn [srs] in Hr2; try contradiction.
      + cbn [rec_infix] in *.
        destruct o; try discriminate; inversion H; subst qN; (eexists; split; [reflexivity|]);
          (split; [cbn [srs o_add o_sub o_mul]; first [apply simc_add | apply simc_sub | apply simc_mul]; assumption | intros; exact I]).
      + cbn [rec_infix] in H |- *.
        destruct (sr_meth2 (rdunder o) (RRec k2 t2) (RRec k2' t2') (RNum a) (RNum a') qN Hr2 Hr1 H) as [q' [E [S0 D]]].
        exists q'. split; [exact E|]. split; [exact S0|]. intros. apply D; [assumption | exact I].
    - exact (sr_meth2 (dunder o) (RRec k1 t1) (RRec k1' t1') r2S r2N qN Hr1 Hr2 H).
  Qed.
  Lemma sr_pow_loop n xS xN : srs xS xN -> forall accS accN qN, srs accS accN ->
    pow_loop n (fun a => rec_meth2 opdN tapetab "gp" a xN) accN = Ok qN ->
    exists qS, pow_loop n (fun a => rec_meth2 opdS tapetab "gp" a xS) accS = Ok qS /\ srs qS qN /\
      forall venvS venvN, srd venvS venvN xS xN -> srd venvS venvN accS accN -> srd venvS venvN qS qN.
  Proof.
    intros Hx. induction n as [|n IH]; intros accS accN qN Ha H; cbn [pow_loop] in *.
    - inversion H; subst qN. exists accS. auto.
    - inv_bindn H as y Hy. destruct (sr_meth2 "gp" accS accN xS xN y Ha Hx Hy) as [y' [E1 [S1 D1]]].
      rewrite E1. cbn [bind]. destruct (IH y' y qN S1 H) as [q' [E2 [S2 D2]]].
      exists q'. split; [exact E2|]. split; [exact S2|]. intros. apply D2; [assumption|]. apply D1; assumption.
  Qed.
  Lemma sr_pow n : SR1 (fun r => rec_pow opdS tapetab r n) (fun r => rec_pow opdN tapetab r n).
  Proof.
    intros rS rN qN Hr H. destruct rS as [c|ksS tS], rN as [c'|ksN tN]; cbn [srs] in Hr; try contradiction; cbn [rec_pow] in H |- *; try discriminate.
    destruct (n =? 0).
    - inversion H; subst qN. eexists. split; [reflexivity|]. split; [split; exact wfk0|].
      intros venvS venvN _. exists [sI], [rI]. spl; try reflexivity. cbn [combine]. apply simm_scalar. exact simc_one.
    - inv_bindn H as x Hx. destruct (n <? 0).
      + destruct (sr_meth1 "inv" (RRec ksS tS) (RRec ksN tN) x Hr Hx) as [x' [E1 [S1 D1]]]. rewrite E1. cbn [bind].
        destruct (sr_pow_loop _ x' x S1 x' x qN S1 H) as [q' [E2 [S2 D2]]].
        exists q'. split; [exact E2|]. split; [exact S2|]. intros. apply D2; apply D1; assumption.
      + inversion Hx; subst x. cbn [bind].
        destruct (sr_pow_loop _ (RRec ksS tS) (RRec ksN tN) Hr (RRec ksS tS) (RRec ksN tN) qN Hr H) as [q' [E2 [S2 D2]]].
        exists q'. split; [exact E2|]. split; [exact S2|]. intros. apply D2; assumption.
  Qed.
  Lemma sr_dual un k : SR1 (fun r => rec_dual A opdS tapetab un r k) (fun r => rec_dual A opdN tapetab un r k).
  Proof.
    intros rS rN qN Hr H. destruct rS as [c|ksS tS], rN as [c'|ksN tN]; cbn [srs] in Hr; try contradiction; cbn [rec_dual] in H |- *; try discriminate.
    inv_bindn H as m Hm. rewrite Hm. cbn [bind]. exact (sr_meth1 m (RRec ksS tS) (RRec ksN tN) qN Hr H).
  Qed.
  Lemma sr_norm : SR1 (rec_norm opdS tapetab) (rec_norm opdN tapetab).
  Proof.
    intros rS rN qN Hr H. unfold rec_norm in *. inv_bindn H as n Hn.
    destruct (sr_meth1 "normsq" rS rN n Hr Hn) as [n' [E1 [S1 D1]]]. rewrite E1. cbn [bind].
    destruct (sr_meth1 "sqrt" n' n qN S1 H) as [q' [E2 [S2 D2]]]. exists q'. split; [exact E2|]. split; [exact S2|].
    intros. apply D2, D1. assumption.
  Qed.
  Lemma sr_normalized : SR1 (rec_normalized OS opdS tapetab) (rec_normalized O opdN tapetab).
  Proof.
    intros rS rN qN Hr H. destruct rS as [c|ksS tS], rN as [c'|ksN tN]; cbn [srs] in Hr; try contradiction; cbn [rec_normalized] in H |- *; try discriminate.
    inv_bindn H as n Hn. destruct (sr_norm (RRec ksS tS) (RRec ksN tN) n Hr Hn) as [n' [E1 [S1 D1]]]. rewrite E1. cbn [bind].
    destruct (sr_infix IDiv (RRec ksS tS) (RRec ksN tN) n' n qN Hr S1 H) as [q' [E2 [S2 D2]]].
    exists q'. split; [exact E2|]. split; [exact S2|]. intros. apply D2; [assumption | apply D1; assumption].
  Qed.

  (* grade selection on the recorder: a filter by key on both sides *)
  Lemma keys_keyfilter {T} (P : Z -> bool) (x : mv T) : keys (filter (fun kv => P (fst kv)) x) = filter P (keys x).
  Proof. induction x as [|[k v] r IH]; [reflexivity|]. cbn [filter keys map fst]. destruct (P k); cbn [keys map fst]; unfold keys in IH; rewrite IH; reflexivity. Qed.
  Lemma coeff_keyfilter {T} (tO tI : T) (tadd tmul tsub : T -> T -> T) (topp : T -> T) (P : Z -> bool) (x : mv T) K :
    coeff (mkOps T tadd tsub tmul topp tO tI) K (filter (fun kv => P (fst kv)) x)
    = if P K then coeff (mkOps T tadd tsub tmul topp tO tI) K x else tO.
  Proof.
    induction x as [|[k v] r IH]; [destruct (P K); reflexivity|]. cbn [filter fst].
    destruct (P k) eqn:Ek; rewrite !(coeff_cons T tO tI tadd tmul tsub topp); destruct (Z.eqb k K) eqn:E; try exact IH.
    - apply Z.eqb_eq in E. subst K. rewrite Ek. reflexivity.
    - rewrite IH. apply Z.eqb_eq in E. subst K. rewrite Ek. reflexivity.
  Qed.
  Lemma simm_keyfilter (P : Z -> bool) x y : simm x y ->
    simm (filter (fun kv => P (fst kv)) x) (filter (fun kv => P (fst kv)) y).
  Proof.
    intros [[Hq [Hn [Hm He]]] [Hi Hj]].
    split; [|split; rewrite keys_keyfilter; intros K HK; apply filter_In in HK; [apply Hi | apply Hj]; apply HK].
    split; [unfold all_coeffs in *; rewrite Forall_forall in *; intros kv Hkv; apply filter_In in Hkv; apply Hq, Hkv|].
    rewrite !keys_keyfilter. split; [apply NoDup_filter; exact Hn|]. split; [apply NoDup_filter; exact Hm|].
    intros K. assert (E : mh (filter (fun kv => P (fst kv)) x) = filter (fun kv => P (fst kv)) (mh x)).
    { clear. induction x as [|[k v] r IH]; [reflexivity|]. unfold map_mv in *. cbn [filter map fst snd]. destruct (P k); cbn [map fst snd]; rewrite IH; reflexivity. }
    rewrite E, !(coeff_keyfilter rO rI radd rmul rsub ropp). destruct (P K); [apply He | reflexivity].
  Qed.
  Lemma sr_grade gs : SR1 (fun r => rec_grade A r gs) (fun r => rec_grade A r gs).
  Proof.
    intros rS rN qN Hr H. destruct rS as [c|ksS tS], rN as [c'|ksN tN]; cbn [srs] in Hr; try contradiction; cbn [rec_grade] in H |- *; try discriminate.
    destruct Hr as [WS WN]. inv_bindn H as bb Hbb. rewrite Hbb. cbn [bind]. inversion H; subst qN. clear H.
    eexists. split; [reflexivity|]. rewrite !(enum_filter_keys (fun k => zin k bb)).
    split; [split; apply wfk_filter; assumption|].
    intros venvS venvN [aS [aN [RS [RN [LS [LN Hsim]]]]]].
    exists (selv S (fun k => zin k bb) ksS aS), (selv R (fun k => zin k bb) ksN aN).
    rewrite (run_TSel S sO sI sadd smul ssub sopp), RS, (run_TSel R rO rI radd rmul rsub ropp), RN. cbn [bind].
    destruct (selv_combine S (fun k => zin k bb) ksS aS LS) as [E1 E2].
    destruct (selv_combine R (fun k => zin k bb) ksN aN LN) as [E1' E2'].
    split; [exact (enum_filter_vals0 S (fun k => zin k bb) ksS aS LS)|].
    split; [exact (enum_filter_vals0 R (fun k => zin k bb) ksN aN LN)|].
    split; [exact E2|]. split; [exact E2'|]. rewrite E1, E1'. apply (simm_keyfilter (fun k => zin k bb)). exact Hsim.
  Qed.

  (* coefficient access on the recorder *)
  Lemma idx_coeff {T} (tO tI : T) (tadd tmul tsub : T -> T -> T) (topp : T -> T) b ks (a : list T) :
    NoDup ks -> length a = length ks ->
    match zindex b ks with
    | Some idx => exists v, nth_error a idx = Some v /\ coeff (mkOps T tadd tsub tmul topp tO tI) b (combine ks a) = v
    | None => coeff (mkOps T tadd tsub tmul topp tO tI) b (combine ks a) = tO
    end.
  Proof.
    intros Hn Hl. destruct (zindex b ks) as [idx|] eqn:Hz.
    - destruct (idx_value T b ks idx a Hz Hl) as [v [Hv Hin]]. exists v. split; [exact Hv|].
      apply (coeff_in T tO tI tadd tmul tsub topp); [rewrite keys_combine by exact Hl; exact Hn | exact Hin].
    - apply (coeff_notin T tO tI tadd tmul tsub topp). rewrite keys_combine by exact Hl. apply zindex_none. exact Hz.
  Qed.
  Lemma sr_getattr nm : SR1 (fun r => rec_getattr A r nm) (fun r => rec_getattr A r nm).
  Proof.
    intros rS rN qN Hr H. destruct rS as [c|ksS tS], rN as [c'|ksN tN]; cbn [srs] in Hr; try contradiction; cbn [rec_getattr] in H |- *; try discriminate.
    destruct Hr as [WS WN].
    assert (Hzero : forall venvS venvN, srd venvS venvN (RRec [0] (@TZero S)) (RRec [0] (@TZero R))).
    { intros. exists [sO], [rO]. spl; try reflexivity. cbn [combine]. apply simm_scalar. exact simc_zero. }
    destruct (blade2canon A nm) as [[cn|] swaps];
      [|inversion H; subst qN; eexists; split; [reflexivity|]; split; [split; exact wfk0 | intros; apply Hzero]].
    destruct (canon2bin A cn) as [b|];
      [|inversion H; subst qN; eexists; split; [reflexivity|]; split; [split; exact wfk0 | intros; apply Hzero]].
    assert (Hsg : forall s r, simc s r -> simc (if Z.odd swaps then sopp s else s) (if Z.odd swaps then ropp r else r)).
    { intros s r Hsr. destruct (Z.odd swaps); [apply simc_neg; exact Hsr | exact Hsr]. }
    assert (Hz0 : h sO = rO) by exact (homon_zero _ _ _ _ Hh).
    assert (Hr0 : (if Z.odd swaps then ropp rO else rO) = rO) by (destruct (Z.odd swaps); [apply ropp_zero | reflexivity]).
    destruct (zindex b ksN) as [idxN|] eqn:HzN; inversion H; subst qN; clear H;
      destruct (zindex b ksS) as [idxS|] eqn:HzS; (eexists; split; [reflexivity|]; split; [split; exact wfk0|]);
      intros venvS venvN [aS [aN [RS [RN [LS [LN Hsim]]]]]];
      pose proof (simw_coeff b _ _ (simm_simw _ _ Hsim)) as Hcb;
      pose proof (idx_coeff sO sI sadd smul ssub sopp b ksS aS (proj1 WS) LS) as HS; rewrite HzS in HS;
      pose proof (idx_coeff rO rI radd rmul rsub ropp b ksN aN (proj1 WN) LN) as HN; rewrite HzN in HN.
    - destruct HS as [vS [EvS EcS]]. destruct HN as [vN [EvN EcN]]. rewrite EcS, EcN in Hcb.
      eexists. eexists. rewrite (run_TIdx S sO sI sadd smul ssub sopp), RS, (run_TIdx R rO rI radd rmul rsub ropp), RN. cbn [bind].
      rewrite EvS, EvN. cbn [of_opt bind]. spl; try reflexivity. cbn [combine]. apply simm_scalar. apply Hsg. exact Hcb.
    - destruct HN as [vN [EvN EcN]]. rewrite HS, EcN in Hcb.
      eexists. eexists. rewrite (run_TIdx R rO rI radd rmul rsub ropp), RN. cbn [bind]. rewrite EvN. cbn [of_opt bind].
      split; [reflexivity|]. spl; try reflexivity. cbn [combine]. apply simm_scalar.
      destruct Hcb as [Q0 E0]. assert (EvN0 : vN = rO) by (rewrite <- E0; exact Hz0). rewrite EvN0.
      split; [exact Q0 | rewrite Hr0; exact Hz0].
    - destruct HS as [vS [EvS EcS]]. rewrite EcS, HN in Hcb.
      eexists. eexists. rewrite (run_TIdx S sO sI sadd smul ssub sopp), RS. cbn [bind]. rewrite EvS. cbn [of_opt bind].
      split; [reflexivity|]. split; [reflexivity|]. spl; try reflexivity. cbn [combine]. apply simm_scalar.
      apply Hsg in Hcb. rewrite Hr0 in Hcb. exact Hcb.
    - apply Hzero.
  Qed.

  (* the value lists bound to the parameters *)
  Definition EnvD (kenvS kenvN : list (list Z)) (venvS : list (list S)) (venvN : list (list R)) : Prop :=
    forall i ksS ksN, nth_error kenvS i = Some ksS -> nth_error kenvN i = Some ksN ->
      srd venvS venvN (RRec ksS (TArg i)) (RRec ksN (TArg i)).
  Definition mkr {T} (kt : list Z * tape T) : @rval T := RRec (fst kt) (snd kt).
  Lemma asrec_srs rS rN : srs rS rN -> srs (mkr (as_rec rS)) (mkr (as_rec rN)).
  Proof. destruct rS as [c|ks t], rN as [c'|ks' t']; cbn; try contradiction; [intros _; split; exact wfk0 | tauto]. Qed.
  Lemma asrec_srd venvS venvN rS rN : srs rS rN -> srd venvS venvN rS rN -> srd venvS venvN (mkr (as_rec rS)) (mkr (as_rec rN)).
  Proof.
    destruct rS as [c|ks t], rN as [c'|ks' t']; cbn [srs]; try contradiction; [|intros _ H; exact H].
    intros Hc0 _. cbn [as_rec mkr fst snd]. apply srd_num. exact Hc0.
  Qed.
  Lemma srs_shape rS rN : srs rS rN -> is_rec rS = is_rec rN.
  Proof. destruct rS, rN; cbn; tauto. Qed.
  Lemma mapM_run_sim venvS venvN ktsS ktsN :
    Forall2 (fun a b => srd venvS venvN (mkr a) (mkr b)) ktsS ktsN ->
    exists argsS argsN, mapM (runS venvS) (map snd ktsS) = Ok argsS /\ mapM (runN venvN) (map snd ktsN) = Ok argsN /\
      EnvD (map fst ktsS) (map fst ktsN) argsS argsN.
  Proof.
    induction 1 as [|[ksS tS] [ksN tN] lS lN H0 HF IH].
    - exists [], []. spl; try reflexivity. intros [|i] ? ? Hn; discriminate.
    - destruct IH as [argsS [argsN [ES [EN HE]]]]. unfold mkr in H0. cbn [srd fst snd] in H0.
      destruct H0 as [aS [aN [RS [RN [LS [LN Hsim]]]]]].
      exists (aS :: argsS), (aN :: argsN). cbn [map mapM snd]. rewrite RS, RN. cbn [bind]. rewrite ES, EN. cbn [bind].
      split; [reflexivity|]. split; [reflexivity|].
      intros [|i] k1 k1' Hn Hn'; cbn [map fst nth_error] in Hn, Hn'.
      + inversion Hn; inversion Hn'; subst. exists aS, aN. cbn. spl; try reflexivity; assumption.
      + exact (HE i k1 k1' Hn Hn').
  Qed.

  Theorem record_sim : forall fuel e kenvS kenvN rN, lits Q e ->
    Forall2 (fun a b => wfk' a /\ wfk' b) kenvS kenvN ->
    recN fuel kenvN (emap h e) = Ok rN ->
    exists rS, recS fuel kenvS e = Ok rS /\ srs rS rN /\
      forall venvS venvN, EnvD kenvS kenvN venvS venvN -> srd venvS venvN rS rN.
  Proof.
    induction fuel as [|fu IH]; intros e kenvS kenvN rN Hl Hk H; [discriminate|].
    assert (U1 : forall FS FN e1, SR1 FS FN -> lits Q e1 ->
              (x <- recN fu kenvN (emap h e1) ;; FN x) = Ok rN ->
              exists rS, (x <- recS fu kenvS e1 ;; FS x) = Ok rS /\ srs rS rN /\
                forall venvS venvN, EnvD kenvS kenvN venvS venvN -> srd venvS venvN rS rN).
    { intros FS FN e1 HF Hl1 H1. inv_bindn H1 as x Hx.
      destruct (IH e1 kenvS kenvN x Hl1 Hk Hx) as [x' [E [S0 D]]]. rewrite E. cbn [bind].
      destruct (HF x' x rN S0 H1) as [r' [E2 [S2 D2]]]. exists r'. split; [exact E2|]. split; [exact S2|].
      intros. apply D2, D. assumption. }
    assert (U2 : forall FS FN e1 e2, SR2 FS FN -> lits Q e1 -> lits Q e2 ->
              (x <- recN fu kenvN (emap h e1) ;; y <- recN fu kenvN (emap h e2) ;; FN x y) = Ok rN ->
              exists rS, (x <- recS fu kenvS e1 ;; y <- recS fu kenvS e2 ;; FS x y) = Ok rS /\ srs rS rN /\
                forall venvS venvN, EnvD kenvS kenvN venvS venvN -> srd venvS venvN rS rN).
    { intros FS FN e1 e2 HF Hl1 Hl2 H1. inv_bindn H1 as x Hx. inv_bindn H1 as y Hy.
      destruct (IH e1 kenvS kenvN x Hl1 Hk Hx) as [x' [E [S0 D]]]. rewrite E. cbn [bind].
      destruct (IH e2 kenvS kenvN y Hl2 Hk Hy) as [y' [E' [S' D']]]. rewrite E'. cbn [bind].
      destruct (HF x' x y' y rN S0 S' H1) as [r' [E2 [S2 D2]]]. exists r'. split; [exact E2|]. split; [exact S2|].
      intros. apply D2; [apply D | apply D']; assumption. }
    destruct e; cbn [emap lits] in Hl, H; cbn [record] in H |- *.
    - (* EArg *)
      inv_bindn H as ks Hks. inversion H; subst rN. clear H.
      destruct (nth_error kenvN i) as [ksN|] eqn:Hn; cbn in Hks; [|discriminate]. inversion Hks; subst ks.
      assert (Hx : exists ksS, nth_error kenvS i = Some ksS /\ wfk' ksS /\ wfk' ksN).
      { clear -Hk Hn. revert i Hn. induction Hk as [|a b l l' Hab HF IHF]; intros [|i] Hn; cbn [nth_error] in *; try discriminate.
        - inversion Hn; subst. exists a. split; [reflexivity | exact Hab].
        - apply (IHF i Hn). }
      destruct Hx as [ksS [HnS [WS WN]]]. rewrite HnS. cbn [of_opt bind].
      eexists. split; [reflexivity|]. split; [split; assumption|].
      intros venvS venvN HE. exact (HE i ksS ksN HnS Hn).
    - (* ENum *) inversion H; subst rN. exists (RNum c). split; [reflexivity|]. split; [split; [exact Hl | reflexivity] | intros; exact I].
    - exact (U1 _ _ e (sr_meth1 m) Hl H).
    - exact (U2 _ _ e1 e2 (sr_meth2 m) (proj1 Hl) (proj2 Hl) H).
    - exact (U1 _ _ e (sr_prefix u) Hl H).
    - exact (U2 _ _ e1 e2 (sr_infix o) (proj1 Hl) (proj2 Hl) H).
    - exact (U1 _ _ e (sr_pow n) Hl H).
    - exact (U1 _ _ e (sr_grade gs) Hl H).
    - exact (U1 _ _ e (sr_getattr nm) Hl H).
    - exact (U1 _ _ e (sr_dual false k) Hl H).
    - exact (U1 _ _ e (sr_dual true k) Hl H).
    - exact (U1 _ _ e sr_norm Hl H).
    - exact (U1 _ _ e sr_normalized Hl H).
    - (* ECall *)
      apply (proj1 (lits_call Q k args)) in Hl.
      inv_bindn H as rs Hrs.
      assert (HM : forall args0 rs0, Forall (lits Q) args0 -> mapM (recN fu kenvN) (map (emap h) args0) = Ok rs0 ->
                 exists rs', mapM (recS fu kenvS) args0 = Ok rs' /\ Forall2 srs rs' rs0 /\
                   forall venvS venvN, EnvD kenvS kenvN venvS venvN -> Forall2 (srd venvS venvN) rs' rs0).
      { clear rs Hrs H Hl. intros args0. induction args0 as [|a0 args0 IHa]; intros rs0 Hl0 Hm; cbn [map mapM] in Hm |- *.
        - inversion Hm; subst. exists []. split; [reflexivity|]. split; [constructor | intros; constructor].
        - inversion Hl0 as [|? ? Hla Hlr]; subst.
          inv_bindn Hm as y0 Hy0. inv_bindn Hm as ys Hys. inversion Hm; subst rs0. clear Hm.
          destruct (IH a0 kenvS kenvN y0 Hla Hk Hy0) as [x' [E [S0 D]]]. rewrite E. cbn [bind].
          destruct (IHa ys Hlr Hys) as [rs' [E' [S' D']]]. rewrite E'. cbn [bind].
          exists (x' :: rs'). split; [reflexivity|]. split; [constructor; assumption|].
          intros. constructor; [apply D | apply D']; assumption. }
      destruct (HM args rs Hl Hrs) as [rs' [E [S0 D]]]. rewrite E. cbn [bind].
      assert (Hsh : existsb is_rec rs' = existsb is_rec rs).
      { clear -S0. induction S0 as [|a b l l' Hab HF IHF]; cbn [existsb]; [reflexivity|]. rewrite IHF, (srs_shape a b Hab). reflexivity. }
      rewrite Hsh. destruct (existsb is_rec rs); cbn [negb] in H |- *; [|discriminate].
      inv_bindn H as bodyN HbodyN. inv_bindn H as rb Hrb.
      destruct (nth_error (map (emap h) bodies) k) as [bN|] eqn:EbN; cbn [of_opt] in HbodyN; [|discriminate].
      inversion HbodyN; subst bN. clear HbodyN.
      destruct (nth_map_inv _ _ _ _ EbN) as [body [Eb Ebody]]. subst bodyN. rewrite Eb. cbn [of_opt bind].
      assert (Hlb : lits Q body) by (eapply Forall_nth; [exact Hbodies | exact Eb]).
      assert (Hkin : Forall2 (fun a b => wfk' a /\ wfk' b) (map fst (map as_rec rs')) (map fst (map as_rec rs))).
      { clear -S0 Hwf. induction S0 as [|a b l l' Hab HF IHF]; cbn [map]; [constructor|]. constructor; [|exact IHF].
        apply asrec_srs in Hab. destruct (as_rec a) as [ka ta], (as_rec b) as [kb tb]. exact Hab. }
      destruct (IH body _ _ rb Hlb Hkin Hrb) as [rb' [Eb' [Sb Db]]]. rewrite Eb'. cbn [bind].
      destruct rb as [c|ko tb]; [discriminate|]. destruct rb' as [c'|ko' tb']; [contradiction|].
      inversion H; subst rN. clear H.
      eexists. split; [reflexivity|]. split; [exact Sb|].
      intros venvS venvN HE.
      assert (D2 : Forall2 (fun a b => srd venvS venvN (mkr a) (mkr b)) (map as_rec rs') (map as_rec rs)).
      { pose proof (D venvS venvN HE) as D0. clear -S0 D0 Hwf. induction S0 as [|a b l l' Hab HF IHF]; cbn [map]; [constructor|].
        inversion D0; subst. constructor; [apply asrec_srd; assumption | apply IHF; assumption]. }
      destruct (mapM_run_sim venvS venvN _ _ D2) as [argsS [argsN [ES [EN HEa]]]].
      destruct (Db argsS argsN HEa) as [aS [aN [RS [RN [LS [LN Hsim]]]]]].
      exists aS, aN. rewrite (run_TCall S sO sI sadd smul ssub sopp), ES, (run_TCall R rO rI radd rmul rsub ropp), EN. cbn [bind].
      spl; assumption.
  Qed.

  Lemma EnvD_mvs xs ys : Forall2 simm xs ys -> EnvD (map keys xs) (map keys ys) (map vals xs) (map vals ys).
  Proof.
    intros HF i ksS ksN HnS HnN.
    destruct (nth_map_inv _ _ _ _ HnS) as [x [Ex Ek]]. destruct (nth_map_inv _ _ _ _ HnN) as [y [Ey Ek']]. subst ksS ksN.
    destruct (Forall2_nth _ _ _ i x HF Ex) as [y1 [Ey1 Hxy]].
    assert (y1 = y) by (pose proof (eq_trans (eq_sym Ey1) Ey) as E0; inversion E0; reflexivity). subst y1.
    exists (vals x), (vals y). cbn [run_tape]. rewrite (map_nth_error vals i xs Ex), (map_nth_error vals i ys Ey). cbn [of_opt].
    split; [reflexivity|]. split; [reflexivity|]. rewrite !length_vals, !length_keys, !combine_keys_vals. spl; try reflexivity. exact Hxy.
  Qed.

  (* Registry.__call__ on symbolic multivectors simulates Registry.__call__ on their values *)
  Theorem registered_sim : reg_sim (registered OS A opdS tapetab bodies) (registered O A opdN tapetab (map (emap h) bodies)).
  Proof.
    intros fu k xs ys m HF H. unfold registered, compile in H |- *.
    inv_bindn H as kt Hkt. destruct kt as [ko tb]. inv_bindn Hkt as bodyN HbodyN. inv_bindn Hkt as rb Hrb.
    destruct rb as [c|ko0 tb0]; [discriminate|]. inversion Hkt; subst ko0 tb0. clear Hkt.
    inv_bindn H as vs Hvs. inversion H; subst m. clear H.
    destruct (nth_error (map (emap h) bodies) k) as [bN|] eqn:EbN; cbn [of_opt] in HbodyN; [|discriminate].
    inversion HbodyN; subst bN. clear HbodyN.
    destruct (nth_map_inv _ _ _ _ EbN) as [body [Eb Ebody]]. subst bodyN. rewrite Eb. cbn [of_opt bind].
    assert (Hlb : lits Q body) by (eapply Forall_nth; [exact Hbodies | exact Eb]).
    assert (Hkin : Forall2 (fun a b => wfk' a /\ wfk' b) (map keys xs) (map keys ys)).
    { clear -HF. induction HF as [|x y l l' Hxy HF IHF]; cbn [map]; [constructor|]. constructor; [|exact IHF].
      destruct (simm_wfm _ _ Hxy) as [W1 W2]. split; assumption. }
    destruct (record_sim fu body _ _ (RRec ko tb) Hlb Hkin Hrb) as [rS [ES [S0 D]]]. rewrite ES. cbn [bind].
    destruct rS as [c'|koS tbS]; [contradiction|]. cbn [bind].
    destruct (D _ _ (EnvD_mvs xs ys HF)) as [aS [aN [RS [RN [LS [LN Hsim]]]]]].
    rewrite RS. cbn [bind]. rewrite Hvs in RN. inversion RN; subst aN. eexists. split; [reflexivity | exact Hsim].
  Qed.
  End Rec.

  (* ---------- the symbolic run of a body simulates its numeric run ---------- *)
  (* the filter only drops stored pairs whose coefficient evaluates to zero *)
  Definition filter_sound (F : list (mv S) -> mv S -> mv S) : Prop :=
    forall xs X, all_coeffs Q X -> wfm S A X ->
      exists p, F xs X = filter p X /\ forall kv, In kv X -> p kv = false -> h (snd kv) = rO.

  Theorem symbolic_sim F mvtab tapetab (bodies : list (expr S)) :
    filter_sound F -> Forall (lits Q) bodies ->
    forall fuel (e : expr S) envS envN w, lits Q e -> Forall2 simm envS envN ->
      direct O A (std_opd O A no_ext) mvtab tapetab (map (emap h) bodies) fuel envN (emap h e) = Ok w ->
      exists v, symbolic_run OS A F (std_opd OS A no_ext) mvtab tapetab bodies fuel envS e = Ok v /\ simv v w.
  Proof.
    intros HF Hb fuel e envS envN w Hl Henv H. rewrite directG_direct in H. unfold symbolic_run.
    refine (sim_directG mvtab _ _ _ _ _ (registered_sim tapetab bodies Hb) fuel e envS envN w Hl Henv H).
    intros op xs ys m Hxy Hm.
    destruct (call_std_sim no_ext no_ext noext_sim op xs ys m Hxy Hm) as [m' [Em Sm]]. rewrite Em. cbn [bind].
    destruct (HF xs m' (proj1 (proj1 Sm)) (proj1 (simm_wfm _ _ Sm))) as [p [Ep Hp]]. eexists. split; [reflexivity|]. rewrite Ep.
    apply simm_filter; assumption.
  Qed.
End Sim.


(* ================= 3. RationalPolynomial symbols, evaluation at a valuation ================= *)
(* OperatorDict.filter and every filter like it: whatever is dropped tests zero ([rzero] = `not coefficient`).
   Instances: the filter of the default mode (always / only when an operand is symbolic) and no filter; the
   grade-wise filter of graded mode (Model/Graded.v filter_graded) is another one (Theory/Graded.v
   filter_graded_dropped). *)
Definition drops_zero_tests (A : alg) (F : list (mv rpoly) -> mv rpoly -> mv rpoly) : Prop :=
  forall xs X, wfm rpoly A X ->
    exists p, F xs X = filter p X /\ forall kv, In kv X -> p kv = false -> rzero (snd kv) = true.
Lemma filter_true {X} (l : list X) : filter (fun _ => true) l = l.
Proof. induction l as [|a l IH]; cbn [filter]; [reflexivity | rewrite IH; reflexivity]. Qed.
Lemma drops_filter_nz A : drops_zero_tests A (fun _ => filter_nz rzero).
Proof.
  intros xs X _. exists (fun kv => negb (rzero (snd kv))). split; [reflexivity|].
  intros kv _ H. apply negb_false_iff in H. exact H.
Qed.
Lemma drops_nothing A : drops_zero_tests A (fun _ X => X).
Proof. intros xs X _. exists (fun _ => true). split; [symmetry; apply filter_true | intros; discriminate]. Qed.
(* the filter applied under any condition on the operands ... *)
Lemma drops_when A (c : list (mv rpoly) -> bool) : drops_zero_tests A (fun xs X => if c xs then filter_nz rzero X else X).
Proof. intros xs X HX. destruct (c xs); [apply (drops_filter_nz A xs X HX) | apply (drops_nothing A xs X HX)]. Qed.
(* ... e.g. `if issymbolic and self.algebra.simp_func`: an operand is symbolic when it stores a symbolic coefficient *)
Definition filter_if_symbolic (xs : list (mv rpoly)) (X : mv rpoly) : mv rpoly :=
  if existsb (fun x : mv rpoly => match x with [] => false | _ => true end) xs then filter_nz rzero X else X.
Lemma drops_if_symbolic A : drops_zero_tests A filter_if_symbolic.
Proof.
  intros xs X HX. unfold filter_if_symbolic. destruct (existsb _ xs); [apply (drops_filter_nz A xs X HX) | apply (drops_nothing A xs X HX)].
Qed.

Definition val_is_num {T} (v : @val T) : bool := match v with VNum _ => true | VMv _ => false end.

Section RPoly.
  Variable R : Type.
  Variables (rO rI : R) (radd rmul rsub : R -> R -> R) (ropp : R -> R).
  Hypothesis Rth : ring_theory rO rI radd rmul rsub ropp (@eq R).
  Local Notation O := (mkOps R radd rsub rmul ropp rO rI).
  Local Notation "x == y" := (Sparse.equiv rO rI radd rmul rsub ropp x y) (at level 70, no associativity).
  Variable rho : nat -> R.                      (* the values substituted for the variables *)
  Local Notation ev := (Poly.N R rO rI radd rmul ropp rho).
  Local Notation zi := (Poly.zinj R rO rI radd rmul ropp).
  Variable A : alg.
  Hypothesis Hwf : wf_alg A = true.

  Lemma drops_sound F : drops_zero_tests A F ->
    filter_sound rpoly rpolyQ R rO ev A F.
  Proof.
    intros HF xs X HQ HX. destruct (HF xs X HX) as [p [Ep Hp]]. exists p. split; [exact Ep|].
    intros kv Hin Hpk. apply (rzero_sound R rO rI radd rmul rsub ropp Rth rho); [|apply (Hp kv Hin Hpk)].
    unfold all_coeffs in HQ. rewrite Forall_forall in HQ. apply HQ. exact Hin.
  Qed.

  Lemma simm_self (x : mv rpoly) : all_coeffs rpolyQ x -> wfm rpoly A x ->
    simm rpoly rpolyQ R rO rI radd rmul rsub ropp ev A x (map_mv ev x).
  Proof.
    intros HQ [Hn Hi]. split; [|split; [exact Hi | rewrite keys_map_mv; exact Hi]].
    split; [exact HQ|]. split; [exact Hn|]. split; [rewrite keys_map_mv; exact Hn|]. intros K. reflexivity.
  Qed.

  (* what the simulation relation says about the two results *)
  Lemma simv_agrees (v : @val rpoly) (w : @val R) :
    simv rpoly rpolyQ R rO rI radd rmul rsub ropp ev A v w ->
    val_is_num v = val_is_num w /\ all_coeffs rpolyQ (as_mv v) /\ wfm rpoly A (as_mv v)
    /\ map_mv ev (as_mv v) == as_mv w.
  Proof.
    intros H. split; [destruct v, w; cbn in H |- *; tauto|].
    pose proof (simv_as_mv rpoly rpolyQ R rO rI radd rmul rsub ropp ev A Hwf v w H) as Hm.
    destruct Hm as [[HQ [Hn [_ He]]] [Hi _]]. split; [exact HQ|]. split; [split; assumption | exact He].
  Qed.

  (* bodies whose number literals are any polynomials of the symbol class *)
  Theorem symbolic_agree_literals F mvtab tapetab (bodies : list (expr rpoly)) :
    drops_zero_tests A F -> Forall (lits rpolyQ) bodies ->
    forall fuel (body : expr rpoly) (xs : list (mv rpoly)) (w : @val R),
      lits rpolyQ body -> Forall (all_coeffs rpolyQ) xs -> Forall (wfm rpoly A) xs ->
      direct O A (std_opd O A no_ext) mvtab tapetab (map (emap ev) bodies) fuel (map (map_mv ev) xs) (emap ev body) = Ok w ->
      exists v, symbolic_run Rops A F (std_opd Rops A no_ext) mvtab tapetab bodies fuel xs body = Ok v
                /\ val_is_num v = val_is_num w /\ all_coeffs rpolyQ (as_mv v) /\ wfm rpoly A (as_mv v)
                /\ map_mv ev (as_mv v) == as_mv w.
  Proof.
    intros HF Hb fuel body xs w Hl HQ HW H.
    assert (Henv : Forall2 (simm rpoly rpolyQ R rO rI radd rmul rsub ropp ev A) xs (map (map_mv ev) xs)).
    { clear H. induction xs as [|x xs IH]; cbn [map]; [constructor|]. inversion HQ; inversion HW; subst.
      constructor; [apply simm_self; assumption | apply IH; assumption]. }
    destruct (symbolic_sim rpoly (R_of_Z 0) (R_of_Z 1) Model.Poly.radd Model.Poly.rmul Model.Poly.rsub rneg rpolyQ Rops_closed
                R rO rI radd rmul rsub ropp Rth ev (evN_hom_on R rO rI radd rmul rsub ropp Rth rho) A Hwf
                F mvtab tapetab bodies (drops_sound F HF) Hb fuel body xs (map (map_mv ev) xs) w Hl Henv H) as [v [Ev Sv]].
    exists v. split; [exact Ev | apply simv_agrees; exact Sv].
  Qed.

  (* bodies with integer literals: RationalPolynomial arithmetic with an int is arithmetic with the constant
     polynomial; on the numeric side the literal is the integer in the ring *)
  Theorem symbolic_agree F mvtab tapetab (bodies : list (expr Z)) :
    drops_zero_tests A F ->
    forall fuel (body : expr Z) (xs : list (mv rpoly)) (w : @val R),
      Forall (all_coeffs rpolyQ) xs -> Forall (wfm rpoly A) xs ->
      direct O A (std_opd O A no_ext) mvtab tapetab (map (emap zi) bodies) fuel (map (map_mv ev) xs) (emap zi body) = Ok w ->
      exists v, symbolic_run Rops A F (std_opd Rops A no_ext) mvtab tapetab (map (emap R_of_Z) bodies) fuel xs (emap R_of_Z body) = Ok v
                /\ val_is_num v = val_is_num w /\ all_coeffs rpolyQ (as_mv v) /\ wfm rpoly A (as_mv v)
                /\ map_mv ev (as_mv v) == as_mv w.
  Proof.
    intros HF fuel body xs w HQ HW H.
    assert (Ee : forall e : expr Z, emap ev (emap R_of_Z e) = emap zi e).
    { intros e. rewrite emap_emap. apply emap_ext. intros c. apply (N_R_of_Z R rO rI radd rmul rsub ropp Rth rho c). }
    apply (symbolic_agree_literals F mvtab tapetab (map (emap R_of_Z) bodies) HF); try assumption.
    - apply Forall_map. apply Forall_forall. intros e _. apply lits_emap. exact rpolyQ_R_of_Z.
    - apply lits_emap. exact rpolyQ_R_of_Z.
    - rewrite Ee, map_map. rewrite (map_ext _ _ Ee). exact H.
  Qed.
End RPoly.

(* ================= 4. the call alg.register(symbolic=True)(f)( *xs) ================= *)
(* OperatorDict.__getitem__: one fresh variable per stored key of each argument (here numbered consecutively; the
   theorems above hold for every numbering); the call substitutes the stored values *)
Fixpoint sym_args (n : nat) (kss : list (list Z)) : list (mv rpoly) :=
  match kss with
  | [] => []
  | ks :: r => combine ks (map R_of_var (seq n (length ks))) :: sym_args (n + length ks) r
  end.
Definition valuation {R} (d : R) (xs : list (mv R)) (n : nat) : R := nth n (concat (map vals xs)) d.

Lemma map_nth_seq {X} (d : X) (l : list X) : forall pre rest,
  map (fun i => nth i (pre ++ l ++ rest) d) (seq (length pre) (length l)) = l.
Proof.
  induction l as [|a l IH]; intros pre rest; [reflexivity|]. cbn [length seq map]. f_equal.
  - rewrite app_nth2 by lia. rewrite Nat.sub_diag. reflexivity.
  - replace (pre ++ (a :: l) ++ rest)%list with ((pre ++ [a]) ++ l ++ rest)%list by (rewrite <- app_assoc; reflexivity).
    replace (S (length pre)) with (length (pre ++ [a])%list) by (rewrite app_length; cbn; lia). apply IH.
Qed.
Lemma map_mv_combine {X Y} (g : X -> Y) ks (l : list X) : map_mv g (combine ks l) = combine ks (map g l).
Proof. revert l. induction ks as [|k ks IH]; intros [|a l]; cbn; try reflexivity. unfold map_mv in IH. rewrite IH. reflexivity. Qed.

Section Call.
  Variable R : Type.
  Variables (rO rI : R) (radd rmul rsub : R -> R -> R) (ropp : R -> R).
  Hypothesis Rth : ring_theory rO rI radd rmul rsub ropp (@eq R).
  Local Notation O := (mkOps R radd rsub rmul ropp rO rI).
  Local Notation "x == y" := (Sparse.equiv rO rI radd rmul rsub ropp x y) (at level 70, no associativity).
  Local Notation zi := (Poly.zinj R rO rI radd rmul ropp).
  Variable A : alg.
  Hypothesis Hwf : wf_alg A = true.

  Lemma sym_args_eval (xs : list (mv R)) : forall pre,
    map (map_mv (Poly.N R rO rI radd rmul ropp (fun n => nth n (pre ++ concat (map vals xs)) rO)))
        (sym_args (length pre) (map keys xs)) = xs.
  Proof.
    induction xs as [|x xs IH]; intros pre; [reflexivity|]. cbn [map sym_args concat]. f_equal.
    - rewrite map_mv_combine, map_map.
      rewrite (map_ext _ (fun i => nth i (pre ++ vals x ++ concat (map vals xs)) rO))
        by (intros i; apply (N_R_of_var R rO rI radd rmul rsub ropp Rth)).
      rewrite length_keys, <- (length_vals x), map_nth_seq. apply combine_keys_vals.
    - specialize (IH (pre ++ vals x)%list). rewrite app_length, length_vals, <- app_assoc in IH.
      rewrite length_keys. exact IH.
  Qed.
  Lemma sym_args_ok (kss : list (list Z)) : forall n, Forall (wfk A) kss ->
    Forall (all_coeffs rpolyQ) (sym_args n kss) /\ Forall (wfm rpoly A) (sym_args n kss).
  Proof.
    induction kss as [|ks kss IH]; intros n Hk; cbn [sym_args]; [split; constructor|].
    inversion Hk as [|? ? Hk1 Hk2]; subst. destruct (IH (n + length ks)%nat Hk2) as [I1 I2].
    split; constructor; try assumption.
    - unfold all_coeffs. apply Forall_forall. intros [k v] Hin. apply in_combine_r in Hin. apply in_map_iff in Hin.
      destruct Hin as [i [E _]]. cbn [snd]. rewrite <- E. apply rpolyQ_R_of_var.
    - unfold wfm. rewrite keys_combine by (rewrite map_length, seq_length; reflexivity). exact Hk1.
  Qed.

  (* alg.register(symbolic=True)(f)( *xs) versus f( *xs): every well-formed algebra, every commutative ring, every
     body (integer literals; any depth of calls of other registered functions), any arguments with pairwise
     distinct stored keys, any filter that only drops coefficients testing zero.  The numeric side runs in the
     table of the polynomial operators (no_ext: inv, div, sqrt and everything built on them raise there), so
     the hypothesis "f( *xs) returns" restricts the bodies to the division-free fragment.
     Conclusion: the symbolic run returns a value of the same kind, and its coefficient expressions - as stored,
     and in the canonical order do_codegen compiles them in - evaluate at the values of xs to the coefficients
     of f( *xs) on every blade. *)
  Theorem symbolic_call_agrees F mvtab tapetab (bodies : list (expr Z)) :
    drops_zero_tests A F ->
    forall fuel (body : expr Z) (xs : list (mv R)) (w : @val R),
      Forall (wfm R A) xs ->
      direct O A (std_opd O A no_ext) mvtab tapetab (map (emap zi) bodies) fuel xs (emap zi body) = Ok w ->
      exists v, symbolic_run Rops A F (std_opd Rops A no_ext) mvtab tapetab (map (emap R_of_Z) bodies) fuel
                             (sym_args 0 (map keys xs)) (emap R_of_Z body) = Ok v
                /\ val_is_num v = val_is_num w
                /\ map_mv (Poly.N R rO rI radd rmul ropp (valuation rO xs)) (as_mv v) == as_mv w
                /\ map_mv (Poly.N R rO rI radd rmul ropp (valuation rO xs)) (canon_sort A (as_mv v)) == as_mv w.
  Proof.
    intros HF fuel body xs w HW H.
    pose proof (sym_args_eval xs []) as Eargs. cbn [length app] in Eargs. fold (valuation rO xs) in Eargs.
    destruct (sym_args_ok (map keys xs) 0) as [HQ HWs].
    { apply Forall_forall. intros ks Hin. apply in_map_iff in Hin. destruct Hin as [x [E Hx]]. subst ks.
      rewrite Forall_forall in HW. exact (HW x Hx). }
    rewrite <- Eargs in H.
    destruct (symbolic_agree R rO rI radd rmul rsub ropp Rth (valuation rO xs) A Hwf F mvtab tapetab bodies HF fuel body
                (sym_args 0 (map keys xs)) w HQ HWs H) as [v [Ev [Hk [HvQ [HvW He]]]]].
    exists v. split; [exact Ev|]. split; [exact Hk|]. split; [exact He|].
    rewrite nat_canon_sort. intros K. rewrite <- (He K).
    apply (canon_sort_equiv R rO rI radd rmul rsub ropp A). rewrite keys_map_mv. apply HvW.
  Qed.
End Call.

(* ================= 5. a closed instance (non-vacuity) ================= *)
(* Algebra(2), integers, the bodies of Theory/Tape.v:  g0(a, b) = a*b + 2,
   f(a, b) = a.e21 * (7 - b.grade(1)) + g0(a, ~b) ** 2  (coefficient access, a number on the left, grade selection,
   a nested registered call, ~ and a power), the filter applied when an operand is symbolic *)
Example symbolic_example :
  exists v w,
    direct Zops exA (std_opd Zops exA no_ext) mv_methods tape_methods
           (map (emap (Poly.zinj Z 0 1 Z.add Z.mul Z.opp)) exbodies) 40 exargs
           (emap (Poly.zinj Z 0 1 Z.add Z.mul Z.opp) (nth 1 exbodies (ENum 0))) = Ok w /\
    symbolic_run Rops exA filter_if_symbolic (std_opd Rops exA no_ext) mv_methods tape_methods
                 (map (emap R_of_Z) exbodies) 40 (sym_args 0 (map keys exargs)) (emap R_of_Z (nth 1 exbodies (ENum 0))) = Ok v /\
    Sparse.equiv 0 1 Z.add Z.mul Z.sub Z.opp
      (map_mv (Poly.N Z 0 1 Z.add Z.mul Z.opp (valuation 0 exargs)) (as_mv v)) (as_mv w) /\
    as_mv w = [(0, 28); (1, 76); (2, 116); (3, 128)].
Proof.
  assert (Hwf : wf_alg exA = true) by (vm_compute; reflexivity).
  destruct (direct Zops exA (std_opd Zops exA no_ext) mv_methods tape_methods
              (map (emap (Poly.zinj Z 0 1 Z.add Z.mul Z.opp)) exbodies) 40 exargs
              (emap (Poly.zinj Z 0 1 Z.add Z.mul Z.opp) (nth 1 exbodies (ENum 0)))) as [w|e] eqn:Hp;
    [|vm_compute in Hp; discriminate].
  destruct (symbolic_call_agrees Z 0 1 Z.add Z.mul Z.sub Z.opp InitialRing.Zth exA Hwf filter_if_symbolic
              mv_methods tape_methods exbodies (drops_if_symbolic exA) 40 (nth 1 exbodies (ENum 0)) exargs w)
    as [v [Hv [_ [He _]]]].
  - apply Forall_wfm_b. vm_compute. reflexivity.
  - exact Hp.
  - exists v, w. split; [reflexivity|]. split; [exact Hv|]. split; [exact He|].
    vm_compute in Hp. inversion Hp. reflexivity.
Qed.

(* ================= 6. the table without inv / div / sqrt is a restriction of every table ================= *)
(* a run that returns in the table of the polynomial operators alone (no_ext: every other operator raises) returns
   the same value in the table extended by ANY ext: the hypothesis "f( *xs) returns under no_ext" of the theorems above
   selects the runs that never call inv / div / sqrt, it does not change what f computes *)
Definition opd_le {T} (opd opd' : optable T) : Prop := forall op kin kf, opd op kin = Ok kf -> opd' op kin = Ok kf.
Lemma std_noext_le {T} (OT : ops T) A ext : opd_le (std_opd OT A no_ext) (std_opd OT A ext).
Proof.
  intros op kin kf. unfold std_opd, no_ext. destruct kin as [|kx [|ky [|kz r]]]; try discriminate.
  - destruct (String.eqb op "polarity"); [auto|]. destruct (sassoc op poly1_table); [auto | discriminate].
  - destruct (sassoc op poly2_table); [auto | discriminate].
Qed.

Section TapeInd.
  Context {T : Type} (P : tape T -> Prop).
  Hypothesis HArg : forall i, P (TArg i).
  Hypothesis HZero : P TZero.
  Hypothesis HOne : P TOne.
  Hypothesis HNum : forall c, P (TNum c).
  Hypothesis HIdx : forall neg t idx, P t -> P (TIdx neg t idx).
  Hypothesis HSel : forall t idxs, P t -> P (TSel t idxs).
  Hypothesis HOp : forall op kin ts, Forall P ts -> P (TOp op kin ts).
  Hypothesis HCall : forall k kin body ts, P body -> Forall P ts -> P (TCall k kin body ts).
  Fixpoint tape_nested_ind (t : tape T) : P t :=
    let fix go (l : list (tape T)) : Forall P l :=
      match l with [] => Forall_nil P | a :: r => Forall_cons a (tape_nested_ind a) (go r) end in
    match t with
    | TArg i => HArg i
    | TZero => HZero
    | TOne => HOne
    | TNum c => HNum c
    | TIdx neg t0 idx => HIdx neg t0 idx (tape_nested_ind t0)
    | TSel t0 idxs => HSel t0 idxs (tape_nested_ind t0)
    | TOp op kin ts => HOp op kin ts (go ts)
    | TCall k kin body ts => HCall k kin body ts (tape_nested_ind body) (go ts)
    end.
End TapeInd.

Section Mono.
  Context {T : Type} (OT : ops T).
  Variable A : alg.
  Variables opd opd' : optable T.
  Hypothesis Hle : opd_le opd opd'.

  Lemma call_le op xs m : call_op opd op xs = Ok m -> call_op opd' op xs = Ok m.
  Proof. unfold call_op. intros H. inv_bindn H as kf Hkf. rewrite (Hle _ _ _ Hkf). exact H. Qed.

  Lemma run_TOp_gen (o : optable T) env op kin ts :
    run_tape OT o env (TOp op kin ts) = ('(_, f) <- o op kin ;; args <- mapM (run_tape OT o env) ts ;; f args).
  Proof.
    cbn. destruct (o op kin) as [[ko f]|e]; cbn [bind]; [|reflexivity].
    match goal with |- bind (?F ts) _ = _ =>
      assert (E : F ts = mapM (run_tape OT o env) ts)
        by (induction ts as [|t0 ts IH]; [reflexivity | cbn; rewrite IH; reflexivity]) end.
    rewrite E. reflexivity.
  Qed.
  Lemma run_TCall_gen (o : optable T) env k kin tb ts :
    run_tape OT o env (TCall k kin tb ts) = (args <- mapM (run_tape OT o env) ts ;; run_tape OT o args tb).
  Proof.
    cbn.
    match goal with |- bind (?F ts) _ = _ =>
      assert (E : F ts = mapM (run_tape OT o env) ts)
        by (induction ts as [|t0 ts IH]; [reflexivity | cbn; rewrite IH; reflexivity]) end.
    rewrite E. reflexivity.
  Qed.
  Lemma mapM_le {X Y} (f g : X -> res Y) l r : Forall (fun x => forall y, f x = Ok y -> g x = Ok y) l ->
    mapM f l = Ok r -> mapM g l = Ok r.
  Proof.
    intros HF. revert r. induction HF as [|x l Hx HF IH]; intros r H; cbn [mapM] in *; [exact H|].
    inv_bindn H as y Hy. inv_bindn H as ys Hys. rewrite (Hx y Hy), (IH ys Hys). exact H.
  Qed.
  Lemma run_le t : forall env vs, run_tape OT opd env t = Ok vs -> run_tape OT opd' env t = Ok vs.
  Proof.
    induction t using tape_nested_ind; intros env vs Hr; try exact Hr.
    - cbn [run_tape] in *. inv_bindn Hr as a Ha. rewrite (IHt env a Ha). exact Hr.
    - cbn [run_tape] in *. inv_bindn Hr as a Ha. rewrite (IHt env a Ha). exact Hr.
    - rewrite run_TOp_gen in *. inv_bindn Hr as kf Hkf. rewrite (Hle _ _ _ Hkf). cbn [bind]. destruct kf as [ko f].
      inv_bindn Hr as args Hargs. rewrite (mapM_le (run_tape OT opd env) (run_tape OT opd' env) ts args); [exact Hr | | exact Hargs].
      eapply Forall_impl; [|exact H]. intros t0 Ht0 y. apply Ht0.
    - rewrite run_TCall_gen in *. inv_bindn Hr as args Hargs.
      rewrite (mapM_le (run_tape OT opd env) (run_tape OT opd' env) ts args); [cbn [bind]; apply IHt; exact Hr | | exact Hargs].
      eapply Forall_impl; [|exact H]. intros t0 Ht0 y. apply Ht0.
  Qed.

  Variable tapetab : mtable.
  Local Notation rv := (@rval T).
  Definition le1 (F F' : rv -> res rv) : Prop := forall r q, F r = Ok q -> F' r = Ok q.
  Definition le2 (F F' : rv -> rv -> res rv) : Prop := forall r1 r2 q, F r1 r2 = Ok q -> F' r1 r2 = Ok q.
  Lemma le_unary op ks t q : rec_unary opd op ks t = Ok q -> rec_unary opd' op ks t = Ok q.
  Proof. unfold rec_unary. intros H. inv_bindn H as kf Hkf. rewrite (Hle _ _ _ Hkf). exact H. Qed.
  Lemma le_binary op ks t r2 q : rec_binary opd op ks t r2 = Ok q -> rec_binary opd' op ks t r2 = Ok q.
  Proof. destruct r2; cbn [rec_binary]; intros H; inv_bindn H as kf Hkf; rewrite (Hle _ _ _ Hkf); exact H. Qed.
  Lemma le_meth1 m : le1 (rec_meth1 opd tapetab m) (rec_meth1 opd' tapetab m).
  Proof.
    intros [c|ks t] q H; cbn [rec_meth1] in *; [exact H|].
    destruct (mlookup m tapetab) as [[[op sw] [|[|ar]]]|]; try exact H. apply le_unary. exact H.
  Qed.
  Lemma le_meth2tab m : le2 (rec_meth2tab opd tapetab m) (rec_meth2tab opd' tapetab m).
  Proof.
    intros [c|ks t] r2 q H; cbn [rec_meth2tab] in *; [exact H|].
    destruct (mlookup m tapetab) as [[[op sw] [|[|[|ar]]]]|]; try exact H. apply le_binary. exact H.
  Qed.
  Lemma le_special m : le2 (rec_special opd tapetab m) (rec_special opd' tapetab m).
  Proof.
    intros r1 r2 q H. unfold rec_special in *. destruct (String.eqb m "__rsub__").
    - inv_bindn H as n Hn. rewrite (le_meth1 _ _ _ Hn). cbn [bind]. destruct r2; apply le_meth2tab; exact H.
    - destruct (String.eqb m "__rmul__"); [destruct r2; apply le_meth2tab; exact H|].
      destruct (String.eqb m "__rxor__"); [destruct r2; apply le_meth2tab; exact H | exact H].
  Qed.
  Lemma le_meth2 m : le2 (rec_meth2 opd tapetab m) (rec_meth2 opd' tapetab m).
  Proof.
    intros [c|ks t] r2 q H; cbn [rec_meth2] in *; [exact H|].
    destruct (mlookup m tapetab); [apply le_meth2tab | apply le_special]; exact H.
  Qed.
  Lemma le_prefix u : le1 (rec_prefix OT opd tapetab u) (rec_prefix OT opd' tapetab u).
  Proof. intros [c|ks t] q H; cbn [rec_prefix] in *; [exact H | apply le_meth1; exact H]. Qed.
  Lemma le_infix o : le2 (rec_infix OT opd tapetab o) (rec_infix OT opd' tapetab o).
  Proof. intros [a|k1 t1] [b|k2 t2] q H; cbn [rec_infix] in *; try exact H; apply le_meth2; exact H. Qed.
  Lemma le_pow_loop n x : forall acc q, pow_loop n (fun a => rec_meth2 opd tapetab "gp" a x) acc = Ok q ->
    pow_loop n (fun a => rec_meth2 opd' tapetab "gp" a x) acc = Ok q.
  Proof.
    induction n as [|n IH]; intros acc q H; cbn [pow_loop] in *; [exact H|].
    inv_bindn H as y Hy. rewrite (le_meth2 _ _ _ _ Hy). cbn [bind]. apply IH. exact H.
  Qed.
  Lemma le_pow n : le1 (fun r => rec_pow opd tapetab r n) (fun r => rec_pow opd' tapetab r n).
  Proof.
    intros [c|ks t] q H; cbn [rec_pow] in *; [exact H|]. destruct (n =? 0); [exact H|].
    inv_bindn H as x Hx. destruct (n <? 0).
    - rewrite (le_meth1 _ _ _ Hx). cbn [bind]. apply le_pow_loop. exact H.
    - rewrite Hx. cbn [bind]. apply le_pow_loop. exact H.
  Qed.
  Lemma le_dual un k : le1 (fun r => rec_dual A opd tapetab un r k) (fun r => rec_dual A opd' tapetab un r k).
  Proof.
    intros [c|ks t] q H; cbn [rec_dual] in *; [exact H|]. inv_bindn H as m Hm. rewrite Hm. cbn [bind]. apply le_meth1. exact H.
  Qed.
  Lemma le_norm : le1 (rec_norm opd tapetab) (rec_norm opd' tapetab).
  Proof. intros r q H. unfold rec_norm in *. inv_bindn H as n Hn. rewrite (le_meth1 _ _ _ Hn). cbn [bind]. apply le_meth1. exact H. Qed.
  Lemma le_normalized : le1 (rec_normalized OT opd tapetab) (rec_normalized OT opd' tapetab).
  Proof.
    intros [c|ks t] q H; cbn [rec_normalized] in *; [exact H|]. inv_bindn H as n Hn. rewrite (le_norm _ _ Hn). cbn [bind].
    apply le_infix. exact H.
  Qed.

  Variable bodies : list (expr T).
  Lemma record_le : forall fuel kenv e r, record OT A opd tapetab bodies fuel kenv e = Ok r ->
    record OT A opd' tapetab bodies fuel kenv e = Ok r.
  Proof.
    induction fuel as [|fu IH]; intros kenv e r H; [discriminate|].
    assert (U1 : forall (F F' : rv -> res rv) e1, le1 F F' ->
              (x <- record OT A opd tapetab bodies fu kenv e1 ;; F x) = Ok r ->
              (x <- record OT A opd' tapetab bodies fu kenv e1 ;; F' x) = Ok r).
    { intros F F' e1 HF H1. inv_bindn H1 as x Hx. rewrite (IH _ _ _ Hx). cbn [bind]. apply HF. exact H1. }
    assert (U2 : forall (F F' : rv -> rv -> res rv) e1 e2, le2 F F' ->
              (x <- record OT A opd tapetab bodies fu kenv e1 ;; y <- record OT A opd tapetab bodies fu kenv e2 ;; F x y) = Ok r ->
              (x <- record OT A opd' tapetab bodies fu kenv e1 ;; y <- record OT A opd' tapetab bodies fu kenv e2 ;; F' x y) = Ok r).
    { intros F F' e1 e2 HF H1. inv_bindn H1 as x Hx. inv_bindn H1 as y Hy. rewrite (IH _ _ _ Hx), (IH _ _ _ Hy). cbn [bind].
      apply HF. exact H1. }
    destruct e; cbn [record] in H |- *; try exact H.
    - exact (U1 _ _ e (le_meth1 m) H).
    - exact (U2 _ _ e1 e2 (le_meth2 m) H).
    - exact (U1 _ _ e (le_prefix u) H).
    - exact (U2 _ _ e1 e2 (le_infix o) H).
    - exact (U1 _ _ e (le_pow n) H).
    - exact (U1 (fun r0 => rec_grade A r0 gs) (fun r0 => rec_grade A r0 gs) e (fun _ _ H0 => H0) H).
    - exact (U1 (fun r0 => rec_getattr A r0 nm) (fun r0 => rec_getattr A r0 nm) e (fun _ _ H0 => H0) H).
    - exact (U1 _ _ e (le_dual false k) H).
    - exact (U1 _ _ e (le_dual true k) H).
    - exact (U1 _ _ e le_norm H).
    - exact (U1 _ _ e le_normalized H).
    - inv_bindn H as rs Hrs.
      rewrite (mapM_le (record OT A opd tapetab bodies fu kenv) (record OT A opd' tapetab bodies fu kenv) args rs); [| |exact Hrs].
      + cbn [bind]. destruct (negb (existsb is_rec rs)); [exact H|].
        inv_bindn H as body Hbody. rewrite Hbody. cbn [bind]. inv_bindn H as rb Hrb. rewrite (IH _ _ _ Hrb). exact H.
      + apply Forall_forall. intros a _ y. apply IH.
  Qed.
  Lemma registered_le fuel k xs m : registered OT A opd tapetab bodies fuel k xs = Ok m ->
    registered OT A opd' tapetab bodies fuel k xs = Ok m.
  Proof.
    unfold registered, compile. intros H. inv_bindn H as kt Hkt. inv_bindn Hkt as body Hbody. inv_bindn Hkt as rb Hrb.
    rewrite Hbody. cbn [bind]. rewrite (record_le _ _ _ _ Hrb). cbn [bind]. rewrite Hkt. cbn [bind]. destruct kt as [ko tb].
    inv_bindn H as vs Hvs. rewrite (run_le _ _ _ Hvs). exact H.
  Qed.
End Mono.

(* [directG] is monotone in its two parameters *)
Lemma directG_le {T} (OT : ops T) A call call' reg reg' mvtab :
  (forall op xs m, call op xs = Ok m -> call' op xs = Ok m) ->
  (forall fu k xs m, reg fu k xs = Ok m -> reg' fu k xs = Ok m) ->
  forall fuel env e w, directG OT A call reg mvtab fuel env e = Ok w -> directG OT A call' reg' mvtab fuel env e = Ok w.
Proof.
  intros Hcl Hrg.
  assert (M1 : forall m v w, g_meth1 call mvtab m v = Ok w -> g_meth1 call' mvtab m v = Ok w).
  { intros m [c|x] w H; cbn [g_meth1] in *; [exact H|]. destruct (mlookup m mvtab) as [[[op sw] [|[|ar]]]|]; try exact H.
    inv_bindn H as r Hr. rewrite (Hcl _ _ _ Hr). exact H. }
  assert (M2 : forall m v1 v2 w, g_meth2 call mvtab m v1 v2 = Ok w -> g_meth2 call' mvtab m v1 v2 = Ok w).
  { intros m [c|x] v2 w H; cbn [g_meth2] in *; [exact H|]. destruct (mlookup m mvtab) as [[[op sw] [|[|[|ar]]]]|]; try exact H.
    inv_bindn H as r Hr. destruct sw; rewrite (Hcl _ _ _ Hr); exact H. }
  assert (MI : forall o v1 v2 w, g_infix OT call mvtab o v1 v2 = Ok w -> g_infix OT call' mvtab o v1 v2 = Ok w).
  { intros o [a|x] [b|y] w H; cbn [g_infix] in *; try exact H; apply M2; exact H. }
  assert (MN : forall v w, g_norm call mvtab v = Ok w -> g_norm call' mvtab v = Ok w).
  { intros v w H. unfold g_norm in *. inv_bindn H as n Hn. rewrite (M1 _ _ _ Hn). cbn [bind]. apply M1. exact H. }
  assert (ML : forall n x acc w, pow_loop n (fun r => g_meth2 call mvtab "gp" r x) acc = Ok w ->
                 pow_loop n (fun r => g_meth2 call' mvtab "gp" r x) acc = Ok w).
  { induction n as [|n IHn]; intros x acc w H; cbn [pow_loop] in *; [exact H|].
    inv_bindn H as y Hy. rewrite (M2 _ _ _ _ Hy). cbn [bind]. apply IHn. exact H. }
  induction fuel as [|fu IH]; intros env e w H; [discriminate|].
  destruct e; cbn [directG] in H |- *; try exact H.
  - inv_bindn H as v Hv. rewrite (IH _ _ _ Hv). cbn [bind]. apply M1. exact H.
  - inv_bindn H as v1 Hv1. inv_bindn H as v2 Hv2. rewrite (IH _ _ _ Hv1), (IH _ _ _ Hv2). cbn [bind]. apply M2. exact H.
  - inv_bindn H as v Hv. rewrite (IH _ _ _ Hv). cbn [bind]. destruct v as [c|x]; cbn [g_prefix] in *; [exact H | apply M1; exact H].
  - inv_bindn H as v1 Hv1. inv_bindn H as v2 Hv2. rewrite (IH _ _ _ Hv1), (IH _ _ _ Hv2). cbn [bind]. apply MI. exact H.
  - inv_bindn H as v Hv. rewrite (IH _ _ _ Hv). cbn [bind]. destruct v as [c|x]; cbn [g_pow] in *; [exact H|].
    destruct (n =? 0); [exact H|]. inv_bindn H as b Hb. destruct (n <? 0).
    + rewrite (M1 _ _ _ Hb). cbn [bind]. apply ML. exact H.
    + rewrite Hb. cbn [bind]. apply ML. exact H.
  - inv_bindn H as v Hv. rewrite (IH _ _ _ Hv). cbn [bind]. exact H.
  - inv_bindn H as v Hv. rewrite (IH _ _ _ Hv). cbn [bind]. exact H.
  - inv_bindn H as v Hv. rewrite (IH _ _ _ Hv). cbn [bind]. destruct v as [c|x]; cbn [g_dual] in *; [exact H|].
    inv_bindn H as m Hm. rewrite Hm. cbn [bind]. apply M1. exact H.
  - inv_bindn H as v Hv. rewrite (IH _ _ _ Hv). cbn [bind]. destruct v as [c|x]; cbn [g_dual] in *; [exact H|].
    inv_bindn H as m Hm. rewrite Hm. cbn [bind]. apply M1. exact H.
  - inv_bindn H as v Hv. rewrite (IH _ _ _ Hv). cbn [bind]. apply MN. exact H.
  - inv_bindn H as v Hv. rewrite (IH _ _ _ Hv). cbn [bind]. destruct v as [c|x]; cbn [g_normalized] in *; [exact H|].
    inv_bindn H as n Hn. rewrite (MN _ _ Hn). cbn [bind]. apply MI. exact H.
  - inv_bindn H as vs Hvs. rewrite (mapM_le (directG OT A call reg mvtab fu env) (directG OT A call' reg' mvtab fu env) args vs); [| |exact Hvs].
    + cbn [bind]. inv_bindn H as m Hm. rewrite (Hrg _ _ _ _ Hm). exact H.
    + apply Forall_forall. intros a _ y. apply IH.
Qed.

Theorem direct_noext_le {T} (OT : ops T) A ext mvtab tapetab bodies fuel env e w :
  direct OT A (std_opd OT A no_ext) mvtab tapetab bodies fuel env e = Ok w ->
  direct OT A (std_opd OT A ext) mvtab tapetab bodies fuel env e = Ok w.
Proof.
  rewrite !directG_direct. apply directG_le.
  - intros op xs m. apply call_le. apply std_noext_le.
  - intros fu k xs m. apply registered_le. apply std_noext_le.
Qed.
