(* Theory/Cache.v — history- and schedule-independence of kingdon's operator caches (C09, C10).
   Proofs about the executable model Model/Cache.v. *)
From KV Require Import Model.Cache.
From Coq Require Import Lia NArith.
Local Open Scope nat_scope.

(* ------------------------------------------------------------------ *)
(* 0. Reflection of the boolean equalities                             *)
(* ------------------------------------------------------------------ *)

Lemma list_eqb_spec {A} (eqb : A -> A -> bool) :
  (forall a b, eqb a b = true <-> a = b) ->
  forall l1 l2, list_eqb eqb l1 l2 = true <-> l1 = l2.
Proof.
  intros Heq l1. induction l1 as [|a r1 IH]; intros [|b r2]; simpl.
  - tauto.
  - split; discriminate.
  - split; discriminate.
  - rewrite andb_true_iff, Heq, IH. split.
    + intros [-> ->]. reflexivity.
    + intros H. inversion H. auto.
Qed.

Lemma opt_eqb_spec {A} (eqb : A -> A -> bool) :
  (forall a b, eqb a b = true <-> a = b) ->
  forall x y, opt_eqb eqb x y = true <-> x = y.
Proof.
  intros Heq [a|] [b|]; simpl.
  - rewrite Heq. split; [intros ->; reflexivity | intros H; inversion H; reflexivity].
  - split; discriminate.
  - split; discriminate.
  - tauto.
Qed.

Lemma lz_eqb_spec : forall a b, lz_eqb a b = true <-> a = b.
Proof. apply list_eqb_spec. apply Z.eqb_eq. Qed.

Lemma okey_eqb_spec : forall a b, okey_eqb a b = true <-> a = b.
Proof.
  intros [a1 a2] [b1 b2]. unfold okey_eqb. simpl.
  rewrite andb_true_iff, Nat.eqb_eq, (list_eqb_spec lz_eqb lz_eqb_spec). split.
  - intros [-> ->]. reflexivity.
  - intros H. inversion H. auto.
Qed.

Lemma fn_eqb_spec : forall a b, fn_eqb a b = true <-> a = b.
Proof.
  intros [a] [b]. simpl. rewrite okey_eqb_spec. split.
  - intros ->. reflexivity.
  - intros H. inversion H. reflexivity.
Qed.

Lemma fname_eqb_spec : forall a b, fname_eqb a b = true <-> a = b.
Proof.
  intros [[a1 a2] a3] [[b1 b2] b3]. unfold fname_eqb. simpl.
  rewrite !andb_true_iff, !Nat.eqb_eq, (list_eqb_spec N.eqb N.eqb_eq). split.
  - intros [[-> ->] ->]. reflexivity.
  - intros H. inversion H. auto.
Qed.

Lemma okey_eqb_refl : forall a, okey_eqb a a = true.
Proof. intros a. apply okey_eqb_spec. reflexivity. Qed.
Lemma fn_eqb_refl : forall a, fn_eqb a a = true.
Proof. intros a. apply fn_eqb_spec. reflexivity. Qed.
Lemma fname_eqb_refl : forall a, fname_eqb a a = true.
Proof. intros a. apply fname_eqb_spec. reflexivity. Qed.

Lemma okey_eqb_false : forall a b, okey_eqb a b = false <-> a <> b.
Proof.
  intros a b. rewrite <- okey_eqb_spec. destruct (okey_eqb a b); split; congruence.
Qed.
Lemma fname_eqb_false : forall a b, fname_eqb a b = false <-> a <> b.
Proof.
  intros a b. rewrite <- fname_eqb_spec. destruct (fname_eqb a b); split; congruence.
Qed.

Lemma okey_eq_dec : forall a b : okey, {a = b} + {a <> b}.
Proof.
  intros a b. destruct (okey_eqb a b) eqn:E.
  - left. apply okey_eqb_spec. exact E.
  - right. apply okey_eqb_false. exact E.
Qed.

(* ------------------------------------------------------------------ *)
(* 1. Association lists                                                *)
(* ------------------------------------------------------------------ *)

Section AList.
  Context {K V : Type} (eqb : K -> K -> bool).
  Hypothesis eqb_spec : forall a b, eqb a b = true <-> a = b.

  Lemma eqb_refl_gen : forall a, eqb a a = true.
  Proof. intros a. apply eqb_spec. reflexivity. Qed.

  Lemma eqb_neq_gen : forall a b, a <> b -> eqb a b = false.
  Proof.
    intros a b H. destruct (eqb a b) eqn:E; [|reflexivity].
    apply eqb_spec in E. contradiction.
  Qed.

  Lemma alookup_aset_same : forall k (v : V) l, alookup eqb k (aset eqb k v l) = Some v.
  Proof.
    intros k v l. induction l as [|[k' v'] r IH]; simpl.
    - rewrite eqb_refl_gen. reflexivity.
    - destruct (eqb k' k) eqn:E; simpl; rewrite E; auto.
  Qed.

  Lemma alookup_aset_other : forall k k' (v : V) l, k <> k' ->
    alookup eqb k' (aset eqb k v l) = alookup eqb k' l.
  Proof.
    intros k k' v l Hne. induction l as [|[k0 v0] r IH]; simpl.
    - rewrite (eqb_neq_gen k k' Hne). reflexivity.
    - destruct (eqb k0 k) eqn:E; simpl.
      + apply eqb_spec in E. subst k0. rewrite (eqb_neq_gen k k' Hne). reflexivity.
      + destruct (eqb k0 k'); auto.
  Qed.

  Lemma alookup_app : forall k (l1 l2 : list (K * V)),
    alookup eqb k (l1 ++ l2) =
    match alookup eqb k l1 with Some v => Some v | None => alookup eqb k l2 end.
  Proof.
    intros k l1 l2. induction l1 as [|[k' v'] r IH]; simpl; auto.
    destruct (eqb k' k); auto.
  Qed.

  Lemma alookup_app_some : forall k v (l1 l2 : list (K * V)),
    alookup eqb k l1 = Some v -> alookup eqb k (l1 ++ l2) = Some v.
  Proof. intros k v l1 l2 H. rewrite alookup_app, H. reflexivity. Qed.

  Lemma alookup_snoc_new : forall k (v : V) l,
    alookup eqb k l = None -> alookup eqb k (l ++ [(k, v)]) = Some v.
  Proof.
    intros k v l H. rewrite alookup_app, H. simpl. rewrite eqb_refl_gen. reflexivity.
  Qed.

  Lemma alookup_some_in : forall k (v : V) l, alookup eqb k l = Some v -> In (k, v) l.
  Proof.
    intros k v l. induction l as [|[k' v'] r IH]; simpl; [discriminate|].
    destruct (eqb k' k) eqn:E.
    - intros H. inversion H. subst. apply eqb_spec in E. subst. left. reflexivity.
    - intros H. right. auto.
  Qed.
End AList.

Definition alookup_cache_set_same := @alookup_aset_same okey entry okey_eqb okey_eqb_spec.
Definition alookup_cache_set_other := @alookup_aset_other okey entry okey_eqb okey_eqb_spec.
Definition alookup_ns_app_some := @alookup_app_some fname fn fname_eqb.
Definition alookup_ns_snoc_new := @alookup_snoc_new fname fn fname_eqb fname_eqb_spec.

(* ------------------------------------------------------------------ *)
(* 2. claim: the setdefault loop always finds a fresh name            *)
(* ------------------------------------------------------------------ *)

(* the entries of the namespace whose name is [nm] with at least as many '_' appended *)
Definition above (nm : fname) (p : fname * fn) : bool :=
  Nat.eqb (fst (fst (fst p))) (fst (fst nm)) && list_eqb N.eqb (snd (fst (fst p))) (snd (fst nm))
  && Nat.leb (snd nm) (snd (fst p)).
Definition cnt (nm : fname) (ns : list (fname * fn)) : nat := length (filter (above nm) ns).

Lemma above_bump : forall nm p, above (bump nm) p = true -> above nm p = true.
Proof.
  intros [[a b] c] [[[a' b'] c'] g]. unfold above, bump. cbn [fst snd].
  rewrite !andb_true_iff, !Nat.leb_le. intros [[H1 H2] H3]. repeat split; auto. lia.
Qed.

Lemma above_self : forall nm f, above nm (nm, f) = true.
Proof.
  intros [[a b] c] f. unfold above. simpl.
  rewrite Nat.eqb_refl, Nat.leb_refl. simpl.
  rewrite andb_true_r. apply (list_eqb_spec N.eqb N.eqb_eq). reflexivity.
Qed.

Lemma above_bump_self : forall nm f, above (bump nm) (nm, f) = false.
Proof.
  intros [[a b] c] f. unfold above, bump. cbn [fst snd].
  replace (Nat.leb (S c) c) with false.
  - apply andb_false_r.
  - symmetry. apply Nat.leb_gt. lia.
Qed.

Lemma cnt_le_length : forall nm ns, cnt nm ns <= length ns.
Proof.
  intros nm ns. unfold cnt. induction ns as [|p r IH]; simpl; [lia|].
  destruct (above nm p); simpl; lia.
Qed.

Lemma cnt_bump_le : forall nm ns, cnt (bump nm) ns <= cnt nm ns.
Proof.
  intros nm ns. unfold cnt. induction ns as [|p r IH]; simpl; [lia|].
  destruct (above (bump nm) p) eqn:E.
  - rewrite (above_bump _ _ E). simpl. lia.
  - destruct (above nm p); simpl; lia.
Qed.

Lemma cnt_bump_lt : forall nm ns f,
  alookup fname_eqb nm ns = Some f -> cnt (bump nm) ns < cnt nm ns.
Proof.
  intros nm ns f. unfold cnt. induction ns as [|[k v] r IH]; simpl; [discriminate|].
  destruct (fname_eqb k nm) eqn:E.
  - intros _. apply fname_eqb_spec in E. subst k.
    rewrite above_bump_self, above_self. simpl.
    pose proof (cnt_bump_le nm r) as H. unfold cnt in H. lia.
  - intros H. specialize (IH H).
    destruct (above (bump nm) (k, v)) eqn:E2.
    + rewrite (above_bump _ _ E2). simpl. lia.
    + destruct (above nm (k, v)); simpl; lia.
Qed.

(* the loop ends in its [None] branch: the returned name was free and is appended, bound to [f];
   nothing else changes *)
Lemma claim_fresh_gen : forall fuel ns nm f,
  cnt nm ns <= fuel ->
  alookup fname_eqb (fst (claim fuel ns nm f)) ns = None /\
  snd (claim fuel ns nm f) = ns ++ [(fst (claim fuel ns nm f), f)].
Proof.
  induction fuel as [|fu IH]; intros ns nm f Hc; simpl.
  - destruct (alookup fname_eqb nm ns) eqn:E.
    + apply cnt_bump_lt in E. lia.
    + simpl. auto.
  - destruct (alookup fname_eqb nm ns) eqn:E.
    + apply IH. apply cnt_bump_lt in E. lia.
    + simpl. auto.
Qed.

Lemma claim_fresh : forall ns nm f nm' ns',
  claim (S (length ns)) ns nm f = (nm', ns') ->
  alookup fname_eqb nm' ns = None /\ ns' = ns ++ [(nm', f)].
Proof.
  intros ns nm f nm' ns' H.
  pose proof (claim_fresh_gen (S (length ns)) ns nm f) as G.
  rewrite H in G. simpl in G. apply G.
  pose proof (cnt_le_length nm ns). lia.
Qed.

(* the same, in the form used by [getitem] *)
Lemma claim_fresh_let : forall ns nm f,
  let '(nm', ns') := claim (S (length ns)) ns nm f in
  alookup fname_eqb nm' ns = None /\ ns' = ns ++ [(nm', f)].
Proof.
  intros ns nm f. destruct (claim (S (length ns)) ns nm f) as [nm' ns'] eqn:E.
  eapply claim_fresh; eauto.
Qed.

(* an existing name is never re-bound, whatever the fuel *)
Lemma claim_mono : forall fuel ns nm' f' nm f,
  alookup fname_eqb nm ns = Some f ->
  alookup fname_eqb nm (snd (claim fuel ns nm' f')) = Some f.
Proof.
  induction fuel as [|fu IH]; intros ns nm' f' nm f H; simpl.
  - destruct (alookup fname_eqb nm' ns); simpl; auto.
    apply alookup_ns_app_some. exact H.
  - destruct (alookup fname_eqb nm' ns); simpl; auto.
    apply alookup_ns_app_some. exact H.
Qed.

Lemma NoDup_snoc {A} : forall (l : list A) a, NoDup l -> ~ In a l -> NoDup (l ++ [a]).
Proof.
  induction l as [|b r IH]; intros a Hnd Hni; simpl.
  - constructor; [intros []|constructor].
  - inversion Hnd as [|b' r' Hb Hr]; subst. constructor.
    + rewrite in_app_iff. simpl. intros [H|[H|[]]]; [contradiction|].
      subst. apply Hni. left. reflexivity.
    + apply IH; auto. intros H. apply Hni. right. exact H.
Qed.

Lemma in_aset : forall k (e : entry) l p,
  In p (aset okey_eqb k e l) -> p = (k, e) \/ In p l.
Proof.
  intros k e l p. induction l as [|[k' e'] r IH]; simpl.
  - intros [H|[]]. left. auto.
  - destruct (okey_eqb k' k) eqn:E; simpl.
    + apply okey_eqb_spec in E. subst k'. intros [H|H]; auto.
    + intros [H|H]; auto. destruct (IH H); auto.
Qed.

(* ------------------------------------------------------------------ *)
(* 3. The invariant                                                    *)
(* ------------------------------------------------------------------ *)

Definition bound (cs : list (fname * fn)) (ns : list (fname * fn)) : Prop :=
  forall nm f, In (nm, f) cs -> alookup fname_eqb nm ns = Some f.

(* a cache entry for key [k] is consistent with the namespace [ns] *)
Definition entry_ok (ns : list (fname * fn)) (k : okey) (e : entry) : Prop :=
  e_fn e = Fn k /\
  alookup fname_eqb (e_name e) ns = Some (e_fn e) /\
  bound (e_callees e) ns.

Definition Inv (st : state) : Prop :=
  forall k e, In (k, e) (cache st) -> entry_ok (numspace st) k e.

Lemma Inv_init : Inv init.
Proof. intros k e []. Qed.

Definition ns_sub (ns ns' : list (fname * fn)) : Prop :=
  forall nm f, alookup fname_eqb nm ns = Some f -> alookup fname_eqb nm ns' = Some f.

Lemma ns_sub_refl : forall ns, ns_sub ns ns.
Proof. intros ns nm f H. exact H. Qed.
Lemma ns_sub_trans : forall a b c, ns_sub a b -> ns_sub b c -> ns_sub a c.
Proof. intros a b c H1 H2 nm f H. auto. Qed.
Lemma ns_sub_app : forall ns l, ns_sub ns (ns ++ l).
Proof. intros ns l nm f H. apply alookup_ns_app_some. exact H. Qed.

Lemma bound_mono : forall cs ns ns', ns_sub ns ns' -> bound cs ns -> bound cs ns'.
Proof. intros cs ns ns' Hs Hb nm f Hin. apply Hs. apply Hb. exact Hin. Qed.

Lemma entry_ok_mono : forall ns ns' k e, ns_sub ns ns' -> entry_ok ns k e -> entry_ok ns' k e.
Proof.
  intros ns ns' k e Hs (H1 & H2 & H3). repeat split; auto.
  eapply bound_mono; eauto.
Qed.

Lemma Inv_lookup : forall st k e,
  Inv st -> alookup okey_eqb k (cache st) = Some e -> entry_ok (numspace st) k e.
Proof.
  intros st k e HI H. apply HI. eapply alookup_some_in; eauto. apply okey_eqb_spec.
Qed.

(* a consistent entry is run right, directly and through the wrapper *)
Lemma list_eqb_map_bound : forall ns cs, bound cs ns ->
  list_eqb (opt_eqb fn_eqb) (map (fun c => alookup fname_eqb (fst c) ns) cs)
           (map (fun c : fname * fn => Some (snd c)) cs) = true.
Proof.
  intros ns cs. induction cs as [|[nm f] r IH]; intros Hb; simpl; [reflexivity|].
  rewrite (Hb nm f (or_introl eq_refl)). simpl. rewrite fn_eqb_refl. simpl.
  apply IH. intros nm' f' Hin. apply Hb. right. exact Hin.
Qed.

Lemma entry_ok_right : forall st v k e,
  entry_ok (numspace st) k e -> right k e (runs st v e) = true.
Proof.
  intros st v k e (H1 & H2 & H3). unfold right, runs. cbn [fst snd].
  apply andb_true_iff. split.
  - destruct v.
    + rewrite H1. simpl. apply okey_eqb_refl.
    + rewrite H2, H1. simpl. apply okey_eqb_refl.
  - apply list_eqb_map_bound. exact H3.
Qed.

(* ------------------------------------------------------------------ *)
(* 4. Sequential semantics                                             *)
(* ------------------------------------------------------------------ *)

Section CacheTheory.
  Variable tn : list Z -> N.
  Variable deps : okey -> list okey.
  Variable byname : nat -> bool.

  Local Notation getitem := (getitem tn deps byname).
  Local Notation call := (call tn deps byname).
  Local Notation run_history := (run_history tn deps byname).
  Local Notation tstep := (tstep tn deps byname).
  Local Notation run_sched := (run_sched tn deps byname).
  Local Notation base_name := (base_name tn).
  Local Notation gen_prog := (gen_prog deps).
  Local Notation cl k st := (alookup okey_eqb k (cache st)).
  Local Notation nsl nm st := (alookup fname_eqb nm (numspace st)).

  (* the body of the fold in [getitem] *)
  Definition gstep (fu : nat) (acc : option (state * list (fname * fn))) (d : okey) :=
    match acc with
    | None => None
    | Some (s, cs) => match getitem fu s d with
                      | Some (s', e) => Some (s', cs ++ [(e_name e, e_fn e)])
                      | None => None
                      end
    end.

  Lemma getitem_S : forall fu st k, getitem (S fu) st k =
    match cl k st with
    | Some e => Some (st, e)
    | None =>
      match fold_left (gstep fu) (deps k) (Some (st, [])) with
      | None => None
      | Some (s1, callees) =>
        let f := Fn k in
        let '(nm, ns') := claim (S (length (numspace s1))) (numspace s1) (base_name k) f in
        let e := mkEntry f nm (if byname (fst k) then callees else []) in
        Some (mkState (aset okey_eqb k e (cache s1)) ns' (gens s1 ++ [k]), e)
      end
    end.
  Proof. reflexivity. Qed.

  Lemma fold_gstep_None : forall fu l, fold_left (gstep fu) l None = None.
  Proof. intros fu l. induction l as [|d r IH]; simpl; auto. Qed.

  (* the keys in [stk] are not cached *)
  Definition uncached (st : state) (stk : list okey) : Prop := forall x, In x stk -> cl x st = None.
  (* [stk] is a stack of keys whose generation is in progress: each of them is waiting for a
     dependency that is the current key or is itself in progress *)
  Definition stackok (k : okey) (stk : list okey) : Prop :=
    forall x, In x stk -> exists d, In d (deps x) /\ In d (k :: stk).
  (* the generation log agrees with the cache and has no duplicates *)
  Definition G (st : state) : Prop :=
    NoDup (gens st) /\ forall k, In k (gens st) <-> cl k st <> None.
  Definition cache_ext (st st' : state) : Prop :=
    forall k e, cl k st = Some e -> cl k st' = Some e.

  Definition post (stk : list okey) (st st' : state) : Prop :=
    Inv st' /\ uncached st' stk /\ ns_sub (numspace st) (numspace st') /\ cache_ext st st' /\
    (G st -> G st') /\ (exists new, gens st' = gens st ++ new).

  Lemma post_refl : forall stk st, Inv st -> uncached st stk -> post stk st st.
  Proof.
    intros stk st HI HU. unfold post.
    split; [exact HI|]. split; [exact HU|]. split; [apply ns_sub_refl|].
    split; [intros k e H; exact H|]. split; [intros H; exact H|].
    exists []. rewrite app_nil_r. reflexivity.
  Qed.

  Lemma post_trans : forall stk a b c, post stk a b -> post stk b c -> post stk a c.
  Proof.
    intros stk a b c (A1 & A2 & A3 & A4 & A5 & (n1 & A6)) (B1 & B2 & B3 & B4 & B5 & (n2 & B6)).
    unfold post.
    split; [exact B1|]. split; [exact B2|]. split; [eapply ns_sub_trans; eauto|].
    split; [intros k e H; auto|]. split; [intros H; auto|].
    exists (n1 ++ n2). rewrite B6, A6, app_assoc. reflexivity.
  Qed.

  Definition getitem_stmt (fu : nat) : Prop :=
    forall stk st k st' e,
      getitem fu st k = Some (st', e) -> Inv st -> uncached st stk -> stackok k stk ->
      post stk st st' /\ cl k st' = Some e.

  Lemma fold_main : forall fu, getitem_stmt fu ->
    forall stk l s cs s1 cs1,
      (forall d, In d l -> stackok d stk) ->
      fold_left (gstep fu) l (Some (s, cs)) = Some (s1, cs1) ->
      Inv s -> uncached s stk -> bound cs (numspace s) ->
      post stk s s1 /\ bound cs1 (numspace s1) /\ (forall d, In d l -> ~ In d stk).
  Proof.
    intros fu IH stk l. induction l as [|d r IHl]; intros s cs s1 cs1 Hst Hf HI HU HB.
    - simpl in Hf. inversion Hf; subst. split; [apply post_refl; auto|]. split; auto.
    - simpl in Hf. destruct (getitem fu s d) as [[s' e]|] eqn:Eg.
      2:{ rewrite fold_gstep_None in Hf. discriminate. }
      destruct (IH stk s d s' e Eg HI HU (Hst d (or_introl eq_refl))) as [P1 Hc].
      assert (P1' := P1). destruct P1' as (I1 & U1 & N1 & C1 & G1 & E1).
      assert (HB' : bound (cs ++ [(e_name e, e_fn e)]) (numspace s')).
      { intros nm f Hin. apply in_app_iff in Hin. destruct Hin as [Hin|[Hin|[]]].
        - apply N1. apply HB. exact Hin.
        - inversion Hin; subst. destruct (Inv_lookup s' d e I1 Hc) as (_ & H2 & _). exact H2. }
      destruct (IHl s' _ s1 cs1 (fun d0 H0 => Hst d0 (or_intror H0)) Hf I1 U1 HB')
        as (P2 & B2 & D2).
      split; [eapply post_trans; eauto|]. split; auto.
      intros d0 [<-|Hin]; auto.
      intros Hd. rewrite (U1 d Hd) in Hc. discriminate.
  Qed.

  Lemma getitem_main : forall fu, getitem_stmt fu.
  Proof.
    induction fu as [|fu IH]; intros stk st k st' e Hg HI HU HS.
    - simpl in Hg. destruct (cl k st) as [e0|] eqn:Ek; [|discriminate].
      inversion Hg; subst. split; auto. apply post_refl; auto.
    - rewrite getitem_S in Hg. destruct (cl k st) as [e0|] eqn:Ek.
      { inversion Hg; subst. split; auto. apply post_refl; auto. }
      destruct (fold_left (gstep fu) (deps k) (Some (st, []))) as [[s1 cs]|] eqn:Ef; [|discriminate].
      cbv zeta in Hg.
      destruct (claim (S (length (numspace s1))) (numspace s1) (base_name k) (Fn k)) as [nm ns'] eqn:Ec.
      inversion Hg; subst st' e; clear Hg.
      apply claim_fresh in Ec. destruct Ec as [Hfree ->].
      assert (HU' : uncached st (k :: stk)).
      { intros x [<-|Hx]; auto. }
      assert (HS' : forall d, In d (deps k) -> stackok d (k :: stk)).
      { intros d Hd x [<-|Hx].
        - exists d. split; auto. left. reflexivity.
        - destruct (HS x Hx) as (d' & Hd1 & Hd2). exists d'. split; auto. right. exact Hd2. }
      assert (HB0 : bound [] (numspace st)) by (intros nm0 f0 []).
      destruct (fold_main fu IH (k :: stk) (deps k) st [] s1 cs HS' Ef HI HU' HB0)
        as (P1 & B1 & D1).
      destruct P1 as (I1 & U1 & N1 & C1 & G1 & (new & E1)).
      assert (HkS : ~ In k stk).
      { intros Hk. destruct (HS k Hk) as (d & Hd1 & Hd2). exact (D1 d Hd1 Hd2). }
      assert (Hk1 : cl k s1 = None) by (apply U1; left; reflexivity).
      set (e := mkEntry (Fn k) nm (if byname (fst k) then cs else [])).
      assert (Hsub : ns_sub (numspace s1) (numspace s1 ++ [(nm, Fn k)])) by apply ns_sub_app.
      split; [|apply alookup_cache_set_same].
      unfold post. cbn [cache numspace gens].
      split; [|split; [|split; [|split; [|split]]]].
      + (* Inv *)
        intros k' e' Hin. cbn [cache numspace] in *. apply in_aset in Hin.
        destruct Hin as [Hin|Hin].
        * inversion Hin; subst k' e'. unfold entry_ok, e. cbn [e_fn e_name e_callees].
          split; [reflexivity|]. split; [apply alookup_ns_snoc_new; exact Hfree|].
          destruct (byname (fst k)); [eapply bound_mono; eauto|intros nm0 f0 []].
        * eapply entry_ok_mono; [exact Hsub|]. apply I1. exact Hin.
      + (* uncached *)
        intros x Hx. cbn [cache]. rewrite alookup_cache_set_other.
        * apply U1. right. exact Hx.
        * intros <-. contradiction.
      + eapply ns_sub_trans; eauto.
      + intros k0 e0 H0. cbn [cache]. rewrite alookup_cache_set_other.
        * apply C1. exact H0.
        * intros <-. rewrite Ek in H0. discriminate.
      + (* G *)
        intros HG. destruct (G1 HG) as [Hnd Hiff]. split; cbn [gens cache].
        * apply NoDup_snoc; auto. intros Hin. apply Hiff in Hin. contradiction.
        * intros k0. rewrite in_app_iff. destruct (okey_eq_dec k k0) as [<-|Hne].
          -- rewrite alookup_cache_set_same. split; [discriminate|].
             intros _. right. left. reflexivity.
          -- rewrite alookup_cache_set_other by exact Hne. rewrite <- Hiff. split; auto.
             intros [H0|[H0|[]]]; [exact H0|contradiction].
      + exists (new ++ [k]). rewrite E1, app_assoc. reflexivity.
  Qed.

  (* ---------------- headline statements, sequential ---------------- *)

  Lemma uncached_nil : forall st, uncached st [].
  Proof. intros st x []. Qed.
  Lemma stackok_nil : forall k, stackok k [].
  Proof. intros k x []. Qed.

  (* getitem preserves the invariant, returns the entry that is now cached for the key, and leaves
     every old cache binding and every old numspace binding unchanged *)
  Theorem getitem_inv : forall fuel st k st' e,
    Inv st -> getitem fuel st k = Some (st', e) ->
    Inv st' /\ cl k st' = Some e /\
    (forall k0 e0, cl k0 st = Some e0 -> cl k0 st' = Some e0) /\
    (forall nm f, nsl nm st = Some f -> nsl nm st' = Some f).
  Proof.
    intros fuel st k st' e HI Hg.
    destruct (getitem_main fuel [] st k st' e Hg HI (uncached_nil st) (stackok_nil k))
      as ((I1 & _ & N1 & C1 & _ & _) & Hc).
    auto.
  Qed.

  Lemma getitem_G : forall fuel st k st' e,
    Inv st -> G st -> getitem fuel st k = Some (st', e) -> G st'.
  Proof.
    intros fuel st k st' e HI HG Hg.
    destruct (getitem_main fuel [] st k st' e Hg HI (uncached_nil st) (stackok_nil k))
      as ((_ & _ & _ & _ & G1 & _) & _).
    auto.
  Qed.

  (* the log only grows *)
  Lemma getitem_gens_ext : forall fuel st k st' e,
    Inv st -> getitem fuel st k = Some (st', e) -> exists new, gens st' = gens st ++ new.
  Proof.
    intros fuel st k st' e HI Hg.
    destruct (getitem_main fuel [] st k st' e Hg HI (uncached_nil st) (stackok_nil k))
      as ((_ & _ & _ & _ & _ & E1) & _).
    exact E1.
  Qed.

  Theorem C10_cached_no_codegen : forall fuel st k e,
    cl k st = Some e -> getitem fuel st k = Some (st, e).
  Proof. intros [|fu] st k e H; simpl; rewrite H; reflexivity. Qed.

  Theorem call_right : forall fuel st v k st' ok,
    Inv st -> call fuel st v k = Some (st', ok) -> ok = true /\ Inv st'.
  Proof.
    intros fuel st v k st' ok HI Hc. unfold Model.Cache.call in Hc.
    destruct (getitem fuel st k) as [[s e]|] eqn:Eg; [|discriminate].
    inversion Hc; subst s ok; clear Hc.
    destruct (getitem_inv fuel st k st' e HI Eg) as (I1 & Hc & _ & _).
    split; [|exact I1]. apply entry_ok_right. eapply Inv_lookup; eauto.
  Qed.

  Lemma call_G : forall fuel st v k st' ok,
    Inv st -> G st -> call fuel st v k = Some (st', ok) -> G st'.
  Proof.
    intros fuel st v k st' ok HI HG Hc. unfold Model.Cache.call in Hc.
    destruct (getitem fuel st k) as [[s e]|] eqn:Eg; [|discriminate].
    inversion Hc; subst s ok. eapply getitem_G; eauto.
  Qed.

  Lemma run_history_inv : forall fuel h st st' ok,
    Inv st -> run_history fuel st h = Some (st', ok) ->
    ok = true /\ Inv st' /\ (G st -> G st').
  Proof.
    intros fuel h. induction h as [|[v k] r IH]; intros st st' ok HI Hr; simpl in Hr.
    - inversion Hr; subst. split; [reflexivity|]. split; [exact HI|]. intros H; exact H.
    - destruct (call fuel st v k) as [[s1 ok1]|] eqn:Ec; [|discriminate].
      destruct (run_history fuel s1 r) as [[s2 ok2]|] eqn:Er; [|discriminate].
      inversion Hr; subst s2 ok; clear Hr.
      destruct (call_right fuel st v k s1 ok1 HI Ec) as [-> I1].
      destruct (IH s1 st' ok2 I1 Er) as (-> & I2 & G2).
      split; [reflexivity|]. split; [exact I2|].
      intros HG. apply G2. exact (call_G fuel st v k s1 true HI HG Ec).
  Qed.

  Lemma G_init : G init.
  Proof.
    split; simpl; [constructor|]. intros k. split; [intros []|intros H; apply H; reflexivity].
  Qed.

  (* C09, sequential: whatever the history (any mix of operators, key tuples, key orders, Direct or
     Wrapped invocation, registered functions), every call runs the function generated for its own
     ordered keys, and so does every callee called by name *)
  Theorem C09_sequential : forall fuel h st ok,
    run_history fuel init h = Some (st, ok) -> ok = true.
  Proof.
    intros fuel h st ok Hr. destruct (run_history_inv fuel h init st ok Inv_init Hr) as (H & _). exact H.
  Qed.

  (* C10, sequential: code is generated at most once per (operator, ordered keys), the log is exactly
     the set of cached keys.  No hypothesis on [deps] is needed: if [deps] had a cycle through an
     uncached key, [getitem] would run out of fuel (see [getitem_main], the [stk] argument). *)
  Theorem C10_at_most_once : forall fuel h st ok,
    run_history fuel init h = Some (st, ok) ->
    NoDup (gens st) /\ forall k, In k (gens st) <-> cl k st <> None.
  Proof.
    intros fuel h st ok Hr. destruct (run_history_inv fuel h init st ok Inv_init Hr) as (_ & _ & HG).
    apply HG. apply G_init.
  Qed.

  (* the same, from any state satisfying the invariants (e.g. in the middle of a history) *)
  Theorem C10_step : forall fuel st k st' e,
    Inv st -> G st -> getitem fuel st k = Some (st', e) ->
    G st' /\ exists new, gens st' = gens st ++ new /\
                         forall x, In x new -> cl x st = None /\ cl x st' <> None.
  Proof.
    intros fuel st k st' e HI HG Hg.
    pose proof (getitem_G fuel st k st' e HI HG Hg) as HG'.
    split; [exact HG'|].
    destruct (getitem_gens_ext fuel st k st' e HI Hg) as (new & E).
    exists new. split; [exact E|]. intros x Hx.
    destruct HG as [Hnd Hiff]. destruct HG' as [Hnd' Hiff'].
    split.
    - destruct (cl x st) eqn:Ex; [|reflexivity]. exfalso.
      assert (Hin : In x (gens st)) by (apply Hiff; rewrite Ex; discriminate).
      rewrite E in Hnd'. clear - Hnd' Hin Hx.
      induction (gens st) as [|a r IH]; [destruct Hin|].
      simpl in Hnd'. inversion Hnd' as [|a' r' Ha Hr]; subst.
      destruct Hin as [->|Hin]; [|auto].
      apply Ha. apply in_app_iff. right. exact Hx.
    - apply Hiff'. rewrite E. apply in_app_iff. right. exact Hx.
  Qed.

  (* ------------------------------------------------------------------ *)
  (* 5. Thread semantics: all interleavings                              *)
  (* ------------------------------------------------------------------ *)

  (* what other threads may do to the shared state: add numspace bindings, add cache bindings and
     overwrite cache entries (never remove a key) *)
  Definition mono (st st' : state) : Prop :=
    ns_sub (numspace st) (numspace st') /\ forall k, cl k st <> None -> cl k st' <> None.

  Lemma mono_refl : forall st, mono st st.
  Proof. intros st. split; [apply ns_sub_refl|auto]. Qed.

  (* [k] is known to be cached when the program point is reached: it is cached now, or it is in the
     set [C] of keys that the preceding micro-operations of the thread will have cached *)
  Definition known (st : state) (C : list okey) (k : okey) : Prop := In k C \/ cl k st <> None.

  Fixpoint pwf (st : state) (C : list okey) (p : list mop) : Prop :=
    match p with
    | [] => True
    | MTest k :: r => pwf st (k :: C) r
    | MGen k :: r => pwf st (k :: C) r
    | MClaim k nm cs :: r => bound cs (numspace st) /\ pwf st (k :: C) r
    | MStore k e :: r => entry_ok (numspace st) k e /\ pwf st (k :: C) r
    | MRun v k :: r => known st C k /\ pwf st C r
    end.

  (* thread-local invariant *)
  Definition twf (st : state) (t : tstate) : Prop :=
    pwf st [] (prog t) /\ forallb (fun b => b) (verdicts t) = true.

  Lemma pwf_mono : forall st st' p C C',
    mono st st' -> (forall x, In x C -> known st' C' x) -> pwf st C p -> pwf st' C' p.
  Proof.
    intros st st' p. induction p as [|m r IH]; intros C C' Hm HC Hp; [exact I|].
    assert (HC' : forall k x, In x (k :: C) -> known st' (k :: C') x).
    { intros k x [<-|Hx]; [left; left; reflexivity|].
      destruct (HC x Hx) as [H|H]; [left; right; exact H|right; exact H]. }
    assert (Hm' := Hm). destruct Hm' as [Hn Hk].
    destruct m as [k|k|k nm cs|k e|v k]; cbn [pwf] in *.
    - exact (IH (k :: C) (k :: C') Hm (HC' k) Hp).
    - exact (IH (k :: C) (k :: C') Hm (HC' k) Hp).
    - destruct Hp as [Hb Hp]. split; [eapply bound_mono; eauto|].
      exact (IH (k :: C) (k :: C') Hm (HC' k) Hp).
    - destruct Hp as [Hb Hp]. split; [eapply entry_ok_mono; eauto|].
      exact (IH (k :: C) (k :: C') Hm (HC' k) Hp).
    - destruct Hp as [Hkn Hp]. split; [|exact (IH C C' Hm HC Hp)].
      destruct Hkn as [H|H]; [apply HC; exact H|right; apply Hk; exact H].
  Qed.

  Lemma twf_mono : forall st st' t, mono st st' -> twf st t -> twf st' t.
  Proof.
    intros st st' t Hm [Hp Hv]. split; [|exact Hv].
    eapply pwf_mono; eauto. intros x [].
  Qed.

  Lemma pwf_tests : forall st ds C p,
    (forall C', (forall x, In x C -> In x C') -> pwf st C' p) -> pwf st C (map MTest ds ++ p).
  Proof.
    intros st ds. induction ds as [|d r IH]; intros C p Hp; simpl.
    - apply Hp. auto.
    - apply IH. intros C' HC'. apply Hp. intros x Hx. apply HC'. right. exact Hx.
  Qed.

  Lemma pwf_thread_of : forall st h C,
    pwf st C (flat_map (fun vk : via * okey => [MTest (snd vk); MRun (fst vk) (snd vk)]) h).
  Proof.
    intros st h. induction h as [|[v k] r IH]; intros C; simpl; [exact I|].
    split; [left; left; reflexivity|apply IH].
  Qed.

  Lemma twf_thread_of : forall st h, twf st (thread_of h).
  Proof. intros st h. split; [apply pwf_thread_of|reflexivity]. Qed.

  Lemma forallb_snoc : forall l b, forallb (fun b : bool => b) l = true -> b = true ->
    forallb (fun b : bool => b) (l ++ [b]) = true.
  Proof.
    intros l b Hl ->. rewrite forallb_app, Hl. reflexivity.
  Qed.

  Lemma bound_flat_map : forall st ds, Inv st ->
    bound (flat_map (fun d => match cl d st with
                              | Some e => [(e_name e, e_fn e)] | None => [] end) ds) (numspace st).
  Proof.
    intros st ds HI. induction ds as [|d r IH]; simpl; [intros nm f []|].
    intros nm f Hin. apply in_app_iff in Hin. destruct Hin as [Hin|Hin]; [|apply IH; exact Hin].
    destruct (cl d st) as [e|] eqn:Ed; [|destruct Hin].
    destruct Hin as [Hin|[]]. inversion Hin; subst.
    destruct (Inv_lookup st d e HI Ed) as (_ & H2 & _). exact H2.
  Qed.

  (* one micro-step of a well-formed thread preserves the global invariant and the thread's own
     invariant, and changes the shared state only monotonically *)
  Theorem tstep_inv : forall st t st' t',
    Inv st -> twf st t -> tstep st t = (st', t') ->
    Inv st' /\ twf st' t' /\ mono st st'.
  Proof.
    intros st t st' t' HI [Hp Hv] Hs. unfold Model.Cache.tstep in Hs.
    destruct (prog t) as [|m rest] eqn:Ep.
    { inversion Hs; subst. split; [exact HI|]. split; [|apply mono_refl].
      split; [rewrite Ep; exact I|exact Hv]. }
    destruct m as [k|k|k nm cs|k e|v k]; simpl in Hp.
    - (* MTest *)
      destruct (cl k st) as [e|] eqn:Ek; inversion Hs; subst st' t'; clear Hs.
      + split; [exact HI|]. split; [|apply mono_refl]. split; [|exact Hv]. cbn [prog].
        eapply pwf_mono; [apply mono_refl| |exact Hp].
        intros x [<-|[]]. right. rewrite Ek. discriminate.
      + split; [exact HI|]. split; [|apply mono_refl]. split; [|exact Hv]. cbn [prog].
        unfold Model.Cache.gen_prog. rewrite <- app_assoc. apply pwf_tests.
        intros C' HC'. simpl. eapply pwf_mono; [apply mono_refl| |exact Hp].
        intros x [<-|[]]. left. left. reflexivity.
    - (* MGen *)
      inversion Hs; subst st' t'; clear Hs.
      split; [exact HI|]. split; [|split; [apply ns_sub_refl|auto]].
      split; [|exact Hv]. cbn [prog pwf numspace]. split.
      + destruct (byname (fst k)); [apply bound_flat_map; exact HI|intros nm f []].
      + eapply pwf_mono; [| |exact Hp].
        * split; [apply ns_sub_refl|auto].
        * intros x Hx. left. exact Hx.
    - (* MClaim *)
      destruct Hp as [Hb Hp].
      destruct (nsl nm st) as [g|] eqn:En; inversion Hs; subst st' t'; clear Hs.
      + split; [exact HI|]. split; [|apply mono_refl]. split; [|exact Hv]. cbn [prog pwf].
        split; [exact Hb|exact Hp].
      + assert (Hsub : ns_sub (numspace st) (numspace st ++ [(nm, Fn k)])) by apply ns_sub_app.
        assert (Hm : mono st (mkState (cache st) (numspace st ++ [(nm, Fn k)]) (gens st))).
        { split; [exact Hsub|auto]. }
        split; [|split; [|exact Hm]].
        * intros k0 e0 Hin. cbn [cache numspace] in *.
          eapply entry_ok_mono; [exact Hsub|]. apply HI. exact Hin.
        * split; [|exact Hv]. cbn [prog pwf numspace]. split.
          -- unfold entry_ok. cbn [e_fn e_name e_callees].
             split; [reflexivity|]. split; [apply alookup_ns_snoc_new; exact En|].
             eapply bound_mono; eauto.
          -- eapply pwf_mono; [exact Hm| |exact Hp]. intros x Hx. left. exact Hx.
    - (* MStore *)
      destruct Hp as [He Hp]. inversion Hs; subst st' t'; clear Hs.
      assert (Hm : mono st (mkState (aset okey_eqb k e (cache st)) (numspace st) (gens st))).
      { split; [apply ns_sub_refl|]. intros k0 H0. cbn [cache].
        destruct (okey_eq_dec k k0) as [<-|Hne].
        - rewrite alookup_cache_set_same. discriminate.
        - rewrite alookup_cache_set_other by exact Hne. exact H0. }
      split; [|split; [|exact Hm]].
      + intros k0 e0 Hin. cbn [cache numspace] in *. apply in_aset in Hin.
        destruct Hin as [Hin|Hin]; [inversion Hin; subst; exact He|apply HI; exact Hin].
      + split; [|exact Hv]. cbn [prog].
        eapply pwf_mono; [exact Hm| |exact Hp].
        intros x [<-|[]]. right. cbn [cache]. rewrite alookup_cache_set_same. discriminate.
    - (* MRun *)
      destruct Hp as [Hkn Hp].
      destruct (cl k st) as [e|] eqn:Ek.
      2:{ destruct Hkn as [[]|H]. contradiction. }
      inversion Hs; subst st' t'; clear Hs.
      split; [exact HI|]. split; [|apply mono_refl]. split; [exact Hp|]. cbn [verdicts].
      apply forallb_snoc; [exact Hv|]. apply entry_ok_right. eapply Inv_lookup; eauto.
  Qed.

  Lemma Forall_nth_update {A} (P : A -> Prop) : forall (l : list A) i a,
    Forall P l -> P a -> Forall P (nth_update i (fun _ => a) l).
  Proof.
    induction l as [|x r IH]; intros i a Hl Ha; simpl.
    - destruct i; constructor.
    - inversion Hl; subst. destruct i; constructor; auto.
  Qed.

  Theorem run_sched_inv : forall sched st ts st' ts',
    Inv st -> Forall (twf st) ts -> run_sched st ts sched = (st', ts') ->
    Inv st' /\ Forall (twf st') ts'.
  Proof.
    induction sched as [|i r IH]; intros st ts st' ts' HI Hts Hr; simpl in Hr.
    - inversion Hr; subst. auto.
    - destruct (nth_error ts i) as [t|] eqn:En; [|eapply IH; eauto].
      destruct (tstep st t) as [s1 t1] eqn:Es.
      assert (Ht : twf st t).
      { rewrite Forall_forall in Hts. apply Hts. eapply nth_error_In; eauto. }
      destruct (tstep_inv st t s1 t1 HI Ht Es) as (I1 & T1 & M1).
      eapply IH; [exact I1| |exact Hr].
      apply Forall_nth_update; [|exact T1].
      eapply Forall_impl; [|exact Hts]. intros a Ha. eapply twf_mono; eauto.
  Qed.

  (* C09, all interleavings: every call that completed, in every thread, under every schedule, ran
     the function generated for its own ordered keys (and so did its by-name callees); in
     particular no call ever finds its key missing *)
  Theorem C09_interleaving : forall hs sched st ts,
    run_sched init (map thread_of hs) sched = (st, ts) ->
    forall t, In t ts -> forallb (fun b => b) (verdicts t) = true.
  Proof.
    intros hs sched st ts Hr t Hin.
    assert (H0 : Forall (twf init) (map thread_of hs)).
    { apply Forall_forall. intros x Hx. apply in_map_iff in Hx. destruct Hx as (h & <- & _).
      apply twf_thread_of. }
    destruct (run_sched_inv sched init _ st ts Inv_init H0 Hr) as [_ HF].
    rewrite Forall_forall in HF. apply (HF t Hin).
  Qed.

  (* the verdict list is not vacuous: no call is lost, a thread whose program is exhausted has
     produced exactly one verdict per call of its history *)
  Definition is_run (m : mop) : bool := match m with MRun _ _ => true | _ => false end.
  Definition pending (t : tstate) : nat := length (filter is_run (prog t)) + length (verdicts t).

  Lemma filter_is_run_tests : forall ds, filter is_run (map MTest ds) = [].
  Proof. induction ds as [|d r IH]; simpl; auto. Qed.

  Lemma tstep_pending : forall st t st' t', tstep st t = (st', t') -> pending t' = pending t.
  Proof.
    intros st t st' t' Hs. unfold Model.Cache.tstep in Hs. unfold pending.
    destruct (prog t) as [|m rest] eqn:Ep.
    { inversion Hs; subst. rewrite Ep. reflexivity. }
    destruct m as [k|k|k nm cs|k e|v k].
    - destruct (cl k st); inversion Hs; subst; cbn [prog verdicts filter is_run]; auto.
      unfold Model.Cache.gen_prog. rewrite !filter_app, filter_is_run_tests. reflexivity.
    - inversion Hs; subst; reflexivity.
    - destruct (nsl nm st); inversion Hs; subst; reflexivity.
    - inversion Hs; subst; reflexivity.
    - destruct (cl k st); inversion Hs; subst; cbn [prog verdicts filter is_run];
        rewrite app_length; simpl; lia.
  Qed.

  Lemma pending_thread_of : forall h, pending (thread_of h) = length h.
  Proof.
    intros h. unfold pending, thread_of. cbn [prog verdicts]. rewrite Nat.add_0_r.
    induction h as [|[v k] r IH]; simpl; auto.
  Qed.

  Lemma run_sched_pending : forall sched st ts st' ts',
    run_sched st ts sched = (st', ts') -> map pending ts' = map pending ts.
  Proof.
    induction sched as [|i r IH]; intros st ts st' ts' Hr; simpl in Hr.
    - inversion Hr; subst. reflexivity.
    - destruct (nth_error ts i) as [t|] eqn:En; [|eapply IH; eauto].
      destruct (tstep st t) as [s1 t1] eqn:Es. rewrite (IH _ _ _ _ Hr).
      apply tstep_pending in Es. clear - En Es. revert i En.
      induction ts as [|x r IH]; intros [|i] En; simpl in *; try discriminate.
      + inversion En; subst. rewrite Es. reflexivity.
      + rewrite (IH i En). reflexivity.
  Qed.

  Theorem interleaving_all_calls_accounted : forall hs sched st ts,
    run_sched init (map thread_of hs) sched = (st, ts) ->
    map pending ts = map (@length _) hs.
  Proof.
    intros hs sched st ts Hr. rewrite (run_sched_pending _ _ _ _ _ Hr), map_map.
    apply map_ext. intros h. apply pending_thread_of.
  Qed.

  (* ------------------------------------------------------------------ *)
  (* 6. One thread running alone = the sequential semantics              *)
  (* ------------------------------------------------------------------ *)

  Inductive tsteps : state -> tstate -> state -> tstate -> Prop :=
  | ts_refl : forall st t, tsteps st t st t
  | ts_step : forall st t st1 t1 st2 t2,
      tstep st t = (st1, t1) -> tsteps st1 t1 st2 t2 -> tsteps st t st2 t2.

  Lemma tsteps_trans : forall a ta b tb c tc, tsteps a ta b tb -> tsteps b tb c tc -> tsteps a ta c tc.
  Proof.
    intros a ta b tb c tc H. induction H as [|st t st1 t1 st2 t2 Hs H IH]; intros H2; auto.
    eapply ts_step; eauto.
  Qed.

  Lemma tsteps_one : forall st t st' t', tstep st t = (st', t') -> tsteps st t st' t'.
  Proof. intros st t st' t' H. eapply ts_step; [exact H|apply ts_refl]. Qed.

  Lemma tsteps_sched : forall st t st' t', tsteps st t st' t' ->
    exists n, run_sched st [t] (repeat 0 n) = (st', [t']).
  Proof.
    intros st t st' t' H. induction H as [|st t st1 t1 st2 t2 Hs H [n IH]].
    - exists 0. reflexivity.
    - exists (S n). simpl. rewrite Hs. exact IH.
  Qed.

  (* the setdefault loop, step by step *)
  Lemma claim_steps : forall fuel c ns g k nm cs rest vs nm' ns',
    claim fuel ns nm (Fn k) = (nm', ns') -> alookup fname_eqb nm' ns = None ->
    tsteps (mkState c ns g) (mkT (MClaim k nm cs :: rest) vs)
           (mkState c ns' g) (mkT (MStore k (mkEntry (Fn k) nm' cs) :: rest) vs).
  Proof.
    induction fuel as [|fu IH]; intros c ns g k nm cs rest vs nm' ns' Hc Hf; simpl in Hc.
    - destruct (alookup fname_eqb nm ns) as [x|] eqn:En.
      + inversion Hc; subst. rewrite En in Hf. discriminate.
      + inversion Hc; subst. apply tsteps_one. unfold Model.Cache.tstep. cbn [prog verdicts numspace cache gens].
        rewrite En. reflexivity.
    - destruct (alookup fname_eqb nm ns) as [x|] eqn:En.
      + eapply ts_step; [|eapply IH; eauto].
        unfold Model.Cache.tstep. cbn [prog verdicts numspace cache gens]. rewrite En. reflexivity.
      + inversion Hc; subst. apply tsteps_one. unfold Model.Cache.tstep. cbn [prog verdicts numspace cache gens].
        rewrite En. reflexivity.
  Qed.

  Definition callees_now (st : state) (ds : list okey) : list (fname * fn) :=
    flat_map (fun d => match cl d st with Some e => [(e_name e, e_fn e)] | None => [] end) ds.

  Definition sim_stmt (fu : nat) : Prop :=
    forall st k st' e rest vs, Inv st -> getitem fu st k = Some (st', e) ->
      tsteps st (mkT (MTest k :: rest) vs) st' (mkT rest vs).

  Lemma fold_sim : forall fu, sim_stmt fu ->
    forall l s cs s1 cs1 p vs,
      Inv s -> fold_left (gstep fu) l (Some (s, cs)) = Some (s1, cs1) ->
      tsteps s (mkT (map MTest l ++ p) vs) s1 (mkT p vs) /\ Inv s1 /\ cache_ext s s1 /\
      cs1 = cs ++ callees_now s1 l.
  Proof.
    intros fu IH l. induction l as [|d r IHl]; intros s cs s1 cs1 p vs HI Hf.
    - simpl in Hf. inversion Hf; subst. split; [apply ts_refl|]. split; [exact HI|].
      split; [intros k e H; exact H|]. unfold callees_now. simpl. rewrite app_nil_r. reflexivity.
    - simpl in Hf. destruct (getitem fu s d) as [[s' e]|] eqn:Eg.
      2:{ rewrite fold_gstep_None in Hf. discriminate. }
      destruct (getitem_inv fu s d s' e HI Eg) as (I1 & Hc & C1 & _).
      destruct (IHl s' _ s1 cs1 p vs I1 Hf) as (T2 & I2 & C2 & E2).
      split; [|split; [exact I2|split]].
      + simpl. eapply tsteps_trans; [|exact T2]. apply IH with (e := e); auto.
      + intros k0 e0 H0. apply C2, C1, H0.
      + rewrite E2, <- app_assoc. f_equal. unfold callees_now. simpl.
        rewrite (C2 d e Hc). reflexivity.
  Qed.

  Lemma getitem_sim : forall fu, sim_stmt fu.
  Proof.
    induction fu as [|fu IH]; intros st k st' e rest vs HI Hg.
    - simpl in Hg. destruct (cl k st) as [e0|] eqn:Ek; [|discriminate].
      inversion Hg; subst. apply tsteps_one. unfold Model.Cache.tstep. cbn [prog verdicts].
      rewrite Ek. reflexivity.
    - rewrite getitem_S in Hg. destruct (cl k st) as [e0|] eqn:Ek.
      { inversion Hg; subst. apply tsteps_one. unfold Model.Cache.tstep. cbn [prog verdicts].
        rewrite Ek. reflexivity. }
      destruct (fold_left (gstep fu) (deps k) (Some (st, []))) as [[s1 cs]|] eqn:Ef; [|discriminate].
      cbv zeta in Hg.
      destruct (claim (S (length (numspace s1))) (numspace s1) (base_name k) (Fn k)) as [nm ns'] eqn:Ec.
      inversion Hg; subst st' e; clear Hg.
      destruct (fold_sim fu IH (deps k) st [] s1 cs (MGen k :: rest) vs HI Ef) as (T1 & I1 & C1 & E1).
      simpl in E1. subst cs.
      (* MTest k, absent *)
      eapply ts_step.
      { unfold Model.Cache.tstep. cbn [prog verdicts]. rewrite Ek. reflexivity. }
      unfold Model.Cache.gen_prog. rewrite <- app_assoc. simpl app at 2.
      eapply tsteps_trans; [exact T1|].
      (* MGen k *)
      eapply ts_step.
      { unfold Model.Cache.tstep. cbn [prog verdicts]. reflexivity. }
      fold (callees_now s1 (deps k)).
      (* the setdefault loop *)
      destruct (claim_fresh _ _ _ _ _ Ec) as [Hfree _].
      eapply tsteps_trans.
      { eapply claim_steps; [exact Ec|exact Hfree]. }
      (* the store *)
      apply tsteps_one. unfold Model.Cache.tstep. cbn [prog verdicts cache numspace gens]. reflexivity.
  Qed.

  Lemma run_history_sim : forall fuel h st st' ok vs,
    Inv st -> run_history fuel st h = Some (st', ok) ->
    exists vs', tsteps st (mkT (prog (thread_of h)) vs) st' (mkT [] (vs ++ vs')) /\
                forallb (fun b => b) vs' = ok /\ length vs' = length h.
  Proof.
    intros fuel h. induction h as [|[v k] r IH]; intros st st' ok vs HI Hr; simpl in Hr.
    - inversion Hr; subst. exists []. rewrite app_nil_r. split; [apply ts_refl|auto].
    - destruct (call fuel st v k) as [[s1 ok1]|] eqn:Ec; [|discriminate].
      destruct (run_history fuel s1 r) as [[s2 ok2]|] eqn:Er; [|discriminate].
      inversion Hr; subst s2 ok; clear Hr.
      destruct (call_right fuel st v k s1 ok1 HI Ec) as [_ I1].
      unfold Model.Cache.call in Ec.
      destruct (getitem fuel st k) as [[s e]|] eqn:Eg; [|discriminate].
      inversion Ec; subst s ok1; clear Ec.
      destruct (getitem_inv fuel st k s1 e HI Eg) as (_ & Hc & _ & _).
      destruct (IH s1 st' ok2 (vs ++ [right k e (runs s1 v e)]) I1 Er) as (vs' & T & F & L).
      exists (right k e (runs s1 v e) :: vs'). split; [|split].
      + unfold thread_of. cbn [prog flat_map fst snd app].
        eapply tsteps_trans; [apply (getitem_sim fuel st k s1 e _ vs HI Eg)|].
        eapply ts_step.
        { unfold Model.Cache.tstep. cbn [prog verdicts]. rewrite Hc. reflexivity. }
        rewrite <- app_assoc in T. exact T.
      + simpl. rewrite F. reflexivity.
      + simpl. rewrite L. reflexivity.
  Qed.

  (* a thread that is never interleaved with another one behaves exactly like the big-step
     semantics: same final state (cache, numspace, generation log) and same verdicts *)
  Theorem single_thread_sequential : forall fuel h st ok,
    run_history fuel init h = Some (st, ok) ->
    exists n vs, run_sched init [thread_of h] (repeat 0 n) = (st, [mkT [] vs]) /\
                 forallb (fun b => b) vs = ok /\ length vs = length h.
  Proof.
    intros fuel h st ok Hr.
    destruct (run_history_sim fuel h init st ok [] Inv_init Hr) as (vs & T & F & L).
    apply tsteps_sched in T. destruct T as [n T]. exists n, vs. auto.
  Qed.
End CacheTheory.

(* ------------------------------------------------------------------ *)
(* 7. Examples                                                         *)
(* ------------------------------------------------------------------ *)

Module CacheExamples.
  Local Open Scope Z_scope.
  (* a type number that only sees the number of keys: all key orders (and more) collide *)
  Definition tn (ks : list Z) : N := N.of_nat (length ks).
  (* operator 0: a product, no dependencies; operator 1: a registered function of two arguments whose
     body calls operator 0 on its arguments in both orders *)
  Definition deps (k : okey) : list okey :=
    match k with
    | (1%nat, [a; b]) => [(0%nat, [a; b]); (0%nat, [b; a])]
    | _ => []
    end.
  Definition byname (op : nat) : bool := Nat.eqb op 1.

  Definition k1 : okey := (0%nat, [[1; 2]; [3]]).
  Definition k2 : okey := (0%nat, [[2; 1]; [3]]).        (* same sets of keys, other order *)
  Definition n0 : fname := (0%nat, [2%N; 1%N], 0%nat).
  Definition n1 : fname := (0%nat, [2%N; 1%N], 1%nat).   (* n0 ++ "_" *)

  Definition summary (r : option (state * bool)) :=
    match r with
    | Some (st, ok) => Some (ok, map (fun p => (fst p, e_name (snd p))) (cache st), numspace st, gens st)
    | None => None
    end.

  (* two key orders of the same operator, through the wrapper: the second function gets the bumped
     name, every call (also the later ones, in any order) runs its own function, code is generated
     once per ordered key *)
  Example seq_two_orders :
    summary (run_history tn deps byname 5 init
               [(Wrapped, k1); (Wrapped, k2); (Wrapped, k1); (Direct, k2); (Wrapped, k2)])
    = Some (true, [(k1, n0); (k2, n1)], [(n0, Fn k1); (n1, Fn k2)], [k1; k2]).
  Proof. vm_compute. reflexivity. Qed.

  (* a registered function whose two by-name callees collide on the base name; one of them was
     generated earlier under the un-bumped name *)
  Definition ka : okey := (0%nat, [[1; 2]; [2; 1]]).
  Definition kb : okey := (0%nat, [[2; 1]; [1; 2]]).
  Definition kr : okey := (1%nat, [[1; 2]; [2; 1]]).
  Definition m0 : fname := (0%nat, [2%N; 2%N], 0%nat).
  Definition m1 : fname := (0%nat, [2%N; 2%N], 1%nat).
  Definition r0 : fname := (1%nat, [2%N; 2%N], 0%nat).

  Example seq_registry :
    match run_history tn deps byname 5 init [(Wrapped, kb); (Wrapped, kr); (Direct, ka); (Wrapped, kr)] with
    | Some (st, ok) => Some (ok, option_map e_callees (alookup okey_eqb kr (cache st)), numspace st, gens st)
    | None => None
    end
    = Some (true, Some [(m1, Fn ka); (m0, Fn kb)], [(m0, Fn kb); (m1, Fn ka); (r0, Fn kr)], [kb; ka; kr]).
  Proof. vm_compute. reflexivity. Qed.

  Definition tsummary (r : state * list tstate) :=
    (map (fun t => (length (prog t), verdicts t)) (snd r),
     map (fun p => (fst p, e_name (snd p))) (cache (fst r)), numspace (fst r), gens (fst r)).

  (* two threads generate functions with colliding names concurrently (strict alternation): the
     thread that loses the setdefault race bumps its name; both calls are right *)
  Example par_collision :
    tsummary (run_sched tn deps byname init [thread_of [(Wrapped, k1)]; thread_of [(Wrapped, k2)]]
                        [0; 1; 0; 1; 0; 1; 0; 1; 0; 1; 1]%nat)
    = ([(0%nat, [true]); (0%nat, [true])],
       [(k1, n0); (k2, n1)], [(n0, Fn k1); (n1, Fn k2)], [k1; k2]).
  Proof. vm_compute. reflexivity. Qed.

  (* two threads race on the SAME key: both find it absent, both generate (so the at-most-once
     property C10 is a property of sequential histories only), the second store overwrites the first
     with an equally good entry, and both calls are right *)
  Example par_same_key :
    tsummary (run_sched tn deps byname init [thread_of [(Wrapped, k1)]; thread_of [(Wrapped, k1)]]
                        [0; 1; 0; 1; 0; 1; 0; 1; 0; 1; 1]%nat)
    = ([(0%nat, [true]); (0%nat, [true])],
       [(k1, n1)], [(n0, Fn k1); (n1, Fn k1)], [k1; k1]).
  Proof. vm_compute. reflexivity. Qed.

  (* a registered function compiled while another thread generates one of its callees *)
  Example par_registry :
    tsummary (run_sched tn deps byname init
                        [thread_of [(Wrapped, kr); (Wrapped, kr)]; thread_of [(Direct, kb); (Wrapped, ka)]]
                        [0; 0; 1; 1; 0; 1; 0; 1; 0; 1; 0; 1; 0; 1; 0; 1; 0; 1; 0; 1; 0; 1; 0; 0; 0; 0; 0; 0; 0]%nat)
    = ([(0%nat, [true; true]); (0%nat, [true; true])],
       [(kb, m0); (ka, m1); (kr, r0)], [(m0, Fn kb); (m1, Fn ka); (r0, Fn kr)], [kb; ka; kr]).
  Proof. vm_compute. reflexivity. Qed.
End CacheExamples.
