(* Theory/Call.v — the ARGUMENT BINDING of MultiVector.__call__ (Model/Call.v) and substitution.

     1. python's string order on names ([str_ltb]) is a strict total order;
     2. free_symbols is the set of the names that occur in some coefficient (duplicate-free);
     3. sorted_names is strictly increasing, has the same elements, is a permutation of a duplicate-free
        input and is the ONLY strictly increasing list with these elements ("name order" is well defined);
     4. evaluation of the generated expressions = the denotation [evalT] under any total valuation that
        extends the environment on the names that occur;
     5. call_positional / call_keywords: value and error behaviour, exactly;
     6. evaluation is a homomorphism from the symbolic coefficient structure [Eops]; no operator that is
        natural invents a symbol; calling the result of an operator = the operator on the called operands. *)
From Coq Require Import List ZArith Bool Arith Lia Permutation Sorted.
From KV Require Import Model.Call Theory.Natural.
Import ListNotations.

(* ================= 1. the order on names ================= *)

Definition str_lt (a b : sname) : Prop := str_ltb a b = true.

Lemma str_ltb_irrefl a : str_ltb a a = false.
Proof. induction a as [|x a IH]; cbn [str_ltb]; [reflexivity|]. rewrite Nat.ltb_irrefl. exact IH. Qed.

Lemma str_ltb_trans a b c : str_ltb a b = true -> str_ltb b c = true -> str_ltb a c = true.
Proof.
  revert b c. induction a as [|x a IH]; intros [|y b] [|z c]; cbn [str_ltb]; try congruence.
  destruct (Nat.ltb_spec x y), (Nat.ltb_spec y x), (Nat.ltb_spec y z), (Nat.ltb_spec z y),
    (Nat.ltb_spec x z), (Nat.ltb_spec z x); try lia; try congruence.
  apply IH.
Qed.

Lemma str_ltb_total a b : str_ltb a b = false -> str_ltb b a = false -> a = b.
Proof.
  revert b. induction a as [|x a IH]; intros [|y b]; cbn [str_ltb]; try congruence.
  destruct (Nat.ltb_spec x y), (Nat.ltb_spec y x); try congruence; try lia.
  intros H1 H2. f_equal; [lia | apply IH; assumption].
Qed.

Lemma str_ltb_asym a b : str_ltb a b = true -> str_ltb b a = false.
Proof.
  intros H. destruct (str_ltb b a) eqn:E; [|reflexivity].
  rewrite <- (str_ltb_irrefl a). symmetry. apply (str_ltb_trans a b a); assumption.
Qed.

(* exactly one of  a < b,  a = b,  b < a *)
Theorem str_ltb_trichotomy a b :
  (str_lt a b /\ a <> b /\ ~ str_lt b a) \/ (~ str_lt a b /\ a = b /\ ~ str_lt b a) \/ (~ str_lt a b /\ a <> b /\ str_lt b a).
Proof.
  unfold str_lt. destruct (str_ltb a b) eqn:E1.
  - left. split; [reflexivity|]. split.
    + intros ->. rewrite str_ltb_irrefl in E1. discriminate.
    + rewrite (str_ltb_asym _ _ E1). discriminate.
  - destruct (str_ltb b a) eqn:E2.
    + right; right. split; [discriminate|]. split; [|reflexivity].
      intros ->. rewrite str_ltb_irrefl in E2. discriminate.
    + right; left. split; [discriminate|]. split; [apply str_ltb_total; assumption | discriminate].
Qed.

Lemma str_eqb_eq a b : str_eqb a b = true <-> a = b.
Proof.
  unfold str_eqb. revert b. induction a as [|x a IH]; intros [|y b]; cbn [list_eqb]; split; try congruence; try reflexivity.
  - intros H. apply andb_prop in H. destruct H as [H1 H2]. apply Nat.eqb_eq in H1. apply IH in H2. congruence.
  - intros H. injection H as -> ->. rewrite Nat.eqb_refl. apply IH. reflexivity.
Qed.

Lemma str_eqb_refl a : str_eqb a a = true.
Proof. apply str_eqb_eq. reflexivity. Qed.

Lemma str_eqb_neq a b : a <> b -> str_eqb a b = false.
Proof. intros H. destruct (str_eqb a b) eqn:E; [|reflexivity]. apply str_eqb_eq in E. contradiction. Qed.

(* ================= 2. sets of symbols ================= *)

Lemma name_in_In n s : name_in n s = true <-> In n s.
Proof.
  unfold name_in. rewrite existsb_exists. split.
  - intros [m [Hm E]]. apply str_eqb_eq in E. subst. exact Hm.
  - intros H. exists n. split; [exact H | apply str_eqb_refl].
Qed.

Lemma set_add_In s n m : In m (set_add s n) <-> In m s \/ m = n.
Proof.
  unfold set_add. destruct (name_in n s) eqn:E.
  - apply name_in_In in E. split; [tauto|]. intros [H| ->]; assumption.
  - rewrite in_app_iff. cbn [In]. intuition.
Qed.

Lemma set_add_NoDup s n : NoDup s -> NoDup (set_add s n).
Proof.
  intros H. unfold set_add. destruct (name_in n s) eqn:E; [exact H|].
  apply (Permutation_NoDup (Permutation_cons_append s n)). constructor; [|exact H].
  intros Hin. apply name_in_In in Hin. congruence.
Qed.

Lemma set_union_In t s m : In m (set_union s t) <-> In m s \/ In m t.
Proof.
  unfold set_union. revert s. induction t as [|n t IH]; intros s; cbn [fold_left In].
  - tauto.
  - rewrite IH, set_add_In. intuition.
Qed.

Lemma set_union_NoDup t s : NoDup s -> NoDup (set_union s t).
Proof.
  unfold set_union. revert s. induction t as [|n t IH]; intros s H; cbn [fold_left]; [exact H|].
  apply IH, set_add_NoDup, H.
Qed.

(* the names that occur in an expression *)
Fixpoint occurs (n : sname) (e : sexpr) : Prop :=
  match e with
  | SVar m => m = n
  | SConst _ => False
  | SAdd a b | SSub a b | SMul a b => occurs n a \/ occurs n b
  | SNeg a => occurs n a
  end.

Lemma expr_free_In e n : In n (expr_free e) <-> occurs n e.
Proof.
  induction e as [m|z|a IHa b IHb|a IHa b IHb|a IHa b IHb|a IHa]; cbn [expr_free occurs In];
    try rewrite set_union_In; try rewrite IHa; try rewrite IHb; try tauto.
Qed.

Lemma expr_free_NoDup e : NoDup (expr_free e).
Proof.
  induction e as [m|z|a IHa b IHb|a IHa b IHb|a IHa b IHb|a IHa]; cbn [expr_free];
    try (apply set_union_NoDup; assumption); try assumption.
  - constructor; [intros []|constructor].
  - constructor.
Qed.

Lemma free_fold_In (x : mv sexpr) acc n :
  In n (fold_left (fun acc kv => set_union acc (expr_free (snd kv))) x acc)
  <-> In n acc \/ exists kv, In kv x /\ occurs n (snd kv).
Proof.
  revert acc. induction x as [|kv x IH]; intros acc; cbn [fold_left In].
  - split; [tauto|]. intros [H|[kv [[] _]]]. exact H.
  - rewrite IH, set_union_In, expr_free_In. split.
    + intros [[H|H]|[kv' [H1 H2]]]; [tauto| |]; right; [exists kv | exists kv']; tauto.
    + intros [H|[kv' [[<-|H1] H2]]]; [tauto|tauto|]. right. exists kv'. tauto.
Qed.

(* free_symbols = the names that occur in some coefficient *)
Theorem free_symbols_In (x : mv sexpr) n :
  In n (free_symbols x) <-> exists kv, In kv x /\ occurs n (snd kv).
Proof. unfold free_symbols. rewrite free_fold_In. cbn [In]. tauto. Qed.

Theorem free_symbols_NoDup (x : mv sexpr) : NoDup (free_symbols x).
Proof.
  unfold free_symbols. assert (H : NoDup (@nil sname)) by constructor. revert H. generalize (@nil sname).
  induction x as [|kv x IH]; intros acc H; cbn [fold_left]; [exact H|].
  apply IH, set_union_NoDup, H.
Qed.

Lemma free_symbols_coeff (x : mv sexpr) k e n : In (k, e) x -> occurs n e -> In n (free_symbols x).
Proof. intros H1 H2. apply free_symbols_In. exists (k, e). split; assumption. Qed.

(* ================= 3. sorted ================= *)

Lemma insert_name_In n l m : In m (insert_name n l) <-> m = n \/ In m l.
Proof.
  induction l as [|a l IH]; cbn [insert_name In]; [intuition|].
  destruct (str_ltb n a) eqn:E1; cbn [In]; [intuition|].
  destruct (str_ltb a n) eqn:E2; cbn [In].
  - rewrite IH. intuition.
  - assert (n = a) by (apply str_ltb_total; assumption). subst. intuition.
Qed.

Lemma insert_name_sorted n l : StronglySorted str_lt l -> StronglySorted str_lt (insert_name n l).
Proof.
  induction 1 as [|a l Hs IH Ha]; cbn [insert_name].
  - constructor; constructor.
  - destruct (str_ltb n a) eqn:E1.
    + constructor; [constructor; assumption|].
      constructor; [exact E1|]. rewrite Forall_forall in *. intros m Hm.
      apply (str_ltb_trans n a m); [exact E1 | apply Ha, Hm].
    + destruct (str_ltb a n) eqn:E2.
      * constructor; [exact IH|]. rewrite Forall_forall in *. intros m Hm.
        apply insert_name_In in Hm. destruct Hm as [->|Hm]; [exact E2 | apply Ha, Hm].
      * constructor; assumption.
Qed.

(* strictly increasing in python's string order *)
Theorem sorted_names_sorted s : StronglySorted str_lt (sorted_names s).
Proof.
  unfold sorted_names. induction s as [|n s IH]; cbn [fold_right]; [constructor|].
  apply insert_name_sorted, IH.
Qed.

Theorem sorted_names_In s n : In n (sorted_names s) <-> In n s.
Proof.
  unfold sorted_names. induction s as [|m s IH]; cbn [fold_right In]; [tauto|].
  rewrite insert_name_In, IH. intuition.
Qed.

Lemma sorted_NoDup l : StronglySorted str_lt l -> NoDup l.
Proof.
  induction 1 as [|a l Hs IH Ha]; constructor; [|exact IH].
  intros Hin. rewrite Forall_forall in Ha. specialize (Ha a Hin). unfold str_lt in Ha.
  rewrite str_ltb_irrefl in Ha. discriminate.
Qed.

Theorem sorted_names_NoDup s : NoDup (sorted_names s).
Proof. apply sorted_NoDup, sorted_names_sorted. Qed.

Theorem sorted_names_perm s : NoDup s -> Permutation (sorted_names s) s.
Proof. intros H. apply NoDup_Permutation; [apply sorted_names_NoDup | exact H | apply sorted_names_In]. Qed.

Lemma sorted_names_length s : NoDup s -> length (sorted_names s) = length s.
Proof. intros H. apply Permutation_length, sorted_names_perm, H. Qed.

(* "name order" is well defined: a strictly increasing list is determined by its elements *)
Theorem sorted_unique l l' :
  StronglySorted str_lt l -> StronglySorted str_lt l' -> (forall n, In n l <-> In n l') -> l = l'.
Proof.
  intros H. revert l'. induction H as [|a l Hs IH Ha]; intros l' H' Hin.
  - destruct l' as [|b l']; [reflexivity|]. destruct (proj2 (Hin b)). left; reflexivity.
  - destruct l' as [|b l']; [destruct (proj1 (Hin a)); left; reflexivity|].
    inversion H' as [|b' l'' Hs' Hb]; subst. rewrite Forall_forall in Ha, Hb.
    assert (a = b).
    { destruct (proj1 (Hin a) (or_introl eq_refl)) as [E|Hab]; [congruence|].
      destruct (proj2 (Hin b) (or_introl eq_refl)) as [E|Hba]; [congruence|].
      specialize (Ha _ Hba). specialize (Hb _ Hab). unfold str_lt in *.
      rewrite (str_ltb_asym _ _ Ha) in Hb. discriminate. }
    subst b. f_equal. apply IH; [exact Hs'|].
    intros n. split; intros Hn.
    + destruct (proj1 (Hin n) (or_intror Hn)) as [E|H1]; [|exact H1].
      subst n. specialize (Ha _ Hn). unfold str_lt in Ha. rewrite str_ltb_irrefl in Ha. discriminate.
    + destruct (proj2 (Hin n) (or_intror Hn)) as [E|H1]; [|exact H1].
      subst n. specialize (Hb _ Hn). unfold str_lt in Hb. rewrite str_ltb_irrefl in Hb. discriminate.
Qed.

Corollary sorted_names_unique s l :
  StronglySorted str_lt l -> (forall n, In n l <-> In n s) -> l = sorted_names s.
Proof.
  intros H1 H2. apply sorted_unique; [exact H1 | apply sorted_names_sorted|].
  intros n. rewrite H2, sorted_names_In. tauto.
Qed.

(* the sorted list does not depend on the (unobservable) iteration order of the python set *)
Corollary sorted_names_set_order s s' : (forall n, In n s <-> In n s') -> sorted_names s = sorted_names s'.
Proof.
  intros H. apply sorted_names_unique; [apply sorted_names_sorted|].
  intros n. rewrite sorted_names_In. apply H.
Qed.

Lemma sorted_names_nil s : sorted_names s = [] <-> s = [].
Proof.
  split; [|intros ->; reflexivity]. intros H. destruct s as [|n s]; [reflexivity|].
  assert (Hn : In n (sorted_names (n :: s))) by (apply sorted_names_In; left; reflexivity).
  rewrite H in Hn. destruct Hn.
Qed.

(* ================= 4. evaluation ================= *)

Lemma call_mapM_ok {A B} (f : A -> res B) (g : A -> B) l :
  (forall a, In a l -> f a = Ok (g a)) -> call_mapM f l = Ok (map g l).
Proof.
  induction l as [|a l IH]; intros H; cbn [call_mapM map]; [reflexivity|].
  rewrite (H a (or_introl eq_refl)). cbn [bind]. rewrite IH; [reflexivity|].
  intros b Hb. apply H. right. exact Hb.
Qed.

Lemma call_mapM_err {A B} (f : A -> res B) l e :
  call_mapM f l = Err e -> exists a, In a l /\ f a = Err e.
Proof.
  induction l as [|a l IH]; cbn [call_mapM]; [discriminate|].
  destruct (f a) as [b|e'] eqn:E; cbn [bind].
  - destruct (call_mapM f l) as [bs|e'']; cbn [bind]; [discriminate|].
    intros H. injection H as ->. destruct (IH eq_refl) as [a' [H1 H2]]. exists a'. split; [right|]; assumption.
  - intros H. injection H as ->. exists a. split; [left; reflexivity | exact E].
Qed.

Lemma combine_keys_map {R S} (g : R -> S) (x : mv R) : combine (keys x) (map g (map snd x)) = map_mv g x.
Proof.
  unfold keys, map_mv. induction x as [|[k v] x IH]; cbn [map combine fst snd]; [reflexivity|].
  rewrite IH. reflexivity.
Qed.

Section Call.
  Context {S : Type} (OS : ops S) (inj : Z -> S).
  Local Notation eval := (eval OS inj).
  Local Notation evalT := (evalT OS inj).
  Local Notation call := (call OS inj).
  Local Notation call_positional := (call_positional OS inj).
  Local Notation call_keywords := (call_keywords OS inj).

  (* evaluation in an environment that binds every name that occurs = the denotation *)
  Lemma eval_evalT (rho : sname -> option S) (rhoT : sname -> S) e :
    (forall n, occurs n e -> rho n = Some (rhoT n)) -> eval rho e = Ok (evalT rhoT e).
  Proof.
    induction e as [m|z|a IHa b IHb|a IHa b IHb|a IHa b IHb|a IHa]; intros H; cbn [Call.eval Call.evalT occurs] in *;
      try (rewrite IHa by (intros; apply H; tauto)); try (rewrite IHb by (intros; apply H; tauto)); try reflexivity.
    rewrite (H m eq_refl). reflexivity.
  Qed.

  (* the NameError of the model can only come from a name that occurs and is not bound *)
  Lemma eval_err (rho : sname -> option S) e er :
    eval rho e = Err er -> exists n, occurs n e /\ rho n = None.
  Proof.
    induction e as [m|z|a IHa b IHb|a IHa b IHb|a IHa b IHb|a IHa]; cbn [Call.eval occurs].
    - destruct (rho m) eqn:E; cbn [of_opt]; [discriminate|]. intros _. exists m. split; [reflexivity|exact E].
    - discriminate.
    - destruct (eval rho a) eqn:Ea; cbn [bind].
      + destruct (eval rho b) eqn:Eb; cbn [bind]; [discriminate|]. intros H. destruct (IHb H) as [n [H1 H2]]. exists n. tauto.
      + intros H. destruct (IHa H) as [n [H1 H2]]. exists n. tauto.
    - destruct (eval rho a) eqn:Ea; cbn [bind].
      + destruct (eval rho b) eqn:Eb; cbn [bind]; [discriminate|]. intros H. destruct (IHb H) as [n [H1 H2]]. exists n. tauto.
      + intros H. destruct (IHa H) as [n [H1 H2]]. exists n. tauto.
    - destruct (eval rho a) eqn:Ea; cbn [bind].
      + destruct (eval rho b) eqn:Eb; cbn [bind]; [discriminate|]. intros H. destruct (IHb H) as [n [H1 H2]]. exists n. tauto.
      + intros H. destruct (IHa H) as [n [H1 H2]]. exists n. tauto.
    - destruct (eval rho a) eqn:Ea; cbn [bind]; [discriminate|]. intros H. exact (IHa H).
  Qed.

  (* the denotation depends on the valuation only through the names that occur *)
  Lemma evalT_ext (r1 r2 : sname -> S) e : (forall n, occurs n e -> r1 n = r2 n) -> evalT r1 e = evalT r2 e.
  Proof.
    induction e as [m|z|a IHa b IHb|a IHa b IHb|a IHa b IHb|a IHa]; intros H; cbn [Call.evalT occurs] in *;
      try (rewrite IHa by (intros; apply H; tauto)); try (rewrite IHb by (intros; apply H; tauto)); try reflexivity.
    apply H. reflexivity.
  Qed.

  Lemma map_mv_evalT_ext (r1 r2 : sname -> S) (x : mv sexpr) :
    (forall n, In n (free_symbols x) -> r1 n = r2 n) -> map_mv (evalT r1) x = map_mv (evalT r2) x.
  Proof.
    intros H. unfold map_mv. apply map_ext_in. intros [k e] Hin. cbn [fst snd]. f_equal.
    apply evalT_ext. intros n Hn. apply H. apply (free_symbols_coeff x k e n Hin Hn).
  Qed.

  (* the coefficients of a multivector evaluate under an environment binding its free symbols *)
  Lemma values_eval (rho : sname -> option S) (rhoT : sname -> S) (x : mv sexpr) :
    (forall n, In n (free_symbols x) -> rho n = Some (rhoT n)) ->
    call_mapM (eval rho) (map snd x) = Ok (map (evalT rhoT) (map snd x)).
  Proof.
    intros H. apply call_mapM_ok. intros e He. apply in_map_iff in He. destruct He as [[k e'] [E Hin]].
    cbn [snd] in E. subst e'. apply eval_evalT. intros n Hn. apply H. apply (free_symbols_coeff x k e n Hin Hn).
  Qed.

  (* ---- keyword dictionaries ---- *)

  Lemma kw_get_In n (kw : list (sname * S)) v : kw_get n kw = Some v -> In (n, v) kw.
  Proof.
    induction kw as [|[m w] kw IH]; cbn [kw_get]; [discriminate|].
    destruct (str_eqb m n) eqn:E.
    - apply str_eqb_eq in E. intros H. injection H as ->. subst. left. reflexivity.
    - intros H. right. apply IH, H.
  Qed.

  Lemma kw_get_None n (kw : list (sname * S)) : kw_get n kw = None <-> ~ In n (map fst kw).
  Proof.
    induction kw as [|[m w] kw IH]; cbn [kw_get map fst In]; [tauto|].
    destruct (str_eqb m n) eqn:E.
    - apply str_eqb_eq in E. split; [discriminate|]. intros H. exfalso. apply H. left. exact E.
    - rewrite IH. split; [|tauto]. intros H [H1|H1]; [|tauto]. subst. rewrite str_eqb_refl in E. discriminate.
  Qed.

  Lemma kw_get_NoDup_In n v (kw : list (sname * S)) : NoDup (map fst kw) -> In (n, v) kw -> kw_get n kw = Some v.
  Proof.
    induction kw as [|[m w] kw IH]; cbn [kw_get map fst In]; [tauto|].
    intros Hnd [H|H].
    - injection H as -> ->. rewrite str_eqb_refl. reflexivity.
    - inversion Hnd as [|? ? Hm Hnd']; subst. destruct (str_eqb m n) eqn:E.
      + apply str_eqb_eq in E. subst. exfalso. apply Hm. apply in_map_iff. exists (n, v). split; [reflexivity|exact H].
      + apply IH; assumption.
  Qed.

  (* a python dict does not depend on the order in which its (distinct) keys were given *)
  Lemma kw_get_perm (kw kw' : list (sname * S)) n :
    NoDup (map fst kw) -> Permutation kw kw' -> kw_get n kw = kw_get n kw'.
  Proof.
    intros Hnd Hp.
    assert (Hnd' : NoDup (map fst kw')) by (eapply Permutation_NoDup; [apply Permutation_map, Hp | exact Hnd]).
    destruct (kw_get n kw) as [v|] eqn:E.
    - symmetry. apply kw_get_NoDup_In; [exact Hnd'|]. eapply Permutation_in; [exact Hp|]. apply kw_get_In, E.
    - symmetry. apply kw_get_None. apply kw_get_None in E. intros H. apply E.
      eapply Permutation_in; [apply Permutation_sym, Permutation_map, Hp | exact H].
  Qed.

  (* the i-th argument is bound to the i-th name *)
  Lemma kw_get_combine_nth (names : list sname) (args : list S) i n a :
    NoDup names -> nth_error names i = Some n -> nth_error args i = Some a ->
    kw_get n (combine names args) = Some a.
  Proof.
    revert args i. induction names as [|m names IH]; intros args i Hnd Hn Ha.
    - destruct i; discriminate.
    - destruct args as [|b args]; [destruct i; discriminate|].
      inversion Hnd as [|? ? Hm Hnd']; subst. cbn [combine kw_get].
      destruct i as [|i]; cbn [nth_error] in *.
      + injection Hn as ->. injection Ha as ->. rewrite str_eqb_refl. reflexivity.
      + rewrite str_eqb_neq; [apply (IH args i); assumption|].
        intros ->. apply Hm. apply nth_error_In in Hn. exact Hn.
  Qed.

  Lemma kw_get_combine_bound (names : list sname) (args : list S) n :
    length args = length names -> In n names -> exists i a, nth_error names i = Some n /\ nth_error args i = Some a.
  Proof.
    intros Hl Hin. apply In_nth_error in Hin. destruct Hin as [i Hi]. exists i.
    assert (Hlt : (i < length args)%nat) by (rewrite Hl; apply nth_error_Some; congruence).
    destruct (nth_error args i) as [a|] eqn:E; [exists a; tauto|].
    apply nth_error_None in E. lia.
  Qed.

  Lemma kw_get_combine_map (names : list sname) (g : sname -> S) n :
    In n names -> kw_get n (combine names (map g names)) = Some (g n).
  Proof.
    induction names as [|m names IH]; cbn [In map combine kw_get]; [tauto|].
    destruct (str_eqb m n) eqn:E.
    - apply str_eqb_eq in E. subst. reflexivity.
    - intros [H|H]; [subst; rewrite str_eqb_refl in E; discriminate | apply IH, H].
  Qed.

  (* ================= 5. the call ================= *)

  Lemma is_nil_true {A} (l : list A) : is_nil l = true <-> l = [].
  Proof. destruct l; cbn; split; congruence. Qed.
  Lemma is_nil_false {A} (l : list A) : is_nil l = false <-> l <> [].
  Proof. destruct l; cbn; split; congruence. Qed.

  (* [return self]: a multivector without free symbols denotes the same numbers under every valuation *)
  Lemma call_closed (x : mv sexpr) args kw (rho : sname -> S) :
    free_symbols x = [] -> (args = [] \/ kw = []) -> call x args kw = Ok (map_mv (evalT rho) x).
  Proof.
    intros Hf Hak. unfold Call.call.
    replace (negb (is_nil args) && negb (is_nil kw)) with false by (destruct Hak; subst; cbn; [reflexivity | destruct args; reflexivity]).
    rewrite Hf. cbn [is_nil].
    rewrite (values_eval (fun _ => None) rho); [cbn [bind]; rewrite combine_keys_map; reflexivity|].
    intros n Hn. rewrite Hf in Hn. destruct Hn.
  Qed.

  (* the generated function on a well-sized argument list *)
  Lemma generated_spec (x : mv sexpr) (args : list S) (rho : sname -> S) :
    let names := sorted_names (free_symbols x) in
    length args = length names ->
    (forall i n a, nth_error names i = Some n -> nth_error args i = Some a -> rho n = a) ->
    generated OS inj names (map snd x) args = Ok (map (evalT rho) (map snd x)).
  Proof.
    intros names Hl Hb. unfold generated. rewrite Hl, Nat.eqb_refl.
    apply values_eval. intros n Hn.
    assert (Hin : In n names) by (apply sorted_names_In, Hn).
    destruct (kw_get_combine_bound names args n Hl Hin) as [i [a [H1 H2]]].
    rewrite (kw_get_combine_nth names args i n a (sorted_names_NoDup _) H1 H2). f_equal. symmetry. apply (Hb i n a H1 H2).
  Qed.

  (* POSITIONAL: the i-th argument is bound to the i-th free symbol in name order, the result is the
     coefficient-wise denotation under ANY valuation with that binding: same keys, same order *)
  Theorem call_positional_spec (x : mv sexpr) (args : list S) (rho : sname -> S) :
    let names := sorted_names (free_symbols x) in
    (names = [] \/ length args = length names) ->
    (forall i n a, nth_error names i = Some n -> nth_error args i = Some a -> rho n = a) ->
    call_positional x args = Ok (map_mv (evalT rho) x).
  Proof.
    cbn zeta. intros Hl Hb. unfold Call.call_positional.
    pose proof (generated_spec x args rho) as G. cbn zeta in G.
    destruct (free_symbols x) as [|n0 fs] eqn:Hf.
    - apply call_closed; [exact Hf | right; reflexivity].
    - destruct Hl as [Hl|Hl]; [apply (proj1 (sorted_names_nil _)) in Hl; discriminate|].
      unfold Call.call. rewrite Hf. cbn [is_nil negb andb bind]. rewrite andb_false_r.
      rewrite (G Hl Hb). cbn [bind]. rewrite combine_keys_map. reflexivity.
  Qed.

  (* the valuation of the positional binding, explicitly *)
  Lemma env_of_combine_binds (names : list sname) (args : list S) :
    NoDup names -> forall i n a, nth_error names i = Some n -> nth_error args i = Some a ->
    env_of inj (combine names args) n = a.
  Proof. intros Hnd i n a H1 H2. unfold env_of. rewrite (kw_get_combine_nth names args i n a Hnd H1 H2). reflexivity. Qed.

  Corollary call_positional_value (x : mv sexpr) (args : list S) :
    let names := sorted_names (free_symbols x) in
    (names = [] \/ length args = length names) ->
    call_positional x args = Ok (map_mv (evalT (env_of inj (combine names args))) x).
  Proof. intros names Hl. apply call_positional_spec; [exact Hl|]. apply env_of_combine_binds, sorted_names_NoDup. Qed.

  (* ... and it raises exactly when there are free symbols and the number of arguments differs from
     their number: ValueError (the unpacking in the generated function) *)
  Theorem call_positional_raises_iff (x : mv sexpr) (args : list S) e :
    call_positional x args = Err e <->
    free_symbols x <> [] /\ length args <> length (free_symbols x) /\ e = EValue.
  Proof.
    pose proof (sorted_names_length _ (free_symbols_NoDup x)) as Hlen.
    destruct (Nat.eq_dec (length args) (length (free_symbols x))) as [Hl|Hl].
    - rewrite (call_positional_value x args) by (right; congruence). split; [discriminate | tauto].
    - destruct (free_symbols x) as [|n0 fs] eqn:Hf.
      + rewrite (call_positional_value x args) by (left; rewrite Hf; reflexivity). split; [discriminate | tauto].
      + unfold Call.call_positional, Call.call. rewrite Hf. cbn [is_nil negb andb bind]. rewrite andb_false_r.
        unfold generated. rewrite Hlen. apply Nat.eqb_neq in Hl. rewrite Hl. cbn [bind].
        apply Nat.eqb_neq in Hl. split.
        * intros H. injection H as <-. repeat split; [discriminate | exact Hl].
        * intros [_ [_ ->]]. reflexivity.
  Qed.

  (* KEYWORDS: every free symbol is bound to the value given under its name *)
  Theorem call_keywords_spec (x : mv sexpr) (kw : list (sname * S)) (rho : sname -> S) :
    (forall n, In n (free_symbols x) -> kw_get n kw = Some (rho n)) ->
    call_keywords x kw = Ok (map_mv (evalT rho) x).
  Proof.
    intros Hb. unfold Call.call_keywords.
    destruct (free_symbols x) as [|n0 fs] eqn:Hf.
    - apply call_closed; [exact Hf | left; reflexivity].
    - destruct kw as [|kv0 kw0] eqn:Hkw.
      { specialize (Hb n0 (or_introl eq_refl)). discriminate. }
      rewrite <- Hkw in *. unfold Call.call. rewrite Hf. cbn [is_nil negb andb].
      replace (is_nil kw) with false by (subst kw; reflexivity).
      set (names := sorted_names (n0 :: fs)).
      rewrite (call_mapM_ok _ rho names).
      2:{ intros n Hn. rewrite Hb; [reflexivity|]. apply (proj1 (sorted_names_In _ _)) in Hn. exact Hn. }
      cbn [bind].
      pose proof (generated_spec x (map rho names) rho) as G. cbn zeta in G. rewrite Hf in G. fold names in G.
      rewrite G; [cbn [bind]; rewrite combine_keys_map; reflexivity | apply map_length|].
      intros i n a H1 H2. rewrite nth_error_map, H1 in H2. cbn in H2. congruence.
  Qed.

  Corollary call_keywords_value (x : mv sexpr) (kw : list (sname * S)) :
    (forall n, In n (free_symbols x) -> kw_get n kw <> None) ->
    call_keywords x kw = Ok (map_mv (evalT (env_of inj kw)) x).
  Proof.
    intros H. apply call_keywords_spec. intros n Hn. unfold env_of.
    destruct (kw_get n kw) eqn:E; [reflexivity|]. destruct (H n Hn E).
  Qed.

  (* the call looks at the keyword dictionary only through its emptiness and the values under the
     names of the free symbols: other keywords are ignored *)
  Lemma call_kw_ext (x : mv sexpr) args (kw kw' : list (sname * S)) :
    (kw = [] <-> kw' = []) -> (forall n, In n (free_symbols x) -> kw_get n kw = kw_get n kw') ->
    call x args kw = call x args kw'.
  Proof.
    intros Hn Hg. unfold Call.call.
    assert (E : is_nil kw = is_nil kw').
    { destruct kw, kw'; try reflexivity; exfalso; [destruct Hn as [Hn _]; specialize (Hn eq_refl) | destruct Hn as [_ Hn]; specialize (Hn eq_refl)]; discriminate. }
    rewrite E. destruct (negb (is_nil args) && negb (is_nil kw')); [reflexivity|].
    destruct (is_nil (free_symbols x)); [reflexivity|].
    destruct (is_nil kw'); [reflexivity|].
    f_equal.
    assert (M : forall l, (forall n, In n l -> In n (free_symbols x)) ->
                call_mapM (fun n => of_opt EKey (kw_get n kw)) l = call_mapM (fun n => of_opt EKey (kw_get n kw')) l).
    { induction l as [|n l IH]; intros Hl; cbn [call_mapM]; [reflexivity|].
      rewrite (Hg n (Hl n (or_introl eq_refl))), IH; [reflexivity|]. intros m Hm. apply Hl. right. exact Hm. }
    apply M. intros n. apply sorted_names_In.
  Qed.

  Theorem call_keywords_extra_ignored (x : mv sexpr) (kw kw' : list (sname * S)) :
    (kw = [] <-> kw' = []) -> (forall n, In n (free_symbols x) -> kw_get n kw = kw_get n kw') ->
    call_keywords x kw = call_keywords x kw'.
  Proof. apply call_kw_ext. Qed.

  (* independent of the order in which the keywords are passed (value AND error) *)
  Theorem call_keywords_order_irrelevant (x : mv sexpr) (kw kw' : list (sname * S)) :
    NoDup (map fst kw) -> Permutation kw kw' -> call_keywords x kw = call_keywords x kw'.
  Proof.
    intros Hnd Hp. apply call_kw_ext.
    - split; intros ->; [apply Permutation_nil, Hp | apply Permutation_nil, Permutation_sym, Hp].
    - intros n _. apply kw_get_perm; assumption.
  Qed.

  (* it raises exactly when there are free symbols and either no keyword at all is given (then it is the
     positional call without arguments: ValueError) or some free symbol has no keyword: KeyError *)
  Theorem call_keywords_raises_iff (x : mv sexpr) (kw : list (sname * S)) e :
    call_keywords x kw = Err e <->
    free_symbols x <> [] /\
    ((kw = [] /\ e = EValue) \/ (kw <> [] /\ e = EKey /\ exists n, In n (free_symbols x) /\ kw_get n kw = None)).
  Proof.
    destruct (free_symbols x) as [|n0 fs] eqn:Hf.
    - rewrite (call_keywords_spec x kw (fun _ => inj 0%Z)) by (rewrite Hf; intros n []). split; [discriminate | tauto].
    - destruct kw as [|kv0 kw0] eqn:Hkw.
      + change (call_keywords x []) with (call_positional x []).
        rewrite call_positional_raises_iff, Hf. cbn [length]. split.
        * intros [_ [_ ->]]. split; [discriminate|]. left. tauto.
        * intros [_ [[_ ->]|[H _]]]; [|congruence]. repeat split; discriminate.
      + rewrite <- Hkw. assert (Hne : kw <> []) by (subst; discriminate). clear Hkw.
        unfold Call.call_keywords, Call.call. rewrite Hf. cbn [is_nil negb andb].
        replace (is_nil kw) with false by (symmetry; apply is_nil_false, Hne).
        set (names := sorted_names (n0 :: fs)).
        destruct (call_mapM (fun n => of_opt EKey (kw_get n kw)) names) as [vs|e'] eqn:EM; cbn [bind].
        * (* all bound: no error at all *)
          assert (Hall : forall n, In n (n0 :: fs) -> kw_get n kw <> None).
          { intros n Hn Hnone.
            assert (Hin : In n names) by (apply sorted_names_In, Hn).
            clear - EM Hin Hnone. revert vs EM. induction names as [|m names IH]; intros vs EM; [destruct Hin|].
            cbn [call_mapM] in EM. destruct Hin as [->|Hin].
            - rewrite Hnone in EM. discriminate.
            - destruct (kw_get m kw); cbn [of_opt bind] in EM; [|discriminate].
              destruct (call_mapM (fun n => of_opt EKey (kw_get n kw)) names) as [vs'|] eqn:E'; cbn [bind] in EM; [|discriminate].
              apply (IH Hin vs' eq_refl). }
          pose proof (call_keywords_value x kw) as V. rewrite Hf in V. specialize (V Hall).
          unfold Call.call_keywords, Call.call in V. rewrite Hf in V. cbn [is_nil negb andb] in V.
          replace (is_nil kw) with false in V by (symmetry; apply is_nil_false, Hne).
          fold names in V. rewrite EM in V. cbn [bind] in V. rewrite V.
          split; [discriminate|]. intros [_ [[H _]|[_ [_ [n [Hn Hnone]]]]]]; [contradiction|]. destruct (Hall n Hn Hnone).
        * apply call_mapM_err in EM. destruct EM as [n [Hn EK]].
          destruct (kw_get n kw) eqn:Eg; cbn [of_opt] in EK; [discriminate|]. injection EK as <-.
          split.
          -- intros H. injection H as <-. split; [discriminate|]. right. repeat split; [exact Hne|].
             exists n. split; [apply (proj1 (sorted_names_In _ _)) in Hn; exact Hn | exact Eg].
          -- intros [_ [[H _]|[_ [-> _]]]]; [contradiction | reflexivity].
  Qed.

  (* keywords {name_i := a_i}  =  positional (a_1, ..., a_n) *)
  Theorem call_keywords_eq_positional (x : mv sexpr) (args : list S) :
    let names := sorted_names (free_symbols x) in
    (names = [] \/ length args = length names) ->
    call_keywords x (combine names args) = call_positional x args.
  Proof.
    intros names Hl. rewrite (call_positional_value x args Hl). fold names.
    apply call_keywords_value. intros n Hn.
    destruct Hl as [Hl|Hl].
    - apply (proj1 (sorted_names_nil _)) in Hl. rewrite Hl in Hn. destruct Hn.
    - assert (Hin : In n names) by (apply sorted_names_In, Hn).
      destruct (kw_get_combine_bound names args n Hl Hin) as [i [a [H1 H2]]].
      rewrite (kw_get_combine_nth names args i n a (sorted_names_NoDup _) H1 H2). discriminate.
  Qed.

  (* positional and keyword arguments together: always the plain Exception *)
  Theorem call_mixed_raises (x : mv sexpr) args (kw : list (sname * S)) :
    args <> [] -> kw <> [] -> call x args kw = Err EOther.
  Proof. intros Ha Hk. unfold Call.call. destruct args, kw; try contradiction. reflexivity. Qed.

  (* the complete characterisation of the exceptions of __call__ *)
  Theorem call_raises_iff (x : mv sexpr) args (kw : list (sname * S)) e :
    call x args kw = Err e <->
    (args <> [] /\ kw <> [] /\ e = EOther) \/
    (kw = [] /\ free_symbols x <> [] /\ length args <> length (free_symbols x) /\ e = EValue) \/
    (args = [] /\ kw <> [] /\ free_symbols x <> [] /\ e = EKey /\ exists n, In n (free_symbols x) /\ kw_get n kw = None).
  Proof.
    destruct args as [|a args]; [|destruct kw as [|kv kw]].
    - change (call x [] kw) with (call_keywords x kw). rewrite call_keywords_raises_iff. split.
      + intros [Hf [[-> ->]|[Hk [-> Hn]]]].
        * right; left. repeat split; [exact Hf|]. cbn [length]. destruct (free_symbols x); [contradiction | discriminate].
        * right; right. tauto.
      + intros [[H _]|[[-> [Hf [_ ->]]]|[_ [Hk [Hf [-> Hn]]]]]]; [contradiction| |]; split; tauto.
    - change (call x (a :: args) []) with (call_positional x (a :: args)). rewrite call_positional_raises_iff. split.
      + intros H. right; left. tauto.
      + intros [[_ [H _]]|[[_ H]|[H _]]]; [contradiction | exact H | discriminate].
    - rewrite call_mixed_raises by discriminate. split.
      + intros H. injection H as <-. left. repeat split; discriminate.
      + intros [[_ [_ ->]]|[[H _]|[H _]]]; [reflexivity | discriminate | discriminate].
  Qed.

  (* ================= 6. evaluation is a homomorphism; composition with naturality ================= *)

  Hypothesis inj0 : inj 0%Z = o_zero OS.
  Hypothesis inj1 : inj 1%Z = o_one OS.

  Theorem evalT_hom (rho : sname -> S) : ops_hom Eops OS (evalT rho).
  Proof. constructor; cbn [Eops o_zero o_one o_add o_sub o_mul o_neg Call.evalT]; intros; try reflexivity; assumption. Qed.
End Call.

(* ---- operators polymorphic in the coefficient structure that commute with every operation-preserving
   map (Theory/Natural.v proves this of every model operator) ---- *)

Definition natural1 (F : forall R : Type, ops R -> mv R -> mv R) : Prop :=
  forall (R S : Type) (OR : ops R) (OS : ops S) (h : R -> S), ops_hom OR OS h ->
  forall x, map_mv h (F R OR x) = F S OS (map_mv h x).
Definition natural2 (F : forall R : Type, ops R -> mv R -> mv R -> mv R) : Prop :=
  forall (R S : Type) (OR : ops R) (OS : ops S) (h : R -> S), ops_hom OR OS h ->
  forall x y, map_mv h (F R OR x y) = F S OS (map_mv h x) (map_mv h y).

(* such an operator cannot invent a symbol: the expressions over a set U of names are closed under the
   operations, the inclusion is operation-preserving, so the operator on operands over U stays over U *)
Section NoNewSymbols.
  Variable U : sname -> Prop.
  Definition within (e : sexpr) : Prop := forall n, occurs n e -> U n.
  Definition over : Type := { e : sexpr | within e }.
  Definition over_incl (a : over) : sexpr := proj1_sig a.

  Lemma within_bin (c : sexpr -> sexpr -> sexpr) :
    (forall n a b, occurs n (c a b) -> occurs n a \/ occurs n b) ->
    forall a b, within a -> within b -> within (c a b).
  Proof. intros Hc a b Ha Hb n Hn. destruct (Hc n a b Hn); [apply Ha | apply Hb]; assumption. Qed.
  Lemma within_neg a : within a -> within (SNeg a).
  Proof. intros Ha n Hn. apply Ha, Hn. Qed.
  Lemma within_const z : within (SConst z).
  Proof. intros n []. Qed.

  Definition sub_bin (c : sexpr -> sexpr -> sexpr) (Hc : forall n a b, occurs n (c a b) -> occurs n a \/ occurs n b)
    (a b : over) : over := exist _ (c (over_incl a) (over_incl b)) (within_bin c Hc _ _ (proj2_sig a) (proj2_sig b)).
  Definition sub_ops : ops over :=
    mkOps over (sub_bin SAdd (fun n a b H => H)) (sub_bin SSub (fun n a b H => H)) (sub_bin SMul (fun n a b H => H))
          (fun a => exist _ (SNeg (over_incl a)) (within_neg _ (proj2_sig a)))
          (exist _ (SConst 0) (within_const 0)) (exist _ (SConst 1) (within_const 1)).

  Lemma incl_hom : ops_hom sub_ops Eops over_incl.
  Proof. constructor; intros; reflexivity. Qed.

  Definition mv_within (x : mv sexpr) : Prop := forall kv, In kv x -> within (snd kv).

  Lemma lift_within (x : mv sexpr) : mv_within x -> exists x' : mv over, map_mv over_incl x' = x.
  Proof.
    induction x as [|[k e] x IH]; intros H.
    - exists []. reflexivity.
    - destruct IH as [x' Hx']; [intros kv Hkv; apply H; right; exact Hkv|].
      exists ((k, exist _ e (H (k, e) (or_introl eq_refl))) :: x'). cbn [map_mv map fst snd over_incl proj1_sig].
      f_equal. exact Hx'.
  Qed.

  Lemma incl_within (x' : mv over) : mv_within (map_mv over_incl x').
  Proof.
    intros kv Hkv. unfold map_mv in Hkv. apply in_map_iff in Hkv. destruct Hkv as [[k a] [<- _]].
    cbn [fst snd]. exact (proj2_sig a).
  Qed.

  Lemma natural2_within F : natural2 F -> forall x y, mv_within x -> mv_within y -> mv_within (F sexpr Eops x y).
  Proof.
    intros HF x y Hx Hy. destruct (lift_within x Hx) as [x' <-]. destruct (lift_within y Hy) as [y' <-].
    rewrite <- (HF _ _ _ _ _ incl_hom). apply incl_within.
  Qed.

  Lemma natural1_within F : natural1 F -> forall x, mv_within x -> mv_within (F sexpr Eops x).
  Proof.
    intros HF x Hx. destruct (lift_within x Hx) as [x' <-].
    rewrite <- (HF _ _ _ _ _ incl_hom). apply incl_within.
  Qed.
End NoNewSymbols.

Lemma mv_within_free (U : sname -> Prop) (x : mv sexpr) : mv_within U x <-> (forall n, In n (free_symbols x) -> U n).
Proof.
  split.
  - intros H n Hn. apply free_symbols_In in Hn. destruct Hn as [kv [H1 H2]]. exact (H kv H1 n H2).
  - intros H [k e] Hkv n Hn. apply H. apply (free_symbols_coeff x k e n Hkv Hn).
Qed.

Theorem natural2_no_new_symbols F : natural2 F -> forall x y n,
  In n (free_symbols (F sexpr Eops x y)) -> In n (free_symbols x) \/ In n (free_symbols y).
Proof.
  intros HF x y.
  apply (proj1 (mv_within_free (fun n => In n (free_symbols x) \/ In n (free_symbols y)) _)).
  apply natural2_within; [exact HF | |]; apply mv_within_free; intros n Hn; tauto.
Qed.

Theorem natural1_no_new_symbols F : natural1 F -> forall x n,
  In n (free_symbols (F sexpr Eops x)) -> In n (free_symbols x).
Proof.
  intros HF x. apply (proj1 (mv_within_free (fun n => In n (free_symbols x)) _)).
  apply natural1_within; [exact HF|]. apply mv_within_free. intros n Hn. exact Hn.
Qed.

(* ---- calling the result of an operator = the operator on the called operands ---- *)
Section Commute.
  Context {S : Type} (OS : ops S) (inj : Z -> S).
  Hypothesis inj0 : inj 0%Z = o_zero OS.
  Hypothesis inj1 : inj 1%Z = o_one OS.
  Local Notation ev rho := (map_mv (evalT OS inj rho)).

  (* keywords that bind the free symbols of the operands (the result has no others) *)
  Theorem call_commutes2 F : natural2 F -> forall (x y : mv sexpr) (kw : list (sname * S)) (rho : sname -> S),
    (forall n, In n (free_symbols x) \/ In n (free_symbols y) -> kw_get n kw = Some (rho n)) ->
    call_keywords OS inj (F sexpr Eops x y) kw = Ok (F S OS (ev rho x) (ev rho y)) /\
    call_keywords OS inj x kw = Ok (ev rho x) /\ call_keywords OS inj y kw = Ok (ev rho y).
  Proof.
    intros HF x y kw rho Hb. split; [|split].
    - rewrite <- (HF _ _ _ _ _ (evalT_hom OS inj inj0 inj1 rho)). apply call_keywords_spec.
      intros n Hn. apply Hb. apply (natural2_no_new_symbols F HF x y n Hn).
    - apply call_keywords_spec. intros n Hn. apply Hb. left. exact Hn.
    - apply call_keywords_spec. intros n Hn. apply Hb. right. exact Hn.
  Qed.

  Theorem call_commutes1 F : natural1 F -> forall (x : mv sexpr) (kw : list (sname * S)) (rho : sname -> S),
    (forall n, In n (free_symbols x) -> kw_get n kw = Some (rho n)) ->
    call_keywords OS inj (F sexpr Eops x) kw = Ok (F S OS (ev rho x)) /\ call_keywords OS inj x kw = Ok (ev rho x).
  Proof.
    intros HF x kw rho Hb. split.
    - rewrite <- (HF _ _ _ _ _ (evalT_hom OS inj inj0 inj1 rho)). apply call_keywords_spec.
      intros n Hn. apply Hb. apply (natural1_no_new_symbols F HF x n Hn).
    - apply call_keywords_spec. exact Hb.
  Qed.

  (* positional: the arguments follow the free symbols of the RESULT in name order; symbols of the operands
     that cancelled in the result may take any value *)
  Theorem call_commutes2_positional F : natural2 F -> forall (x y : mv sexpr) (args : list S) (rho : sname -> S),
    let names := sorted_names (free_symbols (F sexpr Eops x y)) in
    (names = [] \/ length args = length names) ->
    (forall i n a, nth_error names i = Some n -> nth_error args i = Some a -> rho n = a) ->
    call_positional OS inj (F sexpr Eops x y) args = Ok (F S OS (ev rho x) (ev rho y)).
  Proof.
    intros HF x y args rho names Hl Hb.
    rewrite <- (HF _ _ _ _ _ (evalT_hom OS inj inj0 inj1 rho)). apply call_positional_spec; assumption.
  Qed.

  Theorem call_commutes1_positional F : natural1 F -> forall (x : mv sexpr) (args : list S) (rho : sname -> S),
    let names := sorted_names (free_symbols (F sexpr Eops x)) in
    (names = [] \/ length args = length names) ->
    (forall i n a, nth_error names i = Some n -> nth_error args i = Some a -> rho n = a) ->
    call_positional OS inj (F sexpr Eops x) args = Ok (F S OS (ev rho x)).
  Proof.
    intros HF x args rho names Hl Hb.
    rewrite <- (HF _ _ _ _ _ (evalT_hom OS inj inj0 inj1 rho)). apply call_positional_spec; assumption.
  Qed.
End Commute.

(* ---- the model operators ---- *)
Inductive binop := Bgp | Bop | Bip | Blc | Brc | Bsp | Bcp | Bacp | Brp | Badd | Bsub | Bsw | Bproj.
Inductive unop := Uneg | Ureverse | Uinvolute | Uconjugate | Uhodge | Uunhodge | Unormsq.

Definition run2 (o : binop) (A : alg) (R : Type) (O : ops R) : mv R -> mv R -> mv R :=
  match o with
  | Bgp => gp O A | Bop => op O A | Bip => ip O A | Blc => lc O A | Brc => rc O A | Bsp => sp O A
  | Bcp => cp O A | Bacp => acp O A | Brp => rp O A | Badd => add O A | Bsub => sub O A
  | Bsw => sw O A | Bproj => proj O A
  end.
Definition run1 (o : unop) (A : alg) (R : Type) (O : ops R) : mv R -> mv R :=
  match o with
  | Uneg => neg O A | Ureverse => reverse O A | Uinvolute => involute O A | Uconjugate => conjugate O A
  | Uhodge => hodge O A | Uunhodge => unhodge O A | Unormsq => normsq O A
  end.

Theorem run2_natural o A : natural2 (run2 o A).
Proof.
  intros R S OR OS h H x y. destruct o; cbn [run2];
    [apply nat_gp | apply nat_op | apply nat_ip | apply nat_lc | apply nat_rc | apply nat_sp | apply nat_cp
    | apply nat_acp | apply nat_rp | apply nat_add | apply nat_sub | apply nat_sw | apply nat_proj]; exact H.
Qed.

Theorem run1_natural o A : natural1 (run1 o A).
Proof.
  intros R S OR OS h H x. destruct o; cbn [run1];
    [apply nat_neg | apply nat_reverse | apply nat_involute | apply nat_conjugate | apply nat_hodge
    | apply nat_unhodge | apply nat_normsq]; exact H.
Qed.

(* ================= closed examples (non-vacuity; the python session of Model/Call.v) ================= *)
(* m = alg.multivector(e1='b+1', e2='a*b', e12='c-a') in Algebra(2): keys (1, 2, 3) *)
Definition ex_a : sname := [97%nat]. Definition ex_b : sname := [98%nat]. Definition ex_c : sname := [99%nat].
Definition ex_m : mv sexpr :=
  [(1, SAdd (SVar ex_b) (SConst 1)); (2, SMul (SVar ex_a) (SVar ex_b)); (3, SSub (SVar ex_c) (SVar ex_a))]%Z.
Local Notation zcall_p := (call_positional Zops (fun z => z)).
Local Notation zcall_k := (call_keywords Zops (fun z => z)).

Example ex_sorted : sorted_names (free_symbols ex_m) = [ex_a; ex_b; ex_c].
Proof. reflexivity. Qed.
Example ex_upper_before_lower : sorted_names [[97]; [66]; [97; 49]; [95; 97]; [90; 48]]%nat = [[66]; [90; 48]; [95; 97]; [97]; [97; 49]]%nat.
Proof. reflexivity. Qed.                                     (* sorted(['a', 'B', 'a1', '_a', 'Z0']) *)
Example ex_positional : zcall_p ex_m [2; 3; 5]%Z = Ok [(1, 4); (2, 6); (3, 3)]%Z.
Proof. reflexivity. Qed.
Example ex_keywords : zcall_k ex_m [(ex_c, 5); (ex_a, 2); (ex_b, 3)]%Z = Ok [(1, 4); (2, 6); (3, 3)]%Z.
Proof. reflexivity. Qed.
Example ex_too_few : zcall_p ex_m [2; 3]%Z = Err EValue.
Proof. reflexivity. Qed.
Example ex_too_many : zcall_p ex_m [2; 3; 5; 6]%Z = Err EValue.
Proof. reflexivity. Qed.
Example ex_missing_keyword : zcall_k ex_m [(ex_a, 2); (ex_b, 3)]%Z = Err EKey.
Proof. reflexivity. Qed.
Example ex_foreign_keyword : zcall_k ex_m [(ex_a, 2); (ex_b, 3); ([100%nat], 6)]%Z = Err EKey.
Proof. reflexivity. Qed.
Example ex_extra_keyword_ignored : zcall_k ex_m [(ex_a, 2); (ex_b, 3); (ex_c, 5); ([100%nat], 6)]%Z = Ok [(1, 4); (2, 6); (3, 3)]%Z.
Proof. reflexivity. Qed.
Example ex_mixed : call Zops (fun z => z) ex_m [2]%Z [(ex_a, 2)]%Z = Err EOther.
Proof. reflexivity. Qed.
Example ex_no_symbols : zcall_p [(1, SConst 1); (2, SConst 2)]%Z [7; 8]%Z = Ok [(1, 1); (2, 2)]%Z.
Proof. reflexivity. Qed.
