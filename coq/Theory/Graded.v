(* Theory/Graded.v — graded mode (Model/Graded.v: do_codegen's completion of grades and the grade-wise
   zero filter): a graded result stores COMPLETE grades and has, on every blade, the coefficient the
   default mode computes.  For every algebra satisfying the sign-table hypotheses (every well-formed
   algebra, Theory/OpsWF.v), every coefficient type, every generated dictionary. *)
From Coq Require Import List ZArith Bool Lia.
From KV Require Import Model.All Model.Graded Theory.Bits Theory.Sparse Theory.Product Theory.Ops Theory.OpsWF Theory.WF.
Import ListNotations.
Local Open Scope Z_scope.

Section Graded.
  Variable R : Type.
  Variables (rO rI : R) (radd rmul rsub : R -> R -> R) (ropp : R -> R).
  Local Notation O := (mkOps R radd rsub rmul ropp rO rI).
  Variable A : alg.
  Hypothesis SH : sign_hyps A.
  Local Notation L := (alg_len A).

  Lemma in_range_popcount K : 0 <= K < L -> 0 <= popcount K <= Z.of_nat (a_d A).
  Proof.
    intros HK. split; [apply popcount_nonneg|].
    apply popcount_le_ones; [lia|]. unfold alg_len in HK. lia.
  Qed.

  Lemma in_grades_present ks g :
    In g (grades_present A ks) <-> (g <= a_d A)%nat /\ exists k, In k ks /\ popcount k = Z.of_nat g.
  Proof.
    unfold grades_present. rewrite filter_In, in_seq, existsb_exists. split.
    - intros [Hg [k [Hk E]]]. apply Z.eqb_eq in E. split; [lia|]. exists k. split; assumption.
    - intros [Hg [k [Hk E]]]. split; [lia|]. exists k. split; [exact Hk | apply Z.eqb_eq; exact E].
  Qed.

  Definition keys_out (d : mv R) : list Z := flat_map (indices_for_grade A) (grades_present A (keys d)).

  Lemma in_keys_out d K :
    In K (keys_out d) <-> 0 <= K < L /\ exists k, In k (keys d) /\ popcount k = popcount K.
  Proof.
    unfold keys_out. rewrite in_flat_map. split.
    - intros [g [Hg Hin]]. apply (in_indices_for_grade A (sh_keys A SH) (sh_grade A SH)) in Hin.
      destruct Hin as [HK E]. apply in_grades_present in Hg. destruct Hg as [_ [k [Hk Ek]]].
      split; [exact HK|]. exists k. split; [exact Hk|]. unfold grade in E. lia.
    - intros [HK [k [Hk Ek]]]. pose proof (in_range_popcount K HK) as Hp.
      exists (Z.to_nat (popcount K)). split.
      + apply in_grades_present. split; [lia|]. exists k. split; [exact Hk|]. lia.
      + apply (in_indices_for_grade A (sh_keys A SH) (sh_grade A SH)). split; [exact HK|]. unfold grade. lia.
  Qed.

  (* ---- the keys and coefficients of a finished (graded) dictionary ---- *)
  Lemma finish_graded_nonempty d : a_graded A = true -> d <> [] ->
    finish O A d = flat_map (fun k => if zin k (keys_out d)
                                      then [(k, match zassoc k d with Some v => v | None => rO end)] else [])
                            (canon_keys A).
  Proof. intros Hg Hd. unfold finish. rewrite Hg. destruct d; [contradiction|reflexivity]. Qed.

  Lemma keys_flat (f : Z -> R) (P : Z -> bool) l :
    keys (flat_map (fun k => if P k then [(k, f k)] else []) l) = filter P l.
  Proof.
    induction l as [|a l IH]; cbn [flat_map filter]; [reflexivity|].
    unfold keys in *. rewrite map_app, IH. destruct (P a); reflexivity.
  Qed.

  Lemma coeff_flat (f : Z -> R) (P : Z -> bool) l K : NoDup l ->
    coeff O K (flat_map (fun k => if P k then [(k, f k)] else []) l) = if P K && zin K l then f K else rO.
  Proof.
    induction l as [|a l IH]; intros Hnd; cbn [flat_map].
    - rewrite andb_false_r. reflexivity.
    - inversion Hnd as [|? ? Ha Hl]; subst. specialize (IH Hl). rewrite zin_cons.
      destruct (P a) eqn:EPa; cbn [app].
      + rewrite (coeff_cons R rO rI radd rmul rsub ropp). rewrite (Z.eqb_sym K a).
        destruct (Z.eqb a K) eqn:E.
        * apply Z.eqb_eq in E. subst a. rewrite EPa. reflexivity.
        * cbn [orb]. exact IH.
      + destruct (Z.eqb K a) eqn:E.
        * apply Z.eqb_eq in E. subst a. rewrite EPa. cbn [andb].
          rewrite IH. rewrite EPa. reflexivity.
        * cbn [orb]. exact IH.
  Qed.

  (* THE KEY SET of a graded result: exactly the blades of the grades that occur among the generated keys *)
  Theorem finish_keys d K : a_graded A = true -> (forall k, In k (keys d) -> 0 <= k < L) ->
    (In K (keys (finish O A d)) <->
     0 <= K < L /\ exists k, In k (keys d) /\ popcount k = popcount K).
  Proof.
    intros Hg Hr. destruct d as [|e d'] eqn:Ed.
    - unfold finish. rewrite Hg. cbn [keys map]. split; [intros []|]. intros [_ [k [[] _]]].
    - rewrite <- Ed in *. assert (Hne : d <> []) by (rewrite Ed; discriminate).
      rewrite (finish_graded_nonempty d Hg Hne), keys_flat, filter_In, zin_true_iff, in_keys_out.
      rewrite (sh_keys A SH). tauto.
  Qed.

  (* complete grades: the stored keys are, in canonical order, indices_for_grades[the grades present] *)
  Theorem finish_complete d : a_graded A = true -> d <> [] ->
    keys (finish O A d) = filter (fun k => zin k (keys_out d)) (canon_keys A).
  Proof. intros Hg Hd. rewrite (finish_graded_nonempty d Hg Hd). apply keys_flat. Qed.

  Theorem finish_nodup d : NoDup (keys (finish O A d)).
  Proof.
    unfold finish. destruct (a_graded A).
    - destruct d as [|e d']; [constructor|]. rewrite keys_flat. apply NoDup_filter. exact (sh_nodup A SH).
    - rewrite keys_canon_sort. apply NoDup_filter. exact (sh_nodup A SH).
  Qed.

  (* THE COEFFICIENTS: on every blade of the algebra the graded result holds what the dictionary holds
     (what default mode stores), 0 where the dictionary has no entry: graded mode changes no value *)
  Theorem finish_coeff d K : (forall k, In k (keys d) -> 0 <= k < L) -> 0 <= K < L ->
    coeff O K (finish O A d) = coeff O K d.
  Proof.
    intros Hr HK. unfold finish. destruct (a_graded A) eqn:Hg.
    - destruct d as [|e d'] eqn:Ed; [reflexivity|]. rewrite <- Ed in *.
      rewrite (coeff_flat _ _ _ K (sh_nodup A SH)).
      assert (Hc : zin K (canon_keys A) = true) by (apply zin_true_iff, (sh_keys A SH); exact HK).
      rewrite Hc, andb_true_r.
      rewrite (zassoc_coeff R rO rI radd rmul rsub ropp K d).
      destruct (zin K (keys d)) eqn:Ein.
      + assert (Hko : zin K (keys_out d) = true).
        { apply zin_true_iff, in_keys_out. split; [exact HK|]. exists K. split; [apply zin_true_iff; exact Ein|reflexivity]. }
        unfold keys_out in Hko. rewrite Hko. reflexivity.
      + assert (Hn : coeff O K d = rO).
        { apply coeff_notin. intros Hin. apply zin_true_iff in Hin. congruence. }
        rewrite Hn. match goal with |- (if ?c then _ else _) = _ => destruct c end; reflexivity.
    - apply coeff_canon_sort_in. apply (sh_keys A SH). exact HK.
  Qed.

  Corollary finish_same_as_default d K : (forall k, In k (keys d) -> 0 <= k < L) -> 0 <= K < L ->
    coeff O K (finish O A d) = coeff O K (canon_sort A d).
  Proof.
    intros Hr HK. rewrite finish_coeff by assumption. symmetry. apply coeff_canon_sort_in.
    apply (sh_keys A SH). exact HK.
  Qed.

  (* ---- the grade-wise zero filter ---- *)
  Variable isz : R -> bool.

  Lemma filter_graded_sub (x : mv R) kv : In kv (filter_graded A isz x) -> In kv x.
  Proof.
    unfold filter_graded. destruct (a_graded A); intros H; apply filter_In in H; apply H.
  Qed.

  (* an entry is dropped only if EVERY stored coefficient of its grade tests zero *)
  Theorem filter_graded_dropped (x : mv R) k v : a_graded A = true ->
    (forall k', In k' (keys x) -> 0 <= k' < L) ->
    In (k, v) x -> ~ In (k, v) (filter_graded A isz x) ->
    forall k' v', In (k', v') x -> popcount k' = popcount k -> isz v' = true.
  Proof.
    intros Hg Hr Hin Hdrop k' v' Hin' Ep. unfold filter_graded in Hdrop. rewrite Hg in Hdrop.
    destruct (isz v') eqn:Ez; [reflexivity|]. exfalso. apply Hdrop. apply filter_In. split; [exact Hin|].
    cbn [fst]. apply existsb_exists.
    assert (Hk : 0 <= k < L) by (apply Hr; unfold keys; change k with (fst (k, v)); apply in_map; exact Hin).
    pose proof (in_range_popcount k Hk) as Hp.
    exists (Z.to_nat (popcount k)). split.
    - apply filter_In. split; [apply in_seq; lia|]. apply existsb_exists. exists (k', v'). split; [exact Hin'|].
      cbn [fst snd]. rewrite Ez. cbn [negb andb]. apply Z.eqb_eq. lia.
    - apply Z.eqb_eq. lia.
  Qed.

  (* the filter keeps grades whole: if one blade of a grade survives, every stored blade of that grade does *)
  Theorem filter_graded_whole (x : mv R) k v k' v' : a_graded A = true ->
    In (k, v) (filter_graded A isz x) -> In (k', v') x -> popcount k' = popcount k ->
    In (k', v') (filter_graded A isz x).
  Proof.
    intros Hg Hin Hin' Ep. unfold filter_graded in *. rewrite Hg in *.
    apply filter_In in Hin. destruct Hin as [_ Hex]. apply filter_In. split; [exact Hin'|].
    cbn [fst] in *. apply existsb_exists in Hex. destruct Hex as [g [Hgin E]].
    apply existsb_exists. exists g. split; [exact Hgin|]. apply Z.eqb_eq in E. apply Z.eqb_eq. lia.
  Qed.
End Graded.

(* for every well-formed algebra *)
Theorem graded_result_complete_wf R rO (O' := fun radd rsub rmul ropp rI => mkOps R radd rsub rmul ropp rO rI)
  radd rsub rmul ropp rI A (d : mv R) K :
  wf_alg A = true -> a_graded A = true -> (forall k, In k (keys d) -> 0 <= k < alg_len A) ->
  (In K (keys (finish (O' radd rsub rmul ropp rI) A d)) <->
   0 <= K < alg_len A /\ exists k, In k (keys d) /\ popcount k = popcount K).
Proof. intros Hwf. apply finish_keys. apply wf_sign_hyps. exact Hwf. Qed.

Theorem graded_result_same_coefficients_wf R rO radd rsub rmul ropp rI A (d : mv R) K :
  wf_alg A = true -> (forall k, In k (keys d) -> 0 <= k < alg_len A) -> 0 <= K < alg_len A ->
  coeff (mkOps R radd rsub rmul ropp rO rI) K (finish (mkOps R radd rsub rmul ropp rO rI) A d)
  = coeff (mkOps R radd rsub rmul ropp rO rI) K (canon_sort A d).
Proof. intros Hwf. apply finish_same_as_default. apply wf_sign_hyps. exact Hwf. Qed.

(* the regression of the repaired defect (known finding F5): bivector * bivector in Cl(1,0,2), graded *)
Example graded_F5_regression :
  keys (ggp Zops (mk_default [1; 0; 0] 1 true) [(3, 1); (5, 2); (6, 3)] [(3, 1); (5, 2); (6, 3)]) = [3; 5; 6] /\
  keys (gp Zops (mk_default [1; 0; 0] 1 false) [(3, 1); (5, 2); (6, 3)] [(3, 1); (5, 2); (6, 3)]) = [6].
Proof. vm_compute. split; reflexivity. Qed.
