(* Theory/Words.v — parity of inversions of words over nat and the parity of the swap count of
   kingdon's _swap_blades (Model/Swap.v): Z.odd swaps = inv2 (b1 ++ b2) xor inv2 target. *)
From Coq Require Import Lia Permutation.
From KV Require Import Model.All.
Local Open Scope nat_scope.
(* ---------- inversion parity ---------- *)
Fixpoint clt (x : nat) (l : list nat) : nat :=   (* #{y in l | y < x} *)
  match l with [] => 0 | y :: r => (if y <? x then 1 else 0) + clt x r end.

Fixpoint inv2 (l : list nat) : bool :=
  match l with [] => false | x :: r => xorb (Nat.odd (clt x r)) (inv2 r) end.

Lemma clt_app x u v : clt x (u ++ v) = clt x u + clt x v.
Proof. induction u as [|a u IH]; simpl; [reflexivity|]. rewrite IH. lia. Qed.

Lemma odd_add a b : Nat.odd (a + b) = xorb (Nat.odd a) (Nat.odd b).
Proof. apply Nat.odd_add. Qed.

Lemma inv2_swap_adjacent p x y r :
  x <> y -> inv2 (p ++ x :: y :: r) = negb (inv2 (p ++ y :: x :: r)).
Proof.
  intros Hxy. induction p as [|a p IH]; cbn [app inv2 clt].
  - rewrite !odd_add.
    destruct (Nat.ltb_spec y x), (Nat.ltb_spec x y); try lia;
      cbn [Nat.odd]; destruct (Nat.odd (clt x r)), (Nat.odd (clt y r)), (inv2 r); reflexivity.
  - rewrite IH. rewrite !clt_app. cbn [clt].
    replace ((if x <? a then 1 else 0) + ((if y <? a then 1 else 0) + clt a r))
      with ((if y <? a then 1 else 0) + ((if x <? a then 1 else 0) + clt a r)) by lia.
    match goal with |- xorb ?o (negb ?i) = _ => destruct o, i; reflexivity end.
Qed.

Lemma inv2_delete_pair p c r : inv2 (p ++ c :: c :: r) = inv2 (p ++ r).
Proof.
  induction p as [|a p IH]; cbn [app inv2 clt].
  - rewrite Nat.ltb_irrefl. cbn [Nat.add].
    destruct (Nat.odd (clt c r)), (inv2 r); reflexivity.
  - rewrite IH, !clt_app. cbn [clt].
    replace (clt a p + ((if c <? a then 1 else 0) + ((if c <? a then 1 else 0) + clt a r)))
      with (2 * (if c <? a then 1 else 0) + (clt a p + clt a r)) by lia.
    rewrite odd_add. rewrite Nat.odd_mul. change (Nat.odd 2) with false. cbn [andb]. rewrite xorb_false_l. reflexivity.
Qed.

(* moving c rightwards across q (c not in q) flips parity |q| times *)
Lemma inv2_move p c q r :
  ~ In c q -> inv2 (p ++ c :: q ++ r) = xorb (Nat.odd (length q)) (inv2 (p ++ q ++ c :: r)).
Proof.
  revert p. induction q as [|a q IH]; intros p Hc.
  - cbn [app length]. change (Nat.odd 0) with false. rewrite xorb_false_l. reflexivity.
  - assert (Hca : c <> a) by (intro; subst; apply Hc; left; reflexivity).
    assert (Hq : ~ In c q) by (intro; apply Hc; right; assumption).
    cbn [app length].
    rewrite (inv2_swap_adjacent p c a (q ++ r) Hca).
    replace (p ++ a :: c :: q ++ r) with ((p ++ [a]) ++ c :: q ++ r)
      by (rewrite <- app_assoc; reflexivity).
    rewrite (IH (p ++ [a]) Hq).
    rewrite <- app_assoc. cbn [app].
    rewrite Nat.odd_succ, <- Nat.negb_odd.
    destruct (Nat.odd (length q)), (inv2 (p ++ a :: q ++ c :: r)); reflexivity.
Qed.

(* ---------- model of _swap_blades (list primitives as Python's) ---------- *)






Lemma index_split c l idx :
  index c l = Some idx ->
  exists p q, l = p ++ c :: q /\ length p = idx /\ ~ In c p /\ remove1 c l = p ++ q.
Proof.
  revert idx. induction l as [|x r IH]; intros idx H; simpl in *; [discriminate|].
  destruct (x =? c) eqn:E.
  - apply Nat.eqb_eq in E. subst x. inversion H; subst.
    exists [], r. simpl. repeat split; auto.
  - destruct (index c r) as [k|] eqn:Ek; simpl in H; [|discriminate].
    inversion H; subst. destruct (IH k eq_refl) as (p & q & -> & Hl & Hn & Hr).
    exists (x :: p), q. simpl. rewrite Hr, Hl. repeat split; auto.
    intros [Hx|Hx]; [apply Nat.eqb_neq in E; congruence | contradiction].
Qed.

Lemma index_none c l : index c l = None -> ~ In c l.
Proof.
  induction l as [|x r IH]; simpl; intros H; [tauto|].
  destruct (x =? c) eqn:E; [discriminate|].
  destruct (index c r); simpl in H; [discriminate|].
  apply Nat.eqb_neq in E. intros [Hx|Hx]; [congruence| exact (IH eq_refl Hx)].
Qed.


Lemma Zodd_add_nat sw n : Z.odd (sw + Z.of_nat n) = xorb (Z.odd sw) (Nat.odd n).
Proof.
  rewrite Z.odd_add. f_equal.
  induction n as [|n IH]; [reflexivity|].
  rewrite Nat2Z.inj_succ, Z.odd_succ, Nat.odd_succ, <- Z.negb_odd, <- Nat.negb_odd, IH. reflexivity.
Qed.

(* Phase-1 invariant: parity(swaps) tracks inv2 of the virtual word b1 ++ rest *)
Lemma phase1_step_parity b1 sw el c rest :
  NoDup b1 ->
  NoDup (fst (fst (phase1_step (b1, sw, el) c))) /\
  xorb (Z.odd (snd (fst (phase1_step (b1, sw, el) c))))
       (inv2 (fst (fst (phase1_step (b1, sw, el) c)) ++ rest))
  = xorb (Z.odd sw) (inv2 (b1 ++ c :: rest)).
Proof.
  intros Hnd. unfold phase1_step.
  destruct (index c b1) as [idx|] eqn:Ei; cbn [fst snd].
  - destruct (index_split _ _ _ Ei) as (p & q & -> & Hl & Hnp & Hr).
    rewrite Hr. split.
    + apply NoDup_remove_1 in Hnd. exact Hnd.
    + assert (Hq : ~ In c q).
      { apply NoDup_remove_2 in Hnd. intro; apply Hnd; apply in_or_app; right; assumption. }
      rewrite <- !app_assoc. cbn [app].
      rewrite (inv2_move p c q (c :: rest) Hq).
      rewrite (app_assoc p q (c :: c :: rest)), inv2_delete_pair, <- app_assoc.
      rewrite app_length. cbn [length].
      replace (Z.of_nat (length p + S (length q)) - Z.of_nat idx - 1)%Z with (Z.of_nat (length q)) by lia.
      rewrite Zodd_add_nat.
      destruct (Z.odd sw), (Nat.odd (length q)), (inv2 _); reflexivity.
  - apply index_none in Ei. split.
    + apply NoDup_rev in Hnd. rewrite <- (rev_involutive (b1 ++ [c])).
      apply NoDup_rev. rewrite rev_app_distr. cbn [rev app].
      constructor; [rewrite <- in_rev; exact Ei | exact Hnd].
    + rewrite <- app_assoc. reflexivity.
Qed.

Lemma phase1_parity b2 : forall b1 sw el, NoDup b1 ->
  NoDup (fst (fst (fold_left phase1_step b2 (b1, sw, el)))) /\
  xorb (Z.odd (snd (fst (fold_left phase1_step b2 (b1, sw, el)))))
       (inv2 (fst (fst (fold_left phase1_step b2 (b1, sw, el)))))
  = xorb (Z.odd sw) (inv2 (b1 ++ b2)).
Proof.
  induction b2 as [|c rest IH]; intros b1 sw el Hnd; cbn [fold_left].
  - cbn [fst snd]. rewrite app_nil_r. split; [exact Hnd | reflexivity].
  - destruct (phase1_step_parity b1 sw el c rest Hnd) as [Hnd' Hpar].
    destruct (phase1_step (b1, sw, el) c) as [[b1' sw'] el'] eqn:E. cbn [fst snd] in *.
    destruct (IH b1' sw' el' Hnd') as [H1 H2]. split; [exact H1|].
    exact (eq_trans H2 Hpar).
Qed.

(* ---------- phase 2: selection sort towards the target spelling ---------- *)

Lemma split_prefix (pre rest p q : list nat) c :
  pre ++ rest = p ++ c :: q -> ~ In c pre -> ~ In c p ->
  exists m, p = pre ++ m /\ rest = m ++ c :: q.
Proof.
  revert p. induction pre as [|a pre IH]; intros p H Hpre Hp.
  - exists p. split; [reflexivity | exact H].
  - destruct p as [|b p].
    + cbn in H. inversion H; subst. exfalso. apply Hpre. left; reflexivity.
    + cbn in H. inversion H; subst.
      destruct (IH p H2) as (m & -> & ->).
      * intro; apply Hpre; right; assumption.
      * intro; apply Hp; right; assumption.
      * exists m. split; reflexivity.
Qed.

Lemma in_index c l : In c l -> exists idx, index c l = Some idx.
Proof.
  induction l as [|x r IH]; intros H; [destruct H|]. cbn [index].
  destruct (x =? c) eqn:E; [eexists; reflexivity|].
  destruct H as [H|H]; [apply Nat.eqb_neq in E; congruence|].
  destruct (IH H) as (k & ->). eexists; reflexivity.
Qed.

Lemma insert_at_app pre c l : insert_at (length pre) c (pre ++ l) = pre ++ c :: l.
Proof.
  unfold insert_at. rewrite firstn_app, skipn_app, Nat.sub_diag, firstn_all, skipn_all.
  cbn [firstn skipn app]. rewrite app_nil_r. reflexivity.
Qed.

Lemma phase2_parity t : forall pre rest sw,
  NoDup (pre ++ rest) -> Permutation rest t ->
  exists sw', phase2 (length pre) t (pre ++ rest) sw = Some (pre ++ t, sw') /\
     xorb (Z.odd sw') (inv2 (pre ++ t)) = xorb (Z.odd sw) (inv2 (pre ++ rest)).
Proof.
  induction t as [|c t IH]; intros pre rest sw Hnd Hperm.
  - apply Permutation_sym, Permutation_nil in Hperm. subst rest. cbn [phase2]. exists sw. split; reflexivity.
  - assert (Hin : In c rest) by (apply (Permutation_in c (Permutation_sym Hperm)); left; reflexivity).
    assert (Hpre : ~ In c pre).
    { intro Hc. apply in_split in Hin. destruct Hin as (r1 & r2 & ->).
      rewrite app_assoc in Hnd. apply NoDup_remove_2 in Hnd. apply Hnd.
      apply in_or_app. left. apply in_or_app. left. exact Hc. }
    destruct (in_index c (pre ++ rest)) as (idx & Hidx); [apply in_or_app; right; exact Hin|].
    cbn [phase2]. rewrite Hidx.
    destruct (index_split _ _ _ Hidx) as (p & q & Heq & Hl & Hnp & Hr).
    destruct (split_prefix pre rest p q c Heq Hpre Hnp) as (m & -> & ->).
    rewrite Hr. rewrite <- app_assoc. rewrite insert_at_app.
    assert (Hm : ~ In c m).
    { rewrite app_assoc in Hnd. apply NoDup_remove_2 in Hnd.
      intro Hc. apply Hnd. apply in_or_app. left. apply in_or_app. right. exact Hc. }
    assert (Hperm' : Permutation (m ++ q) t).
    { apply Permutation_sym. apply Permutation_sym in Hperm.
      apply Permutation_cons_app_inv in Hperm. exact Hperm. }
    assert (Hnd' : NoDup ((pre ++ [c]) ++ (m ++ q))).
    { rewrite <- app_assoc. cbn [app].
      apply (Permutation_NoDup (l := pre ++ m ++ c :: q)); [|exact Hnd].
      apply Permutation_app_head. apply Permutation_sym. apply Permutation_middle. }
    destruct (IH (pre ++ [c]) (m ++ q)
                 (sw + (Z.of_nat idx - Z.of_nat (length pre)))%Z Hnd' Hperm') as (sw' & Hrun & Hpar).
    rewrite app_length in Hrun. cbn [length] in Hrun. rewrite Nat.add_1_r in Hrun.
    rewrite <- !app_assoc in Hrun. cbn [app] in Hrun.
    exists sw'. split; [exact Hrun|].
    rewrite <- !app_assoc in Hpar. cbn [app] in Hpar. rewrite Hpar.
    rewrite (inv2_move pre c m q Hm).
    rewrite app_length in Hl. subst idx.
    replace (Z.of_nat (length pre + length m) - Z.of_nat (length pre))%Z with (Z.of_nat (length m)) by lia.
    rewrite Zodd_add_nat.
    destruct (Z.odd sw), (Nat.odd (length m)), (inv2 (pre ++ m ++ c :: q)); reflexivity.
Qed.

(* ---------- the bridge: whole _swap_blades ---------- *)

Theorem swap_blades_parity b1 b2 target :
  NoDup b1 ->
  Permutation (fst (fst (phase1 b1 b2))) target ->
  exists sw el, swap_blades b1 b2 target = Some (sw, target, el) /\
    Z.odd sw = xorb (inv2 (b1 ++ b2)) (inv2 target).
Proof.
  intros Hnd Hperm. unfold swap_blades.
  destruct (phase1_parity b2 b1 0%Z [] Hnd) as [Hnd1 Hpar1].
  change (fold_left phase1_step b2 (b1, 0%Z, [])) with (phase1 b1 b2) in Hnd1, Hpar1.
  destruct (phase1 b1 b2) as [[b sw] el]. cbn [fst snd] in *.
  change (Z.odd 0) with false in Hpar1. rewrite xorb_false_l in Hpar1.
  destruct target as [|c t].
  - apply Permutation_sym, Permutation_nil in Hperm. subst b. exists sw, el. split; [reflexivity|].
    cbn [inv2] in *. rewrite xorb_false_r in *. exact Hpar1.
  - destruct (phase2_parity (c :: t) [] b sw Hnd1 Hperm) as (sw' & Hrun & Hpar2).
    cbn [app length] in Hrun, Hpar2. rewrite Hrun. exists sw', el. split; [reflexivity|].
    rewrite <- Hpar1.
    destruct (Z.odd sw'), (Z.odd sw), (inv2 (c :: t)), (inv2 b); cbn in *; congruence.
Qed.


(* sanity: the docstring example _swap_blades('123','12') = (3, '3', '12') *)
Example docstring : swap_blades [1;2;3] [1;2] [] = Some (3%Z, [3], [1;2]).
Proof. vm_compute. reflexivity. Qed.
