(* Theory/MatrixAll.v — C18 for EVERY dimension: kingdon's matrix representation (Model/Matrix.v) is a
   faithful representation of every well-formed algebra (any d, signature ordering, start index, default
   or custom basis).  No enumeration, no vm_compute over algebras.

   A. algebra of n x n integer matrices (associativity, identity, scalars, transposition)
   B. the Kronecker product with a 2 x 2 right factor: entries, MIXED PRODUCT (X (x) m)(Y (x) m') = XY (x) mm'
   C. stage 2: the Kronecker generators E_i = I^(i) (x) S_i (x) Ip^(d-i-1) satisfy the Clifford relations
      E_i E_i = sig_i Id,  E_i E_j = - E_j E_i, for every d (induction on d, appending one factor)
   D. the instance of Theory/Universal.v: the blade matrices R_I (products along the table's spellings)
      multiply like the sign table
   E. stage 3: column a of R_I is +-e_(a + w(I)) (bit bookkeeping), so the ordering matrix O is a signed
      permutation matrix: O O^T = O^T O = Id
   F. hom_ok A = true for every well-formed A, and the consequences (Section Faithful of Theory/Matrix.v) *)
From Coq Require Import List ZArith Bool Ring Lia Permutation Arith.
From KV Require Import Model.All Model.Matrix Theory.WF Theory.Words Theory.Sign Theory.Bits Theory.Sparse
  Theory.Product Theory.Matrix Theory.SignBits Theory.WFDefault Theory.Universal.
Import ListNotations.
Local Open Scope Z_scope.

Local Notation zsum := (Sparse.rsum 0 Z.add).
Local Notation ZT l := (l Z 0 1 Z.add Z.mul Z.sub Z.opp Zth) (only parsing).

(* ================= A. n x n integer matrices ================= *)

Lemma zsum_app l1 l2 : zsum (l1 ++ l2) = zsum l1 + zsum l2.
Proof. apply (ZT rsum_app). Qed.

Lemma zsum_map_perm {X} (f : X -> Z) l1 l2 : Permutation l1 l2 -> zsum (map f l1) = zsum (map f l2).
Proof. apply (ZT rsum_map_perm). Qed.

(* sum of a "delta" over an interval of naturals *)
Lemma zsum_delta_seq (f : nat -> Z) b : forall n s,
  zsum (map (fun k => if Nat.eqb k b then f k else 0) (seq s n))
  = if (Nat.leb s b && Nat.ltb b (s + n))%bool then f b else 0.
Proof.
  induction n as [|n IH]; intros s; cbn [seq map Sparse.rsum].
  - destruct (Nat.leb_spec s b), (Nat.ltb_spec b (s + 0)); cbn [andb]; try reflexivity; lia.
  - rewrite IH.
    destruct (Nat.eqb_spec s b) as [->|Hne].
    + destruct (Nat.leb_spec b b); [|lia]. destruct (Nat.ltb_spec b (b + S n)); [|lia].
      destruct (Nat.leb_spec (S b) b); [lia|]. cbn [andb]. ring.
    + destruct (Nat.leb_spec s b), (Nat.leb_spec (S s) b), (Nat.ltb_spec b (S s + n)), (Nat.ltb_spec b (s + S n));
        cbn [andb]; try lia; ring.
Qed.

Lemma zsum_delta_nat (f : nat -> Z) b n :
  zsum (map (fun k => if Nat.eqb k b then f k else 0) (seq 0 n)) = if Nat.ltb b n then f b else 0.
Proof. rewrite zsum_delta_seq. cbn [Nat.leb andb Nat.add]. reflexivity. Qed.

Lemma in_seq0 k n : In k (seq 0 n) -> (k < n)%nat.
Proof. intros H. apply in_seq in H. lia. Qed.

Lemma mat_mul_assoc n a b c : wfm n a -> wfm n b -> wfm n c ->
  mat_mul (mat_mul a b) c = mat_mul a (mat_mul b c).
Proof.
  intros Ha Hb Hc. pose proof (wfm_mul n a b Ha Hb) as Hab. pose proof (wfm_mul n b c Hb Hc) as Hbc.
  apply (mat_ext n); [apply wfm_mul; assumption | apply wfm_mul; assumption |].
  intros r c' Hr Hc'. rewrite (ent_mul n (mat_mul a b) c r c' Hab Hc Hr Hc'), (ent_mul n a (mat_mul b c) r c' Ha Hbc Hr Hc').
  transitivity (zsum (map (fun k => zsum (map (fun j => ent a r j * ent b j k * ent c k c') (seq 0 n))) (seq 0 n))).
  - apply zsum_ext. intros k Hk. apply in_seq0 in Hk. rewrite (ent_mul n a b r k Ha Hb Hr Hk).
    rewrite <- zsum_scal_r. reflexivity.
  - rewrite zsum_swap. apply zsum_ext. intros j Hj. apply in_seq0 in Hj.
    rewrite (ent_mul n b c j c' Hb Hc Hj Hc'), <- zsum_scal_l. apply zsum_ext. intros k _. ring.
Qed.

Lemma mat_scale_mul_l n s a b : wfm n a -> wfm n b -> mat_mul (mat_scale s a) b = mat_scale s (mat_mul a b).
Proof.
  intros Ha Hb. apply (mat_ext n); [apply wfm_mul; [apply wfm_scale|]; assumption | apply wfm_scale, wfm_mul; assumption |].
  intros r c Hr Hc. rewrite ent_scale, (ent_mul n _ _ r c (wfm_scale n s a Ha) Hb Hr Hc), (ent_mul n a b r c Ha Hb Hr Hc).
  rewrite <- zsum_scal_l. apply zsum_ext. intros k _. rewrite ent_scale. ring.
Qed.

Lemma mat_scale_mul_r n s a b : wfm n a -> wfm n b -> mat_mul a (mat_scale s b) = mat_scale s (mat_mul a b).
Proof.
  intros Ha Hb. apply (mat_ext n); [apply wfm_mul; [|apply wfm_scale]; assumption | apply wfm_scale, wfm_mul; assumption |].
  intros r c Hr Hc. rewrite ent_scale, (ent_mul n _ _ r c Ha (wfm_scale n s b Hb) Hr Hc), (ent_mul n a b r c Ha Hb Hr Hc).
  rewrite <- zsum_scal_l. apply zsum_ext. intros k _. rewrite ent_scale. ring.
Qed.

Lemma mat_scale_1 a : mat_scale 1 a = a.
Proof.
  unfold mat_scale. rewrite <- (map_id a) at 2. apply map_ext. intros row.
  rewrite <- (map_id row) at 2. apply map_ext. intros z. destruct z; reflexivity.
Qed.

Lemma mat_scale_scale s t a : mat_scale s (mat_scale t a) = mat_scale (s * t) a.
Proof.
  unfold mat_scale. rewrite map_map. apply map_ext. intros row. rewrite map_map. apply map_ext. intros z. ring.
Qed.

(* transposition *)
Lemma wfm_T n m : wfm n m -> wfm n (mat_T m).
Proof.
  intros Hm. split; [apply (mat_T_length n m Hm)|]. apply Forall_forall. intros row Hrow.
  destruct (In_nth _ _ [] Hrow) as [c [Hc E]]. rewrite (mat_T_length n m Hm) in Hc. subst row.
  rewrite (nth_mat_T n m c Hm Hc), mat_col_length. apply Hm.
Qed.

Lemma ent_T n m r c : wfm n m -> (r < n)%nat -> ent (mat_T m) r c = ent m c r.
Proof. intros Hm Hr. unfold ent at 1. rewrite (nth_mat_T n m r Hm Hr). apply nth_mat_col. Qed.

Lemma wfm_wf_matb n m : wfm n m -> wf_matb n m = true.
Proof.
  intros [Hl Hf]. unfold wf_matb. apply andb_true_intro. split; [apply Nat.eqb_eq; exact Hl|].
  apply forallb_forall. intros row Hrow. apply Nat.eqb_eq. rewrite Forall_forall in Hf. apply Hf. exact Hrow.
Qed.

Lemma zlist_eqb_refl l : list_eqb Z.eqb l l = true.
Proof. induction l as [|a l IH]; cbn [list_eqb]; [reflexivity|]. rewrite Z.eqb_refl, IH. reflexivity. Qed.

Lemma mat_eqb_refl m : mat_eqb m m = true.
Proof.
  unfold mat_eqb. induction m as [|a m IH]; cbn [list_eqb]; [reflexivity|]. rewrite zlist_eqb_refl, IH. reflexivity.
Qed.

(* ================= B. the Kronecker product with a 2 x 2 right factor ================= *)

Lemma nat_split2 r : exists q b, r = (2 * q + b)%nat /\ (b = 0 \/ b = 1)%nat.
Proof.
  induction r as [|r (q & b & -> & [-> | ->])].
  - exists 0%nat, 0%nat. auto.
  - exists q, 1%nat. split; [lia | auto].
  - exists (S q), 0%nat. split; [lia | auto].
Qed.

Lemma flat_map2_length {X Y} (f0 f1 : X -> Y) l : length (flat_map (fun x => [f0 x; f1 x]) l) = (2 * length l)%nat.
Proof. induction l as [|x l IH]; cbn [flat_map app length]; [reflexivity | rewrite IH; lia]. Qed.

Lemma nth_flat_map2 {X Y} (f0 f1 : X -> Y) (dx : X) (dy : Y) l : forall q, (q < length l)%nat ->
  nth (2 * q) (flat_map (fun x => [f0 x; f1 x]) l) dy = f0 (nth q l dx)
  /\ nth (2 * q + 1) (flat_map (fun x => [f0 x; f1 x]) l) dy = f1 (nth q l dx).
Proof.
  induction l as [|x l IH]; intros q Hq; cbn [length] in Hq; [lia|].
  destruct q as [|q].
  - cbn. auto.
  - replace (2 * S q)%nat with (S (S (2 * q))) by lia. replace (S (S (2 * q)) + 1)%nat with (S (S (2 * q + 1))) by lia.
    cbn [flat_map app nth]. apply IH. lia.
Qed.

Lemma wfm2_shape m : wfm 2 m -> exists a b c d, m = [[a; b]; [c; d]].
Proof.
  intros [Hl Hf]. destruct m as [|r0 [|r1 [|r2 m]]]; cbn [length] in Hl; try lia.
  inversion Hf as [|? ? H0 Hf']; subst. inversion Hf' as [|? ? H1 _]; subst.
  destruct r0 as [|a [|b [|? ?]]]; cbn [length] in H0; try lia.
  destruct r1 as [|c [|d [|? ?]]]; cbn [length] in H1; try lia.
  exists a, b, c, d. reflexivity.
Qed.

Lemma mat_kron_2 X a b c d :
  mat_kron X [[a; b]; [c; d]]
  = flat_map (fun ra => [flat_map (fun x => [x * a; x * b]) ra; flat_map (fun x => [x * c; x * d]) ra]) X.
Proof. reflexivity. Qed.

Lemma wfm_kron n X m : wfm n X -> wfm 2 m -> wfm (2 * n) (mat_kron X m).
Proof.
  intros HX Hm. destruct (wfm2_shape m Hm) as (a & b & c & d & ->). rewrite mat_kron_2.
  pose proof HX as [Hl Hf]. rewrite Forall_forall in Hf. split.
  - rewrite flat_map2_length, Hl. reflexivity.
  - apply Forall_forall. intros row Hrow. apply in_flat_map in Hrow. destruct Hrow as (ra & Hra & Hrow).
    specialize (Hf ra Hra). destruct Hrow as [<-|[<-|[]]]; rewrite flat_map2_length, Hf; reflexivity.
Qed.

(* entry (2 qr + br, 2 qc + bc) of X (x) m is X[qr][qc] * m[br][bc] *)
Lemma ent_kron n X m qr br qc bc : wfm n X -> wfm 2 m ->
  (qr < n)%nat -> (qc < n)%nat -> (br = 0 \/ br = 1)%nat -> (bc = 0 \/ bc = 1)%nat ->
  ent (mat_kron X m) (2 * qr + br) (2 * qc + bc) = ent X qr qc * ent m br bc.
Proof.
  intros HX Hm Hqr Hqc Hbr Hbc. destruct (wfm2_shape m Hm) as (a & b & c & d & ->). rewrite mat_kron_2.
  pose proof HX as [Hl _]. pose proof (wfm_row n X qr HX Hqr) as Hrow.
  unfold ent at 1.
  set (F0 := fun ra : list Z => flat_map (fun x => [x * a; x * b]) ra).
  set (F1 := fun ra : list Z => flat_map (fun x => [x * c; x * d]) ra).
  destruct (nth_flat_map2 F0 F1 [] [] X qr) as [E0 E1]; [lia|].
  assert (Hq : (qc < length (nth qr X []))%nat) by lia.
  destruct (nth_flat_map2 (fun x => x * a) (fun x => x * b) 0 0 (nth qr X []) qc Hq) as [A0 A1].
  destruct (nth_flat_map2 (fun x => x * c) (fun x => x * d) 0 0 (nth qr X []) qc Hq) as [C0 C1].
  destruct Hbr as [-> | ->], Hbc as [-> | ->]; rewrite ?Nat.add_0_r.
  - rewrite E0. unfold F0. rewrite A0. reflexivity.
  - rewrite E0. unfold F0. rewrite A1. reflexivity.
  - rewrite E1. unfold F1. rewrite C0. reflexivity.
  - rewrite E1. unfold F1. rewrite C1. reflexivity.
Qed.

(* a sum over 0 .. 2n-1 in pairs *)
Lemma zsum_pairs (f : nat -> Z) n :
  zsum (map f (seq 0 (2 * n))) = zsum (map (fun q => f (2 * q + 0)%nat + f (2 * q + 1)%nat) (seq 0 n)).
Proof.
  induction n as [|n IH]; [reflexivity|].
  replace (2 * S n)%nat with (S (S (2 * n))) by lia.
  rewrite (seq_S (S (2 * n))), (seq_S (2 * n)), (seq_S n), !map_app, !zsum_app, IH.
  cbn [map Sparse.rsum]. rewrite !Nat.add_0_l.
  replace (2 * n + 0)%nat with (2 * n)%nat by lia. replace (S (2 * n)) with (2 * n + 1)%nat by lia. ring.
Qed.

(* MIXED PRODUCT *)
Theorem kron_mul n X Y m m' : wfm n X -> wfm n Y -> wfm 2 m -> wfm 2 m' ->
  mat_mul (mat_kron X m) (mat_kron Y m') = mat_kron (mat_mul X Y) (mat_mul m m').
Proof.
  intros HX HY Hm Hm'.
  pose proof (wfm_kron n X m HX Hm) as H1. pose proof (wfm_kron n Y m' HY Hm') as H2.
  pose proof (wfm_mul n X Y HX HY) as HXY. pose proof (wfm_mul 2 m m' Hm Hm') as Hmm.
  apply (mat_ext (2 * n)); [apply wfm_mul; assumption | apply wfm_kron; assumption |].
  intros r c Hr Hc. destruct (nat_split2 r) as (qr & br & -> & Hbr). destruct (nat_split2 c) as (qc & bc & -> & Hbc).
  assert (Hqr : (qr < n)%nat) by lia. assert (Hqc : (qc < n)%nat) by lia.
  assert (Hbr2 : (br < 2)%nat) by lia. assert (Hbc2 : (bc < 2)%nat) by lia.
  rewrite (ent_mul (2 * n) _ _ _ _ H1 H2 Hr Hc), zsum_pairs.
  rewrite (ent_kron n _ _ qr br qc bc HXY Hmm Hqr Hqc Hbr Hbc).
  rewrite (ent_mul n X Y qr qc HX HY Hqr Hqc), (ent_mul 2 m m' br bc Hm Hm' Hbr2 Hbc2).
  cbn [seq map Sparse.rsum]. rewrite <- zsum_scal_r. apply zsum_ext. intros q Hq. apply in_seq0 in Hq.
  rewrite (ent_kron n X m qr br q 0 HX Hm Hqr Hq Hbr (or_introl eq_refl)).
  rewrite (ent_kron n X m qr br q 1 HX Hm Hqr Hq Hbr (or_intror eq_refl)).
  rewrite (ent_kron n Y m' q 0 qc bc HY Hm' Hq Hqc (or_introl eq_refl) Hbc).
  rewrite (ent_kron n Y m' q 1 qc bc HY Hm' Hq Hqc (or_intror eq_refl) Hbc).
  ring.
Qed.

Lemma kron_scale_l n s X m : wfm n X -> wfm 2 m -> mat_kron (mat_scale s X) m = mat_scale s (mat_kron X m).
Proof.
  intros HX Hm. apply (mat_ext (2 * n)); [apply wfm_kron; [apply wfm_scale|]; assumption | apply wfm_scale, wfm_kron; assumption |].
  intros r c Hr Hc. destruct (nat_split2 r) as (qr & br & -> & Hbr). destruct (nat_split2 c) as (qc & bc & -> & Hbc).
  rewrite ent_scale, (ent_kron n _ m qr br qc bc (wfm_scale n s X HX) Hm), (ent_kron n X m qr br qc bc HX Hm), ent_scale by (assumption || lia).
  ring.
Qed.

Lemma kron_scale_r n s X m : wfm n X -> wfm 2 m -> mat_kron X (mat_scale s m) = mat_scale s (mat_kron X m).
Proof.
  intros HX Hm. apply (mat_ext (2 * n)); [apply wfm_kron; [|apply wfm_scale]; assumption | apply wfm_scale, wfm_kron; assumption |].
  intros r c Hr Hc. destruct (nat_split2 r) as (qr & br & -> & Hbr). destruct (nat_split2 c) as (qc & bc & -> & Hbc).
  rewrite ent_scale, (ent_kron n X _ qr br qc bc HX (wfm_scale 2 s m Hm)), (ent_kron n X m qr br qc bc HX Hm), ent_scale by (assumption || lia).
  ring.
Qed.

Lemma kron_all_snoc ms m : kron_all (ms ++ [m]) = mat_kron (kron_all ms) m.
Proof. unfold kron_all. rewrite fold_left_app. reflexivity. Qed.

(* ---- the identity ---- *)
Definition Iden (d : nat) : mat := kron_all (repeat I2 d).

Lemma Iden_S d : Iden (S d) = mat_kron (Iden d) I2.
Proof. unfold Iden. cbn [repeat]. rewrite repeat_cons. apply kron_all_snoc. Qed.

Lemma wfm_I2 : wfm 2 I2. Proof. apply wf_matb_wfm. reflexivity. Qed.
Lemma wfm_Ip2 : wfm 2 Ip2. Proof. apply wf_matb_wfm. reflexivity. Qed.

Lemma pow2_S d : (2 ^ S d = 2 * 2 ^ d)%nat.
Proof. apply Nat.pow_succ_r'. Qed.

Lemma wfm_Iden d : wfm (2 ^ d) (Iden d).
Proof.
  induction d as [|d IH]; [apply wf_matb_wfm; reflexivity|].
  rewrite Iden_S, pow2_S. apply wfm_kron; [exact IH | exact wfm_I2].
Qed.

Lemma ent_I2 br bc : (br = 0 \/ br = 1)%nat -> (bc = 0 \/ bc = 1)%nat -> ent I2 br bc = if Nat.eqb br bc then 1 else 0.
Proof. intros [-> | ->] [-> | ->]; reflexivity. Qed.

Lemma ent_Iden d : forall r c, (r < 2 ^ d)%nat -> (c < 2 ^ d)%nat -> ent (Iden d) r c = if Nat.eqb r c then 1 else 0.
Proof.
  induction d as [|d IH]; intros r c Hr Hc.
  - cbn in Hr, Hc. assert (r = 0%nat) by lia. assert (c = 0%nat) by lia. subst. reflexivity.
  - rewrite pow2_S in Hr, Hc. rewrite Iden_S.
    destruct (nat_split2 r) as (qr & br & -> & Hbr). destruct (nat_split2 c) as (qc & bc & -> & Hbc).
    rewrite (ent_kron (2 ^ d) (Iden d) I2 qr br qc bc (wfm_Iden d) wfm_I2) by (assumption || lia).
    rewrite IH by lia. rewrite (ent_I2 br bc Hbr Hbc).
    destruct (Nat.eqb_spec qr qc), (Nat.eqb_spec br bc), (Nat.eqb_spec (2 * qr + br) (2 * qc + bc)); try lia; reflexivity.
Qed.

Lemma mat_mul_Iden_l d x : wfm (2 ^ d) x -> mat_mul (Iden d) x = x.
Proof.
  intros Hx. apply (mat_ext (2 ^ d)); [apply wfm_mul; [apply wfm_Iden | exact Hx] | exact Hx |].
  intros r c Hr Hc. rewrite (ent_mul (2 ^ d) _ _ r c (wfm_Iden d) Hx Hr Hc).
  transitivity (zsum (map (fun k => if Nat.eqb k r then ent x k c else 0) (seq 0 (2 ^ d)))).
  - apply zsum_ext. intros k Hk. apply in_seq0 in Hk. rewrite (ent_Iden d r k Hr Hk), (Nat.eqb_sym r k).
    destruct (Nat.eqb k r); ring.
  - rewrite zsum_delta_nat. destruct (Nat.ltb_spec r (2 ^ d)); [reflexivity | lia].
Qed.

Lemma mat_mul_Iden_r d x : wfm (2 ^ d) x -> mat_mul x (Iden d) = x.
Proof.
  intros Hx. apply (mat_ext (2 ^ d)); [apply wfm_mul; [exact Hx | apply wfm_Iden] | exact Hx |].
  intros r c Hr Hc. rewrite (ent_mul (2 ^ d) _ _ r c Hx (wfm_Iden d) Hr Hc).
  transitivity (zsum (map (fun k => if Nat.eqb k c then ent x r k else 0) (seq 0 (2 ^ d)))).
  - apply zsum_ext. intros k Hk. apply in_seq0 in Hk. rewrite (ent_Iden d k c Hk Hc).
    destruct (Nat.eqb k c); ring.
  - rewrite zsum_delta_nat. destruct (Nat.ltb_spec c (2 ^ d)); [reflexivity | lia].
Qed.

(* ================= C. stage 2: the Kronecker generators satisfy the Clifford relations ================= *)

(* the 2 x 2 block of a signature entry *)
Definition smat (s : Z) : mat := if s =? 0 then Z2 else if s =? 1 then P2 else N2.
Definition sig_val (s : Z) : Prop := s = 1 \/ s = -1 \/ s = 0.

Lemma sig_mats_map sig : (forall s, In s sig -> sig_val s) -> sig_mats sig = map smat sig.
Proof.
  unfold sig_mats. induction sig as [|s sig IH]; intros H; [reflexivity|]. cbn [flat_map map].
  rewrite IH by (intros t Ht; apply H; right; exact Ht).
  destruct (H s (or_introl eq_refl)) as [-> | [-> | ->]]; reflexivity.
Qed.

Lemma wfm_smat s : wfm 2 (smat s).
Proof. unfold smat. destruct (s =? 0); [|destruct (s =? 1)]; apply wf_matb_wfm; reflexivity. Qed.

Lemma smat_sq s : sig_val s -> mat_mul (smat s) (smat s) = mat_scale s I2.
Proof. intros [-> | [-> | ->]]; reflexivity. Qed.

Lemma Ip2_sq : mat_mul Ip2 Ip2 = I2.
Proof. reflexivity. Qed.

Lemma Ip2_smat s : sig_val s -> mat_mul Ip2 (smat s) = mat_scale (-1) (mat_mul (smat s) Ip2).
Proof. intros [-> | [-> | ->]]; reflexivity. Qed.

Lemma smat_Ip2 s : sig_val s -> mat_mul (smat s) Ip2 = mat_scale (-1) (mat_mul Ip2 (smat s)).
Proof. intros [-> | [-> | ->]]; reflexivity. Qed.

(* E_i in dimension d: reduce(np.kron, [I]*i + [S] + [Ip]*(d-i-1), 1) *)
Definition Egen (i d : nat) (S : mat) : mat := kron_all (repeat I2 i ++ [S] ++ repeat Ip2 (d - i - 1)).

Lemma Egen_S_lt i d S : (i < d)%nat -> Egen i (Datatypes.S d) S = mat_kron (Egen i d S) Ip2.
Proof.
  intros Hi. unfold Egen. replace (Datatypes.S d - i - 1)%nat with (Datatypes.S (d - i - 1)) by lia.
  cbn [repeat]. rewrite repeat_cons. rewrite <- kron_all_snoc. f_equal. rewrite <- !app_assoc. reflexivity.
Qed.

Lemma Egen_S_eq d S : Egen d (Datatypes.S d) S = mat_kron (Iden d) S.
Proof.
  unfold Egen, Iden. replace (Datatypes.S d - d - 1)%nat with 0%nat by lia. cbn [repeat]. rewrite app_nil_r.
  apply kron_all_snoc.
Qed.

Lemma nth_gen_mats d Ss : forall i j, (j < length Ss)%nat ->
  nth j (gen_mats_from i d Ss) [] = Egen (i + j) d (nth j Ss []).
Proof.
  induction Ss as [|S0 Ss IH]; intros i j Hj; cbn [length] in Hj; [lia|]. cbn [gen_mats_from].
  destruct j as [|j]; cbn [nth].
  - rewrite Nat.add_0_r. reflexivity.
  - rewrite IH by lia. f_equal. lia.
Qed.

Lemma gen_mats_length d Ss : forall i, length (gen_mats_from i d Ss) = length Ss.
Proof. induction Ss as [|S0 Ss IH]; intros i; cbn [gen_mats_from length]; [reflexivity | rewrite IH; reflexivity]. Qed.

Lemma wfm_Egen d : forall i s, (i < d)%nat -> wfm (2 ^ d) (Egen i d (smat s)).
Proof.
  induction d as [|d IH]; intros i s Hi; [lia|]. rewrite pow2_S.
  destruct (Nat.eq_dec i d) as [->|Hne].
  - rewrite Egen_S_eq. apply wfm_kron; [apply wfm_Iden | apply wfm_smat].
  - rewrite Egen_S_lt by lia. apply wfm_kron; [apply IH; lia | apply wfm_Ip2].
Qed.

(* E_i E_i = sig_i Id *)
Theorem Egen_square d : forall i s, (i < d)%nat -> sig_val s ->
  mat_mul (Egen i d (smat s)) (Egen i d (smat s)) = mat_scale s (Iden d).
Proof.
  induction d as [|d IH]; intros i s Hi Hs; [lia|].
  destruct (Nat.eq_dec i d) as [->|Hne].
  - rewrite Egen_S_eq, (kron_mul (2 ^ d)) by (try apply wfm_Iden; apply wfm_smat).
    rewrite (mat_mul_Iden_l d (Iden d) (wfm_Iden d)), (smat_sq s Hs), Iden_S.
    apply (kron_scale_r (2 ^ d)); [apply wfm_Iden | exact wfm_I2].
  - assert (Hi' : (i < d)%nat) by lia. pose proof (wfm_Egen d i s Hi') as HE.
    rewrite Egen_S_lt by exact Hi'. rewrite (kron_mul (2 ^ d)) by (assumption || exact wfm_Ip2).
    rewrite (IH i s Hi' Hs), Ip2_sq, Iden_S.
    apply (kron_scale_l (2 ^ d)); [apply wfm_Iden | exact wfm_I2].
Qed.

(* E_i E_j = - E_j E_i *)
Theorem Egen_anti d : forall i j s t, (i < d)%nat -> (j < d)%nat -> i <> j -> sig_val s -> sig_val t ->
  mat_mul (Egen i d (smat s)) (Egen j d (smat t))
  = mat_scale (-1) (mat_mul (Egen j d (smat t)) (Egen i d (smat s))).
Proof.
  induction d as [|d IH]; intros i j s t Hi Hj Hne Hs Ht; [lia|].
  destruct (Nat.eq_dec i d) as [->|Hid]; destruct (Nat.eq_dec j d) as [->|Hjd]; [contradiction | | |].
  - (* i = d, j < d *)
    assert (Hj' : (j < d)%nat) by lia. pose proof (wfm_Egen d j t Hj') as HE.
    rewrite Egen_S_eq, (Egen_S_lt j d _ Hj').
    rewrite !(kron_mul (2 ^ d)) by (try apply wfm_Iden; try apply wfm_smat; try exact wfm_Ip2; assumption).
    rewrite (mat_mul_Iden_l d _ HE), (mat_mul_Iden_r d _ HE), (smat_Ip2 s Hs).
    apply (kron_scale_r (2 ^ d)); [exact HE | apply (wfm_mul 2); [exact wfm_Ip2 | apply wfm_smat]].
  - (* i < d, j = d *)
    assert (Hi' : (i < d)%nat) by lia. pose proof (wfm_Egen d i s Hi') as HE.
    rewrite Egen_S_eq, (Egen_S_lt i d _ Hi').
    rewrite !(kron_mul (2 ^ d)) by (try apply wfm_Iden; try apply wfm_smat; try exact wfm_Ip2; assumption).
    rewrite (mat_mul_Iden_l d _ HE), (mat_mul_Iden_r d _ HE), (Ip2_smat t Ht).
    apply (kron_scale_r (2 ^ d)); [exact HE | apply (wfm_mul 2); [apply wfm_smat | exact wfm_Ip2]].
  - assert (Hi' : (i < d)%nat) by lia. assert (Hj' : (j < d)%nat) by lia.
    pose proof (wfm_Egen d i s Hi') as HEi. pose proof (wfm_Egen d j t Hj') as HEj.
    rewrite (Egen_S_lt i d _ Hi'), (Egen_S_lt j d _ Hj').
    rewrite !(kron_mul (2 ^ d)) by (assumption || exact wfm_Ip2).
    rewrite (IH i j s t Hi' Hj' Hne Hs Ht), Ip2_sq.
    apply (kron_scale_l (2 ^ d)); [apply wfm_mul; assumption | exact wfm_I2].
Qed.

(* ================= E0. bits of naturals; unit columns ================= *)

Lemma div2_pair q b : (b = 0 \/ b = 1)%nat -> Nat.div2 (2 * q + b) = q.
Proof.
  intros [-> | ->].
  - rewrite Nat.add_0_r. apply Nat.div2_double.
  - replace (2 * q + 1)%nat with (S (2 * q)) by lia. apply Nat.div2_succ_double.
Qed.

Lemma testbit_pair_S q b k : (b = 0 \/ b = 1)%nat -> Nat.testbit (2 * q + b) (S k) = Nat.testbit q k.
Proof.
  intros Hb. change (Nat.testbit (2 * q + b) (S k)) with (Nat.testbit (Nat.div2 (2 * q + b)) k).
  rewrite (div2_pair q b Hb). reflexivity.
Qed.

Lemma testbit_pair_0 q b : (b = 0 \/ b = 1)%nat -> Nat.testbit (2 * q + b) 0 = Nat.eqb b 1.
Proof.
  intros Hb. change (Nat.testbit (2 * q + b) 0) with (Nat.odd (2 * q + b)).
  rewrite Nat.odd_add, Nat.odd_mul. change (Nat.odd 2) with false. cbn [andb xorb].
  destruct Hb as [-> | ->]; reflexivity.
Qed.

Lemma testbit_add_pow2 : forall k a k', Nat.testbit a k = false ->
  Nat.testbit (a + 2 ^ k) k' = if Nat.eqb k' k then true else Nat.testbit a k'.
Proof.
  induction k as [|k IH]; intros a k' Ha; destruct (nat_split2 a) as (q & b & -> & Hb).
  - rewrite (testbit_pair_0 q b Hb) in Ha.
    assert (b = 0)%nat by (destruct Hb as [-> | ->]; [reflexivity | discriminate]). subst b.
    change (2 ^ 0)%nat with 1%nat. replace (2 * q + 0 + 1)%nat with (2 * q + 1)%nat by lia.
    destruct k' as [|k'].
    + rewrite (testbit_pair_0 q 1) by auto. reflexivity.
    + rewrite (testbit_pair_S q 1), (testbit_pair_S q 0) by auto. reflexivity.
  - rewrite (testbit_pair_S q b k Hb) in Ha.
    replace (2 * q + b + 2 ^ S k)%nat with (2 * (q + 2 ^ k) + b)%nat by (rewrite pow2_S; lia).
    destruct k' as [|k'].
    + rewrite !testbit_pair_0 by exact Hb. reflexivity.
    + rewrite !testbit_pair_S by exact Hb. rewrite (IH q k' Ha). reflexivity.
Qed.

Lemma add_pow2_lt : forall k d a, (a < 2 ^ d)%nat -> (k < d)%nat -> Nat.testbit a k = false -> (a + 2 ^ k < 2 ^ d)%nat.
Proof.
  induction k as [|k IH]; intros d a Ha Hk Hb; (destruct d as [|d]; [lia|]);
    rewrite (pow2_S d) in *; destruct (nat_split2 a) as (q & b & -> & Hb2).
  - rewrite (testbit_pair_0 q b Hb2) in Hb.
    assert (b = 0)%nat by (destruct Hb2 as [-> | ->]; [reflexivity | discriminate]). subst b.
    change (2 ^ 0)%nat with 1%nat. lia.
  - rewrite (testbit_pair_S q b k Hb2) in Hb.
    assert (Hq : (q < 2 ^ d)%nat) by lia. assert (Hk' : (k < d)%nat) by lia.
    pose proof (IH d q Hq Hk' Hb) as H. rewrite (pow2_S k). revert H Ha. generalize (2 ^ k)%nat (2 ^ d)%nat. intros u v H Ha. lia.
Qed.

(* column a of X is s times the unit vector e_b *)
Definition iscol (n : nat) (X : mat) (a : nat) (s : Z) (b : nat) : Prop :=
  forall r, (r < n)%nat -> ent X r a = if Nat.eqb r b then s else 0.

Lemma iscol_mul n X Y a s b s' c : wfm n X -> wfm n Y -> (a < n)%nat -> (b < n)%nat ->
  iscol n Y a s b -> iscol n X b s' c -> iscol n (mat_mul X Y) a (s * s') c.
Proof.
  intros HX HY Ha Hb HYc HXc r Hr. rewrite (ent_mul n X Y r a HX HY Hr Ha).
  transitivity (zsum (map (fun k => if Nat.eqb k b then ent X r k * s else 0) (seq 0 n))).
  - apply zsum_ext. intros k Hk. apply in_seq0 in Hk. rewrite (HYc k Hk). destruct (Nat.eqb k b); ring.
  - rewrite zsum_delta_nat. destruct (Nat.ltb_spec b n); [|lia]. rewrite (HXc r Hr). destruct (Nat.eqb r c); ring.
Qed.

(* column a of E_i, when the bit of generator i (position d-1-i) is not set in a: +- e_(a + 2^(d-1-i)) *)
Lemma Egen_col d : forall i s a, (i < d)%nat -> sig_val s -> (a < 2 ^ d)%nat -> Nat.testbit a (d - 1 - i) = false ->
  exists e, (e = 1 \/ e = -1) /\ iscol (2 ^ d) (Egen i d (smat s)) a e (a + 2 ^ (d - 1 - i)).
Proof.
  induction d as [|d IH]; intros i s a Hi Hs Ha Hbit; [lia|].
  rewrite pow2_S in Ha. destruct (nat_split2 a) as (qa & ba & -> & Hba).
  destruct (Nat.eq_dec i d) as [->|Hne].
  - replace (S d - 1 - d)%nat with 0%nat in * by lia. rewrite (testbit_pair_0 qa ba Hba) in Hbit.
    assert (ba = 0)%nat by (destruct Hba as [-> | ->]; [reflexivity | discriminate]). subst ba.
    exists (if s =? -1 then -1 else 1). split; [destruct (s =? -1); auto|].
    intros r Hr. rewrite pow2_S in Hr. destruct (nat_split2 r) as (qr & br & -> & Hbr).
    rewrite Egen_S_eq, (ent_kron (2 ^ d) (Iden d) (smat s) qr br qa 0 (wfm_Iden d) (wfm_smat s)) by (lia || auto).
    rewrite ent_Iden by lia. change (2 ^ 0)%nat with 1%nat.
    assert (Hcol : ent (smat s) br 0 = if Nat.eqb br 1 then (if s =? -1 then -1 else 1) else 0).
    { destruct Hs as [-> | [-> | ->]], Hbr as [-> | ->]; reflexivity. }
    rewrite Hcol.
    destruct (Nat.eqb_spec qr qa), (Nat.eqb_spec br 1), (Nat.eqb_spec (2 * qr + br) (2 * qa + 0 + 1)); try lia; ring.
  - assert (Hi' : (i < d)%nat) by lia. set (k := (d - 1 - i)%nat).
    replace (S d - 1 - i)%nat with (S k) in * by lia.
    rewrite (testbit_pair_S qa ba k Hba) in Hbit.
    assert (Hqa : (qa < 2 ^ d)%nat) by lia.
    destruct (IH i s qa Hi' Hs Hqa Hbit) as (e & He & Hcol). fold k in Hcol.
    exists (e * (if Nat.eqb ba 0 then 1 else -1)).
    split; [destruct He as [-> | ->], Hba as [-> | ->]; cbn; auto|].
    intros r Hr. rewrite pow2_S in Hr. destruct (nat_split2 r) as (qr & br & -> & Hbr).
    rewrite (Egen_S_lt i d _ Hi'), (ent_kron (2 ^ d) _ Ip2 qr br qa ba (wfm_Egen d i s Hi') wfm_Ip2) by (lia || assumption).
    rewrite (Hcol qr) by lia. rewrite pow2_S.
    assert (HIp : ent Ip2 br ba = if Nat.eqb br ba then (if Nat.eqb ba 0 then 1 else -1) else 0).
    { destruct Hbr as [-> | ->], Hba as [-> | ->]; reflexivity. }
    rewrite HIp. generalize (2 ^ k)%nat. intros u.
    destruct (Nat.eqb_spec qr (qa + u)), (Nat.eqb_spec br ba), (Nat.eqb_spec (2 * qr + br) (2 * qa + ba + 2 * u)); try lia; ring.
Qed.

(* conjugation by an "orthogonal" pair O, OT (OT O = Id) is multiplicative *)
Lemma conj_mul n O OT Id X Y : wfm n O -> wfm n OT -> wfm n X -> wfm n Y ->
  mat_mul OT O = Id -> (forall Z, wfm n Z -> mat_mul Id Z = Z) ->
  mat_mul (mat_mul (mat_mul O X) OT) (mat_mul (mat_mul O Y) OT) = mat_mul (mat_mul O (mat_mul X Y)) OT.
Proof.
  intros HO HOT HX HY HId HIdl.
  rewrite (mat_mul_assoc n (mat_mul O X) OT (mat_mul (mat_mul O Y) OT)) by (repeat apply wfm_mul; assumption).
  rewrite <- (mat_mul_assoc n OT (mat_mul O Y) OT) by (repeat apply wfm_mul; assumption).
  rewrite <- (mat_mul_assoc n OT O Y) by assumption.
  rewrite HId, (HIdl Y HY).
  rewrite (mat_mul_assoc n O X (mat_mul Y OT)) by (repeat apply wfm_mul; assumption).
  rewrite <- (mat_mul_assoc n X Y OT) by assumption.
  rewrite <- (mat_mul_assoc n O (mat_mul X Y) OT) by (repeat apply wfm_mul; assumption).
  reflexivity.
Qed.

Lemma lens_sorted_head x l : lens_sorted (x :: l) = true ->
  forall y, In y l -> (length (fst x) <= length (fst y))%nat.
Proof.
  revert x. induction l as [|z l IH]; intros x H y Hy; [destruct Hy|].
  cbn [lens_sorted] in H. apply andb_prop in H. destruct H as [H1 H2]. apply Nat.leb_le in H1.
  destruct Hy as [<-|Hy]; [exact H1|]. specialize (IH z H2 y Hy). lia.
Qed.

(* ================= D. the representation of a well-formed algebra ================= *)

Section Rep.
Variable A : alg.
Hypothesis Hwf : wf_alg A = true.
Local Notation vecs := (alg_vecs A).
Local Notation L := (alg_len A).
Local Notation d := (a_d A).
Local Notation n := (2 ^ a_d A)%nat.

(* index of a generator letter in the signature / in Es: int(c, 16) - start_index *)
Definition gidx (c : nat) : nat := Z.to_nat (Z.of_nat c - a_start A).
Definition Es : list mat := gen_mats_from 0 d (sig_mats (a_sig A)).
Definition gm (c : nat) : mat := nth (gidx c) Es [].

Lemma sig_mats_eq : sig_mats (a_sig A) = map smat (a_sig A).
Proof. apply sig_mats_map. intros s Hs. apply (wf_sig_vals A Hwf s Hs). Qed.

Lemma sig_mats_len : length (sig_mats (a_sig A)) = d.
Proof. rewrite sig_mats_eq, map_length. apply (wf_sig_len A Hwf). Qed.

Lemma gidx_lt c : In c vecs -> (gidx c < d)%nat.
Proof. intros Hc. destruct (wf_vecs_range A Hwf c Hc). unfold gidx. lia. Qed.

Lemma gidx_inj c e : In c vecs -> In e vecs -> gidx c = gidx e -> c = e.
Proof.
  intros Hc He E. destruct (wf_vecs_range A Hwf c Hc). destruct (wf_vecs_range A Hwf e He). unfold gidx in E. lia.
Qed.

Lemma metric_val c : sig_val (metric A c).
Proof. apply (metric_values A Hwf). Qed.

Lemma gm_eq c : In c vecs -> gm c = Egen (gidx c) d (smat (metric A c)).
Proof.
  intros Hc. pose proof (gidx_lt c Hc) as Hlt. unfold gm, Es.
  rewrite nth_gen_mats by (rewrite sig_mats_len; exact Hlt). cbn [Nat.add]. f_equal.
  rewrite sig_mats_eq. rewrite (nth_indep _ [] (smat 0)) by (rewrite map_length, (wf_sig_len A Hwf); exact Hlt).
  transitivity (smat (nth (gidx c) (a_sig A) 0)); [exact (map_nth smat (a_sig A) 0 (gidx c))|].
  f_equal. symmetry. apply (metric_nth A Hwf c Hc).
Qed.

Lemma Rep_ok_g c : In c vecs -> wfm n (gm c).
Proof. intros Hc. rewrite (gm_eq c Hc). apply wfm_Egen. apply gidx_lt. exact Hc. Qed.

Lemma Rep_sq c : In c vecs -> mat_mul (gm c) (gm c) = mat_scale (metric A c) (Iden d).
Proof. intros Hc. rewrite (gm_eq c Hc). apply Egen_square; [apply gidx_lt; exact Hc | apply metric_val]. Qed.

Lemma Rep_anti c e : In c vecs -> In e vecs -> c <> e ->
  mat_mul (gm c) (gm e) = mat_scale (-1) (mat_mul (gm e) (gm c)).
Proof.
  intros Hc He Hne. rewrite (gm_eq c Hc), (gm_eq e He).
  apply Egen_anti; try apply gidx_lt; try apply metric_val; try assumption.
  intro E. apply Hne. apply (gidx_inj c e Hc He E).
Qed.

(* the un-normalised blade matrices: ordered products of the generator matrices along the table's spelling *)
Definition Ev (w : name) : mat := ev mat mat_mul (Iden d) gm w.
Definition Rb (I : Z) : mat := blade A mat mat_mul (Iden d) gm I.

Lemma wfm_Ev w : (forall c, In c w -> In c vecs) -> wfm n (Ev w).
Proof. apply (ev_ok A mat (wfm n) mat_mul (Iden d) gm (wfm_Iden d) Rep_ok_g (wfm_mul n)). Qed.

Lemma wfm_Rb I : 0 <= I < L -> wfm n (Rb I).
Proof. apply (blade_ok A Hwf mat (wfm n) mat_mul (Iden d) gm (wfm_Iden d) Rep_ok_g (wfm_mul n)). Qed.

Lemma Rb_0 : Rb 0 = Iden d.
Proof. apply (blade_0 A Hwf). Qed.

(* STAGE 1 + 2: the blade matrices multiply like the sign table, in every dimension *)
Theorem Rb_hom I J : 0 <= I < L -> 0 <= J < L ->
  mat_mul (Rb I) (Rb J) = mat_scale (sgn A I J) (Rb (Z.lxor I J)).
Proof.
  apply (universal_hom A Hwf mat (wfm n) mat_mul (Iden d) mat_scale gm (wfm_Iden d) Rep_ok_g (wfm_mul n)
           (mat_mul_assoc n) (mat_mul_Iden_l d) (mat_mul_Iden_r d) (mat_scale_mul_l n) (mat_scale_mul_r n)
           (fun x _ => mat_scale_1 x) (fun a b x _ => mat_scale_scale a b x) Rep_sq Rep_anti).
Qed.

(* ================= E. stage 3: the columns of the blade matrices ================= *)

Local Notation inV w := (forall c, In c w -> In c vecs).

(* bit position of generator letter c in a row / column index, and the index with the bits of a word set *)
Definition kc (c : nat) : nat := (d - 1 - gidx c)%nat.
Fixpoint wsum (w : name) : nat := match w with [] => 0%nat | c :: r => (2 ^ kc c + wsum r)%nat end.

Lemma wsum_app u v : wsum (u ++ v) = (wsum u + wsum v)%nat.
Proof. induction u as [|c u IH]; cbn [app wsum]; [reflexivity | rewrite IH; lia]. Qed.

Lemma kc_lt c : In c vecs -> (kc c < d)%nat.
Proof. intros Hc. pose proof (gidx_lt c Hc). unfold kc. lia. Qed.

Lemma kc_inj c e : In c vecs -> In e vecs -> kc c = kc e -> c = e.
Proof.
  intros Hc He E. apply (gidx_inj c e Hc He). pose proof (gidx_lt c Hc). pose proof (gidx_lt e He). unfold kc in E. lia.
Qed.

Lemma Ev_snoc w c : Ev (w ++ [c]) = mat_mul (Ev w) (gm c).
Proof. apply ev_snoc. Qed.

Lemma n_pos : (0 < n)%nat.
Proof. apply Nat.neq_0_lt_0. apply Nat.pow_nonzero. discriminate. Qed.

(* column a of the product along a duplicate-free word w whose bits are not set in a: +- e_(a + wsum w) *)
Lemma Ev_col w : NoDup w -> inV w -> forall a, (a < n)%nat ->
  (forall c, In c w -> Nat.testbit a (kc c) = false) ->
  (a + wsum w < n)%nat /\ exists e, (e = 1 \/ e = -1) /\ iscol n (Ev w) a e (a + wsum w).
Proof.
  induction w as [|c w IH] using rev_ind; intros Hnd Hv a Ha Hbits.
  - cbn [wsum]. rewrite Nat.add_0_r. split; [exact Ha|]. exists 1. split; [auto|].
    intros r Hr. change (Ev []) with (Iden d). apply ent_Iden; assumption.
  - apply NoDup_remove in Hnd. rewrite app_nil_r in Hnd. destruct Hnd as [Hndw Hcw].
    assert (Hc : In c vecs) by (apply Hv; apply in_or_app; right; left; reflexivity).
    assert (Hvw : inV w) by (intros e He; apply Hv; apply in_or_app; left; exact He).
    assert (Hbc : Nat.testbit a (kc c) = false) by (apply Hbits; apply in_or_app; right; left; reflexivity).
    destruct (Egen_col d (gidx c) (metric A c) a (gidx_lt c Hc) (metric_val c) Ha Hbc) as (e1 & He1 & Hcol1).
    rewrite <- (gm_eq c Hc) in Hcol1. fold (kc c) in Hcol1.
    set (a1 := (a + 2 ^ kc c)%nat) in *.
    assert (Ha1 : (a1 < n)%nat) by (apply add_pow2_lt; [exact Ha | apply kc_lt; exact Hc | exact Hbc]).
    assert (Hbits1 : forall c', In c' w -> Nat.testbit a1 (kc c') = false).
    { intros c' Hc'. unfold a1. rewrite (testbit_add_pow2 (kc c) a (kc c') Hbc).
      destruct (Nat.eqb_spec (kc c') (kc c)) as [E|_].
      - exfalso. apply Hcw. rewrite <- (kc_inj c' c (Hvw c' Hc') Hc E). exact Hc'.
      - apply Hbits. apply in_or_app. left. exact Hc'. }
    destruct (IH Hndw Hvw a1 Ha1 Hbits1) as (Hlt & e2 & He2 & Hcol2).
    rewrite Ev_snoc, wsum_app. cbn [wsum]. rewrite Nat.add_0_r.
    replace (a + (wsum w + 2 ^ kc c))%nat with (a1 + wsum w)%nat by (unfold a1; rewrite (Nat.add_comm (wsum w)); apply eq_sym, Nat.add_assoc).
    split; [exact Hlt|]. exists (e1 * e2). split; [destruct He1 as [-> | ->], He2 as [-> | ->]; cbn; auto|].
    apply (iscol_mul n (Ev w) (gm c) a e1 a1 e2); try assumption; [apply wfm_Ev; exact Hvw | apply Rep_ok_g; exact Hc].
Qed.

Lemma wsum_bits w : NoDup w -> inV w -> forall c, In c vecs -> (Nat.testbit (wsum w) (kc c) = true <-> In c w).
Proof.
  induction w as [|c0 w IH]; intros Hnd Hv c Hc.
  - cbn [wsum]. rewrite Nat.bits_0. split; [discriminate | intros []].
  - inversion Hnd as [|? ? Hc0 Hndw]; subst.
    assert (Hc0v : In c0 vecs) by (apply Hv; left; reflexivity).
    assert (Hvw : inV w) by (intros e He; apply Hv; right; exact He).
    assert (Hb0 : Nat.testbit (wsum w) (kc c0) = false).
    { destruct (Nat.testbit (wsum w) (kc c0)) eqn:E; [|reflexivity]. exfalso. apply Hc0. apply (IH Hndw Hvw c0 Hc0v). exact E. }
    cbn [wsum]. rewrite Nat.add_comm, (testbit_add_pow2 (kc c0) (wsum w) (kc c) Hb0).
    destruct (Nat.eqb_spec (kc c) (kc c0)) as [E|Hne].
    + rewrite (kc_inj c c0 Hc Hc0v E). split; [intros _; left; reflexivity | reflexivity].
    + rewrite (IH Hndw Hvw c Hc). split; [intros H; right; exact H|].
      intros [E|H]; [subst c0; contradiction | exact H].
Qed.

(* the position and the sign of column 0 of R_I *)
Definition piK (I : Z) : nat := wsum (nm A I).
Definition sK (I : Z) : Z := ent (Rb I) (piK I) 0.

Lemma nm_NoDup I : 0 <= I < L -> NoDup (nm A I).
Proof. intros HI. apply (bin2canon_NoDup A Hwf I _ (nm_spec A Hwf I HI)). Qed.

Lemma nm_vecs I : 0 <= I < L -> inV (nm A I).
Proof. intros HI c Hc. apply (name_in_vecs A Hwf I _ c (nm_spec A Hwf I HI) Hc). Qed.

Theorem Rb_col0 I : 0 <= I < L ->
  (piK I < n)%nat /\ (sK I = 1 \/ sK I = -1) /\
  forall r, (r < n)%nat -> ent (Rb I) r 0 = if Nat.eqb r (piK I) then sK I else 0.
Proof.
  intros HI.
  destruct (Ev_col (nm A I) (nm_NoDup I HI) (nm_vecs I HI) 0%nat n_pos (fun c _ => Nat.bits_0 (kc c)))
    as (Hlt & e & He & Hcol).
  cbn [Nat.add] in Hlt, Hcol. change (Ev (nm A I)) with (Rb I) in Hcol. fold (piK I) in Hlt, Hcol.
  assert (Es : sK I = e) by (unfold sK; rewrite (Hcol (piK I) Hlt), Nat.eqb_refl; reflexivity).
  rewrite Es. split; [exact Hlt|]. split; [exact He | exact Hcol].
Qed.

Lemma piK_inj I J : 0 <= I < L -> 0 <= J < L -> piK I = piK J -> I = J.
Proof.
  intros HI HJ E. apply (key_ext A Hwf I J _ _ (nm_spec A Hwf I HI) (nm_spec A Hwf J HJ)).
  intros c. split; intros Hc.
  - pose proof (nm_vecs I HI c Hc) as Hv.
    apply (wsum_bits _ (nm_NoDup J HJ) (nm_vecs J HJ) c Hv). fold (piK J). rewrite <- E.
    apply (wsum_bits _ (nm_NoDup I HI) (nm_vecs I HI) c Hv). exact Hc.
  - pose proof (nm_vecs J HJ c Hc) as Hv.
    apply (wsum_bits _ (nm_NoDup I HI) (nm_vecs I HI) c Hv). fold (piK I). rewrite E.
    apply (wsum_bits _ (nm_NoDup J HJ) (nm_vecs J HJ) c Hv). exact Hc.
Qed.

(* ================= F. the ordering matrix, the similarity transform, hom_ok ================= *)

Local Notation K := (canon_keys A).

Definition keyat (i : nat) : Z := nth i K 0.

Lemma K_len : length K = n.
Proof. unfold canon_keys. rewrite map_length. apply (wf_c2b_len A Hwf). Qed.

Lemma keyat_range i : (i < n)%nat -> 0 <= keyat i < L.
Proof. intros Hi. apply (In_canon_keys A Hwf). apply nth_In. rewrite K_len. exact Hi. Qed.

Lemma keyat_inj i j : (i < n)%nat -> (j < n)%nat -> keyat i = keyat j -> i = j.
Proof.
  intros Hi Hj E. apply (proj1 (NoDup_nth K 0) (wf_bins_nodup A Hwf) i j); rewrite ?K_len; assumption.
Qed.

Lemma wf_lens_sorted : lens_sorted (a_c2b A) = true.
Proof. pose proof Hwf as H. unfold wf_alg in H. apply andb_prop in H. apply H. Qed.

(* the scalar comes first in canon2bin *)
Lemma keyat_0 : keyat 0 = 0.
Proof.
  pose proof (bin2canon_entry A 0 [] (name_0 A Hwf)) as H0. pose proof wf_lens_sorted as Hs.
  assert (Hent : forall nm0 b, In (nm0, b) (a_c2b A) -> name_bin vecs nm0 = Some b)
    by (intros nm0 b Hin; apply (wf_entry A Hwf nm0 b Hin)).
  unfold keyat, canon_keys. revert H0 Hs Hent. destruct (a_c2b A) as [|[n0 b0] rest]; intros H0 Hs Hent; [destruct H0|].
  cbn [map nth snd].
  assert (Hn0 : n0 = []).
  { destruct H0 as [H0|H0]; [congruence|]. pose proof (lens_sorted_head _ _ Hs _ H0) as Hle.
    cbn [fst length] in Hle. destruct n0; [reflexivity | cbn [length] in Hle; lia]. }
  subst n0. specialize (Hent [] b0 (or_introl eq_refl)). cbn [name_bin] in Hent. congruence.
Qed.

(* the lists of matrix_rep(blades=...) *)
Definition Rs : list mat :=
  map (fun bl => fold_left (fun acc i => mat_mul acc (nth i Es [])) bl (Iden d)) (blade_indices A).
Definition Om : mat := map (mat_col 0) Rs.
Definition MM (I : Z) : mat := mat_mul (mat_mul Om (Rb I)) (mat_T Om).

Lemma matrix_basis_eq : matrix_basis A = map (fun Ri => mat_mul (mat_mul Om Ri) (mat_T Om)) Rs.
Proof. unfold matrix_basis, matrix_rep_blades. cbv zeta. rewrite sig_mats_len. reflexivity. Qed.

Lemma fold_gidx w : forall X,
  fold_left (fun acc i => mat_mul acc (nth i Es [])) (map gidx w) X = fold_left (fun acc c => mat_mul acc (gm c)) w X.
Proof. induction w as [|c w IH]; intros X; cbn [map fold_left]; [reflexivity | apply IH]. Qed.

Lemma Rs_len : length Rs = n.
Proof. unfold Rs, blade_indices. rewrite !map_length. apply (wf_c2b_len A Hwf). Qed.

Lemma nth_c2b i : (i < n)%nat -> nth i (a_c2b A) ([], 0) = (nm A (keyat i), keyat i).
Proof.
  intros Hi.
  assert (Hin : In (nth i (a_c2b A) ([], 0)) (a_c2b A)) by (apply nth_In; rewrite (wf_c2b_len A Hwf); exact Hi).
  assert (Ek : keyat i = snd (nth i (a_c2b A) ([], 0))).
  { unfold keyat, canon_keys. exact (map_nth snd (a_c2b A) ([], 0) i). }
  set (nb := nth i (a_c2b A) ([], 0)) in *. clearbody nb. destruct nb as [n0 b0]. cbn [snd] in Ek. subst b0.
  f_equal. symmetry. apply (nm_eq A). apply (entry_bin2canon A Hwf). exact Hin.
Qed.

Lemma nth_Rs i : (i < n)%nat -> nth i Rs [] = Rb (keyat i).
Proof.
  intros Hi. unfold Rs, blade_indices. rewrite map_map.
  set (F := fun nb : name * Z =>
              fold_left (fun acc i => mat_mul acc (nth i Es []))
                        (map (fun g => Z.to_nat (Z.of_nat g - a_start A)) (fst nb)) (Iden d)).
  transitivity (nth i (map F (a_c2b A)) (F ([], 0))).
  - apply nth_indep. rewrite map_length, (wf_c2b_len A Hwf). exact Hi.
  - transitivity (F (nth i (a_c2b A) ([], 0))); [exact (map_nth F (a_c2b A) ([], 0) i)|].
    rewrite (nth_c2b i Hi). unfold F. cbn [fst]. apply (fold_gidx (nm A (keyat i)) (Iden d)).
Qed.

Lemma nth_Om i : (i < n)%nat -> nth i Om [] = mat_col 0 (Rb (keyat i)).
Proof.
  intros Hi. rewrite <- (nth_Rs i Hi). unfold Om.
  transitivity (nth i (map (mat_col 0) Rs) (mat_col 0 [])).
  - apply nth_indep. rewrite map_length, Rs_len. exact Hi.
  - exact (map_nth (mat_col 0) Rs [] i).
Qed.

Lemma wfm_Om : wfm n Om.
Proof.
  split; [unfold Om; rewrite map_length; apply Rs_len|].
  apply Forall_forall. intros row Hrow. destruct (In_nth _ _ [] Hrow) as (i & Hi & <-).
  assert (Hi' : (i < n)%nat) by (unfold Om in Hi; rewrite map_length, Rs_len in Hi; exact Hi).
  rewrite (nth_Om i Hi'), mat_col_length. apply (proj1 (wfm_Rb (keyat i) (keyat_range i Hi'))).
Qed.

Lemma ent_Om i a : (i < n)%nat -> ent Om i a = ent (Rb (keyat i)) a 0.
Proof. intros Hi. unfold ent at 1. rewrite (nth_Om i Hi). apply nth_mat_col. Qed.

Definition piat (i : nat) : nat := piK (keyat i).
Definition sat (i : nat) : Z := sK (keyat i).

Lemma ent_Om' i a : (i < n)%nat -> (a < n)%nat -> ent Om i a = if Nat.eqb a (piat i) then sat i else 0.
Proof.
  intros Hi Ha. rewrite (ent_Om i a Hi). destruct (Rb_col0 (keyat i) (keyat_range i Hi)) as (_ & _ & H).
  apply H. exact Ha.
Qed.

Lemma piat_lt i : (i < n)%nat -> (piat i < n)%nat.
Proof. intros Hi. apply (Rb_col0 (keyat i) (keyat_range i Hi)). Qed.

Lemma sat_sq i : (i < n)%nat -> sat i * sat i = 1.
Proof.
  intros Hi. destruct (Rb_col0 (keyat i) (keyat_range i Hi)) as (_ & Hs & _). unfold sat.
  destruct Hs as [-> | ->]; reflexivity.
Qed.

Lemma piat_inj i j : (i < n)%nat -> (j < n)%nat -> piat i = piat j -> i = j.
Proof.
  intros Hi Hj E. apply (keyat_inj i j Hi Hj). apply (piK_inj _ _ (keyat_range i Hi) (keyat_range j Hj) E).
Qed.

(* the rows of O are orthonormal *)
Lemma Om_row_dot i j : (i < n)%nat -> (j < n)%nat ->
  zsum (map (fun a => ent Om i a * ent Om j a) (seq 0 n)) = if Nat.eqb i j then 1 else 0.
Proof.
  intros Hi Hj.
  transitivity (zsum (map (fun a => if Nat.eqb a (piat i) then sat i * ent Om j a else 0) (seq 0 n))).
  - apply zsum_ext. intros a Ha. apply in_seq0 in Ha. rewrite (ent_Om' i a Hi Ha). destruct (Nat.eqb a (piat i)); ring.
  - rewrite zsum_delta_nat. pose proof (piat_lt i Hi) as Hlt.
    destruct (Nat.ltb_spec (piat i) n) as [_|]; [|lia].
    rewrite (ent_Om' j (piat i) Hj Hlt).
    destruct (Nat.eqb_spec i j) as [->|Hne].
    + rewrite Nat.eqb_refl. apply sat_sq. exact Hj.
    + destruct (Nat.eqb_spec (piat i) (piat j)) as [E|_]; [exfalso; apply Hne; apply (piat_inj i j Hi Hj E) | ring].
Qed.

Theorem Om_OmT : mat_mul Om (mat_T Om) = Iden d.
Proof.
  apply (mat_ext n); [apply wfm_mul; [apply wfm_Om | apply wfm_T, wfm_Om] | apply wfm_Iden |].
  intros r c Hr Hc. rewrite (ent_mul n _ _ r c wfm_Om (wfm_T n Om wfm_Om) Hr Hc), (ent_Iden d r c Hr Hc).
  rewrite <- (Om_row_dot r c Hr Hc). apply zsum_ext. intros a Ha. apply in_seq0 in Ha.
  rewrite (ent_T n Om a c wfm_Om Ha). reflexivity.
Qed.

(* ... and so are its columns: the positions of the +-1 are a permutation *)
Lemma piat_perm : Permutation (map piat (seq 0 n)) (seq 0 n).
Proof.
  apply pigeon_nat.
  - apply NoDup_map_inj_in; [|apply seq_NoDup]. intros x y Hx Hy E. apply in_seq0 in Hx, Hy. apply (piat_inj x y Hx Hy E).
  - rewrite map_length, seq_length. reflexivity.
  - intros x Hx. apply in_map_iff in Hx. destruct Hx as (i & <- & Hi). apply in_seq0 in Hi. apply piat_lt. exact Hi.
Qed.

Lemma Om_col_dot a b : (a < n)%nat -> (b < n)%nat ->
  zsum (map (fun i => ent Om i a * ent Om i b) (seq 0 n)) = if Nat.eqb a b then 1 else 0.
Proof.
  intros Ha Hb.
  set (h := fun x : nat => if Nat.eqb x a then (fun _ : nat => if Nat.eqb a b then 1 else 0) x else 0).
  transitivity (zsum (map h (map piat (seq 0 n)))).
  - rewrite map_map. apply zsum_ext. intros i Hi. apply in_seq0 in Hi.
    rewrite (ent_Om' i a Hi Ha), (ent_Om' i b Hi Hb). unfold h. rewrite (Nat.eqb_sym (piat i) a).
    destruct (Nat.eqb_spec a (piat i)) as [E|_]; [|ring].
    destruct (Nat.eqb_spec b (piat i)) as [E2|Hne2]; destruct (Nat.eqb_spec a b) as [E3|Hne3]; try lia;
      rewrite ?(sat_sq i Hi); ring.
  - rewrite (zsum_map_perm h _ _ piat_perm). unfold h.
    rewrite (zsum_delta_nat (fun _ : nat => if Nat.eqb a b then 1 else 0) a n).
    destruct (Nat.ltb_spec a n); [reflexivity | lia].
Qed.

Theorem OmT_Om : mat_mul (mat_T Om) Om = Iden d.
Proof.
  apply (mat_ext n); [apply wfm_mul; [apply wfm_T, wfm_Om | apply wfm_Om] | apply wfm_Iden |].
  intros r c Hr Hc. rewrite (ent_mul n _ _ r c (wfm_T n Om wfm_Om) wfm_Om Hr Hc), (ent_Iden d r c Hr Hc).
  rewrite <- (Om_col_dot r c Hr Hc). apply zsum_ext. intros i Hi. apply in_seq0 in Hi.
  rewrite (ent_T n Om r i wfm_Om Hr). reflexivity.
Qed.

Lemma wfm_MM I : 0 <= I < L -> wfm n (MM I).
Proof. intros HI. unfold MM. repeat apply wfm_mul; [apply wfm_Om | apply wfm_Rb; exact HI | apply wfm_T, wfm_Om]. Qed.

(* the normalised matrices O R_I O^T still multiply like the sign table *)
Theorem MM_hom I J : 0 <= I < L -> 0 <= J < L ->
  mat_mul (MM I) (MM J) = mat_scale (sgn A I J) (MM (Z.lxor I J)).
Proof.
  intros HI HJ. pose proof (lxor_range A I J HI HJ) as HIJ. unfold MM.
  pose proof wfm_Om as HO. pose proof (wfm_T n Om HO) as HOT.
  pose proof (wfm_Rb I HI) as HRI. pose proof (wfm_Rb J HJ) as HRJ. pose proof (wfm_Rb _ HIJ) as HRIJ.
  rewrite (conj_mul n Om (mat_T Om) (Iden d) (Rb I) (Rb J) HO HOT HRI HRJ OmT_Om (mat_mul_Iden_l d)).
  rewrite (Rb_hom I J HI HJ).
  rewrite (mat_scale_mul_r n _ Om _ HO HRIJ).
  apply (mat_scale_mul_l n); [apply wfm_mul; assumption | exact HOT].
Qed.

(* column 0 of the i-th normalised matrix is the i-th unit vector *)
Theorem MM_col0 i r : (i < n)%nat -> (r < n)%nat -> ent (MM (keyat i)) r 0 = if Nat.eqb r i then 1 else 0.
Proof.
  intros Hi Hr. pose proof n_pos as Hn. unfold MM.
  pose proof (wfm_Rb (keyat i) (keyat_range i Hi)) as HR.
  pose proof (wfm_mul n Om _ wfm_Om HR) as HOR.
  rewrite (ent_mul n _ _ r 0 HOR (wfm_T n Om wfm_Om) Hr Hn).
  transitivity (zsum (map (fun b => if Nat.eqb b 0 then ent (mat_mul Om (Rb (keyat i))) r b else 0) (seq 0 n))).
  - apply zsum_ext. intros b Hb. apply in_seq0 in Hb.
    rewrite (ent_T n Om b 0 wfm_Om Hb), (ent_Om 0 b Hn), keyat_0, Rb_0, (ent_Iden d b 0 Hb Hn).
    destruct (Nat.eqb b 0); ring.
  - rewrite zsum_delta_nat. destruct (Nat.ltb_spec 0 n); [|lia].
    rewrite (ent_mul n Om _ r 0 wfm_Om HR Hr Hn), <- (Om_row_dot r i Hr Hi).
    apply zsum_ext. intros a Ha. apply in_seq0 in Ha. rewrite (ent_Om i a Hi). reflexivity.
Qed.

(* the model's matrix_basis is the list of the MM *)
Lemma M_len : length (matrix_basis A) = n.
Proof. rewrite matrix_basis_eq, map_length. apply Rs_len. Qed.

Lemma nth_M i : (i < n)%nat -> nth i (matrix_basis A) [] = MM (keyat i).
Proof.
  intros Hi. rewrite matrix_basis_eq. set (F := fun Ri => mat_mul (mat_mul Om Ri) (mat_T Om)).
  transitivity (nth i (map F Rs) (F [])); [apply nth_indep; rewrite map_length, Rs_len; exact Hi|].
  transitivity (F (nth i Rs [])); [exact (map_nth F Rs [] i)|]. rewrite (nth_Rs i Hi). reflexivity.
Qed.

Lemma basis_mat_in_MM I : In I K -> basis_mat_in A (matrix_basis A) I = MM I.
Proof.
  intros HI. destruct (zindex_in I K HI) as (i & Hi). destruct (zindex_some _ _ _ Hi) as [Hlt Hnth].
  rewrite K_len in Hlt. unfold basis_mat_in. rewrite Hi.
  transitivity (nth i (matrix_basis A) []); [apply nth_indep; rewrite M_len; exact Hlt|].
  rewrite (nth_M i Hlt). unfold keyat. rewrite Hnth. reflexivity.
Qed.

(* C18, every dimension: the blade-level check holds in every well-formed algebra *)
Theorem hom_ok_wf : hom_ok A = true.
Proof.
  unfold hom_ok. cbv zeta. change (mat_dim A) with n.
  repeat (apply andb_true_intro; split).
  - apply Nat.eqb_eq. apply K_len.
  - apply Nat.eqb_eq. apply M_len.
  - apply forallb_forall. intros m Hm. apply wfm_wf_matb. destruct (In_nth _ _ [] Hm) as (i & Hi & <-).
    assert (Hi' : (i < n)%nat) by (rewrite <- M_len; exact Hi).
    change (wfm n (nth i (matrix_basis A) [])). rewrite (nth_M i Hi'). apply wfm_MM. apply keyat_range. exact Hi'.
  - apply forallb_forall. intros I HI. apply forallb_forall. intros J HJ.
    pose proof (proj1 (In_canon_keys A Hwf I) HI) as RI. pose proof (proj1 (In_canon_keys A Hwf J) HJ) as RJ.
    pose proof (lxor_range A I J RI RJ) as RIJ.
    assert (HIJ : In (Z.lxor I J) K) by (apply (In_canon_keys A Hwf); exact RIJ).
    unfold pair_ok. repeat (apply andb_true_intro; split).
    + unfold sign_okb. destruct (sgn_values A Hwf I J RI RJ) as [-> | [-> | ->]]; reflexivity.
    + apply zin_true_iff. exact HIJ.
    + rewrite !basis_mat_in_MM by assumption. rewrite (MM_hom I J RI RJ). apply mat_eqb_refl.
  - apply forallb_forall. intros i Hi. apply in_seq0 in Hi. rewrite (nth_M i Hi).
    pose proof (wfm_MM (keyat i) (keyat_range i Hi)) as [HlM _].
    replace (mat_col 0 (MM (keyat i))) with (unit_vec n i); [apply zlist_eqb_refl|].
    symmetry. apply (nth_ext _ _ 0 0).
    + rewrite mat_col_length, HlM. unfold unit_vec. rewrite map_length, seq_length. reflexivity.
    + intros r Hr. rewrite mat_col_length, HlM in Hr. rewrite nth_mat_col, (nth_unit_vec n i r Hr).
      apply MM_col0; assumption.
Qed.

End Rep.

(* ================= G. the statements ================= *)

(* stage 2 in the model's own terms: the list Es of matrix_rep, for every signature over {1,-1,0} of any length *)
Theorem kron_generators_clifford sig :
  Forall (fun s => s = 1 \/ s = -1 \/ s = 0) sig ->
  let d := length sig in
  let Es := gen_mats_from 0 d (sig_mats sig) in
  let Id := kron_all (repeat I2 d) in
  length Es = d /\
  (forall i, (i < d)%nat ->
     wfm (2 ^ d) (nth i Es []) /\ mat_mul (nth i Es []) (nth i Es []) = mat_scale (nth i sig 0) Id) /\
  (forall i j, (i < d)%nat -> (j < d)%nat -> i <> j ->
     mat_mul (nth i Es []) (nth j Es []) = mat_scale (-1) (mat_mul (nth j Es []) (nth i Es []))).
Proof.
  intros Hsig d Es Id. rewrite Forall_forall in Hsig.
  assert (Hmap : sig_mats sig = map smat sig) by (apply sig_mats_map; exact Hsig).
  assert (Hlen : length (sig_mats sig) = d) by (rewrite Hmap; apply map_length).
  assert (Hnth : forall i, (i < d)%nat -> nth i Es [] = Egen i d (smat (nth i sig 0))).
  { intros i Hi. unfold Es. rewrite nth_gen_mats by (rewrite Hlen; exact Hi). cbn [Nat.add]. f_equal.
    rewrite Hmap. transitivity (nth i (map smat sig) (smat 0)); [apply nth_indep; rewrite map_length; exact Hi|].
    exact (map_nth smat sig 0 i). }
  assert (Hval : forall i, (i < d)%nat -> sig_val (nth i sig 0)) by (intros i Hi; apply Hsig; apply nth_In; exact Hi).
  split; [unfold Es; rewrite gen_mats_length; exact Hlen|]. split.
  - intros i Hi. rewrite (Hnth i Hi). split; [apply wfm_Egen; exact Hi | apply Egen_square; [exact Hi | apply Hval; exact Hi]].
  - intros i j Hi Hj Hne. rewrite (Hnth i Hi), (Hnth j Hj). apply Egen_anti; auto.
Qed.

(* stage 3: the blade-level check in EVERY well-formed algebra (every dimension, signature ordering,
   start index, default or admissible custom basis) *)
Theorem hom_ok_all A : wf_alg A = true -> hom_ok A = true.
Proof. exact (hom_ok_wf A). Qed.

Theorem hom_ok_default sig start :
  Forall (fun s => s = 1 \/ s = -1 \/ s = 0) sig -> 0 <= start -> hom_ok (mk_default sig start false) = true.
Proof.
  intros Hs Hst. apply hom_ok_all. apply wf_default; [|exact Hst]. apply (proj1 (Forall_forall _ _) Hs).
Qed.

(* the ordering matrix of matrix_rep is orthogonal (a signed permutation matrix) *)
Theorem ordering_matrix_orthogonal A : wf_alg A = true ->
  mat_mul (Om A) (mat_T (Om A)) = Iden (a_d A) /\ mat_mul (mat_T (Om A)) (Om A) = Iden (a_d A).
Proof. intros Hwf. split; [apply Om_OmT | apply OmT_Om]; exact Hwf. Qed.

(* all consequences, for all multivectors of all well-formed algebras *)
Theorem faithful_all A (x y : mv Z) : wf_alg A = true ->
  NoDup (keys x) -> incl (keys x) (canon_keys A) -> NoDup (keys y) -> incl (keys y) (canon_keys A) ->
  asmatrix A (gp Zops A x y) = mat_mul (asmatrix A x) (asmatrix A y)
  /\ asmatrix A (add Zops A x y) = mat_add (asmatrix A x) (asmatrix A y)
  /\ mat_col 0 (asmatrix A x) = map (fun k => coeff Zops k x) (canon_keys A)
  /\ frommatrix A (asmatrix A x) = map (fun k => (k, coeff Zops k x)) (canon_keys A)
  /\ (asmatrix A x = asmatrix A y -> forall k, coeff Zops k x = coeff Zops k y).
Proof.
  intros Hwf Hx Hix Hy Hiy. pose proof (hom_ok_all A Hwf) as Hok. pose proof (wf_bins_nodup A Hwf) as Hnd.
  split; [apply asmatrix_hom; assumption|].
  split; [apply asmatrix_add; assumption|].
  split; [apply asmatrix_col0; assumption|].
  split; [apply frommatrix_asmatrix_full; assumption|].
  apply asmatrix_injective; assumption.
Qed.

Theorem faithful_default sig start (A := mk_default sig start false) (x y : mv Z) :
  Forall (fun s => s = 1 \/ s = -1 \/ s = 0) sig -> 0 <= start ->
  NoDup (keys x) -> incl (keys x) (canon_keys A) -> NoDup (keys y) -> incl (keys y) (canon_keys A) ->
  asmatrix A (gp Zops A x y) = mat_mul (asmatrix A x) (asmatrix A y)
  /\ asmatrix A (add Zops A x y) = mat_add (asmatrix A x) (asmatrix A y)
  /\ mat_col 0 (asmatrix A x) = map (fun k => coeff Zops k x) (canon_keys A)
  /\ frommatrix A (asmatrix A x) = map (fun k => (k, coeff Zops k x)) (canon_keys A)
  /\ (asmatrix A x = asmatrix A y -> forall k, coeff Zops k x = coeff Zops k y).
Proof.
  intros Hs Hst. apply faithful_all. apply wf_default; [|exact Hst]. apply (proj1 (Forall_forall _ _) Hs).
Qed.

(* non-vacuity: a 9-dimensional algebra with every kind of generator (512 x 512 matrices, 262144 blade pairs:
   far outside what can be evaluated) passes the check, by the theorem *)
Example hom_ok_dim9 : hom_ok (mk_default [1; 1; -1; 0; 1; -1; -1; 0; 1] 1 false) = true.
Proof. apply hom_ok_default; [repeat (apply Forall_cons; [auto|]); apply Forall_nil | lia]. Qed.

(* the theorem agrees with the evaluation where the evaluation is feasible *)
Example hom_ok_dim3_eval : hom_ok (mk_default [1; -1; 0] 1 false) = true /\ wf_alg (mk_default [1; -1; 0] 1 false) = true.
Proof. vm_compute. split; reflexivity. Qed.

(* the same with the domain of the python made explicit: reduce(np.kron, []) raises for d = 0 (Model/Matrix.v models
   the empty Kronecker product as [[1]]; the theorems above also cover that degenerate model case) *)
Theorem hom_ok_all_dim A : wf_alg A = true -> (1 <= a_d A)%nat -> hom_ok A = true.
Proof. intros Hwf _. exact (hom_ok_all A Hwf). Qed.

Theorem hom_ok_default_dim sig start :
  (1 <= length sig)%nat -> Forall (fun s => s = 1 \/ s = -1 \/ s = 0) sig -> 0 <= start ->
  hom_ok (mk_default sig start false) = true.
Proof. intros _. apply hom_ok_default. Qed.

Theorem faithful_all_dim A (x y : mv Z) : wf_alg A = true -> (1 <= a_d A)%nat ->
  NoDup (keys x) -> incl (keys x) (canon_keys A) -> NoDup (keys y) -> incl (keys y) (canon_keys A) ->
  asmatrix A (gp Zops A x y) = mat_mul (asmatrix A x) (asmatrix A y)
  /\ asmatrix A (add Zops A x y) = mat_add (asmatrix A x) (asmatrix A y)
  /\ mat_col 0 (asmatrix A x) = map (fun k => coeff Zops k x) (canon_keys A)
  /\ frommatrix A (asmatrix A x) = map (fun k => (k, coeff Zops k x)) (canon_keys A)
  /\ (asmatrix A x = asmatrix A y -> forall k, coeff Zops k x = coeff Zops k y).
Proof. intros Hwf _. apply faithful_all. exact Hwf. Qed.

Theorem faithful_default_dim sig start (A := mk_default sig start false) (x y : mv Z) :
  (1 <= length sig)%nat -> Forall (fun s => s = 1 \/ s = -1 \/ s = 0) sig -> 0 <= start ->
  NoDup (keys x) -> incl (keys x) (canon_keys A) -> NoDup (keys y) -> incl (keys y) (canon_keys A) ->
  asmatrix A (gp Zops A x y) = mat_mul (asmatrix A x) (asmatrix A y)
  /\ asmatrix A (add Zops A x y) = mat_add (asmatrix A x) (asmatrix A y)
  /\ mat_col 0 (asmatrix A x) = map (fun k => coeff Zops k x) (canon_keys A)
  /\ frommatrix A (asmatrix A x) = map (fun k => (k, coeff Zops k x)) (canon_keys A)
  /\ (asmatrix A x = asmatrix A y -> forall k, coeff Zops k x = coeff Zops k y).
Proof. intros _. apply faithful_default. Qed.

(* the blade matrices before the similarity transform already multiply like the table (stage 1 + 2) *)
Theorem blade_matrices_hom A : wf_alg A = true -> forall I J, 0 <= I < alg_len A -> 0 <= J < alg_len A ->
  mat_mul (Rb A I) (Rb A J) = mat_scale (sgn A I J) (Rb A (Z.lxor I J)).
Proof. exact (Rb_hom A). Qed.
