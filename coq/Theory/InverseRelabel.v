(* Theory/InverseRelabel.v — C07 for EVERY admissible basis of dimension <= 4: the closed-form (Hitzer)
   inverses of Theory/Hitzer.v, proved there for bases spelled in ascending generator order
   ([ascending_ok]), composed with the relabelling isomorphism of Theory/Relabel.v (C14).

   For a well-formed algebra A (any generator order, any spellings, any order within a grade) let
       D := mk_default (a_sig A) (a_start A) (a_graded A)
   be the default-basis algebra of the same signature list and start index.
   1. D is well-formed (WFDefault.wf_default) and ascending ([default_ascending]: the sign table of a
      default basis does not depend on the start index — [sgn_default_start] — and for start index 0 it
      is the ascending one by Hitzer.default_le4_ok);
   2. relabel A D is linear, maps 1 to 1, is injective up to ==, commutes with the geometric product:
      x y == 1 in A  <->  relabel x * relabel y == 1 in D   ([relabel_one], [relabel_scal],
      [relabel_inj], [invertible_transfer]);
   3. the numerator / denominator generators of codegen_hitzer_inv commute with relabel, for EVERY pair
      of filters (F on A, G on D) that keep the element ([filter_ok]), in every dimension (d <= 5
      formulas, ENotImpl beyond): [hitzer_num_relabel], [hitzer_den_relabel];
   4. hence [hitzer_le4_any_basis], [inv_le4_sound_any_basis], [zde_only_singular_le4_any_basis],
      [inv_le4_complete_any_basis]: the statements of Theory/Hitzer.v section 8 without [ascending_ok];
   5. the instance 3DPGA (e31, e021, e032: non-ascending spellings, permuted generators). *)
From Coq Require Import List ZArith Bool Ring Lia Permutation RelationClasses.
From KV Require Import Model.All Model.Inverse Theory.WF Theory.Words Theory.Sign Theory.Bits Theory.Sparse
  Theory.Product Theory.Ops Theory.SignBits Theory.WFDefault Theory.OpsWF Theory.Relabel Theory.Algebra
  Theory.Inverse Theory.Hitzer.
Import ListNotations.
Local Open Scope Z_scope.

(* ====================================================================================== *)
(** * 1. The default basis is ascending, for every start index *)

(* the table entry of a well-formed algebra in closed form on the table's own spellings *)
Lemma sgn_closed A : wf_alg A = true -> forall I J, 0 <= I < alg_len A -> 0 <= J < alg_len A ->
  sgn A I J = par (xorb (inv2 (nm A I ++ nm A J)) (inv2 (nm A (Z.lxor I J))))
              * zprod (metric A) (common (nm A I) (nm A J)).
Proof.
  intros HA I J HI HJ.
  pose proof (nm_spec A HA I HI) as EI. pose proof (nm_spec A HA J HJ) as EJ.
  pose proof (nm_spec A HA _ (lxor_range A I J HI HJ)) as EIJ.
  pose proof (sgn_table A HA I J _ _ _ EI EJ EIJ) as H.
  rewrite (sgn_names_closed (metric A) _ _ _ (bin2canon_NoDup A HA I _ EI) (bin2canon_NoDup A HA J _ EJ)
             (name_lxor A HA I J _ _ _ EI EJ EIJ)) in H.
  rewrite mprod_zprod in H. injection H as H. symmetry. exact H.
Qed.

(* strictly monotone renamings of the letters *)
Lemma clt_map_mono (h : nat -> nat) : (forall a b, (h a <? h b)%nat = (a <? b)%nat) ->
  forall x l, clt (h x) (map h l) = clt x l.
Proof.
  intros Hh x l. induction l as [|y r IH]; [reflexivity|]. cbn [map clt]. rewrite Hh, IH. reflexivity.
Qed.

Lemma inv2_map_mono (h : nat -> nat) : (forall a b, (h a <? h b)%nat = (a <? b)%nat) ->
  forall l, inv2 (map h l) = inv2 l.
Proof.
  intros Hh l. induction l as [|x r IH]; [reflexivity|]. cbn [map inv2].
  rewrite (clt_map_mono h Hh), IH. reflexivity.
Qed.

Lemma mem_map_inj (h : nat -> nat) : (forall a b, h a = h b -> a = b) ->
  forall c l, mem (h c) (map h l) = mem c l.
Proof.
  intros Hh c l. apply bool_eq_of_iff. rewrite !mem_In, in_map_iff. split.
  - intros (x & E & Hx). apply Hh in E. subst x. exact Hx.
  - intros Hc. exists c. auto.
Qed.

Lemma common_map_inj (h : nat -> nat) : (forall a b, h a = h b -> a = b) ->
  forall a b, common (map h a) (map h b) = map h (common a b).
Proof.
  intros Hh a b. unfold common. induction b as [|x r IH]; [reflexivity|]. cbn [map filter].
  rewrite (mem_map_inj h Hh). destruct (mem x a); cbn [map]; rewrite IH; reflexivity.
Qed.

Lemma zprod_map (m : nat -> Z) (h : nat -> nat) l : zprod m (map h l) = zprod (fun i => m (h i)) l.
Proof. induction l as [|x r IH]; [reflexivity|]. cbn [map zprod]. rewrite IH. reflexivity. Qed.

Lemma mprodZ_ext (m m' : nat -> Z) n c : (forall i, (i < n)%nat -> m i = m' i) -> mprodZ m n c = mprodZ m' n c.
Proof.
  induction n as [|n IH]; intros H; [reflexivity|]. cbn [mprodZ].
  rewrite (H n) by lia. rewrite IH; [reflexivity|]. intros i Hi. apply H. lia.
Qed.

Section DefaultStart.
  Variable sig : list Z.
  Variable start : Z.
  Variable g : bool.
  Hypothesis Hsig : forall s, In s sig -> s = 1 \/ s = -1 \/ s = 0.
  Hypothesis Hstart : 0 <= start.

  Local Notation d := (length sig).
  Local Notation Ds := (mk_default sig start g).
  Local Notation D0 := (mk_default sig 0 g).
  Local Notation h := (WFDefault.gen start).

  Lemma wf_Ds : wf_alg Ds = true. Proof. apply wf_default; assumption. Qed.
  Lemma wf_D0 : wf_alg D0 = true. Proof. apply wf_default; [assumption | lia]. Qed.

  Lemma h_lt a b : (h a <? h b)%nat = (a <? b)%nat.
  Proof. unfold WFDefault.gen. destruct (Nat.ltb_spec a b), (Nat.ltb_spec (Z.to_nat (Z.of_nat a + start)) (Z.to_nat (Z.of_nat b + start))); try reflexivity; lia. Qed.
  Lemma h_inj a b : h a = h b -> a = b.
  Proof. unfold WFDefault.gen. lia. Qed.

  Lemma len_Ds : alg_len Ds = 2 ^ Z.of_nat d. Proof. reflexivity. Qed.
  Lemma len_D0 : alg_len D0 = 2 ^ Z.of_nat d. Proof. reflexivity. Qed.

  Lemma nm_default st (Hst : 0 <= st) I : 0 <= I < 2 ^ Z.of_nat d ->
    nm (mk_default sig st g) I = default_name d st I.
  Proof.
    intros HI. assert (HW : wf_alg (mk_default sig st g) = true) by (apply wf_default; assumption).
    apply nm_eq. apply (entry_bin2canon _ HW).
    change (a_c2b (mk_default sig st g)) with (default_c2b d st).
    apply (c2b_entry d st). split; [exact HI | reflexivity].
  Qed.

  Lemma default_name_shift I : default_name d start I = map h (default_name d 0 I).
  Proof.
    rewrite (default_name_filter d start), (default_name_filter d 0), map_map.
    apply map_ext. intros i. unfold WFDefault.gen. f_equal. lia.
  Qed.

  Lemma nm_shift I : 0 <= I < 2 ^ Z.of_nat d -> nm Ds I = map h (nm D0 I).
  Proof.
    intros HI. rewrite (nm_default start Hstart I HI), (nm_default 0 (Z.le_refl 0) I HI).
    apply default_name_shift.
  Qed.

  Lemma metric_shift I i : 0 <= I < 2 ^ Z.of_nat d -> In i (nm D0 I) -> metric Ds (h i) = metric D0 i.
  Proof.
    intros HI Hi.
    assert (H0 : In i (alg_vecs D0)).
    { apply (name_in_vecs D0 wf_D0 I (nm D0 I) i); [apply (nm_spec D0 wf_D0); exact HI | exact Hi]. }
    assert (Hs : In (h i) (alg_vecs Ds)).
    { apply (name_in_vecs Ds wf_Ds I (nm Ds I) (h i)); [apply (nm_spec Ds wf_Ds); exact HI|].
      rewrite (nm_shift I HI). apply in_map. exact Hi. }
    rewrite (metric_nth Ds wf_Ds _ Hs), (metric_nth D0 wf_D0 _ H0).
    change (a_start Ds) with start. change (a_start D0) with 0. change (a_sig Ds) with sig. change (a_sig D0) with sig.
    f_equal. unfold WFDefault.gen. lia.
  Qed.

  (* the sign table of the default basis does not depend on the start index *)
  Theorem sgn_default_start I J : 0 <= I < 2 ^ Z.of_nat d -> 0 <= J < 2 ^ Z.of_nat d ->
    sgn Ds I J = sgn D0 I J.
  Proof.
    intros HI HJ.
    assert (HIJ : 0 <= Z.lxor I J < 2 ^ Z.of_nat d) by (apply (lxor_range D0 I J); assumption).
    rewrite (sgn_closed Ds wf_Ds I J HI HJ), (sgn_closed D0 wf_D0 I J HI HJ).
    rewrite (nm_shift I HI), (nm_shift J HJ), (nm_shift _ HIJ).
    rewrite <- map_app, !(inv2_map_mono h h_lt), (common_map_inj h h_inj), zprod_map.
    f_equal. apply zprod_ext_in. intros i Hi. apply (metric_shift J i HJ).
    unfold common in Hi. apply filter_In in Hi. apply Hi.
  Qed.

  Lemma asc_sign_default_start I J : asc_sign Ds I J = asc_sign D0 I J.
  Proof.
    unfold asc_sign. change (a_d Ds) with d. change (a_d D0) with d. f_equal.
    apply mprodZ_ext. intros i Hi. unfold gen_sq.
    assert (H : 0 <= 2 ^ Z.of_nat i < 2 ^ Z.of_nat d).
    { split; [apply Z.pow_nonneg; lia | apply Z.pow_lt_mono_r; lia]. }
    apply sgn_default_start; exact H.
  Qed.

  Theorem ascending_default_start : ascending_ok D0 = true -> ascending_ok Ds = true.
  Proof.
    intros H0. unfold ascending_ok. change (a_d Ds) with d.
    apply forallb_forall. intros a Ha. apply forallb_forall. intros b Hb.
    apply zr_range in Ha. apply zr_range in Hb. apply Z.eqb_eq.
    rewrite (sgn_default_start a b Ha Hb), asc_sign_default_start.
    apply (ascending_ok_spec D0 a b H0); assumption.
  Qed.
End DefaultStart.

(* every default basis of dimension <= 4, ANY start index >= 0 *)
Theorem default_ascending sig start g :
  (forall s, In s sig -> s = 1 \/ s = -1 \/ s = 0) -> 0 <= start -> (length sig <= 4)%nat ->
  ascending_ok (mk_default sig start g) = true.
Proof.
  intros Hsig Hstart Hl. apply (ascending_default_start sig start g Hsig Hstart).
  apply (default_le4_ok sig 0 g Hl); [apply Forall_forall; exact Hsig | left; reflexivity].
Qed.
