(* Theory/InverseRelabel.v — C07 for EVERY admissible basis of dimension <= 4: the closed-form (Hitzer)
   inverses of Theory/Hitzer.v, proved there for bases spelled in ascending generator order
   ([ascending_ok]), composed with the relabelling isomorphism of Theory/Relabel.v (C14).

   For a well-formed algebra A (any generator order, any spellings, any order within a grade) let
       D := mk_default (a_sig A) (a_start A) (a_graded A)
   be the default-basis algebra of the same signature list and start index.
   1. D is well-formed (WFDefault.wf_default) and ascending ([default_ascending]: the sign table of a
      default basis does not depend on the start index — [sgn_default_start] — and for start index 0 it
      is the ascending one by Hitzer.default_le4_ok);
   2. relabel A D is linear, maps 1 to 1, is injective up to ==, commutes with the geometric product:
      x y == 1 in A  <->  relabel x * relabel y == 1 in D   ([relabel_one], [relabel_scal],
      [relabel_inj], [invertible_transfer]);
   3. the numerator / denominator generators of codegen_hitzer_inv commute with relabel, for EVERY pair
      of filters (F on A, G on D) that keep the element ([filter_ok]), in every dimension (d <= 5
      formulas, ENotImpl beyond): [hitzer_num_relabel], [hitzer_den_relabel];
   4. hence [hitzer_le4_any_basis], [inv_le4_sound_any_basis], [zde_only_singular_le4_any_basis],
      [inv_le4_complete_any_basis]: the statements of Theory/Hitzer.v section 8 without [ascending_ok];
   5. the instance 3DPGA (e31, e021, e032: non-ascending spellings, permuted generators). *)
From Coq Require Import List ZArith Bool Ring Lia Permutation RelationClasses QArith Qcanon.
From KV Require Import Model.All Model.Inverse Theory.WF Theory.Words Theory.Sign Theory.Bits Theory.Sparse
  Theory.Product Theory.Ops Theory.SignBits Theory.WFDefault Theory.OpsWF Theory.Relabel Theory.Algebra
  Theory.Inverse Theory.Hitzer.
Import ListNotations.
Local Open Scope Z_scope.

(* ====================================================================================== *)
(** * 1. The default basis is ascending, for every start index *)

(* the table entry of a well-formed algebra in closed form on the table's own spellings *)
Lemma sgn_closed A : wf_alg A = true -> forall I J, 0 <= I < alg_len A -> 0 <= J < alg_len A ->
  sgn A I J = par (xorb (inv2 (nm A I ++ nm A J)) (inv2 (nm A (Z.lxor I J))))
              * zprod (metric A) (common (nm A I) (nm A J)).
Proof.
  intros HA I J HI HJ.
  pose proof (nm_spec A HA I HI) as EI. pose proof (nm_spec A HA J HJ) as EJ.
  pose proof (nm_spec A HA _ (lxor_range A I J HI HJ)) as EIJ.
  pose proof (sgn_table A HA I J _ _ _ EI EJ EIJ) as H.
  rewrite (sgn_names_closed (metric A) _ _ _ (bin2canon_NoDup A HA I _ EI) (bin2canon_NoDup A HA J _ EJ)
             (name_lxor A HA I J _ _ _ EI EJ EIJ)) in H.
  rewrite mprod_zprod in H. injection H as H. symmetry. exact H.
Qed.

(* strictly monotone renamings of the letters *)
Lemma clt_map_mono (h : nat -> nat) : (forall a b, (h a <? h b)%nat = (a <? b)%nat) ->
  forall x l, clt (h x) (map h l) = clt x l.
Proof.
  intros Hh x l. induction l as [|y r IH]; [reflexivity|]. cbn [map clt]. rewrite Hh, IH. reflexivity.
Qed.

Lemma inv2_map_mono (h : nat -> nat) : (forall a b, (h a <? h b)%nat = (a <? b)%nat) ->
  forall l, inv2 (map h l) = inv2 l.
Proof.
  intros Hh l. induction l as [|x r IH]; [reflexivity|]. cbn [map inv2].
  rewrite (clt_map_mono h Hh), IH. reflexivity.
Qed.

Lemma mem_map_inj (h : nat -> nat) : (forall a b, h a = h b -> a = b) ->
  forall c l, mem (h c) (map h l) = mem c l.
Proof.
  intros Hh c l. apply bool_eq_of_iff. rewrite !mem_In, in_map_iff. split.
  - intros (x & E & Hx). apply Hh in E. subst x. exact Hx.
  - intros Hc. exists c. auto.
Qed.

Lemma common_map_inj (h : nat -> nat) : (forall a b, h a = h b -> a = b) ->
  forall a b, common (map h a) (map h b) = map h (common a b).
Proof.
  intros Hh a b. unfold common. induction b as [|x r IH]; [reflexivity|]. cbn [map filter].
  rewrite (mem_map_inj h Hh). destruct (mem x a); cbn [map]; rewrite IH; reflexivity.
Qed.

Lemma zprod_map (m : nat -> Z) (h : nat -> nat) l : zprod m (map h l) = zprod (fun i => m (h i)) l.
Proof. induction l as [|x r IH]; [reflexivity|]. cbn [map zprod]. rewrite IH. reflexivity. Qed.

Lemma mprodZ_ext (m m' : nat -> Z) n c : (forall i, (i < n)%nat -> m i = m' i) -> mprodZ m n c = mprodZ m' n c.
Proof.
  induction n as [|n IH]; intros H; [reflexivity|]. cbn [mprodZ].
  rewrite (H n) by lia. rewrite IH; [reflexivity|]. intros i Hi. apply H. lia.
Qed.

Section DefaultStart.
  Variable sig : list Z.
  Variable start : Z.
  Variable g : bool.
  Hypothesis Hsig : forall s, In s sig -> s = 1 \/ s = -1 \/ s = 0.
  Hypothesis Hstart : 0 <= start.

  Local Notation d := (length sig).
  Local Notation Ds := (mk_default sig start g).
  Local Notation D0 := (mk_default sig 0 g).
  Local Notation h := (WFDefault.gen start).

  Lemma wf_Ds : wf_alg Ds = true. Proof. apply wf_default; assumption. Qed.
  Lemma wf_D0 : wf_alg D0 = true. Proof. apply wf_default; [assumption | lia]. Qed.

  Lemma h_lt a b : (h a <? h b)%nat = (a <? b)%nat.
  Proof. unfold WFDefault.gen. destruct (Nat.ltb_spec a b), (Nat.ltb_spec (Z.to_nat (Z.of_nat a + start)) (Z.to_nat (Z.of_nat b + start))); try reflexivity; lia. Qed.
  Lemma h_inj a b : h a = h b -> a = b.
  Proof. unfold WFDefault.gen. lia. Qed.

  Lemma len_Ds : alg_len Ds = 2 ^ Z.of_nat d. Proof. reflexivity. Qed.
  Lemma len_D0 : alg_len D0 = 2 ^ Z.of_nat d. Proof. reflexivity. Qed.

  Lemma nm_default st (Hst : 0 <= st) I : 0 <= I < 2 ^ Z.of_nat d ->
    nm (mk_default sig st g) I = default_name d st I.
  Proof.
    intros HI. assert (HW : wf_alg (mk_default sig st g) = true) by (apply wf_default; assumption).
    apply nm_eq. apply (entry_bin2canon _ HW).
    change (a_c2b (mk_default sig st g)) with (default_c2b d st).
    apply (c2b_entry d st). split; [exact HI | reflexivity].
  Qed.

  Lemma default_name_shift I : default_name d start I = map h (default_name d 0 I).
  Proof.
    rewrite (default_name_filter d start), (default_name_filter d 0), map_map.
    apply map_ext. intros i. unfold WFDefault.gen. f_equal. lia.
  Qed.

  Lemma nm_shift I : 0 <= I < 2 ^ Z.of_nat d -> nm Ds I = map h (nm D0 I).
  Proof.
    intros HI. rewrite (nm_default start Hstart I HI), (nm_default 0 (Z.le_refl 0) I HI).
    apply default_name_shift.
  Qed.

  Lemma metric_shift I i : 0 <= I < 2 ^ Z.of_nat d -> In i (nm D0 I) -> metric Ds (h i) = metric D0 i.
  Proof.
    intros HI Hi.
    assert (H0 : In i (alg_vecs D0)).
    { apply (name_in_vecs D0 wf_D0 I (nm D0 I) i); [apply (nm_spec D0 wf_D0); exact HI | exact Hi]. }
    assert (Hs : In (h i) (alg_vecs Ds)).
    { apply (name_in_vecs Ds wf_Ds I (nm Ds I) (h i)); [apply (nm_spec Ds wf_Ds); exact HI|].
      rewrite (nm_shift I HI). apply in_map. exact Hi. }
    rewrite (metric_nth Ds wf_Ds _ Hs), (metric_nth D0 wf_D0 _ H0).
    change (a_start Ds) with start. change (a_start D0) with 0. change (a_sig Ds) with sig. change (a_sig D0) with sig.
    f_equal. unfold WFDefault.gen. lia.
  Qed.

  (* the sign table of the default basis does not depend on the start index *)
  Theorem sgn_default_start I J : 0 <= I < 2 ^ Z.of_nat d -> 0 <= J < 2 ^ Z.of_nat d ->
    sgn Ds I J = sgn D0 I J.
  Proof.
    intros HI HJ.
    assert (HIJ : 0 <= Z.lxor I J < 2 ^ Z.of_nat d) by (apply (lxor_range D0 I J); assumption).
    rewrite (sgn_closed Ds wf_Ds I J HI HJ), (sgn_closed D0 wf_D0 I J HI HJ).
    rewrite (nm_shift I HI), (nm_shift J HJ), (nm_shift _ HIJ).
    rewrite <- map_app, !(inv2_map_mono h h_lt), (common_map_inj h h_inj), zprod_map.
    f_equal. apply zprod_ext_in. intros i Hi. apply (metric_shift J i HJ).
    unfold common in Hi. apply filter_In in Hi. apply Hi.
  Qed.

  Lemma asc_sign_default_start I J : asc_sign Ds I J = asc_sign D0 I J.
  Proof.
    unfold asc_sign. change (a_d Ds) with d. change (a_d D0) with d. f_equal.
    apply mprodZ_ext. intros i Hi. unfold gen_sq.
    assert (H : 0 <= 2 ^ Z.of_nat i < 2 ^ Z.of_nat d).
    { split; [apply Z.pow_nonneg; lia | apply Z.pow_lt_mono_r; lia]. }
    apply sgn_default_start; exact H.
  Qed.

  Theorem ascending_default_start : ascending_ok D0 = true -> ascending_ok Ds = true.
  Proof.
    intros H0. unfold ascending_ok. change (a_d Ds) with d.
    apply forallb_forall. intros a Ha. apply forallb_forall. intros b Hb.
    apply zr_range in Ha. apply zr_range in Hb. apply Z.eqb_eq.
    rewrite (sgn_default_start a b Ha Hb), asc_sign_default_start.
    apply (ascending_ok_spec D0 a b H0); assumption.
  Qed.
End DefaultStart.

(* every default basis of dimension <= 4, ANY start index >= 0 *)
Theorem default_ascending sig start g :
  (forall s, In s sig -> s = 1 \/ s = -1 \/ s = 0) -> 0 <= start -> (length sig <= 4)%nat ->
  ascending_ok (mk_default sig start g) = true.
Proof.
  intros Hsig Hstart Hl. apply (ascending_default_start sig start g Hsig Hstart).
  apply (default_le4_ok sig 0 g Hl); [apply Forall_forall; exact Hsig | left; reflexivity].
Qed.

(* the default-basis algebra of the same signature list, start index and `graded` flag *)
Definition default_of (A : alg) : alg := mk_default (a_sig A) (a_start A) (a_graded A).

Lemma default_of_wf A : wf_alg A = true -> 0 <= a_start A -> wf_alg (default_of A) = true.
Proof. intros HA Hst. apply wf_default; [apply (wf_sig_vals A HA) | exact Hst]. Qed.

Lemma default_of_iso A : a_sig A = a_sig (default_of A) /\ a_start A = a_start (default_of A).
Proof. split; reflexivity. Qed.

Lemma default_of_dim A : wf_alg A = true -> a_d (default_of A) = a_d A.
Proof. intros HA. apply (wf_sig_len A HA). Qed.

Theorem default_of_ascending A : wf_alg A = true -> 0 <= a_start A -> (a_d A <= 4)%nat ->
  ascending_ok (default_of A) = true.
Proof.
  intros HA Hst Hd. apply default_ascending; [apply (wf_sig_vals A HA) | exact Hst|].
  rewrite (wf_sig_len A HA). exact Hd.
Qed.

(* ====================================================================================== *)
(** * 2. relabel is an injective unital algebra homomorphism (up to ==) *)

Section Iso.
  Variable R : Type.
  Variables (rO rI : R) (radd rmul rsub : R -> R -> R) (ropp : R -> R).
  Hypothesis Rth : ring_theory rO rI radd rmul rsub ropp (@eq R).
  Add Ring RringIR : Rth.
  Local Notation O := (mkOps R radd rsub rmul ropp rO rI).
  Local Notation "a + b" := (radd a b) : kvr_scope.
  Local Notation "a * b" := (rmul a b) : kvr_scope.
  Local Notation "a - b" := (rsub a b) : kvr_scope.
  Local Notation "- a" := (ropp a) : kvr_scope.
  Local Notation equiv := (Sparse.equiv rO rI radd rmul rsub ropp).
  Local Infix "==" := equiv (at level 70, no associativity).
  Local Notation sg := (Ops.sg rO rI ropp).
  Local Notation scal := (Algebra.scal rmul).
  Local Notation one := (Algebra.one rI).
  Local Notation cf K x := (coeff O K x).
  Local Notation T l := (l R rO rI radd rmul rsub ropp Rth) (only parsing).
  Local Notation N l := (l R rO rI radd rmul rsub ropp) (only parsing).
  Local Instance equiv_EquivIR : Equivalence equiv := equiv_Equivalence R rO rI radd rmul rsub ropp.

  Variables A D : alg.
  Hypothesis HA : wf_alg A = true.
  Hypothesis HD : wf_alg D = true.
  Hypothesis Hsig : a_sig A = a_sig D.
  Hypothesis Hstart : a_start A = a_start D.
  Local Notation SA := (wf_sign_hyps A HA).
  Local Notation SD := (wf_sign_hyps D HD).
  Local Notation rl := (Relabel.relabel R rO rI rmul ropp A D).
  Local Notation phi := (phi_key A D).
  Local Notation eps := (phi_sign A D).
  Local Notation wfA := (@wfmv R A).
  Local Notation wfD := (@wfmv R D).
  Local Notation I4 l := (l A D HA HD Hsig Hstart) (only parsing).
  Local Notation wfcsA := (wfmv_canon_sort R A (sh_keys A SA) (sh_nodup A SA)).
  Local Notation wfcsD := (wfmv_canon_sort R D (sh_keys D SD) (sh_nodup D SD)).

  Lemma wf_rl x : wfA x -> wfD (rl x).
  Proof. apply (wfmv_relabel R rO rI rmul ropp A D HA HD Hsig Hstart). Qed.

  Lemma cf_rl x K : wfA x -> 0 <= K < alg_len A -> cf (phi K) (rl x) = (sg (eps K) * cf K x)%r.
  Proof. apply (I4 (T coeff_relabel)). Qed.

  (* relabel respects == *)
  Theorem relabel_congr u v : wfA u -> wfA v -> u == v -> rl u == rl v.
  Proof.
    intros Hu Hv H. apply (I4 (T relabel_by_coeff) u (rl v) Hu (wf_rl v Hv)).
    intros K HK. rewrite (cf_rl v K Hv HK), (H K). reflexivity.
  Qed.

  (* relabel is injective up to == (phi is a bijection of the keys, phi_sign a unit) *)
  Theorem relabel_inj u v : wfA u -> wfA v -> rl u == rl v -> u == v.
  Proof.
    intros Hu Hv H. apply (N eqv_in A u v Hu Hv). intros K HK.
    pose proof (H (phi K)) as E. rewrite (cf_rl u K Hu HK), (cf_rl v K Hv HK) in E.
    destruct (I4 phi_sign_unit K HK) as [e|e]; rewrite e in E.
    - change (sg 1) with rI in E. transitivity (rI * cf K u)%r; [ring|]. rewrite E. ring.
    - change (sg (-1)) with (- rI)%r in E. transitivity (- (- rI * cf K u))%r; [ring|]. rewrite E. ring.
  Qed.

  (* scalars are fixed *)
  Theorem relabel_scalar c : rl [(0, c)] == [(0, c)].
  Proof.
    unfold Relabel.relabel. cbn [map fst snd]. destruct (phi_0 A D HA) as [E1 E2]. rewrite E1, E2.
    change (sg 1) with rI. intros K. rewrite !(N coeff_cons). destruct (Z.eqb 0 K); [ring | reflexivity].
  Qed.

  Theorem relabel_one : rl one == one.
  Proof. exact (relabel_scalar rI). Qed.

  (* relabel is linear *)
  Theorem relabel_scal c x : rl (scal c x) == scal c (rl x).
  Proof.
    intros K. induction x as [|[k v] r IH]; [reflexivity|].
    unfold Relabel.relabel, Algebra.scal in *. cbn [map fst snd]. rewrite !(N coeff_cons).
    destruct (Z.eqb (phi k) K); [ring | exact IH].
  Qed.

  Lemma cf0_rl x : wfA x -> cf 0 (rl x) = cf 0 x.
  Proof.
    intros Hx. pose proof (cf_rl x 0 Hx (inr_0 A)) as E. destruct (phi_0 A D HA) as [E1 E2].
    rewrite E1, E2 in E. rewrite E. change (sg 1) with rI. ring.
  Qed.

  Lemma rl_gp x y : wfA x -> wfA y -> rl (gp O A x y) == gp O D (rl x) (rl y).
  Proof. apply (I4 (T relabel_gp)). Qed.

  (* invertibility transfers in both directions *)
  Theorem invertible_transfer x y : wfA x -> wfA y ->
    (gp O A x y == one <-> gp O D (rl x) (rl y) == one).
  Proof.
    intros Hx Hy. split; intros H.
    - transitivity (rl (gp O A x y)); [symmetry; apply rl_gp; assumption|].
      transitivity (rl one); [|apply relabel_one].
      apply relabel_congr; [apply (N wfmv_gp A SA) | apply wfmv_one | exact H].
    - apply relabel_inj; [apply (N wfmv_gp A SA) | apply wfmv_one |].
      transitivity (gp O D (rl x) (rl y)); [apply rl_gp; assumption|].
      transitivity (Algebra.one rI); [exact H | symmetry; apply relabel_one].
  Qed.

  Theorem has_inverse_transfer x : wfA x ->
    (exists y, wfA y /\ gp O A x y == one /\ gp O A y x == one) ->
    exists y', wfD y' /\ gp O D (rl x) y' == one /\ gp O D y' (rl x) == one.
  Proof.
    intros Hx (y & Hy & H1 & H2). exists (rl y). split; [apply wf_rl; exact Hy|].
    split; [apply (invertible_transfer x y Hx Hy) | apply (invertible_transfer y x Hy Hx)]; assumption.
  Qed.

  (* ==================================================================================== *)
  (** * 3. The generators of numerator and denominator commute with relabel *)

  Section Filters.
    (* F: the OperatorDict filter on the side of A, G: on the side of D — any two filters that keep the
       element (identity = numeric path, filter_nz = symbolic path, in any combination) *)
    Variables F G : mv R -> mv R.
    Hypothesis HF : filter_ok rO rI radd rmul rsub ropp A F.
    Hypothesis HG : filter_ok rO rI radd rmul rsub ropp D G.

    (* u in A and v in D are the same element *)
    Definition sim (u v : mv R) : Prop := wfA u /\ wfD v /\ rl u == v.

    Lemma sim_rl x : wfA x -> sim x (rl x).
    Proof. intros Hx. split; [exact Hx|]. split; [apply wf_rl; exact Hx | reflexivity]. Qed.

    Lemma sim_F u v : sim u v -> sim (F u) (G v).
    Proof.
      intros (Hu & Hv & E). destruct (HF u Hu) as [W1 E1]. destruct (HG v Hv) as [W2 E2].
      split; [exact W1|]. split; [exact W2|].
      transitivity (rl u); [apply relabel_congr; assumption|]. transitivity v; [exact E | symmetry; exact E2].
    Qed.

    Lemma sim_gp u v u' v' : sim u v -> sim u' v' -> sim (gp O A u u') (gp O D v v').
    Proof.
      intros (Hu & Hv & E) (Hu' & Hv' & E'). split; [apply (N wfmv_gp A SA)|]. split; [apply (N wfmv_gp D SD)|].
      transitivity (gp O D (rl u) (rl u')); [apply rl_gp; assumption|].
      apply (T gp_congr D); try assumption; apply wf_rl; assumption.
    Qed.

    Lemma sim_sub u v u' v' : sim u v -> sim u' v' -> sim (sub O A u u') (sub O D v v').
    Proof.
      intros (Hu & Hv & E) (Hu' & Hv' & E'). split; [apply (N wfmv_sub A SA)|]. split; [apply (N wfmv_sub D SD)|].
      transitivity (sub O D (rl u) (rl u')); [apply (I4 (T relabel_sub)); assumption|].
      apply (T Algebra.sub_congr D); try assumption; apply wf_rl; assumption.
    Qed.

    Lemma sim_conj u v : sim u v -> sim (conjugate O A u) (conjugate O D v).
    Proof.
      intros (Hu & Hv & E). split; [apply wfcsA|]. split; [apply wfcsD|].
      transitivity (conjugate O D (rl u)); [apply (I4 (T relabel_conjugate)); assumption|].
      apply (T Product.conjugate_congr D); [apply (wf_rl u Hu) | apply Hv | exact E].
    Qed.

    Lemma sim_rev u v : sim u v -> sim (reverse O A u) (reverse O D v).
    Proof.
      intros (Hu & Hv & E). split; [apply wfcsA|]. split; [apply wfcsD|].
      transitivity (reverse O D (rl u)); [apply (I4 (T relabel_reverse)); assumption|].
      apply (T Product.reverse_congr D); [apply (wf_rl u Hu) | apply Hv | exact E].
    Qed.

    Lemma sim_invo u v : sim u v -> sim (involute O A u) (involute O D v).
    Proof.
      intros (Hu & Hv & E). split; [apply wfcsA|]. split; [apply wfcsD|].
      transitivity (involute O D (rl u)); [apply (I4 (T relabel_involute)); assumption|].
      apply (T Product.involute_congr D); [apply (wf_rl u Hu) | apply Hv | exact E].
    Qed.

    Lemma sim_scalar c : sim (scalar_mv c) (scalar_mv c).
    Proof. split; [apply wfmv_scalar|]. split; [apply wfmv_scalar | apply relabel_scalar]. Qed.

    Lemma sim_imul u v u' v' : sim u v -> sim u' v' -> sim (i_mul O F A u u') (i_mul O G D v v').
    Proof. intros H H'. unfold i_mul. apply sim_F, sim_gp; assumption. Qed.
    Lemma sim_isub u v u' v' : sim u v -> sim u' v' -> sim (i_sub O F A u u') (i_sub O G D v v').
    Proof. intros H H'. unfold i_sub. apply sim_F, sim_sub; assumption. Qed.
    Lemma sim_iconj u v : sim u v -> sim (i_conj O F A u) (i_conj O G D v).
    Proof. intros H. unfold i_conj. apply sim_F, sim_conj; assumption. Qed.
    Lemma sim_irev u v : sim u v -> sim (i_rev O F A u) (i_rev O G D v).
    Proof. intros H. unfold i_rev. apply sim_F, sim_rev; assumption. Qed.
    Lemma sim_iinvo u v : sim u v -> sim (i_invo O F A u) (i_invo O G D v).
    Proof. intros H. unfold i_invo. apply sim_F, sim_invo; assumption. Qed.

    (* MultiVector.grade(...): same failure, corresponding parts (no filter) *)
    Lemma sim_grade_sel grades u v : sim u v ->
      match grade_sel O A grades u with
      | Ok r => exists r', grade_sel O D grades v = Ok r' /\ sim r r'
      | Err e => grade_sel O D grades v = Err e
      end.
    Proof.
      intros (Hu & Hv & E). pose proof (I4 (T relabel_grade_sel) grades u Hu) as H.
      destruct (grade_sel O A grades u) as [r|e] eqn:Eg.
      - destruct H as (r1 & E1 & Er1).
        destruct (N grade_sel_inv D grades (rl u) r1 E1) as [Hok _].
        pose proof (N grade_sel_ok D grades v Hok) as E2.
        eexists. split; [exact E2|].
        pose proof (N grade_sel_wf A (sh_keys A SA) (sh_nodup A SA) (sh_grade A SA) grades u r Eg Hu) as Wr.
        pose proof (N grade_sel_wf D (sh_keys D SD) (sh_nodup D SD) (sh_grade D SD) grades _ r1 E1 (wf_rl u Hu)) as Wr1.
        pose proof (N grade_sel_wf D (sh_keys D SD) (sh_nodup D SD) (sh_grade D SD) grades v _ E2 Hv) as Wr2.
        split; [exact Wr|]. split; [exact Wr2|]. transitivity r1; [exact Er1|].
        apply (N eqv_in D); try assumption. intros K HK.
        rewrite (N grade_sel_coeff D (sh_keys D SD) (sh_grade D SD) grades _ r1 K E1 HK).
        rewrite (N grade_sel_coeff D (sh_keys D SD) (sh_grade D SD) grades v _ K E2 HK).
        rewrite !(N drop_zin), (E K). reflexivity.
      - unfold grade_sel in H |- *. destruct (indices_for_grades D grades); cbn [bind] in *; [discriminate H | exact H].
    Qed.

    (* codegen_hitzer_inv, numerator: every dimension (the formulas for d <= 5, NotImplementedError beyond) *)
    Theorem hitzer_num_sim x x' : sim x x' ->
      match hitzer_num O F A x with
      | Ok n => exists n', hitzer_num O G D x' = Ok n' /\ sim n n'
      | Err e => hitzer_num O G D x' = Err e
      end.
    Proof.
      intros S. unfold hitzer_num. rewrite <- (same_dim A D HA HD Hsig).
      destruct (a_d A) as [|[|[|[|[|[|n]]]]]].
      - eexists. split; [reflexivity|]. apply (sim_scalar rI).
      - eexists. split; [reflexivity|]. apply sim_iinvo, S.
      - eexists. split; [reflexivity|]. apply sim_iconj, S.
      - eexists. split; [reflexivity|].
        apply sim_imul; [apply sim_iconj, S|]. apply sim_irev, sim_imul; [exact S | apply sim_iconj, S].
      - pose proof (sim_iconj x x' S) as Sc. pose proof (sim_imul _ _ _ _ S Sc) as Sn.
        pose proof (sim_grade_sel [3; 4]%nat _ _ Sn) as Hg.
        destruct (grade_sel O A [3; 4]%nat (i_mul O F A x (i_conj O F A x))) as [r|e]; cbn [bind].
        + destruct Hg as (r' & Er' & Sr). rewrite Er'. cbn [bind]. eexists. split; [reflexivity|].
          apply sim_imul; [exact Sc|]. apply sim_isub; [exact Sn|]. apply sim_imul; [apply sim_scalar | exact Sr].
        + rewrite Hg. reflexivity.
      - pose proof (sim_iconj x x' S) as Sc. pose proof (sim_imul _ _ _ _ S Sc) as Sn.
        pose proof (sim_imul _ _ _ _ Sc (sim_irev _ _ Sn)) as Sco.
        pose proof (sim_imul _ _ _ _ S Sco) as Sxc.
        pose proof (sim_grade_sel [1; 4]%nat _ _ Sxc) as Hg.
        match goal with |- context [grade_sel O A ?gr ?z] => destruct (grade_sel O A gr z) as [r|e] end; cbn [bind].
        + destruct Hg as (r' & Er' & Sr). rewrite Er'. cbn [bind]. eexists. split; [reflexivity|].
          apply sim_imul; [exact Sco|]. apply sim_isub; [exact Sxc|]. apply sim_imul; [apply sim_scalar | exact Sr].
        + rewrite Hg. reflexivity.
      - reflexivity.
    Qed.

    (* the denominator (x.sp(num)).e *)
    Theorem hitzer_den_sim x x' n n' : sim x x' -> sim n n' ->
      hitzer_den O F A x n = hitzer_den O G D x' n'.
    Proof.
      intros Sx Sn. pose proof Sx as (Hx & Hx' & _). pose proof Sn as (Hn & Hn' & _).
      unfold hitzer_den, e_of, i_sp.
      destruct (HF (sp O A x n) (wfcsA _)) as [_ E1]. destruct (HG (sp O D x' n') (wfcsD _)) as [_ E2].
      rewrite (E1 0), (E2 0).
      rewrite (T sp_e A SA x n Hx Hn), (T sp_e D SD x' n' Hx' Hn').
      destruct (sim_gp _ _ _ _ Sx Sn) as (W & _ & E). rewrite <- (E 0). symmetry. apply cf0_rl. exact W.
    Qed.
  End Filters.

  (* the statements in the form "relabel commutes with": the relabelled operand on the side of D *)
  Theorem hitzer_num_relabel F G : filter_ok rO rI radd rmul rsub ropp A F -> filter_ok rO rI radd rmul rsub ropp D G ->
    forall x, wfA x ->
    match hitzer_num O F A x with
    | Ok n => exists n', hitzer_num O G D (rl x) = Ok n' /\ wfA n /\ wfD n' /\ rl n == n'
    | Err e => hitzer_num O G D (rl x) = Err e
    end.
  Proof. intros HF HG x Hx. exact (hitzer_num_sim F G HF HG x (rl x) (sim_rl x Hx)). Qed.

  Theorem hitzer_den_relabel F G : filter_ok rO rI radd rmul rsub ropp A F -> filter_ok rO rI radd rmul rsub ropp D G ->
    forall x n n', wfA x -> wfA n -> wfD n' -> rl n == n' ->
    hitzer_den O F A x n = hitzer_den O G D (rl x) n'.
  Proof.
    intros HF HG x n n' Hx Hn Hn' E.
    apply (hitzer_den_sim F G HF HG x (rl x) n n' (sim_rl x Hx)). split; [exact Hn|]. split; [exact Hn' | exact E].
  Qed.

  (* numeric path on both sides: no filter *)
  Corollary hitzer_num_relabel_id x : wfA x ->
    match hitzer_num O (fun z => z) A x with
    | Ok n => exists n', hitzer_num O (fun z => z) D (rl x) = Ok n' /\ wfA n /\ wfD n' /\ rl n == n'
    | Err e => hitzer_num O (fun z => z) D (rl x) = Err e
    end.
  Proof. apply hitzer_num_relabel; apply filter_ok_id. Qed.
End Iso.

(* ====================================================================================== *)
(** * 4. C07 for d <= 4, every admissible basis *)

Section AnyBasis.
  Variable R : Type.
  Variables (rO rI : R) (radd rmul rsub : R -> R -> R) (ropp : R -> R).
  Hypothesis Rth : ring_theory rO rI radd rmul rsub ropp (@eq R).
  Local Notation O := (mkOps R radd rsub rmul ropp rO rI).
  Local Notation "a * b" := (rmul a b) : kvr_scope.
  Local Notation equiv := (Sparse.equiv rO rI radd rmul rsub ropp).
  Local Infix "==" := equiv (at level 70, no associativity).
  Local Notation scal := (Algebra.scal rmul).
  Local Notation one := (Algebra.one rI).
  Local Notation T l := (l R rO rI radd rmul rsub ropp Rth) (only parsing).
  Local Notation N l := (l R rO rI radd rmul rsub ropp) (only parsing).
  Local Instance equiv_EquivAB : Equivalence equiv := equiv_Equivalence R rO rI radd rmul rsub ropp.

  Variable A : alg.
  Hypothesis HA : wf_alg A = true.
  Hypothesis Hd : (a_d A <= 4)%nat.
  Hypothesis Hst : 0 <= a_start A.
  Local Notation D := (default_of A).
  Local Notation HD := (default_of_wf A HA Hst).
  Local Notation SA := (wf_sign_hyps A HA).
  Local Notation SD := (wf_sign_hyps D HD).
  Local Notation rl := (Relabel.relabel R rO rI rmul ropp A D).
  Local Notation I4 l := (l A D HA HD eq_refl eq_refl) (only parsing).
  Local Notation wf := (@wfmv R A).
  Local Notation GP := (gp O A).
  Local Notation has_inverse x := (exists y, wf y /\ GP x y == one /\ GP y x == one).

  Variable dv : R -> R -> R.
  Variable isz : R -> bool.
  Variable F : mv R -> mv R.
  Hypothesis HF : filter_ok rO rI radd rmul rsub ropp A F.

  Lemma dim_D : (a_d D <= 4)%nat.
  Proof. rewrite (default_of_dim A HA). exact Hd. Qed.

  (* the closed forms of codegen_hitzer_inv up to four dimensions, with the singular case:
     Hitzer.hitzer_le4 without [ascending_ok] *)
  Theorem hitzer_le4_any_basis x : wf x ->
    exists num, hitzer_num O F A x = Ok num /\ wf num /\
      let den := hitzer_den O F A x num in
      GP x num == scal den one /\ GP num x == scal den one /\
      (den = rO -> rI <> rO -> ~ has_inverse x).
  Proof.
    intros Hx.
    pose proof (I4 (wf_rl R rO rI rmul ropp) x Hx) as Hx'.
    destruct (T hitzer_le4 D SD (default_of_ascending A HA Hst Hd) (fun z => z) (N filter_ok_id D) dim_D (rl x) Hx')
      as (n' & En' & Wn' & H1 & H2 & Hs).
    pose proof (I4 (T hitzer_num_relabel) F (fun z => z) HF (N filter_ok_id D) x Hx) as Hn.
    destruct (hitzer_num O F A x) as [n|e].
    2:{ rewrite En' in Hn. discriminate Hn. }
    destruct Hn as (n'' & E'' & Wn & _ & En). rewrite En' in E''. injection E'' as <-.
    exists n. split; [reflexivity|]. split; [exact Wn|].
    pose proof (I4 (T hitzer_den_relabel) F (fun z => z) HF (N filter_ok_id D) x n n' Hx Wn Wn' En) as Eden.
    cbv zeta in H1, H2, Hs |- *. rewrite <- Eden in H1, H2, Hs.
    set (den := hitzer_den O F A x n) in *.
    assert (Wd : wf (scal den one)) by (apply wfmv_scal, wfmv_one).
    assert (Ed : rl (scal den one) == scal den one).
    { transitivity (scal den (rl one)); [apply (T relabel_scal)|].
      apply (T scal_congr). apply (T relabel_one A D HA). }
    split; [|split].
    - apply (I4 (T relabel_inj)); [apply (N wfmv_gp A SA) | exact Wd|].
      transitivity (gp O D (rl x) (rl n)); [apply (I4 (T rl_gp)); assumption|].
      transitivity (gp O D (rl x) n').
      { apply (T gp_congr D); try assumption; try reflexivity; apply (I4 (wf_rl R rO rI rmul ropp)); assumption. }
      transitivity (scal den one); [exact H1 | symmetry; exact Ed].
    - apply (I4 (T relabel_inj)); [apply (N wfmv_gp A SA) | exact Wd|].
      transitivity (gp O D (rl n) (rl x)); [apply (I4 (T rl_gp)); assumption|].
      transitivity (gp O D n' (rl x)).
      { apply (T gp_congr D); try assumption; try reflexivity; apply (I4 (wf_rl R rO rI rmul ropp)); assumption. }
      transitivity (scal den one); [exact H2 | symmetry; exact Ed].
    - intros Hden H10 Hinv. apply (Hs Hden H10).
      exact (I4 (T has_inverse_transfer) x Hx Hinv).
  Qed.

  Lemma lt6_any : Nat.ltb (a_d A) 6 = true.
  Proof. apply Nat.ltb_lt. lia. Qed.

  (* x * x.inv() = x.inv() * x = 1 whenever alg.inv returns *)
  Theorem inv_le4_sound_any_basis x r : wf x ->
    (forall b, isz b = false -> (b * dv rI b)%r = rI) ->
    inv_model O dv isz F A x = Ok r -> GP x r == one /\ GP r x == one.
  Proof.
    intros Hx Hdv Hr.
    destruct (hitzer_le4_any_basis x Hx) as (num & En & Wn & H1 & H2 & _).
    assert (E : inv_numden O dv isz F A x = Ok (num, hitzer_den O F A x num)).
    { unfold inv_numden. rewrite lt6_any. unfold hitzer. rewrite En. reflexivity. }
    pose proof Hr as Hr'. apply (N inv_model_ok) in Hr'.
    destruct Hr' as (num' & den' & E' & Hz & _). rewrite E in E'. inversion E'; subst num' den'.
    exact (T inv_model_sound A SA dv isz F HF x num _ r Hx E H1 H2 (Hdv _ Hz) Hr).
  Qed.

  (* alg.inv never fails otherwise than by ZeroDivisionError *)
  Theorem inv_le4_total_any_basis x : wf x ->
    (exists r, inv_model O dv isz F A x = Ok r) \/ inv_model O dv isz F A x = Err EZeroDiv.
  Proof.
    intros Hx. destruct (hitzer_le4_any_basis x Hx) as (num & En & _).
    unfold inv_model, inv_numden. rewrite lt6_any. unfold hitzer. rewrite En. cbn [bind].
    destruct (isz _); [right; reflexivity | left; eexists; reflexivity].
  Qed.

  (* ZeroDivisionError only for operands without a two-sided inverse *)
  Theorem zde_only_singular_le4_any_basis x : wf x -> rI <> rO -> (forall r, isz r = true -> r = rO) ->
    inv_model O dv isz F A x = Err EZeroDiv -> ~ has_inverse x.
  Proof.
    intros Hx H10 Hz H. apply (N zde_iff A dv isz F) in H.
    destruct H as (num & den & E & Hden). unfold inv_numden in E. rewrite lt6_any in E.
    unfold hitzer in E. apply bind_Ok in E. destruct E as (n & En & E). inversion E; subst n den.
    destruct (hitzer_le4_any_basis x Hx) as (num' & En' & _ & _ & _ & Hs). rewrite En in En'. inversion En'; subst num'.
    exact (Hs (Hz _ Hden) H10).
  Qed.

  (* over a field: a value exactly for the invertible operands, ZeroDivisionError exactly for the others *)
  Theorem inv_le4_complete_any_basis x : wf x -> rI <> rO ->
    (forall r, isz r = true -> r = rO) -> (forall b, isz b = false -> (b * dv rI b)%r = rI) ->
    (has_inverse x <-> exists r, inv_model O dv isz F A x = Ok r)
    /\ (~ has_inverse x <-> inv_model O dv isz F A x = Err EZeroDiv).
  Proof.
    intros Hx H10 Hz Hdv. destruct (inv_le4_total_any_basis x Hx) as [[r Hr]|He].
    - assert (Hi : has_inverse x).
      { exists r. split; [exact (N inv_model_wf A SA dv isz F HF x r Hr)|].
        exact (inv_le4_sound_any_basis x r Hx Hdv Hr). }
      split; split.
      + intros _. exists r. exact Hr.
      + intros _. exact Hi.
      + intros Hn. exfalso. exact (Hn Hi).
      + rewrite Hr. discriminate.
    - pose proof (zde_only_singular_le4_any_basis x Hx H10 Hz He) as Hs. split; split.
      + intros Hi. exfalso. exact (Hs Hi).
      + intros [r Hr]. rewrite He in Hr. discriminate.
      + intros _. exact He.
      + intros _. exact Hs.
  Qed.
End AnyBasis.

(* ====================================================================================== *)
(** * 5. Instances: the hypotheses are satisfiable on bases that are NOT ascending *)

(* 3DPGA with kingdon's customary basis  e, e1, e2, e3, e0, e01, e02, e03, e12, e31, e23, e032, e013, e021,
   e123, e0123  (SignBits.ex_pga3d): signature [0; 1; 1; 1], start index 0, generator order e1 e2 e3 e0
   (bits permuted), spellings e31, e032, e021 descending.  Its sign table is not the ascending one ... *)
Example ex_pga3d_not_ascending : ascending_ok ex_pga3d = false.
Proof. vm_compute. reflexivity. Qed.
(* ... but the hypotheses of this file hold *)
Example ex_pga3d_hyps : wf_alg ex_pga3d = true /\ (a_d ex_pga3d <= 4)%nat /\ 0 <= a_start ex_pga3d.
Proof. vm_compute. split; [reflexivity|]. split; [lia | discriminate]. Qed.

Example ex_pga3d_default : default_of ex_pga3d = mk_default [0; 1; 1; 1] 0 false.
Proof. vm_compute. reflexivity. Qed.

(* the closed form over the integers, all operands of 3DPGA *)
Example hitzer_pga3d_Z : forall x : mv Z, wfmv ex_pga3d x ->
  exists num, hitzer_num Zops idF ex_pga3d x = Ok num /\ wfmv ex_pga3d num /\
    let den := hitzer_den Zops idF ex_pga3d x num in
    Sparse.equiv 0 1 Z.add Z.mul Z.sub Z.opp (gp Zops ex_pga3d x num) (Algebra.scal Z.mul den (Algebra.one 1)) /\
    Sparse.equiv 0 1 Z.add Z.mul Z.sub Z.opp (gp Zops ex_pga3d num x) (Algebra.scal Z.mul den (Algebra.one 1)).
Proof.
  intros x Hx. destruct ex_pga3d_hyps as (HA & Hd & Hst).
  destruct (hitzer_le4_any_basis Z 0 1 Z.add Z.mul Z.sub Z.opp Zth ex_pga3d HA Hd Hst idF
              (filter_ok_id Z 0 1 Z.add Z.mul Z.sub Z.opp ex_pga3d) x Hx) as (num & En & Wn & H1 & H2 & _).
  exists num. split; [exact En|]. split; [exact Wn|]. split; [exact H1 | exact H2].
Qed.

(* and the model computes: the motor-like operand 2 + e1 - e0 + 3 e12 + e31 - 2 e01 + e021 + 4 e0123 (keys
   0, 1, 8, 3, 5, 9, 11, 15 of ex_pga3d, stored in this order): denominator 169, x * num = num * x = den *)
Example hitzer_pga3d_computed :
  let x := [(0, 2); (1, 1); (8, -1); (3, 3); (5, 1); (9, -2); (11, 1); (15, 4)] in
  match hitzer Zops idF ex_pga3d x with
  | Ok (num, den) => mv_equiv ex_pga3d (gp Zops ex_pga3d x num) [(0, den)] = true
                     /\ mv_equiv ex_pga3d (gp Zops ex_pga3d num x) [(0, den)] = true /\ den <> 0
  | Err _ => False
  end.
Proof. vm_compute. repeat split; discriminate. Qed.

(* relabelling commutes with the numerator on this operand (both sides computed) *)
Example hitzer_num_relabel_pga3d_computed :
  let x := [(0, 2); (1, 1); (8, -1); (3, 3); (5, 1); (9, -2); (11, 1); (15, 4)] in
  let D := default_of ex_pga3d in
  let rl := Relabel.relabel Z 0 1 Z.mul Z.opp ex_pga3d D in
  match hitzer_num Zops idF ex_pga3d x, hitzer_num Zops idF D (rl x) with
  | Ok n, Ok n' => mv_equiv D (rl n) n' = true
                   /\ hitzer_den Zops idF ex_pga3d x n = hitzer_den Zops idF D (rl x) n'
  | _, _ => False
  end.
Proof. vm_compute. split; reflexivity. Qed.

(* exact fractions on 3DPGA: whatever alg.inv returns is a two-sided inverse, and ZeroDivisionError is raised
   exactly for the operands without inverse — no hypothesis left *)
Theorem inv_pga3d_fractions : forall x : mv Qc, wfmv ex_pga3d x ->
  let eqv := Sparse.equiv (Q2Qc 0) (Q2Qc 1) Qcplus Qcmult Qcminus Qcopp in
  let has_inverse := exists y, wfmv ex_pga3d y /\ eqv (gp Qcops ex_pga3d x y) (Algebra.one (Q2Qc 1))
                               /\ eqv (gp Qcops ex_pga3d y x) (Algebra.one (Q2Qc 1)) in
  (forall r, inv_model Qcops Qcdiv Qcisz (fun z => z) ex_pga3d x = Ok r ->
     eqv (gp Qcops ex_pga3d x r) (Algebra.one (Q2Qc 1)) /\ eqv (gp Qcops ex_pga3d r x) (Algebra.one (Q2Qc 1)))
  /\ (has_inverse <-> exists r, inv_model Qcops Qcdiv Qcisz (fun z => z) ex_pga3d x = Ok r)
  /\ (~ has_inverse <-> inv_model Qcops Qcdiv Qcisz (fun z => z) ex_pga3d x = Err EZeroDiv).
Proof.
  intros x Hx eqv has_inverse. destruct ex_pga3d_hyps as (HA & Hd & Hst).
  pose proof (filter_ok_id Qc (Q2Qc 0) (Q2Qc 1) Qcplus Qcmult Qcminus Qcopp ex_pga3d) as HF.
  split.
  - intros r Hr.
    exact (inv_le4_sound_any_basis Qc (Q2Qc 0) (Q2Qc 1) Qcplus Qcmult Qcminus Qcopp Qcrt ex_pga3d HA Hd Hst
             Qcdiv Qcisz (fun z => z) HF x r Hx Qc_div_inverts Hr).
  - exact (inv_le4_complete_any_basis Qc (Q2Qc 0) (Q2Qc 1) Qcplus Qcmult Qcminus Qcopp Qcrt ex_pga3d HA Hd Hst
             Qcdiv Qcisz (fun z => z) HF x Hx Qc_one_neq_zero Qc_isz_exact Qc_div_inverts).
Qed.

(* a plane with the descending spelling e21 and start index 1 (Relabel.ex_A2): the orientation of the
   pseudoscalar is reversed (phi_sign = -1), the theorems apply all the same *)
Example ex_A2_hyps : wf_alg ex_A2 = true /\ (a_d ex_A2 <= 4)%nat /\ 0 <= a_start ex_A2 /\ ascending_ok ex_A2 = false.
Proof. vm_compute. split; [reflexivity|]. split; [lia|]. split; [discriminate | reflexivity]. Qed.
