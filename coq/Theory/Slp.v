(* Theory/Slp.v — translation validation of the code kingdon generates (Model/Slp.v).

     (a) slp_eval_hom      running a generated program commutes with every operation-preserving map of the
                           coefficients (exceptions included);
     (b) cse_sound         substituting the lets away (undoing sympy.cse) does not change what a well-scoped
                           program computes, exceptions included;
     (c) slp_validated2 / slp_validated1 (exact level), slp_validated2c / slp_validated1c (coefficient level)
                           ONE boolean computation on indeterminates (validate.. = true) implies: the program
                           computes the model operator for EVERY input in EVERY commutative ring;
         slp_validated_wrong_length   ... and raises ValueError on operands of any other length;
         validate_complete  conversely a failed comparison is a difference of formal polynomials (so a
                           concrete integer input on which the program and the model differ exists);
     (d) the model operators by tag (model2 / model1) are natural, and are the operators of Model/Codegen.v
         (run2 / run1 of Theory/Call.v) when the algebra is not graded;
     (e) closed examples. *)
From Coq Require Import String.
From Coq Require Import List ZArith Bool Arith Lia Ring_theory.
From KV Require Import Model.All Model.Composite Model.Graded Model.Poly Model.Slp.
From KV Require Import Theory.Poly Theory.Natural Theory.Call.
Import ListNotations.
Local Open Scope Z_scope.

(* ---------------------------------------------------------------- helpers *)

Lemma res_mapM_ext {A B} (f g : A -> res B) l : (forall a, In a l -> f a = g a) -> res_mapM f l = res_mapM g l.
Proof.
  induction l as [|a l IH]; intros H; cbn [res_mapM].
  - reflexivity.
  - rewrite (H a (or_introl eq_refl)). rewrite IH; [reflexivity|]. intros b Hb. apply H. right. exact Hb.
Qed.

Lemma res_mapM_map {A B C} (f : B -> res C) (g : A -> B) l : res_mapM f (map g l) = res_mapM (fun a => f (g a)) l.
Proof.
  induction l as [|a l IH]; cbn [map res_mapM]; [reflexivity|]. rewrite IH. reflexivity.
Qed.

Lemma slookup_app {V} v (l1 l2 : list (string * V)) :
  slookup v (l1 ++ l2) = match slookup v l1 with Some x => Some x | None => slookup v l2 end.
Proof.
  induction l1 as [|[w x] r IH]; cbn [app slookup]; [reflexivity|].
  destruct (String.eqb w v); [reflexivity | exact IH].
Qed.

Lemma slookup_in {V} v (l : list (string * V)) : slookup v l <> None <-> In v (map fst l).
Proof.
  induction l as [|[w x] r IH]; cbn [slookup map fst In].
  - split; [intros H; exact (H eq_refl) | intros []].
  - destruct (String.eqb w v) eqn:E.
    + apply String.eqb_eq in E. split; [intros _; left; exact E | intros _; discriminate].
    + apply String.eqb_neq in E. rewrite IH. split; [intros H; right; exact H | intros [H|H]; [contradiction | exact H]].
Qed.

Lemma sin_in v l : sin v l = true <-> In v l.
Proof.
  unfold sin. rewrite existsb_exists. split.
  - intros [x [Hx E]]. apply String.eqb_eq in E. subst x. exact Hx.
  - intros H. exists v. split; [exact H | apply String.eqb_refl].
Qed.

(* ---------------------------------------------------------------- (a) naturality of running a program *)

Section Hom.
  Context {R S : Type} (OR : ops R) (OS : ops S) (h : R -> S) (injR : Z -> R) (injS : Z -> S).
  Hypothesis Hh : ops_hom OR OS h.
  Hypothesis Hinj : forall z, h (injR z) = injS z.

  Definition map_env (rho : @senv R) : @senv S := map (fun p => (fst p, h (snd p))) rho.

  Lemma slookup_map_env v rho : slookup v (map_env rho) = option_map h (slookup v rho).
  Proof.
    induction rho as [|[w x] r IH]; cbn [map_env map slookup fst snd]; [reflexivity|].
    destruct (String.eqb w v); [reflexivity | exact IH].
  Qed.

  Lemma pow_nat_hom x n : h (pow_nat OR x n) = pow_nat OS (h x) n.
  Proof.
    induction n as [|n IH]; cbn [pow_nat].
    - apply (hom_one _ _ _ Hh).
    - rewrite (hom_mul _ _ _ Hh), IH. reflexivity.
  Qed.

  Lemma sexp_eval_hom rho e : sexp_eval OS injS (map_env rho) e = map_res h (sexp_eval OR injR rho e).
  Proof.
    induction e as [v|z|a IHa b IHb|a IHa b IHb|a IHa b IHb|a IHa|a IHa n]; cbn [sexp_eval].
    - rewrite slookup_map_env. destruct (slookup v rho); reflexivity.
    - cbn [map_res]. rewrite Hinj. reflexivity.
    - rewrite IHa, IHb. destruct (sexp_eval OR injR rho a); cbn [bind map_res]; [|reflexivity].
      destruct (sexp_eval OR injR rho b); cbn [bind map_res]; [|reflexivity]. rewrite (hom_add _ _ _ Hh). reflexivity.
    - rewrite IHa, IHb. destruct (sexp_eval OR injR rho a); cbn [bind map_res]; [|reflexivity].
      destruct (sexp_eval OR injR rho b); cbn [bind map_res]; [|reflexivity]. rewrite (hom_sub _ _ _ Hh). reflexivity.
    - rewrite IHa, IHb. destruct (sexp_eval OR injR rho a); cbn [bind map_res]; [|reflexivity].
      destruct (sexp_eval OR injR rho b); cbn [bind map_res]; [|reflexivity]. rewrite (hom_mul _ _ _ Hh). reflexivity.
    - rewrite IHa. destruct (sexp_eval OR injR rho a); cbn [bind map_res]; [|reflexivity].
      rewrite (hom_neg _ _ _ Hh). reflexivity.
    - rewrite IHa. destruct (sexp_eval OR injR rho a); cbn [bind map_res]; [|reflexivity].
      rewrite pow_nat_hom. reflexivity.
  Qed.

  Lemma bind_unpack_hom rho ns vals :
    bind_unpack (map_env rho) ns (map h vals) = map_res map_env (bind_unpack rho ns vals).
  Proof.
    unfold bind_unpack. rewrite map_length. destruct (Nat.eqb (List.length ns) (List.length vals)); cbn [map_res]; [|reflexivity].
    f_equal. unfold map_env. rewrite map_app, map_rev. f_equal. f_equal.
    revert vals. induction ns as [|n ns IH]; intros [|x vals]; cbn [combine map fst snd]; try reflexivity.
    rewrite IH. reflexivity.
  Qed.

  Lemma bind_args_hom unp : forall rho args,
    bind_args (map_env rho) unp (map (map h) args) = map_res map_env (bind_args rho unp args).
  Proof.
    induction unp as [|ns unp IH]; intros rho [|a args]; cbn [bind_args map map_res]; try reflexivity.
    rewrite bind_unpack_hom. destruct (bind_unpack rho ns a) as [rho'|e]; cbn [map_res bind]; [apply IH | reflexivity].
  Qed.

  Lemma run_lets_hom lets : forall rho,
    run_lets OS injS (map_env rho) lets = map_res map_env (run_lets OR injR rho lets).
  Proof.
    induction lets as [|[v e] r IH]; intros rho; cbn [run_lets map_res]; [reflexivity|].
    rewrite sexp_eval_hom. destruct (sexp_eval OR injR rho e) as [x|er]; cbn [map_res bind]; [|reflexivity].
    apply (IH ((v, x) :: rho)).
  Qed.

  Lemma res_mapM_hom rho es :
    res_mapM (sexp_eval OS injS (map_env rho)) es = map_res (map h) (res_mapM (sexp_eval OR injR rho) es).
  Proof.
    induction es as [|e es IH]; cbn [res_mapM map_res map]; [reflexivity|].
    rewrite sexp_eval_hom, IH. destruct (sexp_eval OR injR rho e); cbn [map_res bind]; [|reflexivity].
    destruct (res_mapM (sexp_eval OR injR rho) es); reflexivity.
  Qed.

  Theorem slp_eval_hom p args :
    slp_eval OS injS p (map (map h) args) = map_res (map h) (slp_eval OR injR p args).
  Proof.
    unfold slp_eval. change (@nil (string * S)) with (map_env []). rewrite bind_args_hom.
    destruct (bind_args [] (p_unpack p) args) as [rho|e]; cbn [map_res bind]; [|reflexivity].
    rewrite run_lets_hom. destruct (run_lets OR injR rho (p_lets p)) as [rho'|e]; cbn [map_res bind]; [|reflexivity].
    apply res_mapM_hom.
  Qed.
End Hom.

(* ---------------------------------------------------------------- (b) common-subexpression elimination *)

Section Cse.
  Context {R : Type} (O : ops R) (inj : Z -> R).
  Local Notation ev := (sexp_eval O inj).

  (* the substitution sg, read in the environment rho0 of the unpacked names, IS the environment rho *)
  Definition sub_is (rho0 rho : @senv R) (sg : list (string * sexp)) : Prop :=
    forall v, match slookup v sg with
              | Some e' => exists x, ev rho0 e' = Ok x /\ slookup v rho = Some x
              | None => slookup v rho = slookup v rho0
              end.

  Lemma subst_eval rho0 rho sg : sub_is rho0 rho sg -> forall e, ev rho0 (sexp_subst sg e) = ev rho e.
  Proof.
    intros H e. induction e as [v|z|a IHa b IHb|a IHa b IHb|a IHa b IHb|a IHa|a IHa n]; cbn [sexp_subst sexp_eval];
      try (rewrite IHa, IHb; reflexivity); try (rewrite IHa; reflexivity); try reflexivity.
    specialize (H v). destruct (slookup v sg) as [e'|].
    - destruct H as [x [H1 H2]]. rewrite H1, H2. reflexivity.
    - cbn [sexp_eval]. rewrite H. reflexivity.
  Qed.

  Lemma vars_in_ok bound rho e : incl bound (map fst rho) -> vars_in bound e = true -> exists x, ev rho e = Ok x.
  Proof.
    intros Hb. induction e as [v|z|a IHa b IHb|a IHa b IHb|a IHa b IHb|a IHa|a IHa n]; cbn [vars_in sexp_eval]; intros Hv;
      try (apply andb_prop in Hv; destruct Hv as [Ha Hv]; destruct (IHa Ha) as [x ->]; destruct (IHb Hv) as [y ->];
           cbn [bind]; eexists; reflexivity);
      try (destruct (IHa Hv) as [x ->]; cbn [bind]; eexists; reflexivity);
      try (eexists; reflexivity).
    apply sin_in in Hv. apply Hb in Hv. apply slookup_in in Hv. destruct (slookup v rho) as [x|]; [|contradiction].
    exists x. reflexivity.
  Qed.

  Lemma run_lets_inline rho0 lets : forall rho sg bound,
    sub_is rho0 rho sg -> incl bound (map fst rho) -> lets_scoped bound lets = true ->
    exists rho', run_lets O inj rho lets = Ok rho' /\ sub_is rho0 rho' (inline_lets sg lets).
  Proof.
    induction lets as [|[v e] r IH]; intros rho sg bound Hs Hb Hsc; cbn [run_lets inline_lets].
    - exists rho. split; [reflexivity | exact Hs].
    - cbn [lets_scoped] in Hsc. apply andb_prop in Hsc. destruct Hsc as [Hv Hsc].
      destruct (vars_in_ok bound rho e Hb Hv) as [x Hx]. rewrite Hx. cbn [bind].
      apply (IH ((v, x) :: rho) ((v, sexp_subst sg e) :: sg) (v :: bound)).
      + intros w. cbn [slookup]. destruct (String.eqb v w).
        * exists x. split; [rewrite (subst_eval rho0 rho sg Hs); exact Hx | reflexivity].
        * apply Hs.
      + intros w [Hw|Hw]; cbn [map fst In]; [left; exact Hw | right; apply Hb; exact Hw].
      + exact Hsc.
  Qed.

  Lemma bind_args_bound unp : forall (rho : @senv R) args rho', bind_args rho unp args = Ok rho' ->
    forall v, In v (concat unp) \/ In v (map fst rho) -> In v (map fst rho').
  Proof.
    induction unp as [|ns unp IH]; intros rho [|a args] rho'; cbn [bind_args concat]; try discriminate.
    - intros E v [[]|H]. injection E as <-. exact H.
    - unfold bind_unpack. destruct (Nat.eqb (List.length ns) (List.length a)) eqn:El; cbn [bind]; [|discriminate].
      apply Nat.eqb_eq in El. intros E v Hv. apply (IH _ _ _ E). rewrite in_app_iff in Hv.
      destruct Hv as [[Hv|Hv]|Hv]; [right | left; exact Hv | right].
      + rewrite map_app, in_app_iff. left. rewrite map_rev, <- in_rev.
        assert (Hc : map fst (combine ns a) = ns).
        { clear -El. revert a El. induction ns as [|n ns IHn]; intros [|x a] El; cbn [combine map fst List.length] in *;
            try reflexivity; try discriminate. injection El as El. rewrite (IHn a El). reflexivity. }
        rewrite Hc. exact Hv.
      + rewrite map_app, in_app_iff. right. exact Hv.
  Qed.

  (* sympy.cse undone: the let-free program computes what the program with its lets computes, exceptions included *)
  Theorem cse_sound p args : well_scoped p = true -> slp_eval O inj (inline p) args = slp_eval O inj p args.
  Proof.
    intros Hw. unfold slp_eval, inline. cbn [p_unpack p_lets p_ret].
    destruct (bind_args [] (p_unpack p) args) as [rho0|e] eqn:Eb; cbn [bind run_lets]; [|reflexivity].
    destruct (run_lets_inline rho0 (p_lets p) rho0 [] (concat (p_unpack p))) as [rho' [Hr Hs]].
    - intros v. cbn [slookup]. reflexivity.
    - intros v Hv. apply (bind_args_bound _ _ _ _ Eb). left. exact Hv.
    - exact Hw.
    - rewrite Hr. cbn [bind]. rewrite res_mapM_map. apply res_mapM_ext. intros e _. apply (subst_eval rho0 rho' _ Hs).
  Qed.
End Cse.

(* ---------------------------------------------------------------- (d) the model operators by tag *)

Definition natural_bin (F : forall T, ops T -> mv T -> mv T -> mv T) : Prop :=
  forall (R S : Type) (OR : ops R) (OS : ops S) (h : R -> S), ops_hom OR OS h ->
  forall x y, map_mv h (F R OR x y) = F S OS (map_mv h x) (map_mv h y).
Definition natural_un (F : forall T, ops T -> mv T -> mv T) : Prop :=
  forall (R S : Type) (OR : ops R) (OS : ops S) (h : R -> S), ops_hom OR OS h ->
  forall x, map_mv h (F R OR x) = F S OS (map_mv h x).

Lemma finish_graded_cons {T} (O : ops T) A kv (r : mv T) : a_graded A = true ->
  finish O A (kv :: r)
  = flat_map (fun k => if zin k (flat_map (indices_for_grade A) (grades_present A (keys (kv :: r))))
                       then [(k, match zassoc k (kv :: r) with Some v => v | None => o_zero O end)] else [])
             (canon_keys A).
Proof. intros Hg. unfold finish. rewrite Hg. reflexivity. Qed.

Section Finish.
  Context {R S : Type} (OR : ops R) (OS : ops S) (h : R -> S).
  Hypothesis Hh : ops_hom OR OS h.

  Lemma nat_finish A (d : mv R) : map_mv h (finish OR A d) = finish OS A (map_mv h d).
  Proof.
    destruct (a_graded A) eqn:Hg.
    2:{ unfold finish. rewrite Hg. apply nat_canon_sort. }
    destruct d as [|kv r]; [unfold finish; rewrite Hg; reflexivity|].
    rewrite (finish_graded_cons OR A kv r Hg).
    change (map_mv h (kv :: r)) with ((fst kv, h (snd kv)) :: map_mv h r).
    rewrite (finish_graded_cons OS A _ _ Hg).
    change ((fst kv, h (snd kv)) :: map_mv h r) with (map_mv h (kv :: r)).
    rewrite keys_map_mv. generalize (kv :: r) as d. intros d.
    generalize (flat_map (indices_for_grade A) (grades_present A (keys d))) as ko. intros ko.
    unfold map_mv at 1. rewrite map_flat_map_comm. apply flat_map_ext. intros k.
    destruct (zin k ko); [|reflexivity]. rewrite zassoc_map_mv.
    destruct (zassoc k d); cbn [map option_map fst snd]; [reflexivity|]. rewrite (hom_zero _ _ _ Hh). reflexivity.
  Qed.
End Finish.

Theorem model2_natural o A : natural_bin (model2 o A).
Proof.
  intros R S OR OS h H x y. destruct o; cbn [model2];
    try (rewrite (nat_finish OR OS h H); f_equal;
         first [ apply nat_codegen_product; exact H | apply nat_raw_add; exact H | apply nat_raw_sub; exact H ]).
  - apply nat_sw. exact H.
  - apply nat_proj. exact H.
Qed.

Theorem model1_natural o A : natural_un (model1 o A).
Proof.
  intros R S OR OS h H x. destruct o; cbn [model1];
    try (rewrite (nat_finish OR OS h H); f_equal;
         first [ apply nat_raw_neg; exact H | apply nat_raw_involution; exact H | apply nat_raw_hodge; exact H
               | apply nat_raw_unhodge; exact H ]).
  apply nat_normsq. exact H.
Qed.

(* outside graded mode they ARE the operators of Model/Codegen.v / Model/Composite.v (run2 / run1 of Theory/Call.v,
   the operators every other property speaks about) *)
Definition tag2 (o : gop2) : binop :=
  match o with G2gp => Bgp | G2op => Bop | G2ip => Bip | G2lc => Blc | G2rc => Brc | G2sp => Bsp | G2cp => Bcp | G2acp => Bacp
             | G2rp => Brp | G2add => Badd | G2sub => Bsub | G2sw => Bsw | G2proj => Bproj end.
Definition tag1 (o : gop1) : unop :=
  match o with G1neg => Uneg | G1reverse => Ureverse | G1involute => Uinvolute | G1conjugate => Uconjugate
             | G1hodge => Uhodge | G1unhodge => Uunhodge | G1normsq => Unormsq end.

Theorem model2_run2 o A R (O : ops R) x y : a_graded A = false -> model2 o A R O x y = run2 (tag2 o) A R O x y.
Proof. intros Hg. destruct o; cbn [model2 tag2 run2]; unfold finish; rewrite ?Hg; reflexivity. Qed.
Theorem model1_run1 o A R (O : ops R) x : a_graded A = false -> model1 o A R O x = run1 (tag1 o) A R O x.
Proof. intros Hg. destruct o; cbn [model1 tag1 run1]; unfold finish; rewrite ?Hg; reflexivity. Qed.
(* in graded mode the elementary ones are the graded operators of Model/Graded.v *)
Theorem model2_graded A R (O : ops R) x y :
  model2 G2gp A R O x y = ggp O A x y /\ model2 G2op A R O x y = gop O A x y /\
  model2 G2ip A R O x y = gip O A x y /\ model2 G2add A R O x y = gadd O A x y.
Proof. repeat split. Qed.

(* ---------------------------------------------------------------- (c) validation on indeterminates *)

Lemma map_nth_seq {A} (d : A) (l1 l2 : list A) :
  map (fun i => nth i (l1 ++ l2) d) (seq (List.length l1) (List.length l2)) = l2.
Proof.
  induction l1 as [|a l1 IH]; cbn [List.length app].
  - induction l2 as [|b l2 IH2]; cbn [List.length seq map]; [reflexivity|].
    cbn [nth]. f_equal. rewrite <- seq_shift, map_map. cbn [nth]. exact IH2.
  - rewrite <- seq_shift, map_map. cbn [nth]. exact IH.
Qed.

Lemma map_nth_seq0 {A} (d : A) (l1 l2 : list A) :
  map (fun i => nth i (l1 ++ l2) d) (seq 0 (List.length l1)) = l1.
Proof.
  rewrite <- (app_nil_r l1) at 2. rewrite <- (firstn_all l1) at 2.
  revert l2. induction l1 as [|a l1 IH]; intros l2; cbn [List.length seq map app firstn]; [reflexivity|].
  cbn [nth]. f_equal. rewrite <- seq_shift, map_map. cbn [nth]. rewrite IH, firstn_all, app_nil_r. reflexivity.
Qed.

Lemma combine_map_mv {A B} (f : A -> B) (ks : list Z) (l : list A) :
  map_mv f (combine ks l) = combine ks (map f l).
Proof.
  revert l. induction ks as [|k ks IH]; intros [|a l]; cbn [combine map_mv map fst snd]; try reflexivity.
  f_equal. apply IH.
Qed.

Lemma map_snd_map_mv {A B} (f : A -> B) (x : mv A) : map snd (map_mv f x) = map f (map snd x).
Proof. unfold map_mv. rewrite !map_map. reflexivity. Qed.

Lemma coeff_absent {R} (O : ops R) K (x : mv R) : ~ In K (keys x) -> coeff O K x = o_zero O.
Proof.
  induction x as [|[k v] r IH]; cbn [coeff keys map fst In]; intros H; [reflexivity|].
  destruct (Z.eqb k K) eqn:E; [apply Z.eqb_eq in E; exfalso; apply H; left; exact E|].
  apply IH. intros Hin. apply H. right. exact Hin.
Qed.

Lemma zlist_eqb_eq (a b : list Z) : list_eqb Z.eqb a b = true -> a = b.
Proof.
  revert b. induction a as [|x a IH]; intros [|y b]; cbn [list_eqb]; intros H; try reflexivity; try discriminate.
  apply andb_prop in H. destruct H as [H1 H2]. apply Z.eqb_eq in H1. subst y. rewrite (IH b H2). reflexivity.
Qed.

Lemma keys_combine {A} (ks : list Z) (l : list A) : List.length l = List.length ks -> keys (combine ks l) = ks.
Proof.
  revert l. induction ks as [|k ks IH]; intros [|a l]; cbn [List.length combine keys map fst]; intros H; try reflexivity; try discriminate.
  injection H as H. f_equal. apply IH. exact H.
Qed.

(* what a successful run says about the shape of the program: the unpackings have the lengths of the operands *)
Lemma slp_eval_ok_shape2 {R} (O : ops R) inj p (X Y : list R) out : slp_eval O inj p [X; Y] = Ok out ->
  exists nx ny, p_unpack p = [nx; ny] /\ List.length nx = List.length X /\ List.length ny = List.length Y.
Proof.
  unfold slp_eval. destruct (p_unpack p) as [|nx [|ny [|nz u]]]; cbn [bind_args bind]; try discriminate.
  - unfold bind_unpack. destruct (Nat.eqb (List.length nx) (List.length X)); cbn [bind]; discriminate.
  - unfold bind_unpack at 1. destruct (Nat.eqb (List.length nx) (List.length X)) eqn:E1; cbn [bind]; [|discriminate].
    unfold bind_unpack at 1. destruct (Nat.eqb (List.length ny) (List.length Y)) eqn:E2; cbn [bind]; [|discriminate].
    intros _. exists nx, ny. apply Nat.eqb_eq in E1, E2. auto.
  - unfold bind_unpack at 1. destruct (Nat.eqb (List.length nx) (List.length X)); cbn [bind]; [|discriminate].
    unfold bind_unpack at 1. destruct (Nat.eqb (List.length ny) (List.length Y)); cbn [bind]; discriminate.
Qed.
Lemma slp_eval_ok_shape1 {R} (O : ops R) inj p (X : list R) out : slp_eval O inj p [X] = Ok out ->
  exists nx, p_unpack p = [nx] /\ List.length nx = List.length X.
Proof.
  unfold slp_eval. destruct (p_unpack p) as [|nx [|ny u]]; cbn [bind_args bind]; try discriminate.
  - unfold bind_unpack at 1. destruct (Nat.eqb (List.length nx) (List.length X)) eqn:E1; cbn [bind]; [|discriminate].
    intros _. exists nx. apply Nat.eqb_eq in E1. auto.
  - unfold bind_unpack at 1. destruct (Nat.eqb (List.length nx) (List.length X)); cbn [bind]; discriminate.
Qed.

Lemma length_indets off n : List.length (indets off n) = n.
Proof. unfold indets. rewrite map_length, seq_length. reflexivity. Qed.

Section Validated.
  Variable R : Type.
  Variables (R0 R1 : R) (Radd Rmul Rsub : R -> R -> R) (Ropp : R -> R).
  Hypothesis Rth : ring_theory R0 R1 Radd Rmul Rsub Ropp (@eq R).
  Local Notation O := (mkOps R Radd Rsub Rmul Ropp R0 R1).
  Local Notation zi := (zinj R R0 R1 Radd Rmul Ropp).       (* the image of the python integers: n |-> 1 + ... + 1 *)
  Local Notation pev rho := (peval R R0 R1 Radd Rmul Ropp rho).

  Lemma pev_hom rho : ops_hom PolyOps O (pev rho).
  Proof. exact (peval_hom R R0 R1 Radd Rmul Rsub Ropp Rth rho). Qed.
  Lemma pev_inj rho z : pev rho (P_of_Z z) = zi z.
  Proof. apply (peval_P_of_Z R R0 R1 Radd Rmul Rsub Ropp Rth). Qed.

  Lemma pev_indets rho off n : map (pev rho) (indets off n) = map rho (seq off n).
  Proof.
    unfold indets. rewrite map_map. apply map_ext. intros v. apply (peval_P_of_var R R0 R1 Radd Rmul Rsub Ropp Rth).
  Qed.

  Lemma peq_list_sound rho (a b : list poly) : list_eqb peq a b = true -> map (pev rho) a = map (pev rho) b.
  Proof.
    revert b. induction a as [|p a IH]; intros [|q b]; cbn [list_eqb map]; intros H; try reflexivity; try discriminate.
    apply andb_prop in H. destruct H as [H1 H2].
    rewrite (peq_sound R R0 R1 Radd Rmul Rsub Ropp Rth rho p q H1), (IH b H2). reflexivity.
  Qed.

  (* the two levels of agreement, transported to R by evaluation *)
  Definition agrees_exact (kout : list Z) (vs : list R) (M : mv R) : Prop := vs = map snd M /\ keys M = kout.
  Definition agrees_coeff (kout : list Z) (vs : list R) (M : mv R) : Prop :=
    List.length vs = List.length kout /\ forall K, coeff O K (combine kout vs) = coeff O K M.

  Lemma agree_exact_sound rho kout out M : agree_exact kout out M = true ->
    agrees_exact kout (map (pev rho) out) (map_mv (pev rho) M).
  Proof.
    unfold agree_exact. intros H. apply andb_prop in H. destruct H as [Hk Hv]. split.
    - rewrite map_snd_map_mv. apply peq_list_sound. exact Hv.
    - rewrite keys_map_mv. symmetry. apply zlist_eqb_eq. exact Hk.
  Qed.

  Lemma agree_coeff_sound rho kout out M : agree_coeff kout out M = true ->
    agrees_coeff kout (map (pev rho) out) (map_mv (pev rho) M).
  Proof.
    unfold agree_coeff. intros H. apply andb_prop in H. destruct H as [Hl Hc]. apply Nat.eqb_eq in Hl. split.
    - rewrite map_length. exact Hl.
    - intros K. rewrite <- combine_map_mv. rewrite !(coeff_map_mv PolyOps O (pev rho) (pev_hom rho)).
      destruct (in_dec Z.eq_dec K (kout ++ keys M)) as [Hin|Hout].
      + rewrite forallb_forall in Hc. apply (peq_sound R R0 R1 Radd Rmul Rsub Ropp Rth). apply Hc. exact Hin.
      + rewrite !coeff_absent; [reflexivity | |].
        * intros Hk. apply Hout. apply in_or_app. right. exact Hk.
        * rewrite (keys_combine kout out Hl). intros Hk. apply Hout. apply in_or_app. left. exact Hk.
  Qed.

  Section Bin.
    Variable F : forall T, ops T -> mv T -> mv T -> mv T.
    Hypothesis HF : natural_bin F.
    Variables (kx ky kout : list Z) (p : prog).

    Lemma validated2_gen (agree : list Z -> list poly -> mv poly -> bool) (agrees : list Z -> list R -> mv R -> Prop) :
      (forall rho kout out M, agree kout out M = true -> agrees kout (map (pev rho) out) (map_mv (pev rho) M)) ->
      validate2_with agree F kx ky kout p = true ->
      forall xs ys, List.length xs = List.length kx -> List.length ys = List.length ky ->
      exists vs, slp_eval O zi p [xs; ys] = Ok vs /\ agrees kout vs (F R O (combine kx xs) (combine ky ys)).
    Proof.
      intros Hag Hv xs ys Hx Hy. unfold validate2_with in Hv. cbv zeta in Hv. rewrite <- Hx, <- Hy in Hv.
      set (rho := fun i => nth i (xs ++ ys) R0).
      set (X := indets 0 (List.length xs)) in *. set (Y := indets (List.length xs) (List.length ys)) in *.
      assert (EX : map (pev rho) X = xs) by (unfold X; rewrite pev_indets; apply map_nth_seq0).
      assert (EY : map (pev rho) Y = ys) by (unfold Y; rewrite pev_indets; apply map_nth_seq).
      pose proof (slp_eval_hom PolyOps O (pev rho) P_of_Z zi (pev_hom rho) (pev_inj rho) p [X; Y]) as Hh.
      cbn [map] in Hh. rewrite EX, EY in Hh. rewrite Hh.
      destruct (slp_eval PolyOps P_of_Z p [X; Y]) as [out|e]; [|discriminate]. cbn [map_res].
      exists (map (pev rho) out). split; [reflexivity|].
      specialize (Hag rho _ _ _ Hv). rewrite (HF _ _ _ _ _ (pev_hom rho)) in Hag.
      rewrite !combine_map_mv, EX, EY in Hag. exact Hag.
    Qed.

    (* MAIN THEOREM, binary operators, exact level *)
    Theorem slp_validated2 : validate2 F kx ky kout p = true ->
      forall xs ys, List.length xs = List.length kx -> List.length ys = List.length ky ->
      slp_eval O zi p [xs; ys] = Ok (map snd (F R O (combine kx xs) (combine ky ys))) /\
      keys (F R O (combine kx xs) (combine ky ys)) = kout.
    Proof.
      intros Hv xs ys Hx Hy.
      destruct (validated2_gen agree_exact agrees_exact agree_exact_sound Hv xs ys Hx Hy) as [vs [He [Hvs Hk]]].
      subst vs. split; assumption.
    Qed.

    (* ... coefficient level (the composites): the same coefficient on every blade, absent = 0 *)
    Theorem slp_validated2c : validate2c F kx ky kout p = true ->
      forall xs ys, List.length xs = List.length kx -> List.length ys = List.length ky ->
      exists vs, slp_eval O zi p [xs; ys] = Ok vs /\ List.length vs = List.length kout /\
                 forall K, coeff O K (combine kout vs) = coeff O K (F R O (combine kx xs) (combine ky ys)).
    Proof.
      intros Hv xs ys Hx Hy.
      destruct (validated2_gen agree_coeff agrees_coeff agree_coeff_sound Hv xs ys Hx Hy) as [vs [He [Hl Hc]]].
      exists vs. auto.
    Qed.

    (* operands of any other length: the unpacking raises ValueError, whatever the level *)
    Theorem slp_validated2_wrong_length agree : validate2_with agree F kx ky kout p = true ->
      forall xs ys, List.length xs <> List.length kx \/ List.length ys <> List.length ky ->
      slp_eval O zi p [xs; ys] = Err EValue.
    Proof.
      intros Hv xs ys Hl. unfold validate2_with in Hv. cbv zeta in Hv.
      destruct (slp_eval PolyOps P_of_Z p [indets 0 (List.length kx); indets (List.length kx) (List.length ky)]) as [out|e] eqn:E;
        [|discriminate].
      destruct (slp_eval_ok_shape2 _ _ _ _ _ _ E) as [nx [ny [Hu [Hnx Hny]]]]. rewrite length_indets in Hnx, Hny.
      unfold slp_eval. rewrite Hu. cbn [bind_args]. unfold bind_unpack at 1. rewrite Hnx.
      destruct (Nat.eqb (List.length kx) (List.length xs)) eqn:E1; cbn [bind]; [|reflexivity].
      unfold bind_unpack at 1. rewrite Hny. destruct (Nat.eqb (List.length ky) (List.length ys)) eqn:E2; cbn [bind]; [|reflexivity].
      apply Nat.eqb_eq in E1, E2. destruct Hl as [Hl|Hl]; exfalso; apply Hl; congruence.
    Qed.
  End Bin.

  Section Un.
    Variable F : forall T, ops T -> mv T -> mv T.
    Hypothesis HF : natural_un F.
    Variables (kx kout : list Z) (p : prog).

    Lemma validated1_gen (agree : list Z -> list poly -> mv poly -> bool) (agrees : list Z -> list R -> mv R -> Prop) :
      (forall rho kout out M, agree kout out M = true -> agrees kout (map (pev rho) out) (map_mv (pev rho) M)) ->
      validate1_with agree F kx kout p = true ->
      forall xs, List.length xs = List.length kx ->
      exists vs, slp_eval O zi p [xs] = Ok vs /\ agrees kout vs (F R O (combine kx xs)).
    Proof.
      intros Hag Hv xs Hx. unfold validate1_with in Hv. cbv zeta in Hv. rewrite <- Hx in Hv.
      set (rho := fun i => nth i (xs ++ []) R0).
      set (X := indets 0 (List.length xs)) in *.
      assert (EX : map (pev rho) X = xs) by (unfold X; rewrite pev_indets; apply map_nth_seq0).
      pose proof (slp_eval_hom PolyOps O (pev rho) P_of_Z zi (pev_hom rho) (pev_inj rho) p [X]) as Hh.
      cbn [map] in Hh. rewrite EX in Hh. rewrite Hh.
      destruct (slp_eval PolyOps P_of_Z p [X]) as [out|e]; [|discriminate]. cbn [map_res].
      exists (map (pev rho) out). split; [reflexivity|].
      specialize (Hag rho _ _ _ Hv). rewrite (HF _ _ _ _ _ (pev_hom rho)) in Hag.
      rewrite !combine_map_mv, EX in Hag. exact Hag.
    Qed.

    Theorem slp_validated1 : validate1 F kx kout p = true ->
      forall xs, List.length xs = List.length kx ->
      slp_eval O zi p [xs] = Ok (map snd (F R O (combine kx xs))) /\ keys (F R O (combine kx xs)) = kout.
    Proof.
      intros Hv xs Hx.
      destruct (validated1_gen agree_exact agrees_exact agree_exact_sound Hv xs Hx) as [vs [He [Hvs Hk]]].
      subst vs. split; assumption.
    Qed.

    Theorem slp_validated1c : validate1c F kx kout p = true ->
      forall xs, List.length xs = List.length kx ->
      exists vs, slp_eval O zi p [xs] = Ok vs /\ List.length vs = List.length kout /\
                 forall K, coeff O K (combine kout vs) = coeff O K (F R O (combine kx xs)).
    Proof.
      intros Hv xs Hx.
      destruct (validated1_gen agree_coeff agrees_coeff agree_coeff_sound Hv xs Hx) as [vs [He [Hl Hc]]].
      exists vs. auto.
    Qed.

    Theorem slp_validated1_wrong_length agree : validate1_with agree F kx kout p = true ->
      forall xs, List.length xs <> List.length kx -> slp_eval O zi p [xs] = Err EValue.
    Proof.
      intros Hv xs Hl. unfold validate1_with in Hv. cbv zeta in Hv.
      destruct (slp_eval PolyOps P_of_Z p [indets 0 (List.length kx)]) as [out|e] eqn:E; [|discriminate].
      destruct (slp_eval_ok_shape1 _ _ _ _ _ E) as [nx [Hu Hnx]]. rewrite length_indets in Hnx.
      unfold slp_eval. rewrite Hu. cbn [bind_args]. unfold bind_unpack at 1. rewrite Hnx.
      destruct (Nat.eqb (List.length kx) (List.length xs)) eqn:E1; cbn [bind]; [|reflexivity].
      apply Nat.eqb_eq in E1. exfalso. apply Hl. congruence.
    Qed.
  End Un.
End Validated.

(* ---------------------------------------------------------------- completeness of the comparison
   The programs and the model operators keep kingdon's polynomials in canonical form (Theory/Poly.v: Inv), and on
   canonical forms == is exact: a FAILED validation is a raised exception on indeterminates, a different key list /
   arity, or a position (a blade) whose two polynomials differ in a formal coefficient.  (A non-zero integer
   polynomial has a non-root among the integers: the harness exhibits it by evaluating both at integer points.) *)

Theorem PolyOps_closed : ops_closed PolyOps Inv.
Proof.
  constructor; cbn [PolyOps o_zero o_one o_add o_sub o_mul o_neg].
  - apply Inv_P_of_Z. - apply Inv_P_of_Z. - apply Inv_padd. - apply Inv_psub.
  - intros a b Ha Hb. apply InvS_Inv. apply InvS_pmul; assumption.
  - apply Inv_pneg.
Qed.

Section Closed.
  Context {R : Type} (O : ops R) (inj : Z -> R) (Q : R -> Prop).
  Hypothesis Hc : ops_closed O Q.
  Hypothesis Hi : forall z, Q (inj z).

  Definition env_all (rho : @senv R) : Prop := Forall (fun p => Q (snd p)) rho.

  Lemma slookup_all rho v x : env_all rho -> slookup v rho = Some x -> Q x.
  Proof.
    induction rho as [|[w y] r IH]; cbn [slookup]; intros Ha E; [discriminate|].
    inversion Ha as [|? ? Hy Hr]; subst. destruct (String.eqb w v); [injection E as <-; exact Hy | apply IH; assumption].
  Qed.

  Lemma pow_nat_closed x n : Q x -> Q (pow_nat O x n).
  Proof. intros Hx. induction n as [|n IH]; cbn [pow_nat]; [apply (cl_one _ _ Hc) | apply (cl_mul _ _ Hc); assumption]. Qed.

  Lemma sexp_eval_closed rho e x : env_all rho -> sexp_eval O inj rho e = Ok x -> Q x.
  Proof.
    intros Ha. revert x. induction e as [v|z|a IHa b IHb|a IHa b IHb|a IHa b IHb|a IHa|a IHa n]; intros x; cbn [sexp_eval].
    - destruct (slookup v rho) as [y|] eqn:E; cbn [of_opt]; [|discriminate]. intros H. injection H as <-.
      apply (slookup_all rho v y Ha E).
    - intros H. injection H as <-. apply Hi.
    - destruct (sexp_eval O inj rho a) as [u|]; cbn [bind]; [|discriminate].
      destruct (sexp_eval O inj rho b) as [w|]; cbn [bind]; [|discriminate]. intros H. injection H as <-.
      apply (cl_add _ _ Hc); [apply IHa | apply IHb]; reflexivity.
    - destruct (sexp_eval O inj rho a) as [u|]; cbn [bind]; [|discriminate].
      destruct (sexp_eval O inj rho b) as [w|]; cbn [bind]; [|discriminate]. intros H. injection H as <-.
      apply (cl_sub _ _ Hc); [apply IHa | apply IHb]; reflexivity.
    - destruct (sexp_eval O inj rho a) as [u|]; cbn [bind]; [|discriminate].
      destruct (sexp_eval O inj rho b) as [w|]; cbn [bind]; [|discriminate]. intros H. injection H as <-.
      apply (cl_mul _ _ Hc); [apply IHa | apply IHb]; reflexivity.
    - destruct (sexp_eval O inj rho a) as [u|]; cbn [bind]; [|discriminate]. intros H. injection H as <-.
      apply (cl_neg _ _ Hc). apply IHa. reflexivity.
    - destruct (sexp_eval O inj rho a) as [u|]; cbn [bind]; [|discriminate]. intros H. injection H as <-.
      apply pow_nat_closed. apply IHa. reflexivity.
  Qed.

  Lemma bind_args_closed unp : forall rho args rho', env_all rho -> Forall (Forall Q) args ->
    bind_args rho unp args = Ok rho' -> env_all rho'.
  Proof.
    induction unp as [|ns unp IH]; intros rho [|a args] rho' Hr Ha; cbn [bind_args]; try discriminate.
    - intros E. injection E as <-. exact Hr.
    - unfold bind_unpack. destruct (Nat.eqb (List.length ns) (List.length a)); cbn [bind]; [|discriminate].
      inversion Ha as [|? ? Ha1 Ha2]; subst. apply IH; [|exact Ha2].
      apply Forall_app. split; [|exact Hr]. apply Forall_rev.
      clear -Ha1. revert a Ha1. induction ns as [|n ns IHn]; intros [|x a] Ha1; cbn [combine]; try constructor.
      + inversion Ha1; subst. assumption.
      + inversion Ha1; subst. apply IHn. assumption.
  Qed.

  Lemma run_lets_closed lets : forall rho rho', env_all rho -> run_lets O inj rho lets = Ok rho' -> env_all rho'.
  Proof.
    induction lets as [|[v e] r IH]; intros rho rho' Hr; cbn [run_lets].
    - intros E. injection E as <-. exact Hr.
    - destruct (sexp_eval O inj rho e) as [x|] eqn:E; cbn [bind]; [|discriminate].
      apply IH. constructor; [apply (sexp_eval_closed rho e x Hr E) | exact Hr].
  Qed.

  Lemma res_mapM_closed rho es : forall out, env_all rho -> res_mapM (sexp_eval O inj rho) es = Ok out -> Forall Q out.
  Proof.
    induction es as [|e es IH]; intros out Hr; cbn [res_mapM].
    - intros E. injection E as <-. constructor.
    - destruct (sexp_eval O inj rho e) as [x|] eqn:E; cbn [bind]; [|discriminate].
      destruct (res_mapM (sexp_eval O inj rho) es) as [xs|]; cbn [bind]; [|discriminate].
      intros H. injection H as <-. constructor; [apply (sexp_eval_closed rho e x Hr E) | apply IH; [exact Hr | reflexivity]].
  Qed.

  Theorem slp_eval_closed p args out : Forall (Forall Q) args -> slp_eval O inj p args = Ok out -> Forall Q out.
  Proof.
    intros Ha. unfold slp_eval.
    destruct (bind_args [] (p_unpack p) args) as [rho|] eqn:Eb; cbn [bind]; [|discriminate].
    destruct (run_lets O inj rho (p_lets p)) as [rho'|] eqn:El; cbn [bind]; [|discriminate].
    apply res_mapM_closed. apply (run_lets_closed _ _ _ (bind_args_closed _ _ _ _ (Forall_nil _) Ha Eb) El).
  Qed.
End Closed.

Lemma Inv_indets off n : Forall Inv (indets off n).
Proof. unfold indets. apply Forall_forall. intros q Hq. apply in_map_iff in Hq. destruct Hq as [v [<- _]]. apply InvS_Inv, InvS_P_of_var. Qed.

Lemma all_coeffs_combine {T} (Q : T -> Prop) ks (l : list T) : Forall Q l -> all_coeffs Q (combine ks l).
Proof.
  intros H. revert ks. induction H as [|a l Ha Hl IH]; intros [|k ks]; cbn [combine]; try constructor; [exact Ha | apply IH].
Qed.

(* a natural operator maps operands with canonical coefficients to a result with canonical coefficients *)
Lemma natural_bin_Inv F : natural_bin F -> forall x y, all_coeffs Inv x -> all_coeffs Inv y -> all_coeffs Inv (F poly PolyOps x y).
Proof.
  intros HF x y Hx Hy.
  apply (rel_closed2 PolyOps Inv PolyOps_closed (fun T O (_ : alg) => F T O)
           (fun T1 T2 O1 O2 g Hg _ x y => HF T1 T2 O1 O2 g Hg x y) (mk_default [] 1 false) x y Hx Hy).
Qed.
Lemma natural_un_Inv F : natural_un F -> forall x, all_coeffs Inv x -> all_coeffs Inv (F poly PolyOps x).
Proof.
  intros HF x Hx.
  apply (rel_closed1 PolyOps Inv PolyOps_closed (fun T O (_ : alg) => F T O)
           (fun T1 T2 O1 O2 g Hg _ x => HF T1 T2 O1 O2 g Hg x) (mk_default [] 1 false) x Hx).
Qed.

(* canonical polynomials that == tells apart differ in a formal coefficient (the leading one of the difference) *)
Lemma peq_false_witness p q : Inv p -> Inv q -> peq p q = false -> exists mu, coef mu p <> coef mu q.
Proof.
  intros Hp Hq Hne.
  assert (Hr : Inv (psub p q)) by (apply Inv_psub; assumption).
  assert (Hnz : ~ fzero (psub p q)).
  { intros Hz. assert (E : peq p q = true); [|congruence].
    apply (peq_exact p q Hp Hq). intros mu. specialize (Hz mu). rewrite coef_psub in Hz. lia. }
  destruct (Inv_nonzero _ Hr Hnz) as [HS Hn]. destruct (psub p q) as [|a r] eqn:E; [contradiction|].
  exists (snd a). destruct (InvS_coef_head a r HS) as [H1 H2]. rewrite <- E, coef_psub in H1. lia.
Qed.

Lemma peq_list_false (a b : list poly) : Forall Inv a -> Forall Inv b -> list_eqb peq a b = false ->
  List.length a <> List.length b \/
  exists i q m mu, nth_error a i = Some q /\ nth_error b i = Some m /\ coef mu q <> coef mu m.
Proof.
  intros Ha. revert b. induction Ha as [|q a Hq Ha IH]; intros [|m b] Hb; cbn [list_eqb List.length]; intros H;
    try discriminate; try (left; discriminate).
  inversion Hb as [|? ? Hm Hb']; subst.
  destruct (peq q m) eqn:E; cbn [andb] in H.
  - destruct (IH b Hb' H) as [Hl | [i [q' [m' [mu [H1 [H2 H3]]]]]]]; [left; intros El; apply Hl; injection El; auto|].
    right. exists (S i), q', m', mu. auto.
  - right. destruct (peq_false_witness q m Hq Hm E) as [mu Hmu]. exists 0%nat, q, m, mu. auto.
Qed.

Theorem validate2_complete F : natural_bin F -> forall kx ky kout p,
  let X := indets 0 (List.length kx) in let Y := indets (List.length kx) (List.length ky) in
  let M := F poly PolyOps (combine kx X) (combine ky Y) in
  validate2 F kx ky kout p = false ->
  (exists e, slp_eval PolyOps P_of_Z p [X; Y] = Err e) \/ kout <> keys M \/
  exists out, slp_eval PolyOps P_of_Z p [X; Y] = Ok out /\
    (List.length out <> List.length M \/
     exists i q m mu, nth_error out i = Some q /\ nth_error (map snd M) i = Some m /\ coef mu q <> coef mu m).
Proof.
  intros HF kx ky kout p X Y M Hv. unfold validate2, validate2_with in Hv. cbv zeta in Hv. fold X Y M in Hv.
  destruct (slp_eval PolyOps P_of_Z p [X; Y]) as [out|e] eqn:E; [|left; exists e; reflexivity]. right.
  unfold agree_exact in Hv. destruct (list_eqb Z.eqb kout (keys M)) eqn:Ek; cbn [andb] in Hv.
  - right. exists out. split; [reflexivity|].
    assert (Ho : Forall Inv out).
    { apply (slp_eval_closed PolyOps P_of_Z Inv PolyOps_closed Inv_P_of_Z p [X; Y] out); [|exact E].
      repeat constructor; apply Inv_indets. }
    assert (Hm : Forall Inv (map snd M)).
    { apply Forall_map. apply (natural_bin_Inv F HF); apply all_coeffs_combine; apply Inv_indets. }
    destruct (peq_list_false out (map snd M) Ho Hm Hv) as [Hl|Hw]; [left; rewrite map_length in Hl; exact Hl | right; exact Hw].
  - left. intros Heq. subst kout. clear -Ek. induction (keys M) as [|k l IH]; cbn [list_eqb] in Ek; [discriminate|].
    rewrite Z.eqb_refl in Ek. cbn [andb] in Ek. apply IH. exact Ek.
Qed.

Theorem validate1_complete F : natural_un F -> forall kx kout p,
  let X := indets 0 (List.length kx) in
  let M := F poly PolyOps (combine kx X) in
  validate1 F kx kout p = false ->
  (exists e, slp_eval PolyOps P_of_Z p [X] = Err e) \/ kout <> keys M \/
  exists out, slp_eval PolyOps P_of_Z p [X] = Ok out /\
    (List.length out <> List.length M \/
     exists i q m mu, nth_error out i = Some q /\ nth_error (map snd M) i = Some m /\ coef mu q <> coef mu m).
Proof.
  intros HF kx kout p X M Hv. unfold validate1, validate1_with in Hv. cbv zeta in Hv. fold X M in Hv.
  destruct (slp_eval PolyOps P_of_Z p [X]) as [out|e] eqn:E; [|left; exists e; reflexivity]. right.
  unfold agree_exact in Hv. destruct (list_eqb Z.eqb kout (keys M)) eqn:Ek; cbn [andb] in Hv.
  - right. exists out. split; [reflexivity|].
    assert (Ho : Forall Inv out).
    { apply (slp_eval_closed PolyOps P_of_Z Inv PolyOps_closed Inv_P_of_Z p [X] out); [|exact E].
      repeat constructor; apply Inv_indets. }
    assert (Hm : Forall Inv (map snd M)).
    { apply Forall_map. apply (natural_un_Inv F HF); apply all_coeffs_combine; apply Inv_indets. }
    destruct (peq_list_false out (map snd M) Ho Hm Hv) as [Hl|Hw]; [left; rewrite map_length in Hl; exact Hl | right; exact Hw].
  - left. intros Heq. subst kout. clear -Ek. induction (keys M) as [|k l IH]; cbn [list_eqb] in Ek; [discriminate|].
    rewrite Z.eqb_refl in Ek. cbn [andb] in Ek. apply IH. exact Ek.
Qed.

(* ---------------------------------------------------------------- (e) closed examples (non-vacuity) *)
Local Open Scope string_scope.

(* what Algebra(2).gp[(1, 2), (1, 2)] is today, with cse off / as sympy.cse could have written it *)
Definition ex_gp : prog :=
  mkProg [["a1"; "a2"]; ["b1"; "b2"]] []
         [XAdd (XMul (XVar "a1") (XVar "b1")) (XMul (XVar "a2") (XVar "b2"));
          XSub (XMul (XVar "a1") (XVar "b2")) (XMul (XVar "a2") (XVar "b1"))].
Definition ex_gp_cse : prog :=
  mkProg [["a1"; "a2"]; ["b1"; "b2"]] [("x0", XMul (XVar "a1") (XVar "b2")); ("x1", XMul (XVar "b1") (XVar "a2"))]
         [XAdd (XMul (XVar "a1") (XVar "b1")) (XMul (XVar "a2") (XVar "b2")); XSub (XVar "x0") (XVar "x1")].
(* one sign flipped / the last cse assignment dropped / a wrong symbol reused *)
Definition ex_gp_sign : prog :=
  mkProg [["a1"; "a2"]; ["b1"; "b2"]] []
         [XAdd (XMul (XVar "a1") (XVar "b1")) (XMul (XVar "a2") (XVar "b2"));
          XAdd (XMul (XVar "a1") (XVar "b2")) (XMul (XVar "a2") (XVar "b1"))].
Definition ex_gp_dropped : prog :=
  mkProg [["a1"; "a2"]; ["b1"; "b2"]] [("x0", XMul (XVar "a1") (XVar "b2"))]
         [XAdd (XMul (XVar "a1") (XVar "b1")) (XMul (XVar "a2") (XVar "b2")); XSub (XVar "x0") (XVar "x1")].
Definition ex_gp_reused : prog :=
  mkProg [["a1"; "a2"]; ["b1"; "b2"]] [("x0", XMul (XVar "a1") (XVar "b2")); ("x1", XMul (XVar "b1") (XVar "a2"))]
         [XAdd (XMul (XVar "a1") (XVar "b1")) (XMul (XVar "a2") (XVar "b2")); XSub (XVar "x0") (XVar "x0")].
(* Algebra(2).sw[(0, 3), (1, 2)] with cse: x0 = a**2; x1 = 2*a*a12; x2 = a12**2 *)
Definition ex_sw : prog :=
  mkProg [["a"; "a12"]; ["b1"; "b2"]]
         [("x0", XPow (XVar "a") 2); ("x1", XMul (XMul (XInt 2) (XVar "a")) (XVar "a12")); ("x2", XPow (XVar "a12") 2)]
         [XAdd (XSub (XMul (XVar "b1") (XVar "x0")) (XMul (XVar "b1") (XVar "x2"))) (XMul (XVar "b2") (XVar "x1"));
          XSub (XAdd (XMul (XNeg (XVar "b1")) (XVar "x1")) (XMul (XVar "b2") (XVar "x0"))) (XMul (XVar "b2") (XVar "x2"))].
Definition ex_A2 : alg := mk_default [1; 1] 1 false.

Example ex_validates :
  validate2 (model2 G2gp ex_A2) [1; 2] [1; 2] [0; 3] ex_gp = true /\
  validate2 (model2 G2gp ex_A2) [1; 2] [1; 2] [0; 3] ex_gp_cse = true /\
  validate2c (model2 G2sw ex_A2) [0; 3] [1; 2] [1; 2] ex_sw = true /\
  validate2 (model2 G2sw ex_A2) [0; 3] [1; 2] [1; 2] ex_sw = true.
Proof. vm_compute. repeat split. Qed.

Example ex_rejected :
  validate2 (model2 G2gp ex_A2) [1; 2] [1; 2] [0; 3] ex_gp_sign = false /\
  validate2 (model2 G2gp ex_A2) [1; 2] [1; 2] [0; 3] ex_gp_dropped = false /\
  validate2 (model2 G2gp ex_A2) [1; 2] [1; 2] [0; 3] ex_gp_reused = false /\
  validate2 (model2 G2gp ex_A2) [1; 2] [1; 2] [3; 0] ex_gp = false /\        (* the keys are part of the comparison *)
  validate2 (model2 G2op ex_A2) [1; 2] [1; 2] [0; 3] ex_gp = false /\        (* ... and so is the operator *)
  validate2 (model2 G2gp (mk_default [1; -1] 1 false)) [1; 2] [1; 2] [0; 3] ex_gp = false /\   (* ... and the signature *)
  validate2c (model2 G2gp ex_A2) [1; 2] [1; 2] [0; 3] ex_gp_sign = false.
Proof. vm_compute. repeat split. Qed.

(* the theorem applied: the validated text computes the geometric product of ANY two vectors over the integers,
   and raises on operands of another length; cse_sound and inline on the cse version *)
Example ex_applied : forall a1 a2 b1 b2 : Z,
  slp_eval Zops (zinj Z 0 1 Z.add Z.mul Z.opp) ex_gp_cse [[a1; a2]; [b1; b2]]
  = Ok (map snd (gp Zops ex_A2 [(1, a1); (2, a2)] [(1, b1); (2, b2)])).
Proof.
  intros. apply (slp_validated2 Z 0 1 Z.add Z.mul Z.sub Z.opp Zth (model2 G2gp ex_A2) (model2_natural G2gp ex_A2)
                   [1; 2] [1; 2] [0; 3] ex_gp_cse); [vm_compute|..]; reflexivity.
Qed.
Example ex_inline : inline ex_gp_cse =
  mkProg [["a1"; "a2"]; ["b1"; "b2"]] []
         [XAdd (XMul (XVar "a1") (XVar "b1")) (XMul (XVar "a2") (XVar "b2"));
          XSub (XMul (XVar "a1") (XVar "b2")) (XMul (XVar "b1") (XVar "a2"))] /\
  well_scoped ex_gp_cse = true /\ well_scoped ex_gp_dropped = true /\
  well_scoped (mkProg [["a"]] [("x0", XVar "x1"); ("x1", XVar "a")] [XVar "a"]) = false.
Proof. vm_compute. repeat split. Qed.
(* without well-scopedness cse_sound is false: an unused let that raises NameError disappears by inlining *)
Example ex_cse_needs_scoping :
  let p := mkProg [["a"]] [("x0", XVar "x1"); ("x1", XVar "a")] [XVar "a"] in
  slp_eval Zops (fun z => z) p [[5]] = Err EOther /\ slp_eval Zops (fun z => z) (inline p) [[5]] = Ok [5].
Proof. vm_compute. split; reflexivity. Qed.
