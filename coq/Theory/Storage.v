(* Theory/Storage.v — theorems about Model/Storage.v (property C16: storage, indexing, assignment, operand
   normalisation).  No ring structure is needed anywhere: every statement holds for an arbitrary coefficient
   type R.

     A. 1-D arrays: set_nth / write_pos / pick (frame, hit, round trips).
     B. subscripts: norm_int raises IndexError exactly outside [-n, n); a slice never raises IndexError, its
        positions are in range and pairwise distinct; the meaning of a positive-step slice.
     C. __getitem__: X[idx] has the keys of X in the same order and holds for every key exactly
        values[key][idx], for the three storage kinds; which subscripts raise.
     D. __setitem__: frame (whatever happens, only addressed entries of a coefficient can change), exactness
        and the getitem-after-setitem round trip for a multivector whose coefficients have the addressed
        shape, scalar broadcast for list storage, setitem-of-getitem is the identity; the storage-dependent
        broadcast of scalar coefficients into an ndarray slice (witness).
     E. operands: call_binary with enough fuel equals a fuel-free structural specification
        (eval_tree (denote l) (denote r)); scalar wrapping, sequences on either side, nested callables and
        their compositions are corollaries.
     F. non-vacuity examples. *)
From Coq Require Import List ZArith Bool Lia Arith.
From KV Require Import Model.Storage.
Import ListNotations.

(* ================================================================================================
   A. lists and 1-D arrays *)
Section Arrays.
  Context {R : Type}.
  Implicit Types (a vs : list R) (ps : list nat).

  Lemma nth_error_ext_eq (l l' : list R) : (forall i, nth_error l i = nth_error l' i) -> l = l'.
  Proof.
    revert l'. induction l as [|x l IH]; intros [|y l'] H.
    - reflexivity.
    - specialize (H 0). discriminate.
    - specialize (H 0). discriminate.
    - pose proof (H 0) as H0. cbn in H0. injection H0 as ->. f_equal. apply IH. intro i. exact (H (S i)).
  Qed.

  Lemma set_nth_length p v a : length (set_nth p v a) = length a.
  Proof. revert p. induction a as [|x a IH]; intros [|p]; cbn; auto. Qed.

  Lemma nth_error_set_nth p v a q :
    nth_error (set_nth p v a) q = if Nat.eqb q p && Nat.ltb p (length a) then Some v else nth_error a q.
  Proof.
    revert p q. induction a as [|x a IH]; intros p q.
    - cbn. destruct p; cbn; rewrite andb_false_r; reflexivity.
    - destruct p as [|p], q as [|q]; cbn [set_nth nth_error length]; try reflexivity.
      rewrite IH. reflexivity.
  Qed.

  Lemma set_nth_same p x a : nth_error a p = Some x -> set_nth p x a = a.
  Proof.
    revert p. induction a as [|y a IH]; intros [|p] H; cbn in *; try discriminate.
    - injection H as ->. reflexivity.
    - f_equal. apply IH, H.
  Qed.

  Lemma write_pos_length ps vs a : length (write_pos ps vs a) = length a.
  Proof.
    revert vs a. induction ps as [|p ps IH]; intros [|v vs] a; cbn; auto.
    rewrite IH. apply set_nth_length.
  Qed.

  (* frame: a position that is not addressed keeps its value -- no hypothesis at all *)
  Lemma write_pos_frame ps vs a q : ~ In q ps -> nth_error (write_pos ps vs a) q = nth_error a q.
  Proof.
    revert vs a. induction ps as [|p ps IH]; intros [|v vs] a Hq; cbn; auto.
    rewrite IH by (intro; apply Hq; right; assumption).
    rewrite nth_error_set_nth.
    destruct (Nat.eqb_spec q p) as [->|]; [exfalso; apply Hq; left; reflexivity | reflexivity].
  Qed.

  (* hit: the t-th addressed position receives the t-th value *)
  Lemma write_pos_hit ps vs a t p :
    NoDup ps -> Forall (fun p => p < length a) ps -> length vs = length ps ->
    nth_error ps t = Some p -> nth_error (write_pos ps vs a) p = nth_error vs t.
  Proof.
    revert vs a t. induction ps as [|p0 ps IH]; intros vs a t Hnd Hin Hlen Ht.
    - destruct t; discriminate.
    - destruct vs as [|v0 vs]; [discriminate|]. cbn [write_pos].
      inversion Hnd as [|? ? Hnot Hnd']; subst. inversion Hin as [|? ? Hp0 Hin']; subst.
      destruct t as [|t]; cbn in Ht.
      + injection Ht as <-. rewrite write_pos_frame by assumption.
        rewrite nth_error_set_nth, Nat.eqb_refl. apply Nat.ltb_lt in Hp0. rewrite Hp0. reflexivity.
      + cbn [nth_error]. apply IH; auto.
        * rewrite set_nth_length. assumption.
        * cbn in Hlen. lia.
  Qed.

  Lemma pick_cons p ps a x : nth_error a p = Some x -> pick (p :: ps) a = x :: pick ps a.
  Proof. intro H. unfold pick. cbn. rewrite H. reflexivity. Qed.

  Lemma in_range_nth a p : p < length a -> exists x, nth_error a p = Some x.
  Proof. intro H. destruct (nth_error a p) eqn:E; [eauto|]. apply nth_error_None in E. lia. Qed.

  Lemma pick_length ps a : Forall (fun p => p < length a) ps -> length (pick ps a) = length ps.
  Proof.
    induction 1 as [|p ps Hp _ IH]; [reflexivity|].
    destruct (in_range_nth _ _ Hp) as [x Hx]. rewrite (pick_cons _ _ _ _ Hx). cbn. f_equal. exact IH.
  Qed.

  Lemma nth_error_pick ps a t : Forall (fun p => p < length a) ps ->
    nth_error (pick ps a) t = match nth_error ps t with Some p => nth_error a p | None => None end.
  Proof.
    intro H. revert t. induction H as [|p ps Hp _ IH]; intro t.
    - destruct t; reflexivity.
    - destruct (in_range_nth _ _ Hp) as [x Hx]. rewrite (pick_cons _ _ _ _ Hx).
      destruct t; cbn; [symmetry; exact Hx | apply IH].
  Qed.

  (* reading back what was written *)
  Lemma pick_write ps vs a :
    NoDup ps -> Forall (fun p => p < length a) ps -> length vs = length ps -> pick ps (write_pos ps vs a) = vs.
  Proof.
    intros Hnd Hin Hlen. apply nth_error_ext_eq. intro t.
    rewrite nth_error_pick by (rewrite write_pos_length; assumption).
    destruct (nth_error ps t) as [p|] eqn:Ht.
    - eapply write_pos_hit; eassumption.
    - symmetry. apply nth_error_None. apply nth_error_None in Ht. lia.
  Qed.

  (* writing back what was read *)
  Lemma write_pick ps a : Forall (fun p => p < length a) ps -> write_pos ps (pick ps a) a = a.
  Proof.
    induction 1 as [|p ps Hp _ IH]; [reflexivity|].
    destruct (in_range_nth _ _ Hp) as [x Hx]. rewrite (pick_cons _ _ _ _ Hx). cbn [write_pos].
    rewrite (set_nth_same _ _ _ Hx). exact IH.
  Qed.

  Lemma nth_error_seq k n t : nth_error (seq k n) t = if Nat.ltb t n then Some (k + t) else None.
  Proof.
    revert k t. induction n as [|n IH]; intros k t.
    - destruct t; reflexivity.
    - destruct t; cbn [seq nth_error].
      + cbn. f_equal. lia.
      + rewrite IH. change (S t <? S n) with (t <? n). destruct (t <? n); [f_equal; lia | reflexivity].
  Qed.

  Lemma seq_in_range n : Forall (fun p => p < n) (seq 0 n).
  Proof. apply Forall_forall. intros p Hp. apply in_seq in Hp. lia. Qed.

  (* the empty subscript addresses the whole array *)
  Lemma pick_seq a : pick (seq 0 (length a)) a = a.
  Proof.
    apply nth_error_ext_eq. intro t. rewrite nth_error_pick by apply seq_in_range.
    rewrite nth_error_seq. destruct (Nat.ltb_spec t (length a)); [reflexivity|].
    symmetry. apply nth_error_None. lia.
  Qed.

  Lemma pick_repeat_write ps c a : NoDup ps -> Forall (fun p => p < length a) ps ->
    pick ps (write_pos ps (repeat c (length ps)) a) = repeat c (length ps).
  Proof. intros. apply pick_write; auto. apply repeat_length. Qed.
End Arrays.

(* mapM: all succeed, or the first failure *)
Section MapMFacts.
  Context {A B : Type} (f : A -> res B).

  Lemma mapM_Ok l l' : mapM f l = Ok l' <-> Forall2 (fun a b => f a = Ok b) l l'.
  Proof.
    revert l'. induction l as [|a l IH]; intro l'; cbn.
    - split; [intros [= <-]; constructor | inversion 1; reflexivity].
    - destruct (f a) as [b|e] eqn:E; cbn.
      + destruct (mapM f l) as [bs|e] eqn:E'; cbn.
        * split.
          -- intros [= <-]. constructor; [assumption | apply IH; reflexivity].
          -- inversion 1 as [|? ? ? ? H1 H2]; subst. rewrite E in H1. injection H1 as <-.
             apply IH in H2. injection H2 as <-. reflexivity.
        * split; [discriminate|]. inversion 1 as [|? ? ? ? H1 H2]; subst. apply IH in H2. discriminate.
      + split; [discriminate|]. inversion 1 as [|? ? ? ? H1 H2]; subst. rewrite E in H1. discriminate.
  Qed.

  (* the exception of a failing comprehension is the one of the FIRST failing element *)
  Lemma mapM_Err l e : mapM f l = Err e <->
    exists pre x post bs, l = pre ++ x :: post /\ Forall2 (fun a b => f a = Ok b) pre bs /\ f x = Err e.
  Proof.
    induction l as [|a l IH]; cbn.
    - split; [discriminate|]. intros (pre & x & post & bs & H & _). destruct pre; discriminate.
    - destruct (f a) as [b|e0] eqn:E; cbn.
      + destruct (mapM f l) as [bs|e1] eqn:E'; cbn.
        * split; [discriminate|]. intros (pre & x & post & bs' & H & H1 & H2).
          destruct pre as [|a' pre]; cbn in H; injection H as -> ->; [rewrite E in H2; discriminate|].
          inversion H1; subst.
          assert (Err e = Ok bs :> res (list B)) as Hc; [|discriminate].
          apply (proj2 IH). eauto 8.
        * split.
          -- intros [= ->]. destruct (proj1 IH eq_refl) as (pre & x & post & bs' & -> & H1 & H2).
             exists (a :: pre), x, post, (b :: bs'). repeat split; auto.
          -- intros (pre & x & post & bs' & H & H1 & H2).
             destruct pre as [|a' pre]; cbn in H; injection H as -> ->; [rewrite E in H2; discriminate|].
             inversion H1; subst. f_equal.
             assert (Err e1 = Err e :> res (list B)) as Hc; [|injection Hc; auto].
             apply (proj2 IH). eauto 8.
      + split.
        * intros [= ->]. exists [], a, l, []. repeat split; auto.
        * intros (pre & x & post & bs' & H & H1 & H2).
          destruct pre as [|a' pre]; cbn in H; injection H as -> ->.
          -- rewrite E in H2. exact H2.
          -- inversion H1; subst. congruence.
  Qed.

  Lemma mapM_ext_in (g : A -> res B) l : (forall a, In a l -> f a = g a) -> mapM f l = mapM g l.
  Proof.
    induction l as [|a l IH]; intro H; cbn; [reflexivity|].
    rewrite (H a (or_introl eq_refl)), IH; [reflexivity|]. intros; apply H; right; assumption.
  Qed.
End MapMFacts.

Lemma mapM_map {A B C} (f : B -> res C) (g : A -> B) l : mapM f (map g l) = mapM (fun a => f (g a)) l.
Proof. induction l as [|a l IH]; cbn; [reflexivity|]. rewrite IH. reflexivity. Qed.
